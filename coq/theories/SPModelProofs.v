(* SPModelProofs.v — lemmas about the service-provider acceptance model. *)
From Coq Require Import Btauto.
From Saml Require Import Base BaseProofs TimeModel SPModel.

Local Open Scope Z_scope.

(* ---------- small facts ---------- *)

Lemma guard_ok b code : is_ok (guard b code) = b.
Proof. destruct b; reflexivity. Qed.

Lemma guard_inv b code x : guard b code = Ok x -> b = true.
Proof. destruct b; simpl; congruence. Qed.

Lemma guard_true code : guard true code = Ok tt.
Proof. reflexivity. Qed.

Lemma guard_not_panic b code : guard b code <> Panic.
Proof. destruct b; simpl; congruence. Qed.

Lemma negb_ltb x y : negb (x <? y) = (y <=? x).
Proof. rewrite Z.leb_antisym. reflexivity. Qed.

Lemma bind_ok {A B} (o : outcome A) (f : A -> outcome B) b :
  bind o f = Ok b -> exists a, o = Ok a /\ f a = Ok b.
Proof. destruct o; simpl; intros H; try discriminate. eauto. Qed.

Lemma bind_not_panic {A B} (o : outcome A) (f : A -> outcome B) :
  o <> Panic -> (forall a, o = Ok a -> f a <> Panic) -> bind o f <> Panic.
Proof. destruct o; simpl; intros H1 H2; auto; congruence. Qed.

Ltac bind_as H a H1 := apply bind_ok in H; destruct H as [a [H1 H]].
Ltac bind_inv H :=
  let a := fresh "x" in let H1 := fresh "Hb" in
  apply bind_ok in H; destruct H as [a [H1 H]].

(* ---------- the field checks, characterised ---------- *)

Lemma is_ok_guard_bind b code {B} (k : outcome B) :
  is_ok (bind (guard b code) (fun _ => k)) = b && is_ok k.
Proof. destruct b; reflexivity. Qed.

(* structural conditions that hold whichever families are checked *)
Definition confs_have_data (l : list conf) : bool := forallb sc_data l.
Definition structure_ok (a : assertion) : bool :=
  match a_subject a, a_conditions a with
  | Some (_, cs), Some _ => confs_have_data cs
  | _, _ => false
  end.

Lemma validate_confs_char ck cfg ids now l :
  is_ok (validate_confs ck cfg ids now l) =
  confs_have_data l &&
  (negb (ck_reqid ck) || allow_idp_init cfg || forallb (fun sc => mem_str (sc_irt sc) ids) l) &&
  (negb (ck_addr ck) || forallb (fun sc => seqb (sc_recipient sc) (acs_url cfg)) l) &&
  (negb (ck_time ck) || forallb (conf_window cfg now) l).
Proof.
  induction l as [|sc r IH].
  - simpl. btauto.
  - cbn [validate_confs confs_have_data forallb]. rewrite !is_ok_guard_bind, IH.
    unfold conf_window at 2. rewrite <- negb_ltb. unfold confs_have_data. btauto.
Qed.

Lemma validate_confs_not_panic ck cfg ids now l : validate_confs ck cfg ids now l <> Panic.
Proof.
  induction l as [|sc r IH]; simpl; [congruence|].
  repeat (apply bind_not_panic; [apply guard_not_panic|intros _ _]). exact IH.
Qed.

Definition aud_ok (cfg : spcfg) (auds : list string) : bool :=
  match custom_aud cfg with
  | Some v => v
  | None => match auds with [] => true | _ => mem_str (first_set (sp_entity cfg) (metadata_url cfg)) auds end
  end.

Lemma validate_audience_char ck cfg auds :
  is_ok (validate_audience ck cfg auds) = (negb (ck_addr ck) || aud_ok cfg auds).
Proof.
  unfold validate_audience, aud_ok. destruct (ck_addr ck); simpl; [|reflexivity].
  destruct (custom_aud cfg) as [v|]; [apply guard_ok|]. rewrite guard_ok.
  destruct auds; reflexivity.
Qed.

Lemma validate_audience_not_panic ck cfg auds : validate_audience ck cfg auds <> Panic.
Proof.
  unfold validate_audience. destruct (ck_addr ck); simpl; [|congruence].
  destruct (custom_aud cfg); apply guard_not_panic.
Qed.

(* the exact acceptance condition of validateAssertion *)
Theorem validate_assertion_char ck cfg ids now a :
  is_ok (validate_assertion ck cfg ids now a) =
  structure_ok a &&
  (negb (ck_time ck) || time_ok_a cfg now a) &&
  (negb (ck_addr ck) || addr_ok_a cfg a) &&
  (negb (ck_reqid ck) || reqid_ok_a cfg ids a).
Proof.
  unfold validate_assertion, structure_ok, time_ok_a, addr_ok_a, reqid_ok_a.
  rewrite !is_ok_guard_bind, <- !negb_ltb.
  destruct (a_subject a) as [[nid cs]|], (a_conditions a) as [[[nb noa] auds]|];
    cbn [deref bind snd]; try btauto.
  assert (E : forall {B} (o : outcome unit) (k : outcome B), is_ok (bind o (fun _ => k)) = is_ok o && is_ok k).
  { intros B o k. destruct o as [[]| |]; reflexivity. }
  rewrite E, !is_ok_guard_bind, validate_confs_char, validate_audience_char.
  fold (aud_ok cfg auds). rewrite <- !negb_ltb. btauto.
Qed.

Lemma validate_assertion_not_panic ck cfg ids now a : validate_assertion ck cfg ids now a <> Panic.
Proof.
  unfold validate_assertion.
  apply bind_not_panic; [apply guard_not_panic|intros _ _].
  apply bind_not_panic; [apply guard_not_panic|intros _ _].
  apply bind_not_panic; [apply guard_not_panic|intros [] Hs].
  apply bind_not_panic; [apply guard_not_panic|intros [] Hc].
  apply guard_inv in Hs. apply guard_inv in Hc.
  destruct (a_subject a) as [subj|]; [|discriminate].
  destruct (a_conditions a) as [[[nb noa] auds]|]; [|discriminate].
  cbn [deref bind].
  apply bind_not_panic; [apply validate_confs_not_panic|intros _ _].
  apply bind_not_panic; [apply guard_not_panic|intros _ _].
  apply bind_not_panic; [apply guard_not_panic|intros _ _].
  apply validate_audience_not_panic.
Qed.

Lemma validate_assertion_ok_tt ck cfg ids now a :
  is_ok (validate_assertion ck cfg ids now a) = true -> validate_assertion ck cfg ids now a = Ok tt.
Proof. destruct (validate_assertion ck cfg ids now a) as [[]| |]; simpl; congruence. Qed.

(* response-level checks *)
Definition dest_ok (cfg : spcfg) (has_sig : bool) (cur : string) (r : response) : bool :=
  negb (has_sig || nonempty (r_dest r)) || seqb (r_dest r) cur || seqb (r_dest r) (acs_url cfg).

Lemma validate_request_id_char ck cfg ids irt :
  is_ok (validate_request_id ck cfg ids irt) =
  (negb (ck_reqid ck) || match custom_reqid cfg with Some v => v | None => allow_idp_init cfg || mem_str irt ids end).
Proof.
  unfold validate_request_id. destruct (ck_reqid ck); simpl; [|reflexivity].
  destruct (custom_reqid cfg); apply guard_ok.
Qed.

Lemma response_checks_char ck cfg ids now has_sig cur resp :
  is_ok (response_checks ck cfg ids now has_sig cur resp) =
  (negb (ck_addr ck) || addr_ok_r cfg has_sig cur resp) &&
  (negb (ck_reqid ck) || reqid_ok_r cfg ids resp) &&
  (negb (ck_time ck) || time_ok_r cfg now resp).
Proof.
  unfold response_checks, addr_ok_r, reqid_ok_r, time_ok_r.
  assert (E : forall {B} (o : outcome unit) (k : outcome B), is_ok (bind o (fun _ => k)) = is_ok o && is_ok k).
  { intros B o k. destruct o as [[]| |]; reflexivity. }
  rewrite is_ok_guard_bind, E, !is_ok_guard_bind, guard_ok, validate_request_id_char, <- negb_ltb.
  btauto.
Qed.

Lemma response_checks_not_panic ck cfg ids now has_sig cur resp :
  response_checks ck cfg ids now has_sig cur resp <> Panic.
Proof.
  unfold response_checks.
  apply bind_not_panic; [apply guard_not_panic|intros _ _].
  apply bind_not_panic.
  { unfold validate_request_id. destruct (ck_reqid ck); simpl; [|congruence].
    destruct (custom_reqid cfg); apply guard_not_panic. }
  intros _ _.
  apply bind_not_panic; [apply guard_not_panic|intros _ _].
  apply bind_not_panic; [apply guard_not_panic|intros _ _].
  apply guard_not_panic.
Qed.

Lemma response_checks_ok_tt ck cfg ids now has_sig cur resp :
  is_ok (response_checks ck cfg ids now has_sig cur resp) = true ->
  response_checks ck cfg ids now has_sig cur resp = Ok tt.
Proof. destruct (response_checks ck cfg ids now has_sig cur resp) as [[]| |]; simpl; congruence. Qed.

(* a non-Success status is reported as ErrBadStatus (code 2) exactly when everything
   checked before it passed *)
Lemma response_checks_bad_status cfg ids now has_sig cur resp :
  response_checks all_checks cfg ids now has_sig cur resp = Err 2 <->
  dest_ok cfg has_sig cur resp = true /\ reqid_ok_r cfg ids resp = true /\ time_ok_r cfg now resp = true /\
  match r_issuer resp with Some i => seqb i (idp_entity cfg) | None => true end = true /\
  seqb (r_status resp) STATUS_SUCCESS = false.
Proof.
  unfold response_checks, dest_ok, reqid_ok_r, time_ok_r, validate_request_id. cbn [all_checks ck_addr ck_reqid ck_time negb orb].
  rewrite <- negb_ltb.
  destruct (negb (has_sig || nonempty (r_dest resp)) || seqb (r_dest resp) cur || seqb (r_dest resp) (acs_url cfg));
    cbn [guard bind]; [|split; [discriminate|intros [? _]; discriminate]].
  destruct (custom_reqid cfg) as [v|].
  - destruct v; cbn [guard bind]; [|split; [discriminate|intros [_ [? _]]; discriminate]].
    destruct (negb (r_issue resp + max_issue_delay cfg <? now)); cbn [guard bind]; [|split; [discriminate|intros [_ [_ [? _]]]; discriminate]].
    destruct (match r_issuer resp with Some i => seqb i (idp_entity cfg) | None => true end); cbn [guard bind];
      [|split; [discriminate|intros [_ [_ [_ [? _]]]]; discriminate]].
    destruct (seqb (r_status resp) STATUS_SUCCESS); cbn [guard]; split; try discriminate; auto.
    intros [_ [_ [_ [_ ?]]]]; discriminate.
  - destruct (allow_idp_init cfg || mem_str (r_irt resp) ids); cbn [guard bind]; [|split; [discriminate|intros [_ [? _]]; discriminate]].
    destruct (negb (r_issue resp + max_issue_delay cfg <? now)); cbn [guard bind]; [|split; [discriminate|intros [_ [_ [? _]]]; discriminate]].
    destruct (match r_issuer resp with Some i => seqb i (idp_entity cfg) | None => true end); cbn [guard bind];
      [|split; [discriminate|intros [_ [_ [_ [? _]]]]; discriminate]].
    destruct (seqb (r_status resp) STATUS_SUCCESS); cbn [guard]; split; try discriminate; auto.
    intros [_ [_ [_ [_ ?]]]]; discriminate.
Qed.

(* ---------- candidates ---------- *)

Lemma first_ok_in {A} (l : list (outcome A)) a : first_ok l = Some a -> In (Ok a) l.
Proof.
  induction l as [|x r IH]; simpl; [discriminate|].
  destruct x; intros H; [inversion H; auto| |]; right; auto.
Qed.

Lemma first_ok_app {A} (l1 l2 : list (outcome A)) :
  first_ok (l1 ++ l2) = match first_ok l1 with Some a => Some a | None => first_ok l2 end.
Proof. induction l1 as [|x r IH]; simpl; [reflexivity|]. destruct x; auto. Qed.

Lemma first_fail_not_ok {A} (l : list (outcome A)) a : first_fail l <> Ok a.
Proof. induction l as [|x r IH]; simpl; [congruence|]. destruct x; auto; congruence. Qed.

(* the first success among the candidates is the first success of parse_assertion over cand_elems *)
Lemma enc_first_ok ck cfg ids now need l :
  first_ok (map (parse_encrypted ck cfg ids now need) (filter is_enc l)) =
  first_ok (map (parse_assertion ck cfg ids now need)
              (flat_map (fun k => match k with EncN _ st p => if st =? 0 then [p] else [] | _ => [] end) l)).
Proof.
  induction l as [|k l IH]; [reflexivity|].
  destruct k as [ns tag at_ ks|s| |sh u sg ki ov|cid st p]; cbn [filter is_enc flat_map app]; auto.
  cbn [map first_ok parse_encrypted]. rewrite map_app, first_ok_app.
  destruct (st =? 0); cbn [map first_ok]; [|exact IH].
  destruct (parse_assertion ck cfg ids now need p); auto.
Qed.

Lemma candidates_first_ok ck cfg ids now need r :
  first_ok (candidates ck cfg ids now need r) =
  first_ok (map (parse_assertion ck cfg ids now need) (cand_elems r)).
Proof.
  unfold candidates, cand_elems. rewrite map_app, !first_ok_app, enc_first_ok. reflexivity.
Qed.

Lemma parse_assertion_ok ck cfg ids now need e a :
  parse_assertion ck cfg ids now need e = Ok a <->
  (need = true -> validate_signature cfg e = SValid) /\ un_assertion e = Ok a /\
  is_ok (validate_assertion ck cfg ids now a) = true.
Proof.
  unfold parse_assertion. split.
  - intros H. bind_inv H. bind_inv H. bind_inv H. inversion H; subst. split; [|split]; auto.
    + intros ->. apply guard_inv in Hb. destruct (validate_signature cfg e); simpl in Hb; congruence.
    + rewrite Hb1. reflexivity.
  - intros [Hs [Hu Hv]]. rewrite Hu. apply validate_assertion_ok_tt in Hv.
    destruct need; cbn [bind]; [rewrite (Hs eq_refl); cbn [sigv_eqb guard bind]|]; rewrite Hv; reflexivity.
Qed.

Lemma time_attr_not_panic nm a : time_attr nm a <> Panic.
Proof.
  unfold time_attr, parse_relaxed. destruct (negb _); [congruence|].
  destruct (parse_layout true _); try congruence; destruct (parse_layout false _); congruence.
Qed.

Lemma map_o_not_panic {A B} (f : A -> outcome B) l : (forall x, f x <> Panic) -> map_o f l <> Panic.
Proof.
  intros Hf. induction l as [|x r IH]; simpl; [congruence|].
  apply bind_not_panic; [apply Hf|intros y _]. apply bind_not_panic; [exact IH|intros; congruence].
Qed.

Lemma un_conf_not_panic x : un_conf x <> Panic.
Proof.
  unfold un_conf. destruct (child_any _ _); [|intros; congruence].
  apply bind_not_panic; [apply time_attr_not_panic|intros _ _].
  apply bind_not_panic; [apply time_attr_not_panic|intros; congruence].
Qed.

Lemma un_assertion_not_panic n : un_assertion n <> Panic.
Proof.
  unfold un_assertion. destruct n; try congruence.
  destruct (negb _); [congruence|].
  apply bind_not_panic; [apply time_attr_not_panic|intros y0 _].
  apply bind_not_panic.
  { destruct (child_ns NS_A "Subject" kids); [|intros; congruence].
    apply bind_not_panic; [|intros; congruence]. apply map_o_not_panic, un_conf_not_panic. }
  intros y _. apply bind_not_panic; [|intros; congruence].
  destruct (child_any "Conditions" kids); [|intros; congruence].
  apply bind_not_panic; [apply time_attr_not_panic|intros y1 _].
  apply bind_not_panic; [apply time_attr_not_panic|intros; congruence].
Qed.

Lemma parse_assertion_not_panic ck cfg ids now need e : parse_assertion ck cfg ids now need e <> Panic.
Proof.
  unfold parse_assertion.
  apply bind_not_panic; [destruct need; [apply guard_not_panic|intros; congruence]|intros _ _].
  apply bind_not_panic; [apply un_assertion_not_panic|].
  intros a _. apply bind_not_panic; [apply validate_assertion_not_panic|intros; congruence].
Qed.

(* monotonicity between check sets: dropping a family only accepts more, with the same result *)
Definition weaker (ck' ck : checks) : Prop :=
  (ck_time ck' = true -> ck_time ck = true) /\ (ck_addr ck' = true -> ck_addr ck = true) /\
  (ck_reqid ck' = true -> ck_reqid ck = true).

Lemma validate_assertion_mono ck' ck cfg ids now a :
  weaker ck' ck -> is_ok (validate_assertion ck cfg ids now a) = true ->
  is_ok (validate_assertion ck' cfg ids now a) = true.
Proof.
  intros [Ht [Ha Hr]]. rewrite !validate_assertion_char. revert Ht Ha Hr.
  generalize (structure_ok a) (time_ok_a cfg now a) (addr_ok_a cfg a) (reqid_ok_a cfg ids a).
  intros S T A R.
  destruct (ck_time ck'), (ck_addr ck'), (ck_reqid ck'), (ck_time ck), (ck_addr ck), (ck_reqid ck), S, T, A, R;
    simpl; intros Ht Ha Hr; auto;
    try (specialize (Ht eq_refl); discriminate); try (specialize (Ha eq_refl); discriminate);
    try (specialize (Hr eq_refl); discriminate).
Qed.

Lemma weaker_refl ck : weaker ck ck.
Proof. repeat split; auto. Qed.

Lemma all_weaker ck : weaker ck all_checks.
Proof. repeat split; auto. Qed.

(* ---------- parseResponse ---------- *)

Definition resp_sig (cfg : spcfg) (need : bool) (r : node) : sigv :=
  if need then validate_signature cfg r else SAbsent.

(* exact conditions under which parseResponse returns assertion a *)
Theorem parse_response_ok ck cfg ids now need cur r a :
  parse_response ck cfg ids now need cur r = Ok a <->
  exists resp,
    un_response r = Ok resp /\
    is_ok (response_checks ck cfg ids now (need && negb (sigv_eqb (resp_sig cfg need r) SAbsent)) cur resp) = true /\
    resp_sig cfg need r <> SInvalid /\
    first_ok (map (parse_assertion ck cfg ids now (need && sigv_eqb (resp_sig cfg need r) SAbsent)) (cand_elems r)) = Some a.
Proof.
  unfold parse_response. fold (resp_sig cfg need r). split.
  - intros H. bind_inv H. bind_inv H. bind_inv H.
    exists x. split; [assumption|]. split; [rewrite Hb0; reflexivity|].
    rewrite candidates_first_ok in H.
    assert (Hx : x1 = need && sigv_eqb (resp_sig cfg need r) SAbsent /\ resp_sig cfg need r <> SInvalid).
    { unfold resp_sig in *. destruct need; [|inversion Hb1; split; [reflexivity|discriminate]].
      destruct (validate_signature cfg r); inversion Hb1; split; try reflexivity; discriminate. }
    destruct Hx as [-> Hn]. split; [assumption|].
    destruct (first_ok _) as [a'|]; [congruence|]. exfalso. exact (first_fail_not_ok _ _ H).
  - intros [resp [Hu [Hc [Hn Hf]]]]. rewrite Hu. cbn [bind].
    apply response_checks_ok_tt in Hc. rewrite Hc. cbn [bind].
    assert (Hx : (if need then match resp_sig cfg need r with SValid => Ok false | SAbsent => Ok true | SInvalid => Err 1 end
                  else Ok false) = Ok (need && sigv_eqb (resp_sig cfg need r) SAbsent)).
    { destruct need; [|reflexivity]. destruct (resp_sig cfg true r); try reflexivity. congruence. }
    rewrite Hx. cbn [bind]. rewrite candidates_first_ok, Hf. reflexivity.
Qed.

Lemma first_ok_upgrade {A B} (f g : A -> outcome B) (P : B -> Prop) l b :
  (forall e b', f e = Ok b' -> g e = Ok b') ->
  (forall e b', g e = Ok b' -> P b' -> f e = Ok b') ->
  first_ok (map g l) = Some b -> P b -> first_ok (map f l) = Some b.
Proof.
  intros Hfg Hgf. induction l as [|e l IH]; simpl; [discriminate|].
  intros H Pb. destruct (g e) as [b'| |] eqn:Eg.
  - inversion H; subst. rewrite (Hgf _ _ Eg Pb). reflexivity.
  - destruct (f e) as [b'| |] eqn:Ef; [apply Hfg in Ef; congruence| |]; auto.
  - destruct (f e) as [b'| |] eqn:Ef; [apply Hfg in Ef; congruence| |]; auto.
Qed.

Lemma parse_assertion_mono ck' ck cfg ids now need e a :
  weaker ck' ck -> parse_assertion ck cfg ids now need e = Ok a -> parse_assertion ck' cfg ids now need e = Ok a.
Proof.
  intros W H. apply parse_assertion_ok in H. destruct H as [Hs [Hu Hv]].
  apply parse_assertion_ok. split; [|split]; auto. eapply validate_assertion_mono; eauto.
Qed.

Lemma response_checks_mono ck' ck cfg ids now hs cur resp :
  weaker ck' ck -> is_ok (response_checks ck cfg ids now hs cur resp) = true ->
  is_ok (response_checks ck' cfg ids now hs cur resp) = true.
Proof.
  intros [Ht [Ha Hr]]. rewrite !response_checks_char. revert Ht Ha Hr.
  generalize (addr_ok_r cfg hs cur resp) (reqid_ok_r cfg ids resp) (time_ok_r cfg now resp). intros A R T.
  destruct (ck_time ck'), (ck_addr ck'), (ck_reqid ck'), (ck_time ck), (ck_addr ck), (ck_reqid ck), T, A, R;
    simpl; intros Ht Ha Hr; auto;
    try (specialize (Ht eq_refl); discriminate); try (specialize (Ha eq_refl); discriminate);
    try (specialize (Hr eq_refl); discriminate).
Qed.

(* dropping a family of checks only accepts more ... *)
Theorem parse_response_mono ck' ck cfg ids now need cur r a :
  weaker ck' ck -> parse_response ck cfg ids now need cur r = Ok a ->
  exists a', parse_response ck' cfg ids now need cur r = Ok a'.
Proof.
  intros W H. apply parse_response_ok in H. destruct H as [resp [Hu [Hc [Hn Hf]]]].
  set (nd := need && sigv_eqb (resp_sig cfg need r) SAbsent) in *.
  assert (exists a', first_ok (map (parse_assertion ck' cfg ids now nd) (cand_elems r)) = Some a') as [a' Ha'].
  { clear - W Hf. induction (cand_elems r) as [|e l IH]; simpl in *; [discriminate|].
    destruct (parse_assertion ck cfg ids now nd e) eqn:E.
    - rewrite (parse_assertion_mono _ _ _ _ _ _ _ _ W E). eauto.
    - destruct (parse_assertion ck' cfg ids now nd e); eauto.
    - destruct (parse_assertion ck' cfg ids now nd e); eauto. }
  exists a'. apply parse_response_ok. exists resp. repeat split; auto.
  eapply response_checks_mono; eauto.
Qed.

(* ... and what the weaker check set accepts is accepted by the stronger one as soon as the
   response and that assertion also satisfy the stronger set's conditions *)
Theorem parse_response_upgrade ck' ck cfg ids now need cur r a resp :
  weaker ck' ck ->
  parse_response ck' cfg ids now need cur r = Ok a ->
  un_response r = Ok resp ->
  is_ok (response_checks ck cfg ids now (need && negb (sigv_eqb (resp_sig cfg need r) SAbsent)) cur resp) = true ->
  is_ok (validate_assertion ck cfg ids now a) = true ->
  parse_response ck cfg ids now need cur r = Ok a.
Proof.
  intros W H Hu Hc Hv. apply parse_response_ok in H. destruct H as [resp' [Hu' [Hc' [Hn Hf]]]].
  apply parse_response_ok. exists resp. repeat split; auto.
  set (nd := need && sigv_eqb (resp_sig cfg need r) SAbsent) in *.
  apply (first_ok_upgrade (parse_assertion ck cfg ids now nd) (parse_assertion ck' cfg ids now nd)
           (fun b => is_ok (validate_assertion ck cfg ids now b) = true)).
  - intros e b'. apply parse_assertion_mono; assumption.
  - intros e b' Hg Pb. apply parse_assertion_ok in Hg. destruct Hg as [Hs [Hue _]].
    apply parse_assertion_ok. auto.
  - exact Hf.
  - exact Hv.
Qed.

(* what an accepted response satisfies *)
Theorem parse_response_sound ck cfg ids now need cur r a :
  parse_response ck cfg ids now need cur r = Ok a ->
  exists resp e,
    un_response r = Ok resp /\ In e (cand_elems r) /\ un_assertion e = Ok a /\
    is_ok (response_checks ck cfg ids now (need && negb (sigv_eqb (resp_sig cfg need r) SAbsent)) cur resp) = true /\
    is_ok (validate_assertion ck cfg ids now a) = true /\
    resp_sig cfg need r <> SInvalid /\
    (need && sigv_eqb (resp_sig cfg need r) SAbsent = true -> validate_signature cfg e = SValid).
Proof.
  intros H. apply parse_response_ok in H. destruct H as [resp [Hu [Hc [Hn Hf]]]].
  apply first_ok_in, in_map_iff in Hf. destruct Hf as [e [He Hin]].
  apply parse_assertion_ok in He. destruct He as [Hs [Hue Hv]].
  exists resp, e. repeat split; auto.
Qed.

Theorem parse_response_not_panic ck cfg ids now need cur r : parse_response ck cfg ids now need cur r <> Panic.
Proof.
  unfold parse_response.
  apply bind_not_panic.
  { unfold un_response. apply bind_not_panic.
    - unfold un_response_named. destruct r; try congruence. destruct (negb _); [congruence|].
      apply bind_not_panic; [apply time_attr_not_panic|intros; congruence].
    - intros resp _. apply bind_not_panic; [apply map_o_not_panic, un_assertion_not_panic|intros; congruence]. }
  intros resp _. apply bind_not_panic; [apply response_checks_not_panic|intros _ _].
  apply bind_not_panic.
  { destruct need; [|congruence]. destruct (validate_signature cfg r); congruence. }
  intros nd _. rewrite candidates_first_ok.
  destruct (first_ok _); [congruence|].
  assert (forall l, Forall (fun o : outcome assertion => o <> Panic) l -> first_fail l <> Panic) as FF.
  { induction l as [|x l IH]; simpl; [congruence|]. intros HF. inversion HF; subst. destruct x; auto; congruence. }
  apply FF. unfold candidates. apply Forall_app. split; apply Forall_forall; intros o Ho;
    apply in_map_iff in Ho; destruct Ho as [e [<- _]].
  - unfold parse_encrypted. destruct e; try congruence. destruct (_ =? 0); [apply parse_assertion_not_panic|congruence].
  - apply parse_assertion_not_panic.
Qed.

(* ---------- signatures: an accepted signature is one by a configured key over this content ---------- *)

Lemma existsb_eqb_in c l : existsb (Z.eqb c) l = true <-> In c l.
Proof.
  rewrite existsb_exists. split.
  - intros [x [Hin He]]. apply Z.eqb_eq in He. subst. exact Hin.
  - intros Hin. exists c. split; [exact Hin|apply Z.eqb_refl].
Qed.

Lemma signing_roots_trusted cfg el roots c :
  signing_roots (trust cfg) el = Ok roots -> In c roots -> In c (trusted_keys cfg).
Proof.
  unfold signing_roots, trusted_keys. destruct (trust cfg) as [kds|p|alg p|].
  - destruct (meta_certs kds) as [|c0 cs] eqn:E; [discriminate|].
    destruct (forallb _ _) eqn:F; [|discriminate]. intros H Hin. inversion H; subst.
    apply filter_In. split; [exact Hin|]. rewrite forallb_forall in F. apply F. exact Hin.
  - destruct (0 <=? p) eqn:E; [|discriminate]. intros H Hin. inversion H; subst. exact Hin.
  - destruct (find _ _) as [n|]; [|discriminate].
    destruct n as [| | |sh u sg ki ov|]; try discriminate. destruct ki as [| |c'|]; try discriminate.
    destruct (0 <=? c') eqn:E; [|discriminate]. destruct (alg && (c' =? p)) eqn:E2; [|discriminate].
    intros H Hin. inversion H; subst. apply andb_prop in E2. destruct E2 as [_ E2]. apply Z.eqb_eq in E2. subst.
    rewrite E. exact Hin.
  - discriminate.
Qed.

Lemma strip_keyinfo_attrs el : node_attrs (strip_keyinfo el) = node_attrs el.
Proof. destruct el; simpl; try reflexivity. destruct (existsb has_cert kids); reflexivity. Qed.

(* C01 core: validateSignature succeeds only if the first Signature that refers to the element
   was produced by one of the configured keys over exactly this element's canonical content *)
Theorem validate_signature_covered cfg el :
  validate_signature cfg el = SValid -> covered_self cfg el = true.
Proof.
  unfold validate_signature, covered_self.
  destruct (filter is_sig (node_kids el)) as [|s [|s2 l]]; try discriminate.
  destruct (signing_roots (trust cfg) el) as [roots| |] eqn:ER; try discriminate.
  unfold dsig_validate. rewrite strip_keyinfo_attrs.
  destruct (find_sig _ (strip_keyinfo el)) as [| |uri signer ki over rest]; try discriminate.
  set (sel := match ki with KINone => _ | KIEmpty => _ | KICert c => _ | KIBad => _ end).
  destruct sel as [c|] eqn:ES; [|discriminate].
  destruct ((signer =? c) && node_eqb (canon rest) (canon over)) eqn:EV; [|discriminate].
  intros _. apply andb_prop in EV. destruct EV as [E1 E2]. apply Z.eqb_eq in E1. subst c.
  rewrite E2, andb_true_r. apply existsb_eqb_in. eapply signing_roots_trusted; [exact ER|].
  subst sel. destruct ki as [| |c|]; try discriminate.
  - destruct roots as [|c [|]]; try discriminate. inversion ES; subst. left. reflexivity.
  - destruct ((0 <=? c) && existsb (Z.eqb c) roots) eqn:E; [|discriminate]. inversion ES; subst.
    apply andb_prop in E. destruct E as [_ E]. apply existsb_eqb_in. exact E.
Qed.

(* ---------- entry points ---------- *)

Definition no_time := {| ck_time := false; ck_addr := true; ck_reqid := true |}.
Definition no_addr := {| ck_time := true; ck_addr := false; ck_reqid := true |}.
Definition no_reqid := {| ck_time := true; ck_addr := true; ck_reqid := false |}.

Lemma forallb_In {A} (f : A -> bool) l : forallb f l = true -> forall x, In x l -> f x = true.
Proof. intros H x. apply (proj1 (forallb_forall f l) H). Qed.

(* everything an accepted response satisfies (entry point ParseXMLResponse) *)
Theorem parse_xml_response_sound cfg ids now cur d a :
  parse_xml_response cfg ids now cur d = Ok a ->
  exists r resp e,
    d = DRoot r /\ un_response r = Ok resp /\ In e (cand_elems r) /\ un_assertion e = Ok a /\
    structure_ok a = true /\
    time_ok_r cfg now resp = true /\ time_ok_a cfg now a = true /\
    addr_ok_r cfg (negb (sigv_eqb (validate_signature cfg r) SAbsent)) cur resp = true /\ addr_ok_a cfg a = true /\
    reqid_ok_r cfg ids resp = true /\ reqid_ok_a cfg ids a = true /\
    (covered_self cfg r = true \/ covered_self cfg e = true).
Proof.
  unfold parse_xml_response, parse_xml_response_ck. destruct d as [| |r]; try discriminate.
  intros H. apply parse_response_sound in H.
  destruct H as [resp [e [Hu [Hin [Hue [Hc [Hv [Hn Hs]]]]]]]].
  rewrite response_checks_char in Hc. rewrite validate_assertion_char in Hv.
  cbn [all_checks ck_time ck_addr ck_reqid negb orb andb resp_sig] in *.
  apply andb_prop in Hc; destruct Hc as [Hc Hc3]. apply andb_prop in Hc; destruct Hc as [Hc1 Hc2].
  apply andb_prop in Hv; destruct Hv as [Hv Hv4]. apply andb_prop in Hv; destruct Hv as [Hv Hv3].
  apply andb_prop in Hv; destruct Hv as [Hv1 Hv2].
  exists r, resp, e. repeat split; auto.
  destruct (validate_signature cfg r) eqn:ES.
  - right. apply validate_signature_covered. apply Hs. reflexivity.
  - left. apply validate_signature_covered. exact ES.
  - congruence.
Qed.

(* an otherwise valid response inside the family's conditions is accepted *)
Theorem parse_xml_response_complete ck' cfg ids now cur r resp a :
  weaker ck' all_checks ->
  parse_xml_response_ck ck' cfg ids now cur (DRoot r) = Ok a ->
  un_response r = Ok resp ->
  time_ok_r cfg now resp = true -> time_ok_a cfg now a = true ->
  addr_ok_r cfg (negb (sigv_eqb (validate_signature cfg r) SAbsent)) cur resp = true -> addr_ok_a cfg a = true ->
  reqid_ok_r cfg ids resp = true -> reqid_ok_a cfg ids a = true ->
  parse_xml_response cfg ids now cur (DRoot r) = Ok a.
Proof.
  unfold parse_xml_response, parse_xml_response_ck. intros W H Hu T1 T2 A1 A2 R1 R2.
  assert (S : structure_ok a = true).
  { apply parse_response_sound in H. destruct H as [? [? [_ [_ [_ [_ [Hv _]]]]]]].
    rewrite validate_assertion_char in Hv. apply andb_prop in Hv; destruct Hv as [Hv _].
    apply andb_prop in Hv; destruct Hv as [Hv _]. apply andb_prop in Hv; destruct Hv as [Hv _]. exact Hv. }
  eapply parse_response_upgrade; eauto.
  - rewrite response_checks_char. cbn [all_checks ck_time ck_addr ck_reqid negb orb andb resp_sig]. rewrite A1, R1, T1. reflexivity.
  - rewrite validate_assertion_char. cbn [all_checks ck_time ck_addr ck_reqid negb orb]. rewrite S, T2, A2, R2. reflexivity.
Qed.

Theorem parse_xml_response_not_panic ck cfg ids now cur d : parse_xml_response_ck ck cfg ids now cur d <> Panic.
Proof. destruct d; simpl; try congruence. apply parse_response_not_panic. Qed.

Lemma one_child_in p kids x : one_child p kids = Ok x -> In x kids /\ p x = true.
Proof.
  unfold one_child. destruct (filter p kids) as [|y [|]] eqn:E; try discriminate.
  intros H. inversion H; subst. apply filter_In. rewrite E. left. reflexivity.
Qed.

(* ParseXMLArtifactResponse *)
Theorem parse_xml_artifact_response_sound cfg ids rid now cur d a :
  parse_xml_artifact_response cfg ids rid now cur d = Ok a ->
  exists env body ar r aresp resp e,
    d = DRoot env /\ In body (node_kids env) /\ In ar (node_kids body) /\ In r (node_kids ar) /\
    un_response_named "ArtifactResponse" ar = Ok aresp /\ un_response r = Ok resp /\
    In e (cand_elems r) /\ un_assertion e = Ok a /\
    r_irt aresp = rid /\ time_ok_r cfg now aresp = true /\
    match r_issuer aresp with Some i => seqb i (idp_entity cfg) | None => true end = true /\
    seqb (r_status aresp) STATUS_SUCCESS = true /\
    structure_ok a = true /\
    time_ok_r cfg now resp = true /\ time_ok_a cfg now a = true /\ addr_ok_a cfg a = true /\
    reqid_ok_r cfg ids resp = true /\ reqid_ok_a cfg ids a = true /\
    (covered_self cfg ar = true \/ covered_self cfg r = true \/ covered_self cfg e = true).
Proof.
  unfold parse_xml_artifact_response, parse_xml_artifact_response_ck. destruct d as [| |env]; try discriminate.
  intros H. bind_as H u0 G0. bind_as H body Hb0. bind_as H ar Hb1.
  unfold parse_artifact_response in H.
  bind_as H aresp Hua. bind_as H u1 G1. bind_as H u2 Hb4. bind_as H u3 Hb5. bind_as H u4 Hb6. bind_as H u5 Hb7.
  bind_as H need Hb8. bind_as H r Hb9.
  apply one_child_in in Hb0, Hb1, Hb9. destruct Hb0 as [I1 _], Hb1 as [I2 _], Hb9 as [I3 _].
  apply guard_inv in Hb4, Hb5, Hb6, Hb7.
  cbn [all_checks ck_time ck_addr ck_reqid negb orb] in *.
  apply parse_response_sound in H. destruct H as [resp [e [Hu [Hin [Hue [Hc [Hv [Hn Hs]]]]]]]].
  rewrite response_checks_char in Hc. rewrite validate_assertion_char in Hv.
  cbn [all_checks ck_time ck_addr ck_reqid negb orb andb] in *.
  apply andb_prop in Hc; destruct Hc as [Hc Hc3]. apply andb_prop in Hc; destruct Hc as [Hc1 Hc2].
  apply andb_prop in Hv; destruct Hv as [Hv Hv4]. apply andb_prop in Hv; destruct Hv as [Hv Hv3].
  apply andb_prop in Hv; destruct Hv as [Hv1 Hv2].
  exists env, body, ar, r, aresp, resp, e.
  repeat match goal with |- _ /\ _ => split end; auto.
  - apply String.eqb_eq. exact Hb4.
  - unfold time_ok_r. rewrite <- negb_ltb. exact Hb5.
  - destruct (validate_signature cfg ar) eqn:EA; inversion Hb8; subst.
    + unfold resp_sig in *. destruct (validate_signature cfg r) eqn:ES.
      * right; right. apply validate_signature_covered, Hs. reflexivity.
      * right; left. apply validate_signature_covered. exact ES.
      * congruence.
    + left. apply validate_signature_covered. exact EA.
Qed.

Theorem parse_xml_artifact_response_not_panic ck cfg ids rid now cur d :
  parse_xml_artifact_response_ck ck cfg ids rid now cur d <> Panic.
Proof.
  unfold parse_xml_artifact_response_ck. destruct d as [| |env]; try congruence.
  assert (OC : forall p k, one_child p k <> Panic).
  { intros p k. unfold one_child. destruct (filter p k) as [|? [|]]; congruence. }
  apply bind_not_panic; [apply guard_not_panic|intros _ _].
  apply bind_not_panic; [apply OC|intros body _].
  apply bind_not_panic; [apply OC|intros ar _].
  unfold parse_artifact_response.
  assert (UR : forall tag n, un_response_named tag n <> Panic).
  { intros tag n. unfold un_response_named. destruct n; try congruence. destruct (negb _); [congruence|].
    apply bind_not_panic; [apply time_attr_not_panic|intros; congruence]. }
  apply bind_not_panic; [apply UR|intros aresp _].
  apply bind_not_panic.
  { apply map_o_not_panic. intros x. unfold un_response. apply bind_not_panic; [apply UR|intros resp _].
    apply bind_not_panic; [apply map_o_not_panic, un_assertion_not_panic|intros; congruence]. }
  intros _ _.
  apply bind_not_panic; [apply guard_not_panic|intros _ _].
  apply bind_not_panic; [apply guard_not_panic|intros _ _].
  apply bind_not_panic; [apply guard_not_panic|intros _ _].
  apply bind_not_panic; [apply guard_not_panic|intros _ _].
  apply bind_not_panic; [destruct (validate_signature cfg ar); congruence|intros need _].
  apply bind_not_panic; [apply OC|intros r _].
  apply parse_response_not_panic.
Qed.

(* ---------- logout responses ---------- *)

Theorem validate_logout_iff cfg now d :
  validate_logout cfg now d = Ok tt <-> logout_valid cfg now d = true.
Proof.
  unfold validate_logout, logout_valid. destruct d as [| |r]; try (split; discriminate).
  destruct (sigv_eqb (validate_signature cfg r) SValid); cbn [guard bind andb]; [|split; discriminate].
  destruct (un_response_named "LogoutResponse" r) as [resp| |]; cbn [bind]; try (split; discriminate).
  rewrite <- negb_ltb.
  destruct (seqb (r_dest resp) (slo_url cfg)); cbn [guard bind andb]; [|split; discriminate].
  destruct (negb (r_issue resp + max_issue_delay cfg <? now)); cbn [guard bind andb]; [|split; discriminate].
  destruct (match r_issuer resp with Some i => seqb i (idp_entity cfg) | None => false end); cbn [guard bind andb]; [|split; discriminate].
  destruct (seqb (r_status resp) STATUS_SUCCESS); cbn [guard]; split; congruence.
Qed.

Theorem validate_logout_not_panic cfg now d : validate_logout cfg now d <> Panic.
Proof.
  unfold validate_logout. destruct d as [| |r]; try congruence.
  apply bind_not_panic; [apply guard_not_panic|intros _ _].
  apply bind_not_panic.
  { unfold un_response_named. destruct r; try congruence. destruct (negb _); [congruence|].
    apply bind_not_panic; [apply time_attr_not_panic|intros; congruence]. }
  intros resp _.
  apply bind_not_panic; [apply guard_not_panic|intros _ _].
  apply bind_not_panic; [apply guard_not_panic|intros _ _].
  apply bind_not_panic; [apply guard_not_panic|intros _ _].
  apply guard_not_panic.
Qed.

(* ---------- "an otherwise valid response ... is accepted", per family ---------- *)

Lemma accepted_facts ck cfg ids now cur r a :
  parse_xml_response_ck ck cfg ids now cur (DRoot r) = Ok a ->
  exists resp, un_response r = Ok resp /\
    is_ok (response_checks ck cfg ids now (negb (sigv_eqb (validate_signature cfg r) SAbsent)) cur resp) = true /\
    is_ok (validate_assertion ck cfg ids now a) = true.
Proof.
  unfold parse_xml_response_ck. intros H. apply parse_response_sound in H.
  destruct H as [resp [e [Hu [_ [_ [Hc [Hv _]]]]]]]. exists resp. cbn [resp_sig andb] in Hc. auto.
Qed.

Ltac split_chars Hc Hv :=
  rewrite response_checks_char in Hc; rewrite validate_assertion_char in Hv;
  cbn [ck_time ck_addr ck_reqid negb orb andb] in Hc, Hv;
  repeat match type of Hc with _ && _ = true => let H' := fresh "Hc" in apply andb_prop in Hc; destruct Hc as [Hc H'] end;
  repeat match type of Hv with _ && _ = true => let H' := fresh "Hv" in apply andb_prop in Hv; destruct Hv as [Hv H'] end.

Theorem time_family_complete cfg ids now cur r resp a :
  parse_xml_response_ck no_time cfg ids now cur (DRoot r) = Ok a ->
  un_response r = Ok resp ->
  time_ok_r cfg now resp = true -> time_ok_a cfg now a = true ->
  parse_xml_response cfg ids now cur (DRoot r) = Ok a.
Proof.
  intros H Hu T1 T2. pose proof (accepted_facts _ _ _ _ _ _ _ H) as [resp' [Hu' [Hc Hv]]].
  rewrite Hu in Hu'. inversion Hu'; subst resp'.
  rewrite response_checks_char in Hc. rewrite validate_assertion_char in Hv.
  cbn [no_time ck_time ck_addr ck_reqid negb orb andb] in Hc, Hv.
  rewrite andb_true_r in Hc, Hv.
  apply andb_prop in Hc. destruct Hc as [A1 R1].
  apply andb_prop in Hv. destruct Hv as [Hv R2]. apply andb_prop in Hv. destruct Hv as [_ A2].
  eapply parse_xml_response_complete; eauto. apply all_weaker.
Qed.

Theorem addr_family_complete cfg ids now cur r resp a :
  parse_xml_response_ck no_addr cfg ids now cur (DRoot r) = Ok a ->
  un_response r = Ok resp ->
  addr_ok_r cfg (negb (sigv_eqb (validate_signature cfg r) SAbsent)) cur resp = true -> addr_ok_a cfg a = true ->
  parse_xml_response cfg ids now cur (DRoot r) = Ok a.
Proof.
  intros H Hu A1 A2. pose proof (accepted_facts _ _ _ _ _ _ _ H) as [resp' [Hu' [Hc Hv]]].
  rewrite Hu in Hu'. inversion Hu'; subst resp'.
  rewrite response_checks_char in Hc. rewrite validate_assertion_char in Hv.
  cbn [no_addr ck_time ck_addr ck_reqid negb orb andb] in Hc, Hv.
  apply andb_prop in Hc. destruct Hc as [R1 T1].
  apply andb_prop in Hv. destruct Hv as [Hv R2]. rewrite andb_true_r in Hv. apply andb_prop in Hv. destruct Hv as [_ T2].
  eapply parse_xml_response_complete; eauto. apply all_weaker.
Qed.

Theorem reqid_family_complete cfg ids now cur r resp a :
  parse_xml_response_ck no_reqid cfg ids now cur (DRoot r) = Ok a ->
  un_response r = Ok resp ->
  reqid_ok_r cfg ids resp = true -> reqid_ok_a cfg ids a = true ->
  parse_xml_response cfg ids now cur (DRoot r) = Ok a.
Proof.
  intros H Hu R1 R2. pose proof (accepted_facts _ _ _ _ _ _ _ H) as [resp' [Hu' [Hc Hv]]].
  rewrite Hu in Hu'. inversion Hu'; subst resp'.
  rewrite response_checks_char in Hc. rewrite validate_assertion_char in Hv.
  cbn [no_reqid ck_time ck_addr ck_reqid negb orb andb] in Hc, Hv.
  apply andb_prop in Hc. destruct Hc as [Hc T1]. rewrite andb_true_r in Hc.
  rewrite andb_true_r in Hv. apply andb_prop in Hv. destruct Hv as [Hv A2]. apply andb_prop in Hv. destruct Hv as [_ T2].
  eapply parse_xml_response_complete; eauto. apply all_weaker.
Qed.

(* a non-Success status is reported as such *)
Theorem bad_status_reported cfg ids now cur r resp :
  un_response r = Ok resp ->
  dest_ok cfg (negb (sigv_eqb (validate_signature cfg r) SAbsent)) cur resp = true ->
  reqid_ok_r cfg ids resp = true -> time_ok_r cfg now resp = true ->
  match r_issuer resp with Some i => seqb i (idp_entity cfg) | None => true end = true ->
  r_status resp <> STATUS_SUCCESS ->
  parse_xml_response cfg ids now cur (DRoot r) = Err 2.
Proof.
  intros Hu D R T I S. unfold parse_xml_response, parse_xml_response_ck, parse_response. rewrite Hu. cbn [bind andb].
  assert (E : response_checks all_checks cfg ids now (negb (sigv_eqb (validate_signature cfg r) SAbsent)) cur resp = Err 2).
  { apply response_checks_bad_status. repeat split; auto. apply String.eqb_neq. exact S. }
  rewrite E. reflexivity.
Qed.

(* with no outstanding request nothing is accepted; an empty InResponseTo matches only a listed empty id *)
Theorem no_outstanding_rejects cfg now cur d a :
  allow_idp_init cfg = false -> custom_reqid cfg = None ->
  parse_xml_response cfg [] now cur d <> Ok a.
Proof.
  intros Ha Hc H. apply parse_xml_response_sound in H.
  destruct H as [r [resp [e [_ [_ [_ [_ [_ [_ [_ [_ [_ [R _]]]]]]]]]]]]].
  unfold reqid_ok_r in R. rewrite Hc, Ha in R. discriminate.
Qed.

Lemma mem_str_in x l : mem_str x l = true <-> In x l.
Proof.
  induction l as [|y l IH]; simpl; [split; [discriminate|tauto]|].
  rewrite orb_true_iff, IH. unfold seqb. rewrite String.eqb_eq. split; intros [H|H]; auto.
Qed.

(* ---------- non-vacuity ---------- *)

Example ex_accepted :
  obs_of (parse_xml_response ex_cfg ["id-0"; "id-1"] ex_now "https://sp/acs" (DRoot (ex_signed 0 (KICert 0))))
  = OAccept "a1" "alice" ["alice@example.com"].
Proof. vm_compute. reflexivity. Qed.

(* the same content signed by the encryption-use key, by an unknown key, or unsigned: rejected *)
Example ex_rejected :
  map (fun d => obs_of (parse_xml_response ex_cfg ["id-1"] ex_now "https://sp/acs" (DRoot d)))
      [ex_signed 2 (KICert 2); ex_signed 9 (KICert 9); ex_signed 9 (KICert 0); ex_signed 9 KINone; ex_unsigned]
  = [OReject 1; OReject 1; OReject 1; OReject 1; OReject 1].
Proof. vm_compute. reflexivity. Qed.

(* not outstanding / too late / bad status *)
Example ex_rejected_fields :
  (obs_of (parse_xml_response ex_cfg ["id-2"] ex_now "https://sp/acs" (DRoot (ex_signed 0 (KICert 0)))),
   obs_of (parse_xml_response ex_cfg ["id-1"] (ex_now + 60000000000) "https://sp/acs" (DRoot (ex_signed 0 (KICert 0)))))
  = (OReject 1, OReject 1).
Proof. vm_compute. reflexivity. Qed.

(* ---------- Dolev-Yao corollary ---------- *)

(* induction principle for the nested type *)
Section NodeInd.
  Variable P : node -> Prop.
  Hypothesis HEl : forall ns tag attrs kids, Forall P kids -> P (El ns tag attrs kids).
  Hypothesis HTxt : forall s, P (Txt s).
  Hypothesis HCmt : P Cmt.
  Hypothesis HSig : forall sh u sg ki ov, P ov -> P (SigN sh u sg ki ov).
  Hypothesis HEnc : forall cid st p, P p -> P (EncN cid st p).
  Fixpoint node_ind' (n : node) : P n :=
    match n with
    | El ns tag attrs kids =>
        HEl ns tag attrs kids ((fix go (l : list node) : Forall P l :=
                                  match l with [] => Forall_nil P | k :: r => Forall_cons k (node_ind' k) (go r) end) kids)
    | Txt s => HTxt s
    | Cmt => HCmt
    | SigN sh u sg ki ov => HSig sh u sg ki ov (node_ind' ov)
    | EncN cid st p => HEnc cid st p (node_ind' p)
    end.
End NodeInd.

Lemma node_eqb_eq : forall a b, node_eqb a b = true -> a = b.
Proof.
  induction a using node_ind'; intros b Hb; destruct b; simpl in Hb; try discriminate.
  - apply andb_prop in Hb. destruct Hb as [Hb Hk]. apply andb_prop in Hb. destruct Hb as [Hb Ha].
    apply andb_prop in Hb. destruct Hb as [Hn Ht].
    apply String.eqb_eq in Hn. apply String.eqb_eq in Ht. subst.
    assert (attrs = attrs0) as ->.
    { clear - Ha. revert attrs0 Ha. induction attrs as [|[p q] x IH]; intros [|[p' q'] y] Ha; try discriminate; auto.
      apply andb_prop in Ha. destruct Ha as [Ha Hr]. apply andb_prop in Ha. destruct Ha as [Hp Hq].
      apply String.eqb_eq in Hp. apply String.eqb_eq in Hq. subst. f_equal. apply IH. exact Hr. }
    assert (kids = kids0) as ->; [|reflexivity].
    clear - H Hk. revert kids0 Hk. induction H as [|u x Hu HF IH]; intros [|v y] Hk; try discriminate; auto.
    apply andb_prop in Hk. destruct Hk as [Huv Hr]. f_equal; [apply Hu; exact Huv|apply IH; exact Hr].
  - apply String.eqb_eq in Hb. subst. reflexivity.
  - reflexivity.
  - apply andb_prop in Hb. destruct Hb as [Hb Ho]. apply andb_prop in Hb. destruct Hb as [Hb Hk].
    apply andb_prop in Hb. destruct Hb as [Hb Hs]. apply andb_prop in Hb. destruct Hb as [Hsh Hu].
    apply Bool.eqb_prop in Hsh. apply String.eqb_eq in Hu. apply Z.eqb_eq in Hs. subst.
    rewrite (IHa _ Ho). f_equal.
    destruct ki, ki0; try discriminate; auto. apply Z.eqb_eq in Hk. subst. reflexivity.
  - apply andb_prop in Hb. destruct Hb as [Hb Hp]. apply andb_prop in Hb. destruct Hb as [Hc Hs].
    apply Z.eqb_eq in Hc. apply Z.eqb_eq in Hs. subst. rewrite (IHa _ Hp). reflexivity.
Qed.

Lemma sigs_in_kid r k : In k (node_kids r) -> incl (sigs_in k) (sigs_in r).
Proof.
  destruct r as [ns tag attrs kids| | | |]; simpl; try contradiction.
  induction kids as [|x l IH]; simpl; [contradiction|].
  intros [->|Hin]; [apply incl_appl, incl_refl|apply incl_appr, IH, Hin].
Qed.

Lemma sigs_in_cand r e : In e (cand_elems r) -> incl (sigs_in e) (sigs_in r).
Proof.
  unfold cand_elems. intros Hin. apply in_app_or in Hin. destruct Hin as [Hin|Hin].
  - apply in_flat_map in Hin. destruct Hin as [k [Hk He]].
    destruct k as [| | | |cid st p]; try contradiction. destruct (st =? 0); [|contradiction].
    destruct He as [->|[]]. apply (sigs_in_kid r (EncN cid st e) Hk).
  - apply filter_In in Hin. destruct Hin as [Hk _]. apply sigs_in_kid. exact Hk.
Qed.

(* the signature goxmldsig settles on is one that occurs in the element *)
Lemma find_sig_in id : forall n uu ss kk oo rest, find_sig id n = FHit uu ss kk oo rest -> In (ss, oo) (sigs_in n).
Proof.
  induction n using node_ind'; intros uu ss kk oo rest Hf; simpl in Hf; try discriminate.
  unfold fmap in Hf.
  match type of Hf with match ?g kids with _ => _ end = _ => destruct (g kids) as [| |u' s' k' o' rest'] eqn:E; try discriminate end.
  inversion Hf; subst. clear Hf. simpl.
  revert rest' E. induction H as [|x l Hx HF IH]; intros rest' E; [discriminate|].
  destruct x as [ns' tag' at' ks'|t| |sh ur sg ki ov|cid st p].
  - destruct (find_sig id (El ns' tag' at' ks')) as [| |u2 s2 k2 o2 r2] eqn:E2.
    + unfold fmap in E. match type of E with match ?g l with _ => _ end = _ => destruct (g l) eqn:E3; try discriminate end.
      inversion E; subst. apply in_or_app. right. eapply IH. reflexivity.
    + discriminate.
    + inversion E; subst. apply in_or_app. left. eapply Hx. reflexivity.
  - unfold fmap in E. match type of E with match ?g l with _ => _ end = _ => destruct (g l) eqn:E3; try discriminate end.
    inversion E; subst. simpl. eapply IH. reflexivity.
  - unfold fmap in E. match type of E with match ?g l with _ => _ end = _ => destruct (g l) eqn:E3; try discriminate end.
    inversion E; subst. simpl. eapply IH. reflexivity.
  - destruct (negb sh); [discriminate|]. destruct (uri_matches ur id).
    + inversion E; subst. left. reflexivity.
    + unfold fmap in E. match type of E with match ?g l with _ => _ end = _ => destruct (g l) eqn:E3; try discriminate end.
      inversion E; subst. right. eapply IH. reflexivity.
  - unfold fmap in E. match type of E with match ?g l with _ => _ end = _ => destruct (g l) eqn:E3; try discriminate end.
    inversion E; subst. apply in_or_app. right. eapply IH. reflexivity.
Qed.

Lemma sigs_in_el ns tag attrs kids : sigs_in (El ns tag attrs kids) = flat_map sigs_in kids.
Proof. simpl. induction kids as [|k l IH]; simpl; [reflexivity|]. rewrite IH. reflexivity. Qed.

Lemma remove_first_incl p l : incl (flat_map sigs_in (remove_first p l)) (flat_map sigs_in l).
Proof.
  induction l as [|x l IH]; simpl; [apply incl_refl|].
  destruct (p x); simpl; [apply incl_appr, incl_refl|].
  apply incl_app; [apply incl_appl, incl_refl|apply incl_appr, IH].
Qed.

Lemma strip_first_incl l : incl (flat_map sigs_in (strip_first_keyinfo l)) (flat_map sigs_in l).
Proof.
  induction l as [|x l IH]; [apply incl_refl|].
  cbn [strip_first_keyinfo]. destruct (sigtagged x) eqn:E.
  - destruct x as [ns t a ks|s| |sh u sg ki ov|cid st p]; cbn [flat_map]; try apply incl_refl.
    rewrite !sigs_in_el. apply incl_app; [apply incl_appl, remove_first_incl|apply incl_appr, incl_refl].
  - cbn [flat_map]. apply incl_app; [apply incl_appl, incl_refl|apply incl_appr, IH].
Qed.

Lemma sigs_in_strip e : incl (sigs_in (strip_keyinfo e)) (sigs_in e).
Proof.
  destruct e as [ns t a kids|s| |sh u sg ki ov|cid st p]; cbn [strip_keyinfo]; try apply incl_refl.
  destruct (existsb has_cert kids); [apply incl_refl|]. rewrite !sigs_in_el. apply strip_first_incl.
Qed.

(* the keys the SP trusts sign nothing but (canonical equivalents of) the elements in H *)
Definition honest_signers (cfg : spcfg) (H : list node) (doc : node) : Prop :=
  forall signer over, In (signer, over) (sigs_in doc) -> In signer (trusted_keys cfg) ->
                      exists h, In h H /\ canon over = canon h.

Lemma covered_honest cfg H doc e :
  honest_signers cfg H doc -> incl (sigs_in e) (sigs_in doc) -> covered_self cfg e = true ->
  exists h uri signer ki over rest,
    In h H /\ find_sig (attr "ID" (node_attrs e)) (strip_keyinfo e) = FHit uri signer ki over rest /\
    canon rest = canon h.
Proof.
  intros Hh Hincl Hc. unfold covered_self in Hc.
  destruct (find_sig _ (strip_keyinfo e)) as [| |uri signer ki over rest] eqn:E; try discriminate.
  apply andb_prop in Hc. destruct Hc as [Ht Hq]. apply existsb_eqb_in in Ht. apply node_eqb_eq in Hq.
  destruct (Hh signer over) as [h [Hin Hcan]]; auto.
  { apply Hincl. apply sigs_in_strip. eapply find_sig_in. exact E. }
  exists h, uri, signer, ki, over, rest. repeat split; auto. congruence.
Qed.

(* C01 against an attacker who lacks the IdP keys: whatever tree is presented, if every
   Signature in it that was made with a trusted key is one the IdP made over an element of H,
   then the returned assertion is read from an element that is - up to comments and the
   signature itself - an element of H, or a child of a Response that is *)
Theorem accepted_content_was_signed cfg H ids now cur r a :
  honest_signers cfg H r ->
  parse_xml_response cfg ids now cur (DRoot r) = Ok a ->
  exists e h uri signer ki over rest,
    In e (cand_elems r) /\ un_assertion e = Ok a /\ In h H /\ canon rest = canon h /\
    (find_sig (attr "ID" (node_attrs e)) (strip_keyinfo e) = FHit uri signer ki over rest \/
     find_sig (attr "ID" (node_attrs r)) (strip_keyinfo r) = FHit uri signer ki over rest).
Proof.
  intros Hh Hp. apply parse_xml_response_sound in Hp.
  destruct Hp as [r' [resp [e [Hd [_ [Hin [Hu Hrest]]]]]]]. inversion Hd; subst r'.
  repeat match type of Hrest with _ /\ _ => destruct Hrest as [_ Hrest] end.
  destruct Hrest as [Hc|Hc].
  - destruct (covered_honest cfg H r r Hh (incl_refl _) Hc) as [h [uri [signer [ki [over [rest [Hi [Hf Hcan]]]]]]]].
    exists e, h, uri, signer, ki, over, rest. repeat split; auto.
  - destruct (covered_honest cfg H r e Hh (sigs_in_cand r e Hin) Hc) as [h [uri [signer [ki [over [rest [Hi [Hf Hcan]]]]]]]].
    exists e, h, uri, signer, ki, over, rest. repeat split; auto.
Qed.

(* ---------- the unmarshaller reads only what [visible] keeps ---------- *)

Fixpoint vgo (l : list node) : list node :=
  match l with
  | [] => []
  | (El _ t _ _ as k) :: r => if seqb t "Signature" then vgo r else visible k :: vgo r
  | (EncN _ _ _ as k) :: r => k :: vgo r
  | _ :: r => vgo r
  end.

Lemma visible_el ns tag attrs kids :
  visible (El ns tag attrs kids) = El ns tag attrs (Txt (chardata kids) :: vgo kids).
Proof. reflexivity. Qed.

Lemma visible_attrs n : node_attrs (visible n) = node_attrs n.
Proof. destruct n; reflexivity. Qed.

(* predicates that select element children by name, never a Signature *)
Definition name_pred (p : node -> bool) : Prop :=
  (forall n, p n = true -> exists ns t a ks, n = El ns t a ks /\ seqb t "Signature" = false) /\
  (forall ns t a ks ks', p (El ns t a ks) = p (El ns t a ks')).

Lemma named_pred ns tag : seqb tag "Signature" = false -> name_pred (named ns tag).
Proof.
  intros Ht. split.
  - intros n H. destruct n as [n' t a ks| | | |]; simpl in H; try discriminate.
    exists n', t, a, ks. split; [reflexivity|]. apply andb_prop in H. destruct H as [_ H].
    apply String.eqb_eq in H. subst. exact Ht.
  - reflexivity.
Qed.

Lemma tagged_pred tag : seqb tag "Signature" = false -> name_pred (tagged tag).
Proof.
  intros Ht. split.
  - intros n H. destruct n as [n' t a ks| | | |]; simpl in H; try discriminate.
    exists n', t, a, ks. split; [reflexivity|]. apply String.eqb_eq in H. subst. exact Ht.
  - reflexivity.
Qed.

Lemma filter_vgo p l : name_pred p -> filter p (vgo l) = map visible (filter p l).
Proof.
  intros [P1 P2]. induction l as [|k l IH]; [reflexivity|].
  destruct k as [n t a ks|s| |sh u sg ki ov|cid st q]; cbn [vgo filter].
  - destruct (seqb t "Signature") eqn:Et.
    + destruct (p (El n t a ks)) eqn:Ep; [|exact IH].
      destruct (P1 _ Ep) as [n' [t' [a' [ks' [Heq Hs]]]]]. inversion Heq; subst. congruence.
    + cbn [filter]. rewrite visible_el at 1. rewrite (P2 n t a _ ks).
      destruct (p (El n t a ks)); cbn [map]; rewrite IH; reflexivity.
  - destruct (p (Txt s)) eqn:Ep; [destruct (P1 _ Ep) as [? [? [? [? [Heq _]]]]]; discriminate|exact IH].
  - destruct (p Cmt) eqn:Ep; [destruct (P1 _ Ep) as [? [? [? [? [Heq _]]]]]; discriminate|exact IH].
  - destruct (p (SigN sh u sg ki ov)) eqn:Ep; [destruct (P1 _ Ep) as [? [? [? [? [Heq _]]]]]; discriminate|exact IH].
  - cbn [filter]. destruct (p (EncN cid st q)) eqn:Ep; [destruct (P1 _ Ep) as [? [? [? [? [Heq _]]]]]; discriminate|exact IH].
Qed.

Lemma chardata_vgo l : chardata (vgo l) = "".
Proof.
  induction l as [|k l IH]; [reflexivity|].
  destruct k as [n t a ks|s| |sh u sg ki ov|cid st q]; cbn [vgo]; try exact IH.
  destruct (seqb t "Signature"); [exact IH|]. rewrite visible_el. cbn [chardata]. exact IH.
Qed.

Lemma chardata_visible_kids n : chardata (node_kids (visible n)) = chardata (node_kids n).
Proof.
  destruct n as [ns t a ks| | | |]; try reflexivity.
  rewrite visible_el. cbn [node_kids chardata]. rewrite chardata_vgo. apply app_nil_r_s.
Qed.

Lemma filter_visible_kids p n : name_pred p -> filter p (node_kids (visible n)) = map visible (filter p (node_kids n)).
Proof.
  intros Hp. destruct n as [ns t a ks| | | |]; try reflexivity.
  rewrite visible_el. cbn [node_kids filter].
  destruct (p (Txt (chardata ks))) eqn:Ep.
  - destruct Hp as [P1 _]. destruct (P1 _ Ep) as [? [? [? [? [Heq _]]]]]. discriminate.
  - apply filter_vgo. exact Hp.
Qed.

Lemma filter_flat_map {A B} (p : B -> bool) (f : A -> list B) l :
  filter p (flat_map f l) = flat_map (fun x => filter p (f x)) l.
Proof. induction l as [|x l IH]; simpl; [reflexivity|]. rewrite filter_app, IH. reflexivity. Qed.

Lemma map_flat_map {A B C} (g : B -> C) (f : A -> list B) l :
  map g (flat_map f l) = flat_map (fun x => map g (f x)) l.
Proof. induction l as [|x l IH]; simpl; [reflexivity|]. rewrite map_app, IH. reflexivity. Qed.

Lemma flat_map_map {A B C} (f : B -> list C) (g : A -> B) l :
  flat_map f (map g l) = flat_map (fun x => f (g x)) l.
Proof. induction l as [|x l IH]; simpl; [reflexivity|]. rewrite IH. reflexivity. Qed.

Lemma flat_map_ext' {A B} (f g : A -> list B) l : (forall x, f x = g x) -> flat_map f l = flat_map g l.
Proof. intros H. induction l as [|x l IH]; simpl; [reflexivity|]. rewrite H, IH. reflexivity. Qed.

Lemma last_opt_map {A B} (f : A -> B) l : last_opt (map f l) = option_map f (last_opt l).
Proof.
  induction l as [|x l IH]; [reflexivity|]. destruct l as [|y l]; [reflexivity|].
  change (last_opt (map f (x :: y :: l))) with (last_opt (map f (y :: l))). rewrite IH. reflexivity.
Qed.

(* K' shows the same named element children as K, made visible *)
Definition vis_kids (K K' : list node) : Prop :=
  forall p, name_pred p -> filter p K' = map visible (filter p K).
Definition vis_merged (m m' : merged) : Prop :=
  mg_attrs m' = mg_attrs m /\ mg_text m' = mg_text m /\ vis_kids (mg_kids m) (mg_kids m').
Definition vis_omerged (o o' : option merged) : Prop :=
  match o, o' with None, None => True | Some m, Some m' => vis_merged m m' | _, _ => False end.

Lemma vis_kids_visible n : vis_kids (node_kids n) (node_kids (visible n)).
Proof. intros p Hp. apply filter_visible_kids. exact Hp. Qed.

Lemma merge_map_visible els : vis_omerged (merge els) (merge (map visible els)).
Proof.
  unfold merge. rewrite last_opt_map. destruct (last_opt els) as [l|]; simpl; [|exact I].
  repeat split.
  - rewrite flat_map_map. apply flat_map_ext'. intros x. apply visible_attrs.
  - apply chardata_visible_kids.
  - intros p Hp. cbn [mg_kids]. rewrite flat_map_map, !filter_flat_map, map_flat_map.
    apply flat_map_ext'. intros x. apply filter_visible_kids. exact Hp.
Qed.

Lemma child_vis p K K' : name_pred p -> vis_kids K K' -> vis_omerged (merge (filter p K)) (merge (filter p K')).
Proof. intros Hp HK. rewrite (HK p Hp). apply merge_map_visible. Qed.

Lemma sig_false_SCD : seqb "SubjectConfirmationData" "Signature" = false. Proof. reflexivity. Qed.

Lemma un_conf_visible n : un_conf (visible n) = un_conf n.
Proof.
  unfold un_conf, child_any.
  pose proof (child_vis (tagged "SubjectConfirmationData") _ _ (tagged_pred "SubjectConfirmationData" eq_refl) (vis_kids_visible n)) as H.
  destruct (merge (filter _ (node_kids n))) as [m|], (merge (filter _ (node_kids (visible n)))) as [m'|]; simpl in H; try contradiction; [|reflexivity].
  destruct H as [Ha _]. rewrite Ha. reflexivity.
Qed.

Lemma un_audience_visible n : un_audience (visible n) = un_audience n.
Proof.
  unfold un_audience, child_any.
  pose proof (child_vis (tagged "Audience") _ _ (tagged_pred "Audience" eq_refl) (vis_kids_visible n)) as H.
  destruct (merge (filter _ (node_kids n))) as [m|], (merge (filter _ (node_kids (visible n)))) as [m'|]; simpl in H; try contradiction; [|reflexivity].
  destruct H as [_ [Ht _]]. exact Ht.
Qed.

Lemma un_attrvals_visible n : un_attrvals (visible n) = un_attrvals n.
Proof.
  unfold un_attrvals. rewrite (filter_visible_kids _ n (tagged_pred "Attribute" eq_refl)), flat_map_map.
  apply flat_map_ext'. intros at_.
  rewrite (filter_visible_kids _ at_ (tagged_pred "AttributeValue" eq_refl)), map_map.
  apply map_ext. intros v. apply chardata_visible_kids.
Qed.

Lemma map_o_map_ext {A B C} (f : B -> outcome C) (g : A -> B) (h : A -> outcome C) l :
  (forall x, f (g x) = h x) -> map_o f (map g l) = map_o h l.
Proof. intros H. induction l as [|x l IH]; simpl; [reflexivity|]. rewrite H, IH. reflexivity. Qed.

(* what is read from an element is read from its visible part *)
Theorem un_assertion_visible e : un_assertion (visible e) = un_assertion e.
Proof.
  destruct e as [ns tag attrs kids| | | |]; try reflexivity.
  rewrite visible_el. set (K' := Txt (chardata kids) :: vgo kids).
  assert (HK : vis_kids kids K') by (exact (vis_kids_visible (El ns tag attrs kids))).
  unfold un_assertion. destruct (negb (seqb ns NS_A && seqb tag "Assertion")); [reflexivity|].
  destruct (time_attr "IssueInstant" attrs) as [issue| |]; cbn [bind]; try reflexivity.
  (* Subject *)
  assert (HS : match child_ns NS_A "Subject" K' with
               | None => Ok None
               | Some s => do cs <- map_o un_conf (filter (tagged "SubjectConfirmation") (mg_kids s));
                           Ok (Some (match child_any "NameID" (mg_kids s) with Some m => mg_text m | None => "" end, cs))
               end =
               match child_ns NS_A "Subject" kids with
               | None => Ok None
               | Some s => do cs <- map_o un_conf (filter (tagged "SubjectConfirmation") (mg_kids s));
                           Ok (Some (match child_any "NameID" (mg_kids s) with Some m => mg_text m | None => "" end, cs))
               end).
  { unfold child_ns.
    pose proof (child_vis (named NS_A "Subject") _ _ (named_pred NS_A "Subject" eq_refl) HK) as H.
    destruct (merge (filter _ kids)) as [s|], (merge (filter _ K')) as [s'|]; simpl in H; try contradiction; [|reflexivity].
    destruct H as [_ [_ Hk]].
    rewrite (Hk _ (tagged_pred "SubjectConfirmation" eq_refl)), (map_o_map_ext _ _ un_conf _ un_conf_visible).
    unfold child_any.
    pose proof (child_vis (tagged "NameID") _ _ (tagged_pred "NameID" eq_refl) Hk) as Hn.
    destruct (merge (filter (tagged "NameID") (mg_kids s))) as [m|], (merge (filter (tagged "NameID") (mg_kids s'))) as [m'|];
      simpl in Hn; try contradiction; [|reflexivity].
    destruct Hn as [_ [Ht _]]. rewrite Ht. reflexivity. }
  rewrite HS. clear HS.
  destruct (match child_ns NS_A "Subject" kids with None => _ | Some s => _ end) as [subj| |]; cbn [bind]; try reflexivity.
  (* Conditions *)
  assert (HC : match child_any "Conditions" K' with
               | None => Ok None
               | Some c => do nb <- time_attr "NotBefore" (mg_attrs c); do noa <- time_attr "NotOnOrAfter" (mg_attrs c);
                           Ok (Some (nb, noa, map un_audience (filter (tagged "AudienceRestriction") (mg_kids c))))
               end =
               match child_any "Conditions" kids with
               | None => Ok None
               | Some c => do nb <- time_attr "NotBefore" (mg_attrs c); do noa <- time_attr "NotOnOrAfter" (mg_attrs c);
                           Ok (Some (nb, noa, map un_audience (filter (tagged "AudienceRestriction") (mg_kids c))))
               end).
  { unfold child_any.
    pose proof (child_vis (tagged "Conditions") _ _ (tagged_pred "Conditions" eq_refl) HK) as H.
    destruct (merge (filter _ kids)) as [c|], (merge (filter _ K')) as [c'|]; simpl in H; try contradiction; [|reflexivity].
    destruct H as [Ha [_ Hk]]. rewrite Ha, (Hk _ (tagged_pred "AudienceRestriction" eq_refl)), map_map.
    rewrite (map_ext _ _ un_audience_visible). reflexivity. }
  rewrite HC. clear HC.
  destruct (match child_any "Conditions" kids with None => _ | Some c => _ end) as [cond| |]; cbn [bind]; try reflexivity.
  f_equal. f_equal.
  - unfold child_ns.
    pose proof (child_vis (named NS_A "Issuer") _ _ (named_pred NS_A "Issuer" eq_refl) HK) as H.
    destruct (merge (filter _ kids)) as [m|], (merge (filter _ K')) as [m'|]; simpl in H; try contradiction; [|reflexivity].
    destruct H as [_ [Ht _]]. exact Ht.
  - rewrite (HK _ (tagged_pred "AttributeStatement" eq_refl)), flat_map_map.
    apply flat_map_ext'. exact un_attrvals_visible.
Qed.

(* ---------- canonicalisation, signature removal and KeyInfo stripping leave the visible part alone ---------- *)

Fixpoint cgo (l : list node) : list node :=
  match l with [] => [] | Cmt :: r => cgo r | k :: r => canon k :: cgo r end.

Lemma canon_el ns tag attrs kids : canon (El ns tag attrs kids) = El ns tag attrs (merge_txt (cgo kids)).
Proof. reflexivity. Qed.

Lemma chardata_merge_txt l : chardata (merge_txt l) = chardata l.
Proof.
  induction l as [|k l IH]; [reflexivity|].
  destruct k as [n t a ks|s| |sh u sg ki ov|cid st q]; cbn [merge_txt chardata]; try exact IH.
  destruct (merge_txt l) as [|k' l'] eqn:E; cbn [chardata]; [rewrite <- IH; reflexivity|].
  destruct k'; cbn [chardata]; rewrite <- IH; cbn [chardata]; try reflexivity.
  apply app_assoc_s.
Qed.

Lemma vgo_merge_txt l : vgo (merge_txt l) = vgo l.
Proof.
  induction l as [|k l IH]; [reflexivity|].
  destruct k as [n t a ks|s| |sh u sg ki ov|cid st q]; cbn [merge_txt vgo]; try (rewrite IH; reflexivity).
  destruct (merge_txt l) as [|k' l'] eqn:E; cbn [vgo]; [rewrite <- IH; reflexivity|].
  destruct k'; cbn [vgo]; rewrite <- IH; reflexivity.
Qed.

Lemma chardata_cgo l : chardata (cgo l) = chardata l.
Proof.
  induction l as [|k l IH]; [reflexivity|].
  destruct k as [n t a ks|s| |sh u sg ki ov|cid st q]; cbn [cgo].
  - rewrite canon_el. cbn [chardata]. exact IH.
  - cbn [canon chardata]. rewrite IH. reflexivity.
  - exact IH.
  - cbn [canon chardata]. exact IH.
  - cbn [canon chardata]. exact IH.
Qed.

Theorem visible_canon : forall n, visible (canon n) = visible n.
Proof.
  induction n using node_ind'; try reflexivity.
  rewrite canon_el, !visible_el, chardata_merge_txt, chardata_cgo, vgo_merge_txt.
  assert (vgo (cgo kids) = vgo kids) as ->; [|reflexivity].
  induction H as [|k l Hk HF IH]; [reflexivity|].
  destruct k as [n t a ks|s| |sh u sg ki ov|cid st q]; cbn [cgo vgo]; try exact IH.
  - rewrite canon_el. cbn [vgo]. destruct (seqb t "Signature"); [exact IH|].
    rewrite <- canon_el, Hk, IH. reflexivity.
  - cbn [canon vgo]. rewrite IH. reflexivity.
Qed.

Lemma find_sig_el_shape id n u s k o rest :
  find_sig id n = FHit u s k o rest ->
  exists ns tag attrs kids kids', n = El ns tag attrs kids /\ rest = El ns tag attrs kids'.
Proof.
  destruct n as [ns tag attrs kids| | | |]; simpl; try discriminate.
  unfold fmap. match goal with |- match ?g kids with _ => _ end = _ -> _ => destruct (g kids) eqn:E; try discriminate end.
  intros H. inversion H; subst. eauto 7.
Qed.

(* removing the Signature goxmldsig found changes nothing the unmarshaller can see *)
Theorem visible_find_sig id : forall n u s k o rest, find_sig id n = FHit u s k o rest -> visible rest = visible n.
Proof.
  induction n using node_ind'; intros uu ss kk oo rest Hf; simpl in Hf; try discriminate.
  unfold fmap in Hf.
  match type of Hf with match ?g kids with _ => _ end = _ => destruct (g kids) as [| |u' s' k' o' rest'] eqn:E; try discriminate end.
  inversion Hf; subst. clear Hf. rewrite !visible_el.
  assert (chardata rest' = chardata kids /\ vgo rest' = vgo kids) as [E1 E2]; [|rewrite E1, E2; reflexivity].
  revert rest' E. induction H as [|x l Hx HF IH]; intros rest' E; [discriminate|].
  destruct x as [ns' tag' at' ks'|t| |sh ur sg ki ov|cid st p].
  - destruct (find_sig id (El ns' tag' at' ks')) as [| |u2 s2 k2 o2 r2] eqn:E2.
    + unfold fmap in E. match type of E with match ?g l with _ => _ end = _ => destruct (g l) eqn:E3; try discriminate end.
      inversion E; subst. destruct (IH _ eq_refl) as [A B]. cbn [chardata vgo]. rewrite A, B. split; reflexivity.
    + discriminate.
    + inversion E; subst.
      destruct (find_sig_el_shape _ _ _ _ _ _ _ E2) as [n1 [t1 [a1 [k1 [k1' [Hn Hr]]]]]]. inversion Hn; subst.
      cbn [chardata vgo]. split; [reflexivity|].
      destruct (seqb t1 "Signature"); [reflexivity|]. rewrite (Hx _ _ _ _ _ eq_refl). reflexivity.
  - unfold fmap in E. match type of E with match ?g l with _ => _ end = _ => destruct (g l) eqn:E3; try discriminate end.
    inversion E; subst. destruct (IH _ eq_refl) as [A B]. cbn [chardata vgo]. rewrite A, B. split; reflexivity.
  - unfold fmap in E. match type of E with match ?g l with _ => _ end = _ => destruct (g l) eqn:E3; try discriminate end.
    inversion E; subst. destruct (IH _ eq_refl) as [A B]. cbn [chardata vgo]. rewrite A, B. split; reflexivity.
  - destruct (negb sh); [discriminate|]. destruct (uri_matches ur id).
    + inversion E; subst. split; reflexivity.
    + unfold fmap in E. match type of E with match ?g l with _ => _ end = _ => destruct (g l) eqn:E3; try discriminate end.
      inversion E; subst. destruct (IH _ eq_refl) as [A B]. cbn [chardata vgo]. rewrite A, B. split; reflexivity.
  - unfold fmap in E. match type of E with match ?g l with _ => _ end = _ => destruct (g l) eqn:E3; try discriminate end.
    inversion E; subst. destruct (IH _ eq_refl) as [A B]. cbn [chardata vgo]. rewrite A, B. split; reflexivity.
Qed.

Lemma strip_first_visible l : chardata (strip_first_keyinfo l) = chardata l /\ vgo (strip_first_keyinfo l) = vgo l.
Proof.
  induction l as [|x l [A B]]; [split; reflexivity|].
  cbn [strip_first_keyinfo]. destruct (sigtagged x) eqn:E.
  - destruct x as [ns t a ks|s| |sh u sg ki ov|cid st p]; try discriminate; cbn [chardata vgo]; [|split; reflexivity].
    simpl in E. rewrite E. split; reflexivity.
  - destruct x as [ns t a ks|s| |sh u sg ki ov|cid st p]; cbn [chardata vgo]; rewrite ?A, ?B; split; reflexivity.
Qed.

Theorem visible_strip e : visible (strip_keyinfo e) = visible e.
Proof.
  destruct e as [ns t a kids| | | |]; try reflexivity. cbn [strip_keyinfo].
  destruct (existsb has_cert kids); [reflexivity|].
  rewrite !visible_el. destruct (strip_first_visible kids) as [A B]. rewrite A, B. reflexivity.
Qed.

(* C01, third clause: what is returned is what unmarshalling the IdP-signed element gives *)
Theorem covered_unmarshals_signed_content e uri signer ki over rest h :
  find_sig (attr "ID" (node_attrs e)) (strip_keyinfo e) = FHit uri signer ki over rest ->
  canon rest = canon h -> un_assertion e = un_assertion h.
Proof.
  intros Hf Hc.
  rewrite <- (un_assertion_visible e), <- (visible_strip e), <- (visible_find_sig _ _ _ _ _ _ _ Hf),
          <- (visible_canon rest), Hc, visible_canon. apply un_assertion_visible.
Qed.

(* candidates of two elements with the same visible part correspond *)
Definition enc_plains (l : list node) : list node :=
  flat_map (fun k => match k with EncN _ st p => if st =? 0 then [p] else [] | _ => [] end) l.

Lemma enc_plains_vgo l : enc_plains (vgo l) = enc_plains l.
Proof.
  induction l as [|k l IH]; [reflexivity|].
  destruct k as [n t a ks|s| |sh u sg ki ov|cid st q]; cbn [vgo]; try exact IH.
  - destruct (seqb t "Signature"); [exact IH|]. rewrite visible_el. exact IH.
  - unfold enc_plains in *. cbn [flat_map]. rewrite IH. reflexivity.
Qed.

Lemma cand_elems_visible r : 
  map visible (cand_elems r) =
  (map visible (enc_plains (node_kids (visible r))) ++ filter (named NS_A "Assertion") (node_kids (visible r)))%list.
Proof.
  destruct r as [ns t a kids| | | |]; try reflexivity.
  unfold cand_elems. rewrite visible_el. cbn [node_kids]. rewrite map_app. f_equal.
  - change (enc_plains (Txt (chardata kids) :: vgo kids)) with (enc_plains (vgo kids)). rewrite enc_plains_vgo. reflexivity.
  - cbn [filter named]. symmetry. apply filter_vgo. apply (named_pred NS_A "Assertion"). reflexivity.
Qed.

Lemma cand_elems_same_visible r1 r2 e :
  visible r1 = visible r2 -> In e (cand_elems r1) -> exists e', In e' (cand_elems r2) /\ visible e' = visible e.
Proof.
  intros Hv Hin. apply (in_map visible) in Hin. rewrite cand_elems_visible, Hv, <- cand_elems_visible in Hin.
  apply in_map_iff in Hin. destruct Hin as [e' [He Hin]]. eauto.
Qed.

(* C01, complete form against an attacker without the IdP keys: the returned assertion is the
   unmarshalling of an element the IdP signed, or of a candidate child of a Response it signed *)
Theorem accepted_is_signed_content cfg H ids now cur r a :
  honest_signers cfg H r ->
  parse_xml_response cfg ids now cur (DRoot r) = Ok a ->
  exists h, In h H /\
    (un_assertion h = Ok a \/ exists e', In e' (cand_elems h) /\ un_assertion e' = Ok a).
Proof.
  intros Hh Hp. destruct (accepted_content_was_signed _ _ _ _ _ _ _ Hh Hp)
    as [e [h [uri [signer [ki [over [rest [Hin [Hu [Hi [Hc Hf]]]]]]]]]]].
  exists h. split; [exact Hi|]. destruct Hf as [Hf|Hf].
  - left. rewrite <- (covered_unmarshals_signed_content _ _ _ _ _ _ _ Hf Hc). exact Hu.
  - right.
    assert (Hv : visible r = visible h).
    { rewrite <- (visible_strip r), <- (visible_find_sig _ _ _ _ _ _ _ Hf), <- (visible_canon rest), Hc. apply visible_canon. }
    destruct (cand_elems_same_visible r h e Hv Hin) as [e' [Hin' Hve]].
    exists e'. split; [exact Hin'|]. rewrite <- (un_assertion_visible e'), Hve, un_assertion_visible. exact Hu.
Qed.

(* ---------- the monitors evaluated by the correspondence check hold of the model ---------- *)
(* (entry point ParseXMLResponse) if the implementation's observable equals the model's, every
   property monitor is true: a monitor can only fire on a case where implementation and model
   differ, and then it says which property's conclusion the implementation's answer falsifies *)

Lemma strs_eqb_refl l : strs_eqb l l = true.
Proof. induction l as [|x l IH]; simpl; [reflexivity|]. unfold seqb. rewrite String.eqb_refl. exact IH. Qed.

Lemma obs_eqb_refl o : obs_eqb o o = true.
Proof.
  destruct o; simpl; try reflexivity.
  - unfold seqb. rewrite !String.eqb_refl, strs_eqb_refl. reflexivity.
  - apply Z.eqb_refl.
Qed.

Lemma strs_eqb_eq a b : strs_eqb a b = true -> a = b.
Proof.
  revert b. induction a as [|x a IH]; intros [|y b] H; simpl in H; try discriminate; auto.
  apply andb_prop in H. destruct H as [H1 H2]. apply String.eqb_eq in H1. subst. f_equal. apply IH. exact H2.
Qed.

Lemma obs_eqb_eq a b : obs_eqb a b = true -> a = b.
Proof.
  destruct a, b; simpl; try discriminate; auto.
  - intros H. apply andb_prop in H. destruct H as [H H3]. apply andb_prop in H. destruct H as [H1 H2].
    apply String.eqb_eq in H1. apply String.eqb_eq in H2. apply strs_eqb_eq in H3. subst. reflexivity.
  - intros H. apply Z.eqb_eq in H. subst. reflexivity.
Qed.

Lemma un_response_named_of r resp : un_response r = Ok resp -> un_response_named "Response" r = Ok resp.
Proof. unfold un_response. intros H. bind_as H x Hx. bind_as H y Hy. inversion H; subst. exact Hx. Qed.

Lemma returned_contains c r e a :
  case_resp c = Some r -> In e (cand_elems r) -> un_assertion e = Ok a -> pc_obs c = obs_of (Ok a) ->
  In a (returned c).
Proof.
  intros Hr Hin Hu Ho. unfold returned. rewrite Hr. apply in_flat_map. exists e. split; [exact Hin|].
  rewrite Hu. unfold matches_obs. rewrite Ho, obs_eqb_refl. left. reflexivity.
Qed.

Section MonitorsEntry0.
  Variable c : spcase.
  Hypothesis E0 : pc_entry c = 0.
  Hypothesis Hagree : spcase_agree c = true.

  Let Hobs : pc_obs c = obs_of (run c).
  Proof. symmetry. apply obs_eqb_eq. exact Hagree. Qed.

  Lemma run_entry0 ck : run_ck ck c = parse_xml_response_ck ck (pc_cfg c) (pc_ids c) (pc_now c) (pc_cur c) (pc_doc c).
  Proof. unfold run_ck. rewrite E0. reflexivity. Qed.

  Lemma case_ar0 : case_ar c = None.
  Proof. unfold case_ar. rewrite E0. reflexivity. Qed.

  Lemma case_resp0 r : pc_doc c = DRoot r -> case_resp c = Some r.
  Proof. intros H. unfold case_resp. rewrite E0, H. reflexivity. Qed.

  (* generic argument for the three families *)
  Lemma family_monitor ckw okr okar oka :
    weaker ckw all_checks ->
    (* soundness: what is accepted satisfies the family's conditions *)
    (forall r resp a, pc_doc c = DRoot r -> un_response r = Ok resp -> run c = Ok a -> okr c resp = true /\ oka c a = true) ->
    (* completeness: acceptable without the family + the family's conditions => accepted *)
    (forall r resp a, pc_doc c = DRoot r -> un_response r = Ok resp -> run_ck ckw c = Ok a ->
                      okr c resp = true -> oka c a = true -> run c = Ok a) ->
    family_spec ckw okr okar oka c = true.
  Proof.
    intros W Hsound Hcomplete. unfold family_spec. rewrite case_ar0. cbn [un_named]. rewrite E0. cbn [Z.eqb andb].
    rewrite Hobs. destruct (run c) as [a|code|] eqn:ER; cbn [obs_of].
    - (* accepted *)
      pose proof ER as ER'. unfold run in ER'. rewrite run_entry0 in ER'. fold parse_xml_response in ER'.
      apply parse_xml_response_sound in ER'. destruct ER' as [r [resp [e [Hd [Hu [Hin [Hue _]]]]]]].
      rewrite (case_resp0 r Hd). cbn [un_named]. rewrite (un_response_named_of _ _ Hu).
      destruct (Hsound r resp a Hd Hu eq_refl) as [H1 H2]. rewrite H1, andb_true_r. cbn [andb].
      apply existsb_exists. exists a. split; [|exact H2].
      eapply returned_contains; eauto. apply case_resp0. exact Hd.
    - (* rejected *)
      destruct (run_ck ckw c) as [a'| |] eqn:EW; try reflexivity.
      pose proof EW as EW'. rewrite run_entry0 in EW'.
      destruct (pc_doc c) as [| |r] eqn:Hd; try discriminate.
      destruct (accepted_facts _ _ _ _ _ _ _ EW') as [resp [Hu _]].
      rewrite (case_resp0 r Hd). cbn [un_named]. rewrite (un_response_named_of _ _ Hu). rewrite andb_true_r.
      destruct (okr c resp) eqn:O1; [|reflexivity]. destruct (oka c a') eqn:O2; [|reflexivity].
      exfalso. discriminate (Hcomplete r resp a' eq_refl Hu eq_refl O1 O2).
    - exfalso. unfold run in ER. rewrite run_entry0 in ER. exact (parse_xml_response_not_panic _ _ _ _ _ _ ER).
  Qed.

  Lemma has_sig0 r : pc_doc c = DRoot r ->
    case_has_sig c = negb (sigv_eqb (validate_signature (pc_cfg c) r) SAbsent).
  Proof. intros Hd. unfold case_has_sig, case_need_sig. rewrite (case_resp0 r Hd), case_ar0. reflexivity. Qed.

  Theorem c02_monitor : c02_spec c = true.
  Proof.
    unfold c02_spec. apply family_monitor.
    - repeat split; auto.
    - intros r resp a Hd Hu ER. unfold run in ER. rewrite run_entry0, Hd in ER. fold parse_xml_response in ER.
      apply parse_xml_response_sound in ER. destruct ER as [r' [resp' [e [Hd' [Hu' [_ [_ [_ [T1 [T2 _]]]]]]]]]].
      inversion Hd'; subst r'. rewrite Hu in Hu'. inversion Hu'; subst. auto.
    - intros r resp a Hd Hu EW O1 O2. unfold run. rewrite run_entry0 in *. rewrite Hd in *.
      eapply time_family_complete; eauto.
  Qed.

  Theorem c03_monitor : c03_spec c = true.
  Proof.
    unfold c03_spec. apply family_monitor.
    - repeat split; auto.
    - intros r resp a Hd Hu ER. unfold run in ER. rewrite run_entry0, Hd in ER. fold parse_xml_response in ER.
      apply parse_xml_response_sound in ER. destruct ER as [r' [resp' [e [Hd' [Hu' [_ [_ [_ [_ [_ [A1 [A2 _]]]]]]]]]]]].
      inversion Hd'; subst r'. rewrite Hu in Hu'. inversion Hu'; subst. rewrite (has_sig0 r Hd). auto.
    - intros r resp a Hd Hu EW O1 O2. unfold run. rewrite run_entry0 in *. rewrite Hd in *.
      rewrite (has_sig0 r Hd) in O1. eapply addr_family_complete; eauto.
  Qed.

  Theorem c04_monitor : c04_spec c = true.
  Proof.
    unfold c04_spec. apply family_monitor.
    - repeat split; auto.
    - intros r resp a Hd Hu ER. unfold run in ER. rewrite run_entry0, Hd in ER. fold parse_xml_response in ER.
      apply parse_xml_response_sound in ER.
      destruct ER as [r' [resp' [e [Hd' [Hu' [_ [_ [_ [_ [_ [_ [_ [R1 [R2 _]]]]]]]]]]]]]].
      inversion Hd'; subst r'. rewrite Hu in Hu'. inversion Hu'; subst. auto.
    - intros r resp a Hd Hu EW O1 O2. unfold run. rewrite run_entry0 in *. rewrite Hd in *.
      eapply reqid_family_complete; eauto.
  Qed.

  Theorem c01_monitor : c01_spec c = true.
  Proof.
    unfold c01_spec. rewrite Hobs. destruct (run c) as [a|code|] eqn:ER; cbn [obs_of]; try reflexivity.
    pose proof ER as ER'. unfold run in ER'. rewrite run_entry0 in ER'. fold parse_xml_response in ER'.
    apply parse_xml_response_sound in ER'. destruct ER' as [r [resp [e [Hd [Hu [Hin [Hue H]]]]]]].
    repeat match type of H with _ /\ _ => destruct H as [_ H] end.
    rewrite (case_resp0 r Hd), case_ar0. apply existsb_exists. exists e. split; [exact Hin|].
    rewrite Hue. unfold matches_obs. rewrite obs_eqb_refl. cbn [andb].
    destruct H as [H|H]; rewrite H; rewrite ?orb_true_r; reflexivity.
  Qed.

  Theorem c09_monitor : c09_spec c = true.
  Proof.
    unfold c09_spec. rewrite Hobs. destruct (run c) eqn:ER; try reflexivity.
    exfalso. unfold run in ER. rewrite run_entry0 in ER. exact (parse_xml_response_not_panic _ _ _ _ _ _ ER).
  Qed.
End MonitorsEntry0.

(* ---------- the artifact entry point: exact success conditions, upgrade, monitors ---------- *)

Definition ar_checks_ok (ck : checks) (cfg : spcfg) (rid : string) (now : Z) (aresp : response) : bool :=
  (negb (ck_reqid ck) || seqb (r_irt aresp) rid) &&
  (negb (ck_time ck) || time_ok_r cfg now aresp) &&
  (negb (ck_addr ck) || (match r_issuer aresp with Some i => seqb i (idp_entity cfg) | None => true end
                         && seqb (r_status aresp) STATUS_SUCCESS)).

Definition ar_need (cfg : spcfg) (ar : node) : option bool :=
  match validate_signature cfg ar with SValid => Some false | SAbsent => Some true | SInvalid => None end.

Theorem parse_artifact_response_ok ck cfg ids rid now cur ar a :
  parse_artifact_response ck cfg ids rid now cur ar = Ok a <->
  exists aresp need r,
    un_response_named "ArtifactResponse" ar = Ok aresp /\
    is_ok (map_o un_response (filter (named NS_P "Response") (node_kids ar))) = true /\
    ar_checks_ok ck cfg rid now aresp = true /\
    ar_need cfg ar = Some need /\
    one_child (named NS_P "Response") (node_kids ar) = Ok r /\
    parse_response ck cfg ids now need cur r = Ok a.
Proof.
  unfold parse_artifact_response, ar_checks_ok, ar_need, time_ok_r. split.
  - intros H. bind_as H aresp Hua. bind_as H u1 G1. bind_as H u2 Hb4. bind_as H u3 Hb5. bind_as H u4 Hb6. bind_as H u5 Hb7.
    bind_as H need Hb8. bind_as H r Hb9.
    apply guard_inv in Hb4, Hb5, Hb6, Hb7. rewrite negb_ltb in Hb5.
    exists aresp, need, r. repeat split; auto.
    + rewrite G1. reflexivity.
    + rewrite Hb4, Hb5. destruct (ck_addr ck); simpl in *; [rewrite Hb6, Hb7|]; reflexivity.
    + destruct (validate_signature cfg ar); inversion Hb8; reflexivity.
  - intros [aresp [need [r [Hua [G1 [Hc [Hn [Hr Hp]]]]]]]]. rewrite Hua. cbn [bind].
    destruct (map_o un_response _) as [l| |]; try discriminate. cbn [bind].
    apply andb_prop in Hc. destruct Hc as [Hc H3]. apply andb_prop in Hc. destruct Hc as [H1 H2].
    rewrite negb_ltb, H1, H2. cbn [guard bind].
    assert (negb (ck_addr ck) || match r_issuer aresp with Some i => seqb i (idp_entity cfg) | None => true end = true /\
            negb (ck_addr ck) || seqb (r_status aresp) STATUS_SUCCESS = true) as [H4 H5].
    { destruct (ck_addr ck); simpl in *; [apply andb_prop in H3; exact H3|split; reflexivity]. }
    rewrite H4, H5. cbn [guard bind].
    destruct (validate_signature cfg ar); inversion Hn; subst; cbn [bind]; rewrite Hr; cbn [bind]; exact Hp.
Qed.

Lemma ar_checks_mono ck' ck cfg rid now aresp :
  weaker ck' ck -> ar_checks_ok ck cfg rid now aresp = true -> ar_checks_ok ck' cfg rid now aresp = true.
Proof.
  intros [Ht [Ha Hr]]. unfold ar_checks_ok. revert Ht Ha Hr.
  generalize (seqb (r_irt aresp) rid) (time_ok_r cfg now aresp)
             (match r_issuer aresp with Some i => seqb i (idp_entity cfg) | None => true end && seqb (r_status aresp) STATUS_SUCCESS).
  intros R T A.
  destruct (ck_time ck'), (ck_addr ck'), (ck_reqid ck'), (ck_time ck), (ck_addr ck), (ck_reqid ck), T, A, R;
    simpl; intros Ht Ha Hr; auto;
    try (specialize (Ht eq_refl); discriminate); try (specialize (Ha eq_refl); discriminate);
    try (specialize (Hr eq_refl); discriminate).
Qed.

Theorem parse_artifact_response_upgrade ck' cfg ids rid now cur ar a aresp need r resp :
  weaker ck' all_checks ->
  parse_artifact_response ck' cfg ids rid now cur ar = Ok a ->
  un_response_named "ArtifactResponse" ar = Ok aresp ->
  ar_need cfg ar = Some need ->
  one_child (named NS_P "Response") (node_kids ar) = Ok r ->
  un_response r = Ok resp ->
  ar_checks_ok all_checks cfg rid now aresp = true ->
  is_ok (response_checks all_checks cfg ids now (need && negb (sigv_eqb (resp_sig cfg need r) SAbsent)) cur resp) = true ->
  is_ok (validate_assertion all_checks cfg ids now a) = true ->
  parse_artifact_response all_checks cfg ids rid now cur ar = Ok a.
Proof.
  intros W H Hua Hn Hr Hu Hc Hrc Hv.
  apply parse_artifact_response_ok in H. destruct H as [aresp' [need' [r' [Hua' [G1 [_ [Hn' [Hr' Hp]]]]]]]].
  rewrite Hn in Hn'. inversion Hn'; subst need'. rewrite Hr in Hr'. inversion Hr'; subst r'.
  apply parse_artifact_response_ok. exists aresp, need, r. repeat split; auto.
  eapply parse_response_upgrade; eauto.
Qed.

Lemma parse_xml_artifact_ok ck cfg ids rid now cur env a :
  parse_xml_artifact_response_ck ck cfg ids rid now cur (DRoot env) = Ok a <->
  named NS_SOAP "Envelope" env = true /\
  exists body ar, one_child (named NS_SOAP "Body") (node_kids env) = Ok body /\
                  one_child (named NS_P "ArtifactResponse") (node_kids body) = Ok ar /\
                  parse_artifact_response ck cfg ids rid now cur ar = Ok a.
Proof.
  unfold parse_xml_artifact_response_ck. split.
  - intros H. bind_as H u G. bind_as H body Hb. bind_as H ar Ha. apply guard_inv in G. eauto 6.
  - intros [G [body [ar [Hb [Ha H]]]]]. rewrite G. cbn [guard bind]. rewrite Hb. cbn [bind]. rewrite Ha. exact H.
Qed.

Section MonitorsEntry1.
  Variable c : spcase.
  Hypothesis E1 : pc_entry c <> 0.
  Hypothesis Hagree : spcase_agree c = true.

  Let Hobs : pc_obs c = obs_of (run c).
  Proof. symmetry. apply obs_eqb_eq. exact Hagree. Qed.

  Let E1b : (pc_entry c =? 0) = false.
  Proof. apply Z.eqb_neq. exact E1. Qed.

  Lemma run_entry1 ck : run_ck ck c =
    parse_xml_artifact_response_ck ck (pc_cfg c) (pc_ids c) (pc_rid c) (pc_now c) (pc_cur c) (pc_doc c).
  Proof. unfold run_ck. rewrite E1b. reflexivity. Qed.

  (* the pieces of an accepted (under any check set) artifact case *)
  Lemma artifact_pieces ck a :
    run_ck ck c = Ok a ->
    exists env ar aresp need r resp,
      pc_doc c = DRoot env /\ case_ar c = Some ar /\ case_resp c = Some r /\
      un_response_named "ArtifactResponse" ar = Ok aresp /\ un_response r = Ok resp /\
      ar_need (pc_cfg c) ar = Some need /\
      one_child (named NS_P "Response") (node_kids ar) = Ok r /\
      ar_checks_ok ck (pc_cfg c) (pc_rid c) (pc_now c) aresp = true /\
      parse_artifact_response ck (pc_cfg c) (pc_ids c) (pc_rid c) (pc_now c) (pc_cur c) ar = Ok a /\
      parse_response ck (pc_cfg c) (pc_ids c) (pc_now c) need (pc_cur c) r = Ok a.
  Proof.
    intros H. rewrite run_entry1 in H. destruct (pc_doc c) as [| |env] eqn:Hd; try discriminate.
    pose proof H as H0. apply parse_xml_artifact_ok in H. destruct H as [G [body [ar [Hb [Ha Hp]]]]].
    pose proof Hp as Hp0. apply parse_artifact_response_ok in Hp.
    destruct Hp as [aresp [need [r [Hua [G1 [Hc [Hn [Hr Hpr]]]]]]]].
    pose proof Hpr as Hpr0. apply parse_response_ok in Hpr. destruct Hpr as [resp [Hu _]].
    exists env, ar, aresp, need, r, resp.
    assert (CA : case_ar c = Some ar). { unfold case_ar. rewrite E1b, Hd, Hb, Ha. reflexivity. }
    repeat split; auto.
    unfold case_resp. rewrite E1b, CA, Hr. reflexivity.
  Qed.

  Lemma need_sig1 ar need : case_ar c = Some ar -> ar_need (pc_cfg c) ar = Some need -> case_need_sig c = need.
  Proof.
    intros CA Hn. unfold case_need_sig. rewrite CA. unfold ar_need in Hn.
    destruct (validate_signature (pc_cfg c) ar); inversion Hn; reflexivity.
  Qed.

  Lemma has_sig1 ar need r :
    case_ar c = Some ar -> case_resp c = Some r -> ar_need (pc_cfg c) ar = Some need ->
    case_has_sig c = need && negb (sigv_eqb (resp_sig (pc_cfg c) need r) SAbsent).
  Proof.
    intros CA CR Hn. unfold case_has_sig. rewrite CR, (need_sig1 ar need CA Hn). unfold resp_sig.
    destruct need; reflexivity.
  Qed.

  Lemma family_monitor1 ckw okr okar oka :
    weaker ckw all_checks ->
    (forall aresp resp a hs, ar_checks_ok all_checks (pc_cfg c) (pc_rid c) (pc_now c) aresp = true ->
        is_ok (response_checks all_checks (pc_cfg c) (pc_ids c) (pc_now c) hs (pc_cur c) resp) = true ->
        is_ok (validate_assertion all_checks (pc_cfg c) (pc_ids c) (pc_now c) a) = true ->
        case_has_sig c = hs -> okr c resp = true /\ okar c aresp = true /\ oka c a = true) ->
    (forall aresp resp a hs, ar_checks_ok ckw (pc_cfg c) (pc_rid c) (pc_now c) aresp = true ->
        is_ok (response_checks ckw (pc_cfg c) (pc_ids c) (pc_now c) hs (pc_cur c) resp) = true ->
        is_ok (validate_assertion ckw (pc_cfg c) (pc_ids c) (pc_now c) a) = true ->
        case_has_sig c = hs -> okr c resp = true -> okar c aresp = true -> oka c a = true ->
        ar_checks_ok all_checks (pc_cfg c) (pc_rid c) (pc_now c) aresp = true /\
        is_ok (response_checks all_checks (pc_cfg c) (pc_ids c) (pc_now c) hs (pc_cur c) resp) = true /\
        is_ok (validate_assertion all_checks (pc_cfg c) (pc_ids c) (pc_now c) a) = true) ->
    family_spec ckw okr okar oka c = true.
  Proof.
    intros W Hsound Hcomplete. unfold family_spec. rewrite Hobs.
    destruct (run c) as [a|code|] eqn:ER; cbn [obs_of].
    - destruct (artifact_pieces all_checks a ER) as [env [ar [aresp [need [r [resp H]]]]]].
      destruct H as [Hd [CA [CR [Hua [Hu [Hn [Hr [Hc [Hpa Hpr]]]]]]]]].
      rewrite CA, CR. cbn [un_named]. rewrite Hua, (un_response_named_of _ _ Hu).
      pose proof Hpr as Hs. apply parse_response_sound in Hs.
      destruct Hs as [resp' [e [Hu' [Hin [Hue [Hrc [Hv _]]]]]]]. rewrite Hu in Hu'. inversion Hu'; subst resp'.
      destruct (Hsound aresp resp a _ Hc Hrc Hv (has_sig1 ar need r CA CR Hn)) as [O1 [O2 O3]].
      rewrite O1, O2. cbn [andb]. apply existsb_exists. exists a. split; [|exact O3].
      eapply returned_contains; eauto.
    - destruct (run_ck ckw c) as [a'| |] eqn:EW; try reflexivity.
      destruct (artifact_pieces ckw a' EW) as [env [ar [aresp [need [r [resp H]]]]]].
      destruct H as [Hd [CA [CR [Hua [Hu [Hn [Hr [Hc [Hpa Hpr]]]]]]]]].
      rewrite CA, CR. cbn [un_named]. rewrite Hua, (un_response_named_of _ _ Hu).
      pose proof Hpr as Hs. apply parse_response_sound in Hs.
      destruct Hs as [resp' [e [Hu' [Hin [Hue [Hrc [Hv _]]]]]]]. rewrite Hu in Hu'. inversion Hu'; subst resp'.
      destruct (okr c resp) eqn:O1; [|reflexivity]. destruct (okar c aresp) eqn:O2; [|reflexivity].
      destruct (oka c a') eqn:O3; [|reflexivity]. exfalso.
      destruct (Hcomplete aresp resp a' _ Hc Hrc Hv (has_sig1 ar need r CA CR Hn) O1 O2 O3) as [K1 [K2 K3]].
      assert (run c = Ok a').
      { unfold run. rewrite run_entry1, Hd. apply parse_xml_artifact_ok.
        rewrite run_entry1, Hd in EW. apply parse_xml_artifact_ok in EW. destruct EW as [G [body' [ar' [Hb [Ha Hp]]]]].
        split; [exact G|]. exists body', ar'. repeat split; auto.
        assert (ar' = ar) as ->. { unfold case_ar in CA. rewrite E1b, Hd, Hb, Ha in CA. inversion CA. reflexivity. }
        eapply parse_artifact_response_upgrade; eauto. }
      congruence.
    - exfalso. unfold run in ER. rewrite run_entry1 in ER. exact (parse_xml_artifact_response_not_panic _ _ _ _ _ _ _ ER).
  Qed.
End MonitorsEntry1.

Section MonitorsEntry1Families.
  Variable c : spcase.
  Hypothesis E1 : pc_entry c <> 0.
  Hypothesis Hagree : spcase_agree c = true.

  Opaque addr_ok_r addr_ok_a time_ok_a time_ok_r reqid_ok_r reqid_ok_a structure_ok.

  Ltac split_hyps :=
    repeat match goal with
           | H : _ && _ = true |- _ => apply andb_prop in H; destruct H
           end.

  Lemma okar_addr aresp :
    addr_ok_r (pc_cfg c) false "" {| r_dest := ""; r_irt := r_irt aresp; r_issue := r_issue aresp;
                                     r_issuer := r_issuer aresp; r_status := r_status aresp |} =
    match r_issuer aresp with Some i => seqb i (idp_entity (pc_cfg c)) | None => true end && seqb (r_status aresp) STATUS_SUCCESS.
  Proof. Transparent addr_ok_r. unfold addr_ok_r. cbn. reflexivity. Opaque addr_ok_r. Qed.

  Theorem c02_monitor1 : c02_spec c = true.
  Proof.
    unfold c02_spec. apply (family_monitor1 c E1 Hagree).
    - repeat split; auto.
    - intros aresp resp a hs Hc Hrc Hv _. unfold ar_checks_ok in Hc.
      rewrite response_checks_char in Hrc. rewrite validate_assertion_char in Hv.
      cbn [all_checks ck_time ck_addr ck_reqid negb orb] in *. split_hyps. auto.
    - intros aresp resp a hs Hc Hrc Hv _ O1 O2 O3. unfold ar_checks_ok in *.
      rewrite response_checks_char in *. rewrite validate_assertion_char in *.
      cbn [no_time all_checks ck_time ck_addr ck_reqid negb orb andb] in *. split_hyps.
      repeat split; repeat (apply andb_true_intro; split); auto.
  Qed.

  Theorem c03_monitor1 : c03_spec c = true.
  Proof.
    unfold c03_spec. apply (family_monitor1 c E1 Hagree).
    - repeat split; auto.
    - intros aresp resp a hs Hc Hrc Hv Hhs. unfold ar_checks_ok in Hc.
      rewrite response_checks_char in Hrc. rewrite validate_assertion_char in Hv. rewrite okar_addr, Hhs.
      cbn [all_checks ck_time ck_addr ck_reqid negb orb] in *. split_hyps. auto.
    - intros aresp resp a hs Hc Hrc Hv Hhs O1 O2 O3. rewrite okar_addr in O2. rewrite Hhs in O1. unfold ar_checks_ok in *.
      rewrite response_checks_char in *. rewrite validate_assertion_char in *.
      cbn [no_addr all_checks ck_time ck_addr ck_reqid negb orb andb] in *. split_hyps.
      repeat split; repeat (apply andb_true_intro; split); auto.
  Qed.

  Theorem c04_monitor1 : c04_spec c = true.
  Proof.
    unfold c04_spec. apply (family_monitor1 c E1 Hagree).
    - repeat split; auto.
    - intros aresp resp a hs Hc Hrc Hv _. unfold ar_checks_ok in Hc.
      rewrite response_checks_char in Hrc. rewrite validate_assertion_char in Hv.
      cbn [all_checks ck_time ck_addr ck_reqid negb orb] in *. split_hyps. auto.
    - intros aresp resp a hs Hc Hrc Hv _ O1 O2 O3. unfold ar_checks_ok in *.
      rewrite response_checks_char in *. rewrite validate_assertion_char in *.
      cbn [no_reqid all_checks ck_time ck_addr ck_reqid negb orb andb] in *. split_hyps.
      repeat split; repeat (apply andb_true_intro; split); auto.
  Qed.

  Transparent addr_ok_r addr_ok_a time_ok_a time_ok_r reqid_ok_r reqid_ok_a structure_ok.

  Theorem c09_monitor1 : c09_spec c = true.
  Proof.
    assert (Hobs : pc_obs c = obs_of (run c)) by (symmetry; apply obs_eqb_eq; exact Hagree).
    unfold c09_spec. rewrite Hobs. destruct (run c) eqn:ER; try reflexivity.
    exfalso. unfold run in ER. rewrite (run_entry1 c E1) in ER. exact (parse_xml_artifact_response_not_panic _ _ _ _ _ _ _ ER).
  Qed.

  Theorem c01_monitor1 : c01_spec c = true.
  Proof.
    assert (Hobs : pc_obs c = obs_of (run c)) by (symmetry; apply obs_eqb_eq; exact Hagree).
    unfold c01_spec. rewrite Hobs. destruct (run c) as [a|code|] eqn:ER; cbn [obs_of]; try reflexivity.
    destruct (artifact_pieces c E1 all_checks a ER) as [env [ar [aresp [need [r [resp H]]]]]].
    destruct H as [Hd [CA [CR [Hua [Hu [Hn [Hr [Hc [Hpa Hpr]]]]]]]]].
    rewrite CR, CA. apply parse_response_sound in Hpr.
    destruct Hpr as [resp' [e [Hu' [Hin [Hue [_ [_ [Hns Hs]]]]]]]].
    apply existsb_exists. exists e. split; [exact Hin|]. rewrite Hue. unfold matches_obs. rewrite obs_eqb_refl. cbn [andb].
    unfold ar_need in Hn. destruct (validate_signature (pc_cfg c) ar) eqn:EA; inversion Hn; subst need.
    - unfold resp_sig in *. destruct (validate_signature (pc_cfg c) r) eqn:ES.
      + rewrite (validate_signature_covered _ _ (Hs eq_refl)). rewrite !orb_true_r. reflexivity.
      + rewrite (validate_signature_covered _ _ ES). reflexivity.
      + congruence.
    - rewrite (validate_signature_covered _ _ EA). rewrite orb_true_r. reflexivity.
  Qed.
End MonitorsEntry1Families.

(* both entry points *)
Theorem monitors_hold_of_model c :
  spcase_agree c = true ->
  c01_spec c = true /\ c02_spec c = true /\ c03_spec c = true /\ c04_spec c = true /\ c09_spec c = true.
Proof.
  intros H. destruct (Z.eq_dec (pc_entry c) 0) as [E|E].
  - repeat split; [apply c01_monitor|apply c02_monitor|apply c03_monitor|apply c04_monitor|apply c09_monitor]; assumption.
  - repeat split; [apply c01_monitor1|apply c02_monitor1|apply c03_monitor1|apply c04_monitor1|apply c09_monitor1]; assumption.
Qed.

(* ---------- C18: the fields a logout response is judged by are those of IdP-signed content ---------- *)

Lemma sig_false_Issuer : seqb "Issuer" "Signature" = false. Proof. reflexivity. Qed.
Lemma sig_false_Status : seqb "Status" "Signature" = false. Proof. reflexivity. Qed.
Lemma sig_false_StatusCode : seqb "StatusCode" "Signature" = false. Proof. reflexivity. Qed.

Lemma un_status_vis K K' : vis_kids K K' -> un_status K' = un_status K.
Proof.
  intros HK. unfold un_status, child_ns.
  pose proof (child_vis (named NS_P "Status") _ _ (named_pred NS_P "Status" sig_false_Status) HK) as H.
  destruct (merge (filter (named NS_P "Status") K)) as [m|], (merge (filter (named NS_P "Status") K')) as [m'|];
    simpl in H; try contradiction; [|reflexivity].
  destruct H as [_ [_ Hk]].
  pose proof (child_vis (named NS_P "StatusCode") _ _ (named_pred NS_P "StatusCode" sig_false_StatusCode) Hk) as H2.
  destruct (merge (filter (named NS_P "StatusCode") (mg_kids m))) as [c|],
           (merge (filter (named NS_P "StatusCode") (mg_kids m'))) as [c'|]; simpl in H2; try contradiction; [|reflexivity].
  destruct H2 as [Ha _]. rewrite Ha. reflexivity.
Qed.

Theorem un_response_named_visible tag e : un_response_named tag (visible e) = un_response_named tag e.
Proof.
  destruct e as [ns t attrs kids| | | |]; try reflexivity.
  rewrite visible_el. set (K' := Txt (chardata kids) :: vgo kids).
  assert (HK : vis_kids kids K') by (exact (vis_kids_visible (El ns t attrs kids))).
  unfold un_response_named. destruct (negb (seqb ns NS_P && seqb t tag)); [reflexivity|].
  destruct (time_attr "IssueInstant" attrs) as [issue| |]; cbn [bind]; try reflexivity.
  rewrite (un_status_vis _ _ HK).
  pose proof (child_vis (named NS_A "Issuer") _ _ (named_pred NS_A "Issuer" sig_false_Issuer) HK) as HI.
  unfold child_ns.
  destruct (merge (filter (named NS_A "Issuer") kids)) as [m|], (merge (filter (named NS_A "Issuer") K')) as [m'|];
    simpl in HI; try contradiction; [|reflexivity].
  destruct HI as [_ [Ht _]]. rewrite Ht. reflexivity.
Qed.

(* Dolev-Yao reading of C18: if the trusted keys have signed nothing but (canonical equivalents of)
   the elements of H, a logout response reported valid reads, field for field, as one of them *)
Theorem logout_valid_is_signed_content cfg H now r :
  honest_signers cfg H r -> validate_logout cfg now (DRoot r) = Ok tt ->
  exists h resp, In h H /\ un_response_named "LogoutResponse" h = Ok resp /\
                 un_response_named "LogoutResponse" r = Ok resp /\
                 r_dest resp = slo_url cfg /\ r_issuer resp = Some (idp_entity cfg) /\
                 r_status resp = STATUS_SUCCESS /\ now <= r_issue resp + max_issue_delay cfg.
Proof.
  intros Hh Hv.
  assert (Hc : covered_self cfg r = true).
  { apply validate_logout_iff in Hv. unfold logout_valid in Hv.
    apply andb_prop in Hv. destruct Hv as [Hv _]. apply validate_signature_covered.
    destruct (validate_signature cfg r); simpl in Hv; congruence. }
  destruct (covered_honest cfg H r r Hh (incl_refl _) Hc) as [h [uri [signer [ki [over [rest [Hin [Hf Hcan]]]]]]]].
  assert (Hvis : visible r = visible h).
  { rewrite <- (visible_strip r), <- (visible_find_sig _ _ _ _ _ _ _ Hf), <- (visible_canon rest), Hcan. apply visible_canon. }
  unfold validate_logout in Hv.
  destruct (sigv_eqb (validate_signature cfg r) SValid); cbn [guard bind] in Hv; [|discriminate].
  destruct (un_response_named "LogoutResponse" r) as [resp| |] eqn:Er; cbn [bind] in Hv; try discriminate.
  exists h, resp. split; [exact Hin|]. split.
  { rewrite <- (un_response_named_visible _ h), <- Hvis, un_response_named_visible. exact Er. }
  split; [reflexivity|].
  destruct (seqb (r_dest resp) (slo_url cfg)) eqn:Ed; cbn [guard bind] in Hv; [|discriminate].
  destruct (r_issue resp + max_issue_delay cfg <? now) eqn:Et; cbn [negb guard bind] in Hv; [discriminate|].
  destruct (r_issuer resp) as [i|] eqn:Ei; [|cbn [guard bind] in Hv; discriminate].
  destruct (seqb i (idp_entity cfg)) eqn:Eie; cbn [guard bind] in Hv; [|discriminate].
  destruct (seqb (r_status resp) STATUS_SUCCESS) eqn:Es; cbn [guard] in Hv; [|discriminate].
  apply String.eqb_eq in Ed, Eie, Es. apply Z.ltb_ge in Et. subst i.
  repeat split; auto.
Qed.
