(* ConcurrencyStore.v — a dedicated semantics of n threads running MemoryStore
   operations (Get / Put / Delete / List of samlidp/memory_store.go) under the
   store's sync.RWMutex, with the concrete map, a ghost abstract map updated at
   each operation's linearization point and a ghost event trace (C20,
   store_linearizable).  The lock/access projection of each operation's code is
   compared with the MemoryStore.* entries of the program the translator
   regenerates from the source on every run ([store_projection_ok]).
   Definitions only; lemmas are in ConcurrencyStoreProofs.v. *)
From Saml Require Import Base Concurrency.
Local Open Scope list_scope.

(* micro-instructions of a store operation *)
Inductive instr :=
| IAcq (w : bool)   (* s.mu.Lock / RLock *)
| IRel (w : bool)   (* deferred Unlock / RUnlock; the operation returns *)
| IRd               (* Put: the nil check of s.data *)
| IWrInit           (* Put: lazy initialisation of s.data (nil and empty are the same abstract map) *)
| IWrLin            (* Put: s.data[key] = v / Delete: delete(s.data, key) — takes effect, linearization point *)
| IRdLin            (* Get: the lookup / List: first read of the range loop — linearization point *)
| IRdMore.          (* List: a further iteration of the range loop reads s.data again *)

(* program counter of a running operation *)
Inductive pc := PcAcq | PcPutRd | PcPutInit | PcWrLin | PcRdLin | PcMore (n : nat) | PcRel.

Definition mode (o : sop) : bool := match o with SPut _ _ | SDel _ => true | _ => false end.

Definition instr_of (o : sop) (p : pc) : instr :=
  match p with
  | PcAcq => IAcq (mode o)
  | PcPutRd => IRd
  | PcPutInit => IWrInit
  | PcWrLin => IWrLin
  | PcRdLin => IRdLin
  | PcMore _ => IRdMore
  | PcRel => IRel (mode o)
  end.

Definition more (n : nat) : pc := match n with O => PcRel | S k => PcMore k end.

(* [extra]: how many further times the range loop of List reads the map *)
Definition next (extra : nat) (o : sop) (p : pc) : option pc :=
  match p with
  | PcAcq => Some (match o with SPut _ _ => PcPutRd | SDel _ => PcWrLin | _ => PcRdLin end)
  | PcPutRd => Some PcPutInit
  | PcPutInit => Some PcWrLin
  | PcWrLin => Some PcRel
  | PcRdLin => Some (match o with SList _ => more extra | _ => PcRel end)
  | PcMore n => Some (more n)
  | PcRel => None
  end.

Definition validb (o : sop) (p : pc) : bool :=
  match p, o with
  | PcAcq, _ | PcRel, _ => true
  | PcPutRd, SPut _ _ | PcPutInit, SPut _ _ => true
  | PcWrLin, SPut _ _ | PcWrLin, SDel _ => true
  | PcRdLin, SGet _ | PcRdLin, SList _ => true
  | PcMore _, SList _ => true
  | _, _ => false
  end.
Definition acquired (p : pc) : bool := match p with PcAcq => false | _ => true end.
Definition pending (p : pc) : bool :=
  match p with PcAcq | PcPutRd | PcPutInit | PcWrLin | PcRdLin => true | _ => false end.

Record running := { ru_op : sop; ru_pc : pc; ru_res : option sres }.
Record sthread := { th_todo : list sop; th_cur : option running }.

Inductive event :=
| EInv (t : nat) (o : sop)                    (* invocation *)
| ELin (t : nat) (o : sop) (r : sres)         (* ghost: linearization point with the abstract result *)
| ERet (t : nat) (o : sop) (r : option sres). (* return with the result the code computed *)

Record sstate := {
  s_lock : lockst;          (* MemoryStore.mu *)
  s_mem : smap;             (* MemoryStore.data *)
  s_amap : smap;            (* ghost: the abstract map *)
  s_thr : list sthread;
  s_trace : list event      (* ghost: newest first *)
}.

(* effect of one instruction of thread t running o; the flag says whether the
   program counter advances (a Lock that finds the mutex busy first announces) *)
Definition exec (st : sstate) (t : nat) (o : sop) (res : option sres) (i : instr)
  : option (bool * lockst * smap * smap * option sres * list event) :=
  let L := s_lock st in
  match i with
  | IAcq true =>
      if is_free L
      then Some (true, {| writer := Some t; readers := []; waiting := removeall t (waiting L) |}, s_mem st, s_amap st, res, [])
      else if memn t (waiting L) then None
      else Some (false, {| writer := writer L; readers := readers L; waiting := t :: waiting L |}, s_mem st, s_amap st, res, [])
  | IAcq false =>
      match writer L, waiting L with
      | None, [] => Some (true, {| writer := None; readers := t :: readers L; waiting := [] |}, s_mem st, s_amap st, res, [])
      | _, _ => None
      end
  | IRel true =>
      match writer L with
      | Some t' => if Nat.eqb t t'
                   then Some (true, {| writer := None; readers := readers L; waiting := waiting L |}, s_mem st, s_amap st, res, [])
                   else None
      | None => None
      end
  | IRel false =>
      if memn t (readers L)
      then Some (true, {| writer := writer L; readers := remove1 t (readers L); waiting := waiting L |}, s_mem st, s_amap st, res, [])
      else None
  | IRd | IWrInit => Some (true, L, s_mem st, s_amap st, res, [])
  | IRdLin =>
      Some (true, L, s_mem st, fst (sm_apply o (s_amap st)), Some (snd (sm_apply o (s_mem st))),
            [ELin t o (snd (sm_apply o (s_amap st)))])
  | IRdMore => Some (true, L, s_mem st, s_amap st, Some (snd (sm_apply o (s_mem st))), [])
  | IWrLin =>
      Some (true, L, fst (sm_apply o (s_mem st)), fst (sm_apply o (s_amap st)), Some (snd (sm_apply o (s_mem st))),
            [ELin t o (snd (sm_apply o (s_amap st)))])
  end.

Definition sstep (extra : nat) (st : sstate) (t : nat) : option sstate :=
  match nth_error (s_thr st) t with
  | None => None
  | Some th =>
      match th_cur th with
      | None =>
          match th_todo th with
          | [] => None
          | o :: r =>
              Some {| s_lock := s_lock st; s_mem := s_mem st; s_amap := s_amap st;
                      s_thr := set_nth t {| th_todo := r; th_cur := Some {| ru_op := o; ru_pc := PcAcq; ru_res := None |} |} (s_thr st);
                      s_trace := EInv t o :: s_trace st |}
          end
      | Some ru =>
          let o := ru_op ru in
          match exec st t o (ru_res ru) (instr_of o (ru_pc ru)) with
          | None => None
          | Some (adv, L', mem', amap', res', evs) =>
              let '(cur', evs') :=
                if adv then
                  match next extra o (ru_pc ru) with
                  | Some p' => (Some {| ru_op := o; ru_pc := p'; ru_res := res' |}, evs)
                  | None => (None, ERet t o res' :: evs)
                  end
                else (Some ru, evs) in
              Some {| s_lock := L'; s_mem := mem'; s_amap := amap';
                      s_thr := set_nth t {| th_todo := th_todo th; th_cur := cur' |} (s_thr st);
                      s_trace := evs' ++ s_trace st |}
          end
      end
  end.

(* a fresh zero-value store; thread i is to run the operations ops[i] *)
Definition sinit (ops : list (list sop)) : sstate :=
  {| s_lock := lock0; s_mem := []; s_amap := [];
     s_thr := map (fun l => {| th_todo := l; th_cur := None |}) ops; s_trace := [] |}.

Fixpoint srun (extra : nat) (st : sstate) (sched : list nat) : sstate :=
  match sched with
  | [] => st
  | t :: r => srun extra (match sstep extra st t with Some st' => st' | None => st end) r
  end.

(* ---------- what linearizability says about the ghost trace ---------- *)
(* events of one thread, newest first *)
Inductive tev := TInv (o : sop) | TLin (o : sop) (r : sres) | TRet (o : sop) (r : option sres).
Fixpoint tevs (t : nat) (tr : list event) : list tev :=
  match tr with
  | [] => []
  | EInv t' o :: r => if Nat.eqb t t' then TInv o :: tevs t r else tevs t r
  | ELin t' o x :: r => if Nat.eqb t t' then TLin o x :: tevs t r else tevs t r
  | ERet t' o x :: r => if Nat.eqb t t' then TRet o x :: tevs t r else tevs t r
  end.

(* a thread's events are  Inv o, Lin o r, Ret o (Some r)  over and over: every
   operation has its linearization point between its invocation and its return,
   and returns the result it had at that point *)
Inductive tphase := PIdle | PInv (o : sop) | PLin (o : sop) (r : sres).
Inductive tst : list tev -> tphase -> Prop :=
| tst_nil : tst [] PIdle
| tst_inv l o : tst l PIdle -> tst (TInv o :: l) (PInv o)
| tst_lin l o r : tst l (PInv o) -> tst (TLin o r :: l) (PLin o r)
| tst_ret l o r : tst l (PLin o r) -> tst (TRet o (Some r) :: l) PIdle.

(* the linearization points, newest first *)
Fixpoint lins (tr : list event) : list (sop * sres) :=
  match tr with
  | [] => []
  | ELin _ o r :: rest => (o, r) :: lins rest
  | _ :: rest => lins rest
  end.

(* ... form a legal sequential history of the map specification from the empty map *)
Fixpoint legal_rev (l : list (sop * sres)) (m : smap) : Prop :=
  match l with
  | [] => m = []
  | (o, r) :: l' => exists m', legal_rev l' m' /\ sm_apply o m' = (m, r)
  end.

Fixpoint sm_final (ops : list sop) (m : smap) : smap :=
  match ops with [] => m | o :: r => sm_final r (fst (sm_apply o m)) end.

(* ---------- projection onto the lock/access abstraction ---------- *)
Definition proj_instr (i : instr) : list act :=
  match i with
  | IAcq w => [Acq Mu w]
  | IRel w => [Rel Mu w]
  | IRd | IRdLin => [Rd Data]
  | IRdMore => []            (* the same syntactic read of the range statement, executed again *)
  | IWrInit | IWrLin => [Wr Data]
  end.

(* the program counters an operation goes through *)
Fixpoint countdown (n : nat) : list pc := match n with O => [] | S k => PcMore k :: countdown k end.
Definition path (extra : nat) (o : sop) : list pc :=
  match o with
  | SGet _ => [PcAcq; PcRdLin; PcRel]
  | SPut _ _ => [PcAcq; PcPutRd; PcPutInit; PcWrLin; PcRel]
  | SDel _ => [PcAcq; PcWrLin; PcRel]
  | SList _ => [PcAcq; PcRdLin] ++ countdown extra ++ [PcRel]
  end.
Definition op_acts (extra : nat) (o : sop) : list act :=
  flat_map (fun p => proj_instr (instr_of o p)) (path extra o).

Definition act_eqb (a b : act) : bool :=
  match a, b with
  | Acq m w, Acq m' w' | Rel m w, Rel m' w' => mutex_eqb m m' && Bool.eqb w w'
  | Rd l, Rd l' | Wr l, Wr l' => loc_eqb l l'
  | Call f, Call g => String.eqb f g
  | _, _ => false
  end.
Definition acts_match (f : fname) (p : program) (o : sop) : bool :=
  match lookup_fn f p with Some b => list_eqb act_eqb b (op_acts 0 o) | None => false end.
(* the obligation on the regenerated program: the four store methods are exactly
   the projections of the operations of this semantics *)
Definition store_projection_ok (p : program) : bool :=
  acts_match "MemoryStore.Get" p (SGet "") && acts_match "MemoryStore.Put" p (SPut "" "") &&
  acts_match "MemoryStore.Delete" p (SDel "") && acts_match "MemoryStore.List" p (SList "").
