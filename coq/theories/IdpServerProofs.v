(* IdpServerProofs.v — theorems about the IdP server state machine (C19).
   Everything is proved about IdpServer.step, the function the correspondence
   check evaluates, for every history, every fault plan and every hashing
   scheme satisfying the two hypotheses of Section Proofs. *)
From Saml Require Import Base BaseProofs IdpServer.
Local Open Scope list_scope.

Ltac dm := match goal with |- context [match ?x with _ => _ end] => destruct x eqn:? end.
Ltac splits := repeat match goal with |- _ /\ _ => split end.
Ltac dmh H := match type of H with context [match ?x with _ => _ end] => destruct x eqn:? end.

(* ---------- association lists ---------- *)
Lemma alookup_aremove_same {A} k (l : list (string * A)) : alookup k (aremove k l) = None.
Proof.
  induction l as [|[k' v] r IH]; cbn; [reflexivity|].
  destruct (String.eqb_spec k k') as [->|D]; [exact IH|]. cbn.
  destruct (String.eqb_spec k k'); [congruence|exact IH].
Qed.
Lemma alookup_aremove_diff {A} k k' (l : list (string * A)) : k <> k' -> alookup k (aremove k' l) = alookup k l.
Proof.
  intros D. induction l as [|[k2 v] r IH]; cbn; [reflexivity|].
  destruct (String.eqb_spec k' k2) as [->|D2].
  - destruct (String.eqb_spec k k2); [congruence|exact IH].
  - cbn. destruct (String.eqb_spec k k2); [reflexivity|exact IH].
Qed.
Lemma alookup_aremove_some {A} k k' (l : list (string * A)) v : alookup k (aremove k' l) = Some v -> alookup k l = Some v /\ k <> k'.
Proof.
  intros E. destruct (String.eqb_spec k k') as [->|D].
  - rewrite alookup_aremove_same in E. discriminate.
  - rewrite alookup_aremove_diff in E by exact D. auto.
Qed.
Lemma alookup_ainsert_same {A} k (v : A) l : alookup k (ainsert k v l) = Some v.
Proof. unfold ainsert. cbn. now rewrite String.eqb_refl. Qed.
Lemma alookup_ainsert_diff {A} k k' (v : A) l : k <> k' -> alookup k (ainsert k' v l) = alookup k l.
Proof. intros D. unfold ainsert. cbn. destruct (String.eqb_spec k k'); [congruence|]. now apply alookup_aremove_diff. Qed.
Lemma alookup_ainsert_some {A} k k' (v w : A) l :
  alookup k (ainsert k' v l) = Some w -> (k = k' /\ w = v) \/ (k <> k' /\ alookup k l = Some w).
Proof.
  destruct (String.eqb_spec k k') as [->|D].
  - rewrite alookup_ainsert_same. intros E; injection E as <-. now left.
  - rewrite alookup_ainsert_diff by exact D. now right.
Qed.

(* ---------- fault plans ---------- *)
(* the first n entries of the plan (as far as it goes) are NoFault *)
Definition clean (n : nat) (fp : faultplan) : Prop := Forall (fun f => f = NoFault) (firstn n fp).

Lemma clean_0 fp : clean 0 fp.
Proof. constructor. Qed.
Lemma clean_S n fp : clean 1 fp -> clean n (skipn 1 fp) -> clean (S n) fp.
Proof.
  unfold clean. destruct fp as [|f r]; cbn; [constructor|].
  intros H1 H2. inversion H1; subst. constructor; [reflexivity|exact H2].
Qed.
Lemma skipn_skipn_1 {A} n (l : list A) : skipn n (skipn 1 l) = skipn (S n) l.
Proof. destruct l; cbn; [now destruct n|reflexivity]. Qed.

Lemma pop_spec fp f fp' : pop fp = (f, fp') -> fp' = skipn 1 fp /\ (f = NoFault -> clean 1 fp).
Proof.
  destruct fp as [|x r]; cbn; intros E; injection E as <- <-; (split; [reflexivity|]).
  - intros _. constructor.
  - intros ->. unfold clean; cbn. constructor; [reflexivity|constructor].
Qed.

Lemma store_get_ok {A} (tbl : list (string * A)) k fp a fp' :
  store_get tbl k fp = (GOk a, fp') -> alookup k tbl = Some a /\ fp' = skipn 1 fp /\ clean 1 fp.
Proof.
  unfold store_get. destruct (pop fp) as [f fp1] eqn:P. destruct (pop_spec _ _ _ P) as [-> C].
  destruct f; intros E.
  - destruct (alookup k tbl); [|discriminate]. injection E as <- <-. auto.
  - destruct (alookup k tbl); discriminate.
  - discriminate.
Qed.
Lemma store_get_skip {A} (tbl : list (string * A)) k fp g fp' :
  store_get tbl k fp = (g, fp') -> fp' = skipn 1 fp.
Proof.
  unfold store_get. destruct (pop fp) as [f fp1] eqn:P. destruct (pop_spec _ _ _ P) as [-> C].
  intros E. now injection E as _ <-.
Qed.
Lemma store_get_notfound {A} (tbl : list (string * A)) k fp fp' :
  store_get tbl k fp = (GNotFound, fp') -> alookup k tbl = None.
Proof.
  unfold store_get. destruct (pop fp) as [f fp1]. destruct f; intros E; destruct (alookup k tbl); try discriminate; reflexivity.
Qed.
Lemma store_mut_spec fp ok fp' : store_mut fp = (ok, fp') -> fp' = skipn 1 fp /\ (ok = true -> clean 1 fp).
Proof.
  unfold store_mut. destruct (pop fp) as [f fp1] eqn:P. destruct (pop_spec _ _ _ P) as [-> C].
  intros E. injection E as <- <-. split; [reflexivity|]. destruct f; try discriminate. auto.
Qed.

Lemma profile_eqb_refl p : profile_eqb p p = true.
Proof.
  unfold profile_eqb. rewrite !String.eqb_refl. cbn.
  induction (p_groups p) as [|x r IH]; cbn; [reflexivity|]. now rewrite String.eqb_refl.
Qed.
Lemma mem_pair_In a b l : In (a, b) l -> mem_pair a b l = true.
Proof.
  induction l as [|[x y] r IH]; cbn; [tauto|]. intros [E|E].
  - injection E as -> ->. now rewrite !String.eqb_refl.
  - rewrite IH by exact E. apply orb_true_r.
Qed.
Lemma mem_pair_In' a b l : mem_pair a b l = true -> In (a, b) l.
Proof.
  induction l as [|[x y] r IH]; cbn; [discriminate|]. intros E. apply orb_true_iff in E as [E|E].
  - apply andb_true_iff in E as [E1 E2]. apply String.eqb_eq in E1, E2. subst. now left.
  - right. now apply IH.
Qed.
Lemma mem_str_In x l : mem_str x l = true <-> In x l.
Proof.
  induction l as [|y r IH]; cbn; [split; [discriminate|tauto]|].
  unfold seqb. rewrite orb_true_iff, IH, String.eqb_eq. split; intros [E|E]; auto.
Qed.

Lemma registry_of_store_keys svcs e md : alookup e (registry_of_store svcs) = Some md -> md_entity md = e.
Proof.
  induction svcs as [|[id m] r IH]; cbn; [discriminate|]. intros E.
  apply alookup_ainsert_some in E as [[-> ->]|[_ E]]; [reflexivity|now apply IH].
Qed.

Section Proofs.
Variable H : Type.
Variable hash : string -> H.
Variable verify : H -> string -> bool.
Variable empty_hash : H.
Variable norm : string -> string.          (* the 72 key bytes bcrypt derives from a password *)
(* bcrypt: a stored hash verifies exactly the password it was made from, and
   the empty hash of a user stored without a password verifies nothing *)
Hypothesis verify_hash : forall p p', verify (hash p) p' = true <-> norm p = norm p'.
Hypothesis verify_empty : forall p, verify empty_hash p = false.

Local Notation step' := (step hash verify empty_hash).
Local Notation trace' := (trace hash verify empty_hash).
Local Notation run' := (run_hist hash verify empty_hash).
Local Notation sstate' := (sstate H).

(* ---------- GetSession ---------- *)
Definition with_session (s : sstate') (u : user H) : sstate' :=
  {| users := users s; sessions := ainsert (sid (rand s)) (new_session s u) (sessions s); services := services s;
     shortcuts := shortcuts s; registry := registry s; clock := clock s; rand := rand s + 1;
     authlog := (sid (rand s), u_name u) :: authlog s |}.

Lemma get_session_inr s parsed c fp s1 se ck fp1 :
  get_session verify s parsed c fp = (s1, inr (se, ck), fp1) ->
  (parsed = true /\ nonempty (cr_user c) = true /\
   exists u, alookup (cr_user c) (users s) = Some u /\ verify (u_hash u) (cr_pw c) = true /\
             se = new_session s u /\ ck = Some (sid (rand s)) /\ s1 = with_session s u /\
             fp1 = skipn 2 fp /\ clean 2 fp) \/
  (parsed && nonempty (cr_user c) = false /\
   exists id, cr_cookie c = Some id /\ alookup id (sessions s) = Some se /\ clock s <= se_expire se /\
              ck = None /\ s1 = s /\ fp1 = skipn 1 fp /\ clean 1 fp).
Proof.
  unfold get_session. destruct (parsed && nonempty (cr_user c)) eqn:P.
  - apply andb_true_iff in P as [-> P2].
    destruct (store_get (users s) (cr_user c) fp) as [g fpa] eqn:G. destruct g as [u| |]; try (intros E; discriminate).
    destruct (store_get_ok _ _ _ _ _ G) as (Lu & -> & C1).
    destruct (verify (u_hash u) (cr_pw c)) eqn:V; [|intros E; discriminate].
    destruct (store_mut (skipn 1 fp)) as [ok fpb] eqn:M. destruct (store_mut_spec _ _ _ M) as [-> C2].
    destruct ok; [|intros E; discriminate]. intros E. injection E as <- <- <- <-.
    left. split; [reflexivity|]. split; [exact P2|]. exists u. splits; try assumption; try reflexivity.
    + destruct fp as [|? [|? ?]]; reflexivity.
    + apply clean_S; [exact C1|now apply C2].
  - destruct (cr_cookie c) as [id|]; [|intros E; discriminate].
    destruct (store_get (sessions s) id fp) as [g fpa] eqn:G. destruct g as [se'| |]; try (intros E; discriminate).
    destruct (store_get_ok _ _ _ _ _ G) as (Ls & -> & C1).
    destruct (se_expire se' <? clock s) eqn:X; [intros E; discriminate|]. intros E. injection E as <- <- <- <-.
    right. split; [reflexivity|]. exists id. splits; try assumption; try reflexivity. lia.
Qed.

Lemma get_session_inl s parsed c fp s1 rep fp1 :
  get_session verify s parsed c fp = (s1, inl rep, fp1) ->
  s1 = s /\ r_cookie rep = None /\ (r_body rep = BLoginForm \/ r_body rep = BError).
Proof.
  unfold get_session. repeat dm; intros E; try discriminate; injection E as <- <- <-; cbn; auto.
Qed.

(* ---------- invariants ---------- *)
Record Inv (s : sstate') : Prop := {
  inv_users : forall n u, alookup n (users s) = Some u -> u_name u = n;
  inv_sess : forall id se, alookup id (sessions s) = Some se -> se_id se = id /\ In (id, se_user se) (authlog s);
  inv_reg : forall e md, alookup e (registry s) = Some md -> md_entity md = e
}.

Lemma init_inv now : Inv (init_state H now).
Proof. constructor; cbn; discriminate. Qed.

Lemma with_session_inv s u : Inv s -> Inv (with_session s u).
Proof.
  intros I. constructor; cbn.
  - apply (inv_users s I).
  - intros id se E. apply alookup_ainsert_some in E as [[-> ->]|[D E]].
    + split; [reflexivity|left; reflexivity].
    + destruct (inv_sess s I id se E) as [A B]. split; [exact A|now right].
  - apply (inv_reg s I).
Qed.

Lemma get_session_inv s parsed c fp s1 r fp1 :
  Inv s -> get_session verify s parsed c fp = (s1, r, fp1) -> Inv s1.
Proof.
  intros I E. destruct r as [rep|[se ck]].
  - apply get_session_inl in E as [-> _]. exact I.
  - apply get_session_inr in E as [(_ & _ & u & _ & _ & _ & _ & -> & _)|(_ & id & _ & _ & _ & _ & -> & _)];
      [now apply with_session_inv|exact I].
Qed.

Lemma step_inv s o fp s' rs fp' : Inv s -> step' s o fp = (s', rs, fp') -> Inv s'.
Proof.
  intros I E. destruct o; cbn [step] in E.
  - (* PutUser *)
    unfold put_user in E.
    assert (forall h fpa, (let '(ok, fp2) := store_mut fpa in
              if ok then (set_users s (ainsert n {| u_name := n; u_hash := h; u_prof := pr |} (users s)), [@rnocontent H], fp2)
              else (s, [rerr 500], fp2)) = (s', rs, fp') -> Inv s') as K.
    { intros h fpa. destruct (store_mut fpa) as [[|] fp2]; intros X; injection X as <- <- <-; [|exact I].
      constructor; cbn; [|apply (inv_sess s I)|apply (inv_reg s I)].
      intros k u X. apply alookup_ainsert_some in X as [[-> ->]|[_ X]]; [reflexivity|now apply (inv_users s I)]. }
    destruct pw as [p|]; [destruct (max_password_len <? slen p); [injection E as <- <- <-; exact I|now apply K in E]|].
    destruct (store_get (users s) n fp) as [[old| |] fp1]; [now apply K in E|now apply K in E|].
    injection E as <- <- <-. exact I.
  - unfold del_user in E. destruct (store_mut fp) as [[|] fp1]; injection E as <- <- <-; [|exact I].
    constructor; cbn; [|apply (inv_sess s I)|apply (inv_reg s I)].
    intros k u X. apply alookup_aremove_some in X as [X _]. now apply (inv_users s I).
  - unfold get_user in E. repeat dmh E; injection E as <- <- <-; exact I.
  - unfold list_keys in E. repeat dmh E; injection E as <- <- <-; exact I.
  - (* PutService *)
    unfold put_service in E. destruct (select_md b) as [md|]; [|injection E as <- <- <-; exact I].
    unfold put_service_md in E. destruct (store_get (services s) id fp) as [g fp1].
    assert (forall reg1, (forall e m, alookup e reg1 = Some m -> md_entity m = e) ->
              forall e m, alookup e (ainsert (md_entity md) md reg1) = Some m -> md_entity m = e) as K.
    { intros reg1 Hr e m X. apply alookup_ainsert_some in X as [[-> ->]|[_ X]]; [reflexivity|now apply Hr]. }
    assert (forall e m k, alookup e (aremove k (registry s)) = Some m -> md_entity m = e) as K2.
    { intros e m k X. apply alookup_aremove_some in X as [X _]. now apply (inv_reg s I). }
    destruct g as [prev| |]; try (injection E as <- <- <-; exact I);
      destruct (store_mut fp1) as [[|] fp2]; injection E as <- <- <-; try exact I;
      constructor; cbn; try apply (inv_users s I); try apply (inv_sess s I).
    + destruct (md_entity prev =? md_entity md)%string; apply K; [apply (inv_reg s I)|intros e m; apply K2].
    + apply K, (inv_reg s I).
  - unfold del_service in E. destruct (store_get (services s) id fp) as [[md| |] fp1]; try (injection E as <- <- <-; exact I).
    destruct (store_mut fp1) as [[|] fp2]; injection E as <- <- <-; [|exact I].
    constructor; cbn; [apply (inv_users s I)|apply (inv_sess s I)|].
    intros e m X. apply alookup_aremove_some in X as [X _]. now apply (inv_reg s I).
  - unfold put_shortcut in E. destruct (store_mut fp) as [[|] fp1]; injection E as <- <- <-; [|exact I].
    constructor; cbn; [apply (inv_users s I)|apply (inv_sess s I)|apply (inv_reg s I)].
  - unfold del_shortcut in E. destruct (store_mut fp) as [[|] fp1]; injection E as <- <- <-; [|exact I].
    constructor; cbn; [apply (inv_users s I)|apply (inv_sess s I)|apply (inv_reg s I)].
  - unfold login in E. destruct (get_session verify s true c fp) as [[s1 r] fp1] eqn:G.
    apply (get_session_inv _ _ _ _ _ _ _ I) in G. destruct r as [rep|[se ck]]; injection E as <- <- <-; exact G.
  - unfold sso in E. destruct (alookup (rq_issuer rq) (registry s)) as [md|]; [|injection E as <- <- <-; exact I].
    destruct (acs_select md rq); [|injection E as <- <- <-; exact I].
    destruct (get_session verify s true c fp) as [[s1 r] fp1] eqn:G.
    apply (get_session_inv _ _ _ _ _ _ _ I) in G. destruct r as [rep|[se ck]]; injection E as <- <- <-; exact G.
  - unfold launch in E. destruct (store_get (shortcuts s) n fp) as [[sp| |] fp1]; try (injection E as <- <- <-; exact I).
    destruct (get_session verify s false c fp1) as [[s1 r] fp2] eqn:G.
    apply (get_session_inv _ _ _ _ _ _ _ I) in G. destruct r as [rep|[se ck]]; [injection E as <- <- <-; exact G|].
    repeat dmh E; injection E as <- <- <-; exact G.
  - unfold get_sess in E. repeat dmh E; injection E as <- <- <-; exact I.
  - unfold del_session in E. destruct (store_mut fp) as [[|] fp1]; injection E as <- <- <-; [|exact I].
    constructor; cbn; [apply (inv_users s I)| |apply (inv_reg s I)].
    intros k se X. apply alookup_aremove_some in X as [X _]. now apply (inv_sess s I).
  - injection E as <- <- <-. constructor; cbn; [apply (inv_users s I)|apply (inv_sess s I)|apply (inv_reg s I)].
  - injection E as <- <- <-. constructor; cbn; [apply (inv_users s I)|apply (inv_sess s I)|].
    intros e md. apply registry_of_store_keys.
Qed.

(* ---------- one step: what an assertion in the reply implies ---------- *)
(* the propositional reading of [auth_okb] *)
Definition authenticated (s : sstate') (o : op) (a : assertion) : Prop :=
  exists parsed c, creds_of o = Some (parsed, c) /\
    ((parsed = true /\ nonempty (cr_user c) = true /\
      exists u, alookup (cr_user c) (users s) = Some u /\ verify (u_hash u) (cr_pw c) = true /\
                a_user a = u_name u /\ a_nameid a = p_email (u_prof u) /\ a_prof a = u_prof u) \/
     (parsed && nonempty (cr_user c) = false /\
      exists id se, cr_cookie c = Some id /\ alookup id (sessions s) = Some se /\ clock s <= se_expire se /\
                    In (id, se_user se) (authlog s) /\
                    a_user a = se_user se /\ a_nameid a = se_nameid se /\ a_prof a = se_prof se)).

Definition registered (s : sstate') (o : op) (a : assertion) : Prop :=
  exists md, alookup (a_sp a) (registry s) = Some md /\ md_entity md = a_sp a /\ In (a_acs a) (md_acs md) /\
    match o with
    | Sso rq _ => rq_issuer rq = a_sp a /\ (rq_acs rq = "" \/ rq_acs rq = a_acs a)
    | Launch n _ => alookup n (shortcuts s) = Some (a_sp a)
    | _ => False
    end.

Lemma acs_select_spec md rq acs : acs_select md rq = Some acs -> In acs (md_acs md) /\ (rq_acs rq = "" \/ rq_acs rq = acs).
Proof.
  unfold acs_select. destruct (nonempty (rq_acs rq)) eqn:N.
  - destruct (mem_str (rq_acs rq) (md_acs md)) eqn:M; [|discriminate]. intros E; injection E as <-.
    apply mem_str_In in M. auto.
  - destruct (rq_acs rq); [|discriminate]. destruct (md_acs md); [discriminate|]. intros E; injection E as <-. split; [now left|now left].
Qed.

Lemma session_auth s parsed c fp s1 se ck fp1 o a md acs :
  Inv s -> get_session verify s parsed c fp = (s1, inr (se, ck), fp1) ->
  creds_of o = Some (parsed, c) -> a = mk_assertion se md acs -> authenticated s o a.
Proof.
  intros I G Co ->. exists parsed, c. split; [exact Co|].
  apply get_session_inr in G as [(-> & N & u & Lu & V & -> & _)|(P & id & Ck & Ls & X & _)].
  - left. split; [reflexivity|]. split; [exact N|]. exists u. splits; assumption || reflexivity.
  - right. split; [exact P|]. exists id, se. destruct (inv_sess s I id se Ls) as [_ Hlog].
    splits; assumption || reflexivity.
Qed.

Theorem step_assertion s o fp s' rs fp' r a :
  Inv s -> step' s o fp = (s', rs, fp') -> In r rs -> r_body r = BAssertion a ->
  authenticated s o a /\ registered s o a /\ exists n, fp' = skipn n fp /\ clean n fp.
Proof.
  intros I E Hr Hb. destruct o; cbn [step] in E;
    try (unfold put_user, del_user, get_user, list_keys, put_service, put_service_md, del_service, put_shortcut, del_shortcut,
                get_sess, del_session in E; repeat dmh E; injection E as <- <- <-;
         repeat (destruct Hr as [<-|Hr]; [cbn in Hb; discriminate|]); destruct Hr).
  - (* Login never carries an assertion *)
    unfold login in E. destruct (get_session verify s true c fp) as [[s1 x] fp1] eqn:G.
    destruct x as [rep|[se ck]]; injection E as <- <- <-; destruct Hr as [<-|[]]; [|cbn in Hb; discriminate].
    apply get_session_inl in G as (_ & _ & [B|B]); rewrite B in Hb; discriminate.
  - (* Sso *)
    unfold sso in E. destruct (alookup (rq_issuer rq) (registry s)) as [md|] eqn:Lr;
      [|injection E as <- <- <-; destruct Hr as [<-|[]]; discriminate].
    destruct (acs_select md rq) as [acs|] eqn:A; [|injection E as <- <- <-; destruct Hr as [<-|[]]; discriminate].
    destruct (get_session verify s true c fp) as [[s1 x] fp1] eqn:G.
    destruct x as [rep|[se ck]]; injection E as <- <- <-; destruct Hr as [<-|[]].
    { apply get_session_inl in G as (_ & _ & [B|B]); rewrite B in Hb; discriminate. }
    cbn in Hb. injection Hb as <-. pose proof (inv_reg s I _ _ Lr) as Ek.
    destruct (acs_select_spec _ _ _ A) as [Hin Hq].
    split; [eapply session_auth; try eassumption; reflexivity|]. split.
    + exists md. cbn. rewrite Ek. splits; assumption || reflexivity.
    + apply get_session_inr in G as [(_ & _ & u & _ & _ & _ & _ & _ & -> & C)|(_ & id & _ & _ & _ & _ & _ & -> & C)]; eauto.
  - (* Launch *)
    unfold launch in E. destruct (store_get (shortcuts s) n fp) as [g fp1] eqn:Gs.
    destruct g as [sp| |]; try (injection E as <- <- <-; destruct Hr as [<-|[]]; discriminate).
    destruct (store_get_ok _ _ _ _ _ Gs) as (Lsc & -> & C1).
    destruct (get_session verify s false c (skipn 1 fp)) as [[s1 x] fp2] eqn:G.
    destruct x as [rep|[se ck]].
    { injection E as <- <- <-; destruct Hr as [<-|[]].
      apply get_session_inl in G as (_ & _ & [B|B]); rewrite B in Hb; discriminate. }
    pose proof G as G0.
    apply get_session_inr in G as [(X & _)|(_ & id & _ & _ & _ & _ & -> & -> & C)]; [discriminate|].
    destruct (alookup sp (registry s)) as [md|] eqn:Lr; [|injection E as <- <- <-; destruct Hr as [<-|[]]; discriminate].
    destruct (md_acs md) as [|acs racs] eqn:Ma; injection E as <- <- <-; destruct Hr as [<-|[]]; [discriminate|].
    cbn in Hb. injection Hb as <-. pose proof (inv_reg s I _ _ Lr) as Ek.
    split; [eapply session_auth; try eassumption; reflexivity|]. split.
    + exists md. cbn. rewrite Ek. splits; try assumption; try reflexivity. rewrite Ma. now left.
    + exists 2%nat. split; [destruct fp as [|? [|? ?]]; reflexivity|now apply clean_S].
Qed.

(* each request gets exactly one reply; Advance and Restart are not requests *)
Theorem step_one_reply s o fp : List.length (snd (fst (step' s o fp))) = if is_request o then 1%nat else 0%nat.
Proof.
  destruct o; cbn [step is_request];
    unfold put_user, del_user, get_user, list_keys, put_service, put_service_md, del_service, put_shortcut, del_shortcut,
           login, sso, launch, get_sess, del_session; repeat dm; reflexivity.
Qed.

(* no reply contains a stored hash: the only reply that carries a user record carries the empty hash *)
Theorem step_no_hash s o fp r u :
  In r (snd (fst (step' s o fp))) -> r_body r = BUser u -> u_hash u = empty_hash.
Proof.
  destruct o as [n pw pr|n|n|cl|id b|id|n sp|n|c|rq c|n c|id|id|dt|]; cbn [step].
  1-8,12-15: unfold put_user, del_user, get_user, list_keys, put_service, put_service_md, del_service, put_shortcut, del_shortcut,
           get_sess, del_session; repeat dm; cbn; intros Hr Hb;
           repeat (destruct Hr as [<-|Hr]; [cbn in Hb; try discriminate|]); try destruct Hr;
           try (injection Hb as <-; reflexivity).
  - unfold login. destruct (get_session verify s true c fp) as [[s1 x] fp1] eqn:G. destruct x as [rep|[se ck]]; cbn;
      intros [<-|[]] Hb; cbn in Hb; try discriminate.
    apply get_session_inl in G as (_ & _ & [B|B]); rewrite B in Hb; discriminate.
  - unfold sso. destruct (alookup (rq_issuer rq) (registry s)) as [md|]; [|cbn; intros [<-|[]] Hb; discriminate].
    destruct (acs_select md rq); [|cbn; intros [<-|[]] Hb; discriminate].
    destruct (get_session verify s true c fp) as [[s1 x] fp1] eqn:G. destruct x as [rep|[se ck]]; cbn;
      intros [<-|[]] Hb; cbn in Hb; try discriminate.
    apply get_session_inl in G as (_ & _ & [B|B]); rewrite B in Hb; discriminate.
  - unfold launch. destruct (store_get (shortcuts s) n fp) as [[sp| |] fp1]; cbv beta iota; try (cbn; intros [<-|[]] Hb; discriminate).
    destruct (get_session verify s false c fp1) as [[s1 x] fp2] eqn:G. destruct x as [rep|[se ck]]; cbv beta iota.
    + cbn. intros [<-|[]] Hb. apply get_session_inl in G as (_ & _ & [B|B]); rewrite B in Hb; discriminate.
    + repeat dm; cbn; intros [<-|[]] Hb; discriminate.
Qed.

(* ---------- histories ---------- *)
Lemma run_step s o h fp : run' s (o :: h) fp = let '(s', _, fp') := step' s o fp in run' s' h fp'.
Proof. unfold run_hist. cbn. unfold step_acc at 2. destruct (step' s o fp) as [[s' rs] fp']. reflexivity. Qed.

Lemma run_inv s h fp : Inv s -> Inv (fst (run' s h fp)).
Proof.
  revert s fp; induction h as [|o h IH]; intros s fp I; [exact I|].
  rewrite run_step. destruct (step' s o fp) as [[s' rs] fp'] eqn:E. apply IH. eapply step_inv; eassumption.
Qed.

Lemma trace_app s h1 h2 fp :
  trace' s (h1 ++ h2) fp = trace' s h1 fp ++ trace' (fst (run' s h1 fp)) h2 (snd (run' s h1 fp)).
Proof.
  revert s fp; induction h1 as [|o h IH]; intros s fp; [reflexivity|].
  rewrite run_step. cbn [app trace]. destruct (step' s o fp) as [[s' rs] fp'] eqn:E. cbn [app]. now rewrite IH.
Qed.

(* a successful password authentication: the step that creates session [id] for user [u] *)
Definition pw_auth_at (s : sstate') (o : op) (id u : string) : Prop :=
  exists c, creds_of o = Some (true, c) /\ nonempty (cr_user c) = true /\
    exists usr, alookup (cr_user c) (users s) = Some usr /\ verify (u_hash usr) (cr_pw c) = true /\
                u_name usr = u /\ id = sid (rand s).

Lemma get_session_log s parsed c fp s1 r fp1 x :
  get_session verify s parsed c fp = (s1, r, fp1) -> In x (authlog s1) ->
  In x (authlog s) \/ (parsed = true /\ nonempty (cr_user c) = true /\
     exists usr, alookup (cr_user c) (users s) = Some usr /\ verify (u_hash usr) (cr_pw c) = true /\
                 x = (sid (rand s), u_name usr)).
Proof.
  intros G Hx. destruct r as [rep|[se ck]].
  - apply get_session_inl in G as [-> _]. now left.
  - apply get_session_inr in G as [(-> & N & u & Lu & V & _ & _ & -> & _)|(_ & id & _ & _ & _ & _ & -> & _)]; [|now left].
    cbn in Hx. destruct Hx as [<-|Hx]; [|now left]. right. split; [reflexivity|]. split; [exact N|]. exists u. auto.
Qed.

Lemma step_log s o fp s' rs fp' x :
  step' s o fp = (s', rs, fp') -> In x (authlog s') -> In x (authlog s) \/ pw_auth_at s o (fst x) (snd x).
Proof.
  intros E Hx. destruct o; cbn [step] in E;
    try (unfold put_user, del_user, get_user, list_keys, put_service, put_service_md, del_service, put_shortcut, del_shortcut,
                get_sess, del_session in E; repeat dmh E; injection E as <- <- <-; left; exact Hx).
  - unfold login in E. destruct (get_session verify s true c fp) as [[s1 r] fp1] eqn:G.
    assert (s' = s1) as -> by (destruct r as [rep|[se ck]]; now injection E as <- <- <-).
    destruct (get_session_log _ _ _ _ _ _ _ _ G Hx) as [L|(_ & N & usr & Lu & V & ->)]; [now left|right].
    exists c. split; [reflexivity|]. split; [exact N|]. exists usr. cbn. auto.
  - unfold sso in E. destruct (alookup (rq_issuer rq) (registry s)) as [md|]; [|injection E as <- <- <-; now left].
    destruct (acs_select md rq); [|injection E as <- <- <-; now left].
    destruct (get_session verify s true c fp) as [[s1 r] fp1] eqn:G.
    assert (s' = s1) as -> by (destruct r as [rep|[se ck]]; now injection E as <- <- <-).
    destruct (get_session_log _ _ _ _ _ _ _ _ G Hx) as [L|(_ & N & usr & Lu & V & ->)]; [now left|right].
    exists c. split; [reflexivity|]. split; [exact N|]. exists usr. cbn. auto.
  - unfold launch in E. destruct (store_get (shortcuts s) n fp) as [[sp| |] fp1]; try (injection E as <- <- <-; now left).
    destruct (get_session verify s false c fp1) as [[s1 r] fp2] eqn:G.
    assert (s' = s1) as -> by (destruct r as [rep|[se ck]]; [now injection E as <- <- <-|repeat dmh E; now injection E as <- <- <-]).
    destruct (get_session_log _ _ _ _ _ _ _ _ G Hx) as [L|(X & _)]; [now left|discriminate].
Qed.

Lemma log_sound h : forall s fp x,
  In x (authlog (fst (run' s h fp))) ->
  In x (authlog s) \/ exists si oi fpi rsi, In (si, oi, fpi, rsi) (trace' s h fp) /\ pw_auth_at si oi (fst x) (snd x).
Proof.
  induction h as [|o h IH]; intros s fp x Hx; [now left|].
  rewrite run_step in Hx. cbn [trace]. destruct (step' s o fp) as [[s' rs] fp'] eqn:E.
  destruct (IH _ _ _ Hx) as [L|(si & oi & fpi & rsi & Hin & P)].
  - destruct (step_log _ _ _ _ _ _ _ E L) as [L'|P]; [now left|].
    right. exists s, o, fp, rs. split; [now left|exact P].
  - right. exists si, oi, fpi, rsi. split; [now right|exact P].
Qed.

(* THE MAIN THEOREM.  In any history h1 ++ o :: h2 run from the empty server
   under any fault plan: if the reply to o carries an assertion a, then o
   presented the correct current password of a's user, or a cookie naming a
   stored, unexpired session of that user which an EARLIER step of the history
   (in h1) created by a successful password authentication of that user; the
   target SP is registered at that step with that ACS location; and every
   fault-plan entry the step consumed was NoFault. *)
Theorem assertion_only_if_authenticated now h1 o h2 fp :
  let s := fst (run' (init_state H now) h1 fp) in
  let fpi := snd (run' (init_state H now) h1 fp) in
  forall r a, In r (snd (fst (step' s o fpi))) -> r_body r = BAssertion a ->
    In (s, o, fpi, snd (fst (step' s o fpi))) (trace' (init_state H now) (h1 ++ o :: h2) fp) /\
    exists parsed c, creds_of o = Some (parsed, c) /\
      ((parsed = true /\ nonempty (cr_user c) = true /\
        exists u, alookup (cr_user c) (users s) = Some u /\ verify (u_hash u) (cr_pw c) = true /\ a_user a = u_name u) \/
       (parsed && nonempty (cr_user c) = false /\
        exists id se, cr_cookie c = Some id /\ alookup id (sessions s) = Some se /\ clock s <= se_expire se /\
                      a_user a = se_user se /\
                      exists sj oj fpj rsj, In (sj, oj, fpj, rsj) (trace' (init_state H now) h1 fp) /\
                                            pw_auth_at sj oj id (se_user se))).
Proof.
  intros s fpi r a Hr Hb.
  assert (Inv s) as I by (apply run_inv, init_inv).
  destruct (step' s o fpi) as [[s' rs] fp'] eqn:E. cbn [fst snd] in *.
  split.
  { rewrite trace_app. apply in_or_app. right. cbn [trace]. fold s. fold fpi. rewrite E. now left. }
  destruct (step_assertion _ _ _ _ _ _ _ _ I E Hr Hb) as ((parsed & c & Co & [A|B]) & _).
  - exists parsed, c. split; [exact Co|left]. destruct A as (P & N & u & Lu & V & Au & _). splits; try assumption. eauto.
  - exists parsed, c. split; [exact Co|right]. destruct B as (P & id & se & Ck & Ls & X & Hlog & Au & _).
    split; [exact P|]. exists id, se. splits; try assumption.
    destruct (log_sound h1 (init_state H now) fp (id, se_user se) Hlog) as [L|K]; [destruct L|exact K].
Qed.

Theorem registered_now now h fp s o fpi rs r a :
  In (s, o, fpi, rs) (trace' (init_state H now) h fp) -> In r rs -> r_body r = BAssertion a -> registered s o a.
Proof.
  intros Ht Hr Hb.
  assert (forall hh s0 fp0, Inv s0 -> In (s, o, fpi, rs) (trace' s0 hh fp0) -> Inv s /\ step' s o fpi = (fst (fst (step' s o fpi)), rs, snd (step' s o fpi))) as K.
  { clear Ht Hr Hb. induction hh as [|o' hh IH]; intros s0 fp0 I Hin; [destruct Hin|].
    cbn [trace] in Hin. destruct (step' s0 o' fp0) as [[s1 rs1] fp1] eqn:E. destruct Hin as [X|Hin].
    - injection X as <- <- <- <-. split; [exact I|]. now rewrite E.
    - eapply IH; [|exact Hin]. eapply step_inv; eassumption. }
  destruct (K h _ _ (init_inv now) Ht) as [I E].
  now destruct (step_assertion _ _ _ _ _ _ _ _ I E Hr Hb) as (_ & R & _).
Qed.

(* the identity in the assertion is the snapshot stored in the session (cookie)
   or the user's record at this very login (password) *)
Theorem user_as_at_login s o fp s' rs fp' r a :
  Inv s -> step' s o fp = (s', rs, fp') -> In r rs -> r_body r = BAssertion a ->
  exists parsed c, creds_of o = Some (parsed, c) /\
    ((parsed && nonempty (cr_user c) = true /\ exists u, alookup (cr_user c) (users s) = Some u /\
        a_user a = u_name u /\ a_nameid a = p_email (u_prof u) /\ a_prof a = u_prof u) \/
     (parsed && nonempty (cr_user c) = false /\ exists id se, cr_cookie c = Some id /\ alookup id (sessions s) = Some se /\
        a_user a = se_user se /\ a_nameid a = se_nameid se /\ a_prof a = se_prof se)).
Proof.
  intros I E Hr Hb. destruct (step_assertion _ _ _ _ _ _ _ _ I E Hr Hb) as ((parsed & c & Co & [A|B]) & _).
  - exists parsed, c. split; [exact Co|left]. destruct A as (-> & N & u & Lu & V & X). rewrite N. split; [reflexivity|]. exists u. tauto.
  - exists parsed, c. split; [exact Co|right]. destruct B as (P & id & se & Ck & Ls & X & Hlog & Y). split; [exact P|]. exists id, se. tauto.
Qed.

(* a stored session never changes: management calls on users do not touch it,
   and a new session gets a fresh identifier *)
Definition ids_fresh (s : sstate') : Prop :=
  0 <= rand s /\ forall id se, alookup id (sessions s) = Some se -> exists k, 0 <= k < rand s /\ id = sid k.

Lemma sid_inj a b : 0 <= a < 10 ^ 20 -> 0 <= b < 10 ^ 20 -> sid a = sid b -> a = b.
Proof. unfold sid. intros Ha Hb E. cbn [String.append] in E. injection E as E. now apply dec_inj. Qed.

Lemma step_sessions_stable s o fp s' rs fp' id se se' :
  ids_fresh s -> rand s < 10 ^ 20 -> step' s o fp = (s', rs, fp') ->
  alookup id (sessions s) = Some se -> alookup id (sessions s') = Some se' -> se' = se.
Proof.
  intros [R0 F] Rb E L L'.
  assert (forall u, alookup id (sessions (with_session s u)) = Some se' -> se' = se) as K.
  { intros u X. unfold with_session in X; cbn [sessions] in X. apply alookup_ainsert_some in X as [[-> _]|[_ X]]; [|congruence].
    destruct (F _ _ L) as (k & Hk & Ek). apply sid_inj in Ek; lia. }
  assert (forall parsed c fpa s1 r fp1, get_session verify s parsed c fpa = (s1, r, fp1) ->
            alookup id (sessions s1) = Some se' -> se' = se) as KG.
  { intros parsed c fpa s1 r fp1 G X. destruct r as [rep|[sx ck]].
    - apply get_session_inl in G as [-> _]. congruence.
    - apply get_session_inr in G as [(_ & _ & u & _ & _ & _ & _ & -> & _)|(_ & i & _ & _ & _ & _ & -> & _)]; [now apply (K u)|congruence]. }
  destruct o; cbn [step] in E;
    try (unfold put_user, del_user, get_user, list_keys, put_service, put_service_md, del_service, put_shortcut, del_shortcut, get_sess in E;
         repeat dmh E; injection E as <- <- <-; cbn in L'; congruence).
  - unfold login in E. destruct (get_session verify s true c fp) as [[s1 r] fp1] eqn:G.
    assert (s' = s1) as -> by (destruct r as [rep|[sx ck]]; now injection E as <- <- <-). eapply KG; eassumption.
  - unfold sso in E. destruct (alookup (rq_issuer rq) (registry s)) as [md|]; [|injection E as <- <- <-; congruence].
    destruct (acs_select md rq); [|injection E as <- <- <-; congruence].
    destruct (get_session verify s true c fp) as [[s1 r] fp1] eqn:G.
    assert (s' = s1) as -> by (destruct r as [rep|[sx ck]]; now injection E as <- <- <-). eapply KG; eassumption.
  - unfold launch in E. destruct (store_get (shortcuts s) n fp) as [[sp| |] fp1]; try (injection E as <- <- <-; congruence).
    destruct (get_session verify s false c fp1) as [[s1 r] fp2] eqn:G.
    assert (s' = s1) as -> by (destruct r as [rep|[sx ck]]; [now injection E as <- <- <-|repeat dmh E; now injection E as <- <- <-]).
    eapply KG; eassumption.
  - unfold del_session in E. destruct (store_mut fp) as [[|] fp1]; injection E as <- <- <-; [|congruence].
    cbn in L'. apply alookup_aremove_some in L' as [L' _]. congruence.
Qed.


(* ---------- the converse: when an assertion IS issued ---------- *)
(* a stored session presented by cookie is good up to and including its expiry
   instant (expired = strictly after), and without a store fault the request is answered *)
Lemma get_session_cookie_ok s parsed c fp id se :
  parsed && nonempty (cr_user c) = false -> cr_cookie c = Some id ->
  alookup id (sessions s) = Some se -> clock s <= se_expire se -> fst (pop fp) = NoFault ->
  get_session verify s parsed c fp = (s, inr (se, None), snd (pop fp)).
Proof.
  intros P Ck L X F. unfold get_session. rewrite P, Ck. unfold store_get.
  destruct (pop fp) as [f fp1]. cbn in F. subst f. rewrite L. cbn [snd].
  assert (se_expire se <? clock s = false) as -> by lia. reflexivity.
Qed.

Theorem sso_issues s rq c fp id se md acs :
  nonempty (cr_user c) = false -> cr_cookie c = Some id ->
  alookup id (sessions s) = Some se -> clock s <= se_expire se -> fst (pop fp) = NoFault ->
  alookup (rq_issuer rq) (registry s) = Some md -> acs_select md rq = Some acs ->
  step' s (Sso rq c) fp = (s, [{| r_status := 200; r_body := BAssertion (mk_assertion se md acs); r_cookie := None |}], snd (pop fp)).
Proof.
  intros N Ck L X F R A. cbn [step]. unfold sso. rewrite R, A.
  rewrite (get_session_cookie_ok s true c fp id se); auto; try (cbn; now rewrite N).
Qed.

(* IdP-initiated: the form goes to the first HTTP-POST endpoint of the registered metadata *)
Theorem launch_issues s n c fp sp id se md acs racs :
  cr_cookie c = Some id -> alookup n (shortcuts s) = Some sp -> fst (pop fp) = NoFault ->
  alookup id (sessions s) = Some se -> clock s <= se_expire se -> fst (pop (snd (pop fp))) = NoFault ->
  alookup sp (registry s) = Some md -> md_acs md = acs :: racs ->
  step' s (Launch n c) fp =
    (s, [{| r_status := 200; r_body := BAssertion (mk_assertion se md acs); r_cookie := None |}], snd (pop (snd (pop fp)))).
Proof.
  intros Ck Ls F1 L X F2 R A. cbn [step]. unfold launch. unfold store_get at 1.
  destruct (pop fp) as [f fp1] eqn:P1. cbn in F1. subst f. rewrite Ls. cbn [snd] in *.
  rewrite (get_session_cookie_ok s false c fp1 id se); auto. now rewrite R, A.
Qed.

(* ---------- what the two bcrypt hypotheses buy ---------- *)
(* every stored hash is the empty hash or the hash of the password of the last
   successful PUT that carried one *)
Definition hash_origin (s : sstate') : Prop :=
  forall n u, alookup n (users s) = Some u -> u_hash u = empty_hash \/ exists p, u_hash u = hash p.

Lemma get_session_users s parsed c fp s1 r fp1 :
  get_session verify s parsed c fp = (s1, r, fp1) ->
  users s1 = users s /\ services s1 = services s /\ registry s1 = registry s /\ shortcuts s1 = shortcuts s /\ clock s1 = clock s.
Proof.
  intros G. destruct r as [rep|[se ck]].
  - apply get_session_inl in G as [-> _]. auto.
  - apply get_session_inr in G as [(_ & _ & u & _ & _ & _ & _ & -> & _)|(_ & id & _ & _ & _ & _ & -> & _)]; cbn; auto.
Qed.

Lemma step_hash_origin s o fp s' rs fp' : hash_origin s -> step' s o fp = (s', rs, fp') -> hash_origin s'.
Proof.
  intros I E.
  assert (forall parsed c fpa s1 r fp1, get_session verify s parsed c fpa = (s1, r, fp1) -> hash_origin s1) as KG.
  { intros parsed c fpa s1 r fp1 G n u L. apply get_session_users in G as (G & _). rewrite G in L. now apply (I n). }
  destruct o as [n pw pr|n|n|cl|id b|id|n sp|n|c|rq c|n c|id|id|dt|]; cbn [step] in E.
  - unfold put_user in E.
    assert (forall h fpa, (h = empty_hash \/ exists p, h = hash p) ->
              (let '(ok, fp2) := store_mut fpa in
               if ok then (set_users s (ainsert n {| u_name := n; u_hash := h; u_prof := pr |} (users s)), [@rnocontent H], fp2)
               else (s, [rerr 500], fp2)) = (s', rs, fp') -> hash_origin s') as K.
    { intros h fpa Hh. destruct (store_mut fpa) as [[|] fp2]; intros X; injection X as <- <- <-; [|exact I].
      intros k u X. cbn in X. apply alookup_ainsert_some in X as [[-> ->]|[_ X]]; [exact Hh|now apply (I k)]. }
    destruct pw as [p|]; [destruct (max_password_len <? slen p); [injection E as <- <- <-; exact I|apply (K (hash p) fp); [right; eauto|exact E]]|].
    destruct (store_get (users s) n fp) as [[old| |] fp1] eqn:G.
    + apply (K (u_hash old) fp1); [|exact E]. apply store_get_ok in G as (L & _). now apply (I n).
    + apply (K empty_hash fp1); [now left|exact E].
    + injection E as <- <- <-. exact I.
  - unfold del_user in E. destruct (store_mut fp) as [[|] fp1]; injection E as <- <- <-; [|exact I].
    intros k u X. cbn in X. apply alookup_aremove_some in X as [X _]. now apply (I k).
  - unfold get_user in E. repeat dmh E; injection E as <- <- <-; exact I.
  - unfold list_keys in E. repeat dmh E; injection E as <- <- <-; exact I.
  - unfold put_service, put_service_md in E. repeat dmh E; injection E as <- <- <-; exact I.
  - unfold del_service in E. repeat dmh E; injection E as <- <- <-; exact I.
  - unfold put_shortcut in E. repeat dmh E; injection E as <- <- <-; exact I.
  - unfold del_shortcut in E. repeat dmh E; injection E as <- <- <-; exact I.
  - unfold login in E. destruct (get_session verify s true c fp) as [[s1 r] fp1] eqn:G.
    assert (s' = s1) as -> by (destruct r as [rep|[sx ck]]; now injection E as <- <- <-). eapply KG; eassumption.
  - unfold sso in E. destruct (alookup (rq_issuer rq) (registry s)) as [md|]; [|injection E as <- <- <-; exact I].
    destruct (acs_select md rq); [|injection E as <- <- <-; exact I].
    destruct (get_session verify s true c fp) as [[s1 r] fp1] eqn:G.
    assert (s' = s1) as -> by (destruct r as [rep|[sx ck]]; now injection E as <- <- <-). eapply KG; eassumption.
  - unfold launch in E. destruct (store_get (shortcuts s) n fp) as [[sp| |] fp1]; try (injection E as <- <- <-; exact I).
    destruct (get_session verify s false c fp1) as [[s1 r] fp2] eqn:G.
    assert (s' = s1) as -> by (destruct r as [rep|[sx ck]]; [now injection E as <- <- <-|repeat dmh E; now injection E as <- <- <-]).
    eapply KG; eassumption.
  - unfold get_sess in E. repeat dmh E; injection E as <- <- <-; exact I.
  - unfold del_session in E. repeat dmh E; injection E as <- <- <-; exact I.
  - injection E as <- <- <-. exact I.
  - injection E as <- <- <-. exact I.
Qed.

Lemma run_hash_origin s h fp : hash_origin s -> hash_origin (fst (run' s h fp)).
Proof.
  revert s fp; induction h as [|o h IH]; intros s fp I; [exact I|].
  rewrite run_step. destruct (step' s o fp) as [[s' rs] fp'] eqn:E. apply IH. eapply step_hash_origin; eassumption.
Qed.

(* "presented the user's correct password" means exactly: the password from
   which the stored hash was made; a user stored without a password has none *)
Theorem password_exact now h fp n u pw :
  alookup n (users (fst (run' (init_state H now) h fp))) = Some u ->
  (verify (u_hash u) pw = true <-> exists p, u_hash u = hash p /\ norm p = norm pw).
Proof.
  intros L. assert (hash_origin (fst (run' (init_state H now) h fp))) as O.
  { apply run_hash_origin. intros k x X. discriminate. }
  destruct (O n u L) as [E|[p E]]; rewrite E.
  - rewrite verify_empty. split; [discriminate|]. intros (p & X & _).
    rewrite <- (verify_empty p), X. now apply verify_hash.
  - split.
    + intros V. exists p. split; [reflexivity|now apply verify_hash].
    + intros (p' & X & Y). rewrite X. now apply verify_hash.
Qed.

(* ---------- boolean monitor ---------- *)
Lemma authenticated_okb s o a : authenticated s o a -> auth_okb verify s o a = true.
Proof.
  intros (parsed & c & Co & [(-> & N & u & Lu & V & A1 & A2 & A3)|(P & id & se & Ck & Ls & X & Hlog & A1 & A2 & A3)]);
    unfold auth_okb; rewrite Co.
  - rewrite N. cbn [andb]. rewrite Lu, V, A1, A2, A3, !String.eqb_refl, profile_eqb_refl. reflexivity.
  - rewrite P, Ck, Ls, A1, A2, A3, !String.eqb_refl, profile_eqb_refl, (mem_pair_In _ _ _ Hlog).
    assert (clock s <=? se_expire se = true) as -> by lia. reflexivity.
Qed.

Lemma registered_okb_of s o a : registered s o a -> registered_okb s o a = true.
Proof.
  intros (md & L & Ek & Hin & Ho). unfold registered_okb. rewrite L, Ek, String.eqb_refl.
  apply mem_str_In in Hin. rewrite Hin. cbn [andb].
  destruct o; try contradiction.
  - destruct Ho as [-> [Q|Q]]; rewrite String.eqb_refl; cbn [andb].
    + rewrite Q. reflexivity.
    + rewrite Q, String.eqb_refl. apply orb_true_r.
  - rewrite Ho, String.eqb_refl. reflexivity.
Qed.

End Proofs.

(* ---------- the symbolic instance evaluated by the correspondence check ---------- *)
Lemma verify0_hash p p' : verify0 (hash0 p) p' = true <-> norm0 p = norm0 p'.
Proof. unfold verify0, hash0. apply String.eqb_eq. Qed.
Lemma verify0_empty p : verify0 empty0 p = false.
Proof. reflexivity. Qed.

Lemma spec_step_of_model s o fp s' rs fp' :
  Inv H0 s -> step0 s o fp = (s', rs, fp') -> spec_step s o (obs_of_model rs) = true.
Proof.
  intros I E. unfold step0 in E.
  pose proof (step_one_reply H0 hash0 verify0 empty0 s o fp) as L1. rewrite E in L1. cbn [fst snd] in L1.
  unfold spec_step. destruct (is_request o).
  - destruct rs as [|r [|r2 rs2]]; try discriminate. cbn [obs_of_model o_n o_rep o_hash List.length]. cbn [Z.of_nat Pos.of_succ_nat Z.eqb Pos.eqb negb andb].
    destruct (r_body r) as [| | |a|se|u|l] eqn:B; try reflexivity.
    + destruct (step_assertion H0 hash0 verify0 empty0 norm0 verify0_hash verify0_empty s o fp s' [r] fp' r a I E (or_introl eq_refl) B) as (A1 & A2 & _).
      assert (auth_okb verify0 s o a = true) as -> by (eapply authenticated_okb; first [exact A1 | exact verify0_hash | exact verify0_empty]).
      assert (registered_okb s o a = true) as -> by (eapply registered_okb_of; first [exact A2 | exact verify0_hash | exact verify0_empty]).
      reflexivity.
    + pose proof (step_no_hash H0 hash0 verify0 empty0 s o fp r u) as X. rewrite E in X. cbn [fst snd] in X.
      rewrite (X (or_introl eq_refl) B). reflexivity.
  - destruct rs; [reflexivity|discriminate].
Qed.

Lemma assertion_eqb_refl a : assertion_eqb a a = true.
Proof. unfold assertion_eqb. now rewrite !String.eqb_refl, profile_eqb_refl. Qed.
Lemma issue_okb_model rs : issue_okb rs (obs_of_model rs) = true.
Proof.
  destruct rs as [|r rs]; [reflexivity|]. unfold issue_okb, obs_of_model. cbn [o_rep].
  destruct (r_body r); try reflexivity. apply assertion_eqb_refl.
Qed.

(* the boolean form of the theorems, evaluated on the model's own replies, holds
   for every history and fault plan: what the check computes on the
   implementation's replies is false only if they differ from the model's *)
Theorem monitor_holds_of_model : forall h s fp,
  Inv H0 s -> spec_run s h fp (map obs_of_model (replies hash0 verify0 empty0 s h fp)) = true.
Proof.
  induction h as [|o h IH]; intros s fp I; [reflexivity|].
  unfold replies. cbn [trace]. fold step0. destruct (step0 s o fp) as [[s' rs] fp'] eqn:E.
  cbn [map snd spec_run]. rewrite E. rewrite (spec_step_of_model _ _ _ _ _ _ I E), issue_okb_model. cbn [andb].
  apply IH. unfold step0 in E. eapply step_inv; try eassumption; [apply verify0_hash|apply verify0_empty].
Qed.

(* ---------- witnesses (non-vacuity, known finding K3) ---------- *)
Definition ex_prof : profile := mkp "alice@example.com" "Alice" "A" "Al" "" ["users"].
Definition ex_md1 := mkmd "https://sp1/metadata" ["https://sp1/acs"].
Definition ex_md1b := mkmd "https://sp1/metadata" ["https://sp1/acs-b"].
Definition ex_setup : list op :=
  [PutUser "alice" (Some "pw1") ex_prof; PutService "a" (MdSingle ex_md1); PutShortcut "x" "https://sp1/metadata"].

Definition has_assertion (rs : list (reply H0)) : bool :=
  existsb (fun r => match r_body r with BAssertion _ => true | _ => false end) rs.
Definition last_reply (h : list op) (fp : faultplan) : list (reply H0) :=
  last (replies hash0 verify0 empty0 (init_state H0 0) h fp) [].

(* assertions ARE issued: by password, by the session cookie it created, and through a shortcut *)
Example assertion_reachable :
  has_assertion (last_reply (ex_setup ++ [Sso (mkrq "https://sp1/metadata" "") (Password "alice" "pw1")]) []) = true /\
  has_assertion (last_reply (ex_setup ++ [Login (Password "alice" "pw1"); Sso (mkrq "https://sp1/metadata" "https://sp1/acs") (Cookie "S0")]) []) = true /\
  has_assertion (last_reply (ex_setup ++ [Login (Password "alice" "pw1"); Advance 3600000000000; Launch "x" (Cookie "S0")]) []) = true.
Proof. repeat split; vm_compute; reflexivity. Qed.

(* ... and are refused one second after expiry, after the session is deleted, with a wrong
   password, for a user without password, and when the lookup is hit by a store fault *)
Example assertion_refused :
  has_assertion (last_reply (ex_setup ++ [Login (Password "alice" "pw1"); Advance 3600000000001; Launch "x" (Cookie "S0")]) []) = false /\
  has_assertion (last_reply (ex_setup ++ [Login (Password "alice" "pw1"); DelSession "S0"; Launch "x" (Cookie "S0")]) []) = false /\
  has_assertion (last_reply (ex_setup ++ [Sso (mkrq "https://sp1/metadata" "") (Password "alice" "pw2")]) []) = false /\
  has_assertion (last_reply (PutUser "bob" None ex_prof :: ex_setup ++ [Sso (mkrq "https://sp1/metadata" "") (Password "bob" "")]) []) = false /\
  has_assertion (last_reply (ex_setup ++ [Sso (mkrq "https://sp1/metadata" "") (Password "alice" "pw1")]) [NoFault; NoFault; NoFault; NoFault; IOErr]) = false.
Proof. repeat split; vm_compute; reflexivity. Qed.

(* Known finding K3: two service ids with one entity ID.  Deleting one
   unregisters the other although it is still stored; a restart re-registers it,
   so inserting Restart changes a later reply. *)
Definition k3_history (restart : bool) : list op :=
  [PutUser "alice" (Some "pw1") ex_prof; Login (Password "alice" "pw1"); PutService "a" (MdSingle ex_md1); PutService "b" (MdSingle ex_md1b);
   DelService "a"] ++ (if restart then [Restart] else []) ++ [Sso (mkrq "https://sp1/metadata" "") (Cookie "S0")].
Example duplicate_entity_refuted :
  has_assertion (last_reply (k3_history false) []) = false /\ has_assertion (last_reply (k3_history true) []) = true.
Proof. split; vm_compute; reflexivity. Qed.

(* an aggregate registers its FIRST entity that has an SPSSODescriptor, nothing else *)
Definition ex_md2 := mkmd "https://sp2/metadata" ["https://sp2/acs"].
Definition ex_idp := mkmd "https://idp-only/metadata" [].
Definition agg_history (issuer : string) : list op :=
  [PutUser "alice" (Some "pw1") ex_prof; Login (Password "alice" "pw1");
   PutService "a" (MdAggregate [(ex_idp, false); (ex_md1, true); (ex_md2, true)]);
   Sso (mkrq issuer "") (Cookie "S0")].
Example aggregate_registers_first_sp :
  has_assertion (last_reply (agg_history "https://sp1/metadata") []) = true /\
  has_assertion (last_reply (agg_history "https://sp2/metadata") []) = false /\
  has_assertion (last_reply (agg_history "https://idp-only/metadata") []) = false.
Proof. repeat split; vm_compute; reflexivity. Qed.

(* a password of more than 72 bytes is refused and changes nothing; 72 bytes are
   accepted, and then (bcrypt) every longer password with that prefix verifies *)
Definition p72 : string := "012345678901234567890123456789012345678901234567890123456789012345678901".
Example password_length_boundary :
  let h1 := [PutUser "alice" (Some "pw1") ex_prof; PutService "a" (MdSingle ex_md1); PutUser "alice" (Some (p72 +++ "x")) ex_prof] in
  let h2 := [PutUser "alice" (Some p72) ex_prof; PutService "a" (MdSingle ex_md1)] in
  has_assertion (last_reply (h1 ++ [Sso (mkrq "https://sp1/metadata" "") (Password "alice" "pw1")]) []) = true /\
  has_assertion (last_reply (h1 ++ [Sso (mkrq "https://sp1/metadata" "") (Password "alice" (p72 +++ "x"))]) []) = false /\
  has_assertion (last_reply (h1 ++ [Sso (mkrq "https://sp1/metadata" "") (Password "alice" p72)]) []) = false /\
  has_assertion (last_reply (h2 ++ [Sso (mkrq "https://sp1/metadata" "") (Password "alice" p72)]) []) = true /\
  has_assertion (last_reply (h2 ++ [Sso (mkrq "https://sp1/metadata" "") (Password "alice" (p72 +++ "tail"))]) []) = true /\
  has_assertion (last_reply (h2 ++ [Sso (mkrq "https://sp1/metadata" "") (Password "alice" (take 71 p72))]) []) = false.
Proof. repeat split; vm_compute; reflexivity. Qed.
