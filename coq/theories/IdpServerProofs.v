(* IdpServerProofs.v — theorems about the IdP server state machine (C19). *)
From Saml Require Import Base BaseProofs IdpServer.
Local Open Scope list_scope.
