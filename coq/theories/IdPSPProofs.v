(* IdPSPProofs.v — the models compose: what IdPModel.respond emits, rendered as an
   XML tree, is accepted by SPModel.parse_xml_response, which returns the
   session's name identifier and attribute values. *)
From Saml Require Import Base BaseProofs TimeModel TimeProofs IdPModel IdPModelProofs SPModel SPModelProofs IdPSP.
Local Open Scope list_scope.
Local Open Scope Z_scope.

(* decide comparisons of closed strings without touching symbolic subterms *)
Ltac sg :=
  repeat match goal with
  | |- context [seqb ?a ?b] =>
      let v := eval vm_compute in (seqb a b) in
      match v with
      | true => change (seqb a b) with true
      | false => change (seqb a b) with false
      end
  end.

(* ---------- attributes ---------- *)
Lemma attr_opt_app n a b :
  attr_opt n (a ++ b) = match attr_opt n b with Some x => Some x | None => attr_opt n a end.
Proof.
  induction a as [|[k v] r IH]; cbn [app attr_opt]; [destruct (attr_opt n b); reflexivity|].
  rewrite IH. destruct (attr_opt n b); [reflexivity|]. reflexivity.
Qed.

Lemma attr_opt_one n k v : attr_opt n [(k, v)] = if seqb k n then Some v else None.
Proof. reflexivity. Qed.

Lemma attr_opt_opt n k v : attr_opt n (opt_attr k v) = if seqb k n && nonempty v then Some v else None.
Proof. unfold opt_attr. destruct (nonempty v); cbn [attr_opt]; [destruct (seqb k n)|rewrite andb_false_r]; reflexivity. Qed.

Lemma attr_opt_time n k t :
  attr_opt n (time_opt_attr k t) = if seqb k n && negb (t =? zero_time) then Some (format_relaxed t) else None.
Proof. unfold time_opt_attr. destruct (t =? zero_time); cbn [attr_opt negb]; [rewrite andb_false_r|destruct (seqb k n)]; reflexivity. Qed.

Lemma opt_str_opt v : opt_str (if nonempty v then Some v else None) = v.
Proof. destruct v; reflexivity. Qed.

(* parse (format t) with the zero-time convention *)
Definition in_range (t : Z) : Prop := zero_time <= round_ms t < year10000.
Lemma parse_time_opt t :
  in_range t ->
  parse_relaxed (opt_str (if negb (t =? zero_time) then Some (format_relaxed t) else None)) = Ok (round_ms t).
Proof.
  intro H. destruct (t =? zero_time) eqn:E; cbn [negb opt_str].
  - apply Z.eqb_eq in E. subst t. vm_compute. reflexivity.
  - apply instant_roundtrip. exact H.
Qed.

Lemma opt_id {A} (o : option A) : match o with Some x => Some x | None => None end = o.
Proof. destruct o; reflexivity. Qed.

Ltac attr_norm :=
  rewrite ?attr_opt_app, ?attr_opt_opt, ?attr_opt_time; cbn [attr_opt]; sg; cbn [andb]; cbv iota;
  rewrite ?opt_id.

(* ---------- one lemma per rendered element ---------- *)
Lemma merge_one x : merge [x] = Some {| mg_attrs := node_attrs x; mg_kids := node_kids x; mg_text := chardata (node_kids x) |}.
Proof. unfold merge. cbn [last_opt flat_map]. rewrite !app_nil_r. reflexivity. Qed.

Lemma un_conf_render a :
  in_range (a_conf_noa a) ->
  un_conf (r_conf a) = Ok {| sc_data := true; sc_irt := a_conf_in_response_to a; sc_recipient := a_conf_recipient a;
                             sc_noa := round_ms (a_conf_noa a) |}.
Proof.
  intro H. unfold un_conf, r_conf, child_any. cbn [node_kids]. unfold r_confdata.
  cbn [filter tagged]. sg. cbv iota. rewrite merge_one. cbn [node_attrs mg_attrs].
  unfold time_attr, attr. attr_norm.
  cbn [opt_str]. change (parse_relaxed "") with (Ok zero_time). cbn [bind].
  rewrite (parse_time_opt _ H). cbn [bind]. rewrite !opt_str_opt. reflexivity.
Qed.

Definition no_els (l : list node) : Prop := forall x, In x l -> is_el x = false.
Lemma filter_named_no_els ns t l : no_els l -> filter (named ns t) l = [].
Proof.
  induction l as [|x r IH]; intro H; [reflexivity|]. cbn [filter].
  assert (Hx : is_el x = false) by (apply H; left; reflexivity).
  destruct x; try discriminate; cbn [named]; apply IH; intros y Hy; apply H; right; exact Hy.
Qed.
Lemma filter_tagged_no_els t l : no_els l -> filter (tagged t) l = [].
Proof.
  induction l as [|x r IH]; intro H; [reflexivity|]. cbn [filter].
  assert (Hx : is_el x = false) by (apply H; left; reflexivity).
  destruct x; try discriminate; cbn [tagged]; apply IH; intros y Hy; apply H; right; exact Hy.
Qed.
Lemma filter_cons_app {A} (p : A -> bool) i sig rest :
  filter p sig = [] -> filter p (i :: sig ++ rest) = filter p [i] ++ filter p rest.
Proof. intro H. cbn [filter]. rewrite filter_app, H. destruct (p i); reflexivity. Qed.

Lemma chardata_txt s : chardata [Txt s] = s.
Proof. cbn [chardata]. apply app_nil_r_s. Qed.

(* Conditions / audiences *)
Lemma filter_audiences l : filter (tagged "AudienceRestriction") (map r_audience l) = map r_audience l.
Proof. induction l as [|x r IH]; [reflexivity|]. cbn [map filter]. unfold r_audience at 1. cbn [tagged]. sg. cbv iota. rewrite IH. reflexivity. Qed.
Lemma un_audience_render s : un_audience (r_audience s) = s.
Proof.
  unfold un_audience, r_audience, child_any. cbn [node_kids filter tagged]. sg. cbv iota.
  rewrite merge_one. cbn [mg_text node_kids]. apply chardata_txt.
Qed.
Lemma un_audiences_render l : map un_audience (map r_audience l) = l.
Proof. induction l as [|x r IH]; [reflexivity|]. cbn [map]. rewrite un_audience_render, IH. reflexivity. Qed.

(* attribute statement *)
Lemma filter_attrvalues l : filter (tagged "AttributeValue") (map r_attrvalue l) = map r_attrvalue l.
Proof. induction l as [|x r IH]; [reflexivity|]. cbn [map filter]. unfold r_attrvalue at 1. cbn [tagged]. sg. cbv iota. rewrite IH. reflexivity. Qed.
Lemma filter_attributes l : filter (tagged "Attribute") (map r_attribute l) = map r_attribute l.
Proof. induction l as [|x r IH]; [reflexivity|]. cbn [map filter]. unfold r_attribute at 1. cbn [tagged]. sg. cbv iota. rewrite IH. reflexivity. Qed.
Lemma attrvalue_texts l : map (fun v => chardata (node_kids v)) (map r_attrvalue l) = map av_value l.
Proof.
  induction l as [|x r IH]; [reflexivity|]. cbn [map]. rewrite IH. f_equal.
  unfold r_attrvalue. cbn [node_kids]. destruct (av_nameid x); [|apply chardata_txt].
  unfold r_nameid. cbn [chardata]. apply app_nil_r_s.
Qed.
Lemma un_attrvals_render a :
  un_attrvals (r_attrstmt a) = flat_map (fun x => map av_value (at_values x)) (a_attributes a).
Proof.
  unfold un_attrvals, r_attrstmt. cbn [node_kids]. rewrite filter_attributes.
  induction (a_attributes a) as [|x r IH]; [reflexivity|].
  cbn [map flat_map]. rewrite IH. f_equal.
  unfold r_attribute. cbn [node_kids]. rewrite filter_attrvalues. apply attrvalue_texts.
Qed.

Lemma nameid_text n c :
  match child_any "NameID" [r_nameid n; r_conf c] with Some m => mg_text m | None => "" end = ni_value n.
Proof.
  unfold child_any, r_nameid, r_conf. cbn [filter tagged]. sg. cbv iota. rewrite merge_one.
  cbn [mg_text node_kids]. apply chardata_txt.
Qed.

Definition times_in_range (a : IdPModel.assertion) : Prop :=
  in_range (a_issue_instant a) /\ in_range (a_conf_noa a) /\ in_range (a_not_before a) /\ in_range (a_noa a).

(* xml.Unmarshal of a rendered assertion, with or without its Signature child *)
Theorem un_assertion_render a sig :
  no_els sig -> times_in_range a ->
  un_assertion (render_assertion_core a sig) = Ok (abs_assertion a).
Proof.
  intros Hs (Hi & Hc & Hnb & Hnoa).
  unfold render_assertion_core, un_assertion. sg. cbn [andb negb]. cbv iota.
  (* IssueInstant *)
  unfold time_attr at 1, attr, r_assertion_attrs. cbn [attr_opt]. sg. cbv iota. cbn [opt_str].
  rewrite (instant_roundtrip _ Hi). cbn [bind].
  (* Subject *)
  unfold child_ns at 1. rewrite (filter_cons_app _ _ _ _ (filter_named_no_els _ _ _ Hs)).
  unfold r_issuer_el at 1, r_subject at 1, r_conditions at 1, r_authn at 1, r_attrstmt at 1.
  cbn [filter named app]. sg. cbn [andb]. cbv iota. cbn [app]. rewrite merge_one. cbn [mg_kids node_kids].
  unfold r_nameid at 1, r_conf at 1. cbn [filter tagged]. sg. cbv iota.
  cbn [map_o]. fold (r_conf a). rewrite (un_conf_render _ Hc). cbn [bind].
  rewrite nameid_text.
  (* Conditions *)
  unfold child_any at 1. rewrite (filter_cons_app _ _ _ _ (filter_tagged_no_els _ _ Hs)).
  unfold r_issuer_el at 1, r_subject at 1, r_conditions at 1, r_authn at 1, r_attrstmt at 1.
  cbn [filter tagged app]. sg. cbv iota. cbn [app]. rewrite merge_one. cbn [mg_attrs mg_kids node_attrs node_kids].
  unfold time_attr, attr. attr_norm. rewrite (parse_time_opt _ Hnb), (parse_time_opt _ Hnoa). cbn [bind].
  rewrite filter_audiences, un_audiences_render.
  (* Issuer, ID, attribute values *)
  unfold child_ns at 1. rewrite (filter_cons_app _ _ _ _ (filter_named_no_els _ _ _ Hs)).
  unfold r_issuer_el at 1, r_subject at 1, r_conditions at 1, r_authn at 1, r_attrstmt at 1.
  cbn [filter named app]. sg. cbn [andb]. cbv iota. cbn [app]. rewrite merge_one. cbn [mg_text node_kids]. rewrite chardata_txt.
  unfold r_issuer_el at 1. cbn [tagged]. sg. cbv iota.
  rewrite filter_app, (filter_tagged_no_els _ _ Hs).
  unfold r_subject at 1, r_conditions at 1, r_authn at 1, r_attrstmt at 1.
  cbn [filter tagged app]. sg. cbv iota. fold (r_attrstmt a).
  cbn [flat_map]. rewrite app_nil_r, un_attrvals_render.
  reflexivity.
Qed.

(* ---------- signatures on rendered elements ---------- *)
Lemma node_eqb_refl : forall n, node_eqb n n = true.
Proof.
  apply node_ind'.
  - intros ns tag attrs kids H. cbn [node_eqb]. rewrite !seqb_refl. cbn [andb].
    apply andb_true_iff. split.
    + induction attrs as [|[p q] r IH]; [reflexivity|]. rewrite !seqb_refl. exact IH.
    + induction H as [|k r Hk _ IH]; [reflexivity|]. rewrite Hk. exact IH.
  - intro s. apply seqb_refl.
  - reflexivity.
  - intros sh u sg ki ov H. cbn [node_eqb]. rewrite H, seqb_refl, Z.eqb_refl.
    destruct sh; destruct ki; cbn; rewrite ?Z.eqb_refl; reflexivity.
  - intros cid st p H. cbn [node_eqb]. rewrite H, !Z.eqb_refl. reflexivity.
Qed.

Lemma uri_matches_hash id : uri_matches ("#" +++ id) id = true.
Proof. unfold uri_matches. cbn [append nonempty negb orb drop]. apply seqb_refl. Qed.

(* an element whose second child is a well-shaped Signature by key k over the
   element without it, referring to the element's ID, whose first child is a
   signature-free element, and which has no other Signature child *)
Lemma validate_signature_enveloped cfg ns tag attrs fns ftag fattrs fkids rest id k :
  (forall el, signing_roots (trust cfg) el = Ok [k]) -> 0 <= k ->
  attr "ID" attrs = id ->
  find_sig id (El fns ftag fattrs fkids) = FNone -> seqb ftag "Signature" = false ->
  filter is_sig rest = [] ->
  validate_signature cfg
    (El ns tag attrs (El fns ftag fattrs fkids
                      :: SigN true ("#" +++ id) k (KICert k) (El ns tag attrs (El fns ftag fattrs fkids :: rest))
                      :: rest)) = SValid.
Proof.
  intros Hroots Hk Hid Hf Hs Hr.
  unfold validate_signature. cbn [node_kids filter is_sig]. rewrite Hr, Hroots.
  assert (Hstrip : forall x, strip_keyinfo (El ns tag attrs (El fns ftag fattrs fkids :: SigN true ("#" +++ id) k (KICert k) x :: rest))
                   = El ns tag attrs (El fns ftag fattrs fkids :: SigN true ("#" +++ id) k (KICert k) x :: rest)).
  { intro x. unfold strip_keyinfo. cbn [existsb has_cert]. rewrite orb_true_r. reflexivity. }
  rewrite Hstrip. unfold dsig_validate. cbn [node_attrs]. rewrite Hid.
  assert (Hfind : find_sig id (El ns tag attrs (El fns ftag fattrs fkids :: SigN true ("#" +++ id) k (KICert k)
                                                   (El ns tag attrs (El fns ftag fattrs fkids :: rest)) :: rest))
                  = FHit ("#" +++ id) k (KICert k) (El ns tag attrs (El fns ftag fattrs fkids :: rest))
                         (El ns tag attrs (El fns ftag fattrs fkids :: rest))).
  { cbn [find_sig] in *. rewrite Hf. cbn [negb]. rewrite uri_matches_hash. reflexivity. }
  rewrite Hfind.
  replace (0 <=? k) with true by lia. cbn [existsb andb]. rewrite Z.eqb_refl. cbn [orb].
  rewrite node_eqb_refl, ?Z.eqb_refl. reflexivity.
Qed.

Lemma find_sig_issuer id v f : find_sig id (r_issuer_el v f) = FNone.
Proof. reflexivity. Qed.

Lemma attr_id_assertion a : attr "ID" (r_assertion_attrs a) = IdPModel.a_id a.
Proof. unfold attr, r_assertion_attrs. cbn [attr_opt]. sg. cbv iota. reflexivity. Qed.
Lemma attr_id_response b : attr "ID" (r_response_attrs b) = rs_id b.
Proof. unfold attr, r_response_attrs. attr_norm. reflexivity. Qed.

Theorem validate_signature_assertion cfg a sg k :
  (forall el, signing_roots (trust cfg) el = Ok [k]) -> 0 <= k ->
  sg_signer sg = k -> sg_ref sg = "#" +++ IdPModel.a_id a -> sg_over sg = a ->
  validate_signature cfg (render_assertion a sg) = SValid.
Proof.
  intros Hr Hk Hs Hu Ho. unfold render_assertion. rewrite Hs, Hu, Ho.
  unfold render_assertion_core, r_issuer_el. cbn [app].
  apply validate_signature_enveloped; auto; try reflexivity; try apply attr_id_assertion.
Qed.

Lemma is_sig_ael spkey x : is_sig (render_ael spkey x) = false.
Proof. destruct x; reflexivity. Qed.

Theorem validate_signature_response cfg spkey (r : IdPModel.response) k :
  (forall el, signing_roots (trust cfg) el = Ok [k]) -> 0 <= k ->
  sg_signer (rs_sig r) = k -> sg_ref (rs_sig r) = "#" +++ rs_id (rs_body r) -> sg_over (rs_sig r) = rs_body r ->
  validate_signature cfg (render_response spkey r) = SValid.
Proof.
  intros Hr Hk Hs Hu Ho. unfold render_response. rewrite Hs, Hu, Ho.
  unfold render_response_core, r_issuer_el. cbn [app].
  apply validate_signature_enveloped; auto; try reflexivity.
  - apply attr_id_response.
  - cbn [filter]. unfold r_status_el at 1. cbn [is_sig]. rewrite is_sig_ael. reflexivity.
Qed.

(* ---------- xml.Unmarshal of a rendered response ---------- *)
Definition abs_response (b : respbody) : SPModel.response :=
  {| r_dest := rs_destination b; r_irt := rs_in_response_to b; r_issue := round_ms (rs_issue_instant b);
     r_issuer := Some (rs_issuer b); r_status := rs_status b |}.

Definition ael_times_ok (x : assertion_el) : Prop :=
  match x with APlain a _ => times_in_range a | AEnc _ => True end.

Lemma no_els_sig sh u s k o : no_els [SigN sh u s k o].
Proof. intros x [<-|[]]. reflexivity. Qed.

Theorem un_response_render spkey b sh u sgn k o :
  in_range (rs_issue_instant b) -> ael_times_ok (rs_assertion b) ->
  un_response (render_response_core spkey b [SigN sh u sgn k o]) = Ok (abs_response b).
Proof.
  intros Hi Ha. unfold un_response, un_response_named, render_response_core. sg. cbn [andb negb]. cbv iota.
  unfold time_attr at 1, attr, r_response_attrs. attr_norm. cbn [opt_str].
  rewrite (instant_roundtrip _ Hi). cbn [bind app node_kids].
  assert (Hst : un_status (r_issuer_el (rs_issuer b) (rs_issuer_format b) :: SigN sh u sgn k o
                           :: [r_status_el b; render_ael spkey (rs_assertion b)]) = rs_status b).
  { unfold un_status, child_ns, r_issuer_el, r_status_el. destruct (rs_assertion b) as [a s|e]; cbn [render_ael];
      unfold render_assertion, render_assertion_core; cbn [filter named]; sg; cbn [andb]; cbv iota;
      rewrite merge_one; cbn [mg_kids node_kids filter named]; sg; cbn [andb]; cbv iota;
      rewrite merge_one; cbn [mg_attrs node_attrs]; unfold attr; cbn [attr_opt]; sg; cbv iota; reflexivity. }
  rewrite Hst.
  assert (His : child_ns NS_A "Issuer" (r_issuer_el (rs_issuer b) (rs_issuer_format b) :: SigN sh u sgn k o
                                          :: [r_status_el b; render_ael spkey (rs_assertion b)])
                = Some {| mg_attrs := opt_attr "Format" (rs_issuer_format b); mg_kids := [Txt (rs_issuer b)];
                          mg_text := rs_issuer b |}).
  { unfold child_ns, r_issuer_el, r_status_el. destruct (rs_assertion b) as [a s|e]; cbn [render_ael];
      unfold render_assertion, render_assertion_core; cbn [filter named]; sg; cbn [andb]; cbv iota;
      rewrite merge_one; cbn [node_attrs node_kids]; rewrite chardata_txt; reflexivity. }
  rewrite His. cbn [mg_text].
  destruct (rs_assertion b) as [a s|e] eqn:Ea; cbn [render_ael].
  - assert (Hf : filter (named NS_A "Assertion")
                   (r_issuer_el (rs_issuer b) (rs_issuer_format b) :: SigN sh u sgn k o :: [r_status_el b; render_assertion a s])
                 = [render_assertion a s]).
    { unfold r_issuer_el, r_status_el, render_assertion, render_assertion_core. cbn [filter named]. sg. cbn [andb]. cbv iota. reflexivity. }
    rewrite Hf. cbn [map_o]. unfold render_assertion.
    rewrite (un_assertion_render a _ (no_els_sig _ _ _ _ _) Ha). cbn [bind].
    unfold abs_response. rewrite !opt_str_opt. reflexivity.
  - assert (Hf : filter (named NS_A "Assertion")
                   (r_issuer_el (rs_issuer b) (rs_issuer_format b) :: SigN sh u sgn k o
                    :: [r_status_el b; EncN (en_recipient e) (enc_status spkey e) (render_assertion (fst (en_plain e)) (snd (en_plain e)))])
                 = []).
    { unfold r_issuer_el, r_status_el. cbn [filter named]. sg. cbn [andb]. cbv iota. reflexivity. }
    rewrite Hf. cbn [map_o bind]. unfold abs_response. rewrite !opt_str_opt. reflexivity.
Qed.

(* ---------- assembling: the models compose ---------- *)
Definition ms_aligned (t : Z) : Prop := t mod 1000000 = 0.
Lemma round_ms_aligned t : ms_aligned t -> round_ms t = t.
Proof. unfold ms_aligned, round_ms, ns_per_ms. intro H. pose proof (Z.div_mod t 1000000). lia. Qed.
Lemma ms_aligned_add a b : ms_aligned a -> ms_aligned b -> ms_aligned (a + b).
Proof. unfold ms_aligned. intros Ha Hb. rewrite Z.add_mod, Ha, Hb by lia. reflexivity. Qed.
Lemma ms_aligned_sub a b : ms_aligned a -> ms_aligned b -> ms_aligned (a - b).
Proof. unfold ms_aligned. intros Ha Hb. rewrite Zminus_mod, Ha, Hb. reflexivity. Qed.
Lemma in_range_aligned t : ms_aligned t -> zero_time <= t < year10000 -> in_range t.
Proof. intros Ha H. unfold in_range. rewrite (round_ms_aligned _ Ha). exact H. Qed.

Lemma cand_elems_response spkey b sh u g ki o a s :
  (rs_assertion b = APlain a s \/
   exists e, rs_assertion b = AEnc e /\ enc_status spkey e = 0 /\ en_plain e = (a, s)) ->
  cand_elems (render_response_core spkey b [SigN sh u g ki o]) = [render_assertion a s].
Proof.
  intro H. unfold cand_elems, render_response_core, r_issuer_el, r_status_el. cbn [node_kids app].
  destruct H as [-> | (e & -> & Hst & Hp)]; cbn [render_ael].
  - unfold render_assertion, render_assertion_core. cbn [flat_map filter named app]. sg. cbn [andb]. cbv iota. reflexivity.
  - rewrite Hst, Hp. cbn [flat_map filter named app fst snd Z.eqb]. sg. cbn [andb]. cbv iota. reflexivity.
Qed.

Lemma signing_roots_of cfg acs entity allow el :
  0 <= signer_key cfg -> signing_roots (trust (sp_cfg_of cfg acs entity allow)) el = Ok [signer_key cfg].
Proof.
  intro H. unfold sp_cfg_of. cbn [trust signing_roots meta_certs flat_map SPModel.kd_use SPModel.kd_certs]. sg.
  cbn [orb app forallb]. replace (0 <=? signer_key cfg) with true by lia. reflexivity.
Qed.

Lemma first_set_same e : first_set e e = e.
Proof. unfold first_set. destruct (nonempty e); reflexivity. Qed.

Theorem roundtrip_sp_model cfg cp rt rq s now addr relay rnd ids cur spkey allow action resp rl :
  (* tolerances and clocks: millisecond instants, the request not ahead of the clock by more than the skew *)
  0 <= IdPModel.max_issue_delay cfg -> 0 <= IdPModel.max_clock_skew cfg ->
  ms_aligned (IdPModel.max_issue_delay cfg) -> ms_aligned (IdPModel.max_clock_skew cfg) ->
  ms_aligned now -> ms_aligned (rq_issue rq) ->
  rq_issue rq - IdPModel.max_clock_skew cfg <= now ->
  zero_time <= now - IdPModel.max_clock_skew cfg -> zero_time <= rq_issue rq ->
  now + IdPModel.max_issue_delay cfg < year10000 -> rq_issue rq + IdPModel.max_issue_delay cfg < year10000 ->
  (* the SP trusts the IdP's signing key, which is a well-formed certificate *)
  0 <= signer_key cfg ->
  (* the request is outstanding, or IdP-initiated responses are allowed *)
  (allow = true \/ In (rq_id rq) ids) ->
  (* the SP holds the private key of the certificate the IdP encrypts to *)
  (forall k, enc_decision cp (kds (rt_desc rt)) = EncryptTo k -> spkey = Some k) ->
  respond cfg cp rt rq s now now addr relay rnd = Ok (action, resp, rl) ->
  let a := fst (make_assertion cfg rt rq s now now addr (rnd_saml rnd)) in
  let spc := sp_cfg_of cfg (ep_location (rt_ep rt)) (md_entity (rt_md rt)) allow in
  parse_xml_response spc ids now cur (DRoot (render_response spkey resp)) = Ok (abs_assertion a) /\
  validate_signature spc (render_response spkey resp) = SValid /\
  validate_signature spc (let '(a0, s0) := inner_assertion resp in render_assertion a0 s0) = SValid /\
  SPModel.a_nameid (abs_assertion a) = ss_nameid s /\
  a_attrvals (abs_assertion a) = flat_map (fun x => map av_value (at_values x)) (a_attributes a) /\
  SPModel.a_id (abs_assertion a) = IdPModel.a_id a.
Proof.
  intros Hd Hs Had Has Han Hai Hiss Hz1 Hz2 Hy1 Hy2 Hk Hid Henc H. cbv zeta.
  pose proof (respond_inv _ _ _ _ _ _ _ _ _ _ _ _ _ H) as R. cbv zeta in R.
  destruct R as (ael & Hm & Hel & Hresp & Hin & _ & _ & Hpost).
  pose proof (make_assertion_fields cfg rt rq s now now addr (rnd_saml rnd)) as F. cbv zeta in F.
  set (a := fst (make_assertion cfg rt rq s now now addr (rnd_saml rnd))) in *.
  set (rand' := snd (make_assertion cfg rt rq s now now addr (rnd_saml rnd))) in *.
  destruct F as (Fid & Fii & Fiss & _ & Fnid & _ & _ & _ & _ & Firt & Fcnoa & Frec & Fw & Faud & _ & _ & _ & _).
  set (spc := sp_cfg_of cfg (ep_location (rt_ep rt)) (md_entity (rt_md rt)) allow).
  set (k := signer_key cfg) in *.
  assert (Hroots : forall el, signing_roots (trust spc) el = Ok [k]) by (intro el; apply signing_roots_of; exact Hk).
  (* the window of the Conditions *)
  assert (Hwin : ms_aligned (a_not_before a) /\ ms_aligned (a_noa a) /\
                 zero_time <= a_not_before a /\ a_noa a < year10000 /\ a_not_before a <= a_noa a /\
                 a_not_before a - IdPModel.max_clock_skew cfg <= now /\ now <= a_noa a + IdPModel.max_clock_skew cfg).
  { unfold cond_window in Fw.
    destruct (now - IdPModel.max_clock_skew cfg <? rq_issue rq) eqn:Ew; injection Fw as -> ->;
      repeat split; try lia; auto using ms_aligned_add, ms_aligned_sub. }
  destruct Hwin as (Hanb & Hanoa & Hnb0 & Hnoa1 & Hnbnoa & Hnbs & Hnoas).
  assert (Hacn : ms_aligned (a_conf_noa a)) by (rewrite Fcnoa; auto using ms_aligned_add).
  assert (Hair : ms_aligned (a_issue_instant a)) by (rewrite Fii; exact Han).
  assert (Htr : times_in_range a).
  { unfold times_in_range. repeat split; apply in_range_aligned; auto; rewrite ?Fii, ?Fcnoa; lia. }
  (* the element the SP will return *)
  set (sa := sign (k, effective_method cfg) (IdPModel.a_id a) a) in *.
  assert (Hael : ael = APlain a sa \/ exists e, ael = AEnc e /\ enc_status spkey e = 0 /\ en_plain e = (a, sa)).
  { apply make_assertion_el_inv in Hel. destruct Hel as (ctx & Hc & Hcase).
    apply signing_context_ok in Hc. destruct Hc as [-> _].
    destruct Hcase as [[_ ->] | (id & Hdec & ->)]; [left; reflexivity|]. right. eexists. split; [reflexivity|].
    unfold enc_status, encrypt_assertion. cbn [fst en_recipient en_plain]. rewrite (Henc id Hdec), Z.eqb_refl. auto. }
  (* both signatures verify *)
  assert (Hvr : validate_signature spc (render_response spkey resp) = SValid).
  { rewrite Hresp. apply (validate_signature_response spc spkey _ k); auto; reflexivity. }
  assert (Hva : validate_signature spc (let '(a0, s0) := inner_assertion resp in render_assertion a0 s0) = SValid).
  { rewrite Hin. apply (validate_signature_assertion spc a _ k); auto; reflexivity. }
  split; [|repeat split; auto].
  (* parse_response, through its characterisation *)
  unfold parse_xml_response, parse_xml_response_ck.
  apply (proj2 (parse_response_ok all_checks spc ids now true cur (render_response spkey resp) (abs_assertion a))).
  unfold resp_sig. rewrite Hvr. cbn [sigv_eqb negb andb].
  exists (abs_response (rs_body resp)).
  assert (Hbody : rs_body resp = {| rs_id := fst (draw_id rand'); rs_in_response_to := rq_id rq; rs_issue_instant := now;
                                    rs_destination := ep_location (rt_ep rt); rs_issuer := IdPModel.idp_entity cfg;
                                    rs_issuer_format := fmt_entity; rs_status := status_success; rs_assertion := ael |})
    by (rewrite Hresp; reflexivity).
  split; [|split; [|split; [discriminate|]]].
  - unfold render_response. apply un_response_render.
    + rewrite Hbody. cbn [rs_issue_instant]. apply in_range_aligned; [exact Han | lia].
    + rewrite Hbody. cbn [rs_assertion]. destruct Hael as [-> | (e & -> & _)]; [exact Htr | exact I].
  - rewrite response_checks_char. unfold abs_response. rewrite Hbody.
    cbn [ck_addr ck_reqid ck_time all_checks negb orb rs_destination rs_in_response_to rs_issue_instant rs_issuer rs_status].
    unfold addr_ok_r, reqid_ok_r, time_ok_r.
    cbn [r_dest r_irt r_issue r_issuer SPModel.r_status spc sp_cfg_of acs_url SPModel.idp_entity custom_reqid allow_idp_init SPModel.max_issue_delay].
    rewrite !seqb_refl, (round_ms_aligned _ Han). cbn [orb andb negb].
    rewrite orb_true_r. cbn [andb].
    replace (seqb status_success STATUS_SUCCESS) with true by reflexivity. cbn [andb].
    assert (Hidb : allow || mem_str (rq_id rq) ids = true).
    { destruct Hid as [-> | Hi]; [reflexivity|]. apply orb_true_iff. right. apply mem_str_In. exact Hi. }
    rewrite Hidb. cbn [andb]. apply Z.leb_le. lia.
  - assert (Hc : cand_elems (render_response spkey resp) = [render_assertion a sa]).
    { unfold render_response. apply cand_elems_response. rewrite Hbody. cbn [rs_assertion]. exact Hael. }
    rewrite Hc. cbn [map first_ok].
    assert (Hp : parse_assertion all_checks spc ids now false (render_assertion a sa) = Ok (abs_assertion a)).
    { apply (proj2 (parse_assertion_ok all_checks spc ids now false _ _)). split; [discriminate|]. split.
      - unfold render_assertion. apply un_assertion_render; [apply no_els_sig | exact Htr].
      - rewrite validate_assertion_char.
        cbn [ck_addr ck_reqid ck_time all_checks negb orb].
        unfold structure_ok, time_ok_a, addr_ok_a, reqid_ok_a, abs_assertion.
        cbn [a_subject a_conditions a_issue SPModel.a_issuer confs_have_data forallb sc_data conf_window sc_noa sc_recipient sc_irt
             spc sp_cfg_of acs_url SPModel.idp_entity custom_aud allow_idp_init SPModel.max_issue_delay SPModel.max_clock_skew
             SPModel.sp_entity metadata_url].
        rewrite !(round_ms_aligned _ Hair), !(round_ms_aligned _ Hacn), !(round_ms_aligned _ Hanb), !(round_ms_aligned _ Hanoa).
        rewrite Fii, Fcnoa, Fiss, Frec, Firt, Faud, first_set_same, !seqb_refl.
        cbn [mem_str andb orb]. rewrite seqb_refl. cbn [orb andb].
        assert (Hidb : allow || (mem_str (rq_id rq) ids && true) = true).
        { destruct Hid as [-> | Hi]; [reflexivity|]. apply orb_true_iff. right. rewrite andb_true_r. apply mem_str_In. exact Hi. }
        rewrite Hidb, !andb_true_r.
        unfold conf_window. cbn [sc_noa spc sp_cfg_of SPModel.max_clock_skew].
        repeat (apply andb_true_iff; split); apply Z.leb_le; lia. }
    rewrite Hp. reflexivity.
Qed.

(* ---------- end to end: SP metadata -> Validate -> respond -> SP model ---------- *)
(* The SP publishes [sp_metadata sp cert]; the IdP registry holds it; the SP's own
   request is validated by the IdP model; whatever the IdP model then emits for a
   session is accepted by the SP model configured with the SP's ACS URL and entity ID. *)
Theorem roundtrip_end_to_end cfg cp reg (sp : IdPModel.spcfg) cert id dest s now addr relay rnd ids cur spkey allow rt action resp rl :
  0 <= IdPModel.max_issue_delay cfg -> 0 <= IdPModel.max_clock_skew cfg ->
  ms_aligned (IdPModel.max_issue_delay cfg) -> ms_aligned (IdPModel.max_clock_skew cfg) -> ms_aligned now ->
  zero_time <= now - IdPModel.max_clock_skew cfg -> now + IdPModel.max_issue_delay cfg < year10000 ->
  0 <= signer_key cfg ->
  (allow = true \/ In id ids) ->
  reg (IdPModel.sp_entity sp) = Found (sp_metadata sp cert) ->
  (forall k, enc_decision cp (kds (rt_desc rt)) = EncryptTo k -> spkey = Some k) ->
  validate cfg reg now (sp_request sp id now dest) = Ok rt ->
  respond cfg cp rt (sp_request sp id now dest) s now now addr relay rnd = Ok (action, resp, rl) ->
  exists a',
    parse_xml_response (sp_cfg_of cfg (sp_acs sp) (IdPModel.sp_entity sp) allow) ids now cur
                       (DRoot (render_response spkey resp)) = Ok a' /\
    SPModel.a_nameid a' = ss_nameid s /\
    a_attrvals a' = flat_map (fun x => map av_value (at_values x))
                             (session_attributes (choose_attr_service (attr_services (rt_desc rt))) s).
Proof.
  intros Hd Hs Had Has Han Hz1 Hy1 Hk Hid Hreg Henc Hv Hr.
  pose proof (proj1 (validate_iff _ _ _ _ _) Hv) as (r & (_ & _ & _ & iss & Hi & Hf) & Ha & Hrt).
  cbn [sp_request rq_issuer] in Hi. injection Hi as <-. rewrite Hreg in Hf. injection Hf as Hmd.
  destruct (sp_metadata_registers sp cert id now dest cp) as (d & e & Hg & Hloc & _).
  rewrite <- Hmd in Ha. rewrite Hg in Ha. injection Ha as <-.
  assert (Hep : ep_location (rt_ep rt) = sp_acs sp) by (rewrite Hrt; exact Hloc).
  assert (Hen : md_entity (rt_md rt) = IdPModel.sp_entity sp) by (rewrite <- Hmd; reflexivity).
  pose proof (roundtrip_sp_model cfg cp rt (sp_request sp id now dest) s now addr relay rnd ids cur spkey allow action resp rl) as T.
  cbn [sp_request rq_issue rq_id] in T.
  specialize (T Hd Hs Had Has Han Han ltac:(lia) Hz1 ltac:(lia) Hy1 Hy1 Hk Hid Henc Hr). cbv zeta in T.
  rewrite Hep, Hen in T. destruct T as (Tp & _ & _ & Tn & Tv & _).
  eexists. split; [exact Tp|]. split; [exact Tn|]. rewrite Tv.
  pose proof (make_assertion_fields cfg rt (sp_request sp id now dest) s now now addr (rnd_saml rnd)) as F. cbv zeta in F.
  destruct F as (_ & _ & _ & _ & _ & _ & _ & _ & _ & _ & _ & _ & _ & _ & _ & _ & _ & Fat).
  cbn [sp_request] in Fat. rewrite Fat. reflexivity.
Qed.

(* ---------- non-vacuity: concrete instances computed through both models ---------- *)
Definition exc_now : Z := 1000000000000.
Definition exc_ids := ["id-1"].
Definition ex_accept (kd : list IdPModel.keydesc) (certs : list (string * certres)) (spkey : option Z) : bool :=
  match validate IdPModelProofs.ex_cfg (IdPModelProofs.ex_reg kd) exc_now IdPModelProofs.ex_rq with
  | Ok rt =>
      match respond IdPModelProofs.ex_cfg (cp_of_list certs) rt IdPModelProofs.ex_rq IdPModelProofs.ex_sess exc_now exc_now "192.0.2.1:1" "relay" IdPModelProofs.ex_rnd with
      | Ok (_, resp, _) =>
          match obs_of (parse_xml_response (sp_cfg_of IdPModelProofs.ex_cfg (ep_location (rt_ep rt)) (md_entity (rt_md rt)) false)
                                           exc_ids exc_now "https://sp.example.com/acs" (DRoot (render_response spkey resp))) with
          | OAccept _ n v => seqb n "alice" && strs_eqb v ["alice"; "a@example.com"; "a@example.com"; "x"; "staff"; "admin"]
          | _ => false
          end
      | _ => false
      end
  | _ => false
  end.
Example ex_sp_accepts_plain : ex_accept [] [] None = true.
Proof. vm_compute. reflexivity. Qed.
Example ex_sp_accepts_encrypted :
  ex_accept [ {| IdPModel.kd_use := "encryption"; IdPModel.kd_certs := ["CERT"] |} ] [("CERT", CertRsaKey 3)] (Some 3) = true.
Proof. vm_compute. reflexivity. Qed.
(* ... and an SP that does not hold the key refuses the encrypted response *)
Example ex_sp_without_key_refuses :
  ex_accept [ {| IdPModel.kd_use := "encryption"; IdPModel.kd_certs := ["CERT"] |} ] [("CERT", CertRsaKey 3)] (Some 2) = false.
Proof. vm_compute. reflexivity. Qed.
