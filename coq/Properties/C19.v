(* C19 — the bundled IdP server issues assertions only to authenticated users *)
From Saml Require Import Base IdpServer IdpServerProofs IdpServerRestartProofs.
Local Open Scope list_scope.

(* All statements are about IdpServer.step (the model of samlidp/*.go and of
   ServeSSO / ServeIDPInitiated that the correspondence check evaluates against
   the real server), for every history of operations, every fault plan (any
   placement of NotFound / I/O errors on the store calls) and every password
   hashing scheme with  verify (hash p) p' = true <-> norm p = norm p'  and
   verify empty_hash p = false. *)
Section C19.
Variable H : Type.
Variable hash : string -> H.
Variable verify : H -> string -> bool.
Variable empty_hash : H.
Variable norm : string -> string.
Hypothesis verify_hash : forall p p', verify (hash p) p' = true <-> norm p = norm p'.
Hypothesis verify_empty : forall p, verify empty_hash p = false.

(* In the history h1 ++ o :: h2 run from the empty server: if the reply to o
   carries a SAML assertion for user a_user, then o presented that user's
   stored password (password path: POST form on /sso; the IdP-initiated URL
   does not read form credentials), or the cookie of a stored session that has
   not expired (clock <= expiry) and was created by an earlier step of h1 that
   presented the then-stored password of that same user. *)
Theorem C19_assertion_only_if_authenticated : forall now h1 o h2 fp,
  let s := fst (run_hist hash verify empty_hash (init_state H now) h1 fp) in
  let fpi := snd (run_hist hash verify empty_hash (init_state H now) h1 fp) in
  forall r a, In r (snd (fst (step hash verify empty_hash s o fpi))) -> r_body r = BAssertion a ->
    In (s, o, fpi, snd (fst (step hash verify empty_hash s o fpi)))
       (trace hash verify empty_hash (init_state H now) (h1 ++ o :: h2) fp) /\
    exists parsed c, creds_of o = Some (parsed, c) /\
      ((parsed = true /\ nonempty (cr_user c) = true /\
        exists u, alookup (cr_user c) (users s) = Some u /\ verify (u_hash u) (cr_pw c) = true /\ a_user a = u_name u) \/
       (parsed && nonempty (cr_user c) = false /\
        exists id se, cr_cookie c = Some id /\ alookup id (sessions s) = Some se /\ clock s <= se_expire se /\
                      a_user a = se_user se /\
                      exists sj oj fpj rsj,
                        In (sj, oj, fpj, rsj) (trace hash verify empty_hash (init_state H now) h1 fp) /\
                        pw_auth_at H verify sj oj id (se_user se))).
Proof. exact (assertion_only_if_authenticated H hash verify empty_hash norm verify_hash verify_empty). Qed.

(* ... the target SP's entity ID is in the in-memory registry at that step, the
   ACS location is one of that metadata's, and it is the SP the request (or the
   shortcut) names *)
Theorem C19_registered_now : forall now h fp s o fpi rs r a,
  In (s, o, fpi, rs) (trace hash verify empty_hash (init_state H now) h fp) -> In r rs -> r_body r = BAssertion a ->
  registered H s o a.
Proof. exact (registered_now H hash verify empty_hash norm verify_hash verify_empty). Qed.

(* the identity fields of the assertion are the user's record at this very
   login (password path) or the snapshot stored in the session (cookie path) ... *)
Theorem C19_user_as_at_login : forall s o fp s' rs fp' r a,
  Inv H s -> step hash verify empty_hash s o fp = (s', rs, fp') -> In r rs -> r_body r = BAssertion a ->
  exists parsed c, creds_of o = Some (parsed, c) /\
    ((parsed && nonempty (cr_user c) = true /\ exists u, alookup (cr_user c) (users s) = Some u /\
        a_user a = u_name u /\ a_nameid a = p_email (u_prof u) /\ a_prof a = u_prof u) \/
     (parsed && nonempty (cr_user c) = false /\ exists id se, cr_cookie c = Some id /\ alookup id (sessions s) = Some se /\
        a_user a = se_user se /\ a_nameid a = se_nameid se /\ a_prof a = se_prof se)).
Proof. exact (user_as_at_login H hash verify empty_hash norm verify_hash verify_empty). Qed.

(* ... and no operation (PutUser and DelUser included) changes a stored session *)
Theorem C19_session_snapshot_stable : forall s o fp s' rs fp' id se se',
  ids_fresh H s -> rand s < 10 ^ 20 -> step hash verify empty_hash s o fp = (s', rs, fp') ->
  alookup id (sessions s) = Some se -> alookup id (sessions s') = Some se' -> se' = se.
Proof. exact (step_sessions_stable H hash verify empty_hash norm verify_hash verify_empty). Qed.

(* the invariant used above holds in every reachable state *)
Theorem C19_invariant_reachable : forall now h fp,
  Inv H (fst (run_hist hash verify empty_hash (init_state H now) h fp)).
Proof. intros. apply (run_inv H hash verify empty_hash norm verify_hash verify_empty), init_inv. Qed.

(* stored password hashes are never disclosed: the only reply that carries a
   user record (GET /users/id) carries the empty hash; no other reply body has
   a hash component at all *)
Theorem C19_hash_never_disclosed : forall s o fp r u,
  In r (snd (fst (step hash verify empty_hash s o fp))) -> r_body r = BUser u -> u_hash u = empty_hash.
Proof. exact (step_no_hash H hash verify empty_hash). Qed.

(* every request receives exactly one reply, under every fault plan *)
Theorem C19_one_reply : forall s o fp,
  List.length (snd (fst (step hash verify empty_hash s o fp))) = if is_request o then 1%nat else 0%nat.
Proof. exact (step_one_reply H hash verify empty_hash). Qed.

(* a step that issues an assertion consumed only NoFault entries of the fault
   plan: any store fault during the credential, session or shortcut lookups of a
   request means no SAMLResponse in its reply *)
Theorem C19_faults_fail_closed : forall s o fp s' rs fp' r a,
  Inv H s -> step hash verify empty_hash s o fp = (s', rs, fp') -> In r rs -> r_body r = BAssertion a ->
  exists n, fp' = skipn n fp /\ clean n fp.
Proof. intros s o fp s' rs fp' r a I E Hr Hb. now destruct (step_assertion H hash verify empty_hash norm verify_hash verify_empty _ _ _ _ _ _ _ _ I E Hr Hb) as (_ & _ & X). Qed.

(* "correct password" is exact up to bcrypt's key derivation [norm] (the password
   and a NUL byte repeated to 72 bytes: bytes beyond 72 do not count): in every
   reachable state a stored hash verifies a presented password iff it is the hash
   made from a password with the same 72 key bytes (the last PUT that carried one;
   a PUT with more than 72 bytes fails and stores nothing); the empty hash of a user stored without a
   password verifies nothing, the empty password included *)
Theorem C19_password_exact : forall now h fp n u pw,
  alookup n (users (fst (run_hist hash verify empty_hash (init_state H now) h fp))) = Some u ->
  (verify (u_hash u) pw = true <-> exists p, u_hash u = hash p /\ norm p = norm pw).
Proof. exact (password_exact H hash verify empty_hash norm verify_hash verify_empty). Qed.

(* The in-memory registry is exactly what the stored services say (entity ID e
   is registered with metadata md iff some stored service id holds md with that
   entity ID), after every history under every fault plan — provided no two
   stored service ids ever share an entity ID (hist_nodup; known finding K3
   otherwise, see C19_duplicate_entity_refuted). *)
Theorem C19_registry_consistent : forall now h fp,
  hist_nodup H hash verify empty_hash (init_state H now) h fp ->
  let s := fst (run_hist hash verify empty_hash (init_state H now) h fp) in
  forall e md, alookup e (registry s) = Some md <-> exists id, alookup id (services s) = Some md /\ md_entity md = e.
Proof.
  intros now h fp HN. apply (registry_consistent H hash verify empty_hash norm verify_hash verify_empty h _ _); [|exact HN].
  split; cbn; [constructor|]. intros e md. split; [discriminate|]. intros (id & X & _). discriminate.
Qed.

(* Hence a server re-created over the same store continues every history
   exactly as the original: inserting Restart after any prefix h1 leaves every
   later reply unchanged, for every continuation h2 and every fault plan. *)
Theorem C19_restart_refines : forall now h1 h2 fp,
  hist_nodup H hash verify empty_hash (init_state H now) h1 fp ->
  replies hash verify empty_hash (init_state H now) (h1 ++ Restart :: h2) fp =
  replies hash verify empty_hash (init_state H now) h1 fp ++
  [] :: skipn (List.length h1) (replies hash verify empty_hash (init_state H now) (h1 ++ h2) fp).
Proof. exact (restart_refines H hash verify empty_hash norm verify_hash verify_empty). Qed.

(* The converse direction, as far as it is part of the property's text (a session is
   good until it expires; the registered POST endpoint is served): a stored session
   presented by cookie at or before its expiry instant (expired means strictly
   after), to a registered SP with a selectable ACS, with no store fault, is answered
   with the assertion built from that session; an IdP-initiated launch goes to the
   first HTTP-POST endpoint of the registered metadata.  The monitor requires the
   implementation to issue the same assertion wherever the model does (issue_okb). *)
Theorem C19_valid_session_is_served : forall (s : sstate H) rq c fp id se md acs,
  nonempty (cr_user c) = false -> cr_cookie c = Some id ->
  alookup id (sessions s) = Some se -> clock s <= se_expire se -> fst (pop fp) = NoFault ->
  alookup (rq_issuer rq) (registry s) = Some md -> acs_select md rq = Some acs ->
  step hash verify empty_hash s (Sso rq c) fp =
    (s, [{| r_status := 200; r_body := BAssertion (mk_assertion se md acs); r_cookie := None |}], snd (pop fp)).
Proof. first [exact (sso_issues H hash verify empty_hash norm verify_hash verify_empty) | exact (sso_issues H hash verify empty_hash)]. Qed.

Theorem C19_launch_goes_to_first_post_endpoint : forall (s : sstate H) n c fp sp id se md acs racs,
  cr_cookie c = Some id -> alookup n (shortcuts s) = Some sp -> fst (pop fp) = NoFault ->
  alookup id (sessions s) = Some se -> clock s <= se_expire se -> fst (pop (snd (pop fp))) = NoFault ->
  alookup sp (registry s) = Some md -> md_acs md = acs :: racs ->
  step hash verify empty_hash s (Launch n c) fp =
    (s, [{| r_status := 200; r_body := BAssertion (mk_assertion se md acs); r_cookie := None |}], snd (pop (snd (pop fp)))).
Proof. first [exact (launch_issues H hash verify empty_hash norm verify_hash verify_empty) | exact (launch_issues H hash verify empty_hash)]. Qed.

End C19.

(* the boolean monitor of the correspondence check (auth_okb, registered_okb,
   one reply, no hash), evaluated on the model's own replies, is true for every
   history and every fault plan: on the implementation's replies it can be false
   only where they differ from the model's *)
Theorem C19_monitor_holds_of_model : forall now h fp,
  spec_run (init_state H0 now) h fp (map obs_of_model (replies hash0 verify0 empty0 (init_state H0 now) h fp)) = true.
Proof. intros. apply monitor_holds_of_model, init_inv. Qed.

(* non-vacuity: assertions are issued (password, cookie, shortcut) and refused
   (expired by one second, deleted session, wrong password, user without
   password, store fault) *)
Theorem C19_assertion_reachable_and_refused :
  (has_assertion (last_reply (ex_setup ++ [Sso (mkrq "https://sp1/metadata" "") (Password "alice" "pw1")]) []) = true /\
   has_assertion (last_reply (ex_setup ++ [Login (Password "alice" "pw1"); Sso (mkrq "https://sp1/metadata" "https://sp1/acs") (Cookie "S0")]) []) = true /\
   has_assertion (last_reply (ex_setup ++ [Login (Password "alice" "pw1"); Advance 3600000000000; Launch "x" (Cookie "S0")]) []) = true) /\
  (has_assertion (last_reply (ex_setup ++ [Login (Password "alice" "pw1"); Advance 3600000000001; Launch "x" (Cookie "S0")]) []) = false /\
   has_assertion (last_reply (ex_setup ++ [Login (Password "alice" "pw1"); DelSession "S0"; Launch "x" (Cookie "S0")]) []) = false /\
   has_assertion (last_reply (ex_setup ++ [Sso (mkrq "https://sp1/metadata" "") (Password "alice" "pw2")]) []) = false /\
   has_assertion (last_reply (PutUser "bob" None ex_prof :: ex_setup ++ [Sso (mkrq "https://sp1/metadata" "") (Password "bob" "")]) []) = false /\
   has_assertion (last_reply (ex_setup ++ [Sso (mkrq "https://sp1/metadata" "") (Password "alice" "pw1")]) [NoFault; NoFault; NoFault; NoFault; IOErr]) = false).
Proof. split; [exact assertion_reachable|exact assertion_refused]. Qed.

(* the hypothesis of the two restart theorems is satisfiable *)
Theorem C19_restart_hypothesis_satisfiable :
  hist_nodup H0 hash0 verify0 empty0 (init_state H0 0) [PutService "a" (MdSingle ex_md1); Restart] [].
Proof. exact restart_hypothesis_satisfiable. Qed.

(* PUT /services/{id} with an EntitiesDescriptor aggregate registers its first
   entity that has an SPSSODescriptor and no other; passwords of more than 72
   bytes are refused and change nothing *)
Theorem C19_aggregate_and_password_boundary :
  (has_assertion (last_reply (agg_history "https://sp1/metadata") []) = true /\
   has_assertion (last_reply (agg_history "https://sp2/metadata") []) = false /\
   has_assertion (last_reply (agg_history "https://idp-only/metadata") []) = false) /\
  (let h1 := [PutUser "alice" (Some "pw1") ex_prof; PutService "a" (MdSingle ex_md1); PutUser "alice" (Some (p72 +++ "x")) ex_prof] in
   let h2 := [PutUser "alice" (Some p72) ex_prof; PutService "a" (MdSingle ex_md1)] in
   has_assertion (last_reply (h1 ++ [Sso (mkrq "https://sp1/metadata" "") (Password "alice" "pw1")]) []) = true /\
   has_assertion (last_reply (h1 ++ [Sso (mkrq "https://sp1/metadata" "") (Password "alice" (p72 +++ "x"))]) []) = false /\
   has_assertion (last_reply (h1 ++ [Sso (mkrq "https://sp1/metadata" "") (Password "alice" p72)]) []) = false /\
   has_assertion (last_reply (h2 ++ [Sso (mkrq "https://sp1/metadata" "") (Password "alice" p72)]) []) = true /\
   has_assertion (last_reply (h2 ++ [Sso (mkrq "https://sp1/metadata" "") (Password "alice" (p72 +++ "tail"))]) []) = true /\
   has_assertion (last_reply (h2 ++ [Sso (mkrq "https://sp1/metadata" "") (Password "alice" (take 71 p72))]) []) = false).
Proof. split; [exact aggregate_registers_first_sp|exact password_length_boundary]. Qed.

(* Known finding K3 (two service ids with one entity ID): the hypothesis
   nodup_entity of the restart theorems cannot be dropped *)
Theorem C19_duplicate_entity_refuted :
  has_assertion (last_reply (k3_history false) []) = false /\ has_assertion (last_reply (k3_history true) []) = true.
Proof. exact duplicate_entity_refuted. Qed.

Print Assumptions C19_assertion_only_if_authenticated.
Print Assumptions C19_registered_now.
Print Assumptions C19_user_as_at_login.
Print Assumptions C19_session_snapshot_stable.
Print Assumptions C19_invariant_reachable.
Print Assumptions C19_hash_never_disclosed.
Print Assumptions C19_one_reply.
Print Assumptions C19_faults_fail_closed.
Print Assumptions C19_password_exact.
Print Assumptions C19_valid_session_is_served.
Print Assumptions C19_launch_goes_to_first_post_endpoint.
Print Assumptions C19_registry_consistent.
Print Assumptions C19_restart_refines.
Print Assumptions C19_monitor_holds_of_model.
Print Assumptions C19_assertion_reachable_and_refused.
Print Assumptions C19_restart_hypothesis_satisfiable.
Print Assumptions C19_aggregate_and_password_boundary.
Print Assumptions C19_duplicate_entity_refuted.
