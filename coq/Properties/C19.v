(* C19 — the bundled IdP server issues assertions only to authenticated users *)
From Saml Require Import Base IdpServer IdpServerProofs.
