(* C02 — the SP enforces assertion and response validity windows at the documented tolerances *)
From Saml Require Import Base TimeModel SPModel SPModelProofs.

(* Whenever ParseXMLResponse (and ParseResponse with the POST form, which decodes and calls it)
   returns an assertion, the clock reading is no later than the Response's and the Assertion's
   IssueInstant plus MaxIssueDelay, no earlier than NotBefore minus MaxClockSkew, no later than
   NotOnOrAfter plus MaxClockSkew, and no later than NotOnOrAfter plus MaxClockSkew of EVERY
   subject confirmation of the assertion actually returned - for every document, configuration
   (so for every value of the two tolerances) and list of candidate assertions.  Subject and
   Conditions are present, so none of these is vacuous. *)
Theorem C02_accept_implies_windows :
  forall cfg ids now cur d a,
    parse_xml_response cfg ids now cur d = Ok a ->
    exists r resp nid confs nb noa auds,
      d = DRoot r /\ un_response r = Ok resp /\
      a_subject a = Some (nid, confs) /\ a_conditions a = Some (nb, noa, auds) /\
      now <= r_issue resp + max_issue_delay cfg /\
      now <= a_issue a + max_issue_delay cfg /\
      nb - max_clock_skew cfg <= now /\
      now <= noa + max_clock_skew cfg /\
      forall sc, In sc confs -> now <= sc_noa sc + max_clock_skew cfg.
Proof.
  intros cfg ids now cur d a H. apply parse_xml_response_sound in H.
  destruct H as [r [resp [e [Hd [Hu [_ [_ [S [T1 [T2 _]]]]]]]]]].
  unfold structure_ok in S. unfold time_ok_a in T2. unfold time_ok_r in T1.
  destruct (a_subject a) as [[nid confs]|]; [|discriminate].
  destruct (a_conditions a) as [[[nb noa] auds]|]; [|discriminate].
  exists r, resp, nid, confs, nb, noa, auds.
  apply andb_prop in T2. destruct T2 as [T2 T5]. apply andb_prop in T2. destruct T2 as [T2 T3].
  apply andb_prop in T5. destruct T5 as [T5 T6].
  repeat split; auto; try (apply Z.leb_le; assumption).
  intros sc Hin. apply Z.leb_le. exact (forallb_In _ _ T3 sc Hin).
Qed.
Print Assumptions C02_accept_implies_windows.

(* The same through the artifact entry point, where the ArtifactResponse's own IssueInstant is
   checked as well. *)
Theorem C02_artifact_accept_implies_windows :
  forall cfg ids rid now cur d a,
    parse_xml_artifact_response cfg ids rid now cur d = Ok a ->
    exists ar r aresp resp,
      un_response_named "ArtifactResponse" ar = Ok aresp /\ un_response r = Ok resp /\
      now <= r_issue aresp + max_issue_delay cfg /\ now <= r_issue resp + max_issue_delay cfg /\
      time_ok_a cfg now a = true /\ structure_ok a = true.
Proof.
  intros cfg ids rid now cur d a H. apply parse_xml_artifact_response_sound in H.
  destruct H as [env [body [ar [r [aresp [resp [e H]]]]]]].
  destruct H as [_ [_ [_ [_ [Hua [Hu [_ [_ [_ [T0 [_ [_ [S [T1 [T2 _]]]]]]]]]]]]]]].
  exists ar, r, aresp, resp. unfold time_ok_r in *. repeat split; auto; apply Z.leb_le; assumption.
Qed.
Print Assumptions C02_artifact_accept_implies_windows.

(* Conversely: a response that is acceptable when the time checks are left out (every other
   condition - signature, addressing, request ids - holds for the assertion it returns) and
   whose instants lie inside the windows is accepted, with that same assertion. *)
Theorem C02_inside_windows_accepts :
  forall cfg ids now cur r resp a,
    parse_xml_response_ck no_time cfg ids now cur (DRoot r) = Ok a ->
    un_response r = Ok resp ->
    time_ok_r cfg now resp = true -> time_ok_a cfg now a = true ->
    parse_xml_response cfg ids now cur (DRoot r) = Ok a.
Proof. exact time_family_complete. Qed.
Print Assumptions C02_inside_windows_accepts.

(* the exact decision of validateAssertion, whichever families are switched on *)
Theorem C02_validate_assertion_exact :
  forall ck cfg ids now a,
    is_ok (validate_assertion ck cfg ids now a) =
    structure_ok a && (negb (ck_time ck) || time_ok_a cfg now a) &&
    (negb (ck_addr ck) || addr_ok_a cfg a) && (negb (ck_reqid ck) || reqid_ok_a cfg ids a).
Proof. exact validate_assertion_char. Qed.
Print Assumptions C02_validate_assertion_exact.

(* The monitor the correspondence check evaluates on the implementation's answers is the
   boolean form of the statements above: it is true of the model itself, for both entry points,
   so it can only fire on a case where the implementation departs from the model. *)
Theorem C02_monitor_holds_of_model :
  forall c, spcase_agree c = true -> c02_spec c = true.
Proof. intros c H. destruct (monitors_hold_of_model c H) as [_ [M _]]; exact M. Qed.
Print Assumptions C02_monitor_holds_of_model.

(* non-vacuity: the hypotheses of the theorems above are met by a concrete signed response with
   two subject confirmations (one in a zoned lexical form) that the model accepts, and the
   rejecting direction by the same response one minute later / for another outstanding id *)
Example C02_nonvacuous :
  (exists a, parse_xml_response ex_cfg ["id-0"; "id-1"] ex_now "https://sp/acs" (DRoot (ex_signed 0 (KICert 0))) = Ok a) /\
  (exists code, parse_xml_response ex_cfg ["id-1"] (ex_now + 60000000000) "https://sp/acs" (DRoot (ex_signed 0 (KICert 0))) = Err code) /\
  (exists code, parse_xml_response ex_cfg ["id-2"] ex_now "https://sp/acs" (DRoot (ex_signed 0 (KICert 0))) = Err code).
Proof. repeat split; eexists; vm_compute; reflexivity. Qed.
