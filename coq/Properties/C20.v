(* C20 — the bundled IdP server and its store are safe under concurrent requests *)
From Saml Require Import Base Concurrency ConcurrencyProofs ConcurrencyStore ConcurrencyStoreProofs.

(* If the program regenerated from samlidp/*.go and identity_provider.go passes
   the discipline check (the obligation samlidp_discipline_ok in
   gen/SamlidpLocks.v, re-proved by vm_compute on every run), then for every
   number of threads, every sequence of entry-point invocations (handlers,
   store methods) assigned to each thread and every schedule, under
   sync.RWMutex semantics with writer preference: no reachable state has two
   threads at conflicting accesses to MemoryStore.data or
   Server.serviceProviders (no data race), and in every reachable state with an
   unfinished request some thread can take a step (no deadlock: under a fair
   scheduler every request completes). *)
Theorem discipline_sound :
  forall p eps, discipline_ok p eps = true ->
  forall (threads : list (list fname)) codes,
    (forall invs f, In invs threads -> In f invs -> In f eps) ->
    expand_threads p threads = Some codes ->
    forall schedule, race_free (run (init codes) schedule) /\ deadlock_free (run (init codes) schedule).
Proof. exact discipline_sound_l. Qed.
Print Assumptions discipline_sound.

(* Start-up (samlidp.New -> initializeServices, InitializeHTTP) is checked on the
   program with the accesses removed (obligation samlidp_startup_ok, re-proved on
   every run): accepted start-up code never blocks on itself, for every schedule —
   in particular a lock taken in the start-up loop is released in the same
   iteration, so New returns over a store holding any number of services. *)
Theorem startup_sound :
  forall p starts, startup_ok p starts = true ->
  forall (threads : list (list fname)) codes,
    (forall invs f, In invs threads -> In f invs -> In f starts) ->
    expand_threads (strip_program p) threads = Some codes ->
    forall schedule, deadlock_free (run (init codes) schedule).
Proof. exact startup_sound_l. Qed.
Print Assumptions startup_sound.

Theorem loop_lock_rejected_and_selfdeadlocks :
  startup_ok [("init", [Acq IdpConfigMu true; Wr ServiceProviders; Acq IdpConfigMu true; Wr ServiceProviders;
                        Rel IdpConfigMu true; Rel IdpConfigMu true])] ["init"] = false /\
  exists codes, expand_threads [("init", [Acq IdpConfigMu true; Acq IdpConfigMu true; Rel IdpConfigMu true; Rel IdpConfigMu true])]
                               [["init"]] = Some codes /\
                stuckb (run (init codes) [0%nat; 0%nat; 0%nat]) = true.
Proof. exact loop_lock_selfdeadlock. Qed.
Print Assumptions loop_lock_rejected_and_selfdeadlocks.

(* In every reachable state a thread standing at a read of a guarded location
   holds its mutex, at a write holds it exclusively, and an exclusive holder is
   the only holder: conflicting critical sections of the store never overlap,
   so each Get/Put/Delete/List takes effect atomically inside its critical
   section (List sees one snapshot because no writer can step while a reader
   holds the mutex).  This is the statement inside the general lock/access
   semantics; full linearizability against the map specification is
   store_linearizable below. *)
Theorem store_linearizable_partial :
  forall p eps, discipline_ok p eps = true ->
  forall threads codes,
    (forall invs f, In invs threads -> In f invs -> In f eps) ->
    expand_threads p threads = Some codes ->
    forall schedule, let st := run (init codes) schedule in
      (forall t l, next_act st t = Some (Rd l) -> hget (held_of st t) (guard l) <> None) /\
      (forall t l, next_act st t = Some (Wr l) -> hget (held_of st t) (guard l) = Some true) /\
      (forall m t1 t2, hget (held_of st t1) m = Some true -> t1 <> t2 -> hget (held_of st t2) m = None).
Proof. exact critical_sections_exclusive_l. Qed.
Print Assumptions store_linearizable_partial.

(* Linearizability of the store, in a dedicated semantics (ConcurrencyStore.v)
   of n threads running Get / Put / Delete / List under the store's RWMutex with
   the concrete map, a ghost abstract map and a ghost event trace.  For every
   number of threads, every assignment of operations to them, every number of
   reads the range loop of List makes and every schedule, from the zero-value
   store: the operations in the order of their linearization points (the
   map write of Put/Delete, the first map read of Get/List), with the results
   recorded there, are a legal sequential history of the map specification
   sm_apply; per thread the events are Inv o, Lin o r, Ret o (Some r) repeated,
   i.e. each linearization point lies between invocation and return (real-time
   order is respected) and the code returns the sequential result (a List that
   keeps reading sees the snapshot of its first read, because no writer can
   step while a reader holds the mutex); the concrete map is the abstract one. *)
Theorem store_linearizable : forall extra ops sched,
  let st := srun extra (sinit ops) sched in
  let h := rev (lins (s_trace st)) in
  sm_run (map fst h) [] = map snd h /\
  (forall t, exists ph, tst (tevs t (s_trace st)) ph) /\
  s_mem st = sm_final (map fst h) [].
Proof. exact store_linearizable_l. Qed.
Print Assumptions store_linearizable.

(* The tie to the code: if the program regenerated from the Go source passes
   store_projection_ok (obligation samlidp_store_projection_ok in
   gen/SamlidpLocks.v, re-proved on every run), each MemoryStore method is,
   action for action, the lock/access projection of the corresponding operation
   of that semantics; the instruction path is the one the step function follows. *)
Theorem store_projection_sound : forall p, store_projection_ok p = true ->
  forall extra k v pre,
    lookup_fn "MemoryStore.Get" p = Some (op_acts extra (SGet k)) /\
    lookup_fn "MemoryStore.Put" p = Some (op_acts extra (SPut k v)) /\
    lookup_fn "MemoryStore.Delete" p = Some (op_acts extra (SDel k)) /\
    lookup_fn "MemoryStore.List" p = Some (op_acts extra (SList pre)).
Proof. exact store_projection_sound_l. Qed.
Print Assumptions store_projection_sound.

Theorem store_path_follows_next : forall extra o,
  exists rest, path extra o = PcAcq :: rest /\ chain extra o PcAcq rest.
Proof. exact path_follows_next. Qed.
Print Assumptions store_path_follows_next.

(* non-vacuity: a concrete two-thread run *)
Theorem store_run_example_ok :
  let st := srun 2 (sinit [[SPut "k" "v"; SGet "k"]; [SList ""; SDel "k"]])
                 [0; 1; 0; 1; 0; 0; 0; 0; 1; 1; 1; 1; 1; 0; 0; 0; 0; 1; 1; 1; 1; 1]%nat in
  rev (lins (s_trace st)) = [(SPut "k" "v", RUnit); (SList "", RKeys ["k"]); (SGet "k", RVal (Some "v")); (SDel "k", RUnit)] /\
  s_mem st = [].
Proof. exact store_run_example. Qed.
Print Assumptions store_run_example_ok.

(* The pinned tree's defect (re-introduced by seeded/revert-F12), exhibited in
   the semantics: HandleIDPInitiated holds idpConfigMu shared and its callee
   GetServiceProvider takes it shared again; with HandlePutService waiting for
   the write lock in between, no thread can step.  The checker rejects that
   program and accepts the repaired one (non-vacuity of discipline_sound). *)
Theorem reentrant_rlock_deadlocks :
  exists codes schedule, expand_threads reentrant_program reentrant_threads = Some codes /\
                         ~ deadlock_free (run (init codes) schedule).
Proof. exact reentrant_not_deadlock_free. Qed.
Print Assumptions reentrant_rlock_deadlocks.

Theorem reentrant_rejected_fixed_accepted :
  discipline_ok reentrant_program ["Server.HandleIDPInitiated"; "Server.HandlePutService"] = false /\
  discipline_ok fixed_program ["Server.HandleIDPInitiated"; "Server.HandlePutService"; "Server.GetServiceProvider"] = true.
Proof. split; [exact reentrant_program_rejected|exact fixed_program_accepted]. Qed.
Print Assumptions reentrant_rejected_fixed_accepted.

(* the other two shapes the checker exists for: a read outside the lock races,
   and a lock-order inversion deadlocks, in the semantics; both are rejected *)
Theorem unlocked_read_rejected_and_races :
  discipline_ok [("MemoryStore.List", [Rd Data]); ("MemoryStore.Put", [Acq Mu true; Rd Data; Wr Data; Rel Mu true])]
                ["MemoryStore.List"; "MemoryStore.Put"] = false /\
  exists codes sched t1 t2 l,
    expand_threads [("MemoryStore.List", [Rd Data]); ("MemoryStore.Put", [Acq Mu true; Rd Data; Wr Data; Rel Mu true])]
                   [["MemoryStore.Put"]; ["MemoryStore.List"]] = Some codes /\
    race_at (run (init codes) sched) t1 t2 l.
Proof. split; [exact unlocked_read_rejected|exact unlocked_read_races]. Qed.
Print Assumptions unlocked_read_rejected_and_races.

Theorem lock_order_inversion_rejected_and_deadlocks :
  discipline_ok inversion_program ["A"; "B"] = false /\
  exists codes, expand_threads inversion_program [["A"]; ["B"]] = Some codes /\
                stuckb (run (init codes) [0%nat; 1%nat; 0%nat; 1%nat]) = true.
Proof. split; [exact inversion_rejected|exact inversion_deadlocks]. Qed.
Print Assumptions lock_order_inversion_rejected_and_deadlocks.
