(* C20 — the bundled IdP server and its store are safe under concurrent requests *)
From Saml Require Import Base Concurrency ConcurrencyProofs.

(* If the program regenerated from samlidp/*.go and identity_provider.go passes
   the discipline check (the obligation samlidp_discipline_ok in
   gen/SamlidpLocks.v, re-proved by vm_compute on every run), then for every
   number of threads, every sequence of entry-point invocations (handlers,
   store methods) assigned to each thread and every schedule, under
   sync.RWMutex semantics with writer preference: no reachable state has two
   threads at conflicting accesses to MemoryStore.data or
   Server.serviceProviders (no data race), and in every reachable state with an
   unfinished request some thread can take a step (no deadlock: under a fair
   scheduler every request completes). *)
Theorem discipline_sound :
  forall p eps, discipline_ok p eps = true ->
  forall (threads : list (list fname)) codes,
    (forall invs f, In invs threads -> In f invs -> In f eps) ->
    expand_threads p threads = Some codes ->
    forall schedule, race_free (run (init codes) schedule) /\ deadlock_free (run (init codes) schedule).
Proof. exact discipline_sound_l. Qed.
Print Assumptions discipline_sound.

(* In every reachable state a thread standing at a read of a guarded location
   holds its mutex, at a write holds it exclusively, and an exclusive holder is
   the only holder: conflicting critical sections of the store never overlap,
   so each Get/Put/Delete/List takes effect atomically inside its critical
   section (List sees one snapshot because no writer can step while a reader
   holds the mutex).  Full linearizability against the map specification
   [sm_apply] (forward simulation with a ghost map) is NOT proved here; it is
   checked on recorded concurrent histories by the harness (Wing-Gong search). *)
Theorem store_linearizable_partial :
  forall p eps, discipline_ok p eps = true ->
  forall threads codes,
    (forall invs f, In invs threads -> In f invs -> In f eps) ->
    expand_threads p threads = Some codes ->
    forall schedule, let st := run (init codes) schedule in
      (forall t l, next_act st t = Some (Rd l) -> hget (held_of st t) (guard l) <> None) /\
      (forall t l, next_act st t = Some (Wr l) -> hget (held_of st t) (guard l) = Some true) /\
      (forall m t1 t2, hget (held_of st t1) m = Some true -> t1 <> t2 -> hget (held_of st t2) m = None).
Proof. exact critical_sections_exclusive_l. Qed.
Print Assumptions store_linearizable_partial.

(* The pinned tree's defect (re-introduced by seeded/revert-F12), exhibited in
   the semantics: HandleIDPInitiated holds idpConfigMu shared and its callee
   GetServiceProvider takes it shared again; with HandlePutService waiting for
   the write lock in between, no thread can step.  The checker rejects that
   program and accepts the repaired one (non-vacuity of discipline_sound). *)
Theorem reentrant_rlock_deadlocks :
  exists codes schedule, expand_threads reentrant_program reentrant_threads = Some codes /\
                         ~ deadlock_free (run (init codes) schedule).
Proof. exact reentrant_not_deadlock_free. Qed.
Print Assumptions reentrant_rlock_deadlocks.

Theorem reentrant_rejected_fixed_accepted :
  discipline_ok reentrant_program ["Server.HandleIDPInitiated"; "Server.HandlePutService"] = false /\
  discipline_ok fixed_program ["Server.HandleIDPInitiated"; "Server.HandlePutService"; "Server.GetServiceProvider"] = true.
Proof. split; [exact reentrant_program_rejected|exact fixed_program_accepted]. Qed.
Print Assumptions reentrant_rejected_fixed_accepted.

(* the other two shapes the checker exists for: a read outside the lock races,
   and a lock-order inversion deadlocks, in the semantics; both are rejected *)
Theorem unlocked_read_rejected_and_races :
  discipline_ok [("MemoryStore.List", [Rd Data]); ("MemoryStore.Put", [Acq Mu true; Rd Data; Wr Data; Rel Mu true])]
                ["MemoryStore.List"; "MemoryStore.Put"] = false /\
  exists codes sched t1 t2 l,
    expand_threads [("MemoryStore.List", [Rd Data]); ("MemoryStore.Put", [Acq Mu true; Rd Data; Wr Data; Rel Mu true])]
                   [["MemoryStore.Put"]; ["MemoryStore.List"]] = Some codes /\
    race_at (run (init codes) sched) t1 t2 l.
Proof. split; [exact unlocked_read_rejected|exact unlocked_read_races]. Qed.
Print Assumptions unlocked_read_rejected_and_races.

Theorem lock_order_inversion_rejected_and_deadlocks :
  discipline_ok inversion_program ["A"; "B"] = false /\
  exists codes, expand_threads inversion_program [["A"]; ["B"]] = Some codes /\
                stuckb (run (init codes) [0%nat; 1%nat; 0%nat; 1%nat]) = true.
Proof. split; [exact inversion_rejected|exact inversion_deadlocks]. Qed.
Print Assumptions lock_order_inversion_rejected_and_deadlocks.
