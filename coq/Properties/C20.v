(* C20 — the bundled IdP server and its store are safe under concurrent requests *)
From Saml Require Import Base Concurrency ConcurrencyProofs.

(* The pinned tree's defect (re-introduced by seeded/revert-F12), exhibited in
   the semantics: HandleIDPInitiated holds idpConfigMu shared and its callee
   GetServiceProvider takes it shared again; with HandlePutService waiting for
   the write lock in between, no thread can step. *)
Theorem reentrant_rlock_deadlocks :
  exists codes, expand_threads reentrant_program reentrant_threads = Some codes /\
                stuckb (run (init codes) reentrant_witness) = true.
Proof. exact reentrant_rlock_deadlocks_l. Qed.
Print Assumptions reentrant_rlock_deadlocks.
