(* C15 (metadata clause) — any EntityDescriptor value reaches a fixed point after
   one marshal/unmarshal generation that preserves its entity ID, http(s)
   endpoints, key descriptors, validity instant (to the millisecond) and cache
   duration.  Metadata.norm is one generation on the abstract descriptor:
   RelaxedTime text codec (TimeModel) on validUntil, Duration text codec
   (DurationModel) on cacheDuration, Endpoint/IndexedEndpoint.UnmarshalXML's
   location check on every endpoint; it is compared on every run with
   xml.Marshal followed by xml.Unmarshal of generated EntityDescriptor values.
   (To be merged into Properties/C15.v by the coordinator.) *)
From Saml Require Import Base TimeModel TimeProofs DurationModel DurationProofs Metadata MetadataProofs.

Theorem metadata_norm_idempotent :
  forall m m',
  zero_time <= round_ms (ed_valid_until m) < year10000 -> in_int64 (ed_cache_duration m) ->
  norm m = Ok m' -> norm m' = Ok m'.
Proof. exact norm_idempotent. Qed.
Print Assumptions metadata_norm_idempotent.

Theorem norm_preserves :
  forall m m',
  zero_time <= round_ms (ed_valid_until m) < year10000 -> in_int64 (ed_cache_duration m) ->
  norm m = Ok m' ->
  ed_entity_id m' = ed_entity_id m /\
  ed_valid_until m' = round_ms (ed_valid_until m) /\
  ed_cache_duration m' = ed_cache_duration m /\
  ed_keys m' = ed_keys m /\
  ed_role_valid_until m' = ed_role_valid_until m /\ ed_role_cache m' = ed_role_cache m /\
  Forall2 ep_related (ed_endpoints m) (ed_endpoints m') /\
  Forall2 (fun a b => standard (binding_of_any (snd a)) = true -> b = a) (ed_endpoints m) (ed_endpoints m').
Proof. exact MetadataProofs.norm_preserves. Qed.
Print Assumptions norm_preserves.

Theorem metadata_norm_defined_iff :
  forall m,
  zero_time <= round_ms (ed_valid_until m) < year10000 -> in_int64 (ed_cache_duration m) ->
  (exists m', norm m = Ok m') <-> (exists eps, norm_endpoints (ed_endpoints m) = Ok eps).
Proof. exact norm_fails_iff. Qed.
Print Assumptions metadata_norm_defined_iff.

(* the monitor evaluated on the implementation's generations (fixed point after
   one generation; entity ID, rounded validity instant, cache duration, key
   descriptors and standard-binding endpoints preserved, others blanked) is
   always satisfied by the model *)
Theorem metadata_norm_meets_monitor :
  forall m,
  zero_time <= round_ms (ed_valid_until m) < year10000 -> in_int64 (ed_cache_duration m) ->
  mgcase_spec {| mg_in := m; mg_gen1 := ed_obs (norm m);
                 mg_gen2 := match norm m with Ok m1 => ed_obs (norm m1) | _ => None end |} = true.
Proof. exact norm_meets_spec. Qed.
Print Assumptions metadata_norm_meets_monitor.
