(* C16 — only session tokens minted by this SP, unexpired, authenticate a request.

   What the theorems mean for the Go code (samlsp): [decode_session] follows
   JWTSessionCodec.Decode / golang-jwt's ParseWithClaims check by check,
   [require_account] is Middleware.RequireAccount over the request's Cookie
   header, [mint_session] is JWTSessionCodec.New+Encode.  The correspondence
   check evaluates these very functions on the tokens the real codecs minted
   and on their mutations. *)
From Saml Require Import Base Tokens TokensProofs.

(* For EVERY wire the attacker can produce without the SP's private key
   (garbage; any token signed with another key — another RSA/EC key, an HMAC
   secret such as the PEM of the public key, alg none — under any header alg;
   any token whose header/claims/signature were altered; replay of any honest
   session or request-tracking token of this or of another deployment, the
   same key under another alg/audience/issuer included): if the session codec
   yields a session, the wire is a token this very codec minted from some
   assertion a at some instant t0, the clock is inside [t0, t0+MaxAge) at
   second granularity, and the subject and attributes are those of a. *)
Theorem C16_session_only_if_minted :
  forall c now w cl,
    dy_session c w -> decode_session c now w = Some cl ->
    exists a t0, w = WToken (mint_session c t0 a)
                 /\ sec t0 <= sec now < sec (t0 + c_max_age c)
                 /\ cl_sub cl = subject_of a
                 /\ forall k, amap_lookup k (cl_attrs cl) = attr_values_spec k a.
Proof. exact session_only_if_minted. Qed.
Print Assumptions C16_session_only_if_minted.

(* A token minted at t0 authenticates exactly while
   Unix(t0) <= Unix(now) < Unix(t0+MaxAge): exp is exclusive, iat/nbf inclusive. *)
Theorem C16_lifetime :
  forall c t0 a now, codec_wf c -> mint_time_ok c t0 ->
    ((exists cl, decode_session c now (WToken (mint_session c t0 a)) = Some cl)
     <-> sec t0 <= sec now < sec (t0 + c_max_age c)).
Proof. exact session_lifetime. Qed.
Print Assumptions C16_lifetime.

(* The application sees the NameID value as subject and, under every name k,
   exactly the values of the Attribute elements whose FriendlyName (else Name)
   is k, in document order over all statements, then the SessionIndex of each
   AuthnStatement under "SessionIndex". *)
Theorem C16_claims_exact :
  forall c now t0 a cl,
    decode_session c now (WToken (mint_session c t0 a)) = Some cl ->
    cl_sub cl = subject_of a
    /\ cl_attrs cl = amap_sort (attrs_of_assertion a)
    /\ forall k, amap_lookup k (cl_attrs cl) = attr_values_spec k a.
Proof. exact session_claims_exact. Qed.
Print Assumptions C16_claims_exact.

(* RequireAccount runs the wrapped handler iff the first cookie with the
   session cookie's name decodes; RequireAttribute admits iff the value is
   among the values under that name. *)
Theorem C16_gate :
  forall name c now j cl,
    require_account name c now j = Ran cl <->
    exists w, jar_get name j = Some w /\ decode_session c now w = Some cl.
Proof. exact gate_runs_iff. Qed.
Print Assumptions C16_gate.

Theorem C16_gate_attribute :
  forall n v s,
    require_attribute n v s = true <-> exists cl, s = Some cl /\ In v (amap_lookup n (cl_attrs cl)).
Proof. exact attribute_gate_iff. Qed.
Print Assumptions C16_gate_attribute.

(* A request-tracking token never decodes as a session and a session token
   never decodes as a tracked request — whatever the codecs' configuration,
   shared key, issuer and audience included. *)
Theorem C16_cross_codec :
  (forall arr c c' now t0 tr, decode_session c now (WToken (mint_tracking arr c' t0 tr)) = None)
  /\ (forall c c' now t0 a, decode_tracking c now (WToken (mint_session c' t0 a)) = None).
Proof. split; [exact cross_codec_tracking_as_session | exact cross_codec_session_as_tracking]. Qed.
Print Assumptions C16_cross_codec.

(* Deployments built by samlsp.New whose URL or key differ do not accept each
   other's session tokens. *)
Theorem C16_other_deployment :
  forall o1 o2 m1 m2 now t0 a,
    o_url o1 <> o_url o2 \/ o_key o1 <> o_key o2 ->
    decode_session (with_max_age (session_codec_of o2) m2) now
                   (WToken (mint_session (with_max_age (session_codec_of o1) m1) t0 a)) = None.
Proof. exact other_deployment_rejected. Qed.
Print Assumptions C16_other_deployment.

(* The boolean property evaluated on every generated case is implied by
   agreement with the model: an implementation that behaves as the model on a
   case satisfies the property on that case. *)
Theorem C16_check_sound : forall d, deccase_agree d = true -> deccase_spec d = true.
Proof. exact deccase_model_satisfies_spec. Qed.
Print Assumptions C16_check_sound.
