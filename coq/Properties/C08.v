(* C08 — assertions for SPs that publish an encryption key never leave the IdP in clear *)
From Saml Require Import Base TimeModel IdPModel IdPModelProofs.

(* getSPEncryptionCert followed by Encrypt decides exactly as the declarative
   reading of the key descriptors says: the first use="encryption" descriptor
   decides (no certificate element or an empty one: error — fixes F6, F17;
   otherwise encrypt to it, or error when it does not decode / parse / carry an
   RSA key); when there is no such descriptor, the first use-less descriptor
   with a non-empty first certificate; otherwise plaintext.  For every
   certificate parser and every list of descriptors. *)
Theorem enc_decision_spec :
  forall cp l, enc_decision cp l = enc_decision_decl cp l.
Proof. exact IdPModelProofs.enc_decision_spec. Qed.
Print Assumptions enc_decision_spec.

(* plaintext exactly when no key is advertised: no certificate error, of any
   kind, downgrades to plaintext; and the decision never panics (fix F6) *)
Theorem C08_plain_iff_not_advertised :
  forall cp l, enc_decision cp l = Plain <-> advertises_key_b l = false.
Proof. exact enc_decision_plain_iff. Qed.
Print Assumptions C08_plain_iff_not_advertised.

Theorem C08_decision_never_panics : forall cp l, enc_decision cp l <> EncPanic.
Proof. exact enc_decision_never_panics. Qed.
Print Assumptions C08_decision_never_panics.

(* When the routed descriptor advertises a key, every emitted response carries
   the assertion only as an EncryptedAssertion record for the advertised key:
   the assertion made from the session (hence NameID, attribute values, session
   index — C06_attrs_from_session) occurs nowhere else in the response record,
   whose remaining fields (IDs, Destination, issuer, status) do not depend on
   the session. *)
Theorem C08_no_plaintext_when_key_advertised :
  forall cfg cp rt rq s now tnow addr relay rnd action resp rl,
    advertises_key_b (kds (rt_desc rt)) = true ->
    respond cfg cp rt rq s now tnow addr relay rnd = Ok (action, resp, rl) ->
    exists e id,
      rs_assertion (rs_body resp) = AEnc e /\ enc_decision cp (kds (rt_desc rt)) = EncryptTo id /\
      en_recipient e = id /\
      fst (en_plain e) = fst (make_assertion cfg rt rq s now tnow addr (rnd_saml rnd)) /\
      en_key e = slice 0 16 (rnd_enc rnd) /\ en_iv e = slice (48 + rnd_wrapn rnd) 16 (rnd_enc rnd) /\
      en_key_id e = slice 16 16 (rnd_enc rnd) /\ en_data_id e = slice (32 + rnd_wrapn rnd) 16 (rnd_enc rnd).
Proof. exact respond_no_plaintext. Qed.
Print Assumptions C08_no_plaintext_when_key_advertised.

(* errors on the way are errors: nothing is emitted *)
Theorem C08_enc_error_emits_nothing :
  forall cfg cp rt rq s now tnow addr relay rnd,
    enc_decision cp (kds (rt_desc rt)) = EncErr ->
    exists c, respond cfg cp rt rq s now tnow addr relay rnd = Err c.
Proof. exact respond_enc_error_is_error. Qed.
Print Assumptions C08_enc_error_emits_nothing.

(* content key, both Ids and IV are consecutive windows of the random stream
   handed to this call; a second response fed from the rest of the stream uses
   windows disjoint from the first (no constant, no reuse) *)
Theorem C08_fresh_key_iv :
  forall id1 id2 w1 w2 r p1 p2,
    let '(e1, r1) := encrypt_assertion id1 w1 r p1 in
    let '(e2, r2) := encrypt_assertion id2 w2 r1 p2 in
    en_key e1 = slice 0 16 r /\ en_key_id e1 = slice 16 16 r /\
    en_data_id e1 = slice (32 + w1) 16 r /\ en_iv e1 = slice (48 + w1) 16 r /\
    en_key e2 = slice (64 + w1) 16 r /\ en_iv e2 = slice (64 + w1 + (48 + w2)) 16 r /\
    r1 = drop (64 + w1) r /\ r2 = drop (64 + w1 + (64 + w2)) r /\
    (0 + 16 <= 16 /\ 16 + 16 <= 32 + w1 /\ 32 + w1 + 16 <= 48 + w1 /\ 48 + w1 + 16 <= 64 + w1
     /\ 64 + w1 + 16 <= 64 + w1 + (48 + w2))%nat.
Proof. exact encrypt_fresh_key_iv. Qed.
Print Assumptions C08_fresh_key_iv.

(* symbolic confidentiality: only the recipient's private key opens the record *)
Theorem C08_only_recipient_recovers :
  forall key e p, sym_decrypt key e = Some p -> key = en_recipient e /\ p = en_plain e.
Proof. exact sym_decrypt_only_recipient. Qed.
Print Assumptions C08_only_recipient_recovers.

Theorem C08_monitor_holds_of_model :
  forall cfg md certs rq sess now tnow addr relay rnd,
    let c0 := {| c6_cfg := cfg; c6_md := md; c6_certs := certs; c6_rq := rq; c6_sess := sess; c6_now := now;
                 c6_tnow := tnow; c6_addr := addr; c6_relay := relay; c6_rnd := rnd; c6_obs := O6Err |} in
    c08_spec {| c6_cfg := cfg; c6_md := md; c6_certs := certs; c6_rq := rq; c6_sess := sess; c6_now := now;
                c6_tnow := tnow; c6_addr := addr; c6_relay := relay; c6_rnd := rnd;
                c6_obs := formobs_of (c06_model c0) |} = true.
Proof. exact c08_spec_of_model. Qed.
Print Assumptions C08_monitor_holds_of_model.

(* SP side, in the IDP group's small acceptance model (the full statement is
   C01's, about SPModel.v): an encrypted assertion is first opened and then goes
   through exactly the function a plaintext one goes through; an assertion
   encrypted to a key the SP does not hold is an error. *)
Theorem C08_decrypted_same_path :
  forall sp delay skew now ids resp,
    sp_accept sp delay skew now ids resp =
    (do _ <- sp_envelope sp delay now ids resp;
     do a <- sp_extract sp (rs_assertion (rs_body resp));
     sp_validate_assertion sp delay skew now ids a).
Proof. exact sp_accept_same_path. Qed.
Print Assumptions C08_decrypted_same_path.

Theorem C08_undecryptable_is_error :
  forall sp e, (forall k, sp_key sp = Some k -> k <> en_recipient e) -> sp_extract sp (AEnc e) = Err 7.
Proof. exact sp_undecryptable_is_error. Qed.
Print Assumptions C08_undecryptable_is_error.

(* The request OBJECT: when the encryption decision is an error, whatever sequence
   of MakeAssertionEl / MakeResponse / PostBinding (WriteResponse) calls a caller
   makes on the request, ignoring the errors, every call is an error and
   req.AssertionEl and req.ResponseEl stay nil — no clear assertion is parked in
   the request for a later call to emit. *)
Theorem C08_error_leaves_request_object_empty :
  forall x l,
    enc_decision (sx_cp x) (kds (rt_desc (sx_rt x))) = EncErr ->
    exists os, run_steps x l st_empty = (st_empty, os) /\ Forall (fun z => z = 1) os
               /\ List.length os = List.length l.
Proof. exact steps_enc_error_leave_nothing. Qed.
Print Assumptions C08_error_leaves_request_object_empty.

Theorem C08_step_monitor_holds_of_model :
  forall base steps,
    match c06_route base with
    | None => True
    | Some r =>
        let '(st, os) := run_steps (c08s_ctx base r) (map step_of steps) st_empty in
        c08s_spec {| s8_base := base; s8_steps := steps; s8_results := os;
                     s8_ael_set := is_some (st_ael st); s8_resp_set := is_some (st_resp st) |} = true
    end.
Proof. exact c08s_spec_of_model. Qed.
Print Assumptions C08_step_monitor_holds_of_model.
