(* C11 — XML decryption is total and rejects malformed or mismatched ciphertext *)
From Saml Require Import Base Xmlenc XmlencProofs.

(* never a panic: for all primitive behaviours, all key values of every kind the
   API admits, all element trees (missing/unknown algorithms, missing cipher data,
   encrypted keys nested to any depth) *)
Theorem C11_decrypt_total :
  forall (P : prims) (el : eel) (key : keyval), decrypt P key el <> Panic.
Proof. exact decrypt_total. Qed.
Print Assumptions C11_decrypt_total.

(* the guards are exact *)
Theorem C11_cbc_guards_exact :
  forall P a kb ct p,
    cbc_decrypt_body P a kb (CVBytes ct) = Ok p <->
    block_size a <= blen ct /\ blen ct mod block_size a = 0 /\
    strip_padding (p_cbc_dec P a kb (btake (block_size a) ct) (bdrop (block_size a) ct)) = Ok p.
Proof. exact cbc_decrypt_body_spec. Qed.
Print Assumptions C11_cbc_guards_exact.

Theorem C11_padding_guards_exact :
  forall buf p, strip_padding buf = Ok p <->
    1 <= blen buf /\ 1 <= last buf 0 <= blen buf /\ p = btake (blen buf - last buf 0) buf.
Proof. exact strip_padding_spec. Qed.
Print Assumptions C11_padding_guards_exact.

Theorem C11_gcm_guards_exact :
  forall P kb ct p,
    gcm_decrypt_body P kb (CVBytes ct) = Ok p <->
    nonce_size <= blen ct /\ p_open P kb (btake nonce_size ct) (bdrop nonce_size ct) = Some p.
Proof. exact gcm_decrypt_body_spec. Qed.
Print Assumptions C11_gcm_guards_exact.

(* for an authenticated mode every modification of the cipher value is rejected *)
Theorem C11_gcm_modification_rejected :
  forall P kb ct p,
    (forall k n c q, p_open P k n c = Some q -> c = p_seal P k n q) ->
    gcm_decrypt_body P kb (CVBytes ct) = Ok p ->
    ct = (btake nonce_size ct ++ p_seal P kb (btake nonce_size ct) p)%list.
Proof. exact gcm_modification_rejected. Qed.
Print Assumptions C11_gcm_modification_rejected.

(* an RSA-wrapped key is only unwrapped with an RSA private key, and when a
   certificate is embedded only if it is an RSA certificate for that very key *)
Theorem C11_cert_mismatch_rejected :
  forall P t key dg cert cv k,
    rsa_decrypt P t key dg cert cv = Ok k ->
    exists id, key = KRsa id /\ (cert = CertAbsent \/ cert = CertRsa id).
Proof. exact rsa_cert_mismatch_rejected. Qed.
Print Assumptions C11_cert_mismatch_rejected.

Theorem C11_digest_must_be_registered :
  forall P t id cert ct u k,
    rsa_decrypt P t (KRsa id) (DgUri u) cert (CVBytes ct) = Ok k -> In u digest_uris.
Proof. exact rsa_digest_must_be_registered. Qed.
Print Assumptions C11_digest_must_be_registered.

Theorem C11_mismatch_on_path_rejected :
  forall (P : prims) (el : eel) (key : keyval),
    cert_mismatch key el = true -> is_ok (decrypt P key el) = false.
Proof. exact cert_mismatch_rejects. Qed.
Print Assumptions C11_mismatch_on_path_rejected.
