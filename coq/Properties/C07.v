(* C07 — the IdP -> SP round trip preserves the authenticated identity exactly *)
From Saml Require Import Base TimeModel XmlText XmlTextProofs IdPModel IdPModelProofs.

(* Abstract composition.  For every IdP configuration, certificate parser,
   routing decision whose endpoint is the SP's ACS URL and whose metadata is the
   SP's, request, session, clock value, random streams: if the IdP emits a
   response, the SP (trusting the IdP's signing key and entity ID, holding the
   private key the assertion was encrypted to, with the request outstanding or
   IdP-initiated responses allowed) accepts it and returns exactly the assertion
   the IdP made from the session — with or without encryption, for every
   signature method.  (C06_attrs_from_session says what that assertion holds.) *)
Theorem C07_roundtrip_abstract :
  forall cfg cp sp rt rq s now addr relay rnd ids action resp rl,
    0 <= max_issue_delay cfg -> 0 <= max_clock_skew cfg ->
    rq_issue rq - max_clock_skew cfg <= now ->
    sp_idp_key sp = signer_key cfg -> sp_idp_entity sp = idp_entity cfg ->
    ep_location (rt_ep rt) = sp_acs sp -> md_entity (rt_md rt) = sp_entity sp ->
    (sp_allow_initiated sp = true \/ In (rq_id rq) ids) ->
    (forall k, enc_decision cp (kds (rt_desc rt)) = EncryptTo k -> sp_key sp = Some k) ->
    respond cfg cp rt rq s now now addr relay rnd = Ok (action, resp, rl) ->
    sp_accept sp (max_issue_delay cfg) (max_clock_skew cfg) now ids resp
    = Ok (fst (make_assertion cfg rt rq s now now addr (rnd_saml rnd))).
Proof. exact roundtrip_abstract. Qed.
Print Assumptions C07_roundtrip_abstract.

(* The SP's own published metadata, re-parsed, is sufficient registration: the
   request the SP builds is routed to the SP's ACS URL over HTTP-POST, and the
   encryption decision finds the SP's certificate exactly when an RSA certificate
   is configured (an SP on an ECDSA key is answered unencrypted: fix F18). *)
Theorem C07_sp_metadata_registers :
  forall sp cert id issue dest cp,
    exists d e,
      get_acs_endpoint (sp_metadata sp cert) (sp_request sp id issue dest) = Some (0, 0, d, e) /\
      ep_location e = sp_acs sp /\ ep_binding e = post_binding /\
      In d (descriptors (sp_metadata sp cert)) /\
      (sp_key sp = None \/ sp_key_rsa sp = false -> enc_decision cp (kds d) = Plain) /\
      (forall k, sp_key sp = Some k -> sp_key_rsa sp = true -> cert <> "" -> cp (strip_ws cert) = CertRsaKey k ->
                 enc_decision cp (kds d) = EncryptTo k).
Proof. exact sp_metadata_registers. Qed.
Print Assumptions C07_sp_metadata_registers.

(* Byte level: every string of valid XML characters written by etree with the
   canonical settings (text: CanonicalText; attribute values: CanonicalAttrVal)
   is read back unchanged by encoding/xml — including CR, LF, TAB, markup
   characters, quotes, "]]>" in text, non-BMP characters. *)
Theorem xml_text_roundtrip :
  forall s, valid_xml_chars s = true -> xml_read_text (etree_escape EscCanonText s) = Some s.
Proof. exact xml_text_canonical_roundtrip. Qed.
Print Assumptions xml_text_roundtrip.

Theorem xml_attr_roundtrip :
  forall s, valid_xml_chars s = true -> has_cdata_end s = false ->
            xml_read_attr (etree_escape EscCanonAttr s) = Some s.
Proof. exact xml_attr_canonical_roundtrip. Qed.
Print Assumptions xml_attr_roundtrip.

(* a present limitation, kept visible: "]]>" inside an attribute value is
   written unescaped and refused by the reader *)
Theorem xml_attr_cdata_end_refuted :
  exists s, valid_xml_chars s = true /\ xml_read_attr (etree_escape EscCanonAttr s) = None.
Proof. exact XmlTextProofs.xml_attr_cdata_end_refuted. Qed.
Print Assumptions xml_attr_cdata_end_refuted.

(* default escaping (the writers before fix F14) round-trips only without CR *)
Theorem xml_text_normal_roundtrip :
  forall s, valid_xml_chars s = true -> has_cr s = false -> xml_read_text (etree_escape EscNormal s) = Some s.
Proof. exact XmlTextProofs.xml_text_normal_roundtrip. Qed.
Print Assumptions xml_text_normal_roundtrip.

Theorem xml_text_cr_refuted :
  exists s, valid_xml_chars s = true /\ xml_read_text (etree_escape EscNormal s) <> Some s.
Proof. exact XmlTextProofs.xml_text_cr_refuted. Qed.
Print Assumptions xml_text_cr_refuted.

(* Composition at the byte level: for every session whose strings are XML
   characters (attribute-position strings without "]]>"), the SP returns the
   session's NameID and exactly the attribute list the IdP builds, in order. *)
Theorem C07_roundtrip_bytes :
  forall s, session_clean s = true -> c07_expect s = Some (ss_nameid s, session_attributes empty_svc s).
Proof. exact roundtrip_bytes. Qed.
Print Assumptions C07_roundtrip_bytes.

Theorem C07_monitor_holds_of_model :
  forall s,
    session_clean s = true ->
    c07_spec {| c7_sess := s;
                c7_accepted := match c07_expect s with Some _ => true | None => false end;
                c7_nameid := match c07_expect s with Some (n, _) => n | None => "" end;
                c7_attrs := match c07_expect s with Some (_, l) => l | None => [] end |} = true.
Proof. exact c07_spec_of_model. Qed.
Print Assumptions C07_monitor_holds_of_model.

(* Why a carriage return made an unencrypted response unverifiable before F14:
   for any collision-free digest, the digest the verifier recomputes over what
   it parsed equals the digest the signer computed over the in-memory text iff
   the text survived the serialise -> parse hop. *)
Theorem digest_stable_iff :
  forall (digest : string -> string), (forall a b, digest a = digest b -> a = b) ->
  forall m s s',
    valid_xml_chars s = true -> valid_xml_chars s' = true ->
    xml_read_text (etree_escape m s) = Some s' ->
    (digest (etree_escape EscCanonText s') = digest (etree_escape EscCanonText s) <-> s' = s).
Proof. exact XmlTextProofs.digest_stable_iff. Qed.
Print Assumptions digest_stable_iff.

(* ------------------------------------------------------------------------- *)
(* The models compose.  The response record the IdP model emits, rendered as an
   XML tree by schema.go's Element() builders (IdPSP.render_response: instants
   through format_relaxed, each signature record as a ds:Signature over the
   rendered element, an encrypted assertion as an EncryptedAssertion that opens
   exactly under the recipient's key), is accepted by the REAL SP model
   SPModel.parse_xml_response — unmarshalling, goxmldsig validation of the
   Response signature against the certificate published in the IdP metadata,
   Destination / InResponseTo / issuer / status / all time windows / audience —
   configured from the IdP's metadata and the SP's own registration, and the SP
   returns the session's name identifier and exactly the attribute values the
   IdP made, in order.  For every configuration, certificate parser, routing,
   request, session, random streams, with and without encryption; instants are
   milliseconds (they pass through text), the request is not ahead of the clock
   by more than MaxClockSkew, the request is outstanding or IdP-initiated
   responses are allowed, the SP holds the key it advertised.  Both signatures
   (Response and Assertion) are shown valid for the SP. *)
From Saml Require Import SPModel IdPSP IdPSPProofs.

Theorem C07_roundtrip_sp_model :
  forall cfg cp rt rq s now addr relay rnd ids cur spkey allow action resp rl,
    0 <= IdPModel.max_issue_delay cfg -> 0 <= IdPModel.max_clock_skew cfg ->
    ms_aligned (IdPModel.max_issue_delay cfg) -> ms_aligned (IdPModel.max_clock_skew cfg) ->
    ms_aligned now -> ms_aligned (rq_issue rq) ->
    rq_issue rq - IdPModel.max_clock_skew cfg <= now ->
    zero_time <= now - IdPModel.max_clock_skew cfg -> zero_time <= rq_issue rq ->
    now + IdPModel.max_issue_delay cfg < year10000 -> rq_issue rq + IdPModel.max_issue_delay cfg < year10000 ->
    0 <= signer_key cfg ->
    (allow = true \/ In (rq_id rq) ids) ->
    (forall k, enc_decision cp (kds (rt_desc rt)) = EncryptTo k -> spkey = Some k) ->
    respond cfg cp rt rq s now now addr relay rnd = Ok (action, resp, rl) ->
    let a := fst (make_assertion cfg rt rq s now now addr (rnd_saml rnd)) in
    let spc := sp_cfg_of cfg (ep_location (rt_ep rt)) (md_entity (rt_md rt)) allow in
    parse_xml_response spc ids now cur (DRoot (render_response spkey resp)) = Ok (abs_assertion a) /\
    validate_signature spc (render_response spkey resp) = SValid /\
    validate_signature spc (let '(a0, s0) := inner_assertion resp in render_assertion a0 s0) = SValid /\
    SPModel.a_nameid (abs_assertion a) = ss_nameid s /\
    a_attrvals (abs_assertion a) = flat_map (fun x => map av_value (at_values x)) (a_attributes a) /\
    SPModel.a_id (abs_assertion a) = IdPModel.a_id a.
Proof. exact roundtrip_sp_model. Qed.
Print Assumptions C07_roundtrip_sp_model.

(* End to end through three models: the SP's published metadata registered at the
   IdP, the SP's own request validated by IdPModel.validate (C05), the response
   made for a session (C06), accepted by SPModel (C01-C04) with the session's
   NameID and attribute values. *)
Theorem C07_roundtrip_end_to_end :
  forall cfg cp reg (sp : IdPModel.spcfg) cert id dest s now addr relay rnd ids cur spkey allow rt action resp rl,
    0 <= IdPModel.max_issue_delay cfg -> 0 <= IdPModel.max_clock_skew cfg ->
    ms_aligned (IdPModel.max_issue_delay cfg) -> ms_aligned (IdPModel.max_clock_skew cfg) -> ms_aligned now ->
    zero_time <= now - IdPModel.max_clock_skew cfg -> now + IdPModel.max_issue_delay cfg < year10000 ->
    0 <= signer_key cfg ->
    (allow = true \/ In id ids) ->
    reg (IdPModel.sp_entity sp) = Found (sp_metadata sp cert) ->
    (forall k, enc_decision cp (kds (rt_desc rt)) = EncryptTo k -> spkey = Some k) ->
    validate cfg reg now (sp_request sp id now dest) = Ok rt ->
    respond cfg cp rt (sp_request sp id now dest) s now now addr relay rnd = Ok (action, resp, rl) ->
    exists a',
      parse_xml_response (sp_cfg_of cfg (sp_acs sp) (IdPModel.sp_entity sp) allow) ids now cur
                         (DRoot (render_response spkey resp)) = Ok a' /\
      SPModel.a_nameid a' = ss_nameid s /\
      a_attrvals a' = flat_map (fun x => map av_value (at_values x))
                               (session_attributes (choose_attr_service (attr_services (rt_desc rt))) s).
Proof. exact roundtrip_end_to_end. Qed.
Print Assumptions C07_roundtrip_end_to_end.
