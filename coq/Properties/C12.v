(* C12 — SP outbound messages survive their binding encodings; relay state intact.

   Meaning for the Go code: AuthnRequest.Redirect assembles the query by string
   concatenation (model: Outbound.authn_query), the logout redirects go through
   url.Values (model: Outbound.logout_query); url.QueryEscape / QueryUnescape /
   ParseQuery / Values.Encode are modelled byte for byte in UrlEnc.  The
   theorems say that, for every relay state (any byte string), every encoded
   message, every endpoint query and every signing configuration, a receiver
   that splits the emitted query with net/url's rules finds exactly one
   SAMLRequest/SAMLResponse with the message, the RelayState parameter exactly
   when the relay state is non-empty, exactly once and byte for byte, and the
   endpoint's own parameters untouched; and that message IDs are the hex of
   exactly 20 fresh bytes of the configured source, for every sequence of
   creations.  The models are compared with the real functions on every run. *)
From Saml Require Import IdPModel.
From Saml Require Import Base UrlEnc UrlEncProofs Outbound OutboundProofs OutboundIdP OutboundIdPProofs.

(* url.QueryUnescape inverts url.QueryEscape on ALL byte strings *)
Theorem C12_query_escape_roundtrip : forall s, query_unescape (query_escape s) = Some s.
Proof. exact query_unescape_escape. Qed.
Print Assumptions C12_query_escape_roundtrip.

(* AuthnRequest redirect, on the emitted URL text: one SAMLRequest = the encoded
   message; RelayState iff relay <> "", once, byte for byte; the endpoint's own
   parameters unchanged and in order (the endpoint not carrying SAML-named
   parameters itself). *)
Theorem C12_query_single_params :
  forall sign dest enc relay method kt url octets,
  authn_redirect sign dest enc relay method kt = Ok (url, octets) ->
  let rawq := snd (fst (split_url dest)) in
  has_saml_key (fst (parse_query rawq)) = false ->
  let ps := fst (parse_query (query_of url)) in
  values_of "SAMLRequest" ps = [enc] /\
  values_of "RelayState" ps = (if nonempty relay then [relay] else []) /\
  own_params ps = fst (parse_query rawq).
Proof. exact authn_redirect_url_params. Qed.
Print Assumptions C12_query_single_params.

(* the complete parameter list of the assembled query, for every endpoint query *)
Theorem C12_relaystate_bytes :
  forall sign rawq enc relay method kt q octets,
  authn_query sign rawq enc relay method kt = Ok (q, octets) ->
  parse_query q =
  ((fst (parse_query rawq) ++ saml_params enc relay method (sign octets))%list, snd (parse_query rawq)).
Proof. exact authn_query_params. Qed.
Print Assumptions C12_relaystate_bytes.

(* LogoutRequest / LogoutResponse redirects (url.Values.Set + Encode) *)
Theorem C12_logout_query_params :
  forall param rawq enc relay,
  let ps := fst (parse_query (logout_query param rawq enc relay)) in
  snd (parse_query (logout_query param rawq enc relay)) = false /\
  (param <> "RelayState" -> values_of param ps = [enc]) /\
  (nonempty relay = true -> values_of "RelayState" ps = [relay]) /\
  (forall k, k <> param -> k <> "RelayState" -> values_of k ps = values_of k (fst (parse_query rawq))) /\
  (nonempty relay = false -> param <> "RelayState" ->
   values_of "RelayState" ps = values_of "RelayState" (fst (parse_query rawq))).
Proof. exact logout_query_params. Qed.
Print Assumptions C12_logout_query_params.

(* Values.Encode followed by ParseQuery gives every key its values back, in order *)
Theorem C12_values_encode_roundtrip :
  forall k ps, values_of k (fst (parse_query (values_encode ps))) = values_of k ps
               /\ snd (parse_query (values_encode ps)) = false.
Proof. exact values_encode_roundtrip. Qed.
Print Assumptions C12_values_encode_roundtrip.

(* message IDs: for every sequence of k creations on any stream, the IDs are
   "id-" ++ hex of consecutive 20-byte chunks (160 bits each), exactly 20 k
   bytes are consumed, and distinct draws give distinct IDs *)
Theorem C12_ids_fresh :
  forall k s ids rest,
  make_ids k s = Ok (ids, rest) ->
  ids = map msg_id (chunks20 k s) /\ String.length s = (20 * k + String.length rest)%nat /\
  List.length ids = k /\ (NoDup (chunks20 k s) -> NoDup ids).
Proof.
  intros k s ids rest H. destruct (make_ids_chunks k s ids rest H) as (A & B & C).
  repeat split; try assumption. intros Hn. eapply make_ids_fresh; eauto.
Qed.
Print Assumptions C12_ids_fresh.

Theorem C12_id_injective : forall a b, msg_id a = msg_id b -> a = b.
Proof. exact msg_id_inj. Qed.
Print Assumptions C12_id_injective.

Theorem C12_ids_sequence : forall j k s,
  make_ids (j + k) s =
  (do (a, r) <- make_ids j s; do (b, r') <- make_ids k r; Ok ((a ++ b)%list, r')).
Proof. exact make_ids_app. Qed.
Print Assumptions C12_ids_sequence.

(* the boolean monitor evaluated on the implementation's URLs is sound for the
   statement above, and the model's own output always satisfies it *)
Theorem C12_monitor_sound :
  forall reenc param dest enc relay url,
  redirect_spec reenc param dest enc relay url = true ->
  let rawq := snd (fst (split_url dest)) in
  has_saml_key (fst (parse_query rawq)) = false ->
  let ps := fst (parse_query (query_of url)) in
  values_of param ps = [enc] /\
  values_of "RelayState" ps = (if nonempty relay then [relay] else []).
Proof. exact redirect_spec_sound. Qed.
Print Assumptions C12_monitor_sound.

Theorem C12_model_meets_monitor :
  forall sign dest enc relay method kt url octets,
  authn_redirect sign dest enc relay method kt = Ok (url, octets) ->
  redirect_spec false "SAMLRequest" dest enc relay url = true.
Proof. exact authn_redirect_meets_spec. Qed.
Print Assumptions C12_model_meets_monitor.

Theorem C12_ids_meet_monitor :
  forall k s ids,
  make_ids k s = Ok (ids, EmptyString) ->
  idcase_spec {| ic_stream := s; ic_n := Z.of_nat k; ic_ids := ids |} = true.
Proof. exact make_ids_meets_spec. Qed.
Print Assumptions C12_ids_meet_monitor.

(* for any DEFLATE/base64 implementation with the round-trip property, the single
   SAMLRequest parameter of the emitted URL decodes to the serialised message *)
Theorem C12_message_recoverable :
  forall (deflate inflate b64enc b64dec : string -> string),
  (forall x, inflate (deflate x) = x) -> (forall x, b64dec (b64enc x) = x) ->
  forall sign dest xml relay method kt url octets,
  authn_redirect sign dest (b64enc (deflate xml)) relay method kt = Ok (url, octets) ->
  has_saml_key (fst (parse_query (snd (fst (split_url dest))))) = false ->
  map (fun v => inflate (b64dec v)) (values_of "SAMLRequest" (fst (parse_query (query_of url)))) = [xml].
Proof. exact redirect_message_recoverable. Qed.
Print Assumptions C12_message_recoverable.

(* Cross-model theorem: this library's IdP (IdPModel.validate, the model of
   IdpAuthnRequest.Validate) accepts every AuthnRequest the SP model produces
   (OutboundIdP.make_authn_request, the record behind Outbound.authn_fields) --
   for every SP configuration, random stream, SP clock, destination and result
   binding -- provided the Destination is the IdP's SSO URL (or empty), the
   SP's metadata of the same configuration is registered under the request's
   issuer, and the IdP's clock is within MaxIssueDelay of the IssueInstant on the
   wire (the SP's clock cut to the millisecond); the response is routed to the
   SP's ACS URL with the HTTP-POST binding. *)
Theorem C12_idp_accepts_sp_request :
  forall (c : spcfg) (stream : string) (sp_now : Z) (dest rb : string) (r : authn_request) (rest : string)
         (cfg : IdPModel.idpcfg) (reg : IdPModel.registry) (idp_now : Z)
         (key : option Z) (rsa signs : bool) (ik : Z) (allow : bool) (cert : string),
  make_authn_request c stream sp_now dest rb = Ok (r, rest) ->
  (dest <> EmptyString -> dest = IdPModel.sso_url cfg) ->
  reg (issuer_of c) = IdPModel.Found (IdPModel.sp_metadata (idp_view c key rsa signs ik allow) cert) ->
  idp_now <= wire_instant sp_now + IdPModel.max_issue_delay cfg ->
  exists rt, IdPModel.validate cfg reg idp_now (to_authnreq r) = Ok rt /\
             IdPModel.ep_location (IdPModel.rt_ep rt) = sp_acs_url c /\
             IdPModel.ep_binding (IdPModel.rt_ep rt) = IdPModel.post_binding /\
             IdPModel.rt_md rt = IdPModel.sp_metadata (idp_view c key rsa signs ik allow) cert.
Proof. exact idp_accepts_sp_request. Qed.
Print Assumptions C12_idp_accepts_sp_request.

(* the request of that theorem is the one whose fields are compared with the wire form *)
Theorem C12_request_fields :
  forall c stream now dest rb r rest,
  make_authn_request c stream now dest rb = Ok (r, rest) ->
  fields_of_request r = authn_fields c (aq_id r) dest rb
  /\ new_id stream = Ok (aq_id r, rest) /\ aq_issue_instant r = now /\ aq_destination r = dest.
Proof. exact make_authn_request_fields. Qed.
Print Assumptions C12_request_fields.

Theorem C12_wire_instant_bounds : forall t, t - 999999 <= wire_instant t <= t.
Proof. exact wire_instant_bounds. Qed.
Print Assumptions C12_wire_instant_bounds.

(* where the messages go: Get*BindingLocation returns the Location of the first
   endpoint of the IdP's list with exactly the wanted binding (never its
   ResponseLocation), or "" when there is none *)
Theorem C12_destination_is_location :
  forall b eps,
  (exists pre rl post,
     eps = (pre ++ (b, binding_location b eps, rl) :: post)%list /\
     (forall e, In e pre -> fst (fst e) <> b)) \/
  (binding_location b eps = EmptyString /\ forall e, In e eps -> fst (fst e) <> b).
Proof. exact binding_location_spec. Qed.
Print Assumptions C12_destination_is_location.

Theorem C12_destination_meets_monitor :
  forall eps k b,
  let dest := binding_location (binding_urn (binding_of b)) eps in
  blcase_spec {| bl_eps := eps; bl_kind := k; bl_binding := b;
                 bl_target := target_of (binding_of b) dest; bl_destination := opt_nonempty dest |} = true.
Proof. exact destination_meets_spec. Qed.
Print Assumptions C12_destination_meets_monitor.
