(* C03 — the SP accepts only assertions addressed to it by its configured IdP *)
From Saml Require Import Base TimeModel SPModel SPModelProofs.

(* Whenever an assertion is returned: the Response Issuer is absent or equals the IdP entity ID,
   the Assertion Issuer equals it, every SubjectConfirmation Recipient equals the ACS URL, the
   audience restrictions are empty, or name firstSet(EntityID, MetadataURL), or the application's
   validator accepted; the status is Success; and Destination - mandatory as soon as the
   Response carries a signature - equals the URL the response was received at or the ACS URL.
   Equality is equality of strings. *)
Theorem C03_accept_implies_addressing :
  forall cfg ids now cur d a,
    parse_xml_response cfg ids now cur d = Ok a ->
    exists r resp nid confs nb noa auds,
      d = DRoot r /\ un_response r = Ok resp /\
      a_subject a = Some (nid, confs) /\ a_conditions a = Some (nb, noa, auds) /\
      (forall i, r_issuer resp = Some i -> i = idp_entity cfg) /\
      a_issuer a = idp_entity cfg /\
      (forall sc, In sc confs -> sc_recipient sc = acs_url cfg) /\
      (match custom_aud cfg with
       | Some v => v = true
       | None => auds = [] \/ In (first_set (sp_entity cfg) (metadata_url cfg)) auds
       end) /\
      r_status resp = STATUS_SUCCESS /\
      ((validate_signature cfg r <> SAbsent \/ r_dest resp <> "") -> r_dest resp = cur \/ r_dest resp = acs_url cfg).
Proof.
  intros cfg ids now cur d a H. apply parse_xml_response_sound in H.
  destruct H as [r [resp [e [Hd [Hu [_ [_ [S [_ [_ [A1 [A2 _]]]]]]]]]]]].
  unfold structure_ok in S. unfold addr_ok_a in A2. unfold addr_ok_r in A1.
  destruct (a_subject a) as [[nid confs]|]; [|discriminate].
  destruct (a_conditions a) as [[[nb noa] auds]|]; [|discriminate].
  exists r, resp, nid, confs, nb, noa, auds.
  apply andb_prop in A1. destruct A1 as [A1 A5]. apply andb_prop in A1. destruct A1 as [A1 A4].
  apply andb_prop in A2. destruct A2 as [A2 A7]. apply andb_prop in A2. destruct A2 as [A2 A6].
  repeat split; auto.
  - intros i Hi. rewrite Hi in A4. apply String.eqb_eq in A4. exact A4.
  - apply String.eqb_eq. exact A2.
  - intros sc Hin. apply String.eqb_eq. exact (forallb_In _ _ A6 sc Hin).
  - destruct (custom_aud cfg); [exact A7|]. destruct auds as [|x l]; [left; reflexivity|].
    right. apply mem_str_in. exact A7.
  - apply String.eqb_eq. exact A5.
  - intros Hs. apply orb_prop in A1. destruct A1 as [A1|A1]; [|right; apply String.eqb_eq; exact A1].
    apply orb_prop in A1. destruct A1 as [A1|A1]; [|left; apply String.eqb_eq; exact A1].
    exfalso. apply negb_true_iff, orb_false_iff in A1. destruct A1 as [B1 B2].
    destruct Hs as [Hs|Hs].
    + apply Hs. destruct (validate_signature cfg r); simpl in B1; congruence.
    + apply Hs. destruct (r_dest resp); [reflexivity|discriminate].
Qed.
Print Assumptions C03_accept_implies_addressing.

(* Conversely, an otherwise valid response (acceptable with the addressing checks left out)
   that satisfies the addressing conditions is accepted. *)
Theorem C03_addressed_accepts :
  forall cfg ids now cur r resp a,
    parse_xml_response_ck no_addr cfg ids now cur (DRoot r) = Ok a ->
    un_response r = Ok resp ->
    addr_ok_r cfg (negb (sigv_eqb (validate_signature cfg r) SAbsent)) cur resp = true -> addr_ok_a cfg a = true ->
    parse_xml_response cfg ids now cur (DRoot r) = Ok a.
Proof. exact addr_family_complete. Qed.
Print Assumptions C03_addressed_accepts.

(* A non-Success status is reported as ErrBadStatus (error class 2) whenever the checks the code
   performs before it - Destination, request id, freshness, issuer - pass. *)
Theorem C03_bad_status_reported :
  forall cfg ids now cur r resp,
    un_response r = Ok resp ->
    dest_ok cfg (negb (sigv_eqb (validate_signature cfg r) SAbsent)) cur resp = true ->
    reqid_ok_r cfg ids resp = true -> time_ok_r cfg now resp = true ->
    match r_issuer resp with Some i => seqb i (idp_entity cfg) | None => true end = true ->
    r_status resp <> STATUS_SUCCESS ->
    parse_xml_response cfg ids now cur (DRoot r) = Err 2.
Proof. exact bad_status_reported. Qed.
Print Assumptions C03_bad_status_reported.

(* the artifact entry point applies the issuer and status checks to the ArtifactResponse too *)
Theorem C03_artifact_accept_implies_addressing :
  forall cfg ids rid now cur d a,
    parse_xml_artifact_response cfg ids rid now cur d = Ok a ->
    exists ar aresp,
      un_response_named "ArtifactResponse" ar = Ok aresp /\
      (forall i, r_issuer aresp = Some i -> i = idp_entity cfg) /\ r_status aresp = STATUS_SUCCESS /\
      addr_ok_a cfg a = true.
Proof.
  intros cfg ids rid now cur d a H. apply parse_xml_artifact_response_sound in H.
  destruct H as [env [body [ar [r [aresp [resp [e H]]]]]]].
  destruct H as [_ [_ [_ [_ [Hua [_ [_ [_ [_ [_ [I [St [_ [_ [_ [A _]]]]]]]]]]]]]]]].
  exists ar, aresp. repeat split; auto.
  - intros i Hi. rewrite Hi in I. apply String.eqb_eq. exact I.
  - apply String.eqb_eq. exact St.
Qed.
Print Assumptions C03_artifact_accept_implies_addressing.

(* The monitor the correspondence check evaluates on the implementation's answers is the
   boolean form of the statements above: it is true of the model itself, for both entry points,
   so it can only fire on a case where the implementation departs from the model. *)
Theorem C03_monitor_holds_of_model :
  forall c, spcase_agree c = true -> c03_spec c = true.
Proof. intros c H. destruct (monitors_hold_of_model c H) as [_ [_ [M _]]]; exact M. Qed.
Print Assumptions C03_monitor_holds_of_model.

(* non-vacuity: the hypotheses of the theorems above are met by a concrete signed response with
   two subject confirmations (one in a zoned lexical form) that the model accepts, and the
   rejecting direction by the same response one minute later / for another outstanding id *)
Example C03_nonvacuous :
  (exists a, parse_xml_response ex_cfg ["id-0"; "id-1"] ex_now "https://sp/acs" (DRoot (ex_signed 0 (KICert 0))) = Ok a) /\
  (exists code, parse_xml_response ex_cfg ["id-1"] (ex_now + 60000000000) "https://sp/acs" (DRoot (ex_signed 0 (KICert 0))) = Err code) /\
  (exists code, parse_xml_response ex_cfg ["id-2"] ex_now "https://sp/acs" (DRoot (ex_signed 0 (KICert 0))) = Err code).
Proof. repeat split; eexists; vm_compute; reflexivity. Qed.
