(* C06 — every response the IdP emits is signed and scoped to one SP, request and moment.
   [respond] is MakeAssertion ; WriteResponse (the tail of ServeSSO and of
   ServeIDPInitiated) for an arbitrary routing decision [rt]; with [rt] from
   C05's [validate] / [idp_initiated_route] the endpoint is a registered one. *)
From Saml Require Import Base TimeModel IdPModel IdPModelProofs.

(* Whatever the request, session, metadata and configuration: a form is written
   only to an HTTP-POST endpoint; its action, the Response Destination and the
   bearer Recipient are the selected endpoint's Location (never a value taken
   from the request); the audience and SPNameQualifier are the registered
   metadata's entityID; InResponseTo is the request ID at both levels ("" — the
   attribute is omitted — for IdP-initiated launches); both issuers are the
   IdP's entity ID; the relay state is handed back unchanged. *)
Theorem C06_scoping :
  forall cfg cp rt rq s now tnow addr relay rnd action resp rl,
    respond cfg cp rt rq s now tnow addr relay rnd = Ok (action, resp, rl) ->
    let a := fst (inner_assertion resp) in
    ep_binding (rt_ep rt) = post_binding /\
    action = ep_location (rt_ep rt) /\ rs_destination (rs_body resp) = ep_location (rt_ep rt) /\
    a_conf_recipient a = ep_location (rt_ep rt) /\
    a_audiences a = [md_entity (rt_md rt)] /\ ni_sp_name_qualifier (a_nameid a) = md_entity (rt_md rt) /\
    rs_in_response_to (rs_body resp) = rq_id rq /\ a_conf_in_response_to a = rq_id rq /\
    rs_issuer (rs_body resp) = idp_entity cfg /\ a_issuer a = idp_entity cfg /\
    a_conf_method a = cm_bearer /\ rs_status (rs_body resp) = status_success /\ rl = relay.
Proof. exact respond_scoping. Qed.
Print Assumptions C06_scoping.

(* Conditions never open earlier than MaxClockSkew before issuance (they open at
   the request's IssueInstant when that is later), close MaxIssueDelay after
   they open / after issuance as coded, and the bearer confirmation expires
   exactly MaxIssueDelay after issuance, for every clock position and whatever
   the two package variables hold. *)
Theorem C06_times :
  forall cfg cp rt rq s now tnow addr relay rnd action resp rl,
    respond cfg cp rt rq s now tnow addr relay rnd = Ok (action, resp, rl) ->
    let a := fst (inner_assertion resp) in
    now - max_clock_skew cfg <= a_not_before a /\
    (now - max_clock_skew cfg < rq_issue rq ->
       a_not_before a = rq_issue rq /\ a_noa a = rq_issue rq + max_issue_delay cfg) /\
    (rq_issue rq <= now - max_clock_skew cfg ->
       a_not_before a = now - max_clock_skew cfg /\ a_noa a = now + max_issue_delay cfg) /\
    a_conf_noa a = now + max_issue_delay cfg /\
    rs_issue_instant (rs_body resp) = now /\ a_issue_instant a = tnow.
Proof. exact respond_times. Qed.
Print Assumptions C06_times.

(* NameID, session index and authentication instant are the session's; every
   attribute value is a field of this session; the custom attributes appear
   verbatim, contiguously and in order; the groups appear in order. *)
Theorem C06_attrs_from_session :
  forall cfg cp rt rq s now tnow addr relay rnd action resp rl,
    respond cfg cp rt rq s now tnow addr relay rnd = Ok (action, resp, rl) ->
    let a := fst (inner_assertion resp) in
    ni_value (a_nameid a) = ss_nameid s /\ a_session_index a = ss_index s /\ a_authn_instant a = ss_create s /\
    values_from s (a_attributes a) /\
    (exists pre post, a_attributes a = (pre ++ ss_custom s ++ post)%list) /\
    (ss_groups s <> [] ->
       In (uri_attr "eduPersonAffiliation" "urn:oid:1.3.6.1.4.1.5923.1.1.1.1" (map xs_val (ss_groups s)))
          (a_attributes a)).
Proof. exact respond_attrs_from_session. Qed.
Print Assumptions C06_attrs_from_session.

(* Both the Response and the Assertion (inside the ciphertext when encrypted)
   carry a signature record whose signer is the configured key — the
   crypto.Signer when set, else Key —, whose reference is "#"+ID of the
   enclosing element, which covers that element as emitted, and whose method is
   the configured method — one of the key's algorithm (RSA for Key and RSA
   signers, ECDSA for an ECDSA crypto.Signer) —, RSA-SHA1 when none is configured. *)
Theorem C06_both_signed :
  forall cfg cp rt rq s now tnow addr relay rnd action resp rl,
    respond cfg cp rt rq s now tnow addr relay rnd = Ok (action, resp, rl) ->
    let '(a, sa) := inner_assertion resp in
    let sr := rs_sig resp in
    sg_signer sr = signer_key cfg /\ sg_method sr = effective_method cfg /\
    sg_ref sr = "#" +++ rs_id (rs_body resp) /\ sg_over sr = rs_body resp /\
    sg_signer sa = signer_key cfg /\ sg_method sa = effective_method cfg /\
    sg_ref sa = "#" +++ a_id a /\ sg_over sa = a /\
    In (effective_method cfg) (allowed_methods cfg) /\
    (forall k, idp_signer cfg = Some k -> signer_key cfg = k) /\
    (idp_signer cfg = None -> signer_key cfg = idp_key cfg) /\
    (sig_method cfg = "" -> effective_method cfg = rsa_sha1).
Proof. exact respond_both_signed. Qed.
Print Assumptions C06_both_signed.

(* the response path has no panic *)
Theorem C06_respond_never_panics :
  forall cfg cp rt rq s now tnow addr relay rnd, respond cfg cp rt rq s now tnow addr relay rnd <> Panic.
Proof. exact respond_not_panic. Qed.
Print Assumptions C06_respond_never_panics.

(* the correspondence monitor (scoping, times, attributes, signatures as
   booleans on an observed response) is true of the model's own output *)
Theorem C06_monitor_holds_of_model :
  forall cfg md certs rq sess now tnow addr relay rnd,
    let c0 := {| c6_cfg := cfg; c6_md := md; c6_certs := certs; c6_rq := rq; c6_sess := sess; c6_now := now;
                 c6_tnow := tnow; c6_addr := addr; c6_relay := relay; c6_rnd := rnd; c6_obs := O6Err |} in
    c06_spec {| c6_cfg := cfg; c6_md := md; c6_certs := certs; c6_rq := rq; c6_sess := sess; c6_now := now;
                c6_tnow := tnow; c6_addr := addr; c6_relay := relay; c6_rnd := rnd;
                c6_obs := formobs_of (c06_model c0) |} = true.
Proof. exact c06_spec_of_model. Qed.
Print Assumptions C06_monitor_holds_of_model.

(* The step API: whatever sequence of MakeAssertionEl / MakeResponse / PostBinding
   (WriteResponse) calls is made on a request, from any state of the request
   object, PostBinding succeeds — a form is written — only for an HTTP-POST
   endpoint; in particular also when MakeResponse was called first. *)
Theorem C06_post_form_only_to_post_endpoints :
  forall x l st,
    posts_only_to_post (ep_binding (rt_ep (sx_rt x)))
                       (map (fun s => match s with SMakeAssertionEl => 0 | SMakeResponse => 1 | SPostBinding => 2 end) l)
                       (snd (run_steps x l st)) = true.
Proof. exact steps_post_only_to_post. Qed.
Print Assumptions C06_post_form_only_to_post_endpoints.

Theorem C06_step_monitor_holds_of_model :
  forall base steps,
    match c06_route base with
    | None => True
    | Some r =>
        let '(st, os) := run_steps (c08s_ctx base r) (map step_of steps) st_empty in
        c06s_spec {| s8_base := base; s8_steps := steps; s8_results := os;
                     s8_ael_set := is_some (st_ael st); s8_resp_set := is_some (st_resp st) |} = true
    end.
Proof. exact c06s_spec_of_model. Qed.
Print Assumptions C06_step_monitor_holds_of_model.

(* The attribute statement is exactly the list built from this session for the routed
   descriptor (names, formats, value lists, order); eduPersonPrincipalName carries the
   session's principal name and falls back to the mail only when there is none. *)
Theorem C06_attributes_exact :
  forall cfg cp rt rq s now tnow addr relay rnd action resp rl,
    respond cfg cp rt rq s now tnow addr relay rnd = Ok (action, resp, rl) ->
    a_attributes (fst (inner_assertion resp)) = session_attributes (choose_attr_service (attr_services (rt_desc rt))) s.
Proof. exact respond_attributes_exact. Qed.
Print Assumptions C06_attributes_exact.

Theorem C06_eppn_fallback :
  forall svc s,
    (ss_eppn s <> "" \/ ss_email s <> "") ->
    In (uri_attr "eduPersonPrincipalName" "urn:oid:1.3.6.1.4.1.5923.1.1.1.6"
                 [xs_val (if nonempty (ss_eppn s) then ss_eppn s else ss_email s)])
       (session_attributes svc s).
Proof. exact session_attributes_eppn. Qed.
Print Assumptions C06_eppn_fallback.
