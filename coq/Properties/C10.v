(* C10 — XML encryption round-trips for every offered algorithm and interoperates *)
From Saml Require Import Base Xmlenc XmlencProofs.

(* padding: every plaintext, every block size up to 255, including the empty
   plaintext and exact block multiples *)
Theorem C10_pad_roundtrip :
  forall bs p, 0 < bs <= 255 -> strip_padding (append_padding bs p) = Ok p.
Proof. exact pad_roundtrip. Qed.
Print Assumptions C10_pad_roundtrip.

(* CBC over any invertible block cipher inverts itself, for every block list *)
Theorem C10_cbc_blocks_roundtrip :
  forall (E D : bytes -> bytes) (bs : nat),
    (forall b, List.length b = bs -> D (E b) = b) ->
    (forall b, List.length b = bs -> List.length (E b) = bs) ->
    forall blocks prev, List.length prev = bs -> Forall (fun b => List.length b = bs) blocks ->
      cbc_dec_blocks D prev (cbc_enc_blocks E prev blocks) = blocks.
Proof. exact cbc_blocks_roundtrip. Qed.
Print Assumptions C10_cbc_blocks_roundtrip.

(* direct key: for every offered CBC cipher (AES-GCM is excluded: known finding K1,
   see C10_gcm_encrypt_refuted), every key of the right size, every IV, every plaintext *)
Theorem C10_block_roundtrip :
  forall (P : prims),
    (forall a k iv x, blen x mod block_size a = 0 ->
        p_cbc_dec P a k iv (p_cbc_enc P a k iv x) = x /\ blen (p_cbc_enc P a k iv x) = blen x) ->
    forall a k iv plain el,
      is_gcm a = false -> blen k = key_size a -> blen iv = block_size a ->
      block_encrypt P a (KBytes k) iv None plain = Ok el ->
      decrypt P (KBytes k) el = Ok plain.
Proof. exact block_roundtrip. Qed.
Print Assumptions C10_block_roundtrip.

Theorem C10_block_encrypt_succeeds :
  forall (P : prims) a k iv plain,
    is_gcm a = false -> blen k = key_size a ->
    exists el, block_encrypt P a (KBytes k) iv None plain = Ok el.
Proof. exact block_encrypt_succeeds. Qed.
Print Assumptions C10_block_encrypt_succeeds.

(* key transport: RSA-OAEP (both identifiers) with every registered digest, and PKCS#1 v1.5 *)
Theorem C10_oaep_roundtrip :
  forall (P : prims),
    (forall a k iv x, blen x mod block_size a = 0 ->
        p_cbc_dec P a k iv (p_cbc_enc P a k iv x) = x /\ blen (p_cbc_enc P a k iv x) = blen x) ->
    (forall t d id k, In d digest_uris -> p_unwrap P t d id (p_wrap P t d id k) = Some k) ->
    forall t u a id ck iv plain el,
      t <> Pkcs1v15 -> In u digest_uris ->
      is_gcm a = false -> blen ck = key_size a -> blen iv = block_size a ->
      rsa_encrypt P t (Some u) a (Some id) ck iv None plain = Ok el ->
      decrypt P (KRsa id) el = Ok plain.
Proof. exact oaep_roundtrip. Qed.
Print Assumptions C10_oaep_roundtrip.

Theorem C10_pkcs_roundtrip :
  forall (P : prims),
    (forall a k iv x, blen x mod block_size a = 0 ->
        p_cbc_dec P a k iv (p_cbc_enc P a k iv x) = x /\ blen (p_cbc_enc P a k iv x) = blen x) ->
    (forall d id k, p_unwrap P Pkcs1v15 d id (p_wrap P Pkcs1v15 "" id k) = Some k) ->
    forall digest a id ck iv plain el,
      is_gcm a = false -> blen ck = key_size a -> blen iv = block_size a ->
      rsa_encrypt P Pkcs1v15 digest a (Some id) ck iv None plain = Ok el ->
      decrypt P (KRsa id) el = Ok plain.
Proof. exact pkcs_roundtrip. Qed.
Print Assumptions C10_pkcs_roundtrip.

Theorem C10_offered_all_registered :
  forallb (fun a => match find_decrypter (block_uri a) with Some (DBlock b) => true | _ => false end) all_blockalgs = true /\
  forallb (fun t => match find_decrypter (transport_uri t) with Some (DRsa _) => true | _ => false end) all_transports = true /\
  forallb (fun u => mem_str u digest_uris) digest_uris = true.
Proof. exact offered_all_registered. Qed.
Print Assumptions C10_offered_all_registered.

(* the faithful model of GCM.Encrypt does not round-trip (known finding K1) *)
Theorem C10_gcm_encrypt_refuted :
  exists (P : prims) k plain, blen k = key_size Aes128Gcm /\
    block_encrypt P Aes128Gcm (KBytes k) [] None plain = Panic.
Proof. exact gcm_encrypt_refuted. Qed.
Print Assumptions C10_gcm_encrypt_refuted.
