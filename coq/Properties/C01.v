(* C01 — the SP returns an assertion only if a trusted IdP key signed its content *)
From Saml Require Import Base TimeModel SPModel SPModelProofs.

(* Whenever ParseXMLResponse returns an assertion [a], there is an element [e] among the
   Response's candidates (an Assertion child, or the decrypted plaintext root of an
   EncryptedAssertion child) that unmarshals to exactly [a], and either [e] itself or the
   Response it is a child of is "covered": the first Signature in document order that refers
   to that element was produced by one of the keys the SP is configured to trust
   ([trusted_keys]: signing-use or use-less certificates of the IdP metadata, the pinned
   certificate, or the certificate with the configured fingerprint) and the canonical form of
   the element without that Signature equals the canonical form of the content that
   Signature was computed over.  For every document tree, however signed and unsigned
   elements are rearranged, duplicated, wrapped, re-identified, re-encrypted or stripped. *)
Theorem C01_signed_content :
  forall cfg ids now cur d a,
    parse_xml_response cfg ids now cur d = Ok a ->
    exists r e,
      d = DRoot r /\ In e (cand_elems r) /\ un_assertion e = Ok a /\
      (covered_self cfg r = true \/ covered_self cfg e = true).
Proof.
  intros cfg ids now cur d a H. apply parse_xml_response_sound in H.
  destruct H as [r [resp [e [Hd [_ [Hin [Hu H]]]]]]]. exists r, e. repeat split; auto.
  repeat match type of H with _ /\ _ => destruct H as [_ H] end. exact H.
Qed.
Print Assumptions C01_signed_content.

(* the artifact entry point: the covering signature may also be the ArtifactResponse's *)
Theorem C01_artifact_signed_content :
  forall cfg ids rid now cur d a,
    parse_xml_artifact_response cfg ids rid now cur d = Ok a ->
    exists env body ar r e,
      d = DRoot env /\ In body (node_kids env) /\ In ar (node_kids body) /\ In r (node_kids ar) /\
      In e (cand_elems r) /\ un_assertion e = Ok a /\
      (covered_self cfg ar = true \/ covered_self cfg r = true \/ covered_self cfg e = true).
Proof.
  intros cfg ids rid now cur d a H. apply parse_xml_artifact_response_sound in H.
  destruct H as [env [body [ar [r [aresp [resp [e H]]]]]]].
  destruct H as [Hd [I1 [I2 [I3 [_ [_ [Hin [Hu H]]]]]]]]. exists env, body, ar, r, e. repeat split; auto.
  repeat match type of H with _ /\ _ => destruct H as [_ H] end. exact H.
Qed.
Print Assumptions C01_artifact_signed_content.

(* what "covered" means, unfolded: a configured key signed exactly this canonical content *)
Theorem C01_covered_means :
  forall cfg e, covered_self cfg e = true ->
    exists uri signer ki over rest,
      find_sig (attr "ID" (node_attrs e)) (strip_keyinfo e) = FHit uri signer ki over rest /\
      In signer (trusted_keys cfg) /\ node_eqb (canon rest) (canon over) = true.
Proof.
  intros cfg e H. unfold covered_self in H.
  destruct (find_sig _ _) as [| |uri signer ki over rest]; try discriminate.
  apply andb_prop in H. destruct H as [H1 H2]. exists uri, signer, ki, over, rest.
  repeat split; auto. apply existsb_eqb_in. exact H1.
Qed.
Print Assumptions C01_covered_means.

(* trusted roots come only from configuration: encryption-use certificates, unparsable
   certificates and a misconfigured SP contribute nothing *)
Theorem C01_roots_from_config :
  forall cfg el roots c,
    signing_roots (trust cfg) el = Ok roots -> In c roots -> In c (trusted_keys cfg).
Proof. exact signing_roots_trusted. Qed.
Print Assumptions C01_roots_from_config.

Theorem C01_encryption_use_not_trusted :
  forall kds c, In c (meta_certs kds) ->
    exists kd, In kd kds /\ In c (kd_certs kd) /\ (kd_use kd = "" \/ kd_use kd = "signing").
Proof.
  intros kds c H. unfold meta_certs in H. apply in_flat_map in H. destruct H as [kd [Hin Hc]].
  exists kd. split; [exact Hin|].
  destruct (seqb (kd_use kd) "") eqn:E1; [split; [exact Hc|left; apply String.eqb_eq; exact E1]|].
  destruct (seqb (kd_use kd) "signing") eqn:E2; simpl in Hc; [split; [exact Hc|right; apply String.eqb_eq; exact E2]|].
  contradiction.
Qed.
Print Assumptions C01_encryption_use_not_trusted.

(* a decrypted assertion goes through the same parseAssertion, with the same signature requirement *)
Theorem C01_encrypted_same_path :
  forall ck cfg ids now need cid p,
    parse_encrypted ck cfg ids now need (EncN cid 0 p) = parse_assertion ck cfg ids now need p.
Proof. reflexivity. Qed.
Print Assumptions C01_encrypted_same_path.
