(* C01 — the SP returns an assertion only if a trusted IdP key signed its content *)
From Saml Require Import Base TimeModel SPModel SPModelProofs.

(* Whenever ParseXMLResponse returns an assertion [a], there is an element [e] among the
   Response's candidates (an Assertion child, or the decrypted plaintext root of an
   EncryptedAssertion child) that unmarshals to exactly [a], and either [e] itself or the
   Response it is a child of is "covered": the first Signature in document order that refers
   to that element was produced by one of the keys the SP is configured to trust
   ([trusted_keys]: signing-use or use-less certificates of the IdP metadata, the pinned
   certificate, or the certificate with the configured fingerprint) and the canonical form of
   the element without that Signature equals the canonical form of the content that
   Signature was computed over.  For every document tree, however signed and unsigned
   elements are rearranged, duplicated, wrapped, re-identified, re-encrypted or stripped. *)
Theorem C01_signed_content :
  forall cfg ids now cur d a,
    parse_xml_response cfg ids now cur d = Ok a ->
    exists r e,
      d = DRoot r /\ In e (cand_elems r) /\ un_assertion e = Ok a /\
      (covered_self cfg r = true \/ covered_self cfg e = true).
Proof.
  intros cfg ids now cur d a H. apply parse_xml_response_sound in H.
  destruct H as [r [resp [e [Hd [_ [Hin [Hu H]]]]]]]. exists r, e. repeat split; auto.
  repeat match type of H with _ /\ _ => destruct H as [_ H] end. exact H.
Qed.
Print Assumptions C01_signed_content.

(* the artifact entry point: the covering signature may also be the ArtifactResponse's *)
Theorem C01_artifact_signed_content :
  forall cfg ids rid now cur d a,
    parse_xml_artifact_response cfg ids rid now cur d = Ok a ->
    exists env body ar r e,
      d = DRoot env /\ In body (node_kids env) /\ In ar (node_kids body) /\ In r (node_kids ar) /\
      In e (cand_elems r) /\ un_assertion e = Ok a /\
      (covered_self cfg ar = true \/ covered_self cfg r = true \/ covered_self cfg e = true).
Proof.
  intros cfg ids rid now cur d a H. apply parse_xml_artifact_response_sound in H.
  destruct H as [env [body [ar [r [aresp [resp [e H]]]]]]].
  destruct H as [Hd [I1 [I2 [I3 [_ [_ [Hin [Hu H]]]]]]]]. exists env, body, ar, r, e. repeat split; auto.
  repeat match type of H with _ /\ _ => destruct H as [_ H] end. exact H.
Qed.
Print Assumptions C01_artifact_signed_content.

(* what "covered" means, unfolded: a configured key signed exactly this canonical content *)
Theorem C01_covered_means :
  forall cfg e, covered_self cfg e = true ->
    exists uri signer ki over rest,
      find_sig (attr "ID" (node_attrs e)) (strip_keyinfo e) = FHit uri signer ki over rest /\
      In signer (trusted_keys cfg) /\ node_eqb (canon rest) (canon over) = true.
Proof.
  intros cfg e H. unfold covered_self in H.
  destruct (find_sig _ _) as [| |uri signer ki over rest]; try discriminate.
  apply andb_prop in H. destruct H as [H1 H2]. exists uri, signer, ki, over, rest.
  repeat split; auto. apply existsb_eqb_in. exact H1.
Qed.
Print Assumptions C01_covered_means.

(* trusted roots come only from configuration: encryption-use certificates, unparsable
   certificates and a misconfigured SP contribute nothing *)
Theorem C01_roots_from_config :
  forall cfg el roots c,
    signing_roots (trust cfg) el = Ok roots -> In c roots -> In c (trusted_keys cfg).
Proof. exact signing_roots_trusted. Qed.
Print Assumptions C01_roots_from_config.

Theorem C01_encryption_use_not_trusted :
  forall kds c, In c (meta_certs kds) ->
    exists kd, In kd kds /\ In c (kd_certs kd) /\ (kd_use kd = "" \/ kd_use kd = "signing").
Proof.
  intros kds c H. unfold meta_certs in H. apply in_flat_map in H. destruct H as [kd [Hin Hc]].
  exists kd. split; [exact Hin|].
  destruct (seqb (kd_use kd) "") eqn:E1; [split; [exact Hc|left; apply String.eqb_eq; exact E1]|].
  destruct (seqb (kd_use kd) "signing") eqn:E2; simpl in Hc; [split; [exact Hc|right; apply String.eqb_eq; exact E2]|].
  contradiction.
Qed.
Print Assumptions C01_encryption_use_not_trusted.

(* a decrypted assertion goes through the same parseAssertion, with the same signature requirement *)
Theorem C01_encrypted_same_path :
  forall ck cfg ids now need cid p,
    parse_encrypted ck cfg ids now need (EncN cid 0 p) = parse_assertion ck cfg ids now need p.
Proof. reflexivity. Qed.
Print Assumptions C01_encrypted_same_path.

(* Against a party that lacks the IdP's keys (Dolev-Yao): suppose every Signature occurring
   anywhere in the presented document (also inside decryptable EncryptedAssertions) that was
   produced by a key the SP trusts is a signature the IdP made over one of the elements in H
   - the attacker may copy, move, drop and re-wrap such signatures and elements at will, add
   signatures by other keys, comments, foreign elements, change KeyInfo, re-encrypt.  Then the
   returned assertion is unmarshalled from an element e which, once the signature found for it
   is removed, is canonically equal (comments dropped) to an element of H - or e is a
   candidate child of the Response r for which that holds. *)
Theorem C01_dolev_yao :
  forall cfg H ids now cur r a,
    honest_signers cfg H r ->
    parse_xml_response cfg ids now cur (DRoot r) = Ok a ->
    exists e h uri signer ki over rest,
      In e (cand_elems r) /\ un_assertion e = Ok a /\ In h H /\ canon rest = canon h /\
      (find_sig (attr "ID" (node_attrs e)) (strip_keyinfo e) = FHit uri signer ki over rest \/
       find_sig (attr "ID" (node_attrs r)) (strip_keyinfo r) = FHit uri signer ki over rest).
Proof. exact accepted_content_was_signed. Qed.
Print Assumptions C01_dolev_yao.

(* non-vacuity: a Response signed by the metadata signing key is accepted; the same content
   signed by the encryption-use key, by an unknown key (whatever its KeyInfo claims) or not
   signed at all is rejected *)
Example C01_nonvacuous :
  obs_of (parse_xml_response ex_cfg ["id-0"; "id-1"] ex_now "https://sp/acs" (DRoot (ex_signed 0 (KICert 0))))
  = OAccept "a1" "alice" ["alice@example.com"] /\
  map (fun d => obs_of (parse_xml_response ex_cfg ["id-1"] ex_now "https://sp/acs" (DRoot d)))
      [ex_signed 2 (KICert 2); ex_signed 9 (KICert 9); ex_signed 9 (KICert 0); ex_signed 9 KINone; ex_unsigned]
  = [OReject 1; OReject 1; OReject 1; OReject 1; OReject 1].
Proof. split; [exact ex_accepted|exact ex_rejected]. Qed.

(* What the unmarshaller reads is a function of what the digest covers: two elements with the
   same canonical form (so: differing only in comments and in how character data is split)
   unmarshal to the same assertion.  Comment injection, text splitting and signature
   relocation cannot change the returned identity without changing the digest. *)
Theorem C01_unmarshal_factors_canon :
  forall e1 e2, canon e1 = canon e2 -> un_assertion e1 = un_assertion e2.
Proof.
  intros e1 e2 H. rewrite <- (un_assertion_visible e1), <- (un_assertion_visible e2),
                          <- (visible_canon e1), <- (visible_canon e2), H. reflexivity.
Qed.
Print Assumptions C01_unmarshal_factors_canon.

(* C01 in full, against an attacker who lacks the IdP's keys: if the keys the SP trusts have
   signed nothing but the elements of H, then whatever document is presented, the assertion
   returned is exactly what unmarshalling an element of H gives (assertion signed), or what
   unmarshalling a candidate child of a Response in H gives (Response signed). *)
Theorem C01_returns_only_signed_content :
  forall cfg H ids now cur r a,
    honest_signers cfg H r ->
    parse_xml_response cfg ids now cur (DRoot r) = Ok a ->
    exists h, In h H /\
      (un_assertion h = Ok a \/ exists e', In e' (cand_elems h) /\ un_assertion e' = Ok a).
Proof. exact accepted_is_signed_content. Qed.
Print Assumptions C01_returns_only_signed_content.

(* The monitor the correspondence check evaluates on the implementation's answers is the
   boolean form of the statements above: it is true of the model itself, for both entry points,
   so it can only fire on a case where the implementation departs from the model. *)
Theorem C01_monitor_holds_of_model :
  forall c, spcase_agree c = true -> c01_spec c = true.
Proof. intros c H. destruct (monitors_hold_of_model c H) as [M _]; exact M. Qed.
Print Assumptions C01_monitor_holds_of_model.
