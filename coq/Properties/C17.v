(* C17 — middleware login completes only in the browser that started it, at its URL.

   [step] is samlsp.Middleware seen from outside: a protected page request
   without session starts a flow (HandleStartAuthFlow + TrackRequest), a POST
   to the ACS is ServeACS + CreateSessionFromAssertion, over the request's
   Cookie header ([jar]).  [run (init cfg t0) hist] is the state after ANY
   history of such requests and clock advances; its ghost field [mw_flows]
   records which flows were started (index, request ID, URL, instant, cookie
   value handed out).  [jar_ok] is the Dolev-Yao closure for cookie values
   (anything not signed by the SP's key, the cookies this middleware issued,
   tokens of other deployments, session tokens of anyone). *)
(* SPModel first (used qualified, in the C04 section at the end): the later imports shadow its names *)
From Saml Require Import SPModel.
From Saml Require Import Base Tokens TokensProofs Middleware MiddlewareProofs MiddlewareSP.

(* With IdP-initiated login off, after any history, an ACS request obtains a
   session cookie only if its jar presents — under the name prefix++index —
   the authentic cookie of a flow this middleware started, whose request ID
   the response answers, and that cookie is still inside its lifetime. *)
Theorem C17_session_needs_own_tracking_cookie :
  forall cfg t0 hist r j relay h,
    let m := run (init cfg t0) hist in
    m_allow_idp cfg = false -> jar_ok m j ->
    sets_session (snd (step m (Deliver r j relay h))) ->
    exists f, In f (mw_flows m) /\ r_irt r = fl_req_id f
              /\ In (m_prefix cfg +++ fl_index f, fl_cookie f) j
              /\ fl_cookie f = WToken (mint_tracking (m_arr cfg) (m_tcodec cfg) (fl_start f) (flow_tracked f))
              /\ fl_start f <= mw_clock m
              /\ mw_clock m < sec (fl_start f + c_max_age (m_tcodec cfg)) * tk_ns_per_s.
Proof. exact reachable_session_needs_own_tracking_cookie. Qed.
Print Assumptions C17_session_needs_own_tracking_cookie.

(* The redirect of an accepted delivery goes to the default when no RelayState
   came back, otherwise to the URL recorded at the start of the flow whose
   authentic, live cookie is the first one named prefix++RelayState — and that
   cookie is cleared.  RelayState text itself never reaches Location. *)
Theorem C17_redirect_target :
  forall m r j relay h m' rp,
    flows_ok m -> jar_ok m j -> m_allow_idp (mw_cfg m) = false ->
    step m (Deliver r j relay h) = (m', rp) -> sets_session rp ->
    (relay = "" -> rp_location rp = LUrl (m_default_redirect (mw_cfg m)))
    /\ (relay <> "" ->
        exists f, In f (mw_flows m) /\ fl_index f = relay
                  /\ jar_get (m_prefix (mw_cfg m) +++ relay) j = Some (fl_cookie f)
                  /\ flow_live (mw_cfg m) (mw_clock m) f = true
                  /\ rp_location rp = LUrl (fl_uri f)
                  /\ In (clear_cookie (mw_cfg m) relay) (rp_cookies rp)).
Proof. exact redirect_target. Qed.
Print Assumptions C17_redirect_target.

Theorem C17_location_never_attacker_text :
  forall m r j relay h m' rp,
    flows_ok m -> jar_ok m j -> m_allow_idp (mw_cfg m) = false ->
    step m (Deliver r j relay h) = (m', rp) ->
    rp_location rp = LNone
    \/ rp_location rp = LUrl (m_default_redirect (mw_cfg m))
    \/ exists f, In f (mw_flows m) /\ rp_location rp = LUrl (fl_uri f).
Proof. exact location_never_attacker_text. Qed.
Print Assumptions C17_location_never_attacker_text.

(* flows_ok is an invariant of every reachable state *)
Theorem C17_reachable_flows_ok : forall cfg t0 hist, flows_ok (run (init cfg t0) hist).
Proof. intros. apply run_flows_ok, init_flows_ok. Qed.
Print Assumptions C17_reachable_flows_ok.

(* Without the authentic live cookie of the answered flow — none, another
   flow's, an expired, tampered or renamed one — the reply is the bare 403:
   no session cookie, no cookie at all. *)
Theorem C17_refused_without_cookie :
  forall m r j relay h m' rp,
    flows_ok m -> jar_ok m j -> m_allow_idp (mw_cfg m) = false ->
    (forall f, In f (mw_flows m) -> r_irt r = fl_req_id f ->
               In (m_prefix (mw_cfg m) +++ fl_index f, fl_cookie f) j ->
               flow_live (mw_cfg m) (mw_clock m) f = false) ->
    step m (Deliver r j relay h) = (m', rp) ->
    rp = forbidden.
Proof. exact refused_without_cookie. Qed.
Print Assumptions C17_refused_without_cookie.

(* Every cookie of every reply: the session cookie is HttpOnly, Secure iff the
   deployment (or the request) is https, Path=/; the tracking cookie is
   HttpOnly, Secure iff the ACS is https, scoped to the ACS path, named
   prefix ++ the index signed inside it; the clearing cookie is scoped to the
   ACS path. *)
Theorem C17_flags :
  forall m a m' rp,
    step m a = (m', rp) -> forall ck, In ck (rp_cookies rp) -> cookie_ok (mw_cfg m) (req_https_of a) ck.
Proof. exact flags. Qed.
Print Assumptions C17_flags.

(* samlsp.New: token lifetime = cookie lifetime = MaxIssueDelay; and a flow's
   cookie counts exactly while Unix(start) <= now < Unix(start + lifetime). *)
Theorem C17_tracking_lifetime :
  (forall o mid https acs allow dflt post,
      let cfg := default_cfg o mid https acs allow dflt post in
      c_max_age (m_tcodec cfg) = mid /\ m_track_cookie_age cfg = mid /\ m_mid cfg = mid)
  /\ (forall m now f,
         flows_ok m -> codec_wf (m_tcodec (mw_cfg m)) -> In f (mw_flows m) ->
         (In (flow_tracked f) (get_tracked_requests (mw_cfg m) now [(m_prefix (mw_cfg m) +++ fl_index f, fl_cookie f)])
          <-> sec (fl_start f) * tk_ns_per_s <= now < sec (fl_start f + c_max_age (m_tcodec (mw_cfg m))) * tk_ns_per_s)).
Proof. split; [exact tracking_lifetime_cfg | exact tracking_cookie_window]. Qed.
Print Assumptions C17_tracking_lifetime.

(* After any history with pairwise distinct RandReader draws — any number of
   flows, any interleaving of starts, deliveries, page requests and clock
   advances — delivering a fresh valid answer to flow f with a jar of honest
   cookies containing f's live cookie and RelayState = f's index completes at
   f's own URL, sets the session and clears f's cookie. *)
Theorem C17_interleaving :
  forall cfg t0 hist r j h f,
    let m := run (init cfg t0) hist in
    fresh_draws hist -> codec_wf (m_tcodec cfg) ->
    In f (mw_flows m) -> fl_index f <> "" ->
    honest_jar m j -> In (m_prefix cfg +++ fl_index f, fl_cookie f) j ->
    flow_live cfg (mw_clock m) f = true ->
    r_ok r = true -> response_fresh cfg (mw_clock m) r = true -> r_irt r = fl_req_id f ->
    let rp := snd (step m (Deliver r j (fl_index f) h)) in
    rp_status rp = 302 /\ rp_location rp = LUrl (fl_uri f) /\ sets_session rp
    /\ In (clear_cookie cfg (fl_index f)) (rp_cookies rp).
Proof. exact interleaving. Qed.
Print Assumptions C17_interleaving.

(* The check evaluated on every generated history: for a configuration as
   samlsp.New builds it and a script whose jar values are cookies issued
   earlier (verbatim, damaged, or re-signed with another key) or garbage,
   agreement of every observed reply with the model implies that the property
   monitor accepts every step. *)
Theorem C17_check_sound :
  forall c, cfg_wf (hc_cfg c) -> forallb (saction_ok (hc_cfg c)) (hc_script c) = true ->
            hcase_agree c = true -> hcase_spec c = true.
Proof. exact hcase_check_sound. Qed.
Print Assumptions C17_check_sound.

(* TrackRequest's index: the RelayStateFunc's value when one is installed and
   returns a non-empty string, the random draw otherwise ("" means "use the
   random index"), hence never empty; and with non-empty draws every flow of a
   reachable state has its own non-empty index, so C17_interleaving needs no
   hypothesis on it. *)
Theorem C17_track_index :
  (forall c rnd, nonempty rnd = true -> nonempty (track_index c rnd) = true)
  /\ (forall s rnd, s <> "" -> track_index (Some s) rnd = s)
  /\ (forall rnd, track_index (Some "") rnd = rnd /\ track_index None rnd = rnd).
Proof. split; [exact track_index_nonempty | split; [exact track_index_custom | exact track_index_fallback]]. Qed.
Print Assumptions C17_track_index.

Theorem C17_interleaving_nonempty_draws :
  forall cfg t0 hist r j h f,
    let m := run (init cfg t0) hist in
    fresh_draws hist -> nonempty_draws hist -> codec_wf (m_tcodec cfg) ->
    In f (mw_flows m) ->
    honest_jar m j -> In (m_prefix cfg +++ fl_index f, fl_cookie f) j ->
    flow_live cfg (mw_clock m) f = true ->
    r_ok r = true -> response_fresh cfg (mw_clock m) r = true -> r_irt r = fl_req_id f ->
    let rp := snd (step m (Deliver r j (fl_index f) h)) in
    rp_status rp = 302 /\ rp_location rp = LUrl (fl_uri f) /\ sets_session rp
    /\ In (clear_cookie cfg (fl_index f)) (rp_cookies rp).
Proof. exact interleaving_nonempty_draws. Qed.
Print Assumptions C17_interleaving_nonempty_draws.

(* ====================================================================== *)
(* C04, last mechanism: "the middleware supplies the outstanding request IDs
   from authenticated tracking cookies" — the tie between this state machine
   and the SP acceptance model (SPModel.v, property C04).
   [mw_possible_ids m j] is the list ServeACS hands to ParseResponse in state m
   for the jar j (the list Deliver's verdict is evaluated against). *)

(* For every state and every jar, an id is in the list iff it is "" with
   IdP-initiated on, or the SAMLRequestID signed inside a cookie of the jar that
   the tracking codec accepts now (authentic, unexpired) and whose name is
   prefix ++ its signed index.  For reachable states and jars in the
   Dolev-Yao closure those cookies are exactly the live cookies of flows this
   middleware started, under their own names. *)
Theorem C04_middleware_possible_ids :
  (forall m j x,
      In x (mw_possible_ids m j) <->
      (m_allow_idp (mw_cfg m) = true /\ x = "")
      \/ exists n w tr, In (n, w) j
                        /\ decode_tracking (m_tcodec (mw_cfg m)) (mw_clock m) w = Some tr
                        /\ n = m_prefix (mw_cfg m) +++ tr_index tr
                        /\ x = tr_req_id tr)
  /\ (forall cfg t0 hist j x,
         let m := run (init cfg t0) hist in
         codec_wf (m_tcodec cfg) -> jar_ok m j ->
         (In x (mw_possible_ids m j) <->
          (m_allow_idp cfg = true /\ x = "")
          \/ exists f, In f (mw_flows m) /\ x = fl_req_id f
                       /\ In (m_prefix cfg +++ fl_index f, fl_cookie f) j
                       /\ flow_live cfg (mw_clock m) f = true)).
Proof.
  split; [exact possible_ids_decode|].
  intros cfg t0 hist j x m Hwf Hj.
  assert (Hcfg : mw_cfg m = cfg) by (unfold m; rewrite run_cfg; reflexivity).
  rewrite <- Hcfg in Hwf. rewrite <- Hcfg.
  apply possible_ids_flows; [apply run_flows_ok, init_flows_ok | assumption | assumption].
Qed.
Print Assumptions C04_middleware_possible_ids.

(* SPModel's response-level request-id rule evaluated on the middleware's list
   (IdP-initiated off, no ValidateRequestID hook): the InResponseTo is the
   request ID of a flow this middleware started, whose authentic tracking
   cookie is in the jar under prefix ++ its index and is inside its lifetime.
   With C04_accept_implies_outstanding: whatever ParseResponse accepts through
   the middleware answers one of the browser's own pending flows. *)
Theorem C04_middleware_outstanding_is_own_flow :
  forall cfg t0 hist (sc : SPModel.spcfg) j (resp : SPModel.response),
    let m := run (init cfg t0) hist in
    m_allow_idp cfg = false -> SPModel.allow_idp_init sc = false -> SPModel.custom_reqid sc = None ->
    jar_ok m j ->
    SPModel.reqid_ok_r sc (mw_possible_ids m j) resp = true ->
    exists f, In f (mw_flows m) /\ SPModel.r_irt resp = fl_req_id f
              /\ In (m_prefix cfg +++ fl_index f, fl_cookie f) j
              /\ fl_cookie f = WToken (mint_tracking (m_arr cfg) (m_tcodec cfg) (fl_start f) (flow_tracked f))
              /\ fl_start f <= mw_clock m
              /\ mw_clock m < sec (fl_start f + c_max_age (m_tcodec cfg)) * tk_ns_per_s.
Proof. exact outstanding_is_own_flow. Qed.
Print Assumptions C04_middleware_outstanding_is_own_flow.

(* the same for every subject confirmation of the returned assertion (reqid_ok_a) *)
Theorem C04_middleware_confirmations_are_own_flows :
  forall cfg t0 hist (sc : SPModel.spcfg) j (a : SPModel.assertion) nid confs,
    let m := run (init cfg t0) hist in
    m_allow_idp cfg = false -> SPModel.allow_idp_init sc = false -> jar_ok m j ->
    SPModel.a_subject a = Some (nid, confs) ->
    SPModel.reqid_ok_a sc (mw_possible_ids m j) a = true ->
    forall c, In c confs ->
      exists f, In f (mw_flows m) /\ SPModel.sc_irt c = fl_req_id f
                /\ In (m_prefix cfg +++ fl_index f, fl_cookie f) j
                /\ flow_live cfg (mw_clock m) f = true.
Proof. exact confirmations_are_own_flows. Qed.
Print Assumptions C04_middleware_confirmations_are_own_flows.

(* and the abstract verdict of the Deliver step IS that rule (plus "otherwise
   valid" and freshness), evaluated against this very list *)
Theorem C04_middleware_verdict_is_sp_rule :
  forall (cfg : mwcfg) (sc : SPModel.spcfg) now ids (r : response) (resp : SPModel.response),
    SPModel.custom_reqid sc = None -> SPModel.allow_idp_init sc = m_allow_idp cfg ->
    SPModel.r_irt resp = r_irt r ->
    sp_verdict cfg now ids r = r_ok r && response_fresh cfg now r && SPModel.reqid_ok_r sc ids resp.
Proof. exact sp_verdict_is_reqid_ok. Qed.
Print Assumptions C04_middleware_verdict_is_sp_rule.
