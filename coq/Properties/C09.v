(* C09 — message-consuming APIs are total: a result or an error, never a panic or blow-up *)
From Saml Require Import Base TimeModel SPModel SPModelProofs Flate FlateProofs.

(* The models carry an explicit Panic outcome: every place where the Go code dereferences an
   optional (pointer) field goes through [deref], which yields Panic on an absent value.  The
   theorems say that no document tree - in particular none that omits Subject, Conditions,
   SubjectConfirmationData, Issuer, Status, a root element, or decrypts to nothing - and no
   configuration reaches it: each dereference is preceded by the guard that turns absence into
   an error.  The result type makes "assertion nil exactly when the error is non-nil" structural. *)
Theorem C09_no_panic_response :
  forall ck cfg ids now cur d, parse_xml_response_ck ck cfg ids now cur d <> Panic.
Proof. exact parse_xml_response_not_panic. Qed.
Print Assumptions C09_no_panic_response.

Theorem C09_no_panic_artifact :
  forall ck cfg ids rid now cur d, parse_xml_artifact_response_ck ck cfg ids rid now cur d <> Panic.
Proof. exact parse_xml_artifact_response_not_panic. Qed.
Print Assumptions C09_no_panic_artifact.

Theorem C09_no_panic_logout :
  forall cfg now d, validate_logout cfg now d <> Panic.
Proof. exact validate_logout_not_panic. Qed.
Print Assumptions C09_no_panic_logout.

Theorem C09_no_panic_validate_assertion :
  forall ck cfg ids now a, validate_assertion ck cfg ids now a <> Panic.
Proof. exact validate_assertion_not_panic. Qed.
Print Assumptions C09_no_panic_validate_assertion.

(* an assertion missing Subject, Conditions or a SubjectConfirmationData is an error *)
Theorem C09_missing_parts_are_errors :
  forall ck cfg ids now a, structure_ok a = false -> exists code, validate_assertion ck cfg ids now a = Err code.
Proof.
  intros ck cfg ids now a H. destruct (validate_assertion ck cfg ids now a) as [[]|code|] eqn:E.
  - assert (is_ok (validate_assertion ck cfg ids now a) = true) as K by (rewrite E; reflexivity).
    rewrite validate_assertion_char, H in K. discriminate.
  - eauto.
  - exfalso. exact (validate_assertion_not_panic _ _ _ _ _ E).
Qed.
Print Assumptions C09_missing_parts_are_errors.

(* bounded inflate: whatever sequence of reads io.ReadAll issues and whatever the inflater
   delivers on each, the bytes delivered never exceed 10 MiB, and a read that would pass the
   limit is refused *)
Theorem C09_flate_bound :
  forall l count c', 0 <= count <= flate_limit -> sane_reads l -> flate_reads count l = Ok c' ->
    count <= c' <= flate_limit.
Proof. exact flate_bound. Qed.
Print Assumptions C09_flate_bound.

Theorem C09_flate_refuses :
  forall count p n r, flate_limit < count + p -> flate_reads count ((p, n) :: r) = Err 1.
Proof. exact flate_refuses. Qed.
Print Assumptions C09_flate_refuses.

(* The monitor the correspondence check evaluates on the implementation's answers is the
   boolean form of the statements above: it is true of the model itself, for both entry points,
   so it can only fire on a case where the implementation departs from the model. *)
Theorem C09_monitor_holds_of_model :
  forall c, spcase_agree c = true -> c09_spec c = true.
Proof. intros c H. destruct (monitors_hold_of_model c H) as [_ [_ [_ [_ M]]]]; exact M. Qed.
Print Assumptions C09_monitor_holds_of_model.

(* ---- the IdP side: authentication requests and SP metadata (models of the IDP group) ---- *)
From Saml Require Import IdPModel IdPModelProofs.

(* IdpAuthnRequest.Validate on any framed request (undecodable, rootless, without Issuer, ...)
   and any registry behaviour is a routing or an error *)
Theorem C09_no_panic_authn_request :
  forall cfg reg now f, validate_framed cfg reg now f <> Panic.
Proof. exact validate_never_panics. Qed.
Print Assumptions C09_no_panic_authn_request.

(* building and writing the response for any routed request, session and SP metadata
   (key descriptors without certificate, unusable certificates, ...) *)
Theorem C09_no_panic_idp_response :
  forall cfg cp rt rq s now tnow addr relay rnd, respond cfg cp rt rq s now tnow addr relay rnd <> Panic.
Proof. exact respond_not_panic. Qed.
Print Assumptions C09_no_panic_idp_response.

Theorem C09_no_panic_encryption_decision :
  forall cp l, enc_decision cp l <> EncPanic.
Proof. exact enc_decision_never_panics. Qed.
Print Assumptions C09_no_panic_encryption_decision.
