(* C04 — the SP accepts only responses to requests it has outstanding (unless IdP-initiated) *)
From Saml Require Import Base TimeModel SPModel SPModelProofs.

(* Without AllowIDPInitiated and without an application validator, an accepted response's
   InResponseTo and the InResponseTo of every subject confirmation of the returned assertion
   are members (string equality; absent = "") of the outstanding list. *)
Theorem C04_accept_implies_outstanding :
  forall cfg ids now cur d a,
    allow_idp_init cfg = false -> custom_reqid cfg = None ->
    parse_xml_response cfg ids now cur d = Ok a ->
    exists r resp nid confs,
      d = DRoot r /\ un_response r = Ok resp /\ a_subject a = Some (nid, confs) /\
      In (r_irt resp) ids /\ forall sc, In sc confs -> In (sc_irt sc) ids.
Proof.
  intros cfg ids now cur d a Hi Hc H. apply parse_xml_response_sound in H.
  destruct H as [r [resp [e [Hd [Hu [_ [_ [S [_ [_ [_ [_ [R1 [R2 _]]]]]]]]]]]]]].
  unfold structure_ok in S. unfold reqid_ok_r in R1. unfold reqid_ok_a in R2. rewrite Hi in *. rewrite Hc in R1.
  destruct (a_subject a) as [[nid confs]|]; [|discriminate].
  exists r, resp, nid, confs. repeat split; auto.
  - apply mem_str_in. exact R1.
  - intros sc Hin. apply mem_str_in. exact (forallb_In _ _ R2 sc Hin).
Qed.
Print Assumptions C04_accept_implies_outstanding.

(* with no outstanding request nothing is accepted *)
Theorem C04_empty_set_rejects :
  forall cfg now cur d a,
    allow_idp_init cfg = false -> custom_reqid cfg = None ->
    parse_xml_response cfg [] now cur d <> Ok a.
Proof. exact no_outstanding_rejects. Qed.
Print Assumptions C04_empty_set_rejects.

(* the subject-confirmation check is applied even when the application validates the
   response-level id itself; only AllowIDPInitiated switches it off *)
Theorem C04_confirmations_checked_under_custom_validator :
  forall cfg ids now cur d a,
    allow_idp_init cfg = false ->
    parse_xml_response cfg ids now cur d = Ok a ->
    exists nid confs, a_subject a = Some (nid, confs) /\ forall sc, In sc confs -> In (sc_irt sc) ids.
Proof.
  intros cfg ids now cur d a Hi H. apply parse_xml_response_sound in H.
  destruct H as [r [resp [e [Hd [Hu [_ [_ [S [_ [_ [_ [_ [_ [R2 _]]]]]]]]]]]]]].
  unfold structure_ok in S. unfold reqid_ok_a in R2. rewrite Hi in R2.
  destruct (a_subject a) as [[nid confs]|]; [|discriminate].
  exists nid, confs. split; [reflexivity|]. intros sc Hin. apply mem_str_in. exact (forallb_In _ _ R2 sc Hin).
Qed.
Print Assumptions C04_confirmations_checked_under_custom_validator.

(* an artifact response is accepted only if it answers exactly the ArtifactResolve request id
   given to the parser (the id of the request the SP just issued), and the enclosed Response
   is still subject to the outstanding-request rule *)
Theorem C04_artifact_binds_resolve_id :
  forall cfg ids rid now cur d a,
    parse_xml_artifact_response cfg ids rid now cur d = Ok a ->
    exists ar r aresp resp,
      un_response_named "ArtifactResponse" ar = Ok aresp /\ un_response r = Ok resp /\
      r_irt aresp = rid /\ reqid_ok_r cfg ids resp = true /\ reqid_ok_a cfg ids a = true.
Proof.
  intros cfg ids rid now cur d a H. apply parse_xml_artifact_response_sound in H.
  destruct H as [env [body [ar [r [aresp [resp [e H]]]]]]].
  destruct H as [_ [_ [_ [_ [Hua [Hu [_ [_ [Hr [_ [_ [_ [_ [_ [_ [_ [R1 [R2 _]]]]]]]]]]]]]]]]]].
  exists ar, r, aresp, resp. repeat split; auto.
Qed.
Print Assumptions C04_artifact_binds_resolve_id.

(* a valid response to an outstanding request is accepted *)
Theorem C04_outstanding_accepts :
  forall cfg ids now cur r resp a,
    parse_xml_response_ck no_reqid cfg ids now cur (DRoot r) = Ok a ->
    un_response r = Ok resp ->
    reqid_ok_r cfg ids resp = true -> reqid_ok_a cfg ids a = true ->
    parse_xml_response cfg ids now cur (DRoot r) = Ok a.
Proof. exact reqid_family_complete. Qed.
Print Assumptions C04_outstanding_accepts.

(* The monitor the correspondence check evaluates on the implementation's answers is the
   boolean form of the statements above: it is true of the model itself, for both entry points,
   so it can only fire on a case where the implementation departs from the model. *)
Theorem C04_monitor_holds_of_model :
  forall c, spcase_agree c = true -> c04_spec c = true.
Proof. intros c H. destruct (monitors_hold_of_model c H) as [_ [_ [_ [M _]]]]; exact M. Qed.
Print Assumptions C04_monitor_holds_of_model.

(* non-vacuity: the hypotheses of the theorems above are met by a concrete signed response with
   two subject confirmations (one in a zoned lexical form) that the model accepts, and the
   rejecting direction by the same response one minute later / for another outstanding id *)
Example C04_nonvacuous :
  (exists a, parse_xml_response ex_cfg ["id-0"; "id-1"] ex_now "https://sp/acs" (DRoot (ex_signed 0 (KICert 0))) = Ok a) /\
  (exists code, parse_xml_response ex_cfg ["id-1"] (ex_now + 60000000000) "https://sp/acs" (DRoot (ex_signed 0 (KICert 0))) = Err code) /\
  (exists code, parse_xml_response ex_cfg ["id-2"] ex_now "https://sp/acs" (DRoot (ex_signed 0 (KICert 0))) = Err code).
Proof. repeat split; eexists; vm_compute; reflexivity. Qed.
