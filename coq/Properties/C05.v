(* C05 — the IdP answers only valid requests and routes only to registered ACS endpoints *)
From Saml Require Import Base TimeModel IdPModel IdPModelProofs.

(* IdpAuthnRequest.Validate accepts a request exactly when it is fresh
   (IssueInstant + MaxIssueDelay not before the IdP clock), has Version "2.0",
   names the IdP's SSO URL as Destination whenever it names one, is issued by an
   entity the ServiceProviderProvider knows, and getACSEndpoint finds an endpoint
   in that entity's registered metadata; the routing it returns is that endpoint.
   Both directions, for every configuration (including whatever values the
   package variables hold), registry, clock value and request. *)
Theorem C05_validate_iff :
  forall cfg reg now rq rt,
    validate cfg reg now rq = Ok rt <->
    exists r, valid_request cfg reg now rq (rt_md rt) /\ get_acs_endpoint (rt_md rt) rq = Some r
              /\ rt = mk_routing (rt_md rt) r.
Proof. exact validate_iff. Qed.
Print Assumptions C05_validate_iff.

Theorem C05_validate_sound :
  forall cfg reg now rq rt,
    validate cfg reg now rq = Ok rt ->
    now <= rq_issue rq + max_issue_delay cfg /\ rq_version rq = "2.0" /\
    (rq_destination rq <> "" -> rq_destination rq = sso_url cfg) /\
    exists iss md, rq_issuer rq = Some iss /\ reg iss = Found md /\ rt_md rt = md.
Proof. exact validate_sound. Qed.
Print Assumptions C05_validate_sound.

Theorem C05_validate_complete :
  forall cfg reg now rq iss md r,
    now <= rq_issue rq + max_issue_delay cfg -> rq_version rq = "2.0" ->
    (rq_destination rq <> "" -> rq_destination rq = sso_url cfg) ->
    rq_issuer rq = Some iss -> reg iss = Found md -> get_acs_endpoint md rq = Some r ->
    validate cfg reg now rq = Ok (mk_routing md r).
Proof. exact validate_complete. Qed.
Print Assumptions C05_validate_complete.

(* Whenever Validate succeeds, req.SPSSODescriptor / req.ACSEndpoint are elements
   (at the returned positions) of the metadata the registry holds for the
   request's issuer — never a value built from the request. *)
Theorem C05_endpoint_registered :
  forall cfg reg now rq rt,
    validate cfg reg now rq = Ok rt ->
    In (rt_desc rt) (descriptors (rt_md rt)) /\ In (rt_ep rt) (acs (rt_desc rt)) /\
    nth_z (descriptors (rt_md rt)) (rt_di rt) = Some (rt_desc rt) /\
    nth_z (acs (rt_desc rt)) (rt_ei rt) = Some (rt_ep rt) /\
    exists iss, rq_issuer rq = Some iss /\ reg iss = Found (rt_md rt).
Proof. exact validate_endpoint_registered. Qed.
Print Assumptions C05_endpoint_registered.

(* getACSEndpoint returns r exactly when r is: the first endpoint in document
   order whose index, printed in decimal, equals the requested index string; else
   the first whose Location equals the requested URL; else — only when the
   request names neither — the first isDefault=true endpoint with a POST/Redirect
   binding, else the first POST/Redirect endpoint.  ([first_match] gives the
   prefixes of descriptors and endpoints in which nothing matched.) *)
Theorem C05_selection_priority :
  forall md rq r, get_acs_endpoint md rq = Some r <-> acs_stage md rq r.
Proof. exact get_acs_endpoint_spec. Qed.
Print Assumptions C05_selection_priority.

(* a request that names an index and/or URL matching no registered endpoint is refused *)
Theorem C05_request_only_location_refused :
  forall md rq,
    (rq_acs_index rq <> "" \/ rq_acs_url rq <> "") ->
    (rq_acs_index rq = "" \/ desc_none_match (p_index (rq_acs_index rq)) (descriptors md) = true) ->
    (rq_acs_url rq = "" \/ desc_none_match (p_url (rq_acs_url rq)) (descriptors md) = true) ->
    get_acs_endpoint md rq = None.
Proof. exact get_acs_endpoint_no_match. Qed.
Print Assumptions C05_request_only_location_refused.

(* index comparison is equality of decimal strings: strconv.Itoa is injective,
   so "01", "+1", " 1" select nothing and "1" selects only index 1 *)
Theorem C05_index_is_decimal_string :
  forall a b, -10 ^ 20 < a < 10 ^ 20 -> -10 ^ 20 < b < 10 ^ 20 -> itoa a = itoa b -> a = b.
Proof. exact itoa_inj. Qed.
Print Assumptions C05_index_is_decimal_string.

(* a request without <Issuer> is an error (fix F3), and no input makes Validate panic *)
Theorem C05_no_issuer_is_error :
  forall cfg reg now rq, rq_issuer rq = None -> exists c, validate cfg reg now rq = Err c.
Proof. exact validate_no_issuer_is_error. Qed.
Print Assumptions C05_no_issuer_is_error.

Theorem C05_validate_never_panics :
  forall cfg reg now f, validate_framed cfg reg now f <> Panic.
Proof. exact validate_never_panics. Qed.
Print Assumptions C05_validate_never_panics.

(* IdP-initiated launches go to the first HTTP-POST endpoint of the registered metadata *)
Theorem C05_idp_initiated_registered :
  forall md di ei d e,
    idp_initiated_route md = Some (di, ei, d, e) ->
    In d (descriptors md) /\ In e (acs d) /\ ep_binding e = post_binding /\
    first_match p_post (descriptors md) 0 (di, ei, d, e).
Proof. exact idp_initiated_registered. Qed.
Print Assumptions C05_idp_initiated_registered.

(* the correspondence monitor evaluated on the model's own output is always true *)
Theorem C05_monitor_holds_of_model :
  forall cfg regl now f s addr relay rnd,
    c05_spec {| c5_cfg := cfg; c5_reg := regl; c5_now := now; c5_req := f;
                c5_obs := vobs_of (validate_framed cfg (reg_of_list regl) now f);
                c5_http := serve_sso cfg (cp_of_list []) (reg_of_list regl) now f s addr relay rnd |} = true.
Proof. exact c05_spec_of_model. Qed.
Print Assumptions C05_monitor_holds_of_model.

(* A request that names no AssertionConsumerServiceURL is never matched by
   Location — a registered endpoint with an empty Location (the metadata parser
   blanks the Location of endpoints with unknown bindings such as PAOS) is not
   selected because "" = "" — and a request whose only selector is an index no
   registered endpoint carries is refused. *)
Theorem C05_empty_url_never_selects_by_location :
  forall md rq di ei d e,
    rq_acs_url rq = "" -> get_acs_endpoint md rq = Some (di, ei, d, e) ->
    (rq_acs_index rq <> "" /\ itoa (ep_index e) = rq_acs_index rq) \/
    (rq_acs_index rq = "" /\ (ep_binding e = post_binding \/ ep_binding e = redirect_binding)).
Proof. exact empty_url_never_selects_by_location. Qed.
Print Assumptions C05_empty_url_never_selects_by_location.

Theorem C05_unregistered_index_only_refused :
  forall md rq,
    rq_acs_url rq = "" -> rq_acs_index rq <> "" ->
    desc_none_match (p_index (rq_acs_index rq)) (descriptors md) = true ->
    get_acs_endpoint md rq = None.
Proof. exact unregistered_index_only_refused. Qed.
Print Assumptions C05_unregistered_index_only_refused.

(* Registered metadata that reaches the registry through the XML parser: the
   endpoint the IdP routes by is built from Binding, Location, index, isDefault
   only — the optional ResponseLocation attribute never reaches Location — and
   its Location is the document's Location or blank (unknown binding). *)
Theorem C05_parse_ignores_response_location :
  forall b l rl rl' i d,
    parse_endpoint {| re_binding := b; re_location := l; re_response_location := rl; re_index := i; re_default := d |}
    = parse_endpoint {| re_binding := b; re_location := l; re_response_location := rl'; re_index := i; re_default := d |}.
Proof. exact parse_endpoint_ignores_response_location. Qed.
Print Assumptions C05_parse_ignores_response_location.

Theorem C05_parsed_location_is_registered_or_blank :
  forall r, ep_location (parse_endpoint r) = re_location r \/ ep_location (parse_endpoint r) = "".
Proof. exact parse_endpoint_location. Qed.
Print Assumptions C05_parsed_location_is_registered_or_blank.
