(* C15 — durations, instants and metadata round-trip through their XML text forms *)
From Saml Require Import Base DurationModel DurationProofs TimeModel TimeProofs Metadata MetadataProofs.

(* Every Duration marshals to text that unmarshals to the identical duration:
   for every int64 value, including 0 (the nil text) and MinInt64. *)
Theorem duration_roundtrip :
  forall d, in_int64 d -> dur_unmarshal (dur_marshal d) = Ok d.
Proof. exact dur_roundtrip. Qed.
Print Assumptions duration_roundtrip.

Theorem dur_marshal_zero_iff : forall d, dur_marshal d = None <-> d = 0.
Proof. exact dur_marshal_none_iff. Qed.
Print Assumptions dur_marshal_zero_iff.

(* Every instant whose millisecond rounding lies in years 1..9999, at nanosecond
   resolution, marshals to text that unmarshals to the same instant rounded
   (half up) to the millisecond, in UTC. *)
Theorem instant_roundtrip_ms :
  forall t, zero_time <= round_ms t < year10000 ->
            parse_relaxed (format_relaxed t) = Ok (round_ms t).
Proof. exact instant_roundtrip. Qed.
Print Assumptions instant_roundtrip_ms.

(* the calendar conversion used by both directions is exact for every day *)
Theorem calendar_roundtrip :
  forall z, let '(y, m, d) := civil_of_days z in
            days_of_civil y m d = z /\ 1 <= m <= 12 /\ 1 <= d <= days_in_month y m.
Proof. exact civil_roundtrip. Qed.
Print Assumptions calendar_roundtrip.

(* ---- metadata clause: any EntityDescriptor value reaches a fixed point after one
   marshal/unmarshal generation that preserves its entity ID, http(s) endpoints, key
   descriptors, validity instant (to the millisecond) and cache duration.  Metadata.norm is one
   generation on the abstract descriptor: the RelaxedTime text codec on validUntil, the Duration
   text codec on cacheDuration, Endpoint/IndexedEndpoint.UnmarshalXML's location check on every
   endpoint; it is compared on every run with xml.Marshal followed by xml.Unmarshal of generated
   EntityDescriptor values. ---- *)
Theorem metadata_norm_idempotent :
  forall m m',
  zero_time <= round_ms (ed_valid_until m) < year10000 -> in_int64 (ed_cache_duration m) ->
  norm m = Ok m' -> norm m' = Ok m'.
Proof. exact norm_idempotent. Qed.
Print Assumptions metadata_norm_idempotent.

Theorem norm_preserves :
  forall m m',
  zero_time <= round_ms (ed_valid_until m) < year10000 -> in_int64 (ed_cache_duration m) ->
  norm m = Ok m' ->
  ed_entity_id m' = ed_entity_id m /\
  ed_valid_until m' = round_ms (ed_valid_until m) /\
  ed_cache_duration m' = ed_cache_duration m /\
  ed_keys m' = ed_keys m /\
  ed_role_valid_until m' = ed_role_valid_until m /\ ed_role_cache m' = ed_role_cache m /\
  Forall2 ep_related (ed_endpoints m) (ed_endpoints m') /\
  Forall2 (fun a b => standard (binding_of_any (snd a)) = true -> b = a) (ed_endpoints m) (ed_endpoints m').
Proof. exact MetadataProofs.norm_preserves. Qed.
Print Assumptions norm_preserves.

Theorem metadata_norm_defined_iff :
  forall m,
  zero_time <= round_ms (ed_valid_until m) < year10000 -> in_int64 (ed_cache_duration m) ->
  (exists m', norm m = Ok m') <-> (exists eps, norm_endpoints (ed_endpoints m) = Ok eps).
Proof. exact norm_fails_iff. Qed.
Print Assumptions metadata_norm_defined_iff.

(* the monitor evaluated on the implementation's generations (fixed point after
   one generation; entity ID, rounded validity instant, cache duration, key
   descriptors and standard-binding endpoints preserved, others blanked) is
   always satisfied by the model *)
Theorem metadata_norm_meets_monitor :
  forall m,
  zero_time <= round_ms (ed_valid_until m) < year10000 -> in_int64 (ed_cache_duration m) ->
  mgcase_spec {| mg_in := m; mg_gen1 := ed_obs (norm m);
                 mg_gen2 := match norm m with Ok m1 => ed_obs (norm m1) | _ => None end |} = true.
Proof. exact norm_meets_spec. Qed.
Print Assumptions metadata_norm_meets_monitor.
