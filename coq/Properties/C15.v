(* C15 — durations, instants and metadata round-trip through their XML text forms *)
From Saml Require Import Base DurationModel DurationProofs TimeModel TimeProofs.

(* Every Duration marshals to text that unmarshals to the identical duration:
   for every int64 value, including 0 (the nil text) and MinInt64. *)
Theorem duration_roundtrip :
  forall d, in_int64 d -> dur_unmarshal (dur_marshal d) = Ok d.
Proof. exact dur_roundtrip. Qed.
Print Assumptions duration_roundtrip.

Theorem dur_marshal_zero_iff : forall d, dur_marshal d = None <-> d = 0.
Proof. exact dur_marshal_none_iff. Qed.
Print Assumptions dur_marshal_zero_iff.

(* Every instant whose millisecond rounding lies in years 1..9999, at nanosecond
   resolution, marshals to text that unmarshals to the same instant rounded
   (half up) to the millisecond, in UTC. *)
Theorem instant_roundtrip_ms :
  forall t, zero_time <= round_ms t < year10000 ->
            parse_relaxed (format_relaxed t) = Ok (round_ms t).
Proof. exact instant_roundtrip. Qed.
Print Assumptions instant_roundtrip_ms.

(* the calendar conversion used by both directions is exact for every day *)
Theorem calendar_roundtrip :
  forall z, let '(y, m, d) := civil_of_days z in
            days_of_civil y m d = z /\ 1 <= m <= 12 /\ 1 <= d <= days_in_month y m.
Proof. exact civil_roundtrip. Qed.
Print Assumptions calendar_roundtrip.
