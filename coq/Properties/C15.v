(* C15 — durations, instants and metadata round-trip through their XML text forms *)
From Saml Require Import Base DurationModel DurationProofs.

Theorem duration_roundtrip :
  forall d, in_int64 d -> dur_unmarshal (dur_marshal d) = Ok d.
Proof. exact dur_roundtrip. Qed.
Print Assumptions duration_roundtrip.
