(* C14 — peer-controlled strings cannot alter emitted HTML forms or smuggle script URLs.

   Meaning for the Go code: every {{.X}} of the five form templates sits in a
   double-quoted attribute value (or, for the login form's toast, in element
   text) and is passed through html/template's attrEscaper/htmlEscaper, the
   action URL additionally through urlFilter and urlNormalizer (model:
   HtmlEsc.html_replace, url_filter, url_normalize — compared with the real
   html/template byte for byte on every run, as is the complete text of each
   form).  For EVERY byte string, valid UTF-8 or not, the escaped text contains
   no quote, angle bracket or NUL, every '&' in it starts one of the six
   references the escaper writes, and an HTML5 attribute-value decoder recovers
   the input (NUL as U+FFFD); the action is either the peer's URL with no
   scheme / an http, https or mailto scheme, or the constant #ZgotmplZ.
   metadata.go's checkEndpointLocation (model: Metadata.check_endpoint_location,
   including url.Parse's error conditions) accepts a location of a standard
   binding only unchanged and only with scheme http/https, and blanks the
   location of any other binding — for Location and ResponseLocation of both
   endpoint element types. *)
From Saml Require Import IdPModel.
From Saml Require Import Base UrlEnc HtmlEsc HtmlEscProofs Metadata MetadataProofs OutboundIdPForm OutboundIdPFormProofs.

Theorem attr_escape_inert :
  forall s,
  contains_chr 34 (attr_escape s) = false /\ contains_chr 60 (attr_escape s) = false /\
  contains_chr 62 (attr_escape s) = false /\ contains_chr 39 (attr_escape s) = false /\
  contains_chr 0 (attr_escape s) = false /\
  decode_charrefs (attr_escape s) = nul_to_fffd s.
Proof. exact HtmlEscProofs.attr_escape_inert. Qed.
Print Assumptions attr_escape_inert.

Theorem attr_escape_amp_ok : forall s, amp_ok (attr_escape s) = true.
Proof. exact HtmlEscProofs.attr_escape_amp_ok. Qed.
Print Assumptions attr_escape_amp_ok.

(* htmlReplacer's rune loop, invalid UTF-8 included, is a byte-wise substitution *)
Theorem html_replace_bytewise : forall s, html_replace s = bytewise s.
Proof. exact HtmlEscProofs.html_replace_bytewise. Qed.
Print Assumptions html_replace_bytewise.

Theorem url_filter_safe :
  forall s,
  (url_filter s = s \/ url_filter s = FAILSAFE) /\ is_safe_url (url_filter s) = true /\
  (url_filter s = s <-> is_safe_url s = true \/ s = FAILSAFE).
Proof. exact HtmlEscProofs.url_filter_safe. Qed.
Print Assumptions url_filter_safe.

Theorem is_safe_url_iff :
  forall s,
  is_safe_url s = true <->
  contains_chr 58 s = false \/
  contains_chr 47 (fst (cut_chr 58 s)) = true \/
  fold_word (fst (cut_chr 58 s)) = "http" \/ fold_word (fst (cut_chr 58 s)) = "https" \/
  fold_word (fst (cut_chr 58 s)) = "mailto".
Proof. exact HtmlEscProofs.is_safe_url_iff. Qed.
Print Assumptions is_safe_url_iff.

(* the action attribute as written and as a browser decodes it *)
Theorem url_attr_inert :
  forall s,
  contains_chr 34 (url_attr s) = false /\ contains_chr 60 (url_attr s) = false /\
  contains_chr 62 (url_attr s) = false /\ contains_chr 39 (url_attr s) = false /\
  contains_chr 0 (url_attr s) = false /\
  decode_charrefs (url_attr s) = url_normalize (url_filter s) /\
  contains_chr 32 (url_normalize (url_filter s)) = false /\
  contains_chr 34 (url_normalize (url_filter s)) = false.
Proof. exact HtmlEscProofs.url_attr_inert. Qed.
Print Assumptions url_attr_inert.

(* every form, every data: the emitted bytes tokenize (HTML5 rules for tags,
   double-quoted attribute values, character references, script raw text) to
   exactly the intended elements, attribute names and order; the interpolated
   strings occur only as attribute values (the toast as text) *)
Theorem form_structure_fixed : forall k d, tokenize_form (render_form k d) = Some (intended_of k d).
Proof. exact HtmlEscProofs.form_structure_fixed. Qed.
Print Assumptions form_structure_fixed.

Theorem C14_location_http_only :
  forall b loc loc',
  check_endpoint_location b loc = Ok loc' ->
  (standard b = true -> loc' = loc /\ (scheme_of loc = "http" \/ scheme_of loc = "https")) /\
  (standard b = false -> loc' = EmptyString).
Proof. exact check_location_http_only. Qed.
Print Assumptions C14_location_http_only.

Theorem C14_location_prefix :
  forall b loc l,
  check_endpoint_location b loc = Ok l -> standard b = true -> l = loc /\ http_only l = true.
Proof. exact accepted_location_prefix. Qed.
Print Assumptions C14_location_prefix.

Theorem C14_location_iff :
  forall b loc,
  (exists l, check_endpoint_location b loc = Ok l) <->
  standard b = false \/ (exists sc, url_parse loc = Ok sc /\ (sc = "http" \/ sc = "https")).
Proof. exact check_location_iff. Qed.
Print Assumptions C14_location_iff.

Theorem C14_location_total : forall b loc, check_endpoint_location b loc <> Panic.
Proof. exact check_location_never_panics. Qed.
Print Assumptions C14_location_total.

Theorem C14_check_idempotent :
  forall b loc l, check_endpoint_location b loc = Ok l -> check_endpoint_location b l = Ok l.
Proof. exact check_location_idempotent. Qed.
Print Assumptions C14_check_idempotent.

(* Location and ResponseLocation of a plain endpoint *)
Theorem C14_endpoint_http_only :
  forall e e',
  endpoint_check e = Ok e' ->
  ep_binding e' = ep_binding e /\
  (standard (ep_binding e) = true ->
     ep_location e' = ep_location e /\ http_only (ep_location e') = true /\
     ep_response e' = ep_response e /\ (nonempty (ep_response e') = true -> http_only (ep_response e') = true)) /\
  (standard (ep_binding e) = false -> ep_location e' = EmptyString /\ ep_response e' = EmptyString).
Proof. exact endpoint_check_http_only. Qed.
Print Assumptions C14_endpoint_http_only.

Theorem C14_indexed_endpoint_http_only :
  forall e e',
  indexed_endpoint_check e = Ok e' ->
  ie_binding e' = ie_binding e /\ ie_index e' = ie_index e /\ ie_default e' = ie_default e /\
  (standard (ie_binding e) = true ->
     ie_location e' = ie_location e /\ http_only (ie_location e') = true /\
     ie_response e' = ie_response e /\ (forall r, ie_response e' = Some r -> http_only r = true)) /\
  (standard (ie_binding e) = false -> ie_location e' = EmptyString /\ ie_response e' = None).
Proof. exact indexed_endpoint_check_http_only. Qed.
Print Assumptions C14_indexed_endpoint_http_only.

(* the monitors evaluated on the implementation's outputs: sound for the
   statements above, and always satisfied by the model's own outputs *)
Theorem C14_escapers_meet_monitor :
  forall s, escase_spec {| es_s := s; es_attr := attr_escape s; es_url := url_attr s; es_text := html_escape s |} = true.
Proof. exact escapers_meet_spec. Qed.
Print Assumptions C14_escapers_meet_monitor.

Theorem C14_escaper_monitor_sound :
  forall c, escase_spec c = true ->
  contains_chr 34 (es_attr c) = false /\ contains_chr 60 (es_attr c) = false /\ contains_chr 62 (es_attr c) = false /\
  contains_chr 39 (es_attr c) = false /\ contains_chr 0 (es_attr c) = false /\
  decode_charrefs (es_attr c) = nul_to_fffd (es_s c).
Proof. exact escase_spec_sound. Qed.
Print Assumptions C14_escaper_monitor_sound.

Theorem C14_location_meets_monitor :
  forall b loc,
  loccase_spec {| lc_binding := b; lc_loc := loc;
                  lc_ok := is_ok (check_endpoint_location b loc);
                  lc_out := match check_endpoint_location b loc with Ok l => l | _ => EmptyString end |} = true.
Proof. exact check_location_meets_spec. Qed.
Print Assumptions C14_location_meets_monitor.

Theorem C14_location_monitor_sound :
  forall c, loccase_spec c = true -> lc_ok c = true ->
  (standard (lc_binding c) = true -> lc_out c = lc_loc c /\ http_only (lc_loc c) = true) /\
  (standard (lc_binding c) = false -> lc_out c = EmptyString).
Proof. exact loccase_spec_sound. Qed.
Print Assumptions C14_location_monitor_sound.

(* through the real flow (ServeSSO -> Validate/getACSEndpoint -> PostBinding ->
   WriteResponse): whatever AssertionConsumerServiceURL / Index and relay state
   the (unauthenticated) request carries, an emitted response form is the one
   rendered with the location of an endpoint REGISTERED with the HTTP-POST
   binding as its action, with exactly the intended structure *)
Theorem C14_idp_action_registered :
  forall acs url idx msg relay html,
  idp_flow_form acs url idx msg relay = (0, html) ->
  exists loc i d,
    In (IdPModel.post_binding, loc, i, d) acs /\
    let data := {| fd_url := loc; fd_msg := msg; fd_relay := relay; fd_toast := EmptyString |} in
    html = render_form FIdpResponse data /\
    tokenize_form html = Some (intended_of FIdpResponse data).
Proof. exact idp_flow_action_registered. Qed.
Print Assumptions C14_idp_action_registered.

(* IdP-initiated flow (ServeIDPInitiated): for every list of SPSSODescriptors with
   any number of assertion consumer services of any bindings, a form is emitted
   iff there is an HTTP-POST endpoint, and its action is the FIRST one in
   document order, with exactly the intended structure *)
Theorem C14_idp_initiated_first_post :
  forall descs msg relay,
  match first_post_location (List.concat descs) with
  | Some loc =>
      let data := {| fd_url := loc; fd_msg := msg; fd_relay := relay; fd_toast := EmptyString |} in
      idp_initiated_form descs msg relay = (0, render_form FIdpResponse data)
      /\ tokenize_form (render_form FIdpResponse data) = Some (intended_of FIdpResponse data)
  | None => idp_initiated_form descs msg relay = (2, EmptyString)
  end.
Proof. exact idp_initiated_first_post. Qed.
Print Assumptions C14_idp_initiated_first_post.
