(* C13 — signatures on SP outbound messages verify under the SP's published certificate.

   Meaning for the Go code: GetSigningContext (model: Outbound.signing_context)
   produces a context exactly for the four RSA method URIs with an RSA key and
   the four ECDSA method URIs with an ECDSA key, and an error for every other
   (string, key type) pair; with a method configured every constructor
   (MakeAuthenticationRequest for POST, MakeLogoutRequest, MakeLogoutResponse,
   MakeArtifactResolveRequest) returns a message with an enveloped signature or
   an error, never an unsigned message; AuthnRequest.Redirect signs exactly the
   octets SAMLRequest=…[&RelayState=…]&SigAlg=… and they stand in the emitted
   URL immediately before &Signature=, whatever the IdP endpoint's own query.
   The signature arithmetic itself is checked by the harness on every run:
   octets cut from the URL text and the emitted XML are verified with
   crypto/rsa and crypto/ecdsa (own exclusive canonicalisation) under the
   certificate read from the SP's published metadata XML. *)
From Saml Require Import Base UrlEnc UrlEncProofs Outbound OutboundProofs.

Theorem C13_method_key_table :
  forall m kt,
  (exists h, signing_context m kt = Ok h) <->
  (In m rsa_methods /\ kt = KRSA) \/ (In m ecdsa_methods /\ kt = KECDSA).
Proof. exact signing_context_table. Qed.
Print Assumptions C13_method_key_table.

Theorem C13_unknown_method_refused :
  forall m kt, ~ In m (rsa_methods ++ ecdsa_methods) -> signing_context m kt = Err 2.
Proof. exact signing_context_unknown. Qed.
Print Assumptions C13_unknown_method_refused.

Theorem C13_mismatch_refused :
  forall m,
  (In m rsa_methods -> forall kt, kt <> KRSA -> signing_context m kt = Err 1) /\
  (In m ecdsa_methods -> forall kt, kt <> KECDSA -> signing_context m kt = Err 1).
Proof. exact signing_context_mismatch. Qed.
Print Assumptions C13_mismatch_refused.

(* for every signing primitive, endpoint, message, relay state: what is signed
   and where it stands in the emitted URL *)
Theorem C13_signed_octets_exact :
  forall sign dest enc relay method kt url octets,
  nonempty method = true ->
  authn_redirect sign dest enc relay method kt = Ok (url, octets) ->
  octets = saml_octets enc relay method /\
  exists pre, query_of url = pre +++ octets +++ "&Signature=" +++ query_escape (sign octets).
Proof. exact authn_redirect_signed_octets. Qed.
Print Assumptions C13_signed_octets_exact.

Theorem C13_signed_query_shape :
  forall sign rawq enc relay method kt q octets,
  nonempty method = true ->
  authn_query sign rawq enc relay method kt = Ok (q, octets) ->
  octets = saml_octets enc relay method /\
  q = (if nonempty rawq then rawq +++ "&" else "") +++ octets +++ "&Signature=" +++ query_escape (sign octets) /\
  exists h, signing_context method kt = Ok h.
Proof. exact signed_octets_exact. Qed.
Print Assumptions C13_signed_query_shape.

Theorem C13_redirect_refuses_mismatch :
  forall sign dest enc relay method kt,
  nonempty method = true -> (forall h, signing_context method kt <> Ok h) ->
  exists e, authn_redirect sign dest enc relay method kt = Err e.
Proof. exact authn_redirect_refuses. Qed.
Print Assumptions C13_redirect_refuses_mismatch.

Theorem C13_all_kinds_signed :
  forall k b m kt,
  nonempty m = true ->
  match make_message k b m kt with
  | Ok signed => (signed = true /\ exists h, signing_context m kt = Ok h)
                 \/ (signed = false /\ k = AuthnReq /\ b = BRedirect)
  | Err _ => (forall h, signing_context m kt <> Ok h) /\ xml_signed k b m = true
  | Panic => False
  end.
Proof. exact all_kinds_signed. Qed.
Print Assumptions C13_all_kinds_signed.

(* ServiceProvider.Metadata: one X509Certificate element per certificate; with
   a signature method configured there is a signing KeyDescriptor whose first
   certificate is the SP's own (then the intermediates, in order) and
   AuthnRequestsSigned is true; without a method neither *)
Theorem C13_metadata_advertises :
  forall c inters rsa m,
  (nonempty m = true ->
     kd_certs_of "signing" (sp_key_descriptors (Some c) inters rsa m) = Some (c :: inters)
     /\ sp_authn_requests_signed m = true) /\
  (nonempty m = false ->
     kd_certs_of "signing" (sp_key_descriptors (Some c) inters rsa m) = None
     /\ sp_authn_requests_signed m = false) /\
  (forall cs, kd_certs_of "encryption" (sp_key_descriptors (Some c) inters rsa m) = Some cs ->
     rsa = true /\ cs = c :: inters).
Proof. exact metadata_advertises. Qed.
Print Assumptions C13_metadata_advertises.

Theorem C13_metadata_meets_monitor :
  forall c inters rsa m,
  mdcase_spec {| md_cert := Some c; md_inters := inters; md_rsa := rsa; md_method := m;
                 md_kds := sp_key_descriptors (Some c) inters rsa m;
                 md_authn_signed := sp_authn_requests_signed m; md_first_is_sp_cert := true |} = true.
Proof. exact metadata_meets_spec. Qed.
Print Assumptions C13_metadata_meets_monitor.

(* through the entry point that actually emits the request (samlsp.Middleware.
   HandleStartAuthFlow): for every m.Binding and IdP endpoint set, with a method
   configured the AuthnRequest sent is signed (detached on the redirect, enveloped
   on the POST page) or the flow is refused *)
Theorem C13_middleware_signed :
  forall mbinding hr m kt o,
  nonempty m = true -> mw_start mbinding hr m kt = Ok o ->
  (o = MwRedirect true \/ o = MwPost true) /\ exists h, signing_context m kt = Ok h.
Proof. exact mw_start_signed. Qed.
Print Assumptions C13_middleware_signed.

(* an SP built by samlsp.New / DefaultServiceProvider with SignRequest: the
   method chosen fits the key for every RSA and ECDSA key, hence the request
   that leaves through the middleware is signed *)
Theorem C13_samlsp_default_method_fits :
  forall kt, kt <> KOther ->
  nonempty (samlsp_default_method kt true) = true /\
  exists h, signing_context (samlsp_default_method kt true) kt = Ok h.
Proof. exact samlsp_default_method_fits. Qed.
Print Assumptions C13_samlsp_default_method_fits.

Theorem C13_samlsp_default_flow_signed :
  forall mbinding hr kt o,
  kt <> KOther -> mw_start mbinding hr (samlsp_default_method kt true) kt = Ok o ->
  o = MwRedirect true \/ o = MwPost true.
Proof. exact samlsp_default_flow_signed. Qed.
Print Assumptions C13_samlsp_default_flow_signed.
