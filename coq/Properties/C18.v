(* C18 — logout responses are valid only if IdP-signed, fresh and addressed to this SP *)
From Saml Require Import Base TimeModel SPModel SPModelProofs.

(* ValidateLogoutResponseForm / Redirect (after their base64 / inflate decoding) report a
   document valid exactly when: it is acceptable XML with a root element; validateSignature on
   the root succeeds (a Signature that is a direct, unique child, by a configured key, over the
   root's content); the root is a samlp:LogoutResponse; Destination equals the SLO URL;
   IssueInstant + MaxIssueDelay is not before now; an Issuer is present and equals the IdP entity
   ID; the status is Success.  Every other input is an error - never a panic. *)
Theorem C18_valid_iff :
  forall cfg now d, validate_logout cfg now d = Ok tt <-> logout_valid cfg now d = true.
Proof. exact validate_logout_iff. Qed.
Print Assumptions C18_valid_iff.

Theorem C18_every_other_input_errors :
  forall cfg now d, logout_valid cfg now d = false -> exists code, validate_logout cfg now d = Err code.
Proof.
  intros cfg now d H. destruct (validate_logout cfg now d) as [[]|code|] eqn:E.
  - apply validate_logout_iff in E. congruence.
  - eauto.
  - exfalso. exact (validate_logout_not_panic _ _ _ E).
Qed.
Print Assumptions C18_every_other_input_errors.

(* a response reported valid carries a signature by a configured key over its own content *)
Theorem C18_signature_is_on_root :
  forall cfg now r, validate_logout cfg now (DRoot r) = Ok tt -> covered_self cfg r = true.
Proof.
  intros cfg now r H. apply validate_logout_iff in H. unfold logout_valid in H.
  apply andb_prop in H. destruct H as [H _]. apply validate_signature_covered.
  destruct (validate_signature cfg r); simpl in H; congruence.
Qed.
Print Assumptions C18_signature_is_on_root.

(* the fields, spelled out *)
Theorem C18_valid_implies_fields :
  forall cfg now r, validate_logout cfg now (DRoot r) = Ok tt ->
    exists resp, un_response_named "LogoutResponse" r = Ok resp /\
      r_dest resp = slo_url cfg /\ now <= r_issue resp + max_issue_delay cfg /\
      r_issuer resp = Some (idp_entity cfg) /\ r_status resp = STATUS_SUCCESS.
Proof.
  intros cfg now r H. apply validate_logout_iff in H. unfold logout_valid in H.
  apply andb_prop in H. destruct H as [_ H].
  destruct (un_response_named "LogoutResponse" r) as [resp| |]; try discriminate.
  exists resp. split; [reflexivity|].
  apply andb_prop in H. destruct H as [H H4]. apply andb_prop in H. destruct H as [H H3].
  apply andb_prop in H. destruct H as [H1 H2].
  repeat split.
  - apply String.eqb_eq. exact H1.
  - apply Z.leb_le. exact H2.
  - destruct (r_issuer resp) as [i|]; [|discriminate]. apply String.eqb_eq in H3. subst. reflexivity.
  - apply String.eqb_eq. exact H4.
Qed.
Print Assumptions C18_valid_implies_fields.

(* Dolev-Yao reading: if the keys the SP trusts have signed nothing but (canonical equivalents of)
   the elements of H, then a logout response reported valid reads - Destination, Issuer, status,
   IssueInstant - exactly as one of those elements does: nothing an attacker added around, before
   or after the signed content (comments, other signatures, KeyInfo, re-ordered namespace
   declarations) takes part in the decision. *)
Theorem C18_valid_is_signed_content :
  forall cfg H now r, honest_signers cfg H r -> validate_logout cfg now (DRoot r) = Ok tt ->
    exists h resp, In h H /\ un_response_named "LogoutResponse" h = Ok resp /\
                   un_response_named "LogoutResponse" r = Ok resp /\
                   r_dest resp = slo_url cfg /\ r_issuer resp = Some (idp_entity cfg) /\
                   r_status resp = STATUS_SUCCESS /\ now <= r_issue resp + max_issue_delay cfg.
Proof. exact logout_valid_is_signed_content. Qed.
Print Assumptions C18_valid_is_signed_content.
