# per-property configuration of bin/check
TRUSTED_BASE = [
    "Coq 8.16.1 kernel (coqc; coqchk re-check in the thorough tier) and its vm_compute evaluator; no native_compute, no -type-in-type, no -impredicative-set, guard/positivity/universe checks on",
    "no Axiom/Parameter/Conjecture/Admitted/admit and no section-less Variable/Hypothesis in the development (grepped on every run)",
    "no extraction: the model is evaluated inside coqc with vm_compute (no Extract Constant / Extract Inductive directive)",
    "correspondence harness /verif/harness (Go): generators, hex/constructor emitter, projections to observables",
    "all of /repo is modelled, not verified: the tie between model and code is the differential check only",
]

HOOK_COMMITS = []

_WIP = "check not yet built in this session (design: DESIGN.md section 4); will be claimed once its model, theorems and correspondence run"
NOT_APPLICABLE = {("C%02d" % i): _WIP for i in range(1, 21)}

PROPS = {
    "C15": {
        "design_ref": "DESIGN.md §4 C15",
        "level_text": "Theorem duration_roundtrip: for every int64 d, dur_unmarshal (dur_marshal d) = Ok d, proved in Coq about an executable model of duration.go (int64 wrap-around explicit); the model is compared with Duration.MarshalText/UnmarshalText on boundary, random and grammar/mutation inputs on every run, and the round trip is also evaluated on the implementation's own output.",
        "level_note": "Trusted: Coq kernel + vm_compute; the harness; regexp semantics of the two duration expressions represented by a deterministic recogniser (validated by correspondence). encoding/xml's reflection-driven codec is exercised by the harness only.",
        "theorems": ["duration_roundtrip", "dur_unmarshal_nil", "dur_marshal_zero_iff"],
        "correspondence": "DurationModel.dur_marshal ~ saml.Duration.MarshalText ; DurationModel.dur_unmarshal ~ saml.Duration.UnmarshalText",
        "rule": "boundary classes (powers of ten +-1, carries at 60 s / 60 min, extremes, every whole second 0..120), 3-digit fractions x magnitudes, random int64 from 5 distributions; grammar-generated and mutated duration strings. distinct = distinct Gallina case term; non-trivial = not (d = 0) and not (string without 'P')",
        "assumptions": ["regexp leftmost-first semantics of the two duration regular expressions equals the deterministic recogniser (argued in DurationModel.v, exercised by grammar/mutation strings)"],
    },
    "C10": {
        "design_ref": "DESIGN.md §4 C10",
        "theorems": ["C10_pad_roundtrip", "C10_cbc_blocks_roundtrip", "C10_block_roundtrip", "C10_block_encrypt_succeeds", "C10_oaep_roundtrip", "C10_pkcs_roundtrip", "C10_offered_all_registered", "C10_gcm_encrypt_refuted"],
        "correspondence": "Xmlenc.block_encrypt/rsa_encrypt ~ xmlenc.{CBC,GCM,RSA}.Encrypt (emitted CipherValue byte-exact, IV = last RandReader draw) ; Decrypt(Encrypt(p)) = p evaluated on the implementation; interoperation with a std-library reference in both directions",
        "rule": "for each of 5 block algorithms x {direct key, OAEP-mgf1p x 4 digests, xmlenc11 OAEP x 2 digests, PKCS1v15}: plaintext lengths 0..4 blocks+1 (all for direct keys, boundary lengths for transports in quick) + random longer, nil and supplied nonce for GCM; interop cases both directions incl. random pad bytes and absent DigestMethod. distinct = distinct (alg, transport, digest, length, nonce mode); all non-trivial",
        "level_text": "Theorems: padding round-trips for every plaintext and block size; CBC over any invertible block cipher inverts itself (induction over block lists); decrypt(encrypt p) = Ok p for every offered CBC cipher, key, IV and plaintext, directly and under every key transport x registered digest, over abstract primitives with round-trip hypotheses; every emitted algorithm/digest identifier has a registered decrypter. AES-GCM Encrypt is excluded by a visible hypothesis and C10_gcm_encrypt_refuted proves the faithful model fails there (known finding K1). The model is compared with xmlenc byte for byte and the round trip and both interop directions are evaluated on the implementation on every run.",
        "level_note": "Primitives (AES, 3DES, GCM, RSA) are abstract: section hypotheses dec(enc x)=x, unwrap(wrap k)=k, exercised on the real primitives by the harness. Interoperation is decided by the harness against a std-library reference (crypto/aes, crypto/des, crypto/cipher, crypto/rsa, own EME-OAEP with MGF1-SHA1), not by a theorem. Known findings K1 (GCM Encrypt) and K2 (OAEP MGF hash).",
        "assumptions": ["block cipher / AEAD / RSA primitives behave as their round-trip hypotheses state (checked on the real primitives on every run)"],
    },
    "C11": {
        "design_ref": "DESIGN.md §4 C11",
        "theorems": ["C11_decrypt_total", "C11_cbc_guards_exact", "C11_padding_guards_exact", "C11_gcm_guards_exact", "C11_gcm_modification_rejected", "C11_cert_mismatch_rejected", "C11_digest_must_be_registered"],
        "correspondence": "Xmlenc.decrypt ~ xmlenc.Decrypt (result bytes / error / panic), primitive results supplied per case from crypto/cipher and crypto/rsa directly",
        "rule": "cipher-value lengths 0..4 blocks+1 exhaustively per algorithm (zeros and random); crafted CBC ciphertexts with last plaintext byte 0..255 and 1..3 blocks; key sizes 0..33 and 7 Go key types; missing/unknown/empty algorithm and digest identifiers; missing or undecodable cipher data; RSA-wrapped keys x transports x digests x certificate kinds x key values; encrypted keys nested 1..4 deep; GCM single-bit flips. distinct = distinct Gallina case term; trivial = element without EncryptionMethod",
        "level_text": "Theorem C11_decrypt_total: for all primitive behaviours, key values and element trees (by structural induction, any nesting depth) the model of Decrypt never reaches a Panic outcome, where Panic is an explicit result of the slicing/CryptBlocks wrappers whose preconditions the Go runtime enforces; the acceptance conditions are characterised exactly (iff). The model's guards are compared with xmlenc.Decrypt on exhaustive length and padding lattices on every run, and 'no panic' is evaluated on the implementation's own outcome.",
        "level_note": "Panics inside dependencies (etree, encoding/base64, crypto/*) are outside the model and observed by the harness only. Primitives abstract.",
        "assumptions": ["etree FindElement path semantics are represented by the abstract element fields (method, digest, certificate, cipher value, first nested EncryptedKey); exercised with prefixed and default-namespace renderings"],
    },
}
