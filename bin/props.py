# per-property configuration of bin/check: one JSON file per claimed property in /verif/props/
import json, os, glob

VERIF = os.path.dirname(os.path.dirname(os.path.abspath(__file__)))

TRUSTED_BASE = [
    "Coq 8.16.1 kernel (coqc; coqchk re-check in the thorough tier) and its vm_compute evaluator; no native_compute, no -type-in-type, no -impredicative-set, guard/positivity/universe checks on",
    "no Axiom/Parameter/Conjecture/Admitted/admit and no section-less Variable/Hypothesis in the development (grepped on every run)",
    "no extraction: the model is evaluated inside coqc with vm_compute (no Extract Constant / Extract Inductive directive)",
    "correspondence harness /verif/harness (Go): generators, hex/constructor emitter, projections to observables",
    "all of /repo is modelled, not verified: the tie between model and code is the differential check only",
]

# commits in /repo that add build-tag guarded hooks (none: every check goes through exported API)
HOOK_COMMITS = []

PROPS = {}
for _f in sorted(glob.glob(os.path.join(VERIF, "props", "C*.json"))):
    PROPS[os.path.basename(_f)[:-5]] = json.load(open(_f, encoding="utf-8"))

# properties whose checks have been integrated and are claimed in MANIFEST.json
CLAIMED = [l.strip() for l in open(os.path.join(VERIF, "props", "CLAIMED")) if l.strip() and not l.startswith("#")]

# reasons for properties that are not claimed (kept current by hand; empty when all are claimed)
_WIP = "check not yet built (design: DESIGN.md section 4); will be claimed once its model, theorems and correspondence run"
NOT_APPLICABLE = {("C%02d" % i): _WIP for i in range(1, 21)}


def write_coqproject():
    """_CoqProject lists every .v under theories/ and Properties/ (dependency order comes from coqdep)"""
    coq = os.path.join(VERIF, "coq")
    lines = ["-Q theories Saml", "-Q Properties SamlProps"]
    lines += sorted("theories/" + os.path.basename(p) for p in glob.glob(os.path.join(coq, "theories", "*.v")))
    lines += sorted("Properties/" + os.path.basename(p) for p in glob.glob(os.path.join(coq, "Properties", "*.v")))
    txt = "\n".join(lines) + "\n"
    p = os.path.join(coq, "_CoqProject")
    if not os.path.exists(p) or open(p).read() != txt:
        open(p, "w").write(txt)
        return True
    return False


if __name__ == "__main__":
    write_coqproject()
