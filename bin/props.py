# per-property configuration of bin/check
TRUSTED_BASE = [
    "Coq 8.16.1 kernel (coqc; coqchk re-check in the thorough tier) and its vm_compute evaluator; no native_compute, no -type-in-type, no -impredicative-set, guard/positivity/universe checks on",
    "no Axiom/Parameter/Conjecture/Admitted/admit and no section-less Variable/Hypothesis in the development (grepped on every run)",
    "no extraction: the model is evaluated inside coqc with vm_compute (no Extract Constant / Extract Inductive directive)",
    "correspondence harness /verif/harness (Go): generators, hex/constructor emitter, projections to observables",
    "all of /repo is modelled, not verified: the tie between model and code is the differential check only",
]

HOOK_COMMITS = []

_WIP = "check not yet built in this session (design: DESIGN.md section 4); will be claimed once its model, theorems and correspondence run"
NOT_APPLICABLE = {("C%02d" % i): _WIP for i in range(1, 21)}

PROPS = {
    "C15": {
        "design_ref": "DESIGN.md §4 C15",
        "level_text": "Theorem duration_roundtrip: for every int64 d, dur_unmarshal (dur_marshal d) = Ok d, proved in Coq about an executable model of duration.go (int64 wrap-around explicit); the model is compared with Duration.MarshalText/UnmarshalText on boundary, random and grammar/mutation inputs on every run, and the round trip is also evaluated on the implementation's own output.",
        "level_note": "Trusted: Coq kernel + vm_compute; the harness; regexp semantics of the two duration expressions represented by a deterministic recogniser (validated by correspondence). encoding/xml's reflection-driven codec is exercised by the harness only.",
        "theorems": ["duration_roundtrip", "dur_unmarshal_nil", "dur_marshal_zero_iff"],
        "correspondence": "DurationModel.dur_marshal ~ saml.Duration.MarshalText ; DurationModel.dur_unmarshal ~ saml.Duration.UnmarshalText",
        "rule": "boundary classes (powers of ten +-1, carries at 60 s / 60 min, extremes, every whole second 0..120), 3-digit fractions x magnitudes, random int64 from 5 distributions; grammar-generated and mutated duration strings. distinct = distinct Gallina case term; non-trivial = not (d = 0) and not (string without 'P')",
        "assumptions": ["regexp leftmost-first semantics of the two duration regular expressions equals the deterministic recogniser (argued in DurationModel.v, exercised by grammar/mutation strings)"],
    },
}
