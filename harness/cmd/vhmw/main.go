// vhmw — correspondence harness for the samlsp token codecs and middleware (C16, C17).
package main

import . "verifharness/internal/core"

func main() { Main() }
