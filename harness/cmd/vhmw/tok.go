package main

// Symbolic view of a JWT as the Coq model (Tokens.v) sees it, with a
// serializer (fields -> bytes, signed in various ways) and a strict parser
// (bytes -> fields) that the harness uses on tokens minted by the real codecs.

import (
	"crypto"
	"crypto/ecdsa"
	"crypto/elliptic"
	"crypto/hmac"
	"crypto/rand"
	"crypto/rsa"
	"crypto/sha256"
	"crypto/sha512"
	"crypto/x509"
	"encoding/base64"
	"encoding/json"
	"encoding/pem"
	"fmt"
	"math/big"
	"sort"
	"strings"

	"github.com/golang-jwt/jwt/v4"

	"verifharness/internal/emit"
	"verifharness/internal/fix"
)

// Names of the PRIVATE claims of the two token kinds.  No property talks about
// them, so they are not assumed: discoverLayout learns them from probe tokens
// minted by the real codecs (the registered claims aud/exp/iat/iss/nbf/sub/jti
// are fixed by RFC 7519).
var (
	claimID   = "id"
	claimURI  = "uri"
	claimAttr = "attr"
	claimSM   = "saml-session"
	claimRM   = "saml-authn-request"
)

func probeClaims(token string) map[string]any {
	parts := strings.Split(token, ".")
	if len(parts) != 3 {
		return nil
	}
	b, err := base64.RawURLEncoding.DecodeString(parts[1])
	if err != nil {
		return nil
	}
	var m map[string]any
	if json.Unmarshal(b, &m) != nil {
		return nil
	}
	return m
}

// discoverLayout mints one session and one tracking token with recognisable
// values and records which claim carries what.
func discoverLayout(mintSession func(attrName, attrValue string) string, mintTracking func(id, uri string) string) {
	registered := map[string]bool{"aud": true, "exp": true, "iat": true, "iss": true, "nbf": true, "sub": true, "jti": true}
	const pid, puri, pan, pav = "probe-request-id-7f3a", "/probe/uri?7f3a", "probe-attribute-7f3a", "probe-value-7f3a"
	if m := probeClaims(mintTracking(pid, puri)); m != nil {
		for k, v := range m {
			if registered[k] {
				continue
			}
			switch x := v.(type) {
			case string:
				if x == pid {
					claimID = k
				} else if x == puri {
					claimURI = k
				}
			case bool:
				if x {
					claimRM = k
				}
			}
		}
	}
	if m := probeClaims(mintSession(pan, pav)); m != nil {
		for k, v := range m {
			if registered[k] {
				continue
			}
			switch x := v.(type) {
			case bool:
				if x {
					claimSM = k
				}
			case map[string]any:
				if _, ok := x[pan]; ok {
					claimAttr = k
				}
			}
		}
	}
}

type kv struct {
	K string
	V []string
}

type tok struct {
	Alg     string
	Key     string // Coq term naming the signer
	Intact  bool
	AudKind int // 0 absent, 1 string, 2 array
	Aud     []string
	Iss     string
	Sub     string
	Iat     *int64
	Nbf     *int64
	Exp     *int64
	SM      bool
	RM      bool
	Attrs   []kv
	ID      string
	URI     string
	// serialization options without a counterpart in the model
	smFalse bool // write the session marker as false instead of omitting it
	rmFalse bool
	hasID   bool                       // write id/uri even when empty
	hasAttr bool                       // write attr even when empty
	extra   map[string]json.RawMessage // claims the harness does not know, kept verbatim
}

func (t *tok) clone() *tok {
	c := *t
	c.Aud = append([]string(nil), t.Aud...)
	c.Attrs = append([]kv(nil), t.Attrs...)
	cp := func(p *int64) *int64 {
		if p == nil {
			return nil
		}
		v := *p
		return &v
	}
	c.Iat, c.Nbf, c.Exp = cp(t.Iat), cp(t.Nbf), cp(t.Exp)
	return &c
}

var algTerm = map[string]string{"none": "Anone", "HS256": "HS256", "HS384": "HS384", "HS512": "HS512", "RS256": "RS256", "RS384": "RS384",
	"RS512": "RS512", "PS256": "PS256", "PS384": "PS384", "PS512": "PS512", "ES256": "ES256", "ES384": "ES384", "ES512": "ES512", "EdDSA": "EdDSA"}

func algT(a string) string {
	if t, ok := algTerm[a]; ok {
		return t
	}
	return "Aother"
}

func amapTerm(m []kv) string {
	items := make([]string, len(m))
	for i, e := range m {
		items[i] = "(" + emit.Str(e.K) + ", " + emit.StrList(e.V) + ")"
	}
	return emit.List(items)
}

func (t *tok) term() string {
	aud := "AudAbsent"
	switch t.AudKind {
	case 1:
		aud = "(AudOne " + emit.Str(t.Aud[0]) + ")"
	case 2:
		aud = "(AudMany " + emit.StrList(t.Aud) + ")"
	}
	return fmt.Sprintf("{| tk_alg := %s; tk_key := %s; tk_intact := %s; tk_aud := %s; tk_iss := %s; tk_sub := %s; tk_iat := %s; tk_nbf := %s; tk_exp := %s; tk_session_marker := %s; tk_request_marker := %s; tk_attrs := %s; tk_req_id := %s; tk_uri := %s |}",
		algT(t.Alg), t.Key, emit.Bool(t.Intact), aud, emit.Str(t.Iss), emit.Str(t.Sub), emit.OptZ(t.Iat), emit.OptZ(t.Nbf), emit.OptZ(t.Exp),
		emit.Bool(t.SM), emit.Bool(t.RM), amapTerm(t.Attrs), emit.Str(t.ID), emit.Str(t.URI))
}

func wireTerm(t *tok) string {
	if t == nil {
		return "WGarbage"
	}
	return "(WToken " + t.term() + ")"
}

func (t *tok) summary() map[string]any {
	if t == nil {
		return map[string]any{"garbage": true}
	}
	m := map[string]any{"alg": t.Alg, "signer": t.Key, "intact": t.Intact, "aud": t.Aud, "audkind": t.AudKind, "iss": t.Iss, "sub": t.Sub,
		"session_marker": t.SM, "request_marker": t.RM, "request_id": t.ID, "uri": t.URI}
	if t.Iat != nil {
		m["iat"] = *t.Iat
	}
	if t.Nbf != nil {
		m["nbf"] = *t.Nbf
	}
	if t.Exp != nil {
		m["exp"] = *t.Exp
	}
	if len(t.Attrs) > 0 {
		m["attributes"] = t.Attrs
	}
	return m
}

func jstr(s string) string {
	b, _ := json.Marshal(s)
	return string(b)
}

// claimsJSON writes the claim set the way the fields say.
func (t *tok) claimsJSON() []byte {
	var parts []string
	add := func(k, v string) { parts = append(parts, jstr(k)+":"+v) }
	switch t.AudKind {
	case 1:
		add("aud", jstr(t.Aud[0]))
	case 2:
		b, _ := json.Marshal(t.Aud)
		if t.Aud == nil {
			b = []byte("[]")
		}
		add("aud", string(b))
	}
	if t.Exp != nil {
		add("exp", fmt.Sprint(*t.Exp))
	}
	if t.Iat != nil {
		add("iat", fmt.Sprint(*t.Iat))
	}
	if t.Iss != "" {
		add("iss", jstr(t.Iss))
	}
	if t.Nbf != nil {
		add("nbf", fmt.Sprint(*t.Nbf))
	}
	if t.Sub != "" {
		add("sub", jstr(t.Sub))
	}
	if len(t.Attrs) > 0 || t.hasAttr {
		var ap []string
		for _, e := range t.Attrs {
			b, _ := json.Marshal(e.V)
			if e.V == nil {
				b = []byte("[]")
			}
			ap = append(ap, jstr(e.K)+":"+string(b))
		}
		add(claimAttr, "{"+strings.Join(ap, ",")+"}")
	}
	if t.ID != "" || t.hasID {
		add(claimID, jstr(t.ID))
	}
	if t.URI != "" || t.hasID {
		add(claimURI, jstr(t.URI))
	}
	if t.SM {
		add(claimSM, "true")
	} else if t.smFalse {
		add(claimSM, "false")
	}
	if t.RM {
		add(claimRM, "true")
	} else if t.rmFalse {
		add(claimRM, "false")
	}
	ek := make([]string, 0, len(t.extra))
	for k := range t.extra {
		ek = append(ek, k)
	}
	sort.Strings(ek)
	for _, k := range ek {
		add(k, string(t.extra[k]))
	}
	return []byte("{" + strings.Join(parts, ",") + "}")
}

func b64(b []byte) string { return base64.RawURLEncoding.EncodeToString(b) }

func headerJSON(alg string) []byte {
	if alg == "" {
		return []byte(`{"typ":"JWT"}`)
	}
	return []byte(`{"alg":` + jstr(alg) + `,"typ":"JWT"}`)
}

// ---- keys ----
type hkey struct {
	name   string
	signer crypto.Signer
	term   string
}

var keyCache = map[string]*hkey{}

func getKey(name string) *hkey {
	if k, ok := keyCache[name]; ok {
		return k
	}
	k := &hkey{name: name}
	switch name {
	case "rsa_a":
		k.signer, k.term = fix.RSAKey("rsa_a"), "(KPriv KRsa 1)"
	case "rsa_b":
		k.signer, k.term = fix.RSAKey("rsa_b"), "(KPriv KRsa 2)"
	case "rsa_c":
		k.signer, k.term = fix.RSAKey("rsa_c"), "(KPriv KRsa 3)"
	case "ec_256":
		k.signer, k.term = fix.ECKey("ec_256"), "(KPriv KEc 10)"
	case "ec_384":
		k.signer, k.term = fix.ECKey("ec_384"), "(KPriv KEc 11)"
	case "ec_256b": // a second P-256 key, generated per run (only its identity matters)
		ek, err := ecdsa.GenerateKey(elliptic.P256(), rand.Reader)
		if err != nil {
			panic(err)
		}
		k.signer, k.term = ek, "(KPriv KEc 12)"
	default:
		panic("unknown key " + name)
	}
	keyCache[name] = k
	return k
}

// public key material an attacker could try as an HMAC secret
func pubMaterial(k *hkey, form string) []byte {
	der, _ := x509.MarshalPKIXPublicKey(k.signer.Public())
	switch form {
	case "der":
		return der
	case "pem":
		return pem.EncodeToMemory(&pem.Block{Type: "PUBLIC KEY", Bytes: der})
	default: // modulus / point
		switch p := k.signer.Public().(type) {
		case *rsa.PublicKey:
			return p.N.Bytes()
		case *ecdsa.PublicKey:
			return append(p.X.Bytes(), p.Y.Bytes()...)
		}
	}
	return der
}

// signing ways
func signMethod(alg string, signingString string, k *hkey) (string, error) {
	m := jwt.GetSigningMethod(alg)
	if m == nil {
		return "", fmt.Errorf("no method %s", alg)
	}
	return m.Sign(signingString, k.signer)
}

// ECDSA signature under a hash/size the library would refuse for this curve
// (ES384/ES512 labelled token signed by a P-256 key): r||s padded to the size
// the verifier of that method expects.
func signRawEC(alg string, signingString string, k *hkey) (string, error) {
	ek, ok := k.signer.(*ecdsa.PrivateKey)
	if !ok {
		return "", fmt.Errorf("not an EC key")
	}
	var digest []byte
	size := 32
	switch alg {
	case "ES256":
		h := sha256.Sum256([]byte(signingString))
		digest = h[:]
	case "ES384":
		h := sha512.Sum384([]byte(signingString))
		digest, size = h[:], 48
	case "ES512":
		h := sha512.Sum512([]byte(signingString))
		digest, size = h[:], 66
	default:
		return "", fmt.Errorf("bad alg")
	}
	r, s, err := ecdsa.Sign(rand.Reader, ek, digest)
	if err != nil {
		return "", err
	}
	out := make([]byte, 2*size)
	if len(r.Bytes()) > size || len(s.Bytes()) > size {
		return "", fmt.Errorf("signature does not fit")
	}
	r.FillBytes(out[:size])
	s.FillBytes(out[size:])
	_ = big.NewInt
	return b64(out), nil
}

func signHMAC(alg string, signingString string, secret []byte) string {
	h := hmac.New(sha256.New, secret)
	switch alg {
	case "HS384":
		h = hmac.New(sha512.New384, secret)
	case "HS512":
		h = hmac.New(sha512.New, secret)
	}
	h.Write([]byte(signingString))
	return b64(h.Sum(nil))
}

// build serializes t and signs it as its fields say: t.Key must name a key of
// the harness (or KHmac/KNoKey); returns "" if that combination cannot be produced.
func (t *tok) build(signer *hkey, hmacSecret []byte) string {
	ss := b64(headerJSON(t.Alg)) + "." + b64(t.claimsJSON())
	switch {
	case t.Alg == "none":
		return ss + "."
	case strings.HasPrefix(t.Alg, "HS"):
		return ss + "." + signHMAC(t.Alg, ss, hmacSecret)
	case strings.HasPrefix(t.Alg, "ES"):
		if sig, err := signMethod(t.Alg, ss, signer); err == nil {
			return ss + "." + sig
		}
		if sig, err := signRawEC(t.Alg, ss, signer); err == nil {
			return ss + "." + sig
		}
		return ""
	default:
		sig, err := signMethod(t.Alg, ss, signer)
		if err != nil {
			return ""
		}
		return ss + "." + sig
	}
}

// withSig serializes t but keeps a given signature segment (claims/header edited, not re-signed).
func (t *tok) withSig(sig string) string {
	return b64(headerJSON(t.Alg)) + "." + b64(t.claimsJSON()) + "." + sig
}

// ---- strict parser ----
// parseTok returns (tok, mapped): tok == nil && mapped means garbage for both
// claim structs; !mapped means the harness cannot map the bytes 1:1 (skip).
func parseTok(s string, key string, intact bool) (*tok, bool) {
	parts := strings.Split(s, ".")
	if len(parts) != 3 {
		return nil, true
	}
	hb, err := base64.RawURLEncoding.DecodeString(parts[0])
	if err != nil {
		return nil, true
	}
	var hdr map[string]any
	if json.Unmarshal(hb, &hdr) != nil {
		return nil, true
	}
	cb, err := base64.RawURLEncoding.DecodeString(parts[1])
	if err != nil {
		return nil, true
	}
	var raw map[string]json.RawMessage
	if json.Unmarshal(cb, &raw) != nil {
		return nil, true
	}
	t := &tok{Key: key, Intact: intact}
	if a, ok := hdr["alg"].(string); ok {
		t.Alg = a
		if _, known := algTerm[a]; !known {
			t.Alg = "?" + a
		}
	} else {
		t.Alg = "?"
	}
	str := func(k string, dst *string) bool {
		r, ok := raw[k]
		if !ok {
			return true
		}
		var v any
		if json.Unmarshal(r, &v) != nil {
			return false
		}
		sv, ok := v.(string)
		if !ok {
			return false
		}
		*dst = sv
		return true
	}
	num := func(k string, dst **int64) (ok, mapped bool) {
		r, has := raw[k]
		if !has {
			return true, true
		}
		var n json.Number
		if json.Unmarshal(r, &n) != nil || strings.TrimSpace(string(r)) == "null" || strings.HasPrefix(strings.TrimSpace(string(r)), `"`) {
			return false, true
		}
		i, err := n.Int64()
		if err != nil {
			return false, false // fractional / exponent: the two claim structs differ, not mapped
		}
		*dst = &i
		return true, true
	}
	boolean := func(k string, dst *bool, explicit *bool) bool {
		r, ok := raw[k]
		if !ok {
			return true
		}
		var v any
		if json.Unmarshal(r, &v) != nil {
			return false
		}
		bv, ok := v.(bool)
		if !ok {
			return false
		}
		*dst = bv
		*explicit = !bv
		return true
	}
	known := map[string]bool{"aud": true, "exp": true, "iat": true, "iss": true, "nbf": true, "sub": true, claimAttr: true, claimID: true, claimURI: true,
		claimSM: true, claimRM: true, "jti": true}
	knownFold := map[string]bool{}
	for k := range known {
		knownFold[strings.ToLower(k)] = true
	}
	lower := map[string]bool{}
	for k, v := range raw {
		if !known[k] {
			if knownFold[strings.ToLower(k)] {
				return nil, false // encoding/json matches field names case-insensitively: not mapped
			}
			// unknown claims are ignored by both structs; they are carried along when the token is re-serialised
			if t.extra == nil {
				t.extra = map[string]json.RawMessage{}
			}
			t.extra[k] = v
			continue
		}
		if lower[strings.ToLower(k)] {
			return nil, false
		}
		lower[strings.ToLower(k)] = true
	}
	if r, ok := raw["aud"]; ok {
		var v any
		if json.Unmarshal(r, &v) != nil {
			return nil, true
		}
		switch a := v.(type) {
		case string:
			t.AudKind, t.Aud = 1, []string{a}
		case []any:
			t.AudKind = 2
			for _, e := range a {
				es, ok := e.(string)
				if !ok {
					return nil, true
				}
				t.Aud = append(t.Aud, es)
			}
		default:
			return nil, true
		}
	}
	if !str("iss", &t.Iss) || !str("sub", &t.Sub) || !str(claimID, &t.ID) || !str(claimURI, &t.URI) {
		return nil, true
	}
	for _, f := range []struct {
		k string
		d **int64
	}{{"exp", &t.Exp}, {"iat", &t.Iat}, {"nbf", &t.Nbf}} {
		ok, mapped := num(f.k, f.d)
		if !mapped {
			return nil, false
		}
		if !ok {
			return nil, true
		}
	}
	if !boolean(claimSM, &t.SM, &t.smFalse) || !boolean(claimRM, &t.RM, &t.rmFalse) {
		return nil, true
	}
	_, t.hasID = raw[claimID]
	if r, ok := raw[claimAttr]; ok {
		t.hasAttr = true
		var m map[string][]string
		if json.Unmarshal(r, &m) != nil || strings.TrimSpace(string(r)) == "null" {
			return nil, true
		}
		keys := make([]string, 0, len(m))
		for k := range m {
			keys = append(keys, k)
		}
		sort.Strings(keys)
		for _, k := range keys {
			t.Attrs = append(t.Attrs, kv{k, m[k]})
		}
	}
	return t, true
}
