package main

// C16 — only session tokens minted by this SP, unexpired, authenticate a request.
// Real codecs (samlsp.New) mint session and tracking tokens; structure-aware
// mutations mapped 1:1 to the model's token fields are presented to the real
// Middleware.RequireAccount / RequireAttribute (httptest) and to the codecs'
// Decode; the model (Tokens.v) decides the same inputs inside coqc.

import (
	. "verifharness/internal/core"

	"encoding/json"
	"errors"
	"fmt"
	"net/http"
	"net/http/httptest"
	"net/url"
	"os"
	"sort"
	"strings"
	"time"

	"github.com/crewjam/saml"
	"github.com/crewjam/saml/samlsp"
	"github.com/golang-jwt/jwt/v4"

	"verifharness/internal/emit"
	"verifharness/internal/fix"
)

func init() { Props["C16"] = runC16 }

const nsPerS = int64(1000000000)

type deploy struct {
	name       string
	url        string
	key        *hkey
	cookieName string
	maxAge     *time.Duration // override of both codecs' MaxAge (nil: defaults)
	mw         *samlsp.Middleware
	sc         samlsp.JWTSessionCodec
	tc         samlsp.JWTTrackedRequestCodec
}

func certFor(k *hkey) string { return k.name }

func idpMetadataFor() *saml.EntityDescriptor {
	idp := saml.IdentityProvider{
		Key:         fix.RSAKey("rsa_c"),
		Certificate: fix.Cert("rsa_c"),
		MetadataURL: *mustURL("https://idp.example.com/metadata"),
		SSOURL:      *mustURL("https://idp.example.com/sso"),
	}
	return idp.Metadata()
}

func mustURL(s string) *url.URL {
	u, err := url.Parse(s)
	if err != nil {
		panic(err)
	}
	return u
}

func newDeploy(name, u, keyName, cookie string, maxAge *time.Duration) *deploy {
	d := &deploy{name: name, url: u, key: getKey(keyName), cookieName: cookie, maxAge: maxAge}
	opts := samlsp.Options{
		URL:         *mustURL(u),
		Key:         d.key.signer,
		Certificate: fix.Cert(certFor(d.key)),
		IDPMetadata: idpMetadataFor(),
		CookieName:  cookie,
	}
	m, err := samlsp.New(opts)
	if err != nil {
		panic(err)
	}
	d.mw = m
	sp := m.Session.(samlsp.CookieSessionProvider)
	d.sc = sp.Codec.(samlsp.JWTSessionCodec)
	rt := m.RequestTracker.(samlsp.CookieRequestTracker)
	d.tc = rt.Codec.(samlsp.JWTTrackedRequestCodec)
	if maxAge != nil {
		// the documented way to customise: replace the providers of the returned Middleware
		d.sc.MaxAge = *maxAge
		sp.Codec = d.sc
		sp.MaxAge = *maxAge
		m.Session = sp
		d.tc.MaxAge = *maxAge
		rt.Codec = d.tc
		rt.MaxAge = *maxAge
		m.RequestTracker = rt
	}
	return d
}

func (d *deploy) optsTerm() string {
	return fmt.Sprintf("{| o_url := %s; o_key := %s; o_cookie_name := %s |}", emit.Str(d.url), d.key.term, emit.Str(d.cookieName))
}
func (d *deploy) maxAgeTerm() string {
	if d.maxAge == nil {
		return "None"
	}
	return "(Some " + emit.Z(int64(*d.maxAge)) + ")"
}
func (d *deploy) sessionCodecTerm() string {
	return fmt.Sprintf("(with_max_age (session_codec_of %s) %s)", d.optsTerm(), d.maxAgeTerm())
}
func (d *deploy) trackingCodecTerm(mid int64) string {
	return fmt.Sprintf("(with_max_age (tracking_codec_of %s %s) %s)", emit.Z(mid), d.optsTerm(), d.maxAgeTerm())
}
func (d *deploy) sessionCookie() string {
	return d.mw.Session.(samlsp.CookieSessionProvider).Name
}

func liveCodecTerm(alg jwt.SigningMethod, key *hkey, aud, iss string, maxAge time.Duration) string {
	a := "Aother"
	if alg != nil {
		a = algT(alg.Alg())
	}
	return fmt.Sprintf("{| c_alg := %s; c_key := %s; c_aud := %s; c_iss := %s; c_max_age := %s |}", a, key.term, emit.Str(aud), emit.Str(iss), emit.Z(int64(maxAge)))
}

// ---- assertions ----
type attrG struct {
	Friendly, Name string
	Values         []string
}
type assertG struct {
	SubjectKind int // 0 none, 1 subject without NameID, 2 NameID
	NameID      string
	Statements  [][]attrG
	Authn       []string
}

func (a *assertG) build() *saml.Assertion {
	as := &saml.Assertion{}
	switch a.SubjectKind {
	case 1:
		as.Subject = &saml.Subject{}
	case 2:
		as.Subject = &saml.Subject{NameID: &saml.NameID{Value: a.NameID}}
	}
	for _, st := range a.Statements {
		s := saml.AttributeStatement{}
		for _, at := range st {
			x := saml.Attribute{FriendlyName: at.Friendly, Name: at.Name}
			for _, v := range at.Values {
				x.Values = append(x.Values, saml.AttributeValue{Type: "xs:string", Value: v})
			}
			s.Attributes = append(s.Attributes, x)
		}
		as.AttributeStatements = append(as.AttributeStatements, s)
	}
	for _, si := range a.Authn {
		as.AuthnStatements = append(as.AuthnStatements, saml.AuthnStatement{SessionIndex: si})
	}
	return as
}

func (a *assertG) term() string {
	sub := "None"
	switch a.SubjectKind {
	case 1:
		sub = "(Some None)"
	case 2:
		sub = "(Some (Some " + emit.Str(a.NameID) + "))"
	}
	var sts []string
	for _, st := range a.Statements {
		var ats []string
		for _, at := range st {
			ats = append(ats, fmt.Sprintf("{| at_friendly := %s; at_name := %s; at_values := %s |}", emit.Str(at.Friendly), emit.Str(at.Name), emit.StrList(at.Values)))
		}
		sts = append(sts, emit.List(ats))
	}
	return fmt.Sprintf("{| as_subject := %s; as_attr_statements := %s; as_authn_statements := %s |}", sub, emit.List(sts), emit.StrList(a.Authn))
}

func fixedAssertions() []*assertG {
	return []*assertG{
		{SubjectKind: 2, NameID: "alice", Statements: [][]attrG{{{"uid", "urn:oid:0.9.2342.19200300.100.1.1", []string{"alice"}}, {"eduPersonAffiliation", "urn:oid:1.3.6.1.4.1.5923.1.1.1.1", []string{"Users", "Administrators"}}}}, Authn: []string{"idx-1"}},
		// no friendly names
		{SubjectKind: 2, NameID: "bob@example.com", Statements: [][]attrG{{{"", "mail", []string{"bob@example.com"}}, {"", "groups", []string{"staff"}}}}, Authn: []string{"s2"}},
		// repeated attribute in one statement, across statements, and Name equal to another's FriendlyName
		{SubjectKind: 2, NameID: "carol", Statements: [][]attrG{
			{{"isMemberOf", "urn:oid:1.3.6.1.4.1.5923.1.5.1.1", []string{"admins", "staff"}}, {"isMemberOf", "urn:oid:x", []string{"auditors"}}},
			{{"", "isMemberOf", []string{"users"}}, {"role", "r", []string{"admin"}}},
		}, Authn: []string{"i1", "i2"}},
		// absent subject, subject without NameID
		{SubjectKind: 0, Statements: [][]attrG{{{"role", "r", []string{"guest"}}}}, Authn: []string{"n"}},
		{SubjectKind: 1, Statements: [][]attrG{{{"role", "r", []string{"guest"}}}}},
		// empty NameID, attribute without values, without any name, empty value, SessionIndex collision
		{SubjectKind: 2, NameID: "", Statements: [][]attrG{{{"empty", "e", nil}, {"", "", []string{"noname"}}, {"blank", "b", []string{""}}, {"SessionIndex", "si", []string{"forged-index"}}}}, Authn: []string{"real-index", ""}},
		// no statements at all
		{SubjectKind: 2, NameID: "dave"},
		// special characters
		{SubjectKind: 2, NameID: "é<ve>&\"quote\"  ", Statements: [][]attrG{{{"grüppe", "g", []string{"<admin>", "a&b", "\"q\"", "日本語", "tab\there"}}, {"role", "r", []string{"admin", "Admin", "admin ", "adm"}}}}, Authn: []string{"ix"}},
		// three statements, interleaved repetition
		{SubjectKind: 2, NameID: "frank", Statements: [][]attrG{{{"a", "1", []string{"x"}}, {"b", "2", []string{"y"}}}, {{"a", "3", []string{"z"}}}, {{"b", "4", []string{"w"}}, {"a", "5", []string{"x"}}}}, Authn: []string{"q"}},
	}
}

func randWord(c *Ctx) string {
	words := []string{"admin", "staff", "users", "auditors", "Admin", "root", "a", "", "grp-1", "ünï", "x y", "role", "uid", "mail", "SessionIndex", "isMemberOf", "eduPersonAffiliation"}
	return words[c.Rng.Intn(len(words))]
}

func randAssertion(c *Ctx) *assertG {
	a := &assertG{SubjectKind: []int{2, 2, 2, 0, 1}[c.Rng.Intn(5)], NameID: []string{"alice", "bob", "", "mallory", "zoë"}[c.Rng.Intn(5)]}
	names := []string{"role", "groups", "uid", "mail", "isMemberOf", "SessionIndex", ""}
	ns := c.Rng.Intn(4)
	for i := 0; i < ns; i++ {
		var st []attrG
		na := c.Rng.Intn(4)
		for j := 0; j < na; j++ {
			at := attrG{Name: names[c.Rng.Intn(len(names))]}
			if c.Rng.Intn(2) == 0 {
				at.Friendly = names[c.Rng.Intn(len(names))]
			}
			nv := c.Rng.Intn(4)
			for k := 0; k < nv; k++ {
				at.Values = append(at.Values, randWord(c))
			}
			st = append(st, at)
		}
		a.Statements = append(a.Statements, st)
	}
	nau := c.Rng.Intn(3)
	for i := 0; i < nau; i++ {
		a.Authn = append(a.Authn, fmt.Sprintf("ix%d", c.Rng.Intn(3)))
	}
	return a
}

// ---- clock ----
func setClock(ns int64) {
	t := time.Unix(ns/nsPerS, ns%nsPerS).UTC()
	if ns%nsPerS < 0 {
		t = time.Unix(ns/nsPerS-1, ns%nsPerS+nsPerS).UTC()
	}
	saml.TimeNow = func() time.Time { return t }
	jwt.TimeFunc = func() time.Time { return t }
}

func restoreClock() {
	saml.TimeNow = time.Now
	jwt.TimeFunc = time.Now
}

// ---- running the real gate ----
type gateObs struct {
	Ran     bool
	Panic   bool
	Status  int
	Sub     string
	Attrs   []kv
	HasSess bool
}

func sortedAttrs(m samlsp.Attributes) []kv {
	keys := make([]string, 0, len(m))
	for k := range m {
		keys = append(keys, k)
	}
	sort.Strings(keys)
	out := make([]kv, 0, len(keys))
	for _, k := range keys {
		out = append(out, kv{k, append([]string{}, m[k]...)})
	}
	return out
}

// runGate sends GET <path> with the given Cookie header through RequireAccount(handler).
func runGate(d *deploy, cookieHeader string, wrap func(http.Handler) http.Handler) (o gateObs) {
	defer func() {
		if r := recover(); r != nil {
			o.Panic = true
		}
	}()
	inner := http.HandlerFunc(func(w http.ResponseWriter, r *http.Request) {
		o.Ran = true
		if s := samlsp.SessionFromContext(r.Context()); s != nil {
			o.HasSess = true
			if cl, ok := s.(samlsp.JWTSessionClaims); ok {
				o.Sub = cl.Subject
				o.Attrs = sortedAttrs(cl.Attributes)
			}
		}
		w.WriteHeader(http.StatusTeapot)
	})
	var h http.Handler = inner
	if wrap != nil {
		h = wrap(h)
	}
	h = d.mw.RequireAccount(h)
	u := mustURL(d.url)
	req := httptest.NewRequest("GET", "/protected/page?x=1", nil)
	req.Host = u.Host
	if cookieHeader != "" {
		req.Header.Set("Cookie", cookieHeader)
	}
	rec := httptest.NewRecorder()
	h.ServeHTTP(rec, req)
	o.Status = rec.Code
	return o
}

// decodeStage calls the live codec's Decode and classifies the failure.
func stageOf(err error) int64 {
	if err == nil {
		return 0
	}
	var ve *jwt.ValidationError
	if errors.As(err, &ve) {
		switch {
		case ve.Errors&(jwt.ValidationErrorMalformed|jwt.ValidationErrorUnverifiable) != 0:
			return 1
		case ve.Errors&jwt.ValidationErrorSignatureInvalid != 0:
			return 2
		case ve.Errors&(jwt.ValidationErrorExpired|jwt.ValidationErrorIssuedAt|jwt.ValidationErrorNotValidYet) != 0:
			return 3
		}
		return 9
	}
	msg := err.Error()
	switch {
	case strings.HasPrefix(msg, "expected audience"):
		return 4
	case strings.HasPrefix(msg, "expected issuer"):
		return 5
	case strings.HasPrefix(msg, "expected saml-"):
		return 6
	}
	return 9
}

func sessionDecodeStage(d *deploy, value string) (st int64) {
	defer func() {
		if r := recover(); r != nil {
			st = 99
		}
	}()
	_, err := d.mw.Session.(samlsp.CookieSessionProvider).Codec.Decode(value)
	return stageOf(err)
}

func trackingDecode(d *deploy, value string) (tr *samlsp.TrackedRequest, st int64) {
	defer func() {
		if r := recover(); r != nil {
			tr, st = nil, 99
		}
	}()
	tr, err := d.mw.RequestTracker.(samlsp.CookieRequestTracker).Codec.Decode(value)
	if err != nil {
		return nil, stageOf(err)
	}
	return tr, 0
}

// ---- honest tokens ----
type origin struct {
	kind string // "session", "tracking", "other"
	term string // Coq term of type origin
	desc map[string]any
}

var originOther = origin{kind: "other", term: "OOther"}

type wireG struct {
	bytes  string
	t      *tok // nil = garbage
	org    origin
	label  string
	signer *hkey
}

func mintSession(d *deploy, t0 int64, a *assertG) (s string, err error) {
	defer func() {
		if r := recover(); r != nil {
			err = fmt.Errorf("panic: %v", r)
		}
	}()
	setClock(t0)
	codec := d.mw.Session.(samlsp.CookieSessionProvider).Codec
	sess, err := codec.New(a.build())
	if err != nil {
		return "", err
	}
	return codec.Encode(sess)
}

func mintTracking(d *deploy, t0 int64, tr samlsp.TrackedRequest, arr bool) (s string, err error) {
	defer func() {
		if r := recover(); r != nil {
			err = fmt.Errorf("panic: %v", r)
		}
	}()
	setClock(t0)
	old := jwt.MarshalSingleStringAsArray
	jwt.MarshalSingleStringAsArray = arr
	defer func() { jwt.MarshalSingleStringAsArray = old }()
	return d.mw.RequestTracker.(samlsp.CookieRequestTracker).Codec.Encode(tr)
}

func trackedTerm(tr samlsp.TrackedRequest) string {
	return fmt.Sprintf("{| tr_index := %s; tr_req_id := %s; tr_uri := %s |}", emit.Str(tr.Index), emit.Str(tr.SAMLRequestID), emit.Str(tr.URI))
}

func p64(v int64) *int64 { return &v }

func floorDiv(a, b int64) int64 {
	q := a / b
	if (a%b != 0) && ((a < 0) != (b < 0)) {
		q--
	}
	return q
}

func runC16(c *Ctx) {
	defer restoreClock()
	mid := int64(saml.MaxIssueDelay)
	gcfg := c.Group("cfg", []string{"Tokens"}, "cfgcase", "check_cfgcases")
	gmint := c.Group("mint", []string{"Tokens"}, "mintcase", "check_mintcases")
	gdec := c.Group("dec", []string{"Tokens"}, "deccase", "check_deccases")
	ggate := c.Group("gate", []string{"Tokens"}, "gatecase", "check_gatecases")
	gjar := c.Group("jar", []string{"Tokens"}, "jarcase", "check_jarcases")

	d90 := 90 * time.Second
	d1500 := 1500 * time.Millisecond
	deps := []*deploy{
		newDeploy("root-a", "https://sp.example.com/", "rsa_a", "", nil),
		newDeploy("wiki-a", "https://apps.example.com/wiki/", "rsa_a", "", nil),
		newDeploy("payroll-a", "https://apps.example.com/payroll/", "rsa_a", "", nil),
		newDeploy("root-b", "https://sp.example.com/", "rsa_b", "", nil),
		newDeploy("ec", "https://ec.example.com/app/", "ec_256", "", nil),
		newDeploy("http-custom", "http://sp.example.com/", "rsa_a", "sess", &d90),
		newDeploy("noslash-subsec", "https://sp.example.com", "rsa_a", "", &d1500),
		// tenants of one host sharing the key, URLs differing in letter case only
		newDeploy("tenant-lower", "https://apps.example.com/t/acme/", "rsa_a", "", nil),
		newDeploy("tenant-mixed", "https://apps.example.com/t/Acme/", "rsa_a", "", nil),
	}
	// the private claim names are learnt from tokens the real codecs mint
	setClock(1700000000 * nsPerS)
	discoverLayout(func(an, av string) (s string) {
		defer func() { recover() }()
		pa := &assertG{SubjectKind: 2, NameID: "probe", Statements: [][]attrG{{{"", an, []string{av}}}}}
		s, _ = mintSession(deps[0], 1700000000*nsPerS, pa)
		return s
	}, func(id, uri string) (s string) {
		defer func() { recover() }()
		s, _ = mintTracking(deps[0], 1700000000*nsPerS, samlsp.TrackedRequest{Index: "probe-index", SAMLRequestID: id, URI: uri}, true)
		return s
	})
	byName := map[string]*deploy{}
	for _, d := range deps {
		byName[d.name] = d
	}

	// --- cfg: the live codecs against the model's derivation from the options ---
	for _, d := range deps {
		if d.maxAge != nil {
			continue // overridden by the harness after New
		}
		c.Count("cfg/" + d.name)
		c.Add(gcfg, &Case{
			Key:   map[string]string{"op": "new", "deployment": d.name},
			Input: map[string]any{"url": d.url, "key": d.key.name, "cookie_name": d.cookieName},
			Obs: map[string]any{"session_aud": d.sc.Audience, "session_iss": d.sc.Issuer, "session_max_age": d.sc.MaxAge.String(),
				"tracking_aud": d.tc.Audience, "tracking_iss": d.tc.Issuer, "tracking_max_age": d.tc.MaxAge.String(), "cookie": d.sessionCookie()},
			Term: fmt.Sprintf("{| cf_opts := %s; cf_mid := %s; cf_session := %s; cf_tracking := %s; cf_cookie := %s |}",
				d.optsTerm(), emit.Z(mid), liveCodecTerm(d.sc.SigningMethod, d.key, d.sc.Audience, d.sc.Issuer, d.sc.MaxAge),
				liveCodecTerm(d.tc.SigningMethod, d.key, d.tc.Audience, d.tc.Issuer, d.tc.MaxAge), emit.Str(d.sessionCookie())),
		})
	}

	// --- honest mints ---
	t0s := []int64{1700000000*nsPerS + 250000000, 1700000000 * nsPerS, 1700000123*nsPerS + 999999999, 1425211200*nsPerS + 600000000}
	asserts := fixedAssertions()
	nrand := 12
	if c.Thorough() {
		nrand = 120
	}
	for i := 0; i < nrand; i++ {
		asserts = append(asserts, randAssertion(c))
	}

	type honest struct {
		d   *deploy
		t0  int64
		a   *assertG
		tr  *samlsp.TrackedRequest
		arr bool
		w   wireG
	}
	var honestS, honestT []*honest

	addMint := func(h *honest, s string) bool {
		t, mapped := parseTok(s, h.d.key.term, true)
		if !mapped {
			c.Count("mint/unmapped")
			return false
		}
		// what the token MEANS is read through the library's own codec (at the minting instant)
		if t != nil {
			setClock(h.t0)
			if h.a != nil {
				func() {
					defer func() { recover() }()
					if sess, err := h.d.mw.Session.(samlsp.CookieSessionProvider).Codec.Decode(s); err == nil {
						if cl, ok := sess.(samlsp.JWTSessionClaims); ok {
							t.Sub, t.Attrs = cl.Subject, sortedAttrs(cl.Attributes)
						}
					}
				}()
			} else if tr, st := trackingDecode(h.d, s); st == 0 && tr != nil {
				t.Sub, t.ID, t.URI = tr.Index, tr.SAMLRequestID, tr.URI
			}
		}
		what := ""
		kind := "session"
		if h.a != nil {
			what = "(PSession " + h.a.term() + ")"
			h.w.org = origin{kind: "session", term: fmt.Sprintf("(OSession %s %s %s)", h.d.sessionCodecTerm(), emit.Z(h.t0), h.a.term()),
				desc: map[string]any{"minted_by": h.d.name, "t0_ns": h.t0, "kind": "session"}}
		} else {
			kind = "tracking"
			what = "(PTracking " + trackedTerm(*h.tr) + ")"
			h.w.org = origin{kind: "tracking", term: fmt.Sprintf("(OTracking %s %s %s %s)", emit.Bool(h.arr), h.d.trackingCodecTerm(mid), emit.Z(h.t0), trackedTerm(*h.tr)),
				desc: map[string]any{"minted_by": h.d.name, "t0_ns": h.t0, "kind": "tracking", "aud_as_array": h.arr}}
		}
		h.w.bytes, h.w.t, h.w.label, h.w.signer = s, t, "honest-"+kind, h.d.key
		c.Count("mint/" + kind)
		c.Add(gmint, &Case{
			Key:   map[string]string{"op": "mint", "kind": kind, "deployment": h.d.name},
			Input: map[string]any{"deployment": h.d.name, "url": h.d.url, "t0_ns": h.t0, "assertion": h.a, "tracked": h.tr, "aud_as_array": h.arr},
			Obs:   map[string]any{"token": s, "fields": t.summary()},
			Term: fmt.Sprintf("{| mi_opts := %s; mi_max_age := %s; mi_mid := %s; mi_arr := %s; mi_t0 := %s; mi_what := %s; mi_wire := %s |}",
				h.d.optsTerm(), h.d.maxAgeTerm(), emit.Z(mid), emit.Bool(h.arr), emit.Z(h.t0), what, wireTerm(t)),
		})
		return true
	}

	for di, d := range deps {
		for ai, a := range asserts {
			// every deployment mints the first assertions; the others rotate
			if ai >= 3 && (ai+di)%len(deps) != 0 && !c.Thorough() {
				continue
			}
			t0 := t0s[(ai+di)%len(t0s)]
			s, err := mintSession(d, t0, a)
			if err != nil {
				c.Count("mint/error")
				c.Add(gmint, &Case{Key: map[string]string{"op": "mint", "kind": "session-error"}, Input: map[string]any{"assertion": a}, Obs: map[string]any{"error": err.Error()},
					Term: "{| mi_opts := " + d.optsTerm() + "; mi_max_age := None; mi_mid := 0; mi_arr := true; mi_t0 := 0; mi_what := PSession " + a.term() + "; mi_wire := WGarbage |}"})
				continue
			}
			h := &honest{d: d, t0: t0, a: a}
			if addMint(h, s) {
				honestS = append(honestS, h)
			}
		}
		trs := []samlsp.TrackedRequest{
			{Index: "KCosLjAyNDY4Ojw-QEJERkhKTE5QUlRWWFpcXmBiZGZoamxucHJ0dnh6", SAMLRequestID: "id-00020406080a0c0e10121416181a1c1e20222426", URI: "/protected/page?x=1"},
			{Index: "idx2", SAMLRequestID: "id-2", URI: "/other"},
			{Index: "", SAMLRequestID: "", URI: ""},
		}
		for ti, tr := range trs {
			for _, arr := range []bool{true, false} {
				tr := tr
				t0 := t0s[(ti+di)%len(t0s)]
				s, err := mintTracking(d, t0, tr, arr)
				if err != nil {
					c.Count("mint/error")
					continue
				}
				h := &honest{d: d, t0: t0, tr: &tr, arr: arr}
				if addMint(h, s) {
					honestT = append(honestT, h)
				}
			}
		}
	}

	// session tokens of a deployment that shares this key but signs with another algorithm
	// (an honest codec configured differently): real JWTSessionCodec with another SigningMethod
	altAlgMint := func(d *deploy, alg string, t0 int64, a *assertG) *wireG {
		m := jwt.GetSigningMethod(alg)
		if m == nil {
			return nil
		}
		codec := d.sc
		codec.SigningMethod = m
		setClock(t0)
		var s string
		func() {
			defer func() { recover() }()
			sess, err := codec.New(a.build())
			if err != nil {
				return
			}
			s, _ = codec.Encode(sess)
		}()
		if s == "" {
			return nil
		}
		t, mapped := parseTok(s, d.key.term, true)
		if !mapped || t == nil {
			return nil
		}
		cterm := liveCodecTerm(m, d.key, d.url, d.url, codec.MaxAge)
		return &wireG{bytes: s, t: t, label: "honest-session-alg-" + alg, signer: d.key,
			org: origin{kind: "session", term: fmt.Sprintf("(OSession %s %s %s)", cterm, emit.Z(t0), a.term()),
				desc: map[string]any{"minted_by": d.name + " reconfigured with SigningMethod " + alg, "t0_ns": t0, "kind": "session"}}}
	}

	// --- decode cases ---
	addDec := func(target *deploy, session bool, now int64, w *wireG, cookie string, clockLabel string) {
		setClock(now)
		var ran bool
		var stage int64
		var sub, id, uri string
		var attrs []kv
		obs := map[string]any{}
		if session {
			o := runGate(target, cookie+"="+w.bytes, nil)
			ran, sub, attrs = o.Ran, o.Sub, o.Attrs
			stage = sessionDecodeStage(target, w.bytes)
			obs["handler_ran"], obs["status"], obs["subject"], obs["attributes"], obs["decode_stage"], obs["panic"] = o.Ran, o.Status, o.Sub, o.Attrs, stage, o.Panic
		} else {
			tr, st := trackingDecode(target, w.bytes)
			stage = st
			if tr != nil {
				ran, sub, id, uri = true, tr.Index, tr.SAMLRequestID, tr.URI
			}
			obs["decoded"], obs["index"], obs["id"], obs["uri"], obs["decode_stage"] = ran, sub, id, uri, stage
		}
		side := "tracking"
		if session {
			side = "session"
		}
		c.Count("dec/side/" + side)
		c.Count("dec/wire/" + w.label)
		c.Count("dec/clock/" + clockLabel)
		c.Count(fmt.Sprintf("dec/outcome/%s/ran=%v/stage=%d", side, ran, stage))
		c.Count("dec/origin/" + w.org.kind)
		c.Add(gdec, &Case{
			Key: map[string]string{"op": "decode", "side": side, "wire": w.label, "clock": clockLabel, "origin": w.org.kind},
			Input: map[string]any{"deployment": target.name, "url": target.url, "key": target.key.name, "now_ns": now, "cookie": cookie, "token": w.bytes,
				"fields": w.t.summary(), "origin": w.org.desc, "session_side": session, "wire_label": w.label, "clock_label": clockLabel,
				"model_terms": map[string]string{"wire": wireTerm(w.t), "origin": w.org.term, "origin_kind": w.org.kind}},
			Obs: obs,
			Term: fmt.Sprintf("{| dc_opts := %s; dc_max_age := %s; dc_mid := %s; dc_session := %s; dc_now := %s; dc_origin := %s; dc_wire := %s; dc_cookie := %s; dc_ran := %s; dc_stage := %s; dc_sub := %s; dc_attrs := %s; dc_id := %s; dc_uri := %s |}",
				target.optsTerm(), target.maxAgeTerm(), emit.Z(mid), emit.Bool(session), emit.Z(now), w.org.term, pickWire(w.t), emit.Str(cookie),
				emit.Bool(ran), emit.Z(stage), emit.Str(sub), amapTerm(attrs), emit.Str(id), emit.Str(uri)),
			Trivial: w.t == nil,
		})
	}

	if p := os.Getenv("VERIF_REPLAY"); p != "" {
		// re-run exactly one stored decode case: same deployment, instant, cookie name and token bytes
		var rp struct {
			Case struct {
				Group string `json:"group"`
				Input struct {
					Deployment string            `json:"deployment"`
					Now        int64             `json:"now_ns"`
					Cookie     string            `json:"cookie"`
					Token      string            `json:"token"`
					Session    bool              `json:"session_side"`
					Label      string            `json:"wire_label"`
					Clock      string            `json:"clock_label"`
					Terms      map[string]string `json:"model_terms"`
				} `json:"input"`
			} `json:"case"`
		}
		if b, err := os.ReadFile(p); err == nil && json.Unmarshal(b, &rp) == nil && rp.Case.Group == "dec" && byName[rp.Case.Input.Deployment] != nil {
			in := rp.Case.Input
			t, _ := parseTok(in.Token, "KNoKey", true)
			w := &wireG{bytes: in.Token, t: t, label: in.Label, org: origin{kind: in.Terms["origin_kind"], term: in.Terms["origin"]}}
			replayWire = in.Terms["wire"]
			addDec(byName[in.Deployment], in.Session, in.Now, w, in.Cookie, in.Clock)
			// only this case is evaluated
			for _, g := range []*Group{gcfg, gmint, ggate, gjar} {
				g.Cases = nil
			}
			c.N = len(gdec.Cases)
			for i, cs := range gdec.Cases {
				cs.Idx = i
			}
			return
		}
	}

	// clock positions around a token's window (seconds claims iat/exp)
	clocksFor := func(t *tok, t0 int64, all bool) map[string]int64 {
		m := map[string]int64{"t0": t0}
		if t == nil || t.Iat == nil || t.Exp == nil {
			return m
		}
		iat, exp := *t.Iat*nsPerS, *t.Exp*nsPerS
		m["iat-1ns"] = iat - 1
		m["iat-1s"] = iat - nsPerS
		m["iat"] = iat
		m["exp-1s"] = exp - nsPerS
		m["exp-1ns"] = exp - 1
		m["exp"] = exp
		m["exp+1ns"] = exp + 1
		m["exp+1s"] = exp + nsPerS
		m["far"] = exp + 10*365*86400*nsPerS
		if all {
			m["mid"] = (iat + exp) / 2
			m["t0+1ns"] = t0 + 1
		}
		return m
	}
	sortedKeys := func(m map[string]int64) []string {
		ks := make([]string, 0, len(m))
		for k := range m {
			ks = append(ks, k)
		}
		sort.Strings(ks)
		return ks
	}

	// 1. honest session tokens at every clock position, at home and at every other deployment
	for hi, h := range honestS {
		cl := clocksFor(h.w.t, h.t0, true)
		for _, k := range sortedKeys(cl) {
			if hi >= 2*len(deps) && !c.Thorough() && k != "t0" && k != "exp" && k != "exp-1ns" && k != "iat-1ns" {
				continue
			}
			addDec(h.d, true, cl[k], &h.w, h.d.sessionCookie(), k)
		}
		for _, other := range deps {
			if other == h.d {
				continue
			}
			nearMiss := other.key == h.d.key && (strings.EqualFold(other.url, h.d.url) || strings.TrimSuffix(other.url, "/") == strings.TrimSuffix(h.d.url, "/"))
			if hi%4 != 0 && !c.Thorough() && !nearMiss {
				continue
			}
			addDec(other, true, h.t0+nsPerS, &h.w, other.sessionCookie(), "t0+1s")
		}
		// session token presented to the tracking codec of its own and of a sibling deployment
		if hi%3 == 0 || c.Thorough() {
			addDec(h.d, false, h.t0+nsPerS, &h.w, "", "t0+1s")
			addDec(deps[(hi+1)%len(deps)], false, h.t0+nsPerS, &h.w, "", "t0+1s")
		}
		// cookie names: near misses of the session cookie's name
		if hi < len(deps) || c.Thorough() {
			for _, nm := range []string{"token", "Token", "token2", "toke", "sess", "saml_token", "session"} {
				addDec(h.d, true, h.t0+nsPerS, &h.w, nm, "t0+1s")
			}
		}
	}
	// 2. honest tracking tokens: both sides, boundaries on the tracking side
	for hi, h := range honestT {
		cl := clocksFor(h.w.t, h.t0, false)
		for _, k := range sortedKeys(cl) {
			if hi >= 12 && !c.Thorough() && k != "t0" && k != "exp" && k != "exp-1ns" {
				continue
			}
			addDec(h.d, false, cl[k], &h.w, "", k)
		}
		addDec(h.d, true, h.t0+nsPerS, &h.w, h.d.sessionCookie(), "t0+1s")
		for _, other := range deps {
			if other == h.d || (hi%3 != 0 && !c.Thorough()) {
				continue
			}
			addDec(other, false, h.t0+nsPerS, &h.w, "", "t0+1s")
			addDec(other, true, h.t0+nsPerS, &h.w, other.sessionCookie(), "t0+1s")
		}
	}
	// 3. same key, other algorithm (honest codec with another SigningMethod)
	for di, d := range deps {
		algs := []string{"RS384", "RS512", "PS256", "PS384", "PS512"}
		if strings.HasPrefix(d.key.name, "ec") {
			algs = []string{"ES256"}
		}
		for ai, alg := range algs {
			a := asserts[(di+ai)%len(fixedAssertions())]
			t0 := t0s[ai%len(t0s)]
			if w := altAlgMint(d, alg, t0, a); w != nil {
				addDec(d, true, t0+nsPerS, w, d.sessionCookie(), "t0+1s")
				addDec(d, false, t0+nsPerS, w, "", "t0+1s")
			}
		}
	}

	// 3b. same key and algorithm, another audience and/or issuer: honest codecs of sibling deployments
	// configured by hand (JWTSessionCodec / JWTTrackedRequestCodec are public and documented as replaceable)
	type idVar struct {
		label    string
		aud, iss func(u string) string
	}
	same := func(u string) string { return u }
	idVars := []idVar{
		{"aud-other", func(u string) string { return "https://other.example.com/" }, same},
		{"iss-other", same, func(u string) string { return "https://other.example.com/" }},
		{"aud-empty", func(u string) string { return "" }, same},
		{"iss-empty", same, func(u string) string { return "" }},
		{"aud-extension", func(u string) string { return u + "x" }, same},
		{"iss-prefix", same, func(u string) string { return strings.TrimSuffix(u, "/") + "" }},
		{"aud-iss-swapped-deployment", func(u string) string { return "https://apps.example.com/wiki/" }, func(u string) string { return "https://apps.example.com/payroll/" }},
	}
	// the near-miss lattice of audience / issuer: letter case (whole, host only, one letter), trailing slash,
	// padding, prefix, extension, percent-encoding, Unicode simple case folding (U+017F, U+212A)
	nearMisses := []struct {
		label string
		f     func(u string) string
	}{
		{"upper", strings.ToUpper},
		{"host-upper", func(u string) string {
			i := strings.Index(u, "://")
			j := strings.Index(u[i+3:], "/")
			if j < 0 {
				return u[:i+3] + strings.ToUpper(u[i+3:])
			}
			return u[:i+3] + strings.ToUpper(u[i+3:i+3+j]) + u[i+3+j:]
		}},
		{"one-letter-case", func(u string) string {
			for i := len(u) - 1; i >= 0; i-- {
				if u[i] >= 'a' && u[i] <= 'z' {
					return u[:i] + strings.ToUpper(u[i:i+1]) + u[i+1:]
				}
			}
			return u
		}},
		{"slash-toggled", func(u string) string {
			if strings.HasSuffix(u, "/") {
				return strings.TrimSuffix(u, "/")
			}
			return u + "/"
		}},
		{"padded-right", func(u string) string { return u + " " }},
		{"padded-left", func(u string) string { return " " + u }},
		{"prefix", func(u string) string { return u[:len(u)-2] }},
		{"extension", func(u string) string { return u + "index" }},
		{"percent-encoded", func(u string) string { return strings.Replace(u, ".", "%2E", 1) }},
		{"long-s", func(u string) string { return strings.Replace(u, "s", "\u017f", 1) }},
		{"kelvin", func(u string) string { return strings.Replace(strings.Replace(u, "k", "\u212a", 1), "K", "\u212a", 1) }},
	}
	for ni, nm := range nearMisses {
		nm := nm
		idVars = append(idVars, idVar{"near-" + nm.label + "-both", nm.f, nm.f})
		if ni%2 == 0 || c.Thorough() {
			idVars = append(idVars, idVar{"near-" + nm.label + "-aud", nm.f, same})
		}
		if ni%2 == 1 || c.Thorough() {
			idVars = append(idVars, idVar{"near-" + nm.label + "-iss", same, nm.f})
		}
	}
	for di, d := range deps {
		for vi, v := range idVars {
			near := strings.HasPrefix(v.label, "near-")
			if (di+vi)%2 != 0 && !c.Thorough() && !(near && strings.HasSuffix(v.label, "-both")) {
				continue
			}
			a := asserts[(di+vi)%len(fixedAssertions())]
			t0 := t0s[vi%len(t0s)]
			aud, iss := v.aud(d.url), v.iss(d.url)
			if aud == d.sc.Audience && iss == d.sc.Issuer {
				continue
			}
			// session codec
			codec := d.sc
			codec.Audience, codec.Issuer = aud, iss
			setClock(t0)
			var s string
			func() {
				defer func() { recover() }()
				if sess, err := codec.New(a.build()); err == nil {
					s, _ = codec.Encode(sess)
				}
			}()
			if t, mapped := parseTok(s, d.key.term, true); s != "" && mapped && t != nil {
				w := &wireG{bytes: s, t: t, label: "honest-session-" + v.label, signer: d.key,
					org: origin{kind: "session", term: fmt.Sprintf("(OSession %s %s %s)", liveCodecTerm(codec.SigningMethod, d.key, aud, iss, codec.MaxAge), emit.Z(t0), a.term()),
						desc: map[string]any{"minted_by": "codec with key of " + d.name + ", Audience " + aud + ", Issuer " + iss, "t0_ns": t0, "kind": "session"}}}
				addDec(d, true, t0+nsPerS, w, d.sessionCookie(), "t0+1s")
				addDec(d, false, t0+nsPerS, w, "", "t0+1s")
			}
			// tracking codec
			tcodec := d.tc
			tcodec.Audience, tcodec.Issuer = aud, iss
			trq := samlsp.TrackedRequest{Index: "ix-" + v.label, SAMLRequestID: "id-" + v.label, URI: "/x"}
			for _, arr := range []bool{true, false} {
				if near && !c.Thorough() && (arr != ((di+vi)%2 == 0)) {
					continue
				}
				setClock(t0)
				old := jwt.MarshalSingleStringAsArray
				jwt.MarshalSingleStringAsArray = arr
				var ts string
				func() {
					defer func() { recover() }()
					ts, _ = tcodec.Encode(trq)
				}()
				jwt.MarshalSingleStringAsArray = old
				if t, mapped := parseTok(ts, d.key.term, true); ts != "" && mapped && t != nil {
					w := &wireG{bytes: ts, t: t, label: "honest-tracking-" + v.label, signer: d.key,
						org: origin{kind: "tracking", term: fmt.Sprintf("(OTracking %s %s %s %s)", emit.Bool(arr), liveCodecTerm(tcodec.SigningMethod, d.key, aud, iss, tcodec.MaxAge), emit.Z(t0), trackedTerm(trq)),
							desc: map[string]any{"minted_by": "tracking codec with key of " + d.name + ", Audience " + aud + ", Issuer " + iss, "t0_ns": t0, "kind": "tracking", "aud_as_array": arr}}}
					addDec(d, false, t0+nsPerS, w, "", "t0+1s")
					addDec(d, true, t0+nsPerS, w, d.sessionCookie(), "t0+1s")
				}
			}
		}
	}

	// 4. structure-aware mutations of honest tokens
	otherKeyFor := func(d *deploy) *hkey {
		switch d.key.name {
		case "rsa_a":
			return getKey("rsa_b")
		case "rsa_b":
			return getKey("rsa_a")
		case "ec_256":
			return getKey("ec_256b")
		default:
			return getKey("ec_256")
		}
	}
	type mut struct {
		label string
		f     func(h *honest) *wireG // nil: not applicable
	}
	edit := func(label string, resign string, f func(t *tok)) mut {
		// resign: "same" (harness plays a holder of the SP key), "other" (another key), "keep" (signature kept)
		return mut{label: label + "/" + resign, f: func(h *honest) *wireG {
			t := h.w.t.clone()
			f(t)
			w := &wireG{t: t, label: label + "/" + resign, org: originOther, signer: h.d.key}
			switch resign {
			case "same":
				t.Key, t.Intact = h.d.key.term, true
				w.bytes = t.build(h.d.key, nil)
			case "other":
				ok := otherKeyFor(h.d)
				// an EC key of another curve cannot sign ES256: switch to the other key's natural method only if needed
				t.Key, t.Intact = ok.term, true
				w.bytes = t.build(ok, nil)
				if w.bytes == "" {
					return nil
				}
				w.signer = ok
			case "keep":
				t.Intact = false
				p := strings.Split(h.w.bytes, ".")
				w.bytes = t.withSig(p[2])
				if strings.HasPrefix(w.bytes, p[0]+"."+p[1]+".") {
					return nil // the edit changed nothing: still the honest token
				}
			}
			if w.bytes == "" {
				return nil
			}
			return w
		}}
	}
	var muts []mut
	for _, rs := range []string{"same", "other", "keep"} {
		rs := rs
		muts = append(muts,
			edit("aud-other-url", rs, func(t *tok) { setAud(t, "https://evil.example.com/") }),
			edit("aud-prefix", rs, func(t *tok) { setAud(t, strings.TrimSuffix(firstAud(t), "/")) }),
			edit("aud-extension", rs, func(t *tok) { setAud(t, firstAud(t)+"x") }),
			edit("aud-case", rs, func(t *tok) { setAud(t, strings.ToUpper(firstAud(t))) }),
			edit("aud-empty", rs, func(t *tok) { setAud(t, "") }),
			edit("aud-absent", rs, func(t *tok) { t.AudKind, t.Aud = 0, nil }),
			edit("aud-array-with-own", rs, func(t *tok) { a := firstAud(t); t.AudKind, t.Aud = 2, []string{"https://evil.example.com/", a} }),
			edit("aud-array-empty-strings", rs, func(t *tok) { t.AudKind, t.Aud = 2, []string{"", ""} }),
			edit("aud-array-none", rs, func(t *tok) { t.AudKind, t.Aud = 2, nil }),
			edit("aud-as-string", rs, func(t *tok) { a := firstAud(t); t.AudKind, t.Aud = 1, []string{a} }),
			edit("iss-other-url", rs, func(t *tok) { t.Iss = "https://evil.example.com/" }),
			edit("iss-prefix", rs, func(t *tok) { t.Iss = strings.TrimSuffix(t.Iss, "/") }),
			edit("iss-extension", rs, func(t *tok) { t.Iss += "x" }),
			edit("iss-absent", rs, func(t *tok) { t.Iss = "" }),
			edit("exp+1h", rs, func(t *tok) { t.Exp = p64(*t.Exp + 3600) }),
			edit("exp-absent", rs, func(t *tok) { t.Exp = nil }),
			edit("exp-zero", rs, func(t *tok) { t.Exp = p64(0) }),
			edit("exp-past", rs, func(t *tok) { t.Exp = p64(*t.Iat - 10) }),
			edit("nbf-future", rs, func(t *tok) { t.Nbf = p64(*t.Iat + 30) }),
			edit("nbf-absent", rs, func(t *tok) { t.Nbf = nil }),
			edit("iat-future", rs, func(t *tok) { t.Iat = p64(*t.Iat + 30) }),
			edit("iat-absent-nbf-absent", rs, func(t *tok) { t.Iat, t.Nbf = nil, nil }),
			edit("iat-zero", rs, func(t *tok) { t.Iat = p64(0) }),
			edit("session-marker-false", rs, func(t *tok) { t.SM, t.smFalse = false, true }),
			edit("session-marker-absent", rs, func(t *tok) { t.SM, t.smFalse = false, false }),
			edit("session-marker-true", rs, func(t *tok) { t.SM = true }),
			edit("request-marker-false", rs, func(t *tok) { t.RM, t.rmFalse = false, true }),
			edit("request-marker-absent", rs, func(t *tok) { t.RM, t.rmFalse = false, false }),
			edit("request-marker-true", rs, func(t *tok) { t.RM = true }),
			edit("both-markers", rs, func(t *tok) { t.SM, t.RM = true, true }),
			edit("swap-markers-aud-string", rs, func(t *tok) {
				t.SM, t.RM = !t.SM, !t.RM
				a := firstAud(t)
				t.AudKind, t.Aud = 1, []string{a}
			}),
			edit("sub-changed", rs, func(t *tok) { t.Sub = "admin" }),
			edit("attr-added", rs, func(t *tok) { t.Attrs = mergeAttr(t.Attrs, "role", "admin") }),
			edit("id-uri-changed", rs, func(t *tok) { t.ID, t.URI, t.hasID = "id-evil", "https://evil.example.com/", true }),
		)
	}
	// algorithm substitution
	for _, alg := range []string{"none", "HS256", "HS384", "HS512", "RS256", "RS384", "RS512", "PS256", "PS384", "ES256", "ES384", "EdDSA", "XS256", ""} {
		alg := alg
		muts = append(muts, mut{label: "alg-header-only/" + alg, f: func(h *honest) *wireG {
			if alg == h.w.t.Alg {
				return nil
			}
			t := h.w.t.clone()
			t.Alg, t.Intact = alg, false
			return &wireG{t: t, bytes: t.withSig(strings.Split(h.w.bytes, ".")[2]), label: "alg-header-only/" + alg, org: originOther, signer: h.d.key}
		}})
	}
	muts = append(muts, mut{label: "alg-none-empty-sig", f: func(h *honest) *wireG {
		t := h.w.t.clone()
		t.Alg, t.Key, t.Intact = "none", "KNoKey", true
		return &wireG{t: t, bytes: t.build(nil, nil), label: "alg-none-empty-sig", org: originOther}
	}})
	for _, form := range []string{"pem", "der", "modulus"} {
		for _, alg := range []string{"HS256", "HS384", "HS512"} {
			form, alg := form, alg
			muts = append(muts, mut{label: "hmac-with-public-key/" + alg + "/" + form, f: func(h *honest) *wireG {
				t := h.w.t.clone()
				t.Alg, t.Key, t.Intact = alg, `(KHmac "public-key-`+form+`")`, true
				return &wireG{t: t, bytes: t.build(nil, pubMaterial(h.d.key, form)), label: "hmac-with-public-key/" + alg + "/" + form, org: originOther}
			}})
		}
	}
	// re-signed with the SP's own key under another algorithm of the same family, claims untouched:
	// exactly what a second deployment sharing the key but configured with that algorithm mints
	for _, alg := range []string{"RS256", "RS384", "RS512", "PS256", "PS384", "PS512", "ES256", "ES384", "ES512"} {
		alg := alg
		muts = append(muts, mut{label: "same-key-other-alg/" + alg, f: func(h *honest) *wireG {
			if alg == h.w.t.Alg || strings.HasPrefix(alg, "ES") != strings.HasPrefix(h.d.key.name, "ec") {
				return nil
			}
			t := h.w.t.clone()
			t.Alg = alg
			b := t.build(h.d.key, nil)
			if b == "" {
				return nil
			}
			w := &wireG{t: t, bytes: b, label: "same-key-other-alg/" + alg, signer: h.d.key}
			// origin: honest mint by the codec that differs from the minting one in SigningMethod only
			if h.a != nil {
				codec := h.d.sc
				w.org = origin{kind: "session", term: fmt.Sprintf("(OSession %s %s %s)", liveCodecTermAlg(alg, h.d.key, codec.Audience, codec.Issuer, codec.MaxAge), emit.Z(h.t0), h.a.term()),
					desc: map[string]any{"minted_by": h.d.name + " with SigningMethod " + alg, "t0_ns": h.t0, "kind": "session"}}
			} else {
				codec := h.d.tc
				w.org = origin{kind: "tracking", term: fmt.Sprintf("(OTracking %s %s %s %s)", emit.Bool(h.arr), liveCodecTermAlg(alg, h.d.key, codec.Audience, codec.Issuer, codec.MaxAge), emit.Z(h.t0), trackedTerm(*h.tr)),
					desc: map[string]any{"minted_by": h.d.name + " with SigningMethod " + alg, "t0_ns": h.t0, "kind": "tracking"}}
			}
			return w
		}})
	}
	muts = append(muts, mut{label: "resigned-other-key", f: func(h *honest) *wireG {
		ok := otherKeyFor(h.d)
		t := h.w.t.clone()
		t.Key = ok.term
		b := t.build(ok, nil)
		if b == "" {
			return nil
		}
		return &wireG{t: t, bytes: b, label: "resigned-other-key", org: originOther, signer: ok}
	}})
	// signature damage
	sigMut := func(label string, f func(sig string) string) mut {
		return mut{label: label, f: func(h *honest) *wireG {
			p := strings.Split(h.w.bytes, ".")
			ns := f(p[2])
			if ns == p[2] {
				return nil
			}
			t := h.w.t.clone()
			t.Intact = false
			return &wireG{t: t, bytes: p[0] + "." + p[1] + "." + ns, label: label, org: originOther, signer: h.d.key}
		}}
	}
	flip := func(s string, i int) string {
		const abc = "ABCDEFGHIJKLMNOPQRSTUVWXYZabcdefghijklmnopqrstuvwxyz0123456789-_"
		j := strings.IndexByte(abc, s[i])
		if j < 0 {
			return s
		}
		return s[:i] + string(abc[j^1]) + s[i+1:]
	}
	muts = append(muts,
		sigMut("sig-truncated-1", func(s string) string { return s[:len(s)-1] }),
		sigMut("sig-truncated-4", func(s string) string { return s[:len(s)-4] }),
		sigMut("sig-half", func(s string) string { return s[:len(s)/2] }),
		sigMut("sig-empty", func(s string) string { return "" }),
		sigMut("sig-bitflip-first", func(s string) string { return flip(s, 0) }),
		sigMut("sig-bitflip-middle", func(s string) string { return flip(s, len(s)/2) }),
		sigMut("sig-bad-base64", func(s string) string { return s[:len(s)/2] + "!" + s[len(s)/2+1:] }),
		sigMut("sig-of-zeroes", func(s string) string { return strings.Repeat("A", len(s)) }),
	)
	// segment structure and byte damage outside the signature: mapped by the strict parser
	rawMut := func(label string, f func(s string) string) mut {
		return mut{label: label, f: func(h *honest) *wireG {
			ns := f(h.w.bytes)
			t, mapped := parseTok(ns, h.d.key.term, false)
			if !mapped {
				return nil
			}
			return &wireG{t: t, bytes: ns, label: label, org: originOther, signer: h.d.key}
		}}
	}
	muts = append(muts,
		rawMut("segments-2", func(s string) string { p := strings.Split(s, "."); return p[0] + "." + p[1] }),
		rawMut("segments-4", func(s string) string { return s + ".AAAA" }),
		rawMut("segments-4-empty", func(s string) string { return s + "." }),
		rawMut("segments-1", func(s string) string { return strings.Split(s, ".")[0] }),
		rawMut("empty-string", func(s string) string { return "" }),
		rawMut("dots-only", func(s string) string { return ".." }),
		rawMut("claims-only", func(s string) string { p := strings.Split(s, "."); return "." + p[1] + "." }),
		rawMut("header-bitflip", func(s string) string { return flip(s, 3) }),
		rawMut("claims-bitflip", func(s string) string { i := strings.Index(s, ".") + 20; return flip(s, i) }),
		rawMut("claims-bad-base64", func(s string) string { i := strings.Index(s, ".") + 5; return s[:i] + "!" + s[i+1:] }),
		rawMut("header-not-json", func(s string) string {
			p := strings.Split(s, ".")
			return b64([]byte("not json")) + "." + p[1] + "." + p[2]
		}),
		rawMut("claims-not-json", func(s string) string {
			p := strings.Split(s, ".")
			return p[0] + "." + b64([]byte("[1,2]")) + "." + p[2]
		}),
		rawMut("claims-exp-string", func(s string) string {
			p := strings.Split(s, ".")
			return p[0] + "." + b64([]byte(`{"exp":"never",`+jstr(claimSM)+`:true}`)) + "." + p[2]
		}),
		rawMut("claims-marker-string", func(s string) string {
			p := strings.Split(s, ".")
			return p[0] + "." + b64([]byte(`{`+jstr(claimSM)+`:"true",`+jstr(claimRM)+`:"true"}`)) + "." + p[2]
		}),
		rawMut("bearer-prefix", func(s string) string { return "Bearer%20" + s }),
	)

	// apply: every mutation to a rotating selection of honest tokens, at the minting deployment, both sides
	bases := []*honest{}
	for i, h := range honestS {
		if i < 2*len(deps) || c.Thorough() {
			bases = append(bases, h)
		}
	}
	nS := len(bases)
	bases = append(bases, honestT...)
	per := 3
	if c.Thorough() {
		per = 12
	}
	for mi, m := range muts {
		used := 0
		for k := 0; k < len(bases) && used < per; k++ {
			// pick session bases and tracking bases alternately, rotating with the mutation index
			var h *honest
			if k%2 == 0 {
				h = bases[(mi+k/2)%nS]
			} else {
				h = bases[nS+(mi*7+k/2)%len(honestT)]
			}
			w := m.f(h)
			if w == nil {
				continue
			}
			used++
			now := h.t0 + nsPerS/2
			if strings.HasPrefix(m.label, "nbf-future") || strings.HasPrefix(m.label, "iat-future") {
				// both sides of the moved bound
				addDec(h.d, true, (*h.w.t.Iat+30)*nsPerS-1, w, h.d.sessionCookie(), "moved-bound-1ns")
				addDec(h.d, true, (*h.w.t.Iat+30)*nsPerS, w, h.d.sessionCookie(), "moved-bound")
				addDec(h.d, false, (*h.w.t.Iat+30)*nsPerS-1, w, "", "moved-bound-1ns")
				addDec(h.d, false, (*h.w.t.Iat+30)*nsPerS, w, "", "moved-bound")
				continue
			}
			if strings.HasPrefix(m.label, "exp+1h") || strings.HasPrefix(m.label, "exp-absent") || strings.HasPrefix(m.label, "exp-zero") {
				now = *h.w.t.Exp*nsPerS + 5*nsPerS // after the genuine expiry
			}
			addDec(h.d, true, now, w, h.d.sessionCookie(), "t0+0.5s/after-exp")
			addDec(h.d, false, now, w, "", "t0+0.5s/after-exp")
		}
		if used == 0 {
			c.Count("dec/mutation-not-applicable/" + m.label)
		}
	}

	// 5. random combinations (thorough: more)
	nr := 150
	if c.Thorough() {
		nr = 3000
	}
	for i := 0; i < nr; i++ {
		var h *honest
		if c.Rng.Intn(2) == 0 {
			h = honestS[c.Rng.Intn(len(honestS))]
		} else {
			h = honestT[c.Rng.Intn(len(honestT))]
		}
		w := &h.w
		if c.Rng.Intn(4) != 0 {
			if mw := muts[c.Rng.Intn(len(muts))].f(h); mw != nil {
				w = mw
			}
		}
		target := h.d
		if c.Rng.Intn(4) == 0 {
			target = deps[c.Rng.Intn(len(deps))]
		}
		cl := clocksFor(h.w.t, h.t0, true)
		ks := sortedKeys(cl)
		k := ks[c.Rng.Intn(len(ks))]
		if c.Rng.Intn(2) == 0 {
			addDec(target, true, cl[k], w, target.sessionCookie(), k)
		} else {
			addDec(target, false, cl[k], w, "", k)
		}
	}

	// --- jar cases: several cookies ---
	{
		h := honestS[0]
		other := honestS[1]
		if other.d == h.d && len(honestS) > len(asserts) {
			other = honestS[len(honestS)-1]
		}
		name := h.d.sessionCookie()
		type jc struct {
			label string
			jar   [][2]string // name, value
			wires []*tok
		}
		bad := strings.Split(h.w.bytes, ".")[0] + ".e30." + strings.Split(h.w.bytes, ".")[2]
		badT, _ := parseTok(bad, h.d.key.term, false)
		jars := []jc{
			{"valid-only", [][2]string{{name, h.w.bytes}}, []*tok{h.w.t}},
			{"empty-jar", nil, nil},
			{"other-name-only", [][2]string{{"saml_" + name, h.w.bytes}}, []*tok{h.w.t}},
			{"garbage-first-then-valid", [][2]string{{name, "garbage"}, {name, h.w.bytes}}, []*tok{nil, h.w.t}},
			{"valid-first-then-garbage", [][2]string{{name, h.w.bytes}, {name, "garbage"}}, []*tok{h.w.t, nil}},
			{"unsigned-first-then-valid", [][2]string{{name, bad}, {name, h.w.bytes}}, []*tok{badT, h.w.t}},
			{"other-cookies-around", [][2]string{{"a", "1"}, {"saml_x", "zzz"}, {name, h.w.bytes}, {"b", "2"}}, []*tok{nil, nil, h.w.t, nil}},
			{"case-variant-name", [][2]string{{strings.ToUpper(name), h.w.bytes}}, []*tok{h.w.t}},
		}
		for _, j := range jars {
			var hdr []string
			var items []string
			for i, e := range j.jar {
				hdr = append(hdr, e[0]+"="+e[1])
				items = append(items, "("+emit.Str(e[0])+", "+wireTerm(j.wires[i])+")")
			}
			for _, now := range []int64{h.t0 + nsPerS, *h.w.t.Exp * nsPerS} {
				setClock(now)
				o := runGate(h.d, strings.Join(hdr, "; "), nil)
				c.Count("jar/" + j.label)
				c.Add(gjar, &Case{
					Key:   map[string]string{"op": "jar", "class": j.label},
					Input: map[string]any{"deployment": h.d.name, "now_ns": now, "cookie_header": strings.Join(hdr, "; ")},
					Obs:   map[string]any{"handler_ran": o.Ran, "status": o.Status, "subject": o.Sub},
					Term: fmt.Sprintf("{| jc_opts := %s; jc_max_age := %s; jc_now := %s; jc_jar := %s; jc_ran := %s; jc_sub := %s |}",
						h.d.optsTerm(), h.d.maxAgeTerm(), emit.Z(now), emit.List(items), emit.Bool(o.Ran), emit.Str(o.Sub)),
				})
			}
		}
	}

	// --- gate cases: RequireAttribute behind RequireAccount ---
	addGate := func(h *honest, name, value string, withSession bool) {
		setClock(h.t0 + nsPerS)
		cookie := ""
		sess := "None"
		var attrs []kv
		if withSession {
			cookie = h.d.sessionCookie() + "=" + h.w.bytes
		}
		var o gateObs
		if withSession {
			o = runGate(h.d, cookie, samlsp.RequireAttribute(name, value))
			// the attribute map the application sees (read through a plain RequireAccount)
			seen := runGate(h.d, cookie, nil)
			attrs = seen.Attrs
			if !seen.Ran {
				c.Count("gate/no-session-unexpected")
				return
			}
			sess = "(Some " + amapTerm(attrs) + ")"
		} else {
			// RequireAttribute on a request that never went through RequireAccount
			func() {
				defer func() {
					if r := recover(); r != nil {
						o.Panic = true
					}
				}()
				inner := http.HandlerFunc(func(w http.ResponseWriter, r *http.Request) { o.Ran = true; w.WriteHeader(http.StatusTeapot) })
				rec := httptest.NewRecorder()
				samlsp.RequireAttribute(name, value)(inner).ServeHTTP(rec, httptest.NewRequest("GET", "/x", nil))
				o.Status = rec.Code
			}()
		}
		admitted := o.Ran
		c.Count(fmt.Sprintf("gate/admitted=%v", admitted))
		var ok *bool
		if (admitted && o.Status != http.StatusTeapot) || (!admitted && o.Status != http.StatusForbidden) || o.Panic {
			ok = Bptr(false) // a refused request must be answered 403
		}
		c.Add(ggate, &Case{
			Key:        map[string]string{"op": "require_attribute", "session": fmt.Sprint(withSession)},
			Input:      map[string]any{"deployment": h.d.name, "assertion": h.a, "name": name, "value": value, "session": withSession},
			Obs:        map[string]any{"admitted": admitted, "status": o.Status, "attributes_seen": attrs},
			Term:       fmt.Sprintf("{| gc_session := %s; gc_name := %s; gc_value := %s; gc_admitted := %s |}", sess, emit.Str(name), emit.Str(value), emit.Bool(admitted)),
			ImplSpecOK: ok,
		})
	}
	for hi, h := range honestS {
		if hi >= len(asserts) && !c.Thorough() {
			break
		}
		seen := map[string]bool{}
		var names, values []string
		names = append(names, "SessionIndex", "nosuch", "")
		for _, st := range h.a.Statements {
			for _, at := range st {
				for _, n := range []string{at.Friendly, at.Name} {
					if !seen["n"+n] {
						seen["n"+n] = true
						names = append(names, n)
					}
				}
				for _, v := range at.Values {
					if !seen["v"+v] {
						seen["v"+v] = true
						values = append(values, v)
					}
				}
			}
		}
		values = append(values, h.a.Authn...)
		values = append(values, "", "nosuch")
		// near misses of the first values
		for _, v := range append([]string{}, values[:min(3, len(values))]...) {
			if v != "" {
				values = append(values, v+"x", v[:len(v)-1], strings.ToUpper(v), " "+v)
			}
		}
		for ni, n := range names {
			for vi, v := range values {
				if !c.Thorough() && hi >= 4 && (ni+vi+hi)%4 != 0 {
					continue
				}
				addGate(h, n, v, true)
			}
			// near-miss names
			if n != "" {
				addGate(h, strings.ToUpper(n), values[0], true)
				addGate(h, n+"x", values[0], true)
			}
		}
		addGate(h, "role", "admin", false)
	}

	// --- ONE handler chain, built once, serving a SEQUENCE of requests ---
	// RequireAccount(RequireAttribute(name, value)(app)) is constructed once per gate, as an application does
	// at start-up; requests of different users (attribute carries the value / another value / attribute absent /
	// no attributes) and requests that reach the same gate instance without any session arrive in several
	// orders.  Every verdict must be the one a freshly built chain gives (the model is per request).
	{
		d := deps[0]
		var users []*honest
		for _, h := range honestS {
			if h.d == d && len(users) < len(fixedAssertions()) {
				users = append(users, h)
			}
		}
		type gateDef struct{ name, value string }
		for gi, gd := range []gateDef{{"role", "admin"}, {"isMemberOf", "staff"}, {"eduPersonAffiliation", "Administrators"}, {"SessionIndex", "idx-1"}} {
			admits := func(h *honest) bool {
				for _, st := range h.a.Statements {
					for _, at := range st {
						n := at.Friendly
						if n == "" {
							n = at.Name
						}
						if n == gd.name {
							for _, v := range at.Values {
								if v == gd.value {
									return true
								}
							}
						}
					}
				}
				if gd.name == "SessionIndex" {
					for _, v := range h.a.Authn {
						if v == gd.value {
							return true
						}
					}
				}
				return false
			}
			var yes, no []*honest
			for _, h := range users {
				if admits(h) {
					yes = append(yes, h)
				} else {
					no = append(no, h)
				}
			}
			if len(yes) == 0 || len(no) == 0 {
				continue
			}
			// nil entries are requests without any session that reach the gate instance directly
			orders := map[string][]*honest{
				"admitted-first":        append(append(append([]*honest{}, yes...), no...), nil),
				"refused-first":         append(append(append([]*honest{nil}, no...), yes...), append(no, nil)...),
				"alternating":           nil,
				"admitted-then-nothing": {yes[0], nil, nil, no[0], nil},
			}
			for i := 0; i < len(no); i++ {
				orders["alternating"] = append(orders["alternating"], no[i], yes[i%len(yes)], nil)
			}
			onames := []string{"admitted-first", "refused-first", "alternating", "admitted-then-nothing"}
			for _, on := range onames {
				// the chain of this order: built once
				var cur *gateObs
				inner := http.HandlerFunc(func(w http.ResponseWriter, r *http.Request) {
					cur.Ran = true
					w.WriteHeader(http.StatusTeapot)
				})
				gate := samlsp.RequireAttribute(gd.name, gd.value)(inner)
				chain := d.mw.RequireAccount(gate)
				for pos, h := range orders[on] {
					o := gateObs{}
					cur = &o
					sess := "None"
					var attrs []kv
					var who any = "no session"
					func() {
						defer func() {
							if r := recover(); r != nil {
								o.Panic = true
							}
						}()
						rec := httptest.NewRecorder()
						req := httptest.NewRequest("GET", "/protected/page?x=1", nil)
						req.Host = mustURL(d.url).Host
						if h != nil {
							setClock(h.t0 + nsPerS)
							req.Header.Set("Cookie", d.sessionCookie()+"="+h.w.bytes)
							chain.ServeHTTP(rec, req)
						} else {
							gate.ServeHTTP(rec, req) // the same gate instance, no session in the context
						}
						o.Status = rec.Code
					}()
					if h != nil {
						seen := runGate(d, d.sessionCookie()+"="+h.w.bytes, nil) // a fresh chain: what the application sees
						if !seen.Ran {
							c.Count("gate/no-session-unexpected")
							continue
						}
						attrs = seen.Attrs
						sess = "(Some " + amapTerm(attrs) + ")"
						who = h.a
					}
					admitted := o.Ran
					c.Count(fmt.Sprintf("gate-shared-chain/%s/admitted=%v", on, admitted))
					var ok *bool
					if (admitted && o.Status != http.StatusTeapot) || (!admitted && o.Status != http.StatusForbidden) || o.Panic {
						ok = Bptr(false)
					}
					c.Add(ggate, &Case{
						Key:        map[string]string{"op": "require_attribute", "chain": "shared", "order": on, "gate": gd.name + "=" + gd.value},
						Input:      map[string]any{"deployment": d.name, "gate": gd, "order": on, "position": pos, "gate_index": gi, "requester": who},
						Obs:        map[string]any{"admitted": admitted, "status": o.Status, "attributes_seen": attrs},
						Term:       fmt.Sprintf("{| gc_session := %s; gc_name := %s; gc_value := %s; gc_admitted := %s |}", sess, emit.Str(gd.name), emit.Str(gd.value), emit.Bool(admitted)),
						ImplSpecOK: ok,
						Dedup:      fmt.Sprintf("shared|%d|%s|%d", gi, on, pos),
					})
				}
			}
		}
	}
}

// replayWire, when set, is the stored Gallina term of the wire under replay
var replayWire string

func pickWire(t *tok) string {
	if replayWire != "" {
		return replayWire
	}
	return wireTerm(t)
}

func min(a, b int) int {
	if a < b {
		return a
	}
	return b
}

func liveCodecTermAlg(alg string, key *hkey, aud, iss string, maxAge time.Duration) string {
	return fmt.Sprintf("{| c_alg := %s; c_key := %s; c_aud := %s; c_iss := %s; c_max_age := %s |}", algT(alg), key.term, emit.Str(aud), emit.Str(iss), emit.Z(int64(maxAge)))
}

func firstAud(t *tok) string {
	if len(t.Aud) > 0 {
		return t.Aud[0]
	}
	return ""
}

// setAud replaces the audience keeping the JSON form (string / array)
func setAud(t *tok, a string) {
	switch t.AudKind {
	case 2:
		t.Aud = []string{a}
	default:
		t.AudKind, t.Aud = 1, []string{a}
	}
}

func mergeAttr(m []kv, k, v string) []kv {
	out := append([]kv(nil), m...)
	for i := range out {
		if out[i].K == k {
			out[i] = kv{k, append(append([]string{}, out[i].V...), v)}
			return out
		}
	}
	out = append(out, kv{k, []string{v}})
	sort.Slice(out, func(i, j int) bool { return out[i].K < out[j].K })
	return out
}
