package main

// C17 — middleware login completes only in the browser that started it, at its URL.
// The real samlsp.Middleware (samlsp.New) is driven through httptest against a
// real saml.IdentityProvider of this library, under a controlled clock and
// RandReader.  Histories of Start / IdpAnswer / Deliver / Page / Advance with
// jar manipulations are executed; the observed status / Location / Set-Cookie
// projections and the script (jars refer to cookies issued earlier) are handed
// to the model (Middleware.v).

import (
	. "verifharness/internal/core"

	"bytes"
	"compress/flate"
	"encoding/base64"
	"encoding/json"
	"fmt"
	"html"
	"io"
	"log"
	"math"
	"math/rand"
	"net/http"
	"net/http/httptest"
	"net/url"
	"os"
	"regexp"
	"strings"
	"time"

	"github.com/crewjam/saml"
	"github.com/crewjam/saml/samlsp"
	"github.com/golang-jwt/jwt/v4"
	dsig "github.com/russellhaering/goxmldsig"

	"verifharness/internal/emit"
	"verifharness/internal/fix"
)

func init() { Props["C17"] = runC17 }

// ---------- configuration of one world ----------
type worldCfg struct {
	HTTPS           bool   `json:"https"`
	Post            bool   `json:"post_binding"`
	AllowIDP        bool   `json:"allow_idp_initiated"`
	DefaultRedirect string `json:"default_redirect"`
	CustomRelay     bool   `json:"custom_relay_state_func"`
	MidS            int64  `json:"max_issue_delay_s"`
	CookieName      string `json:"cookie_name"`
}

func (w worldCfg) label() string {
	return fmt.Sprintf("https=%v,post=%v,idpinit=%v,customrelay=%v,mid=%d", w.HTTPS, w.Post, w.AllowIDP, w.CustomRelay, w.MidS)
}

type world struct {
	cfg       worldCfg
	base      string
	mw        *samlsp.Middleware
	idp       *saml.IdentityProvider
	badIdp    *saml.IdentityProvider
	spMeta    *saml.EntityDescriptor
	relayNext string
	user      string
	key       *hkey
}

type spProvider struct{ md **saml.EntityDescriptor }

func (p spProvider) GetServiceProvider(_ *http.Request, id string) (*saml.EntityDescriptor, error) {
	if *p.md != nil && (*p.md).EntityID == id {
		return *p.md, nil
	}
	return nil, os.ErrNotExist
}

type sessProvider struct{ w *world }

func (p sessProvider) GetSession(_ http.ResponseWriter, _ *http.Request, _ *saml.IdpAuthnRequest) *saml.Session {
	return &saml.Session{ID: "sess-" + p.w.user, NameID: p.w.user, UserName: p.w.user, Index: "ix-" + p.w.user,
		CreateTime: saml.TimeNow(), ExpireTime: saml.TimeNow().Add(time.Hour), Groups: []string{"users"}}
}

var quiet = log.New(io.Discard, "", 0)

func newWorld(cfg worldCfg) *world {
	w := &world{cfg: cfg, key: getKey("rsa_a")}
	scheme := "http"
	if cfg.HTTPS {
		scheme = "https"
	}
	w.base = scheme + "://sp.example.com"
	mkIdp := func(keyName string) *saml.IdentityProvider {
		idp := &saml.IdentityProvider{
			Key:                     fix.RSAKey(keyName),
			Certificate:             fix.Cert(keyName),
			Logger:                  quiet,
			MetadataURL:             *mustURL("https://idp.example.com/metadata"),
			SSOURL:                  *mustURL("https://idp.example.com/sso"),
			ServiceProviderProvider: spProvider{&w.spMeta},
			SessionProvider:         sessProvider{w},
		}
		return idp
	}
	w.idp = mkIdp("rsa_c")
	w.badIdp = mkIdp("rsa_b")
	saml.MaxIssueDelay = time.Duration(cfg.MidS) * time.Second
	opts := samlsp.Options{
		URL:                *mustURL(w.base + "/"),
		Key:                w.key.signer,
		Certificate:        fix.Cert("rsa_a"),
		IDPMetadata:        w.idp.Metadata(),
		AllowIDPInitiated:  cfg.AllowIDP,
		DefaultRedirectURI: cfg.DefaultRedirect,
		CookieName:         cfg.CookieName,
	}
	if cfg.CustomRelay {
		opts.RelayStateFunc = func(http.ResponseWriter, *http.Request) string { return w.relayNext }
	}
	m, err := samlsp.New(opts)
	if err != nil {
		panic(err)
	}
	if cfg.Post {
		m.Binding = saml.HTTPPostBinding
	}
	w.mw = m
	w.spMeta = m.ServiceProvider.Metadata()
	return w
}

func (w *world) optsTerm() string {
	return fmt.Sprintf("{| o_url := %s; o_key := %s; o_cookie_name := %s |}", emit.Str(w.base+"/"), w.key.term, emit.Str(w.cfg.CookieName))
}

// the model's configuration, derived from the options
func (w *world) cfgTerm() string {
	return fmt.Sprintf("(default_cfg %s %s %s %s %s %s %s)", w.optsTerm(), emit.Z(w.cfg.MidS*nsPerS), emit.Bool(w.cfg.HTTPS),
		emit.Str("/saml/acs"), emit.Bool(w.cfg.AllowIDP), emit.Str(w.cfg.DefaultRedirect), emit.Bool(w.cfg.Post))
}

// the live configuration, read from the middleware samlsp.New returned
func (w *world) liveCfgTerm() string {
	m := w.mw
	sp := m.Session.(samlsp.CookieSessionProvider)
	sc := sp.Codec.(samlsp.JWTSessionCodec)
	rt := m.RequestTracker.(samlsp.CookieRequestTracker)
	tc := rt.Codec.(samlsp.JWTTrackedRequestCodec)
	post := false
	if m.Binding != "" {
		post = m.Binding == saml.HTTPPostBinding
	} else if m.ServiceProvider.GetSSOBindingLocation(saml.HTTPRedirectBinding) == "" {
		post = true
	}
	return fmt.Sprintf("{| m_prefix := %s; m_tcodec := %s; m_scodec := %s; m_arr := %s; m_track_cookie_age := %s; m_session_cookie_age := %s; m_session_name := %s; m_acs_path := %s; m_acs_https := %s; m_secure := %s; m_allow_idp := %s; m_default_redirect := %s; m_post_binding := %s; m_mid := %s |}",
		emit.Str(rt.NamePrefix), liveCodecTerm(tc.SigningMethod, w.key, tc.Audience, tc.Issuer, tc.MaxAge),
		liveCodecTerm(sc.SigningMethod, w.key, sc.Audience, sc.Issuer, sc.MaxAge), emit.Bool(jwt.MarshalSingleStringAsArray),
		emit.Z(int64(rt.MaxAge)), emit.Z(int64(sp.MaxAge)), emit.Str(sp.Name), emit.Str(m.ServiceProvider.AcsURL.Path),
		emit.Bool(m.ServiceProvider.AcsURL.Scheme == "https"), emit.Bool(sp.Secure), emit.Bool(m.ServiceProvider.AllowIDPInitiated),
		emit.Str(m.ServiceProvider.DefaultRedirectURI), emit.Bool(post), emit.Z(int64(saml.MaxIssueDelay)))
}

// ---------- abstract histories (what the generator and the shrinker handle) ----------
type absCookie struct {
	Src  string `json:"src"`           // "tracking": cookie set by start step Step; "session": set by deliver step Step; "garbage"; "forged"
	Step int    `json:"step"`          // step id
	Name string `json:"name"`          // "own" | "flow:<id>" (the name of another flow's cookie) | "session" | "=<literal>"
	Mut  string `json:"mut,omitempty"` // "" | "bitflip" | "truncate" | "resign"
}
type absStep struct {
	ID     int         `json:"id"`
	Op     string      `json:"op"` // start | answer | deliver | page | advance
	URL    string      `json:"url,omitempty"`
	Relay0 string      `json:"custom_relay,omitempty"` // start with custom RelayStateFunc: the value it returns
	Flow   int         `json:"flow"`                   // answer: id of the start step it answers; -1 unsolicited (IdP-initiated)
	User   string      `json:"user,omitempty"`
	BadIdP bool        `json:"bad_idp,omitempty"` // answer signed by an IdP the SP does not trust
	Answer int         `json:"answer"`            // deliver: id of the answer step
	Jar    []absCookie `json:"jar,omitempty"`
	Relay  string      `json:"relay,omitempty"` // deliver: "faithful" | "flow:<id>" | "unknown" | "empty" | "url" | "=<literal>"
	HTTPS  bool        `json:"req_https,omitempty"`
	DT     int64       `json:"dt_ns,omitempty"`
}

// ---------- execution ----------
type obsCookie struct {
	Name     string `json:"name"`
	Kind     int    `json:"kind"` // 0 cleared 1 tracking 2 session 3 other
	A, B, C  string
	Iat, Exp int64
	HTTPOnly bool   `json:"httponly"`
	Secure   bool   `json:"secure"`
	Path     string `json:"path"`
	MaxAge   int64  `json:"max_age"`
	value    string
}
type obsReply struct {
	Status  int         `json:"status"`
	LocKind string      `json:"loc_kind"` // none | idp | url
	Loc     string      `json:"location"`
	Relay   string      `json:"relay"`
	Cookies []obsCookie `json:"cookies"`
	Ran     bool        `json:"handler_ran"`
	Forms   int         `json:"forms_in_page"`
	Panic   bool        `json:"panic,omitempty"`
}

type flowInfo struct {
	step      int
	index     string
	rid       string
	uri       string
	start     int64
	cookiePos int // position in issued
	reqURL    *url.URL
	reqForm   url.Values
}
type answerInfo struct {
	step     int
	flow     int // step id or -1
	irt      string
	issued   int64
	ok       bool
	user     string
	response string
	relay    string
}
type issuedCookie struct {
	name  string
	value string
	kind  int
	step  int
}

type execResult struct {
	script  []string // saction terms
	obs     []obsReply
	steps   []absStep // the steps that were executed (inapplicable ones dropped)
	failed  bool      // Go-side monitor: observed differs from expected, or property violated
	why     string
	flows   int
	accepts int
	refused int
}

type seededReader struct{ r *rand.Rand }

func (s seededReader) Read(p []byte) (int, error) { return s.r.Read(p) }

var reForm = regexp.MustCompile(`name="(SAMLRequest|RelayState)" value="([^"]*)"`)
var reID = regexp.MustCompile(`\bID="([^"]*)"`)

func authnRequestID(samlRequestB64 string, deflated bool) string {
	raw, err := base64.StdEncoding.DecodeString(samlRequestB64)
	if err != nil {
		return ""
	}
	if deflated {
		b, err := io.ReadAll(flate.NewReader(bytes.NewReader(raw)))
		if err != nil {
			return ""
		}
		raw = b
	}
	m := reID.FindSubmatch(raw)
	if m == nil {
		return ""
	}
	return string(m[1])
}

func roundMs(ns int64) int64 { return (ns + 500000) / 1000000 * 1000000 }

func (w *world) observe(rec *httptest.ResponseRecorder, ran bool) obsReply {
	o := obsReply{Status: rec.Code, LocKind: "none", Ran: ran}
	if loc := rec.Header().Get("Location"); loc != "" {
		if strings.HasPrefix(loc, w.idp.SSOURL.String()+"?") {
			o.LocKind = "idp"
			if u, err := url.Parse(loc); err == nil {
				o.Relay = u.Query().Get("RelayState")
			}
		} else {
			o.LocKind, o.Loc = "url", loc
		}
	}
	if !ran {
		// the WHOLE page the middleware wrote: how many forms, and the one a browser submits
		// (the page's script submits the first element bearing the form's id)
		body := rec.Body.String()
		o.Forms = strings.Count(strings.ToLower(body), "<form")
		if rec.Header().Get("Location") == "" && rec.Code == 200 {
			o.Relay = firstForm(body).Get("RelayState")
		}
	}
	for _, ck := range rec.Result().Cookies() {
		oc := obsCookie{Name: ck.Name, HTTPOnly: ck.HttpOnly, Secure: ck.Secure, Path: ck.Path, MaxAge: int64(ck.MaxAge), value: ck.Value, Kind: 3}
		if ck.Value == "" {
			oc.Kind = 0
			if ck.Expires.IsZero() || ck.Expires.After(saml.TimeNow()) {
				oc.Kind = 3 // emptied but not expired: not a clearing cookie
			}
		} else {
			// lifetime: the registered claims, straight from the JWT
			oc.Iat, oc.Exp = registeredTimes(ck.Value)
			// kind: the marker claims; what the token MEANS (index, request id, URI, subject): the library's own codecs
			t, mapped := parseTok(ck.Value, w.key.term, true)
			trk, ses := w.libTracking(ck.Value), w.libSession(ck.Value)
			isT := mapped && t != nil && t.RM && !t.SM
			isS := mapped && t != nil && t.SM && !t.RM
			if !isT && !isS && (!mapped || t == nil) {
				isT, isS = trk != nil && ses == nil, ses != nil && trk == nil
			}
			switch {
			case isT:
				oc.Kind = 1
				if trk != nil {
					oc.A, oc.B, oc.C = trk.Index, trk.SAMLRequestID, trk.URI
				} else if t != nil {
					oc.A, oc.B, oc.C = t.Sub, t.ID, t.URI
				}
			case isS:
				oc.Kind = 2
				if ses != nil {
					oc.A = ses.Subject
				} else if t != nil {
					oc.A = t.Sub
				}
			}
		}
		o.Cookies = append(o.Cookies, oc)
	}
	return o
}

func htmlUnescape(s string) string { return html.UnescapeString(s) }

// firstForm returns the SAMLRequest / RelayState fields of the first form of a page
func firstForm(body string) url.Values {
	v := url.Values{}
	lower := strings.ToLower(body)
	i := strings.Index(lower, "<form")
	if i < 0 {
		return v
	}
	end := strings.Index(lower[i:], "</form")
	seg := body[i:]
	if end >= 0 {
		seg = body[i : i+end]
	}
	for _, m := range reForm.FindAllStringSubmatch(seg, -1) {
		if v.Get(m[1]) == "" {
			v.Set(m[1], htmlUnescape(m[2]))
		}
	}
	return v
}

// iat and exp (whole seconds, 0 when absent) of a JWT, without looking at anything else
func registeredTimes(token string) (iat, exp int64) {
	m := probeClaims(token)
	num := func(k string) int64 {
		if f, ok := m[k].(float64); ok {
			return int64(math.Floor(f))
		}
		return 0
	}
	return num("iat"), num("exp")
}

func (w *world) libTracking(value string) (tr *samlsp.TrackedRequest) {
	defer func() {
		if r := recover(); r != nil {
			tr = nil
		}
	}()
	tr, err := w.mw.RequestTracker.(samlsp.CookieRequestTracker).Codec.Decode(value)
	if err != nil {
		return nil
	}
	return tr
}

func (w *world) libSession(value string) (cl *samlsp.JWTSessionClaims) {
	defer func() {
		if r := recover(); r != nil {
			cl = nil
		}
	}()
	s, err := w.mw.Session.(samlsp.CookieSessionProvider).Codec.Decode(value)
	if err != nil {
		return nil
	}
	if c, ok := s.(samlsp.JWTSessionClaims); ok {
		return &c
	}
	return nil
}

// learnLayout lets the harness learn the private claim names from tokens the real codecs mint
func (w *world) learnLayout() {
	setClock(t0C17)
	sp := w.mw.Session.(samlsp.CookieSessionProvider)
	rt := w.mw.RequestTracker.(samlsp.CookieRequestTracker)
	discoverLayout(func(an, av string) (s string) {
		defer func() { recover() }()
		a := &saml.Assertion{Subject: &saml.Subject{NameID: &saml.NameID{Value: "probe"}},
			AttributeStatements: []saml.AttributeStatement{{Attributes: []saml.Attribute{{Name: an, Values: []saml.AttributeValue{{Value: av}}}}}}}
		sess, err := sp.Codec.New(a)
		if err != nil {
			return ""
		}
		s, _ = sp.Codec.Encode(sess)
		return s
	}, func(id, uri string) (s string) {
		defer func() { recover() }()
		s, _ = rt.Codec.Encode(samlsp.TrackedRequest{Index: "probe-index", SAMLRequestID: id, URI: uri})
		return s
	})
}

func ocTerm(c obsCookie) string {
	return fmt.Sprintf("{| oc_name := %s; oc_kind := %d; oc_a := %s; oc_b := %s; oc_c := %s; oc_iat := %s; oc_exp := %s; oc_httponly := %s; oc_secure := %s; oc_path := %s; oc_max_age := %s |}",
		emit.Str(c.Name), c.Kind, emit.Str(c.A), emit.Str(c.B), emit.Str(c.C), emit.Z(c.Iat), emit.Z(c.Exp), emit.Bool(c.HTTPOnly), emit.Bool(c.Secure), emit.Str(c.Path), emit.Z(c.MaxAge))
}
func orTerm(o obsReply) string {
	loc := "LNone"
	switch o.LocKind {
	case "idp":
		loc = "LIdp"
	case "url":
		loc = "(LUrl " + emit.Str(o.Loc) + ")"
	}
	cs := make([]string, len(o.Cookies))
	for i, c := range o.Cookies {
		cs[i] = ocTerm(c)
	}
	st := o.Status
	if o.Panic {
		st = 599
	}
	return fmt.Sprintf("{| or_status := %d; or_loc := %s; or_relay := %s; or_cookies := %s; or_ran := %s; or_forms := %d |}", st, loc, emit.Str(o.Relay), emit.List(cs), emit.Bool(o.Ran), o.Forms)
}

const t0C17 = int64(1700000000)*nsPerS + 250000000

// run executes an abstract history on a fresh world.
func runHistory(cfg worldCfg, hist []absStep, seed int64) (res execResult) {
	w := newWorld(cfg)
	saml.RandReader = seededReader{rand.New(rand.NewSource(seed))}
	now := t0C17
	clock := func() {
		setClock(now)
		saml.Clock = dsig.NewFakeClockAt(saml.TimeNow())
	}
	clock()
	mid := cfg.MidS * nsPerS
	prefix := "saml_"
	sessName := w.mw.Session.(samlsp.CookieSessionProvider).Name

	flows := map[int]*flowInfo{}
	answers := map[int]*answerInfo{}
	var issued []issuedCookie
	sessionAt := map[int]int{} // deliver step id -> position of the session cookie in issued

	fail := func(format string, a ...any) {
		if !res.failed {
			res.failed = true
			res.why = fmt.Sprintf(format, a...)
		}
	}
	live := func(f *flowInfo) bool {
		return floorDiv(f.start, nsPerS)*nsPerS <= now && now < floorDiv(f.start+mid, nsPerS)*nsPerS
	}

	type jarItem struct {
		name, value string
		src         string // wsrc term
		flow        *flowInfo
		verbatim    bool
		isSession   bool
		sessStart   int64
	}
	resolveJar := func(j []absCookie) []jarItem {
		var out []jarItem
		for _, c := range j {
			it := jarItem{}
			var pos = -1
			switch c.Src {
			case "tracking":
				f := flows[c.Step]
				if f == nil {
					continue
				}
				pos, it.flow = f.cookiePos, f
			case "session":
				p, ok := sessionAt[c.Step]
				if !ok {
					continue
				}
				pos, it.isSession = p, true
			case "garbage":
				it.value, it.src = "garbage-"+fmt.Sprint(c.Step), "(Literal WGarbage)"
			default:
				continue
			}
			if pos >= 0 {
				it.value = issued[pos].value
				switch c.Mut {
				case "":
					it.src, it.verbatim = fmt.Sprintf("(FromIssued %d)", pos), true
				case "bitflip":
					p := strings.Split(it.value, ".")
					if len(p) != 3 || len(p[2]) < 10 {
						continue
					}
					i := len(p[2]) / 2
					ch := byte('A')
					if p[2][i] == 'A' {
						ch = 'B'
					}
					it.value = p[0] + "." + p[1] + "." + p[2][:i] + string(ch) + p[2][i+1:]
					it.src = fmt.Sprintf("(Broken %d)", pos)
				case "truncate":
					it.value = it.value[:len(it.value)-3]
					it.src = fmt.Sprintf("(Broken %d)", pos)
				case "payload":
					p := strings.Split(it.value, ".")
					if len(p) != 3 {
						continue
					}
					// swap in the payload of the token re-serialised with one claim changed; signature kept
					t, mapped := parseTok(it.value, w.key.term, true)
					if !mapped || t == nil {
						continue
					}
					it.value = t.withSig(p[2])
					if strings.HasPrefix(it.value, p[0]+"."+p[1]+".") {
						continue
					}
					it.src = fmt.Sprintf("(Broken %d)", pos)
				case "resign":
					t, mapped := parseTok(it.value, w.key.term, true)
					if !mapped || t == nil {
						continue
					}
					ok := getKey("rsa_b")
					it.value = t.build(ok, nil)
					it.src = fmt.Sprintf("(Resigned %d %s)", pos, ok.term)
				default:
					continue
				}
			}
			switch {
			case c.Name == "own":
				if pos >= 0 {
					it.name = issued[pos].name
				} else {
					it.name = prefix + "garbage"
				}
			case c.Name == "session":
				it.name = sessName
			case c.Name == "own-sub": // the tracking prefix followed by the token's own signed subject
				t, mapped := parseTok(it.value, w.key.term, true)
				if !mapped || t == nil {
					continue
				}
				it.name = prefix + t.Sub
			case strings.HasPrefix(c.Name, "flow:"):
				var id int
				fmt.Sscanf(c.Name, "flow:%d", &id)
				f := flows[id]
				if f == nil {
					continue
				}
				it.name = prefix + f.index
			case strings.HasPrefix(c.Name, "="):
				it.name = c.Name[1:]
			default:
				continue
			}
			out = append(out, it)
		}
		return out
	}
	jarHeader := func(items []jarItem) string {
		var parts []string
		for _, it := range items {
			parts = append(parts, it.name+"="+it.value)
		}
		return strings.Join(parts, "; ")
	}
	jarTerm := func(items []jarItem) string {
		var parts []string
		for _, it := range items {
			parts = append(parts, "("+emit.Str(it.name)+", "+it.src+")")
		}
		return emit.List(parts)
	}
	record := func(step absStep, term string, o obsReply) {
		res.script = append(res.script, term)
		res.obs = append(res.obs, o)
		res.steps = append(res.steps, step)
		for _, c := range o.Cookies {
			issued = append(issued, issuedCookie{name: c.Name, value: c.value, kind: c.Kind, step: step.ID})
		}
	}
	checkFlags := func(o obsReply, reqHTTPS bool) {
		for _, c := range o.Cookies {
			switch c.Kind {
			case 2:
				if !c.HTTPOnly || c.Secure != (cfg.HTTPS || reqHTTPS) || c.Path != "/" || c.Name != sessName {
					fail("session cookie flags %+v", c)
				}
			case 1:
				if !c.HTTPOnly || c.Secure != cfg.HTTPS || c.Path != "/saml/acs" || c.Name != prefix+c.A || c.MaxAge != cfg.MidS || c.Exp != floorDiv(c.Iat*nsPerS+mid, nsPerS) {
					fail("tracking cookie flags/lifetime %+v", c)
				}
			case 0:
				if c.Path != "/saml/acs" {
					fail("clearing cookie path %+v", c)
				}
			default:
				fail("unexpected cookie %+v", c)
			}
		}
	}

	startFlow := func(st absStep, cookieHeader string) (obsReply, *flowInfo) {
		w.relayNext = st.Relay0
		var o obsReply
		var rec *httptest.ResponseRecorder
		ran := false
		func() {
			defer func() {
				if r := recover(); r != nil {
					o.Panic = true
				}
			}()
			rec = httptest.NewRecorder()
			req := httptest.NewRequest("GET", st.URL, nil)
			req.Host = "sp.example.com"
			if cookieHeader != "" {
				req.Header.Set("Cookie", cookieHeader)
			}
			h := w.mw.RequireAccount(http.HandlerFunc(func(rw http.ResponseWriter, r *http.Request) { ran = true; rw.WriteHeader(200) }))
			h.ServeHTTP(rec, req)
		}()
		if o.Panic {
			return o, nil
		}
		o = w.observe(rec, ran)
		if ran {
			return o, nil
		}
		f := &flowInfo{step: st.ID, uri: st.URL, start: now, index: o.Relay}
		if loc := rec.Header().Get("Location"); loc != "" {
			if u, err := url.Parse(loc); err == nil {
				f.reqURL = u
				f.rid = authnRequestID(u.Query().Get("SAMLRequest"), true)
			}
		} else {
			f.reqForm = firstForm(rec.Body.String())
			f.rid = authnRequestID(f.reqForm.Get("SAMLRequest"), false)
		}
		return o, f
	}

	expForms := 0
	if cfg.Post {
		expForms = 1
	}
	for _, st := range hist {
		clock()
		switch st.Op {
		case "start-broken-writer":
			// a protected page requested over a connection that fails on the first body write: nothing
			// reaches the browser (no script step); it must not leave anything behind for later requests
			w.relayNext = st.Relay0
			func() {
				defer func() { recover() }()
				req := httptest.NewRequest("GET", st.URL, nil)
				req.Host = "sp.example.com"
				h := w.mw.RequireAccount(http.HandlerFunc(func(rw http.ResponseWriter, r *http.Request) { rw.WriteHeader(200) }))
				h.ServeHTTP(&brokenWriter{h: http.Header{}}, req)
			}()
			res.steps = append(res.steps, st)
		case "advance":
			if st.DT < 0 {
				continue
			}
			now += st.DT
			record(st, "(SAdvance "+emit.Z(st.DT)+")", obsReply{Status: 0, LocKind: "none"})
		case "start":
			o, f := startFlow(st, "")
			idx, rid := "", ""
			if f != nil {
				idx, rid = f.index, f.rid
				f.cookiePos = len(issued)
				flows[st.ID] = f
				res.flows++
			}
			// expected
			if o.Panic || f == nil || len(o.Cookies) != 1 || o.Cookies[0].Kind != 1 || o.Cookies[0].A != idx || o.Cookies[0].B != rid || o.Cookies[0].C != st.URL {
				fail("start: %+v", o)
			} else if (cfg.Post && (o.Status != 200 || o.LocKind != "none")) || (!cfg.Post && (o.Status != 302 || o.LocKind != "idp")) {
				fail("start status/location: %+v", o)
			} else if cfg.CustomRelay && st.Relay0 != "" && idx != st.Relay0 {
				fail("custom relay state not used: %+v", o)
			} else if idx == "" {
				fail("flow tracked under an empty index: %+v", o)
			} else if o.Forms != expForms {
				fail("start page holds %d forms, expected %d", o.Forms, expForms)
			}
			checkFlags(o, false)
			custom, rnd := startDraw(cfg, st, idx, f != nil)
			record(st, fmt.Sprintf("(SStart %s %s %s %s)", emit.Str(st.URL), custom, emit.Str(rnd), emit.Str(rid)), o)
		case "page":
			items := resolveJar(st.Jar)
			o, f := startFlow(st, jarHeader(items))
			idx, rid := "", ""
			if f != nil {
				idx, rid = f.index, f.rid
				f.cookiePos = len(issued)
				flows[st.ID] = f
				res.flows++
			}
			// expected: handler runs iff the first cookie named like the session cookie is a verbatim, unexpired session cookie
			expRan := false
			for _, it := range items {
				if it.name == sessName {
					if it.verbatim && it.isSession {
						t, _ := parseTok(it.value, w.key.term, true)
						if t != nil && t.Iat != nil && t.Exp != nil && *t.Iat <= floorDiv(now, nsPerS) && floorDiv(now, nsPerS) < *t.Exp {
							expRan = true
						}
					}
					break
				}
			}
			if o.Ran != expRan || o.Panic {
				fail("page: handler ran=%v expected %v", o.Ran, expRan)
			}
			if !o.Ran && (f == nil || len(o.Cookies) != 1 || o.Cookies[0].Kind != 1) {
				fail("page without session did not start a flow: %+v", o)
			}
			if !o.Ran && f != nil && idx == "" {
				fail("flow tracked under an empty index: %+v", o)
			}
			if !o.Ran && o.Forms != expForms {
				fail("start page holds %d forms, expected %d", o.Forms, expForms)
			}
			checkFlags(o, false)
			custom, rnd := startDraw(cfg, st, idx, f != nil)
			record(st, fmt.Sprintf("(SPage %s %s %s %s %s)", emit.Str(st.URL), jarTerm(items), custom, emit.Str(rnd), emit.Str(rid)), o)
		case "answer":
			a := &answerInfo{step: st.ID, flow: st.Flow, ok: !st.BadIdP, user: st.User, issued: roundMs(now)}
			idp := w.idp
			if st.BadIdP {
				idp = w.badIdp
			}
			w.user = st.User
			var form saml.IdpAuthnRequestForm
			err := func() (err error) {
				defer func() {
					if r := recover(); r != nil {
						err = fmt.Errorf("panic %v", r)
					}
				}()
				var req *saml.IdpAuthnRequest
				if st.Flow >= 0 {
					f := flows[st.Flow]
					if f == nil {
						return fmt.Errorf("no such flow")
					}
					var hr *http.Request
					if f.reqURL != nil {
						hr = httptest.NewRequest("GET", f.reqURL.String(), nil)
					} else {
						hr = httptest.NewRequest("POST", idp.SSOURL.String(), strings.NewReader(f.reqForm.Encode()))
						hr.Header.Set("Content-Type", "application/x-www-form-urlencoded")
					}
					req, err = saml.NewIdpAuthnRequest(idp, hr)
					if err != nil {
						return err
					}
					if err = req.Validate(); err != nil {
						return err
					}
					a.irt, a.relay = f.rid, req.RelayState
				} else {
					// IdP-initiated / unsolicited: as IdentityProvider.ServeIDPInitiated does
					req = &saml.IdpAuthnRequest{IDP: idp, HTTPRequest: httptest.NewRequest("GET", "https://idp.example.com/init", nil), Now: saml.TimeNow()}
					req.ServiceProviderMetadata = w.spMeta
					for i := range w.spMeta.SPSSODescriptors {
						d := &w.spMeta.SPSSODescriptors[i]
						for j := range d.AssertionConsumerServices {
							if d.AssertionConsumerServices[j].Binding == saml.HTTPPostBinding && req.ACSEndpoint == nil {
								req.ACSEndpoint, req.SPSSODescriptor = &d.AssertionConsumerServices[j], d
							}
						}
					}
				}
				if err = (saml.DefaultAssertionMaker{}).MakeAssertion(req, sessProvider{w}.GetSession(nil, nil, req)); err != nil {
					return err
				}
				form, err = req.PostBinding()
				return err
			}()
			if err != nil {
				continue // the IdP refused (request too old): no answer exists
			}
			a.response = form.SAMLResponse
			answers[st.ID] = a
			res.steps = append(res.steps, st) // no middleware interaction: not part of the script
		case "deliver":
			a := answers[st.Answer]
			if a == nil {
				continue
			}
			items := resolveJar(st.Jar)
			relay := ""
			switch {
			case st.Relay == "faithful":
				// what a real IdP echoes: the RelayState this library's IdentityProvider recovered from the
				// emitted redirect URL's query (or the POST form field) when it parsed the AuthnRequest
				if a.flow >= 0 && flows[a.flow] != nil {
					relay = a.relay
				}
			case strings.HasPrefix(st.Relay, "flow:"):
				var id int
				fmt.Sscanf(st.Relay, "flow:%d", &id)
				if flows[id] == nil {
					continue
				}
				relay = flows[id].index
			case st.Relay == "unknown":
				relay = "bm8tc3VjaC1pbmRleA"
			case st.Relay == "empty", st.Relay == "empty-present":
				relay = "" // absent, or the field present with an empty value (an auto-post form whose relay state was lost)
			case strings.HasPrefix(st.Relay, "long:"):
				var n int
				fmt.Sscanf(st.Relay, "long:%d", &n)
				relay = "/" + strings.Repeat("x", n-1)
			case st.Relay == "url":
				relay = "https://evil.example.com/landing"
			case strings.HasPrefix(st.Relay, "="):
				relay = st.Relay[1:]
			}
			if cfg.AllowIDP && relay != "" && !strings.HasPrefix(relay, "/") && !strings.HasPrefix(relay, "https://") {
				named := false
				for _, it := range items {
					named = named || it.name == prefix+relay
				}
				if !named {
					// IdP-initiated mode redirects to the RelayState text itself, which http.Redirect then
					// rewrites relative to the ACS path; outside this property (and the model): not exercised
					continue
				}
			}
			target := "/saml/acs"
			if st.HTTPS {
				target = "https://sp.example.com/saml/acs"
			}
			var o obsReply
			func() {
				defer func() {
					if r := recover(); r != nil {
						o.Panic = true
					}
				}()
				form := url.Values{"SAMLResponse": {a.response}}
				if relay != "" || st.Relay == "empty-present" {
					form.Set("RelayState", relay)
				}
				req := httptest.NewRequest("POST", target, strings.NewReader(form.Encode()))
				req.Host = "sp.example.com"
				req.Header.Set("Content-Type", "application/x-www-form-urlencoded")
				if h := jarHeader(items); h != "" {
					req.Header.Set("Cookie", h)
				}
				rec := httptest.NewRecorder()
				w.mw.ServeHTTP(rec, req)
				o = w.observe(rec, false)
			}()
			// ---- expected reply (reference simulation on provenance) ----
			fresh := !(a.issued+mid < now)
			possible := map[string]bool{}
			if cfg.AllowIDP {
				possible[""] = true
			}
			for _, it := range items {
				if strings.HasPrefix(it.name, prefix) && it.verbatim && it.flow != nil && live(it.flow) && it.name == prefix+it.flow.index {
					possible[it.flow.rid] = true
				}
			}
			accept := a.ok && fresh && (cfg.AllowIDP || possible[a.irt])
			expLoc, expClear := "", ""
			if accept {
				if relay != "" {
					var first *jarItem
					for i := range items {
						if items[i].name == prefix+relay {
							first = &items[i]
							break
						}
					}
					switch {
					case first == nil:
						if cfg.AllowIDP {
							expLoc = relay
						} else {
							accept = false
						}
					case first.verbatim && first.flow != nil && live(first.flow) && first.flow.index == relay:
						expLoc, expClear = first.flow.uri, prefix+relay
					default:
						accept = false
					}
				} else {
					expLoc = cfg.DefaultRedirect
					if expLoc == "" {
						expLoc = "/"
					}
				}
			}
			sets := false
			for _, c := range o.Cookies {
				if c.Kind == 2 {
					sets = true
				}
			}
			if o.Panic {
				fail("deliver panicked")
			} else if accept {
				res.accepts++
				ok := sets && o.Status == 302 && o.LocKind == "url" && o.Loc == expLoc
				nc := 1
				if expClear != "" {
					nc = 2
					ok = ok && len(o.Cookies) == 2 && o.Cookies[0].Kind == 0 && o.Cookies[0].Name == expClear
				}
				ok = ok && len(o.Cookies) == nc && o.Cookies[nc-1].Kind == 2 && o.Cookies[nc-1].A == a.user
				if !ok {
					fail("deliver: expected acceptance -> %q, got %+v", expLoc, o)
				}
			} else {
				res.refused++
				if sets || o.Status != 403 || len(o.Cookies) != 0 {
					fail("deliver: expected refusal (403, no cookie), got %+v", o)
				}
			}
			checkFlags(o, st.HTTPS)
			for _, c := range o.Cookies {
				if c.Kind == 2 {
					sessionAt[st.ID] = len(issued) + func() int {
						for i, cc := range o.Cookies {
							if cc.Kind == 2 {
								return i
							}
						}
						return 0
					}()
					break
				}
			}
			rterm := fmt.Sprintf("{| r_irt := %s; r_issued := %s; r_ok := %s; r_assertion := {| as_subject := Some (Some %s); as_attr_statements := []; as_authn_statements := [] |} |}",
				emit.Str(a.irt), emit.Z(a.issued), emit.Bool(a.ok), emit.Str(a.user))
			record(st, fmt.Sprintf("(SDeliver %s %s %s %s)", rterm, jarTerm(items), emit.Str(relay), emit.Bool(st.HTTPS)), o)
		}
	}
	return res
}

// startDraw renders the inputs of the model's track_index for a flow start: what the
// RelayStateFunc returned (None: no func installed) and the random index.  The random
// draw is observable only when it is used (no func, or the func returned ""): it is then
// the index the middleware handed out; otherwise a placeholder stands for the unused draw.
func startDraw(cfg worldCfg, st absStep, idx string, started bool) (custom, rnd string) {
	custom = "None"
	if cfg.CustomRelay {
		custom = "(Some " + emit.Str(st.Relay0) + ")"
	}
	rnd = "unused-random-draw"
	if started && (!cfg.CustomRelay || st.Relay0 == "") {
		rnd = idx
	}
	return custom, rnd
}

// brokenWriter fails every body write
type brokenWriter struct {
	h    http.Header
	code int
}

func (b *brokenWriter) Header() http.Header       { return b.h }
func (b *brokenWriter) Write([]byte) (int, error) { return 0, io.ErrClosedPipe }
func (b *brokenWriter) WriteHeader(c int)         { b.code = c }

// ---------- generation ----------
var pageURLs = []string{"/protected/a?x=1", "/protected/b", "/app/c?q=a%20b&r=2", "/d/e/f", "/", "/protected/a?x=1"}

type histGen struct {
	c          *Ctx
	cfg        worldCfg
	steps      []absStep
	nextID     int
	starts     []int // ids of start/page steps that (probably) started flows
	answs      []int // ids of answer steps
	answOf     map[int]int
	delivs     []int   // ids of deliver steps
	clock      int64   // ns since t0
	startClock []int64 // clock (ns since t0) of each entry of starts
}

// toExpiry returns the advance that lands delta ns after the expiry instant of
// a started flow's tracking token (tokens expire at whole seconds).
func (g *histGen) toExpiry(mid int64, delta int64) int64 {
	if len(g.startClock) == 0 {
		return 0
	}
	sc := g.startClock[len(g.startClock)-1]
	if g.c.Rng.Intn(3) == 0 {
		sc = g.startClock[g.c.Rng.Intn(len(g.startClock))]
	}
	exp := floorDiv(t0C17+sc+mid, nsPerS)*nsPerS - t0C17
	return exp + delta - g.clock
}

func (g *histGen) add(s absStep) int {
	s.ID = g.nextID
	g.nextID++
	g.steps = append(g.steps, s)
	return s.ID
}

func (g *histGen) randJar(own int) []absCookie {
	r := g.c.Rng
	var jar []absCookie
	full := func() {
		for _, s := range g.starts {
			jar = append(jar, absCookie{Src: "tracking", Step: s, Name: "own"})
		}
	}
	other := -1
	if len(g.starts) > 1 {
		for k := 0; k < 4 && (other < 0 || other == own); k++ {
			other = g.starts[r.Intn(len(g.starts))]
		}
		if other == own {
			other = -1
		}
	}
	switch r.Intn(18) {
	case 0, 1, 2, 3, 4: // full
		full()
	case 5: // empty
	case 6: // subset
		for _, s := range g.starts {
			if r.Intn(2) == 0 {
				jar = append(jar, absCookie{Src: "tracking", Step: s, Name: "own"})
			}
		}
	case 7: // all but own
		for _, s := range g.starts {
			if s != own {
				jar = append(jar, absCookie{Src: "tracking", Step: s, Name: "own"})
			}
		}
	case 8: // own cookie renamed to the other flow's index
		if own >= 0 && other >= 0 {
			jar = append(jar, absCookie{Src: "tracking", Step: own, Name: fmt.Sprintf("flow:%d", other)})
		} else {
			full()
		}
	case 9: // values swapped between two flows
		if own >= 0 && other >= 0 {
			jar = append(jar, absCookie{Src: "tracking", Step: own, Name: fmt.Sprintf("flow:%d", other)}, absCookie{Src: "tracking", Step: other, Name: fmt.Sprintf("flow:%d", own)})
		} else {
			full()
		}
	case 10: // own name carries a session token / the other flow's token
		if own >= 0 {
			if len(g.delivs) > 0 && r.Intn(2) == 0 {
				jar = append(jar, absCookie{Src: "session", Step: g.delivs[r.Intn(len(g.delivs))], Name: fmt.Sprintf("flow:%d", own)})
			} else if other >= 0 {
				jar = append(jar, absCookie{Src: "tracking", Step: other, Name: fmt.Sprintf("flow:%d", own)})
			}
			if r.Intn(2) == 0 {
				jar = append(jar, absCookie{Src: "tracking", Step: own, Name: "own"}) // the genuine one second
			}
		}
	case 11: // damaged own cookie
		if own >= 0 {
			jar = append(jar, absCookie{Src: "tracking", Step: own, Name: "own", Mut: []string{"bitflip", "truncate", "resign", "payload"}[r.Intn(4)]})
		}
		if other >= 0 {
			jar = append(jar, absCookie{Src: "tracking", Step: other, Name: "own"})
		}
	case 17: // application cookies before and after the tracking cookies
		n := []int{1, 31, 32, 33, 100}[r.Intn(5)]
		jar = append(jar, apps(n, "b")...)
		full()
		jar = append(jar, apps(r.Intn(3), "a")...)
	case 16: // genuine own cookie, plus a live cookie (own or another flow's) under a name that is not its index
		if own >= 0 {
			jar = append(jar, absCookie{Src: "tracking", Step: own, Name: "own"})
			src := own
			if other >= 0 && r.Intn(2) == 0 {
				src = other
			}
			name := "=saml_third"
			if other >= 0 && r.Intn(2) == 0 {
				name = fmt.Sprintf("flow:%d", other)
			}
			jar = append(jar, absCookie{Src: "tracking", Step: src, Name: name})
		}
	case 12: // garbage under own name first, genuine second
		if own >= 0 {
			jar = append(jar, absCookie{Src: "garbage", Step: own, Name: fmt.Sprintf("flow:%d", own)}, absCookie{Src: "tracking", Step: own, Name: "own"})
		}
	case 13: // session cookies around, own cookie under a near-miss name
		for _, d := range g.delivs {
			jar = append(jar, absCookie{Src: "session", Step: d, Name: "session"})
		}
		if own >= 0 {
			jar = append(jar, absCookie{Src: "tracking", Step: own, Name: "=saml_"}, absCookie{Src: "tracking", Step: own, Name: "=SAML_x"})
		}
	case 14: // full jar plus session cookies and garbage
		full()
		for _, d := range g.delivs {
			jar = append(jar, absCookie{Src: "session", Step: d, Name: "session"})
		}
		jar = append(jar, absCookie{Src: "garbage", Step: 0, Name: "=other"})
	case 15: // session token under a tracking-style name only
		if len(g.delivs) > 0 {
			jar = append(jar, absCookie{Src: "session", Step: g.delivs[r.Intn(len(g.delivs))], Name: []string{"=saml_", "own-sub"}[r.Intn(2)]})
		}
		full()
	}
	return jar
}

func (g *histGen) randRelay(own int) string {
	r := g.c.Rng
	switch r.Intn(13) {
	case 0, 1, 2, 3, 4:
		return "faithful"
	case 5:
		if len(g.starts) > 1 {
			return fmt.Sprintf("flow:%d", g.starts[r.Intn(len(g.starts))])
		}
		return "faithful"
	case 6:
		return "unknown"
	case 7:
		return "empty"
	case 8:
		return "url"
	case 9:
		return "=third"
	case 11:
		return "empty-present"
	case 12:
		return []string{"long:80", "long:255", "long:255", "long:4096"}[r.Intn(4)]
	default:
		return "=/protected/a?x=1"
	}
}

// apps returns n cookies the application itself set (unrelated to the middleware)
func apps(n int, tag string) []absCookie {
	out := make([]absCookie, n)
	for i := range out {
		out[i] = absCookie{Src: "garbage", Step: i, Name: fmt.Sprintf("=app-%s%d", tag, i)}
	}
	return out
}

func randomHistory(c *Ctx, cfg worldCfg, maxLen int) []absStep {
	g := &histGen{c: c, cfg: cfg, answOf: map[int]int{}}
	r := c.Rng
	n := 3 + r.Intn(maxLen-2)
	mid := cfg.MidS * nsPerS
	users := []string{"alice", "bob", "mallory"}
	// what the installed RelayStateFunc does in this history: a unique non-empty value per request,
	// "" always, "" for some requests, or the same value more than once
	relayMode := r.Intn(4)
	lastRelay := ""
	nextRelay := func() string {
		if !cfg.CustomRelay {
			return ""
		}
		fresh := fmt.Sprintf(customRelayTemplates[r.Intn(len(customRelayTemplates))], g.nextID*1000+r.Intn(1000))
		v := fresh
		switch relayMode {
		case 1:
			v = ""
		case 2:
			if r.Intn(2) == 0 {
				v = ""
			}
		case 3:
			if lastRelay != "" && r.Intn(2) == 0 {
				v = lastRelay
			}
		}
		if v != "" {
			lastRelay = v
		}
		return v
	}
	c.Count(fmt.Sprintf("hist/relay-func/custom=%v/mode=%d", cfg.CustomRelay, relayMode))
	for len(g.steps) < n {
		switch k := r.Intn(20); {
		case k < 5 || len(g.starts) == 0: // start
			st := absStep{Op: "start", URL: pageURLs[r.Intn(len(pageURLs))], Relay0: nextRelay()}
			g.starts = append(g.starts, g.add(st))
		case k < 9: // IdP answers some flow (or unsolicited)
			flow := g.starts[r.Intn(len(g.starts))]
			if r.Intn(8) == 0 {
				flow = -1
			}
			id := g.add(absStep{Op: "answer", Flow: flow, User: users[r.Intn(len(users))], BadIdP: r.Intn(10) == 0})
			g.answs = append(g.answs, id)
			g.answOf[id] = flow
		case k < 15: // deliver
			if len(g.answs) == 0 {
				continue
			}
			a := g.answs[r.Intn(len(g.answs))]
			if r.Intn(3) != 0 {
				a = g.answs[len(g.answs)-1]
			}
			own := g.answOf[a]
			id := g.add(absStep{Op: "deliver", Answer: a, Jar: g.randJar(own), Relay: g.randRelay(own), HTTPS: r.Intn(4) == 0})
			g.delivs = append(g.delivs, id)
		case k < 17: // page
			var jar []absCookie
			if len(g.delivs) > 0 && r.Intn(3) != 0 {
				jar = append(jar, absCookie{Src: "session", Step: g.delivs[r.Intn(len(g.delivs))], Name: "session", Mut: []string{"", "", "", "bitflip", "resign"}[r.Intn(5)]})
			}
			if len(g.starts) > 0 && r.Intn(3) == 0 {
				// a tracking token where the session is expected
				jar = append([]absCookie{{Src: "tracking", Step: g.starts[r.Intn(len(g.starts))], Name: "session"}}, jar...)
			}
			g.starts = append(g.starts, g.add(absStep{Op: "page", URL: pageURLs[r.Intn(len(pageURLs))], Jar: jar, Relay0: nextRelay()}))
		case k == 19 && r.Intn(3) == 0: // a start over a connection that breaks
			g.add(absStep{Op: "start-broken-writer", URL: pageURLs[r.Intn(len(pageURLs))], Relay0: nextRelay()})
		default: // advance
			var dt int64
			switch r.Intn(8) {
			case 0:
				dt = int64(r.Intn(5000)) * 1000000
			case 1:
				dt = mid/2 + int64(r.Intn(1000))*1000000
			case 2: // land exactly on the expiry of the latest flow (tokens expire at whole seconds)
				dt = g.toExpiry(mid, 0)
			case 3:
				dt = g.toExpiry(mid, -1)
			case 4:
				dt = g.toExpiry(mid, 1)
			case 5:
				dt = g.toExpiry(mid, -nsPerS)
			case 6:
				dt = g.toExpiry(mid, nsPerS)
			default:
				dt = int64(r.Intn(int(cfg.MidS))) * nsPerS / 3
			}
			if dt <= 0 {
				dt = 1000000
			}
			g.clock += dt
			g.add(absStep{Op: "advance", DT: dt})
		}
		if st := g.steps[len(g.steps)-1]; (st.Op == "start" || st.Op == "page") && len(g.startClock) < len(g.starts) {
			g.startClock = append(g.startClock, g.clock)
		}
	}
	return g.steps
}

// Values a custom RelayStateFunc may return.  The value becomes part of a cookie NAME
// (prefix ++ index), so only RFC 7230 token characters survive http.SetCookie; within
// those, every character that means something in a URL query or an HTML attribute.
var customRelayTemplates = []string{"rs-%d", "a+b+%d", "q&r&%d", "p%%41-%d", "h#frag%d", "%%2B%d%%26", "m!$'*^`|~.%d", "a+&#%%%d", "x&RelayState%d", "1+1&2%%%d#"}

// ---------- directed histories ----------
func tr(step int) absCookie { return absCookie{Src: "tracking", Step: step, Name: "own"} }

func directedHistories(cfg worldCfg) map[string][]absStep {
	mid := cfg.MidS * nsPerS
	// tokens of a flow started at t0C17 expire at this offset
	expOff := floorDiv(t0C17+mid, nsPerS)*nsPerS - t0C17
	h := map[string][]absStep{}
	mk := func(steps ...absStep) []absStep {
		for i := range steps {
			steps[i].ID = i
		}
		return steps
	}
	start := func(u string) absStep { return absStep{Op: "start", URL: u} }
	answer := func(flow int, user string) absStep { return absStep{Op: "answer", Flow: flow, User: user} }
	deliver := func(a int, relay string, jar ...absCookie) absStep {
		return absStep{Op: "deliver", Answer: a, Relay: relay, Jar: jar}
	}
	adv := func(dt int64) absStep { return absStep{Op: "advance", DT: dt} }

	h["single-flow-completes"] = mk(start("/protected/a?x=1"), answer(0, "alice"), deliver(1, "faithful", tr(0)),
		absStep{Op: "page", URL: "/protected/a?x=1", Jar: []absCookie{{Src: "session", Step: 2, Name: "session"}}})
	h["broken-writer-then-flows"] = mk(absStep{Op: "start-broken-writer", URL: "/protected/z"}, start("/protected/a?x=1"), absStep{Op: "start-broken-writer", URL: "/protected/y"},
		start("/protected/b"), answer(3, "alice"), answer(1, "alice"), deliver(4, "faithful", tr(1), tr(3)), deliver(5, "faithful", tr(1), tr(3)))
	// RelayState at the ACS: absent / present but empty / long values
	h["relay-present-empty"] = mk(start("/protected/a?x=1"), answer(0, "alice"), deliver(1, "empty-present", tr(0)), deliver(1, "empty", tr(0)), deliver(1, "empty-present"))
	for _, n := range []int{80, 255, 4096} {
		h[fmt.Sprintf("relay-long-%d", n)] = mk(start("/protected/a?x=1"), answer(0, "alice"), deliver(1, fmt.Sprintf("long:%d", n), tr(0)), deliver(1, "faithful", tr(0)))
	}
	// the browser presents n unrelated cookies before (and after) the tracking cookie
	for _, n := range []int{0, 1, 31, 32, 33, 100} {
		jar := append(append(apps(n, "b"), tr(0), tr(1)), apps(2, "a")...)
		h[fmt.Sprintf("app-cookies-before-%03d", n)] = mk(start("/protected/a?x=1"), start("/protected/b"), answer(1, "alice"), answer(0, "alice"),
			absStep{Op: "deliver", Answer: 2, Relay: "faithful", Jar: jar}, absStep{Op: "deliver", Answer: 3, Relay: "faithful", Jar: jar})
	}
	h["no-cookie"] = mk(start("/protected/a?x=1"), answer(0, "alice"), deliver(1, "faithful"))
	h["no-cookie-no-relay"] = mk(start("/protected/a?x=1"), answer(0, "alice"), deliver(1, "empty"))
	h["cookie-no-relay-default-redirect"] = mk(start("/protected/a?x=1"), answer(0, "alice"), deliver(1, "empty", tr(0)))
	h["relay-is-url"] = mk(start("/protected/a?x=1"), answer(0, "alice"), deliver(1, "url", tr(0)))
	h["relay-unknown"] = mk(start("/protected/a?x=1"), answer(0, "alice"), deliver(1, "unknown", tr(0)))
	h["two-flows-interleaved"] = mk(start("/protected/a?x=1"), start("/protected/b"), answer(1, "alice"), answer(0, "alice"),
		deliver(2, "faithful", tr(0), tr(1)), deliver(3, "faithful", tr(0), tr(1)))
	h["three-flows-reverse-order"] = mk(start("/protected/a?x=1"), start("/protected/b"), start("/d/e/f"), answer(2, "bob"), answer(1, "bob"), answer(0, "bob"),
		deliver(3, "faithful", tr(0), tr(1), tr(2)), deliver(4, "faithful", tr(0), tr(1), tr(2)), deliver(5, "faithful", tr(0), tr(1), tr(2)))
	h["other-flows-cookie-only"] = mk(start("/protected/a?x=1"), start("/protected/b"), answer(0, "alice"), deliver(2, "faithful", tr(1)), deliver(2, "flow:1", tr(1)))
	h["other-flows-relay"] = mk(start("/protected/a?x=1"), start("/protected/b"), answer(0, "alice"), deliver(2, "flow:1", tr(0), tr(1)))
	h["renamed-cookie"] = mk(start("/protected/a?x=1"), start("/protected/b"), answer(0, "alice"),
		deliver(2, "flow:1", absCookie{Src: "tracking", Step: 0, Name: "flow:1"}), deliver(2, "faithful", absCookie{Src: "tracking", Step: 0, Name: "flow:1"}))
	h["own-cookie-also-under-other-name"] = mk(start("/protected/a?x=1"), start("/protected/b"), answer(0, "alice"),
		deliver(2, "flow:1", tr(0), absCookie{Src: "tracking", Step: 0, Name: "flow:1"}),
		deliver(2, "=third", tr(0), absCookie{Src: "tracking", Step: 1, Name: "=saml_third"}))
	h["swapped-values"] = mk(start("/protected/a?x=1"), start("/protected/b"), answer(0, "alice"),
		deliver(2, "faithful", absCookie{Src: "tracking", Step: 0, Name: "flow:1"}, absCookie{Src: "tracking", Step: 1, Name: "flow:0"}))
	h["unsolicited-with-pending-flow"] = mk(start("/protected/a?x=1"), answer(-1, "mallory"), deliver(1, "empty", tr(0)), deliver(1, "faithful", tr(0)), deliver(1, "flow:0", tr(0)))
	h["unsolicited-empty-jar"] = mk(answer(-1, "mallory"), deliver(0, "empty"), deliver(0, "url"))
	h["replay-after-completion"] = mk(start("/protected/a?x=1"), answer(0, "alice"), deliver(1, "faithful", tr(0)), deliver(1, "faithful", tr(0)), deliver(1, "faithful"), deliver(1, "empty"))
	h["untrusted-idp"] = mk(start("/protected/a?x=1"), absStep{Op: "answer", Flow: 0, User: "mallory", BadIdP: true}, deliver(1, "faithful", tr(0)))
	h["session-token-as-tracking-cookie"] = mk(start("/protected/a?x=1"), answer(0, "alice"), deliver(1, "faithful", tr(0)), start("/protected/b"), answer(-1, "mallory"),
		deliver(4, "empty", absCookie{Src: "session", Step: 2, Name: "=saml_"}),
		deliver(4, "empty", absCookie{Src: "session", Step: 2, Name: "flow:3"}),
		deliver(4, "flow:3", absCookie{Src: "session", Step: 2, Name: "flow:3"}),
		deliver(4, "empty", absCookie{Src: "session", Step: 2, Name: "own-sub"}),
		deliver(4, "=alice", absCookie{Src: "session", Step: 2, Name: "own-sub"}),
		deliver(4, "empty", absCookie{Src: "session", Step: 2, Name: "own-sub"}, tr(3)))
	for _, m := range []string{"bitflip", "truncate", "resign", "payload"} {
		h["damaged-cookie-"+m] = mk(start("/protected/a?x=1"), answer(0, "alice"), deliver(1, "faithful", absCookie{Src: "tracking", Step: 0, Name: "own", Mut: m}),
			deliver(1, "faithful", absCookie{Src: "tracking", Step: 0, Name: "own", Mut: m}, tr(0)))
	}
	// the tracking lifetime: the IdP answers late in the window, the response is still fresh when the cookie dies
	for name, d := range map[string]int64{"lifetime-1s": -nsPerS, "lifetime-1ns": -1, "lifetime+0": 0, "lifetime+1ns": 1, "lifetime+1s": nsPerS, "lifetime+10s": 10 * nsPerS, "lifetime+half": mid / 2} {
		late := expOff - 5*nsPerS
		if late < 0 {
			late = 0
		}
		late = late / 1000000 * 1000000
		h[name] = mk(start("/protected/a?x=1"), adv(late), answer(0, "alice"), adv(expOff+d-late), deliver(2, "faithful", tr(0)))
	}
	// a second flow started later keeps the browser alive; the first flow's cookie is expired
	h["expired-flow-with-live-sibling"] = mk(start("/protected/a?x=1"), adv(expOff-4*nsPerS), answer(0, "alice"), start("/protected/b"), adv(4*nsPerS),
		deliver(2, "faithful", tr(0), tr(3)), deliver(2, "flow:3", tr(0), tr(3)))
	h["page-with-tracking-token-as-session"] = mk(start("/protected/a?x=1"), absStep{Op: "page", URL: "/protected/b", Jar: []absCookie{{Src: "tracking", Step: 0, Name: "session"}}})
	h["https-request-on-acs"] = mk(start("/protected/a?x=1"), answer(0, "alice"), absStep{Op: "deliver", Answer: 1, Relay: "faithful", Jar: []absCookie{tr(0)}, HTTPS: true})
	if !cfg.CustomRelay && !cfg.AllowIDP && cfg.MidS == 90 && cfg.DefaultRedirect == "" {
		// n logins pending at once; every one of them completes, whatever its position among the cookies
		for _, n := range []int{2, 33, 40} {
			if n == 40 && !cfg.Post {
				continue
			}
			if n == 33 && cfg.Post {
				continue
			}
			var steps []absStep
			var jar []absCookie
			for i := 0; i < n; i++ {
				steps = append(steps, start(fmt.Sprintf("/protected/p%d", i)))
				jar = append(jar, tr(i))
			}
			for i := 0; i < n; i++ {
				steps = append(steps, answer(n-1-i, "alice"))
			}
			for i := 0; i < n; i++ {
				steps = append(steps, absStep{Op: "deliver", Answer: n + i, Relay: "faithful", Jar: jar})
			}
			h[fmt.Sprintf("pending-logins-%02d", n)] = mk(steps...)
		}
	}
	if cfg.CustomRelay {
		// long RelayStateFunc values: they reach the IdP unchanged and the flows complete
		for _, n := range []int{79, 80, 81, 255, 4096} {
			v := strings.Repeat("r", n-2)
			h[fmt.Sprintf("custom-relay-length-%04d", n)] = mk(absStep{Op: "start", URL: "/protected/a?x=1", Relay0: v + "-1"}, absStep{Op: "start", URL: "/protected/b", Relay0: v + "-2"},
				answer(1, "alice"), answer(0, "bob"), deliver(2, "faithful", tr(0), tr(1)), deliver(3, "faithful", tr(0), tr(1)))
		}
		for i, v := range []string{"a+b", "q&r", "p%41", "h#frag", "%2B%26", "m!$'*^`|~.", "a+&#%", "x&RelayState", "+", "&", "%", "#"} {
			h[fmt.Sprintf("custom-relay-metachar-%02d", i)] = mk(absStep{Op: "start", URL: "/protected/a?x=1", Relay0: v}, absStep{Op: "start", URL: "/protected/b", Relay0: v + "2"},
				answer(1, "alice"), answer(0, "bob"), deliver(2, "faithful", tr(0), tr(1)), deliver(3, "faithful", tr(0), tr(1)))
		}
		rs := func(u, v string) absStep { return absStep{Op: "start", URL: u, Relay0: v} }
		// the func returns "" for every request: each flow falls back to its own random index
		h["custom-relay-empty-interleaved"] = mk(rs("/protected/a?x=1", ""), rs("/protected/b", ""), answer(1, "alice"), answer(0, "bob"),
			deliver(2, "faithful", tr(0), tr(1)), deliver(3, "faithful", tr(0), tr(1)))
		h["custom-relay-empty-three-flows"] = mk(rs("/protected/a?x=1", ""), rs("/protected/b", ""), rs("/d/e/f", ""), answer(0, "alice"), answer(2, "alice"), answer(1, "alice"),
			deliver(3, "faithful", tr(0), tr(1), tr(2)), deliver(4, "faithful", tr(0), tr(1), tr(2)), deliver(5, "faithful", tr(0), tr(1), tr(2)))
		// "" for some requests only
		h["custom-relay-some-empty"] = mk(rs("/protected/a?x=1", "v-1"), rs("/protected/b", ""), rs("/d/e/f", "v-2"), rs("/", ""), answer(3, "bob"), answer(1, "bob"), answer(0, "bob"), answer(2, "bob"),
			deliver(4, "faithful", tr(0), tr(1), tr(2), tr(3)), deliver(5, "faithful", tr(0), tr(1), tr(2), tr(3)),
			deliver(6, "faithful", tr(0), tr(1), tr(2), tr(3)), deliver(7, "faithful", tr(0), tr(1), tr(2), tr(3)))
		// the same value twice: both cookies bear the same name; the jar is not trusted to have merged them
		h["custom-relay-same-twice"] = mk(rs("/protected/a?x=1", "dup"), rs("/protected/b", "dup"), answer(0, "alice"), answer(1, "alice"),
			deliver(2, "faithful", tr(0), tr(1)), deliver(3, "faithful", tr(1), tr(0)), deliver(3, "faithful", tr(1)))
		h["custom-relay-empty-page"] = mk(absStep{Op: "page", URL: "/protected/a?x=1", Relay0: ""}, absStep{Op: "page", URL: "/protected/b", Relay0: ""}, answer(0, "alice"),
			deliver(2, "faithful", tr(0), tr(1)))
		h["custom-relay-state"] = mk(absStep{Op: "start", URL: "/protected/a?x=1", Relay0: "my-relay-1"}, absStep{Op: "start", URL: "/protected/b", Relay0: ""}, answer(0, "alice"), answer(1, "alice"),
			deliver(2, "faithful", tr(0), tr(1)), deliver(3, "faithful", tr(0), tr(1)))
	}
	return h
}

// exhaustiveHistories enumerates every sequence of length <= depth over the alphabet
// {start A, start B, IdP answers A, IdP answers B, deliver A faithfully with the full jar,
//
//	deliver A with only B's cookie, deliver A's answer with B's RelayState, deliver B faithfully,
//	advance past the tracking lifetime} in which every action is applicable.
func exhaustiveHistories(mid int64, depth int) [][]absStep {
	type st struct {
		steps          []absStep
		startA, startB int // step ids, -1 if not yet
		ansA, ansB     int
	}
	var out [][]absStep
	var rec func(s st)
	rec = func(s st) {
		if len(s.steps) > 0 {
			last := s.steps[len(s.steps)-1]
			if last.Op == "deliver" { // only histories ending in a delivery say anything new
				out = append(out, append([]absStep(nil), s.steps...))
			}
		}
		if len(s.steps) == depth {
			return
		}
		id := len(s.steps)
		push := func(a absStep, f func(n *st)) {
			a.ID = id
			n := s
			n.steps = append(append([]absStep(nil), s.steps...), a)
			if f != nil {
				f(&n)
			}
			rec(n)
		}
		jarFull := func() []absCookie {
			var j []absCookie
			if s.startA >= 0 {
				j = append(j, tr(s.startA))
			}
			if s.startB >= 0 {
				j = append(j, tr(s.startB))
			}
			return j
		}
		if s.startA < 0 {
			push(absStep{Op: "start", URL: "/protected/a?x=1"}, func(n *st) { n.startA = id })
		}
		if s.startB < 0 && s.startA >= 0 {
			push(absStep{Op: "start", URL: "/protected/b"}, func(n *st) { n.startB = id })
		}
		if s.startA >= 0 && s.ansA < 0 {
			push(absStep{Op: "answer", Flow: s.startA, User: "alice"}, func(n *st) { n.ansA = id })
		}
		if s.startB >= 0 && s.ansB < 0 {
			push(absStep{Op: "answer", Flow: s.startB, User: "bob"}, func(n *st) { n.ansB = id })
		}
		if s.ansA >= 0 {
			push(absStep{Op: "deliver", Answer: s.ansA, Relay: "faithful", Jar: jarFull()}, nil)
			if s.startB >= 0 {
				push(absStep{Op: "deliver", Answer: s.ansA, Relay: "faithful", Jar: []absCookie{tr(s.startB)}}, nil)
				push(absStep{Op: "deliver", Answer: s.ansA, Relay: fmt.Sprintf("flow:%d", s.startB), Jar: jarFull()}, nil)
			}
		}
		if s.ansB >= 0 {
			push(absStep{Op: "deliver", Answer: s.ansB, Relay: "faithful", Jar: jarFull()}, nil)
		}
		if len(s.steps) > 0 && s.steps[len(s.steps)-1].Op != "advance" {
			push(absStep{Op: "advance", DT: mid}, nil)
		}
	}
	rec(st{startA: -1, startB: -1, ansA: -1, ansB: -1})
	return out
}

// ---------- shrinking ----------
// drop steps (and, inside a step, jar entries) while the Go-side monitor still reports a failure
func shrink(cfg worldCfg, hist []absStep, seed int64) []absStep {
	fails := func(h []absStep) bool { return runHistory(cfg, h, seed).failed }
	cur := append([]absStep(nil), hist...)
	for changed := true; changed; {
		changed = false
		for i := len(cur) - 1; i >= 0; i-- {
			cand := append(append([]absStep(nil), cur[:i]...), cur[i+1:]...)
			if fails(cand) {
				cur, changed = cand, true
			}
		}
		for i := range cur {
			for j := len(cur[i].Jar) - 1; j >= 0; j-- {
				cand := append([]absStep(nil), cur...)
				st := cand[i]
				st.Jar = append(append([]absCookie(nil), st.Jar[:j]...), st.Jar[j+1:]...)
				cand[i] = st
				if fails(cand) {
					cur, changed = cand, true
				}
			}
		}
	}
	return cur
}

func runC17(c *Ctx) {
	defer restoreClock()
	oldMid, oldRand, oldClock := saml.MaxIssueDelay, saml.RandReader, saml.Clock
	defer func() { saml.MaxIssueDelay, saml.RandReader, saml.Clock = oldMid, oldRand, oldClock }()
	log.SetOutput(io.Discard)
	defer log.SetOutput(os.Stderr)

	newWorld(worldCfg{HTTPS: true, MidS: 90}).learnLayout()
	gcfg := c.Group("cfg", []string{"Tokens", "Middleware"}, "mcfgcase", "check_mcfgcases")
	gh := c.Group("hist", []string{"Tokens", "Middleware"}, "hcase", "check_hcases")

	worlds := []worldCfg{
		{HTTPS: true, MidS: 90},
		{HTTPS: false, MidS: 90},
		{HTTPS: true, Post: true, MidS: 90},
		{HTTPS: false, Post: true, MidS: 30, DefaultRedirect: "/home"},
		{HTTPS: true, CustomRelay: true, MidS: 90},
		{HTTPS: false, Post: true, CustomRelay: true, MidS: 90},
		{HTTPS: true, MidS: 45, CookieName: "sess", DefaultRedirect: "/welcome?x=1"},
		{HTTPS: true, AllowIDP: true, MidS: 90},
	}
	for _, wc := range worlds {
		w := newWorld(wc)
		c.Count("cfg/" + wc.label())
		c.Add(gcfg, &Case{
			Key:   map[string]string{"op": "new", "world": wc.label()},
			Input: wc,
			Obs:   map[string]any{"live": w.liveCfgTerm()},
			Term:  fmt.Sprintf("{| mc_model := %s; mc_live := %s |}", w.cfgTerm(), w.liveCfgTerm()),
		})
	}

	addHist := func(wc worldCfg, name, class string, hist []absStep, seed int64) {
		res := runHistory(wc, hist, seed)
		if len(res.script) == 0 {
			return
		}
		emitCase := func(r execResult, cls string, shrunkFrom int) {
			c.Count("hist/class/" + cls)
			c.Count("hist/world/" + wc.label())
			c.Count(fmt.Sprintf("hist/len/%02d", (len(r.script)+4)/5*5))
			c.Count(fmt.Sprintf("hist/flows/%d", r.flows))
			c.Extra["deliveries_accepted"] = toInt(c.Extra["deliveries_accepted"]) + r.accepts
			c.Extra["deliveries_refused"] = toInt(c.Extra["deliveries_refused"]) + r.refused
			hb, _ := json.Marshal(r.steps)
			var hj any
			_ = json.Unmarshal(hb, &hj)
			in := map[string]any{"world": wc, "history": hj, "name": name, "seed": seed}
			if shrunkFrom > 0 {
				in["shrunk_from_steps"] = shrunkFrom
			}
			note := ""
			if r.failed {
				note = "harness monitor: " + r.why
				c.Count("hist/monitor-failed")
			}
			c.Add(gh, &Case{
				Key:   map[string]string{"op": "history", "class": cls, "world": wc.label()},
				Input: in,
				Obs:   r.obs,
				Note:  note,
				Term:  fmt.Sprintf("{| hc_cfg := %s; hc_t0 := %s; hc_script := %s; hc_obs := %s |}", newWorld(wc).cfgTerm(), emit.Z(t0C17), emit.List(r.script), emit.List(mapStr(r.obs, orTerm))),
			})
		}
		if res.failed {
			// minimal failing action list first (smallest input is reported first), then the original
			sh := shrink(wc, hist, seed)
			if len(sh) < len(hist) {
				emitCase(runHistory(wc, sh, seed), class+"-shrunk", len(hist))
			}
		}
		emitCase(res, class, 0)
	}

	if p := os.Getenv("VERIF_REPLAY"); p != "" {
		// re-run exactly the stored history
		var rp struct {
			Case struct {
				Input struct {
					World   worldCfg  `json:"world"`
					History []absStep `json:"history"`
					Name    string    `json:"name"`
					Seed    int64     `json:"seed"`
				} `json:"input"`
			} `json:"case"`
		}
		if b, err := os.ReadFile(p); err == nil && json.Unmarshal(b, &rp) == nil && len(rp.Case.Input.History) > 0 {
			addHist(rp.Case.Input.World, rp.Case.Input.Name, "replay", rp.Case.Input.History, rp.Case.Input.Seed)
			return
		}
	}
	for wi, wc := range worlds {
		dh := directedHistories(wc)
		names := make([]string, 0, len(dh))
		for n := range dh {
			names = append(names, n)
		}
		sortStrings(names)
		for _, n := range names {
			addHist(wc, n, "directed/"+n, dh[n], int64(wi)+1)
		}
	}
	if c.Thorough() {
		// bounded-exhaustive: every applicable sequence over a reduced alphabet, two concurrent flows, depth <= 7
		wc := worlds[0]
		n := 0
		for _, h := range exhaustiveHistories(wc.MidS*nsPerS, 7) {
			n++
			addHist(wc, fmt.Sprintf("exhaustive-%d", n), "exhaustive", h, 7)
		}
		c.Extra["exhaustive_histories"] = n
	}
	nrand := 300
	if c.Thorough() {
		nrand = 5000
	}
	for i := 0; i < nrand; i++ {
		wc := worlds[i%len(worlds)]
		if wc.AllowIDP && i%3 != 0 {
			wc = worlds[(i/len(worlds))%(len(worlds)-1)]
		}
		addHist(wc, fmt.Sprintf("random-%d", i), "random", randomHistory(c, wc, 25), c.Seed*100000+int64(i))
	}
}

func toInt(v any) int {
	if i, ok := v.(int); ok {
		return i
	}
	return 0
}

func mapStr[T any](xs []T, f func(T) string) []string {
	out := make([]string, len(xs))
	for i, x := range xs {
		out[i] = f(x)
	}
	return out
}

func sortStrings(s []string) {
	for i := 1; i < len(s); i++ {
		for j := i; j > 0 && s[j] < s[j-1]; j-- {
			s[j], s[j-1] = s[j-1], s[j]
		}
	}
}
