package main

import (
	"net/http"
	_ "unsafe" // go:linkname

	"github.com/crewjam/saml"
	"github.com/crewjam/saml/samlidp"
)

// sendLoginForm is samlidp's own (unexported) rendering path of the login form: the handler code
// that picks the template, builds the data struct and executes it.  Linking to it lets the check
// pass HOSTILE toast text through exactly that code (no exported path carries request data into
// the toast on the unchanged tree: GetSession only passes "" and one constant message).
//
//go:linkname sendLoginForm github.com/crewjam/saml/samlidp.(*Server).sendLoginForm
func sendLoginForm(s *samlidp.Server, w http.ResponseWriter, req *saml.IdpAuthnRequest, toast string)
