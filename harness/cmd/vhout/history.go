package main

import (
	. "verifharness/internal/core"

	"encoding/base64"
	"encoding/hex"
	"errors"
	"fmt"
	"net/http"
	"net/http/httptest"
	"net/url"
	"strings"

	"github.com/beevik/etree"
	"github.com/crewjam/saml"
	"github.com/crewjam/saml/samlsp"
	dsig "github.com/russellhaering/goxmldsig"

	"verifharness/internal/emit"
	"verifharness/internal/fix"
)

// HISTORY / SHARED STATE: one long-lived ServiceProvider (or Middleware) value is driven through
// a sequence of productions while its configuration is edited in place, the value is copied and
// the copy given its own settings, one message object is serialised several times in every
// order, and pages are written to a failing ResponseWriter.  Every production is compared with
// what the CURRENT configuration of that value calls for (the models take the configuration as
// an input, i.e. they are the "fresh object").

// wireMessage produces message kind (0 AuthnRequest, 1 LogoutRequest, 2 LogoutResponse) on binding
// bnd (0 redirect, 1 POST) through the Make* wrappers and returns the XML recovered from the wire,
// the URL text (redirect) and the destination the current configuration names.
func wireMessage(sp *saml.ServiceProvider, o spOpts, kind, bnd int64, relay, arg string) (wire []byte, urlText, dest string, err error) {
	param := "SAMLRequest"
	if kind == 2 {
		param = "SAMLResponse"
	}
	var u *url.URL
	var h []byte
	switch {
	case kind == 0 && bnd == 0:
		dest = o.ssoRedirect
		u, err = sp.MakeRedirectAuthenticationRequest(relay)
	case kind == 0:
		dest = o.ssoPost
		h, err = sp.MakePostAuthenticationRequest(relay)
	case kind == 1 && bnd == 0:
		dest = o.sloRedirect
		u, err = sp.MakeRedirectLogoutRequest(arg, relay)
	case kind == 1:
		dest = o.sloPost
		h, err = sp.MakePostLogoutRequest(arg, relay)
	case bnd == 0:
		dest = o.sloRedirect
		u, err = sp.MakeRedirectLogoutResponse(arg, relay)
	default:
		dest = o.sloPost
		h, err = sp.MakePostLogoutResponse(arg, relay)
	}
	if err != nil {
		return
	}
	if bnd == 0 {
		urlText = u.String()
		wire, _ = inflate64(queryOf(urlText).Get(param))
	} else {
		v, _ := formValueOf(h, param)
		wire, _ = base64.StdEncoding.DecodeString(v)
	}
	return
}

type tenant struct {
	name string
	sp   *saml.ServiceProvider
	o    spOpts
}

// ---------- C12: message contents follow the CURRENT configuration ----------
func c12History(c *Ctx) {
	g := c.Group("history", []string{"UrlEnc", "Outbound"}, "mfcase", "check_mfcases")
	gb := c.Group("historyurls", []string{}, "bool", "check_bools")
	nrun := 6
	if c.Thorough() {
		nrun = 60
	}
	for run := 0; run < nrun; run++ {
		o := defaultOpts()
		o.entityID = "" // issuer defaults to the metadata URL
		if run%3 == 1 {
			o.entityID = "urn:sp:first"
		}
		if run%2 == 1 {
			o.method = dsig.RSASHA256SignatureMethod
		}
		spv := buildSP(o)
		tenants := []*tenant{{"original", spv, o}}
		type keptURL struct {
			u    *url.URL
			text string
		}
		var kept []keptURL
		nsteps := 14
		for step := 0; step < nsteps; step++ {
			t := tenants[(step/2)%len(tenants)]
			// (i) edit the configuration in place / (ii) copy the value for another tenant, every other step
			if step > 0 && step%2 == 0 {
				// every edit touches ONLY the fields it changes, as an operator's code would
				switch (step/2 + run) % 7 {
				case 0:
					t.o.metadataURL = fmt.Sprintf("https://sp.example.com/t%d-%d/metadata", run, step)
					t.sp.MetadataURL = mustURL(t.o.metadataURL)
				case 1:
					t.o.acsURL = fmt.Sprintf("https://sp.example.com/acs/%d/%d", run, step)
					t.sp.AcsURL = mustURL(t.o.acsURL)
				case 2:
					t.o.ssoRedirect, t.o.ssoPost = fmt.Sprintf("https://idp.example.com/sso/%d?x=%d", step, run), fmt.Sprintf("https://idp.example.com/sso-post/%d", step)
					t.o.sloRedirect, t.o.sloPost = fmt.Sprintf("https://idp.example.com/slo/%d?y=%d", step, run), fmt.Sprintf("https://idp.example.com/slo-post/%d", step)
					if step%4 == 0 {
						t.sp.IDPMetadata = buildSP(t.o).IDPMetadata // replaced
					} else {
						d := &t.sp.IDPMetadata.IDPSSODescriptors[0] // edited in place
						d.SingleSignOnServices[0].Location, d.SingleSignOnServices[1].Location = t.o.ssoRedirect, t.o.ssoPost
						d.SingleLogoutServices[0].Location, d.SingleLogoutServices[1].Location = t.o.sloRedirect, t.o.sloPost
					}
				case 3:
					t.o.entityID = fmt.Sprintf("urn:sp:explicit:%d", step)
					t.sp.EntityID = t.o.entityID
				case 4:
					t.o.nameIDFormat = []saml.NameIDFormat{saml.UnspecifiedNameIDFormat, saml.EmailAddressNameIDFormat, ""}[step%3]
					t.o.idpEntity = fmt.Sprintf("https://idp.example.com/metadata/%d", step)
					t.sp.AuthnNameIDFormat = t.o.nameIDFormat
					t.sp.IDPMetadata.EntityID = t.o.idpEntity
				case 5:
					// the multi-tenant pattern: copy the (already used) value and give the copy its own URLs
					cp := *t.sp
					md := *t.sp.IDPMetadata
					md.IDPSSODescriptors = append([]saml.IDPSSODescriptor(nil), md.IDPSSODescriptors...)
					d0 := md.IDPSSODescriptors[0]
					d0.SingleSignOnServices = append([]saml.Endpoint(nil), d0.SingleSignOnServices...)
					d0.SingleLogoutServices = append([]saml.Endpoint(nil), d0.SingleLogoutServices...)
					md.IDPSSODescriptors[0] = d0
					cp.IDPMetadata = &md
					nt := &tenant{fmt.Sprintf("copy%d", step), &cp, t.o}
					nt.o.metadataURL = fmt.Sprintf("https://tenant%d.example.com/saml/metadata", step)
					nt.o.acsURL = fmt.Sprintf("https://tenant%d.example.com/saml/acs", step)
					cp.MetadataURL, cp.AcsURL = mustURL(nt.o.metadataURL), mustURL(nt.o.acsURL)
					tenants = append(tenants, nt)
					t = nt
				default:
					// the operator unsets the explicit entity ID again and moves the metadata URL
					t.o.entityID, t.o.metadataURL = "", fmt.Sprintf("https://sp.example.com/again/%d/metadata", step)
					t.sp.EntityID, t.sp.MetadataURL = "", mustURL(t.o.metadataURL)
				}
			}
			kind, bnd := int64(step%3), int64((step/3)%2)
			relay := fmt.Sprintf("rs-%d-%d&x=<%d>", run, step, step)
			arg := saml.HTTPPostBinding
			switch kind {
			case 1:
				arg = fmt.Sprintf("user%d@example.com", step)
			case 2:
				arg = fmt.Sprintf("id-req-%d", step)
			}
			rr := &recReader{src: c.Rng}
			var wire []byte
			var urlText, dest string
			var err error
			problem := ""
			var panicked bool
			withEnv(rr, func() {
				panicked, _ = guard(func() {
					wire, urlText, dest, err = wireMessage(t.sp, t.o, kind, bnd, relay, arg)
					if err == nil && bnd == 0 {
						// (iv) the URL carries exactly its own message and relay state, once
						q := queryOf(urlText)
						param := map[bool]string{true: "SAMLResponse", false: "SAMLRequest"}[kind == 2]
						if len(q[param]) != 1 || len(q["RelayState"]) != 1 || q.Get("RelayState") != relay {
							problem = "the URL does not carry exactly its own message and relay state"
						}
					}
					if err == nil && kind == 0 && !strings.Contains(dest, "#") {
						// this library's IdP, with the SP's CURRENT metadata registered, accepts the request
						var verdict string
						if bnd == 0 {
							verdict, _ = idpValidate(t.sp, dest, "GET", urlText, "")
						} else {
							body := url.Values{"SAMLRequest": {base64.StdEncoding.EncodeToString(wire)}, "RelayState": {relay}}.Encode()
							verdict, _ = idpValidate(t.sp, dest, "POST", dest, body)
						}
						c.Count("history/idp_validate/" + verdict)
						if verdict != "ok" {
							problem = "this library's IdP (SP's current metadata registered) rejects the request: " + verdict
						}
					}
				})
			})
			if bnd == 0 && err == nil && !panicked {
				if u, e := url.Parse(urlText); e == nil {
					_ = u
				}
			}
			root := parseRoot(wire)
			var fs [][2]any
			switch kind {
			case 0:
				fs = authnFieldsOf(root)
			case 1:
				fs = logoutReqFieldsOf(root)
			default:
				fs = logoutRespFieldsOf(root)
			}
			var specOK *bool
			if panicked || err != nil || root == nil || problem != "" {
				specOK = Bptr(false)
			}
			id := ""
			if len(rr.out) >= 20 {
				id = "id-" + hex.EncodeToString(rr.out[:20])
			}
			obsF := map[string]any{}
			for _, x := range fs {
				obsF[x[0].(string)] = x[1]
			}
			obs := map[string]any{"fields": obsF}
			if problem != "" {
				obs["problem"] = problem
			}
			c.Count("history/tenant/" + map[bool]string{true: "original", false: "copy"}[t.name == "original"])
			c.Count(fmt.Sprintf("history/kind/%d/binding/%d", kind, bnd))
			c.Add(g, &Case{
				Key:   map[string]string{"op": "history_message_fields", "kind": fmt.Sprint(kind), "binding": fmt.Sprint(bnd), "tenant": map[bool]string{true: "original", false: "copy"}[t.name == "original"]},
				Input: map[string]any{"run": run, "step": step, "tenant": t.name, "entity_id": t.o.entityID, "metadata_url": t.o.metadataURL, "acs": t.o.acsURL, "dest": dest, "arg": arg, "note": "configuration edited in place / value copied between productions"},
				Obs:   obs,
				Term: fmt.Sprintf("{| mf_cfg := %s; mf_kind := %d; mf_id := %s; mf_dest := %s; mf_arg := %s; mf_fields := %s |}",
					cfgTerm(t.o), kind, emit.Str(id), emit.Str(dest), emit.Str(arg), fieldsTerm(fs)),
				ImplSpecOK: specOK,
			})
			_ = kept
		}
		// (iv) *url.URL values returned earlier do not change while later messages are produced
		var us []*url.URL
		var texts []string
		withEnv(&recReader{src: c.Rng}, func() {
			guard(func() {
				for k := 0; k < 4; k++ {
					u, err := tenants[0].sp.MakeRedirectAuthenticationRequest(fmt.Sprintf("again-%d", k))
					if err == nil {
						us = append(us, u)
						texts = append(texts, u.String())
					}
					if u2, err := tenants[0].sp.MakeRedirectLogoutRequest("u", fmt.Sprintf("lo-%d", k)); err == nil {
						us = append(us, u2)
						texts = append(texts, u2.String())
					}
				}
			})
		})
		same := len(us) == 8
		for i := range us {
			same = same && us[i].String() == texts[i] && strings.Count(texts[i], "SAMLRequest=") == 1
		}
		c.Add(gb, &Case{Key: map[string]string{"op": "history_urls_stable"}, Input: map[string]any{"run": run}, Obs: map[string]any{"urls": texts}, Term: emit.Bool(same), Dedup: fmt.Sprint(run)})
	}
}

// ---------- C13: signatures follow the CURRENT key, certificate and method ----------
func c13History(c *Ctx) {
	g := c.Group("history", []string{"UrlEnc", "Outbound"}, "sgcase", "check_sgcases")
	gb := c.Group("historyorder", []string{}, "bool", "check_bools")
	keys := map[string]keyFix{}
	for _, k := range allKeys() {
		keys[k.name] = k
	}
	type cfg struct{ key, method string }
	// rotations applied IN PLACE to one ServiceProvider: same method with another key of the same type,
	// other method, key of the other type under an unchanged method (must be refused), and back
	scripts := [][]cfg{
		{{"rsa_a", dsig.RSASHA256SignatureMethod}, {"rsa_1024", dsig.RSASHA256SignatureMethod}, {"rsa_1024", dsig.RSASHA1SignatureMethod}, {"ec_256", dsig.RSASHA1SignatureMethod}, {"ec_256", dsig.ECDSASHA256SignatureMethod}, {"ec_384", dsig.ECDSASHA256SignatureMethod}, {"rsa_a", dsig.ECDSASHA256SignatureMethod}, {"rsa_a", dsig.RSASHA512SignatureMethod}, {"rsa_a", ""}, {"rsa_3072", dsig.RSASHA512SignatureMethod}},
		{{"ec_256", dsig.ECDSASHA384SignatureMethod}, {"ec_384", dsig.ECDSASHA384SignatureMethod}, {"rsa_a", dsig.ECDSASHA384SignatureMethod}, {"rsa_a", dsig.RSASHA384SignatureMethod}, {"rsa_1024", dsig.RSASHA384SignatureMethod}},
	}
	emitSG := func(sp *saml.ServiceProvider, cf cfg, kf keyFix, kind, bnd int64, label string, step int) {
		cert, _, _ := publishedCert(sp) // what this SP publishes NOW
		clsN, xmlSig, redirSig := int64(0), false, false
		why := ""
		var wire []byte
		var urlText string
		var err error
		var panicked bool
		withEnv(&recReader{src: c.Rng}, func() {
			panicked, _ = guard(func() {
				if kind == 3 {
					var r *saml.ArtifactResolve
					r, err = sp.MakeArtifactResolveRequest("artifact")
					if err == nil {
						wire = docBytes(r.Element())
					}
					return
				}
				arg := "user@example.com"
				if kind == 2 {
					arg = "id-req"
				}
				o := defaultOpts()
				wire, urlText, _, err = wireMessage(sp, o, kind, bnd, "rs", arg)
			})
		})
		switch {
		case panicked:
			clsN = 2
		case err != nil:
			clsN = 1
		default:
			root := parseRoot(wire)
			if root == nil {
				why = "emitted message is not recoverable from the wire form"
			} else if xmlSig = hasSigChild(root); xmlSig {
				why = verifyEnveloped(root, cert, cf.method)
			}
			if kind == 0 && bnd == 0 {
				q := queryOf(urlText)
				redirSig = len(q["Signature"]) > 0 || len(q["SigAlg"]) > 0
				if redirSig {
					octets, sig, ok := cutOctets(urlText)
					switch {
					case !ok:
						why = "cannot cut the signed octets out of the URL"
					case q.Get("SigAlg") != cf.method:
						why = "SigAlg is not the configured method"
					case !verifyRaw(cert, cf.method, []byte(octets), sig):
						why = "redirect signature does not verify under the certificate the SP publishes now"
					}
				}
			}
		}
		var specOK *bool
		obs := map[string]any{"class": clsN, "xml_signature": xmlSig, "redirect_signature": redirSig}
		if why != "" {
			specOK = Bptr(false)
			obs["verification"] = why
		}
		c.Count("history/state/" + label)
		c.Add(g, &Case{
			Key: map[string]string{"op": "history_sign", "state": label, "kind": fmt.Sprint(kind), "binding": fmt.Sprint(bnd), "method": cf.method, "key": cf.key},
			Input: map[string]any{"history": label, "step": step, "kind": []string{"AuthnRequest", "LogoutRequest", "LogoutResponse", "ArtifactResolve"}[kind], "binding": []string{"redirect", "post"}[bnd],
				"current_signature_method": cf.method, "current_key": cf.key},
			Obs: obs,
			Term: fmt.Sprintf("{| sg_kind := %d; sg_binding := %d; sg_method := %s; sg_kt := %d; sg_cls := %d; sg_xmlsig := %s; sg_redirsig := %s |}",
				kind, bnd, emit.Str(cf.method), ktOf(kf.key), clsN, emit.Bool(xmlSig), emit.Bool(redirSig)),
			ImplSpecOK: specOK,
			Dedup:      fmt.Sprintf("%s|%d|%d|%d", label, step, kind, bnd),
		})
	}
	allKinds := [][2]int64{{0, 0}, {0, 1}, {1, 0}, {1, 1}, {2, 0}, {2, 1}, {3, 0}}
	for si, script := range scripts {
		o := defaultOpts()
		first := keys[script[0].key]
		o.key, o.cert, o.method = first.key, first.cert, script[0].method
		sp := buildSP(o)
		for step, cf := range script {
			kf := keys[cf.key]
			if step > 0 {
				// (i) rotated in place
				sp.Key, sp.Certificate, sp.SignatureMethod = kf.key, kf.cert, cf.method
			}
			for ki, kb := range allKinds {
				if !c.Thorough() && (ki+step+si)%2 == 1 && step > 0 {
					continue
				}
				emitSG(sp, cf, kf, kb[0], kb[1], "rotated_in_place", step)
			}
			if step == 1 || step == 4 {
				// (ii) a copy of the used value with its own key pair; the original goes on with its own
				cp := *sp
				other := keys[map[bool]string{true: "rsa_3072", false: "ec_521"}[ktOf(kf.key) == 0]]
				cp.Key, cp.Certificate = other.key, other.cert
				ocf := cfg{other.name, cf.method}
				for _, kb := range allKinds {
					emitSG(&cp, ocf, other, kb[0], kb[1], "copy_with_own_key", step)
				}
				for _, kb := range [][2]int64{{0, 1}, {1, 0}, {3, 0}} {
					emitSG(sp, cf, kf, kb[0], kb[1], "original_after_copy", step)
				}
			}
		}
	}
	// (iii) several serialisations of ONE message object, in every order: each emitted form of a signed
	// message carries a signature that verifies
	type ser struct {
		name string
		run  func() ([]byte, string) // emitted XML, redirect URL text ("" if none)
	}
	for ci, cm := range []cfg{{"rsa_a", dsig.RSASHA256SignatureMethod}, {"ec_256", dsig.ECDSASHA256SignatureMethod}} {
		kf := keys[cm.key]
		o := defaultOpts()
		o.key, o.cert, o.method = kf.key, kf.cert, cm.method
		sp := buildSP(o)
		cert, _, _ := publishedCert(sp)
		orders := [][]int{{0, 1}, {1, 0, 1}, {2, 0, 2, 1}, {0, 0, 1, 2}, {1, 2, 0, 1}}
		for oi, order := range orders {
			withEnv(&recReader{src: c.Rng}, func() {
				guard(func() {
					ar, err := sp.MakeAuthenticationRequest(o.ssoPost, saml.HTTPPostBinding, saml.HTTPPostBinding)
					lr, err2 := sp.MakeLogoutRequest(o.sloPost, "user")
					lp, err3 := sp.MakeLogoutResponse(o.sloPost, "id-req")
					if err != nil || err2 != nil || err3 != nil {
						c.Add(gb, &Case{Key: map[string]string{"op": "serialisation_order"}, Input: map[string]any{"key": cm.key}, Obs: map[string]any{"problem": "constructor failed"}, Term: "false"})
						return
					}
					sers := map[string][]ser{
						"AuthnRequest": {
							{"Redirect", func() ([]byte, string) {
								u, e := ar.Redirect("rs", sp)
								if e != nil {
									return nil, ""
								}
								x, _ := inflate64(queryOf(u.String()).Get("SAMLRequest"))
								return x, u.String()
							}},
							{"Post", func() ([]byte, string) {
								v, _ := formValueOf(ar.Post("rs"), "SAMLRequest")
								x, _ := base64.StdEncoding.DecodeString(v)
								return x, ""
							}},
							{"Element", func() ([]byte, string) { return docBytes(ar.Element()), "" }},
						},
						"LogoutRequest": {
							{"Redirect", func() ([]byte, string) {
								x, _ := inflate64(queryOf(lr.Redirect("rs").String()).Get("SAMLRequest"))
								return x, ""
							}},
							{"Post", func() ([]byte, string) {
								v, _ := formValueOf(lr.Post("rs"), "SAMLRequest")
								x, _ := base64.StdEncoding.DecodeString(v)
								return x, ""
							}},
							{"Bytes", func() ([]byte, string) { b, _ := lr.Bytes(); return b, "" }},
						},
						"LogoutResponse": {
							{"Redirect", func() ([]byte, string) {
								x, _ := inflate64(queryOf(lp.Redirect("rs").String()).Get("SAMLResponse"))
								return x, ""
							}},
							{"Post", func() ([]byte, string) {
								v, _ := formValueOf(lp.Post("rs"), "SAMLResponse")
								x, _ := base64.StdEncoding.DecodeString(v)
								return x, ""
							}},
							{"Element", func() ([]byte, string) { return docBytes(lp.Element()), "" }},
						},
					}
					for _, typ := range []string{"AuthnRequest", "LogoutRequest", "LogoutResponse"} {
						var names []string
						good := true
						why := ""
						for _, k := range order {
							s := sers[typ][k]
							names = append(names, s.name)
							x, urlText := s.run()
							root := parseRoot(x)
							if root == nil {
								good, why = false, s.name+": not recoverable"
								break
							}
							if !hasSigChild(root) {
								good, why = false, fmt.Sprintf("%s (call %d of %v): the emitted message is unsigned although the request was signed", s.name, len(names), names)
								break
							}
							if w := verifyEnveloped(root, cert, cm.method); w != "" {
								good, why = false, s.name+": "+w
								break
							}
							if urlText != "" {
								octets, sig, ok := cutOctets(urlText)
								if !ok || !verifyRaw(cert, cm.method, []byte(octets), sig) {
									good, why = false, s.name+": redirect signature does not verify"
									break
								}
							}
						}
						c.Count("historyorder/type/" + typ)
						obs := map[string]any{"all_signed_and_verified": good}
						if why != "" {
							obs["problem"] = why
						}
						c.Add(gb, &Case{Key: map[string]string{"op": "serialisation_order", "type": typ, "key": cm.key},
							Input: map[string]any{"message": typ + " signed for the POST binding", "serialisations_in_order": names, "key": cm.key, "method": cm.method},
							Obs:   obs, Term: emit.Bool(good), Dedup: fmt.Sprintf("%d|%d|%s", ci, oi, typ)})
					}
				})
			})
		}
	}
}

// ---------- C14: pages after a failed write ----------
type failingWriter struct {
	h      http.Header
	status int
	writes int
}

func (f *failingWriter) Header() http.Header { return f.h }
func (f *failingWriter) WriteHeader(s int)   { f.status = s }
func (f *failingWriter) Write(p []byte) (int, error) {
	f.writes++
	return 0, errors.New("connection reset by peer")
}

func c14History(c *Ctx) {
	hs := hostileStrings(c, 0)
	n := 0
	addForm := func(kind int64, urlS, msg, relay, toast string, html []byte, note string, failed bool) {
		g := c.Group(fmt.Sprintf("historyforms%d", n/25), []string{"UrlEnc", "HtmlEsc"}, "fmcase", "check_fmcases")
		n++
		var specOK *bool
		if failed {
			specOK = Bptr(false)
		}
		dv := domViewOf(html)
		forms := 0
		for _, e := range dv {
			if e.Tag == "form" {
				forms++
			}
		}
		c.Count(fmt.Sprintf("historyforms/kind/%d", kind))
		c.Count(fmt.Sprintf("historyforms/forms_in_page/%d", forms))
		c.Add(g, &Case{
			Key:   map[string]string{"op": "form_after_failed_write", "kind": fmt.Sprint(kind)},
			Input: map[string]any{"history": note, "url": urlS, "relay_state": relay},
			Obs:   map[string]any{"html": string(html), "forms_in_page": forms},
			Term: fmt.Sprintf("{| fm_kind := %d; fm_data := {| fd_url := %s; fd_msg := %s; fd_relay := %s; fd_toast := %s |}; fm_html := %s; fm_dom := %s |}",
				kind, emit.Str(urlS), emit.Str(msg), emit.Str(relay), emit.Str(toast), emit.Str(string(html)), domTerm(dv)),
			ImplSpecOK: specOK,
		})
	}
	// the middleware: visitors alternate between a connection that breaks during the write and a healthy one
	o := defaultOpts()
	sp := buildSP(o)
	tracker := &seqTracker{}
	m := &samlsp.Middleware{ServiceProvider: *sp, Binding: saml.HTTPPostBinding, ResponseBinding: saml.HTTPPostBinding, RequestTracker: tracker, OnError: samlsp.DefaultOnError}
	idpSrv := newQuietIdpServer()
	withEnv(&recReader{src: c.Rng}, func() {
		for i := 0; i < 18; i++ {
			relay := hs[(i*5+1)%len(hs)].s
			tracker.relay = relay
			fail := i%3 == 0 || i%7 == 3
			r := httptest.NewRequest("GET", fmt.Sprintf("https://sp.example.com/protected/%d", i), nil)
			if fail {
				guard(func() { m.HandleStartAuthFlow(&failingWriter{h: http.Header{}}, r) })
				continue
			}
			w := httptest.NewRecorder()
			p, _ := guard(func() { m.HandleStartAuthFlow(w, r) })
			html := w.Body.Bytes()
			msg, _ := formValueOf(html, "SAMLRequest")
			addForm(5, o.ssoPost, msg, relay, "", html, fmt.Sprintf("visitor %d of one Middleware; some earlier visitors' connections failed during the write", i), p || w.Code != 200)
		}
		// the IdP's response form and the login form after failed writes
		for i := 0; i < 8; i++ {
			relay := hs[(i*3+2)%len(hs)].s
			el := etree.NewElement("samlp:Response")
			el.CreateAttr("ID", fmt.Sprintf("id-%d", i))
			req := &saml.IdpAuthnRequest{IDP: &saml.IdentityProvider{}, ResponseEl: el, RelayState: relay,
				ACSEndpoint: &saml.IndexedEndpoint{Binding: saml.HTTPPostBinding, Location: "https://sp.example.com/acs"}, ServiceProviderMetadata: &saml.EntityDescriptor{EntityID: "sp"}}
			if i%2 == 0 {
				guard(func() { req.WriteResponse(&failingWriter{h: http.Header{}}) })
				buf := []byte(fmt.Sprintf("<AuthnRequest>%d</AuthnRequest>", i))
				lreq := &saml.IdpAuthnRequest{IDP: &idpSrv.IDP, RequestBuffer: buf, RelayState: relay}
				guard(func() { sendLoginForm(idpSrv, &failingWriter{h: http.Header{}}, lreq, "x") })
				continue
			}
			w := httptest.NewRecorder()
			p, _ := guard(func() { req.WriteResponse(w) })
			doc := etree.NewDocument()
			doc.WriteSettings.CanonicalText, doc.WriteSettings.CanonicalAttrVal = true, true
			doc.SetRoot(el.Copy())
			b, _ := doc.WriteToBytes()
			addForm(3, "https://sp.example.com/acs", base64.StdEncoding.EncodeToString(b), relay, "", w.Body.Bytes(), "IdP response form after a failed write", p)
			buf := []byte(fmt.Sprintf("<AuthnRequest>%d</AuthnRequest>", i))
			lreq := &saml.IdpAuthnRequest{IDP: &idpSrv.IDP, RequestBuffer: buf, RelayState: relay}
			w2 := httptest.NewRecorder()
			toast := hs[(i*7+3)%len(hs)].s
			p2, _ := guard(func() { sendLoginForm(idpSrv, w2, lreq, toast) })
			addForm(4, idpSrv.IDP.LoginURL.String(), base64.StdEncoding.EncodeToString(buf), relay, toast, w2.Body.Bytes(), "login form after a failed write", p2)
		}
	})
	_ = fix.Cert
}

type seqTracker struct{ relay string }

func (t *seqTracker) TrackRequest(http.ResponseWriter, *http.Request, string) (string, error) {
	return t.relay, nil
}
func (t *seqTracker) StopTrackingRequest(http.ResponseWriter, *http.Request, string) error {
	return nil
}
func (t *seqTracker) GetTrackedRequests(*http.Request) []samlsp.TrackedRequest { return nil }
func (t *seqTracker) GetTrackedRequest(*http.Request, string) (*samlsp.TrackedRequest, error) {
	return nil, http.ErrNoCookie
}
