package main

import (
	. "verifharness/internal/core"

	"encoding/base64"
	"fmt"
	"strings"

	"github.com/crewjam/saml"

	"verifharness/internal/emit"
)

// c13Sizes: SIZE - signed (and unsigned) messages whose serialised length sits on and around the
// buffer sizes serialisers and encoders use (4096, 8192, 12288 +-1, and well beyond), reached
// with long name identifiers / InResponseTo / SP URLs, for small and large keys: every emitted
// form (POST field, redirect parameter, Bytes) must still be ONE recoverable message whose
// signature verifies under the published certificate.
func c13Sizes(c *Ctx) {
	g := c.Group("sizes", []string{"UrlEnc", "Outbound"}, "sgcase", "check_sgcases")
	keys := map[string]keyFix{}
	for _, k := range allKeys() {
		keys[k.name] = k
	}
	type km struct{ key, method string }
	combos := []km{{"rsa_a", sigMethods[1]}, {"rsa_4096", sigMethods[3]}, {"ec_256", sigMethods[5]}, {"rsa_a", ""}}
	targets := []int{4095, 4096, 4097, 8191, 8192, 8193, 12289, 20000}
	if !c.Thorough() {
		targets = []int{4095, 4096, 4097, 8192, 8193, 20000}
	}
	for _, cm := range combos {
		kf := keys[cm.key]
		o := defaultOpts()
		o.key, o.cert, o.method = kf.key, kf.cert, cm.method
		sp := buildSP(o)
		cert, _, _ := publishedCert(sp)
		for kind := int64(0); kind <= 2; kind++ {
			// the serialised length with a filler of length n
			build := func(n int) (post []byte, redirect string, raw []byte, err error) {
				filler := strings.Repeat("x", n)
				withEnv(&recReader{src: c.Rng}, func() {
					guard(func() {
						switch kind {
						case 0:
							o2 := o
							o2.acsURL = "https://sp.example.com/acs?f=" + filler
							sp2 := buildSP(o2)
							var r *saml.AuthnRequest
							r, err = sp2.MakeAuthenticationRequest(o.ssoPost, saml.HTTPPostBinding, saml.HTTPPostBinding)
							if err == nil {
								post, raw = r.Post("rs"), docBytes(r.Element())
							}
						case 1:
							var r *saml.LogoutRequest
							r, err = sp.MakeLogoutRequest(o.sloPost, "u"+filler)
							if err == nil {
								post, redirect = r.Post("rs"), r.Redirect("rs").String()
								raw, _ = r.Bytes()
							}
						default:
							var r *saml.LogoutResponse
							r, err = sp.MakeLogoutResponse(o.sloPost, "id-"+filler)
							if err == nil {
								post, redirect, raw = r.Post("rs"), r.Redirect("rs").String(), docBytes(r.Element())
							}
						}
					})
				})
				return
			}
			_, _, raw0, err0 := build(0)
			if err0 != nil || raw0 == nil {
				continue
			}
			for _, target := range targets {
				n := target - len(raw0)
				if n < 0 {
					continue
				}
				post, redirect, raw, err := build(n)
				param := "SAMLRequest"
				if kind == 2 {
					param = "SAMLResponse"
				}
				type emittedForm struct {
					entry string
					wire  []byte
					ok    bool
				}
				var forms []emittedForm
				if err == nil {
					v, okv := formValueOf(post, param)
					x, e := base64.StdEncoding.DecodeString(v)
					forms = append(forms, emittedForm{"Post", x, okv && e == nil})
					if redirect != "" {
						y, e2 := inflate64(queryOf(redirect).Get(param))
						forms = append(forms, emittedForm{"Redirect", y, e2 == nil})
					}
					forms = append(forms, emittedForm{"Bytes/Element", raw, true})
				}
				for _, f := range forms {
					xmlSig, why := false, ""
					root := parseRoot(f.wire)
					switch {
					case !f.ok || root == nil:
						why = "the emitted field is not one recoverable message"
					default:
						if xmlSig = hasSigChild(root); xmlSig {
							why = verifyEnveloped(root, cert, cm.method)
						}
					}
					var specOK *bool
					obs := map[string]any{"serialised_bytes": len(raw), "xml_signature": xmlSig}
					if why != "" {
						specOK = Bptr(false)
						obs["verification"] = why
					}
					c.Count(fmt.Sprintf("sizes/serialised_bytes/%d", len(raw)))
					c.Count("sizes/entry/" + f.entry)
					c.Add(g, &Case{
						Key: map[string]string{"op": "message_size", "kind": fmt.Sprint(kind), "entry": f.entry, "key": cm.key, "method": cm.method, "target": fmt.Sprint(target)},
						Input: map[string]any{"kind": []string{"AuthnRequest (long ACS URL)", "LogoutRequest (long name ID)", "LogoutResponse (long InResponseTo)"}[kind],
							"entry_point": f.entry, "serialised_message_bytes": len(raw), "filler_bytes": n, "key": cm.key, "signature_method": cm.method},
						Obs: obs,
						Term: fmt.Sprintf("{| sg_kind := %d; sg_binding := 1; sg_method := %s; sg_kt := %d; sg_cls := 0; sg_xmlsig := %s; sg_redirsig := false |}",
							kind, emit.Str(cm.method), ktOf(kf.key), emit.Bool(xmlSig)),
						ImplSpecOK: specOK,
						Dedup:      fmt.Sprintf("%d|%s|%s|%s|%d", kind, f.entry, cm.key, cm.method, target),
					})
				}
			}
		}
	}
}
