package main

import (
	"bytes"

	"golang.org/x/net/html"
)

// domElem is the independent (golang.org/x/net/html, an HTML5 parser) view of an element.
type domElem struct {
	Tag   string
	Attrs [][2]string
	Text  string // concatenated text children (script/p bodies)
}

// domElems returns every element of the parsed document in document order.
func domElems(doc []byte) []domElem {
	root, err := html.Parse(bytes.NewReader(doc))
	if err != nil {
		return nil
	}
	var out []domElem
	var walk func(n *html.Node)
	walk = func(n *html.Node) {
		if n.Type == html.ElementNode {
			e := domElem{Tag: n.Data}
			for _, a := range n.Attr {
				k := a.Key
				if a.Namespace != "" {
					k = a.Namespace + ":" + k
				}
				e.Attrs = append(e.Attrs, [2]string{k, a.Val})
			}
			for ch := n.FirstChild; ch != nil; ch = ch.NextSibling {
				if ch.Type == html.TextNode {
					e.Text += ch.Data
				}
			}
			out = append(out, e)
		}
		for ch := n.FirstChild; ch != nil; ch = ch.NextSibling {
			walk(ch)
		}
	}
	walk(root)
	return out
}

func (e domElem) attr(k string) (string, bool) {
	for _, a := range e.Attrs {
		if a[0] == k {
			return a[1], true
		}
	}
	return "", false
}

func init() {
	// value of the unique <input name=…> of a form, as an HTML5 parser sees it
	formValueOf = func(doc []byte, name string) (string, bool) {
		found, val := 0, ""
		for _, e := range domElems(doc) {
			if e.Tag != "input" {
				continue
			}
			if n, ok := e.attr("name"); ok && n == name {
				found++
				val, _ = e.attr("value")
			}
		}
		return val, found == 1
	}
}
