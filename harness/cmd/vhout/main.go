// vhout — correspondence harness for the SP's outbound messages, the HTML
// forms and the metadata endpoint checks (C12, C13, C14).
package main

import . "verifharness/internal/core"

func main() { Main() }
