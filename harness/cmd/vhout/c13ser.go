package main

import (
	. "verifharness/internal/core"

	"bytes"
	"compress/flate"
	"encoding/base64"
	"fmt"
	"io"
	"strings"

	"github.com/beevik/etree"
	"github.com/crewjam/saml"

	"verifharness/internal/emit"
)

// c13Serialisations verifies, for every signed outbound message, the signature on the bytes
// ACTUALLY EMITTED by each serialisation entry point of the message types (Element, Bytes,
// Deflate, Redirect, Post, SoapRequest) - not on a tree obtained some other way.
func c13Serialisations(c *Ctx) {
	g := c.Group("serial", []string{"UrlEnc", "Outbound"}, "sgcase", "check_sgcases")
	type km struct {
		key    string
		method string
	}
	combos := []km{{"rsa_a", sigMethods[1]}, {"rsa_a", sigMethods[0]}, {"rsa_1024", sigMethods[3]}, {"ec_256", sigMethods[5]}, {"ec_384", sigMethods[6]}, {"rsa_a", ""}}
	if c.Thorough() {
		combos = append(combos, km{"rsa_3072", sigMethods[2]}, km{"ec_521", sigMethods[7]}, km{"ec_256", sigMethods[4]}, km{"ec_256", ""})
	}
	keys := map[string]keyFix{}
	for _, k := range allKeys() {
		keys[k.name] = k
	}
	inflateRaw := func(b []byte) []byte {
		x, err := io.ReadAll(flate.NewReader(bytes.NewReader(b)))
		if err != nil {
			return nil
		}
		return x
	}
	for ci, cm := range combos {
		kf := keys[cm.key]
		o := defaultOpts()
		o.key, o.cert, o.method = kf.key, kf.cert, cm.method
		if ci%2 == 1 {
			o.sloRedirect += "?tenant=acme"
			o.sloPost += "?tenant=acme"
			o.ssoPost += "?tenant=acme"
		}
		sp := buildSP(o)
		cert, _, _ := publishedCert(sp)
		nameID := []string{"user@example.com", "a&b<c>\"d'", "ü—名"}[ci%3]
		type emitted struct {
			kind  int64
			bnd   int64 // 0: the redirect form (detached signature for AuthnRequest), 1: carries the element itself
			entry string
			get   func() ([]byte, error)
		}
		var entries []emitted
		withEnv(&recReader{src: c.Rng}, func() {
			guard(func() {
				if ar, err := sp.MakeAuthenticationRequest(o.ssoPost, saml.HTTPPostBinding, saml.HTTPPostBinding); err == nil {
					entries = append(entries,
						emitted{0, 1, "AuthnRequest.Element", func() ([]byte, error) { return docBytes(ar.Element()), nil }},
						emitted{0, 1, "AuthnRequest.Post", func() ([]byte, error) {
							v, _ := formValueOf(ar.Post("rs"), "SAMLRequest")
							return base64.StdEncoding.DecodeString(v)
						}})
				}
				if lr, err := sp.MakeLogoutRequest(o.sloRedirect, nameID); err == nil {
					entries = append(entries,
						emitted{1, 1, "LogoutRequest.Element", func() ([]byte, error) { return docBytes(lr.Element()), nil }},
						emitted{1, 1, "LogoutRequest.Bytes", func() ([]byte, error) { return lr.Bytes() }},
						emitted{1, 1, "LogoutRequest.Deflate", func() ([]byte, error) {
							b, err := lr.Deflate()
							if err != nil {
								return nil, err
							}
							return inflateRaw(b), nil
						}},
						emitted{1, 0, "LogoutRequest.Redirect", func() ([]byte, error) { return inflate64(queryOf(lr.Redirect("rs").String()).Get("SAMLRequest")) }},
						emitted{1, 1, "LogoutRequest.Post", func() ([]byte, error) {
							v, _ := formValueOf(lr.Post("rs"), "SAMLRequest")
							return base64.StdEncoding.DecodeString(v)
						}})
				}
				if lp, err := sp.MakeLogoutResponse(o.sloPost, "id-req"); err == nil {
					entries = append(entries,
						emitted{2, 1, "LogoutResponse.Element", func() ([]byte, error) { return docBytes(lp.Element()), nil }},
						emitted{2, 0, "LogoutResponse.Redirect", func() ([]byte, error) { return inflate64(queryOf(lp.Redirect("rs").String()).Get("SAMLResponse")) }},
						emitted{2, 1, "LogoutResponse.Post", func() ([]byte, error) {
							v, _ := formValueOf(lp.Post("rs"), "SAMLResponse")
							return base64.StdEncoding.DecodeString(v)
						}})
				}
				if ar, err := sp.MakeArtifactResolveRequest("artifact-" + nameID); err == nil {
					entries = append(entries,
						emitted{3, 0, "ArtifactResolve.Element", func() ([]byte, error) { return docBytes(ar.Element()), nil }},
						emitted{3, 0, "ArtifactResolve.SoapRequest", func() ([]byte, error) { return docBytes(ar.SoapRequest()), nil }})
				}
			})
		})
		if len(entries) != 12 {
			c.Add(g, &Case{Key: map[string]string{"op": "serialisation", "entry": "constructors"}, Input: map[string]any{"key": cm.key, "method": cm.method},
				Obs: map[string]any{"problem": "a constructor failed for a fitting method/key pair"}, ImplSpecOK: Bptr(false),
				Term: fmt.Sprintf("{| sg_kind := 0; sg_binding := 1; sg_method := %s; sg_kt := %d; sg_cls := 1; sg_xmlsig := false; sg_redirsig := false |}", emit.Str(cm.method), ktOf(kf.key))})
			continue
		}
		for _, e := range entries {
			var wire []byte
			var err error
			p, _ := guard(func() { wire, err = e.get() })
			xmlSig, why := false, ""
			clsN := int64(0)
			switch {
			case p:
				clsN = 2
			case err != nil:
				clsN = 1
			default:
				doc := etree.NewDocument()
				if doc.ReadFromBytes(wire) != nil || doc.Root() == nil {
					why = "the emitted bytes are not a well-formed document"
				} else {
					root := doc.Root()
					if strings.HasSuffix(e.entry, "SoapRequest") {
						root = child(child(root, "Body"), "ArtifactResolve")
					}
					if root == nil {
						why = "message element not found in the emitted bytes"
					} else if xmlSig = hasSigChild(root); xmlSig {
						why = verifyEnveloped(root, cert, cm.method)
					}
				}
			}
			var specOK *bool
			obs := map[string]any{"class": clsN, "xml_signature": xmlSig}
			if why != "" {
				specOK = Bptr(false)
				obs["verification"] = why
				obs["emitted"] = string(wire)
			}
			c.Count("serial/entry/" + e.entry)
			c.Count(fmt.Sprintf("serial/signed/%v", xmlSig))
			c.Add(g, &Case{
				Key:   map[string]string{"op": "serialisation", "entry": e.entry, "method": cm.method, "key": cm.key},
				Input: map[string]any{"entry_point": e.entry, "signature_method": cm.method, "key": cm.key, "name_id": nameID},
				Obs:   obs,
				Term: fmt.Sprintf("{| sg_kind := %d; sg_binding := %d; sg_method := %s; sg_kt := %d; sg_cls := %d; sg_xmlsig := %s; sg_redirsig := false |}",
					e.kind, map[bool]int64{true: 1, false: e.bnd}[e.kind == 0], emit.Str(cm.method), ktOf(kf.key), clsN, emit.Bool(xmlSig)),
				ImplSpecOK: specOK,
				Dedup:      fmt.Sprintf("%s|%s|%s", e.entry, cm.method, cm.key),
			})
		}
	}
}
