package main

import (
	. "verifharness/internal/core"

	"encoding/base64"
	"encoding/hex"
	"fmt"
	"math/big"
	mrand "math/rand"
	"net/http"
	"net/url"
	"os"
	"sort"
	"strings"
	"time"

	"github.com/beevik/etree"
	"github.com/crewjam/saml"
	dsig "github.com/russellhaering/goxmldsig"

	"verifharness/internal/emit"
)

func init() { Props["C12"] = runC12 }

type cls struct{ class, s string }

func repeatTo(unit string, n int) string {
	var sb strings.Builder
	for sb.Len() < n {
		sb.WriteString(unit)
	}
	return sb.String()[:n]
}

// metaStrings: relay states / name IDs over URL, HTML and XML metacharacters and lengths.
// All are valid UTF-8 without NUL and without XML-illegal control characters.
func metaStrings(c *Ctx, nRandom int) []cls {
	out := []cls{
		{"empty", ""}, {"plain", "relayState"}, {"amp", "a&b=c"}, {"eq", "a=b"}, {"hash", "x#y"},
		{"plus", "a+b"}, {"pct", "100%"}, {"pct41", "a+b%41"}, {"pctbad", "%zz%"}, {"semi", "a;b"},
		{"space", "a b  c "}, {"quotes", `"q" 'r' ` + "`t`"}, {"angle", "<x>&lt;</x>"},
		{"nonascii", "héllo—世界\U0001F600"}, {"inject", "SAMLRequest=evil&SigAlg=none"},
		{"inject2", "&RelayState=other"}, {"url", "/app/landing?tab=2&user=alice"},
		{"absurl", "https://sp.example.com/a?b=c&d=e#frag"}, {"qmark", "?"}, {"reserved", "a/b:c@d$e,f!g*h(i)j"},
		{"marks", "-_.~"}, {"b64url", "KCkuIF8tdGVzdA-_"}, {"b64", "ab+/cd=="}, {"tab_nl", "a\tb\nc"},
		{"lsep", "a b c"}, {"backslash", `a\b\\c`}, {"braces", "{{.X}}${y}"},
		{"len79", repeatTo("0123456789", 79)}, {"len80", repeatTo("0123456789", 80)}, {"len81", repeatTo("0123456789", 81)},
		{"len80meta", repeatTo("a&b=c+d e%", 80)}, {"len81meta", repeatTo("a&b=c+d e%", 81)},
		{"len255", repeatTo("relay-0123456789_", 255)}, {"rune_straddles_80", repeatTo("0123456789", 79) + "é世"},
		{"len200", repeatTo("x&y=z#+% é", 200)}, {"len4000", repeatTo("relay-state_0123456789&=#+%; ", 4000)},
	}
	alphabet := []string{"&", "=", "#", "+", "%", "%41", "%2", ";", " ", "\"", "'", "<", ">", "?", "/", ":", "@", "a", "Z", "0", "-", "_", ".", "~", "é", "世", "!", "*", "(", ")", ",", "$", "[", "]", "|", "^", "{", "}", "\\", "`"}
	for i := 0; i < nRandom; i++ {
		n := 1 + c.Rng.Intn(12)
		var sb strings.Builder
		for k := 0; k < n; k++ {
			sb.WriteString(alphabet[c.Rng.Intn(len(alphabet))])
		}
		out = append(out, cls{"random", sb.String()})
	}
	return out
}

var endpointSuffixes = []cls{
	{"noquery", ""}, {"q1", "?x=1"}, {"q2", "?x=1&y=2"}, {"trailingq", "?"}, {"qesc", "?tenant=a%20b&flow=s+p"},
	{"qsemi", "?a=1;b=2&c=3"}, {"qempty", "?&&x=1&"}, {"qnoval", "?flag&k="}, {"qdup", "?x=1&x=2&a=0"},
	{"qsaml", "?SAMLRequest=evil"}, {"qrelay", "?RelayState=own"}, {"frag", "?x=1#top"},
}

type staticSPP struct {
	md map[string]*saml.EntityDescriptor
}

func (s staticSPP) GetServiceProvider(_ *http.Request, id string) (*saml.EntityDescriptor, error) {
	if m, ok := s.md[id]; ok {
		return m, nil
	}
	return nil, os.ErrNotExist
}

func sortedPairs(v url.Values) [][2]string {
	keys := make([]string, 0, len(v))
	for k := range v {
		keys = append(keys, k)
	}
	sort.Strings(keys)
	var out [][2]string
	for _, k := range keys {
		for _, x := range v[k] {
			out = append(out, [2]string{k, x})
		}
	}
	return out
}

func pairsTerm(ps [][2]string) string {
	items := make([]string, len(ps))
	for i, p := range ps {
		items[i] = "(" + emit.Str(p[0]) + ", " + emit.Str(p[1]) + ")"
	}
	return emit.List(items)
}

func runC12(c *Ctx) {
	c12Codec(c)
	c12AuthnRedirect(c, false)
	c12LogoutRedirect(c)
	c12IDs(c)
	c12Fields(c)
	c12Post(c)
	c12IssueInstant(c)
	c12Destinations(c)
	c12Retained(c)
	c12History(c)
}

// ---------- net/url codec vs UrlEnc ----------
func c12Codec(c *Ctx) {
	ge := c.Group("qesc", []string{"UrlEnc"}, "qecase", "check_qecases")
	gu := c.Group("qunesc", []string{"UrlEnc"}, "qucase", "check_qucases")
	gp := c.Group("pquery", []string{"UrlEnc"}, "pqcase", "check_pqcases")

	addE := func(s, class string) {
		esc := url.QueryEscape(s)
		var rt *string
		if u, err := url.QueryUnescape(esc); err == nil {
			rt = &u
		}
		c.Count("qesc/" + class)
		c.Add(ge, &Case{Key: map[string]string{"op": "query_escape", "class": class}, Input: map[string]any{"s": s},
			Obs:  map[string]any{"escaped": esc, "roundtrip": rt},
			Term: fmt.Sprintf("{| qe_s := %s; qe_esc := %s; qe_rt := %s |}", emit.Str(s), emit.Str(esc), emit.OptStr(rt))})
	}
	addU := func(s, class string) {
		var res *string
		if u, err := url.QueryUnescape(s); err == nil {
			res = &u
			c.Count("qunesc_result/ok")
		} else {
			c.Count("qunesc_result/err")
		}
		c.Count("qunesc/" + class)
		c.Add(gu, &Case{Key: map[string]string{"op": "query_unescape", "class": class}, Input: map[string]any{"s": s},
			Obs: map[string]any{"result": res}, Term: fmt.Sprintf("{| qu_s := %s; qu_res := %s |}", emit.Str(s), emit.OptStr(res))})
	}
	addP := func(s, class string) {
		v, err := url.ParseQuery(s)
		ps := sortedPairs(v)
		c.Count("pquery/" + class)
		c.Count(fmt.Sprintf("pquery_err/%v", err != nil))
		c.Add(gp, &Case{Key: map[string]string{"op": "parse_query", "class": class}, Input: map[string]any{"s": s},
			Obs:     map[string]any{"pairs": ps, "err": err != nil, "encode": v.Encode()},
			Term:    fmt.Sprintf("{| pq_s := %s; pq_pairs := %s; pq_err := %s; pq_enc := %s |}", emit.Str(s), pairsTerm(ps), emit.Bool(err != nil), emit.Str(v.Encode())),
			Trivial: s == ""})
	}
	// every single byte, and every byte between two letters
	for b := 0; b < 256; b++ {
		addE(string([]byte{byte(b)}), "byte")
		addU("a"+string([]byte{byte(b)})+"41", "byte")
	}
	n := 40
	if c.Thorough() {
		n = 400
	}
	strs := metaStrings(c, n)
	for _, m := range strs {
		if len(m.s) > 300 && m.class != "len4000" {
			continue
		}
		addE(m.s, m.class)
		addU(m.s, m.class)
		esc := url.QueryEscape(m.s)
		addU(esc, "escaped")
		if len(esc) > 2 && len(esc) < 200 {
			for k := 0; k < 3; k++ {
				b := []byte(esc)
				i := c.Rng.Intn(len(b))
				switch c.Rng.Intn(3) {
				case 0:
					b[i] = '%'
				case 1:
					b = append(b[:i], b[i+1:]...)
				default:
					b[i] = "gG%+;&= \x00\xff"[c.Rng.Intn(10)]
				}
				addU(string(b), "mutated")
			}
		}
	}
	for _, s := range []string{"%", "%4", "%41", "%4g", "%g1", "a%", "a%4", "%%41", "%41%", "+", "++", "%2B", "%2b", "%00", "%ff", "%FF", "%Ff", "a+b+", "%C3%A9", "%c3%a9", "\xff%41"} {
		addU(s, "fixed")
	}
	// ParseQuery
	qs := []string{"", "a=1", "a=1&b=2", "b=2&a=1", "a=1&a=2", "a", "a=", "=v", "=", "&", "&&", "a=1&", "&a=1", "a=1&&b=2", "a=1;b=2", "a=1;b=2&c=3", "c=3&a=1;b=2",
		"a=%zz&b=1", "%zz=1&b=1", "a=1&b=%", "a=b=c", "a==", "a=1&A=2", "SAMLRequest=x&RelayState=y&SigAlg=z&Signature=w", "x=1&SAMLRequest=abc%2B%2F%3D&RelayState=a%26b%3Dc",
		"k+1=v+1", "k%201=v%201", "%26=%3D", "a=%00", "\xff=\xfe", "z=1&y=2&x=3&y=4&z=5", "ab=1&a=2&abc=3&B=4&=5", "a;=1", ";", "a=1&;&b=2", "é=ü", "a=+&b=%2B"}
	for _, q := range qs {
		addP(q, "fixed")
	}
	for _, m := range strs {
		if len(m.s) <= 300 {
			addP(m.s, "meta:"+m.class)
			addP("x=1&RelayState="+url.QueryEscape(m.s)+"&y=2", "escaped")
			addP("RelayState="+m.s, "raw")
		}
	}
	np := 150
	if c.Thorough() {
		np = 3000
	}
	parts := []string{"a", "b", "SAMLRequest", "RelayState", "=", "=", "&", "&", ";", "%41", "%2", "%", "+", " ", "1", "x", "é", "#", "?"}
	for i := 0; i < np; i++ {
		var sb strings.Builder
		for k := 0; k < 1+c.Rng.Intn(10); k++ {
			sb.WriteString(parts[c.Rng.Intn(len(parts))])
		}
		addP(sb.String(), "random")
	}
}

// ---------- AuthnRequest redirect ----------
type authnWire struct {
	urlText string
	enc     string
	xml     []byte
	req     *saml.AuthnRequest
}

// pickCase thins the endpoint x string product: every string on the first three
// endpoints, every endpoint with the key metacharacter strings and a rotating quarter of the rest.
func pickCase(c *Ctx, ei, si int, m cls) bool {
	if c.Thorough() || ei < 3 {
		return len(m.s) <= 1000 || ei < 2
	}
	switch m.class {
	case "empty", "amp", "hash", "plus", "pct41", "inject", "semi", "len81meta":
		return true
	}
	return len(m.s) <= 1000 && si%4 == ei%4
}

func c12AuthnRedirect(c *Ctx, _ bool) {
	n := 12
	if c.Thorough() {
		n = 120
	}
	strs := metaStrings(c, n)
	k := 0
	for ei, ep := range endpointSuffixes {
		for si, m := range strs {
			if !pickCase(c, ei, si, m) {
				continue
			}
			for _, signed := range []bool{false, true} {
				if !c.Thorough() && ei >= 2 && signed != ((ei+si)%2 == 0) {
					continue
				}
				if !c.Thorough() && len(m.s) > 1000 && signed != (ei == 1) {
					continue
				}
				o := defaultOpts()
				o.ssoRedirect = "https://idp.example.com/sso" + ep.s
				if signed {
					o.method = dsig.RSASHA256SignatureMethod
				}
				g := c.Group(fmt.Sprintf("authnredir%d", k/60), []string{"UrlEnc", "Outbound"}, "arcase", "check_arcases")
				k++
				addAuthnRedirectCase(c, g, o, ep.class, m, "C12")
			}
		}
	}
}

// addAuthnRedirectCase runs MakeAuthenticationRequest + Redirect for one configuration and
// records the case; returns the emitted URL text ("" on error).
func addAuthnRedirectCase(c *Ctx, g *Group, o spOpts, epClass string, m cls, prop string) (urlText string, okOut bool) {
	sp := buildSP(o)
	dest := o.ssoRedirect
	var req *saml.AuthnRequest
	var u *url.URL
	var err error
	rr := &recReader{src: c.Rng}
	var panicked bool
	withEnv(rr, func() {
		panicked, _ = guard(func() {
			req, err = sp.MakeAuthenticationRequest(sp.GetSSOBindingLocation(saml.HTTPRedirectBinding), saml.HTTPRedirectBinding, saml.HTTPPostBinding)
			if err == nil {
				u, err = req.Redirect(m.s, sp)
			}
		})
	})
	clsN := int64(0)
	enc, sig := "", ""
	var specOK *bool
	obs := map[string]any{}
	switch {
	case panicked:
		clsN = 2
	case err != nil:
		clsN = 1
		obs["err"] = err.Error()
	default:
		urlText = u.String()
		okOut = true
		xmlb := docBytes(req.Element())
		enc = encodedMessage(urlText, "SAMLRequest", xmlb)
		obs["url"] = urlText
		// independent view through net/url
		pu, perr := url.Parse(urlText)
		good := perr == nil
		if good {
			q, qerr := url.ParseQuery(pu.RawQuery)
			own, _ := url.ParseQuery(mustURL(dest).RawQuery)
			_, ownHasSAML := own["SAMLRequest"]
			_, ownHasRelay := own["RelayState"]
			sig = q.Get("Signature")
			obs["query"] = sortedPairs(q)
			if !ownHasSAML && !ownHasRelay {
				ownErr := false
				if _, e := url.ParseQuery(mustURL(dest).RawQuery); e != nil {
					ownErr = true
				}
				good = good && (qerr == nil || ownErr)
				good = good && len(q["SAMLRequest"]) == 1
				if good {
					x, e := inflate64(q.Get("SAMLRequest"))
					good = e == nil && sameXML(x, xmlb)
				}
				if m.s == "" {
					good = good && len(q["RelayState"]) == 0
				} else {
					good = good && len(q["RelayState"]) == 1 && q["RelayState"][0] == m.s
				}
				for k, v := range own {
					good = good && strings.Join(q[k], "\x00") == strings.Join(v, "\x00")
				}
				for k := range q {
					if _, ok := own[k]; !ok && k != "SAMLRequest" && k != "RelayState" && k != "SigAlg" && k != "Signature" {
						good = false
					}
				}
				if (o.method != "") != (len(q["SigAlg"]) == 1 && len(q["Signature"]) == 1) {
					good = false
				}
				// this library's IdP parses and validates the request
				if !strings.Contains(dest, "#") && stableURL(dest) {
					verdict, relaySeen := idpValidate(sp, dest, "GET", urlText, "")
					obs["idp_validate"] = verdict
					good = good && verdict == "ok" && relaySeen == m.s
					c.Count(prop + "/idp_validate/" + verdict)
				}
			}
		}
		if !good {
			specOK = Bptr(false)
		}
	}
	c.Count(fmt.Sprintf("authnredir/endpoint/%s", epClass))
	c.Count(fmt.Sprintf("authnredir/relay/%s", m.class))
	c.Count(fmt.Sprintf("authnredir/signed/%v", o.method != ""))
	c.Count(fmt.Sprintf("authnredir/outcome/%d", clsN))
	c.Add(g, &Case{
		Key:   map[string]string{"op": "authn_redirect", "endpoint": epClass, "relay": m.class, "method": o.method, "key": fmt.Sprintf("%T", o.key)},
		Input: map[string]any{"endpoint": dest, "relay_state": m.s, "signature_method": o.method, "key_type": fmt.Sprintf("%T", o.key)},
		Obs:   obs,
		Term: fmt.Sprintf("{| ar_dest := %s; ar_enc := %s; ar_relay := %s; ar_method := %s; ar_kt := %d; ar_cls := %d; ar_url := %s; ar_sig := %s |}",
			emit.Str(dest), emit.Str(enc), emit.Str(m.s), emit.Str(o.method), ktOf(o.key), clsN, emit.Str(urlText), emit.Str(sig)),
		ImplSpecOK: specOK,
		Trivial:    strings.Contains(epClass, "qsaml") || strings.Contains(epClass, "qrelay"),
	})
	return
}

// idpValidate feeds a wire message to this library's IdP.
func idpValidate(sp *saml.ServiceProvider, ssoURL, method, urlText, body string) (verdict, relay string) {
	var md *saml.EntityDescriptor
	withEnv(&recReader{src: mrand.New(mrand.NewSource(1))}, func() { md = sp.Metadata() })
	idp := &saml.IdentityProvider{
		Key: sp.Key, Certificate: sp.Certificate,
		MetadataURL: mustURL("https://idp.example.com/metadata"), SSOURL: mustURL(ssoURL),
		ServiceProviderProvider: staticSPP{md: map[string]*saml.EntityDescriptor{md.EntityID: md}},
	}
	verdict = "error"
	withEnv(&recReader{src: mrand.New(mrand.NewSource(1))}, func() {
		p, _ := guard(func() {
			var r *http.Request
			var err error
			if method == "GET" {
				r, err = http.NewRequest("GET", urlText, nil)
			} else {
				r, err = http.NewRequest("POST", urlText, strings.NewReader(body))
				if err == nil {
					r.Header.Set("Content-Type", "application/x-www-form-urlencoded")
				}
			}
			if err != nil {
				verdict = "bad_http_request"
				return
			}
			ir, err := saml.NewIdpAuthnRequest(idp, r)
			if err != nil {
				verdict = "decode_error"
				return
			}
			relay = ir.RelayState
			if err := ir.Validate(); err != nil {
				verdict = "invalid"
				return
			}
			verdict = "ok"
		})
		if p {
			verdict = "panic"
		}
	})
	return
}

// ---------- Logout redirects ----------
func c12LogoutRedirect(c *Ctx) {
	nlr := 0
	n := 12
	if c.Thorough() {
		n = 120
	}
	strs := metaStrings(c, n)
	for ei, ep := range endpointSuffixes {
		for si, m := range strs {
			if !pickCase(c, ei, si, m) {
				continue
			}
			for kind := int64(1); kind <= 2; kind++ {
				if !c.Thorough() && ei >= 2 && kind != int64(1+(ei+si)%2) {
					continue
				}
				if !c.Thorough() && len(m.s) > 1000 && kind != int64(1+ei) {
					continue
				}
				g := c.Group(fmt.Sprintf("logoutredir%d", nlr/60), []string{"UrlEnc", "Outbound"}, "lrcase", "check_lrcases")
				nlr++
				o := defaultOpts()
				o.sloRedirect = "https://idp.example.com/slo" + ep.s
				if (ei+si)%4 == 0 {
					o.method = dsig.RSASHA256SignatureMethod
				}
				sp := buildSP(o)
				dest := o.sloRedirect
				nameID := strs[(si*7+ei)%len(strs)].s
				if len(nameID) > 300 {
					nameID = nameID[:300]
				}
				var u *url.URL
				var el *etree.Element
				var err error
				var panicked bool
				withEnv(&recReader{src: c.Rng}, func() {
					panicked, _ = guard(func() {
						if kind == 1 {
							var r *saml.LogoutRequest
							r, err = sp.MakeLogoutRequest(sp.GetSLOBindingLocation(saml.HTTPRedirectBinding), nameID)
							if err == nil {
								u = r.Redirect(m.s)
								el = r.Element()
							}
						} else {
							var r *saml.LogoutResponse
							r, err = sp.MakeLogoutResponse(sp.GetSLOBindingLocation(saml.HTTPRedirectBinding), "id-req-"+m.class)
							if err == nil {
								u = r.Redirect(m.s)
								el = r.Element()
							}
						}
					})
				})
				param := "SAMLRequest"
				if kind == 2 {
					param = "SAMLResponse"
				}
				urlText, enc := "", ""
				var specOK *bool
				obs := map[string]any{}
				if panicked || err != nil || u == nil {
					specOK = Bptr(false)
					obs["failed"] = fmt.Sprint(err, panicked)
				} else {
					urlText = u.String()
					xmlb := docBytes(el)
					enc = encodedMessage(urlText, param, xmlb)
					obs["url"] = urlText
					q, qerr := url.ParseQuery(mustURL(urlText).RawQuery)
					own, _ := url.ParseQuery(mustURL(dest).RawQuery)
					obs["query"] = sortedPairs(q)
					_, ownHasSAML := own[param]
					_, ownHasRelay := own["RelayState"]
					if !ownHasSAML && !ownHasRelay {
						good := qerr == nil && len(q[param]) == 1
						if good {
							x, e := inflate64(q.Get(param))
							good = e == nil && sameXML(x, xmlb)
						}
						if m.s == "" {
							good = good && len(q["RelayState"]) == 0
						} else {
							good = good && len(q["RelayState"]) == 1 && q["RelayState"][0] == m.s
						}
						for k, v := range own {
							good = good && strings.Join(q[k], "\x00") == strings.Join(v, "\x00")
						}
						for k := range q {
							if _, ok := own[k]; !ok && k != param && k != "RelayState" {
								good = false
							}
						}
						if !good {
							specOK = Bptr(false)
						}
					}
				}
				c.Count("logoutredir/endpoint/" + ep.class)
				c.Count("logoutredir/relay/" + m.class)
				c.Count(fmt.Sprintf("logoutredir/kind/%d", kind))
				c.Count(fmt.Sprintf("logoutredir/signed/%v", o.method != ""))
				c.Add(g, &Case{
					Key:   map[string]string{"op": "logout_redirect", "kind": param, "endpoint": ep.class, "relay": m.class},
					Input: map[string]any{"endpoint": dest, "relay_state": m.s, "name_id": nameID, "kind": param},
					Obs:   obs,
					Term: fmt.Sprintf("{| lr_kind := %d; lr_dest := %s; lr_enc := %s; lr_relay := %s; lr_url := %s |}",
						kind, emit.Str(dest), emit.Str(enc), emit.Str(m.s), emit.Str(urlText)),
					ImplSpecOK: specOK,
					Trivial:    ep.class == "qsaml" || ep.class == "qrelay",
				})
			}
		}
	}
}

// ---------- message IDs ----------
func c12IDs(c *Ctx) {
	g := c.Group("ids", []string{"UrlEnc", "Outbound"}, "idcase", "check_idcases")
	nseq := 40
	if c.Thorough() {
		nseq = 400
	}
	chunks := []int{0, 1, 2, 3, 7, 16, 19, 20, 21}
	for i := 0; i < nseq; i++ {
		mc := chunks[i%len(chunks)]
		n := 1 + c.Rng.Intn(50)
		if i < len(chunks) {
			n = 1 + i%3
		}
		o := defaultOpts()
		if i%5 == 4 {
			o.method = dsig.RSASHA256SignatureMethod
		}
		sp := buildSP(o)
		rr := &recReader{src: c.Rng, maxChunk: mc}
		var ids []string
		var kinds []string
		failed := false
		withEnv(rr, func() {
			for k := 0; k < n; k++ {
				kind := c.Rng.Intn(6)
				p, _ := guard(func() {
					switch kind {
					case 0:
						r, err := sp.MakeAuthenticationRequest("https://idp.example.com/sso", saml.HTTPRedirectBinding, saml.HTTPPostBinding)
						if err != nil {
							failed = true
							return
						}
						ids = append(ids, r.ID)
						kinds = append(kinds, "AuthnRequest")
					case 1:
						r, err := sp.MakeAuthenticationRequest("https://idp.example.com/sso", saml.HTTPPostBinding, saml.HTTPPostBinding)
						if err != nil {
							failed = true
							return
						}
						ids = append(ids, r.ID)
						kinds = append(kinds, "AuthnRequest/POST")
					case 2:
						r, err := sp.MakeLogoutRequest("https://idp.example.com/slo", "user")
						if err != nil {
							failed = true
							return
						}
						ids = append(ids, r.ID)
						kinds = append(kinds, "LogoutRequest")
					case 3:
						r, err := sp.MakeLogoutResponse("https://idp.example.com/slo", "id-1")
						if err != nil {
							failed = true
							return
						}
						ids = append(ids, r.ID)
						kinds = append(kinds, "LogoutResponse")
					case 4:
						r, err := sp.MakeArtifactResolveRequest("artifact")
						if err != nil {
							failed = true
							return
						}
						ids = append(ids, r.ID)
						kinds = append(kinds, "ArtifactResolve")
					default:
						u, err := sp.MakeRedirectAuthenticationRequest("rs")
						if err != nil {
							failed = true
							return
						}
						x, _ := inflate64(u.Query().Get("SAMLRequest"))
						doc := etree.NewDocument()
						if doc.ReadFromBytes(x) != nil || doc.Root() == nil {
							failed = true
							return
						}
						ids = append(ids, doc.Root().SelectAttrValue("ID", ""))
						kinds = append(kinds, "RedirectAuthnRequest(wire)")
					}
				})
				if p {
					failed = true
				}
			}
		})
		var specOK *bool
		if failed {
			specOK = Bptr(false)
		}
		c.Count(fmt.Sprintf("ids/max_read_chunk/%d", mc))
		c.Count(fmt.Sprintf("ids/bytes_per_id/%d", len(rr.out)/max(1, len(ids))))
		c.Add(g, &Case{
			Key:   map[string]string{"op": "message_ids", "reader_chunk": fmt.Sprint(mc)},
			Input: map[string]any{"creations": kinds, "reader_max_bytes_per_read": mc, "stream_hex": hex.EncodeToString(rr.out)},
			Obs:   map[string]any{"ids": ids, "bytes_drawn": len(rr.out), "read_calls": rr.calls},
			Term: fmt.Sprintf("{| ic_stream := %s; ic_n := %d; ic_ids := %s |}",
				emit.Str(string(rr.out)), n, emit.StrList(ids)),
			ImplSpecOK: specOK,
		})
	}
}

// ---------- message contents, read back from the wire ----------
func fieldsTerm(fs [][2]any) string {
	items := make([]string, len(fs))
	for i, f := range fs {
		items[i] = optField(f[0].(string), f[1].(*string))
	}
	return emit.List(items)
}

func cfgTerm(o spOpts) string {
	fa := "None"
	if o.forceAuthn != nil {
		fa = "(Some " + emit.Bool(*o.forceAuthn) + ")"
	}
	ac := "None"
	if o.authnCtx != nil {
		ac = "(Some (" + emit.Str(o.authnCtx.Comparison) + ", " + emit.Str(o.authnCtx.AuthnContextClassRef) + "))"
	}
	return fmt.Sprintf("{| sp_entity_id := %s; sp_metadata_url := %s; sp_acs_url := %s; sp_nameid_format := %s; sp_force_authn := %s; sp_authn_ctx := %s; sp_idp_entity := %s |}",
		emit.Str(o.entityID), emit.Str(o.metadataURL), emit.Str(o.acsURL), emit.Str(string(o.nameIDFormat)), fa, ac, emit.Str(o.idpEntity))
}

func parseRoot(xmlb []byte) *etree.Element {
	doc := etree.NewDocument()
	if err := doc.ReadFromBytes(xmlb); err != nil {
		return nil
	}
	return doc.Root()
}

func authnFieldsOf(root *etree.Element) [][2]any {
	nip := child(root, "NameIDPolicy")
	rac := child(root, "RequestedAuthnContext")
	return [][2]any{
		{"ID", attrOpt(root, "ID")}, {"Version", attrOpt(root, "Version")}, {"Destination", attrOpt(root, "Destination")},
		{"Issuer", childText(root, "Issuer")}, {"AssertionConsumerServiceURL", attrOpt(root, "AssertionConsumerServiceURL")},
		{"ProtocolBinding", attrOpt(root, "ProtocolBinding")}, {"NameIDPolicy/Format", attrOpt(nip, "Format")},
		{"NameIDPolicy/AllowCreate", attrOpt(nip, "AllowCreate")}, {"ForceAuthn", attrOpt(root, "ForceAuthn")},
		{"RequestedAuthnContext/Comparison", attrOpt(rac, "Comparison")}, {"RequestedAuthnContext/ClassRef", childText(rac, "AuthnContextClassRef")},
	}
}

func logoutReqFieldsOf(root *etree.Element) [][2]any {
	nid := child(root, "NameID")
	return [][2]any{
		{"ID", attrOpt(root, "ID")}, {"Version", attrOpt(root, "Version")}, {"Destination", attrOpt(root, "Destination")},
		{"Issuer", childText(root, "Issuer")}, {"NameID", childText(root, "NameID")}, {"NameID/Format", attrOpt(nid, "Format")},
		{"NameID/NameQualifier", attrOpt(nid, "NameQualifier")}, {"NameID/SPNameQualifier", attrOpt(nid, "SPNameQualifier")},
	}
}

func logoutRespFieldsOf(root *etree.Element) [][2]any {
	st := child(root, "Status")
	return [][2]any{
		{"ID", attrOpt(root, "ID")}, {"Version", attrOpt(root, "Version")}, {"Destination", attrOpt(root, "Destination")},
		{"Issuer", childText(root, "Issuer")}, {"InResponseTo", attrOpt(root, "InResponseTo")}, {"StatusCode", attrOpt(child(st, "StatusCode"), "Value")},
	}
}

func artifactFieldsOf(root *etree.Element) [][2]any {
	return [][2]any{
		{"ID", attrOpt(root, "ID")}, {"Version", attrOpt(root, "Version")}, {"Issuer", childText(root, "Issuer")}, {"Artifact", childText(root, "Artifact")},
	}
}

var formValueOf = func(html []byte, name string) (string, bool) { return "", false } // set in c14.go (x/net/html)

func c12Fields(c *Ctx) {
	nf := 0
	tr, fa := true, false
	formats := []saml.NameIDFormat{"", saml.UnspecifiedNameIDFormat, saml.TransientNameIDFormat, saml.EmailAddressNameIDFormat, saml.PersistentNameIDFormat, "urn:custom:format&<>\"", "urn:oasis:names:tc:SAML:1.1:nameid-format:unspecified "}
	forces := []*bool{nil, &tr, &fa}
	ctxs := []*saml.RequestedAuthnContext{nil, {Comparison: "exact", AuthnContextClassRef: "urn:oasis:names:tc:SAML:2.0:ac:classes:PasswordProtectedTransport"},
		{Comparison: "minimum", AuthnContextClassRef: "urn:x:<&\">"}}
	entities := [][2]string{{"https://sp.example.com/saml/metadata", "https://sp.example.com/saml/metadata"}, {"", "https://sp.example.com/saml/metadata"},
		{"urn:sp:entity&<\"'>", "https://sp.example.com/md"}, {"sp-entity", ""}}
	nameIDs := metaStrings(c, 5)
	idx := 0
	for fi, f := range formats {
		for oi, fo := range forces {
			for ci, cx := range ctxs {
				for ei, en := range entities {
					idx++
					if !c.Thorough() && (fi+oi+ci+ei)%2 == 1 && fi > 1 {
						continue
					}
					o := defaultOpts()
					o.nameIDFormat, o.forceAuthn, o.authnCtx = f, fo, cx
					o.entityID, o.metadataURL = en[0], en[1]
					if idx%3 == 0 {
						o.method = dsig.RSASHA256SignatureMethod
					}
					if idx%4 == 0 {
						o.ssoRedirect, o.ssoPost = "https://idp.example.com/sso?x=1&y=2", "https://idp.example.com/sso?x=1&y=2"
						o.sloRedirect, o.sloPost = "https://idp.example.com/slo?x=1", "https://idp.example.com/slo?x=1"
					}
					if idx%11 == 0 {
						o.acsURL = "https://sp.example.com/acs?a=1&b=<2>"
					}
					sp := buildSP(o)
					nid := nameIDs[idx%len(nameIDs)]
					if len(nid.s) > 300 {
						nid.s = nid.s[:300]
					}
					relay := nameIDs[(idx*3)%len(nameIDs)].s
					if len(relay) > 100 {
						relay = relay[:100]
					}
					for kind := int64(0); kind <= 3; kind++ {
						for bnd := int64(0); bnd <= 1; bnd++ {
							if kind == 3 && bnd == 1 {
								continue
							}
							rr := &recReader{src: c.Rng}
							var wire []byte // XML as recovered from the wire form
							var dest, arg string
							ok := true
							withEnv(rr, func() {
								p, _ := guard(func() {
									switch kind {
									case 0:
										arg = saml.HTTPPostBinding
										if bnd == 0 {
											dest = o.ssoRedirect
											u, err := sp.MakeRedirectAuthenticationRequest(relay)
											if err != nil {
												ok = false
												return
											}
											wire, _ = inflate64(queryOf(u.String()).Get("SAMLRequest"))
										} else {
											dest = o.ssoPost
											h, err := sp.MakePostAuthenticationRequest(relay)
											if err != nil {
												ok = false
												return
											}
											v, _ := formValueOf(h, "SAMLRequest")
											wire, _ = base64.StdEncoding.DecodeString(v)
										}
									case 1:
										arg = nid.s
										if bnd == 0 {
											dest = o.sloRedirect
											u, err := sp.MakeRedirectLogoutRequest(nid.s, relay)
											if err != nil {
												ok = false
												return
											}
											wire, _ = inflate64(queryOf(u.String()).Get("SAMLRequest"))
										} else {
											dest = o.sloPost
											h, err := sp.MakePostLogoutRequest(nid.s, relay)
											if err != nil {
												ok = false
												return
											}
											v, _ := formValueOf(h, "SAMLRequest")
											wire, _ = base64.StdEncoding.DecodeString(v)
										}
									case 2:
										arg = "id-" + nid.class
										if idx%5 == 0 {
											arg = ""
										}
										if bnd == 0 {
											dest = o.sloRedirect
											u, err := sp.MakeRedirectLogoutResponse(arg, relay)
											if err != nil {
												ok = false
												return
											}
											wire, _ = inflate64(queryOf(u.String()).Get("SAMLResponse"))
										} else {
											dest = o.sloPost
											h, err := sp.MakePostLogoutResponse(arg, relay)
											if err != nil {
												ok = false
												return
											}
											v, _ := formValueOf(h, "SAMLResponse")
											wire, _ = base64.StdEncoding.DecodeString(v)
										}
									default:
										arg = nid.s
										r, err := sp.MakeArtifactResolveRequest(arg)
										if err != nil {
											ok = false
											return
										}
										wire = docBytes(r.SoapRequest())
									}
								})
								if p {
									ok = false
								}
							})
							root := parseRoot(wire)
							if kind == 3 && root != nil {
								root = child(child(root, "Body"), "ArtifactResolve")
							}
							var fs [][2]any
							switch kind {
							case 0:
								fs = authnFieldsOf(root)
							case 1:
								fs = logoutReqFieldsOf(root)
							case 2:
								fs = logoutRespFieldsOf(root)
							default:
								fs = artifactFieldsOf(root)
							}
							var specOK *bool
							if !ok || root == nil {
								specOK = Bptr(false)
							}
							id := ""
							if len(rr.out) >= 20 {
								id = "id-" + hex.EncodeToString(rr.out[:20])
							}
							g := c.Group(fmt.Sprintf("fields%d", nf/100), []string{"UrlEnc", "Outbound"}, "mfcase", "check_mfcases")
							nf++
							c.Count(fmt.Sprintf("fields/kind/%d/binding/%d", kind, bnd))
							c.Count("fields/nameid_format/" + string(f))
							obsF := map[string]any{}
							for _, x := range fs {
								obsF[x[0].(string)] = x[1]
							}
							c.Add(g, &Case{
								Key:   map[string]string{"op": "message_fields", "kind": fmt.Sprint(kind), "binding": fmt.Sprint(bnd)},
								Input: map[string]any{"entity_id": o.entityID, "metadata_url": o.metadataURL, "acs": o.acsURL, "nameid_format": string(f), "force_authn": fo, "authn_ctx": cx, "dest": dest, "arg": arg, "signed": o.method != ""},
								Obs:   map[string]any{"fields": obsF, "wire_xml": string(wire)},
								Term: fmt.Sprintf("{| mf_cfg := %s; mf_kind := %d; mf_id := %s; mf_dest := %s; mf_arg := %s; mf_fields := %s |}",
									cfgTerm(o), kind, emit.Str(id), emit.Str(dest), emit.Str(arg), fieldsTerm(fs)),
								ImplSpecOK: specOK,
							})
						}
					}
				}
			}
		}
	}
}

// ---------- POST forms: the hidden fields decode to the message and the relay state ----------
func c12Post(c *Ctx) {
	g := c.Group("postfields", []string{}, "bool", "check_bools")
	n := 10
	if c.Thorough() {
		n = 100
	}
	for si, m := range metaStrings(c, n) {
		for kind := 0; kind <= 2; kind++ {
			o := defaultOpts()
			if si%3 == 0 {
				o.ssoPost += "?x=1&y=2"
				o.sloPost += "?x=1&y=2"
			}
			if si%2 == 0 {
				o.method = dsig.RSASHA256SignatureMethod
			}
			sp := buildSP(o)
			var html []byte
			var xmlb []byte
			var err error
			param := "SAMLRequest"
			p := false
			withEnv(&recReader{src: c.Rng}, func() {
				p, _ = guard(func() {
					switch kind {
					case 0:
						var r *saml.AuthnRequest
						r, err = sp.MakeAuthenticationRequest(sp.GetSSOBindingLocation(saml.HTTPPostBinding), saml.HTTPPostBinding, saml.HTTPPostBinding)
						if err == nil {
							html = r.Post(m.s)
							xmlb = docBytes(r.Element())
						}
					case 1:
						var r *saml.LogoutRequest
						r, err = sp.MakeLogoutRequest(sp.GetSLOBindingLocation(saml.HTTPPostBinding), "user&<>")
						if err == nil {
							html = r.Post(m.s)
							xmlb = docBytes(r.Element())
						}
					default:
						param = "SAMLResponse"
						var r *saml.LogoutResponse
						r, err = sp.MakeLogoutResponse(sp.GetSLOBindingLocation(saml.HTTPPostBinding), "id-1")
						if err == nil {
							html = r.Post(m.s)
							xmlb = docBytes(r.Element())
						}
					}
				})
			})
			good := !p && err == nil
			var relaySeen, msgSeen string
			if good {
				var ok1, ok2 bool
				msgSeen, ok1 = formValueOf(html, param)
				relaySeen, ok2 = formValueOf(html, "RelayState")
				dec, e := base64.StdEncoding.DecodeString(msgSeen)
				good = ok1 && ok2 && e == nil && sameXML(dec, xmlb) && relaySeen == m.s
				if good && kind == 0 {
					body := url.Values{"SAMLRequest": {msgSeen}, "RelayState": {relaySeen}}.Encode()
					verdict, rs := idpValidate(sp, o.ssoPost, "POST", o.ssoPost, body)
					c.Count("postfields/idp_validate/" + verdict)
					good = verdict == "ok" && rs == m.s
				}
			}
			c.Count(fmt.Sprintf("postfields/kind/%d", kind))
			c.Count("postfields/relay/" + m.class)
			c.Add(g, &Case{
				Key:   map[string]string{"op": "post_form_fields", "kind": fmt.Sprint(kind), "relay": m.class},
				Input: map[string]any{"relay_state": m.s, "kind": kind},
				Obs:   map[string]any{"relay_in_form": relaySeen, "html": string(html)},
				Term:  emit.Bool(good), Dedup: fmt.Sprintf("%d|%s", kind, m.s),
			})
		}
	}
}

// ---------- IssueInstant on the wire and the IdP's freshness bound ----------
var clockZones = []*time.Location{time.UTC, time.FixedZone("IST", 5*3600+1800), time.FixedZone("EST", -5*3600), time.FixedZone("PST", -8*3600),
	time.FixedZone("CET", 3600), time.FixedZone("odd", -120), time.FixedZone("LINT", 14*3600), time.FixedZone("AoE", -12*3600), time.FixedZone("NPT", 5*3600+2700)}

func c12IssueInstant(c *Ctx) {
	g := c.Group("issueinstant", []string{"UrlEnc", "TimeModel", "Outbound", "OutboundIdP"}, "iicase", "check_iicases")
	oldNow, oldRand, oldLocal := saml.TimeNow, saml.RandReader, time.Local
	defer func() { saml.TimeNow, saml.RandReader, time.Local = oldNow, oldRand, oldLocal }()
	// the process's local zone is an odd one: nothing may depend on it
	time.Local = time.FixedZone("harness-local", -(9*3600 + 1800))
	saml.RandReader = &recReader{src: c.Rng}
	base := time.Date(2024, 5, 6, 7, 8, 9, 0, time.UTC)
	var clocks []time.Time
	for _, ns := range []int{0, 1, 499999, 500000, 999999, 1000000, 1000001, 123000000, 123456789, 999000000, 999499999, 999500000, 999999999} {
		clocks = append(clocks, base.Add(time.Duration(ns)))
	}
	clocks = append(clocks, time.Date(2024, 12, 31, 23, 59, 59, 999999999, time.UTC), time.Date(2000, 2, 29, 0, 0, 0, 999500000, time.UTC), time.Date(1970, 1, 1, 0, 0, 0, 1, time.UTC))
	n := 25
	if c.Thorough() {
		n = 400
	}
	for i := 0; i < n; i++ {
		clocks = append(clocks, time.Unix(c.Rng.Int63n(4102444800), c.Rng.Int63n(1e9)).UTC())
	}
	// the clock the library reads (saml.TimeNow) reports each instant in a rotating zone, and once in time.Local
	for i := range clocks {
		if i%10 == 9 {
			clocks[i] = clocks[i].In(time.Local)
		} else {
			clocks[i] = clocks[i].In(clockZones[i%len(clockZones)])
		}
	}
	addCase := func(now time.Time, kind string, text string, atBound, after bool, specOK *bool) {
		_, off := now.Zone()
		ns := new(big.Int).Mul(big.NewInt(now.Unix()), big.NewInt(1e9))
		ns.Add(ns, big.NewInt(int64(now.Nanosecond())))
		c.Count("issueinstant/kind/" + kind)
		c.Count(fmt.Sprintf("issueinstant/zone_offset_s/%d", off))
		c.Count(fmt.Sprintf("issueinstant/sub_ms/%v", now.Nanosecond()%1000000 != 0))
		c.Add(g, &Case{
			Key:   map[string]string{"op": "issue_instant", "kind": kind, "zone_offset": fmt.Sprint(off)},
			Input: map[string]any{"sp_clock": now.Format(time.RFC3339Nano), "zone_offset_seconds": off, "message": kind, "max_issue_delay": saml.MaxIssueDelay.String()},
			Obs:   map[string]any{"IssueInstant": text, "idp_accepts_at_instant_plus_delay": atBound, "idp_accepts_one_ns_later": after},
			Term: fmt.Sprintf("{| ii_now := %s; ii_off := %s; ii_text := %s; ii_at_bound := %s; ii_after_bound := %s |}",
				emit.ZBig(ns.String()), emit.Z(int64(off)), emit.Str(text), emit.Bool(atBound), emit.Bool(after)),
			ImplSpecOK: specOK,
		})
	}
	// every other outbound builder, both bindings: the IssueInstant read back from the wire
	for i, now := range clocks {
		if !c.Thorough() && i%2 == 1 {
			continue
		}
		now := now
		o := defaultOpts()
		if i%4 == 0 {
			o.method = dsig.RSASHA256SignatureMethod
		}
		sp := buildSP(o)
		for k, kind := range []string{"LogoutRequest/redirect", "LogoutRequest/post", "LogoutResponse/redirect", "LogoutResponse/post", "ArtifactResolve"} {
			if !c.Thorough() && (i/2+k)%2 == 1 {
				continue
			}
			text := ""
			var specOK *bool
			p, _ := guard(func() {
				saml.TimeNow = func() time.Time { return now }
				var wire []byte
				switch k {
				case 0:
					u, err := sp.MakeRedirectLogoutRequest("u", "rs")
					if err == nil {
						wire, _ = inflate64(queryOf(u.String()).Get("SAMLRequest"))
					}
				case 1:
					h, err := sp.MakePostLogoutRequest("u", "rs")
					if err == nil {
						v, _ := formValueOf(h, "SAMLRequest")
						wire, _ = base64.StdEncoding.DecodeString(v)
					}
				case 2:
					u, err := sp.MakeRedirectLogoutResponse("id-1", "rs")
					if err == nil {
						wire, _ = inflate64(queryOf(u.String()).Get("SAMLResponse"))
					}
				case 3:
					h, err := sp.MakePostLogoutResponse("id-1", "rs")
					if err == nil {
						v, _ := formValueOf(h, "SAMLResponse")
						wire, _ = base64.StdEncoding.DecodeString(v)
					}
				default:
					r, err := sp.MakeArtifactResolveRequest("artifact")
					if err == nil {
						wire = docBytes(r.SoapRequest())
					}
				}
				root := parseRoot(wire)
				if k == 4 && root != nil {
					root = child(child(root, "Body"), "ArtifactResolve")
				}
				if root != nil {
					text = root.SelectAttrValue("IssueInstant", "")
				}
			})
			if p {
				specOK = Bptr(false)
			}
			addCase(now, kind, text, true, false, specOK)
		}
	}
	for i, now := range clocks {
		now := now
		o := defaultOpts()
		if i%2 == 1 {
			o.ssoRedirect, o.ssoPost = o.ssoRedirect+"?x=1", o.ssoPost+"?x=1"
		}
		sp := buildSP(o)
		text, atBound, after := "", false, false
		var specOK *bool
		p, _ := guard(func() {
			saml.TimeNow = func() time.Time { return now }
			var urlText, body, method, dest string
			if i%3 == 0 {
				h, err := sp.MakePostAuthenticationRequest("rs")
				if err != nil {
					return
				}
				v, _ := formValueOf(h, "SAMLRequest")
				method, dest, urlText = "POST", o.ssoPost, o.ssoPost
				body = url.Values{"SAMLRequest": {v}, "RelayState": {"rs"}}.Encode()
				x, _ := base64.StdEncoding.DecodeString(v)
				if root := parseRoot(x); root != nil {
					text = root.SelectAttrValue("IssueInstant", "")
				}
			} else {
				u, err := sp.MakeRedirectAuthenticationRequest("rs")
				if err != nil {
					return
				}
				method, dest, urlText = "GET", o.ssoRedirect, u.String()
				x, _ := inflate64(queryOf(urlText).Get("SAMLRequest"))
				if root := parseRoot(x); root != nil {
					text = root.SelectAttrValue("IssueInstant", "")
				}
			}
			wire := now.Truncate(time.Millisecond)
			verdictAt := func(idpNow time.Time) bool {
				var md *saml.EntityDescriptor
				md = sp.Metadata()
				idp := &saml.IdentityProvider{Key: sp.Key, Certificate: sp.Certificate, MetadataURL: mustURL("https://idp.example.com/metadata"), SSOURL: mustURL(dest),
					ServiceProviderProvider: staticSPP{md: map[string]*saml.EntityDescriptor{md.EntityID: md}}}
				saml.TimeNow = func() time.Time { return idpNow }
				var r *http.Request
				var err error
				if method == "GET" {
					r, err = http.NewRequest("GET", urlText, nil)
				} else {
					r, err = http.NewRequest("POST", urlText, strings.NewReader(body))
					if err == nil {
						r.Header.Set("Content-Type", "application/x-www-form-urlencoded")
					}
				}
				if err != nil {
					return false
				}
				ir, err := saml.NewIdpAuthnRequest(idp, r)
				if err != nil {
					return false
				}
				return ir.Validate() == nil
			}
			atBound = verdictAt(wire.Add(saml.MaxIssueDelay))
			after = verdictAt(wire.Add(saml.MaxIssueDelay + 1))
		})
		if p {
			specOK = Bptr(false)
		}
		c.Count(fmt.Sprintf("issueinstant/accepted_at_bound/%v", atBound))
		c.Count(fmt.Sprintf("issueinstant/accepted_after_bound/%v", after))
		addCase(now, []string{"AuthnRequest/post", "AuthnRequest/redirect", "AuthnRequest/redirect"}[i%3], text, atBound, after, specOK)
	}
}
