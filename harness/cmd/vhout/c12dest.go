package main

import (
	. "verifharness/internal/core"

	"encoding/base64"
	"fmt"
	"net/url"
	"strings"

	"github.com/crewjam/saml"

	"verifharness/internal/emit"
)

type idpEPs struct {
	name string
	// one slice per IDPSSODescriptor
	descs [][]saml.Endpoint
}

func epsTerm(descs [][]saml.Endpoint) string {
	var items []string
	for _, d := range descs {
		for _, e := range d {
			items = append(items, "("+emit.Str(e.Binding)+", "+emit.Str(e.Location)+", "+emit.Str(e.ResponseLocation)+")")
		}
	}
	return emit.List(items)
}

// c12Destinations: shapes of IdP metadata (ResponseLocation different from Location, several
// endpoints per binding, bindings in different orders, other bindings only, several
// descriptors) and where each message kind is sent: URL / form action and the Destination
// attribute recovered from the wire.
func c12Destinations(c *Ctx) {
	R, P, A, S := saml.HTTPRedirectBinding, saml.HTTPPostBinding, saml.HTTPArtifactBinding, saml.SOAPBinding
	ep := func(b, loc, rl string) saml.Endpoint {
		return saml.Endpoint{Binding: b, Location: loc, ResponseLocation: rl}
	}
	shapes := []idpEPs{
		{"plain", [][]saml.Endpoint{{ep(R, "https://idp.example.com/x/redirect", ""), ep(P, "https://idp.example.com/x/post", "")}}},
		{"response_location", [][]saml.Endpoint{{ep(R, "https://idp.example.com/x/redirect", "https://idp.example.com/x/redirect/done"), ep(P, "https://idp.example.com/x/post", "https://idp.example.com/x/post/done")}}},
		{"response_location_same", [][]saml.Endpoint{{ep(R, "https://idp.example.com/x/redirect", "https://idp.example.com/x/redirect"), ep(P, "https://idp.example.com/x/post", "https://idp.example.com/x/post")}}},
		{"several_per_binding", [][]saml.Endpoint{{ep(R, "https://idp.example.com/a", ""), ep(R, "https://idp.example.com/b", "https://idp.example.com/b/done"), ep(P, "https://idp.example.com/c", "https://idp.example.com/c/done"), ep(P, "https://idp.example.com/d", "")}}},
		{"post_first", [][]saml.Endpoint{{ep(P, "https://idp.example.com/p", "https://idp.example.com/p/done"), ep(S, "https://idp.example.com/soap", ""), ep(R, "https://idp.example.com/r", "")}}},
		{"other_bindings_only", [][]saml.Endpoint{{ep(S, "https://idp.example.com/soap", "https://idp.example.com/soap/done"), ep(A, "https://idp.example.com/art", "")}}},
		{"redirect_only", [][]saml.Endpoint{{ep(R, "https://idp.example.com/only", "https://idp.example.com/only/done")}}},
		{"two_descriptors", [][]saml.Endpoint{{ep(P, "https://idp.example.com/d0/post", "https://idp.example.com/d0/post/done")}, {ep(R, "https://idp.example.com/d1/redirect", "https://idp.example.com/d1/done"), ep(P, "https://idp.example.com/d1/post", "")}}},
		{"query", [][]saml.Endpoint{{ep(R, "https://idp.example.com/q?tenant=42", "https://idp.example.com/q/done?tenant=7"), ep(P, "https://idp.example.com/qp", "https://idp.example.com/qp-done")}}},
		{"first_empty", [][]saml.Endpoint{{ep(R, "", "https://idp.example.com/e/done"), ep(R, "https://idp.example.com/e2", ""), ep(P, "https://idp.example.com/e3", "https://idp.example.com/e3/done")}}},
		{"binding_near_miss", [][]saml.Endpoint{{ep(R+" ", "https://idp.example.com/nm1", ""), ep(strings.ToLower(P), "https://idp.example.com/nm2", ""), ep(P, "https://idp.example.com/nm3", "https://idp.example.com/nm3/done")}}},
		{"none", [][]saml.Endpoint{{}}},
	}
	g := c.Group("destinations", []string{"UrlEnc", "Outbound"}, "blcase", "check_blcases")
	gl := c.Group("lookups", []string{"UrlEnc", "Outbound"}, "glcase", "check_glcases")
	for si, sh := range shapes {
		o := defaultOpts()
		if si%3 == 1 {
			o.method = "http://www.w3.org/2001/04/xmldsig-more#rsa-sha256"
		}
		sp := buildSP(o)
		var ds []saml.IDPSSODescriptor
		for _, d := range sh.descs {
			x := saml.IDPSSODescriptor{SingleSignOnServices: d, ArtifactResolutionServices: d}
			x.SingleLogoutServices = d
			ds = append(ds, x)
		}
		sp.IDPMetadata = &saml.EntityDescriptor{EntityID: "https://idp.example.com/metadata", IDPSSODescriptors: ds}
		term := epsTerm(sh.descs)
		// direct lookups, every binding incl. absent ones
		for _, b := range []string{R, P, A, S, "", R + " "} {
			for fi, f := range []func(string) string{sp.GetSSOBindingLocation, sp.GetSLOBindingLocation, sp.GetArtifactBindingLocation} {
				out := ""
				p, _ := guard(func() { out = f(b) })
				var specOK *bool
				if p {
					specOK = Bptr(false)
				}
				c.Count("lookups/shape/" + sh.name)
				c.Add(gl, &Case{Key: map[string]string{"op": "binding_location", "shape": sh.name, "function": []string{"SSO", "SLO", "Artifact"}[fi]},
					Input: map[string]any{"endpoints": sh.descs, "binding": b}, Obs: map[string]any{"location": out},
					Term:       fmt.Sprintf("{| gl_eps := %s; gl_binding := %s; gl_out := %s |}", term, emit.Str(b), emit.Str(out)),
					ImplSpecOK: specOK, Dedup: fmt.Sprintf("%s|%s|%d", sh.name, b, fi)})
			}
		}
		for kind := int64(0); kind <= 2; kind++ {
			for bnd := int64(0); bnd <= 1; bnd++ {
				target, destAttr := "", (*string)(nil)
				var specOK *bool
				withEnv(&recReader{src: c.Rng}, func() {
					p, _ := guard(func() {
						var u *url.URL
						var h []byte
						var err error
						param := "SAMLRequest"
						switch {
						case kind == 0 && bnd == 0:
							u, err = sp.MakeRedirectAuthenticationRequest("rs")
						case kind == 0:
							h, err = sp.MakePostAuthenticationRequest("rs")
						case kind == 1 && bnd == 0:
							u, err = sp.MakeRedirectLogoutRequest("user@example.com", "rs")
						case kind == 1:
							h, err = sp.MakePostLogoutRequest("user@example.com", "rs")
						case bnd == 0:
							param = "SAMLResponse"
							u, err = sp.MakeRedirectLogoutResponse("id-req", "rs")
						default:
							param = "SAMLResponse"
							h, err = sp.MakePostLogoutResponse("id-req", "rs")
						}
						if err != nil {
							specOK = Bptr(false)
							return
						}
						var wire []byte
						if bnd == 0 {
							s := u.String()
							target = s
							if i := strings.Index(s, "?"); i >= 0 {
								target = s[:i]
							}
							wire, _ = inflate64(queryOf(s).Get(param))
						} else {
							for _, e := range domElems(h) {
								if e.Tag == "form" {
									target, _ = e.attr("action")
								}
							}
							v, _ := formValueOf(h, param)
							wire, _ = base64.StdEncoding.DecodeString(v)
						}
						if root := parseRoot(wire); root != nil {
							destAttr = attrOpt(root, "Destination")
						} else {
							specOK = Bptr(false)
						}
					})
					if p {
						specOK = Bptr(false)
					}
				})
				c.Count("destinations/shape/" + sh.name)
				c.Count(fmt.Sprintf("destinations/kind/%d/binding/%d", kind, bnd))
				c.Add(g, &Case{
					Key:   map[string]string{"op": "destination", "shape": sh.name, "kind": fmt.Sprint(kind), "binding": fmt.Sprint(bnd)},
					Input: map[string]any{"idp_endpoints": sh.descs, "kind": []string{"AuthnRequest", "LogoutRequest", "LogoutResponse"}[kind], "binding": []string{"redirect", "post"}[bnd]},
					Obs:   map[string]any{"sent_to": target, "Destination": destAttr},
					Term: fmt.Sprintf("{| bl_eps := %s; bl_kind := %d; bl_binding := %d; bl_target := %s; bl_destination := %s |}",
						term, kind, bnd, emit.Str(target), emit.OptStr(destAttr)),
					ImplSpecOK: specOK,
				})
			}
		}
	}
}
