package main

import (
	. "verifharness/internal/core"

	"encoding/base64"
	"fmt"
	"net/http"
	"net/http/httptest"

	"github.com/crewjam/saml"
	"github.com/crewjam/saml/samlsp"
	dsig "github.com/russellhaering/goxmldsig"

	"verifharness/internal/emit"
)

// c13Middleware drives the real entry point that emits AuthnRequests: a request for a protected
// page through samlsp.Middleware (built by samlsp.New), for every middleware binding setting,
// IdP endpoint set, signing setting and key type; the request that leaves (redirect URL or POST
// page) is verified independently under the certificate of the SP's published metadata.
func c13Middleware(c *Ctx) {
	g := c.Group("middleware", []string{"UrlEnc", "Outbound"}, "mwcase", "check_mwcases")
	type idpEP struct {
		name              string
		redirect, post    bool
		redirLoc, postLoc string
	}
	eps := []idpEP{
		{"redirect_only", true, false, "https://idp.example.com/sso", ""},
		{"post_only", false, true, "", "https://idp.example.com/sso-post"},
		{"both", true, true, "https://idp.example.com/sso?tenant=acme", "https://idp.example.com/sso-post?tenant=acme"},
		{"post_first", true, true, "https://idp.example.com/sso", "https://idp.example.com/sso-post"},
	}
	bindings := []string{"", saml.HTTPRedirectBinding, saml.HTTPPostBinding}
	keys := allKeys()
	for _, kf := range keys {
		if kf.name == "ed25519" {
			continue
		}
		// every fixture key type goes through samlsp.New with and without SignRequest; the overridden-method
		// variants use a subset of the keys
		allVariants := !(kf.name == "rsa_3072" || kf.name == "rsa_4096" || kf.name == "ec_521")
		for ei, ep := range eps {
			for _, mb := range bindings {
				// signing: off, as samlsp.New configures it (SignRequest), a method of the key's family, a method of the other family
				for sv := 0; sv < 4; sv++ {
					if sv >= 2 && !allVariants {
						continue
					}
					if !c.Thorough() && sv == 3 && (ei+len(mb))%2 == 0 {
						continue
					}
					var ssos []saml.Endpoint
					if ep.name == "post_first" {
						ssos = append(ssos, saml.Endpoint{Binding: saml.HTTPPostBinding, Location: ep.postLoc}, saml.Endpoint{Binding: saml.HTTPRedirectBinding, Location: ep.redirLoc})
					} else {
						if ep.redirect {
							ssos = append(ssos, saml.Endpoint{Binding: saml.HTTPRedirectBinding, Location: ep.redirLoc})
						}
						if ep.post {
							ssos = append(ssos, saml.Endpoint{Binding: saml.HTTPPostBinding, Location: ep.postLoc})
						}
					}
					idpMD := &saml.EntityDescriptor{EntityID: "https://idp.example.com/metadata", IDPSSODescriptors: []saml.IDPSSODescriptor{{SingleSignOnServices: ssos}}}
					var m *samlsp.Middleware
					var err error
					method := ""
					clsN, xmlSig, redirSig := int64(2), false, false
					why := ""
					obs := map[string]any{}
					p, pmsg := guard(func() {
						withEnv(&recReader{src: c.Rng}, func() {
							m, err = samlsp.New(samlsp.Options{URL: mustURL("https://sp.example.com/"), Key: kf.key, Certificate: kf.cert, IDPMetadata: idpMD, SignRequest: sv >= 1})
							if err != nil {
								return
							}
							m.Binding = mb
							if kf.name == "ec_384" || kf.name == "ec_521" {
								// samlsp.New's request-tracker codec signs its cookie with ES256, which only a P-256 key can do:
								// with a P-384/P-521 key TrackRequest fails (500) before anything is sent.  That is the tracker's
								// matter (C16/C17); the fixed tracker keeps this case about the AuthnRequest signature.
								m.RequestTracker = fixedTracker{relay: "KCkuIF8tdGVzdA"}
							}
							isRSA := ktOf(kf.key) == 0
							switch sv {
							case 2:
								if isRSA {
									m.ServiceProvider.SignatureMethod = dsig.RSASHA512SignatureMethod
								} else {
									m.ServiceProvider.SignatureMethod = dsig.ECDSASHA384SignatureMethod
								}
							case 3:
								if isRSA {
									m.ServiceProvider.SignatureMethod = dsig.ECDSASHA256SignatureMethod
								} else {
									m.ServiceProvider.SignatureMethod = dsig.RSASHA256SignatureMethod
								}
							}
							method = m.ServiceProvider.SignatureMethod
							cert, kds, authnSigned := publishedCert(&m.ServiceProvider)
							if sv <= 1 && ei == 0 && mb == "" {
								// the metadata such an SP publishes
								mo := defaultOpts()
								mo.key, mo.cert, mo.method = kf.key, kf.cert, method
								term, mobs := mdTerm(mo, true, cert, kds, authnSigned)
								c.Add(c.Group("metadata", []string{"UrlEnc", "Outbound"}, "mdcase", "check_mdcases"), &Case{
									Key:   map[string]string{"op": "metadata_advertises", "constructor": "samlsp.New", "sign_request": fmt.Sprint(sv >= 1), "key": kf.name},
									Input: map[string]any{"constructor": "samlsp.New", "sign_request": sv >= 1, "key": kf.name, "signature_method": method},
									Obs:   mobs, Term: term})
							}
							w := httptest.NewRecorder()
							r := httptest.NewRequest("GET", "https://sp.example.com/protected?x=1", nil)
							m.RequireAccount(http.HandlerFunc(func(w http.ResponseWriter, _ *http.Request) { w.WriteHeader(299) })).ServeHTTP(w, r)
							obs["status"] = w.Code
							switch w.Code {
							case http.StatusFound:
								clsN = 0
								loc := w.Header().Get("Location")
								obs["location"] = loc
								q := queryOf(loc)
								redirSig = len(q["Signature"]) > 0 || len(q["SigAlg"]) > 0
								wire, e := inflate64(q.Get("SAMLRequest"))
								root := parseRoot(wire)
								if e != nil || root == nil {
									why = "the redirected AuthnRequest is not recoverable"
								} else {
									xmlSig = hasSigChild(root)
								}
								if redirSig {
									octets, sig, ok := cutOctets(loc)
									switch {
									case !ok:
										why = "cannot cut the signed octets out of the Location"
									case q.Get("SigAlg") != method:
										why = "SigAlg is not the configured method"
									case !verifyRaw(cert, method, []byte(octets), sig):
										why = "redirect signature does not verify under the published certificate"
									}
								}
							case http.StatusOK:
								clsN = 1
								body := w.Body.Bytes()
								v, okv := formValueOf(body, "SAMLRequest")
								wire, e := base64.StdEncoding.DecodeString(v)
								root := parseRoot(wire)
								if !okv || e != nil || root == nil {
									why = "the POSTed AuthnRequest is not recoverable"
								} else {
									xmlSig = hasSigChild(root)
									if xmlSig {
										if wv := verifyEnveloped(root, cert, method); wv != "" {
											why = wv
										}
									}
								}
							case 299:
								why = "the protected page was served without a session"
							default:
								clsN = 2
							}
						})
					})
					if p {
						clsN = 3
						obs["panic"] = pmsg
					}
					var specOK *bool
					if why != "" {
						specOK = Bptr(false)
						obs["problem"] = why
					}
					obs["xml_signature"], obs["redirect_signature"] = xmlSig, redirSig
					c.Count("middleware/idp_endpoints/" + ep.name)
					c.Count("middleware/m_binding/" + mb)
					c.Count(fmt.Sprintf("middleware/signing_variant/%d", sv))
					c.Count(fmt.Sprintf("middleware/outcome/%d", clsN))
					c.Add(g, &Case{
						Key:   map[string]string{"op": "middleware_start_auth", "idp_endpoints": ep.name, "m_binding": mb, "signing": fmt.Sprint(sv), "key": kf.name},
						Input: map[string]any{"idp_sso_endpoints": ssos, "middleware_binding": mb, "sign_request": sv >= 1, "signature_method": method, "key": kf.name},
						Obs:   obs,
						Term: fmt.Sprintf("{| mw_mbinding := %s; mw_has_redirect := %s; mw_has_post := %s; mw_sign_request := %s; mw_default := %s; mw_method := %s; mw_kt := %d; mw_cls := %d; mw_xmlsig := %s; mw_redirsig := %s |}",
							emit.Str(mb), emit.Bool(ep.redirect), emit.Bool(ep.post), emit.Bool(sv >= 1), emit.Bool(sv <= 1), emit.Str(method), ktOf(kf.key), clsN, emit.Bool(xmlSig), emit.Bool(redirSig)),
						ImplSpecOK: specOK,
					})
				}
			}
		}
	}
}
