package main

import (
	"bytes"
	"compress/flate"
	"crypto"
	"crypto/x509"
	"encoding/base64"
	"fmt"
	"io"
	"math/rand"
	"net/url"
	"strings"
	"time"

	"github.com/beevik/etree"
	"github.com/crewjam/saml"

	"verifharness/internal/emit"
	"verifharness/internal/fix"
)

var fixedNow = time.Date(2024, 5, 6, 7, 8, 9, 0, time.UTC)

// recReader is a deterministic random source that records what it hands out.
// maxChunk > 0 makes it return short reads (legal for an io.Reader).
type recReader struct {
	src      *rand.Rand
	maxChunk int
	out      []byte
	calls    int
}

func (r *recReader) Read(p []byte) (int, error) {
	r.calls++
	n := len(p)
	if r.maxChunk > 0 && n > r.maxChunk {
		n = 1 + r.src.Intn(r.maxChunk)
	}
	for i := 0; i < n; i++ {
		p[i] = byte(r.src.Intn(256))
	}
	r.out = append(r.out, p[:n]...)
	return n, nil
}

// withEnv runs f with the package clock and random source replaced.
func withEnv(rr io.Reader, f func()) {
	oldNow, oldRand := saml.TimeNow, saml.RandReader
	saml.TimeNow = func() time.Time { return fixedNow }
	saml.RandReader = rr
	defer func() { saml.TimeNow, saml.RandReader = oldNow, oldRand }()
	f()
}

// guard runs f and reports a panic as a value.
func guard(f func()) (panicked bool, msg string) {
	defer func() {
		if r := recover(); r != nil {
			panicked, msg = true, fmt.Sprint(r)
		}
	}()
	f()
	return
}

type spOpts struct {
	entityID, metadataURL, acsURL, sloURL string
	idpEntity                             string
	ssoRedirect, ssoPost                  string
	sloRedirect, sloPost                  string
	nameIDFormat                          saml.NameIDFormat
	forceAuthn                            *bool
	authnCtx                              *saml.RequestedAuthnContext
	method                                string
	key                                   crypto.Signer
	cert                                  *x509.Certificate
	inters                                []*x509.Certificate
}

func defaultOpts() spOpts {
	return spOpts{
		entityID: "https://sp.example.com/saml/metadata", metadataURL: "https://sp.example.com/saml/metadata",
		acsURL: "https://sp.example.com/saml/acs", sloURL: "https://sp.example.com/saml/slo",
		idpEntity:   "https://idp.example.com/metadata",
		ssoRedirect: "https://idp.example.com/sso", ssoPost: "https://idp.example.com/sso",
		sloRedirect: "https://idp.example.com/slo", sloPost: "https://idp.example.com/slo",
		key: fix.RSAKey("rsa_a"), cert: fix.Cert("rsa_a"),
	}
}

func mustURL(s string) url.URL {
	u, err := url.Parse(s)
	if err != nil {
		panic(err)
	}
	return *u
}

func buildSP(o spOpts) *saml.ServiceProvider {
	sp := &saml.ServiceProvider{
		EntityID:              o.entityID,
		Key:                   o.key,
		Certificate:           o.cert,
		AcsURL:                mustURL(o.acsURL),
		SloURL:                mustURL(o.sloURL),
		AuthnNameIDFormat:     o.nameIDFormat,
		ForceAuthn:            o.forceAuthn,
		RequestedAuthnContext: o.authnCtx,
		SignatureMethod:       o.method,
		Intermediates:         o.inters,
		IDPMetadata: &saml.EntityDescriptor{
			EntityID: o.idpEntity,
			IDPSSODescriptors: []saml.IDPSSODescriptor{{
				SSODescriptor: saml.SSODescriptor{
					SingleLogoutServices: []saml.Endpoint{
						{Binding: saml.HTTPRedirectBinding, Location: o.sloRedirect},
						{Binding: saml.HTTPPostBinding, Location: o.sloPost},
					},
				},
				SingleSignOnServices: []saml.Endpoint{
					{Binding: saml.HTTPRedirectBinding, Location: o.ssoRedirect},
					{Binding: saml.HTTPPostBinding, Location: o.ssoPost},
				},
			}},
		},
	}
	if o.metadataURL != "" {
		sp.MetadataURL = mustURL(o.metadataURL)
	}
	return sp
}

// docBytes serialises an element the way the library's bindings do.
func docBytes(el *etree.Element) []byte {
	doc := etree.NewDocument()
	doc.SetRoot(el)
	b, err := doc.WriteToBytes()
	if err != nil {
		panic(err)
	}
	return b
}

// deflate64 = base64(DEFLATE level 9 (xml)): the redirect-binding encoding, computed independently.
func deflate64(xml []byte) string {
	var buf bytes.Buffer
	w, _ := flate.NewWriter(&buf, 9)
	w.Write(xml)
	w.Close()
	return base64.StdEncoding.EncodeToString(buf.Bytes())
}

func inflate64(s string) ([]byte, error) {
	raw, err := base64.StdEncoding.DecodeString(s)
	if err != nil {
		return nil, err
	}
	return io.ReadAll(flate.NewReader(bytes.NewReader(raw)))
}

// stableURL reports whether url.Parse(d).String() reproduces d (the modelled class of endpoints).
func stableURL(d string) bool {
	u, err := url.Parse(d)
	if err != nil {
		return false
	}
	s := u.String()
	if strings.HasSuffix(d, "?") && !strings.Contains(d[:len(d)-1], "?") {
		return s == d
	}
	return s == d
}

func ktOf(k crypto.Signer) int64 {
	switch fmt.Sprintf("%T", k) {
	case "*rsa.PrivateKey":
		return 0
	case "*ecdsa.PrivateKey":
		return 1
	}
	return 2
}

func optField(name string, v *string) string {
	return "(" + emit.Str(name) + ", " + emit.OptStr(v) + ")"
}

func sptr(s string) *string { return &s }

func attrOpt(el *etree.Element, key string) *string {
	if el == nil {
		return nil
	}
	for _, a := range el.Attr {
		if a.Space == "" && a.Key == key {
			v := a.Value
			return &v
		}
	}
	return nil
}

func childText(el *etree.Element, tag string) *string {
	if el == nil {
		return nil
	}
	for _, c := range el.ChildElements() {
		if c.Tag == tag {
			t := c.Text()
			return &t
		}
	}
	return nil
}

func child(el *etree.Element, tag string) *etree.Element {
	if el == nil {
		return nil
	}
	for _, c := range el.ChildElements() {
		if c.Tag == tag {
			return c
		}
	}
	return nil
}

func queryOf(urlText string) url.Values {
	u, err := url.Parse(urlText)
	if err != nil {
		return url.Values{}
	}
	return u.Query()
}

func stdB64(b []byte) string { return base64.StdEncoding.EncodeToString(b) }

// sameXML reports whether two serialisations are the same XML document: both parse and their
// canonical forms (exclusive canonicalisation: attribute order, <x/> versus <x></x>, quoting and
// escaping spellings are immaterial) are equal.
func sameXML(a, b []byte) bool {
	da, db := etree.NewDocument(), etree.NewDocument()
	if da.ReadFromBytes(a) != nil || db.ReadFromBytes(b) != nil || da.Root() == nil || db.Root() == nil {
		return false
	}
	return bytes.Equal(excC14N(da.Root(), nil), excC14N(db.Root(), nil))
}

// encodedMessage is the encoded-message input of the redirect model: the value of the message
// parameter of the emitted URL when it inflates to the same XML document as the message element
// (which compression parameters and which serialisation spelling were used is immaterial), else
// the harness's own encoding of the element (so that a wrong or missing parameter is a mismatch).
func encodedMessage(urlText, param string, xmlb []byte) string {
	if vs := queryOf(urlText)[param]; len(vs) > 0 {
		v := vs[len(vs)-1]
		if x, err := inflate64(v); err == nil && sameXML(x, xmlb) {
			return v
		}
	}
	return deflate64(xmlb)
}
