package main

import (
	"os"

	. "verifharness/internal/core"
	"verifharness/internal/mdcases"
)

// The metadata clause of C15 lives in internal/mdcases and is wired into the C15 binary by the
// coordinator.  For testing it from this binary: VERIF_C15M=1 adds its cases to the C14 run.
func init() {
	if os.Getenv("VERIF_C15M") == "1" {
		base := Props["C14"]
		Props["C14"] = func(c *Ctx) {
			if os.Getenv("VERIF_C15M_ONLY") != "1" {
				base(c)
			}
			mdcases.C15Metadata(c)
		}
	}
}
