package main

import (
	. "verifharness/internal/core"

	"fmt"
	"io"
	"log"
	"net/http"
	"net/http/httptest"
	"strings"

	"github.com/crewjam/saml"
	"github.com/crewjam/saml/samlsp"

	"verifharness/internal/emit"
	"verifharness/internal/fix"
)

// shrinkMessage replaces the (multi-kilobyte, not peer-controlled) SAMLResponse field of an IdP
// response form by a short base64 token, consistently in the HTML; volume only.
func shrinkMessage(html []byte, msg string) ([]byte, string) {
	const tok = "U0FNTFJlc3BvbnNl+/8="
	if esc := strings.ReplaceAll(msg, "+", "&#43;"); len(msg) > 64 && strings.Count(string(html), esc) == 1 {
		return []byte(strings.Replace(string(html), esc, strings.ReplaceAll(tok, "+", "&#43;"), 1)), tok
	}
	return html, msg
}

// c14IdpInitiated: SP metadata with 1, 2, 3, 64 HTTP-POST assertion consumer services (other
// bindings interleaved, several descriptors): the IdP-initiated response form posts to the FIRST
// HTTP-POST endpoint in document order, and the page is exactly one form.
func c14IdpInitiated(c *Ctx) {
	P, R, A := saml.HTTPPostBinding, saml.HTTPRedirectBinding, saml.HTTPArtifactBinding
	mk := func(b, loc string, i int) acsEntry { return acsEntry{b, loc, i, nil} }
	many := func(n int, interleave bool) []acsEntry {
		var out []acsEntry
		for i := 0; i < n; i++ {
			if interleave && i%3 == 0 {
				out = append(out, mk(A, fmt.Sprintf("https://sp.example.com/art/%d", i), 100+i))
			}
			out = append(out, mk(P, fmt.Sprintf("https://sp.example.com/acs/%d?i=%d", i, i), i))
		}
		return out
	}
	tr := true
	shapes := map[string][][]acsEntry{
		"one_post":            {{mk(P, "https://sp.example.com/acs", 1)}},
		"two_post":            {many(2, false)},
		"three_post":          {many(3, false)},
		"sixtyfour_post":      {many(64, false)},
		"interleaved":         {many(5, true)},
		"redirect_first":      {{mk(R, "https://sp.example.com/r", 0), mk(A, "https://sp.example.com/a", 1), mk(P, "https://sp.example.com/p1", 2), mk(P, "https://sp.example.com/p2", 3)}},
		"default_last":        {{mk(P, "https://sp.example.com/first", 1), {P, "https://sp.example.com/default", 2, &tr}}},
		"two_descriptors":     {{mk(A, "https://sp.example.com/d0/art", 0)}, {mk(P, "https://sp.example.com/d1/p1", 1), mk(P, "https://sp.example.com/d1/p2", 2)}, {mk(P, "https://sp.example.com/d2/p", 3)}},
		"post_in_both":        {{mk(P, "https://sp.example.com/d0/p", 0), mk(P, "https://sp.example.com/d0/q", 1)}, {mk(P, "https://sp.example.com/d1/p", 2)}},
		"no_post":             {{mk(R, "https://sp.example.com/r", 0), mk(A, "https://sp.example.com/a", 1)}},
		"hostile_first_post":  {{mk(P, "javascript:alert(1)", 0), mk(P, "https://sp.example.com/ok", 1)}},
		"sixtyfour_interleav": {many(64, true)},
	}
	names := []string{"one_post", "two_post", "three_post", "sixtyfour_post", "interleaved", "redirect_first", "default_last", "two_descriptors", "post_in_both", "no_post", "hostile_first_post", "sixtyfour_interleav"}
	relays := hostileStrings(c, 0)
	g := c.Group("idpinitiated", []string{"IdPModel", "UrlEnc", "HtmlEsc", "OutboundIdPForm"}, "ipcase", "check_ipcases")
	for ni, name := range names {
		descs := shapes[name]
		for v := 0; v < 2; v++ {
			relay := relays[(ni*3+v*7)%len(relays)].s
			var sps []saml.SPSSODescriptor
			var descT []string
			for _, d := range descs {
				var acs []saml.IndexedEndpoint
				var et []string
				for _, e := range d {
					acs = append(acs, saml.IndexedEndpoint{Binding: e.binding, Location: e.loc, Index: e.index, IsDefault: e.def})
					df := "None"
					if e.def != nil {
						df = "(Some " + emit.Bool(*e.def) + ")"
					}
					et = append(et, fmt.Sprintf("(%s, %s, %d, %s)", emit.Str(e.binding), emit.Str(e.loc), e.index, df))
				}
				sps = append(sps, saml.SPSSODescriptor{AssertionConsumerServices: acs})
				descT = append(descT, emit.List(et))
			}
			spMD := &saml.EntityDescriptor{EntityID: "sp", SPSSODescriptors: sps}
			idp := &saml.IdentityProvider{Key: fix.RSAKey("rsa_a"), Certificate: fix.Cert("rsa_a"), Logger: log.New(io.Discard, "", 0),
				MetadataURL: mustURL("https://idp.example.com/metadata"), SSOURL: mustURL("https://idp.example.com/sso"),
				ServiceProviderProvider: staticSPP{md: map[string]*saml.EntityDescriptor{"sp": spMD}}, SessionProvider: fixedSession{}}
			w := httptest.NewRecorder()
			var specOK *bool
			withEnv(&recReader{src: c.Rng}, func() {
				p, _ := guard(func() {
					idp.ServeIDPInitiated(w, httptest.NewRequest("GET", "https://idp.example.com/login/sp", nil), "sp", relay)
				})
				if p {
					specOK = Bptr(false)
				}
			})
			status, html, msg := int64(2), []byte(nil), ""
			if w.Code == 200 {
				status = 0
				html = w.Body.Bytes()
				msg, _ = formValueOf(html, "SAMLResponse")
				html, msg = shrinkMessage(html, msg)
			}
			dv := domViewOf(html)
			action := ""
			forms := 0
			for _, e := range dv {
				if e.Tag == "form" {
					forms++
					action, _ = e.attr("action")
				}
			}
			c.Count("idpinitiated/shape/" + name)
			c.Count(fmt.Sprintf("idpinitiated/status/%d", status))
			c.Add(g, &Case{
				Key:   map[string]string{"op": "idp_initiated_form", "shape": name},
				Input: map[string]any{"sp_acs_endpoints": descs2json(descs), "relay_state": relay},
				Obs:   map[string]any{"http_status": w.Code, "form_action": action, "forms_in_page": forms},
				Term: fmt.Sprintf("{| ip_descs := %s; ip_relay := %s; ip_msg := %s; ip_status := %d; ip_html := %s; ip_dom := %s |}",
					emit.List(descT), emit.Str(relay), emit.Str(msg), status, emit.Str(string(html)), domTerm(dv)),
				ImplSpecOK: specOK,
			})
		}
	}
}

func descs2json(descs [][]acsEntry) [][]map[string]any {
	var out [][]map[string]any
	for _, d := range descs {
		if len(d) > 6 {
			d = append(append([]acsEntry{}, d[:3]...), d[len(d)-2:]...)
		}
		out = append(out, set2json(d))
	}
	return out
}

// relayLengths: relay states of 79, 80, 81, 255, 4096 (and 65536, checked on the Go side only)
// bytes and multi-byte runes straddling byte 80.
func relayLengths() []cls {
	pad := func(n int) string { return repeatTo("relay-0123456789_", n) }
	return []cls{
		{"len79", pad(79)}, {"len80", pad(80)}, {"len81", pad(81)}, {"len255", pad(255)}, {"len4096", pad(4096)},
		{"rune_straddles_80", pad(79) + "é" + "tail"}, {"rune3_straddles_80", pad(78) + "世界"}, {"rune_ends_at_80", pad(78) + "é"},
		{"len80_meta", repeatTo(`a&b=c+d "<e>'`, 80)}, {"len81_meta", repeatTo(`a&b=c+d "<e>'`, 81)},
	}
}

// c14RelayLengths: the long relay states through the real middleware with a RelayStateFunc
// (samlsp.New) on both bindings, and through every other form: the hidden field / parameter
// carries exactly that value.
func c14RelayLengths(c *Ctx) {
	gb := c.Group("relaylengths", []string{}, "bool", "check_bools")
	nf := 0
	addForm := func(kind int64, urlS, msg, relay string, html []byte, class string, failed bool) {
		g := c.Group(fmt.Sprintf("relayforms%d", nf/12), []string{"UrlEnc", "HtmlEsc"}, "fmcase", "check_fmcases")
		nf++
		var specOK *bool
		if failed {
			specOK = Bptr(false)
		}
		dv := domViewOf(html)
		seen, _ := formValueOf(html, "RelayState")
		c.Count("relayforms/class/" + class)
		c.Count(fmt.Sprintf("relayforms/kind/%d", kind))
		c.Add(g, &Case{
			Key:   map[string]string{"op": "form_relay_length", "kind": fmt.Sprint(kind), "relay": class},
			Input: map[string]any{"producer": []string{"AuthnRequest.Post", "LogoutRequest.Post", "LogoutResponse.Post", "IdP response form", "IdP login form", "middleware POST page (RelayStateFunc)"}[kind], "relay_state_bytes": len(relay), "relay_state": relay},
			Obs:   map[string]any{"relay_state_in_form_bytes": len(seen), "relay_state_in_form": seen},
			Term: fmt.Sprintf("{| fm_kind := %d; fm_data := {| fd_url := %s; fd_msg := %s; fd_relay := %s; fd_toast := \"\" |}; fm_html := %s; fm_dom := %s |}",
				kind, emit.Str(urlS), emit.Str(msg), emit.Str(relay), emit.Str(string(html)), domTerm(dv)),
			ImplSpecOK: specOK,
		})
	}
	lens := relayLengths()
	huge := cls{"len65536", repeatTo("relay-0123456789_", 65536)}
	idpMD := func() *saml.EntityDescriptor {
		return &saml.EntityDescriptor{EntityID: "https://idp.example.com/metadata", IDPSSODescriptors: []saml.IDPSSODescriptor{{SingleSignOnServices: []saml.Endpoint{
			{Binding: saml.HTTPRedirectBinding, Location: "https://idp.example.com/sso"}, {Binding: saml.HTTPPostBinding, Location: "https://idp.example.com/sso-post"}}}}}
	}
	for li, l := range append(append([]cls{}, lens...), huge) {
		relay := l.s
		for _, binding := range []string{saml.HTTPPostBinding, saml.HTTPRedirectBinding} {
			var m *samlsp.Middleware
			w := httptest.NewRecorder()
			p, _ := guard(func() {
				withEnv(&recReader{src: c.Rng}, func() {
					var err error
					m, err = samlsp.New(samlsp.Options{URL: mustURL("https://sp.example.com/"), Key: fix.RSAKey("rsa_a"), Certificate: fix.Cert("rsa_a"), IDPMetadata: idpMD(),
						RelayStateFunc: func(http.ResponseWriter, *http.Request) string { return relay }})
					if err != nil {
						return
					}
					m.Binding = binding
					m.HandleStartAuthFlow(w, httptest.NewRequest("GET", fmt.Sprintf("https://sp.example.com/protected/%d", li), nil))
				})
			})
			if binding == saml.HTTPPostBinding {
				html := w.Body.Bytes()
				seen, _ := formValueOf(html, "RelayState")
				if l.class == "len65536" {
					c.Add(gb, &Case{Key: map[string]string{"op": "middleware_relay_length", "binding": "post", "relay": l.class}, Input: map[string]any{"relay_state_bytes": len(relay)},
						Obs: map[string]any{"status": w.Code, "relay_state_in_form_bytes": len(seen)}, Term: emit.Bool(!p && w.Code == 200 && seen == relay)})
					continue
				}
				msg, _ := formValueOf(html, "SAMLRequest")
				addForm(5, "https://idp.example.com/sso-post", msg, relay, html, l.class, p || w.Code != 200)
			} else {
				loc := w.Header().Get("Location")
				q := queryOf(loc)
				good := !p && w.Code == http.StatusFound && len(q["RelayState"]) == 1 && q.Get("RelayState") == relay && len(q["SAMLRequest"]) == 1
				c.Count("relaylengths/redirect/" + l.class)
				c.Add(gb, &Case{Key: map[string]string{"op": "middleware_relay_length", "binding": "redirect", "relay": l.class},
					Input: map[string]any{"relay_state_bytes": len(relay), "relay_state": relay[:min(len(relay), 120)]},
					Obs:   map[string]any{"status": w.Code, "relay_state_in_location_bytes": len(q.Get("RelayState"))}, Term: emit.Bool(good)})
			}
		}
	}
	// the other five forms with the same lengths
	idpSrv := newQuietIdpServer()
	for li, l := range lens {
		relay := l.s
		o := defaultOpts()
		sp := buildSP(o)
		withEnv(&recReader{src: c.Rng}, func() {
			guard(func() {
				if r, err := sp.MakeAuthenticationRequest(o.ssoPost, saml.HTTPPostBinding, saml.HTTPPostBinding); err == nil {
					addForm(0, o.ssoPost, stdB64(docBytes(r.Element())), relay, r.Post(relay), l.class, false)
				}
				if r, err := sp.MakeLogoutRequest(o.sloPost, "u"); err == nil {
					addForm(1, o.sloPost, stdB64(docBytes(r.Element())), relay, r.Post(relay), l.class, false)
				}
				if r, err := sp.MakeLogoutResponse(o.sloPost, "id-1"); err == nil {
					addForm(2, o.sloPost, stdB64(docBytes(r.Element())), relay, r.Post(relay), l.class, false)
				}
				buf := []byte(fmt.Sprintf("<AuthnRequest>%d</AuthnRequest>", li))
				w := httptest.NewRecorder()
				sendLoginForm(idpSrv, w, &saml.IdpAuthnRequest{IDP: &idpSrv.IDP, RequestBuffer: buf, RelayState: relay}, "")
				addForm(4, idpSrv.IDP.LoginURL.String(), stdB64(buf), relay, w.Body.Bytes(), l.class, false)
			})
		})
	}
}
