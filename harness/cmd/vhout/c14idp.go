package main

import (
	. "verifharness/internal/core"

	"fmt"
	"io"
	"log"
	"net/http"
	"net/http/httptest"
	"net/url"
	"strings"

	"github.com/crewjam/saml"

	"verifharness/internal/emit"
	"verifharness/internal/fix"
)

type fixedSession struct{}

func (fixedSession) GetSession(http.ResponseWriter, *http.Request, *saml.IdpAuthnRequest) *saml.Session {
	return &saml.Session{ID: "s1", CreateTime: fixedNow, ExpireTime: fixedNow.Add(3600e9), Index: "i1", NameID: "alice@example.com", UserName: "alice", UserEmail: "alice@example.com"}
}

type acsEntry struct {
	binding, loc string
	index        int
	def          *bool
}

// c14IdpFlow feeds the IdP's response form through the real flow (ServeSSO) with requests whose
// AssertionConsumerServiceURL / Index / RelayState are peer-controlled: the form's action must be
// the REGISTERED location of the chosen endpoint, never a string from the request.
func c14IdpFlow(c *Ctx) {
	tr := true
	sets := map[string][]acsEntry{
		"sp_default": {{saml.HTTPPostBinding, "https://sp.example.com/saml/acs", 1, nil}, {saml.HTTPArtifactBinding, "https://sp.example.com/saml/acs", 2, nil}},
		"multi": {{saml.HTTPPostBinding, "https://sp.example.com/acs1?x=1&y=2", 1, nil}, {saml.HTTPPostBinding, "https://sp.example.com/acs3", 3, &tr},
			{saml.HTTPRedirectBinding, "https://sp.example.com/acs4", 4, nil}},
		"redirect_first": {{saml.HTTPRedirectBinding, "https://sp.example.com/r", 0, nil}, {saml.HTTPPostBinding, "https://sp.example.com/p", 5, nil}},
	}
	setNames := []string{"sp_default", "multi", "redirect_first"}
	urls := []cls{{"absent", ""}, {"registered0", "@0"}, {"registered1", "@1"}, {"foreign_https", "https://collector.example.net/acs"}, {"javascript", "javascript:alert(document.domain)//"},
		{"markup", `https://sp.example.com/saml/acs"><script>alert(1)</script>`}, {"registered_case", "HTTPS://SP.example.com/saml/acs"}, {"registered_slash", "@0/"}, {"data", "data:text/html,x"}}
	idxs := []string{"", "1", "3", "4", "0", "5", "9", "01", "2"}
	relays := hostileStrings(c, 0)
	n := 0
	for _, sn := range setNames {
		set := sets[sn]
		for ui, u := range urls {
			for ii, idx := range idxs {
				if !c.Thorough() && (ui+ii)%2 == 1 && !(idx != "" && (u.class == "foreign_https" || u.class == "javascript" || u.class == "markup")) {
					continue
				}
				reqURL := u.s
				if strings.HasPrefix(reqURL, "@") {
					k := int(reqURL[1] - '0')
					if k >= len(set) {
						continue
					}
					reqURL = set[k].loc + reqURL[2:]
				}
				relay := relays[(n*5+ui)%len(relays)]
				post := n%2 == 1
				n++
				var acs []saml.IndexedEndpoint
				for _, e := range set {
					acs = append(acs, saml.IndexedEndpoint{Binding: e.binding, Location: e.loc, Index: e.index, IsDefault: e.def})
				}
				spMD := &saml.EntityDescriptor{EntityID: "sp", SPSSODescriptors: []saml.SPSSODescriptor{{AssertionConsumerServices: acs}}}
				idp := &saml.IdentityProvider{Key: fix.RSAKey("rsa_a"), Certificate: fix.Cert("rsa_a"), Logger: log.New(io.Discard, "", 0),
					MetadataURL: mustURL("https://idp.example.com/metadata"), SSOURL: mustURL("https://idp.example.com/sso"),
					ServiceProviderProvider: staticSPP{md: map[string]*saml.EntityDescriptor{"sp": spMD}}, SessionProvider: fixedSession{}}
				attrs := ""
				if reqURL != "" {
					attrs += ` AssertionConsumerServiceURL="` + xmlAttr(reqURL) + `"`
				}
				if idx != "" {
					attrs += ` AssertionConsumerServiceIndex="` + xmlAttr(idx) + `"`
				}
				reqXML := `<samlp:AuthnRequest xmlns:samlp="urn:oasis:names:tc:SAML:2.0:protocol" xmlns:saml="urn:oasis:names:tc:SAML:2.0:assertion" ID="id-1" Version="2.0" IssueInstant="2024-05-06T07:08:09Z"` +
					attrs + `><saml:Issuer>sp</saml:Issuer></samlp:AuthnRequest>`
				status := int64(3)
				var html []byte
				msg := ""
				w := httptest.NewRecorder()
				var specOK *bool
				withEnv(&recReader{src: c.Rng}, func() {
					p, _ := guard(func() {
						var r *http.Request
						if post {
							body := url.Values{"SAMLRequest": {stdB64([]byte(reqXML))}, "RelayState": {relay.s}}.Encode()
							r = httptest.NewRequest("POST", "https://idp.example.com/sso", strings.NewReader(body))
							r.Header.Set("Content-Type", "application/x-www-form-urlencoded")
						} else {
							q := url.Values{"SAMLRequest": {deflate64([]byte(reqXML))}, "RelayState": {relay.s}}.Encode()
							r = httptest.NewRequest("GET", "https://idp.example.com/sso?"+q, nil)
						}
						idp.ServeSSO(w, r)
					})
					if p {
						specOK = Bptr(false)
					}
				})
				switch w.Code {
				case 200:
					status = 0
					html = w.Body.Bytes()
					msg, _ = formValueOf(html, "SAMLResponse")
				case 400:
					status = 1
				case 500:
					status = 2
				}
				// the SAMLResponse field (a signed response of several kilobytes of base64, not peer-controlled) is
				// replaced by a short base64 token in the HTML before it is handed to the model: volume only
				if esc := strings.ReplaceAll(msg, "+", "&#43;"); status == 0 && len(msg) > 64 && strings.Count(string(html), esc) == 1 {
					html = []byte(strings.Replace(string(html), esc, "U0FNTFJlc3BvbnNl+/8=", 1))
					html = []byte(strings.Replace(string(html), "U0FNTFJlc3BvbnNl+/8=", "U0FNTFJlc3BvbnNl&#43;/8=", 1))
					msg = "U0FNTFJlc3BvbnNl+/8="
				}
				dv := domViewOf(html)
				if status != 0 {
					dv = nil
					html = nil
				}
				acsT := make([]string, len(set))
				for i, e := range set {
					d := "None"
					if e.def != nil {
						d = "(Some " + emit.Bool(*e.def) + ")"
					}
					acsT[i] = fmt.Sprintf("(%s, %s, %d, %s)", emit.Str(e.binding), emit.Str(e.loc), e.index, d)
				}
				g := c.Group(fmt.Sprintf("idpflow%d", (n-1)/40), []string{"IdPModel", "UrlEnc", "HtmlEsc", "OutboundIdPForm"}, "ifcase", "check_ifcases")
				c.Count("idpflow/acs_set/" + sn)
				c.Count("idpflow/request_url/" + u.class)
				c.Count("idpflow/request_index/" + idx)
				c.Count(fmt.Sprintf("idpflow/status/%d", status))
				action := ""
				for _, e := range dv {
					if e.Tag == "form" {
						action, _ = e.attr("action")
					}
				}
				c.Add(g, &Case{
					Key:   map[string]string{"op": "idp_response_form_flow", "acs_set": sn, "request_url": u.class, "request_index": idx, "relay": relay.class},
					Input: map[string]any{"registered_acs": set2json(set), "AssertionConsumerServiceURL": reqURL, "AssertionConsumerServiceIndex": idx, "relay_state": relay.s, "method": map[bool]string{true: "POST", false: "GET"}[post]},
					Obs:   map[string]any{"http_status": w.Code, "form_action": action, "html": string(html)},
					Term: fmt.Sprintf("{| if_acs := %s; if_req_url := %s; if_req_index := %s; if_relay := %s; if_msg := %s; if_status := %d; if_html := %s; if_dom := %s |}",
						emit.List(acsT), emit.Str(reqURL), emit.Str(idx), emit.Str(relay.s), emit.Str(msg), status, emit.Str(string(html)), domTerm(dv)),
					ImplSpecOK: specOK,
				})
			}
		}
	}
}

func set2json(set []acsEntry) []map[string]any {
	var out []map[string]any
	for _, e := range set {
		out = append(out, map[string]any{"binding": e.binding, "location": e.loc, "index": e.index, "isDefault": e.def})
	}
	return out
}
