package main

import (
	. "verifharness/internal/core"

	"bytes"
	"compress/flate"
	"encoding/base64"
	"encoding/xml"
	"fmt"
	"io"
	"net/url"
	"strings"
	"sync"

	"github.com/beevik/etree"
	"github.com/crewjam/saml"
	dsig "github.com/russellhaering/goxmldsig"

	"verifharness/internal/emit"
)

type lockedReader struct {
	mu sync.Mutex
	r  io.Reader
}

func (l *lockedReader) Read(p []byte) (int, error) {
	l.mu.Lock()
	defer l.mu.Unlock()
	return l.r.Read(p)
}

// retained is one produced result, kept alive and decoded only after all productions.
type retained struct {
	what                    string
	id, relay, dest, target string // recorded at production time (copies)
	decode                  func() (id, relay, dest, target string)
}

func rootOf(b []byte) *etree.Element {
	doc := etree.NewDocument()
	if doc.ReadFromBytes(b) != nil {
		return nil
	}
	return doc.Root()
}

func idDest(root *etree.Element) (string, string) {
	if root == nil {
		return "<undecodable>", "<undecodable>"
	}
	return root.SelectAttrValue("ID", ""), root.SelectAttrValue("Destination", "")
}

func decodeForm(html []byte, param string) (id, relay, dest, target string) {
	v, _ := formValueOf(html, param)
	relay, _ = formValueOf(html, "RelayState")
	x, _ := base64.StdEncoding.DecodeString(v)
	id, dest = idDest(rootOf(x))
	for _, e := range domElems(html) {
		if e.Tag == "form" {
			target, _ = e.attr("action")
		}
	}
	return
}

func decodeURL(u *url.URL, param string) (id, relay, dest, target string) {
	s := u.String()
	q := queryOf(s)
	relay = q.Get("RelayState")
	x, _ := inflate64(q.Get(param))
	id, dest = idDest(rootOf(x))
	target = s
	if i := strings.Index(s, "?"); i >= 0 {
		target = s[:i]
	}
	return
}

// produce makes message number k of a sequence with producer p on sp; relay and the SP's
// endpoints are particular to k.  It returns the retained result (nil on error).
func produce(sp *saml.ServiceProvider, p int, relay, sso, slo string) *retained {
	switch p % 12 {
	case 0: // AuthnRequest.Post
		r, err := sp.MakeAuthenticationRequest(sso, saml.HTTPPostBinding, saml.HTTPPostBinding)
		if err != nil {
			return nil
		}
		h := r.Post(relay)
		return &retained{"AuthnRequest.Post", r.ID, relay, sso, sso, func() (string, string, string, string) { return decodeForm(h, "SAMLRequest") }}
	case 1: // AuthnRequest.Redirect (the *url.URL is kept)
		r, err := sp.MakeAuthenticationRequest(sso, saml.HTTPRedirectBinding, saml.HTTPPostBinding)
		if err != nil {
			return nil
		}
		u, err := r.Redirect(relay, sp)
		if err != nil {
			return nil
		}
		return &retained{"AuthnRequest.Redirect", r.ID, relay, sso, sso, func() (string, string, string, string) { return decodeURL(u, "SAMLRequest") }}
	case 2: // MakePostAuthenticationRequest
		h, err := sp.MakePostAuthenticationRequest(relay)
		if err != nil {
			return nil
		}
		id, _, _, _ := decodeForm(append([]byte(nil), h...), "SAMLRequest")
		d := sp.GetSSOBindingLocation(saml.HTTPPostBinding)
		return &retained{"MakePostAuthenticationRequest", id, relay, d, d, func() (string, string, string, string) { return decodeForm(h, "SAMLRequest") }}
	case 3: // LogoutRequest.Post
		r, err := sp.MakeLogoutRequest(slo, "user")
		if err != nil {
			return nil
		}
		h := r.Post(relay)
		return &retained{"LogoutRequest.Post", r.ID, relay, slo, slo, func() (string, string, string, string) { return decodeForm(h, "SAMLRequest") }}
	case 4: // LogoutRequest.Redirect
		r, err := sp.MakeLogoutRequest(slo, "user")
		if err != nil {
			return nil
		}
		u := r.Redirect(relay)
		return &retained{"LogoutRequest.Redirect", r.ID, relay, slo, slo, func() (string, string, string, string) { return decodeURL(u, "SAMLRequest") }}
	case 5: // LogoutRequest.Bytes
		r, err := sp.MakeLogoutRequest(slo, "user")
		if err != nil {
			return nil
		}
		b, err := r.Bytes()
		if err != nil {
			return nil
		}
		return &retained{"LogoutRequest.Bytes", r.ID, "", slo, "", func() (string, string, string, string) { i, d := idDest(rootOf(b)); return i, "", d, "" }}
	case 6: // LogoutRequest.Deflate
		r, err := sp.MakeLogoutRequest(slo, "user")
		if err != nil {
			return nil
		}
		b, err := r.Deflate()
		if err != nil {
			return nil
		}
		return &retained{"LogoutRequest.Deflate", r.ID, "", slo, "", func() (string, string, string, string) {
			x, _ := io.ReadAll(flate.NewReader(bytes.NewReader(b)))
			i, d := idDest(rootOf(x))
			return i, "", d, ""
		}}
	case 7: // LogoutResponse.Post
		r, err := sp.MakeLogoutResponse(slo, "id-req")
		if err != nil {
			return nil
		}
		h := r.Post(relay)
		return &retained{"LogoutResponse.Post", r.ID, relay, slo, slo, func() (string, string, string, string) { return decodeForm(h, "SAMLResponse") }}
	case 8: // LogoutResponse.Redirect
		r, err := sp.MakeLogoutResponse(slo, "id-req")
		if err != nil {
			return nil
		}
		u := r.Redirect(relay)
		return &retained{"LogoutResponse.Redirect", r.ID, relay, slo, slo, func() (string, string, string, string) { return decodeURL(u, "SAMLResponse") }}
	case 9: // ArtifactResolve.SoapRequest (the element is kept, serialised later)
		r, err := sp.MakeArtifactResolveRequest(relay)
		if err != nil {
			return nil
		}
		el := r.SoapRequest()
		return &retained{"ArtifactResolve.SoapRequest", r.ID, relay, "", "", func() (string, string, string, string) {
			root := rootOf(docBytes(el))
			ar := child(child(root, "Body"), "ArtifactResolve")
			if ar == nil {
				return "<undecodable>", "", "", ""
			}
			a := ""
			if t := childText(ar, "Artifact"); t != nil {
				a = *t
			}
			return ar.SelectAttrValue("ID", ""), a, "", ""
		}}
	case 10: // AuthnRequest.Element (kept, serialised later)
		r, err := sp.MakeAuthenticationRequest(sso, saml.HTTPPostBinding, saml.HTTPPostBinding)
		if err != nil {
			return nil
		}
		el := r.Element()
		return &retained{"AuthnRequest.Element", r.ID, "", sso, "", func() (string, string, string, string) { i, d := idDest(rootOf(docBytes(el))); return i, "", d, "" }}
	default: // MakeRedirectLogoutRequest
		u, err := sp.MakeRedirectLogoutRequest("user", relay)
		if err != nil {
			return nil
		}
		id, _, _, _ := decodeURL(u, "SAMLRequest")
		d := sp.GetSLOBindingLocation(saml.HTTPRedirectBinding)
		return &retained{"MakeRedirectLogoutRequest", id, relay, d, d, func() (string, string, string, string) { return decodeURL(u, "SAMLRequest") }}
	}
}

func itemsTerm(items [][4]string) string {
	out := make([]string, len(items))
	for i, x := range items {
		out[i] = "(" + emit.Str(x[0]) + ", " + emit.Str(x[1]) + ", " + emit.Str(x[2]) + ", " + emit.Str(x[3]) + ")"
	}
	return emit.List(out)
}

// c12Retained: "all sequences of message creations" - the results of message k are kept while
// messages k+1..k+n are produced (same and different SPs, same and different kinds,
// sequentially and from concurrent goroutines); only then all are decoded: each must still
// decode to its own ID, relay state and destination.
func c12Retained(c *Ctx) {
	g := c.Group("retained", []string{"UrlEnc", "Outbound"}, "rtcase", "check_rtcases")
	nseq := 36
	if c.Thorough() {
		nseq = 300
	}
	mkSP := func(k int, signed bool) (*saml.ServiceProvider, string, string) {
		o := defaultOpts()
		sso := fmt.Sprintf("https://idp%d.example.com/sso", k%3)
		slo := fmt.Sprintf("https://idp%d.example.com/slo/%d", k%3, k)
		o.ssoRedirect, o.ssoPost, o.sloRedirect, o.sloPost = sso, sso, slo, slo
		o.entityID = fmt.Sprintf("https://sp%d.example.com/metadata", k%4)
		if signed {
			o.method = dsig.RSASHA256SignatureMethod
		}
		return buildSP(o), sso, slo
	}
	for s := 0; s < nseq; s++ {
		concurrent := s%3 == 2
		n := 2 + c.Rng.Intn(7)
		sameKind := s%4 == 0
		sameSP := s%2 == 0
		p0 := s % 12
		rr := &recReader{src: c.Rng}
		var kept []*retained
		kinds := make([]string, n)
		failed := false
		// relay states of decreasing and increasing lengths, all different
		relayOf := func(k int) string {
			return fmt.Sprintf("rs-%d-%d-", s, k) + strings.Repeat("x", (n-k)*7%23) + []string{"", "&a=b", "<\"'>", "é"}[k%4]
		}
		sharedSP, sharedSSO, sharedSLO := mkSP(s, s%5 == 0)
		// metadata documents produced in between are retained too
		var mdDocs [][]byte
		var mdIDs []string
		if concurrent {
			kept = make([]*retained, n)
			var wg sync.WaitGroup
			withEnv(&lockedReader{r: rr}, func() {
				for k := 0; k < n; k++ {
					sp, sso, slo := sharedSP, sharedSSO, sharedSLO
					if !sameSP {
						sp, sso, slo = mkSP(s*10+k, false)
					}
					p := p0
					if !sameKind {
						p = p0 + k
					}
					wg.Add(1)
					go func(k, p int) {
						defer wg.Done()
						defer func() { recover() }()
						kept[k] = produce(sp, p, relayOf(k), sso, slo)
					}(k, p)
				}
				wg.Wait()
			})
		} else {
			withEnv(rr, func() {
				for k := 0; k < n; k++ {
					sp, sso, slo := sharedSP, sharedSSO, sharedSLO
					if !sameSP {
						sp, sso, slo = mkSP(s*10+k, false)
					}
					p := p0
					if !sameKind {
						p = p0 + k
					}
					var r *retained
					pn, _ := guard(func() { r = produce(sp, p, relayOf(k), sso, slo) })
					if pn {
						r = nil
					}
					kept = append(kept, r)
					if k%3 == 1 {
						if b, err := xml.Marshal(sp.Metadata()); err == nil {
							mdDocs = append(mdDocs, b)
							mdIDs = append(mdIDs, sp.Metadata().EntityID)
						}
					}
				}
			})
		}
		// only now decode everything
		var expected, decoded [][4]string
		for k, r := range kept {
			if r == nil {
				failed = true
				expected = append(expected, [4]string{"<not produced>", "", "", ""})
				decoded = append(decoded, [4]string{"", "", "", ""})
				continue
			}
			kinds[k] = r.what
			expected = append(expected, [4]string{r.id, r.relay, r.dest, r.target})
			var d [4]string
			pn, _ := guard(func() { d[0], d[1], d[2], d[3] = r.decode() })
			if pn {
				d = [4]string{"<panic>", "", "", ""}
			}
			decoded = append(decoded, d)
		}
		for i, b := range mdDocs {
			var ed saml.EntityDescriptor
			if xml.Unmarshal(b, &ed) != nil || ed.EntityID != mdIDs[i] {
				failed = true
			}
		}
		var specOK *bool
		if failed {
			specOK = Bptr(false)
		}
		stream := ""
		if !concurrent {
			stream = string(rr.out)
		}
		c.Count(fmt.Sprintf("retained/concurrent/%v", concurrent))
		c.Count(fmt.Sprintf("retained/same_kind/%v/same_sp/%v", sameKind, sameSP))
		for _, k := range kinds {
			c.Count("retained/producer/" + k)
		}
		c.Add(g, &Case{
			Key:   map[string]string{"op": "retained_results", "concurrent": fmt.Sprint(concurrent), "same_kind": fmt.Sprint(sameKind), "same_sp": fmt.Sprint(sameSP)},
			Input: map[string]any{"producers": kinds, "expected_id_relay_destination_target": expected, "concurrent": concurrent},
			Obs:   map[string]any{"decoded_after_all_productions": decoded, "metadata_documents_retained": len(mdDocs)},
			Term: fmt.Sprintf("{| rt_stream := %s; rt_expected := %s; rt_decoded := %s |}",
				emit.Str(stream), itemsTerm(expected), itemsTerm(decoded)),
			ImplSpecOK: specOK,
		})
	}
}
