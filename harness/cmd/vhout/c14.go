package main

import (
	. "verifharness/internal/core"

	"bytes"
	"crypto/sha256"
	"encoding/base64"
	"encoding/xml"
	"fmt"
	htemplate "html/template"
	"io"
	"log"
	"net/http"
	"net/http/httptest"
	"net/url"
	"reflect"
	"strings"

	"github.com/beevik/etree"
	"github.com/crewjam/saml"
	"github.com/crewjam/saml/samlidp"
	"github.com/crewjam/saml/samlsp"

	"verifharness/internal/emit"
	"verifharness/internal/fix"
)

func init() { Props["C14"] = runC14 }

func runC14(c *Ctx) {
	c14Escapers(c)
	c14Forms(c)
	c14IdpFlow(c)
	c14History(c)
	c14IdpInitiated(c)
	c14RelayLengths(c)
	c14URLParse(c)
	c14Locations(c)
	c14Elements(c)
	c14Reflect(c)
}

// hostile strings for the HTML positions (no bare CR: HTML parsers normalise CR/CRLF to LF in the input stream)
func hostileStrings(c *Ctx, nRandom int) []cls {
	out := []cls{
		{"plain", "relayState"}, {"empty", ""}, {"dquote", `a"b`}, {"attr_break", `"><script>alert(1)</script>`}, {"squote", `a'b' onmouseover='x`},
		{"amp", "a&b&amp;c&#34;d&lt"}, {"lt_gt", "<b>x</b>"}, {"script_end", "</script><script>alert(1)</script>"}, {"form_end", `"/></form><form action="http://evil/">`},
		{"nul", "a\x00b"}, {"nul_only", "\x00"}, {"lsep", "a\u2028b\u2029c"}, {"tmpl", "{{.URL}}{{`x`}}"}, {"tmpl_end", "}}{{"}, {"plus", "a+b c"},
		{"backtick", "`x`=y"}, {"equals_space", "x=1 y=2\tz\nw"}, {"comment", "<!-- x --><![CDATA[y]]>"}, {"entity", "&quot;&apos;&#x22;&#34&copy&notit;"},
		{"bad_utf8", "a\xff\xfeb\xc3"}, {"bad_utf8_2", "\xe4\xb8\"\xf0\x9f<\xc0\xaf>\xed\xa0\x80"}, {"overlong_nul", "\xc0\x80\xe0\x80\x80"}, {"fffd", "\uFFFD\uFFFE\uFDD0"},
		{"nonascii", "héllo—世界\U0001F600"}, {"js_url", "javascript:alert(document.domain)"}, {"js_url_case", "JaVaScRiPt:alert(1)"},
		{"js_url_ws", " javascript:alert(1)"}, {"js_url_tab", "java\tscript:alert(1)"}, {"data_url", "data:text/html;base64,PHNjcmlwdD4="}, {"vbscript", "vbscript:msgbox(1)"},
		{"http", "http://idp.example.com/sso?a=1&b=2#f"}, {"https_meta", `https://idp.example.com/sso?x="1"&y=<2>'3'`}, {"mailto", "MAILTO:a@b"}, {"rel_colon", "/a:b"}, {"rel_colon2", "a/b:c"},
		{"scheme_only", "javascript:"}, {"colon_first", ":x"}, {"long_s", "httpſ://x/"}, {"long_s2", "httpſ:alert(1)"}, {"pct", "http://x/%41%zz%4"}, {"pct_end", "http://x/%"},
		{"space_url", "http://x/a b\"c"}, {"paren", "http://x/(a)[b]{c}|d\\e^f`g"}, {"nul_url", "http://x/\x00"}, {"long", strings.Repeat(`<"&'>+`, 60)},
		{"long81", strings.Repeat("x", 81)}, {"crlf_free_nl", "a\nb"},
	}
	alphabet := []string{`"`, "'", "<", ">", "&", "+", "\x00", "=", " ", "/", ":", "%", "#", "?", ";", "a", "Z", "0", "\xff", "\xc3", "é", "\u2028", "{{", "}}", "&#", "&amp;", "javascript:", "http:", "\\", "`", "\t", "\n"}
	for i := 0; i < nRandom; i++ {
		var sb strings.Builder
		for k := 0; k < 1+c.Rng.Intn(10); k++ {
			sb.WriteString(alphabet[c.Rng.Intn(len(alphabet))])
		}
		out = append(out, cls{"random", sb.String()})
	}
	return out
}

var (
	tmplAttr = htemplate.Must(htemplate.New("a").Parse(`<input value="{{.}}">`))
	tmplURL  = htemplate.Must(htemplate.New("u").Parse(`<form action="{{.}}">`))
	tmplText = htemplate.Must(htemplate.New("t").Parse(`<p>{{.}}</p>`))
)

func execTmpl(t *htemplate.Template, s, pre, post string) string {
	var b bytes.Buffer
	if err := t.Execute(&b, s); err != nil {
		return "ERROR:" + err.Error()
	}
	return strings.TrimSuffix(strings.TrimPrefix(b.String(), pre), post)
}

// ---------- html/template's escapers vs HtmlEsc ----------
func c14Escapers(c *Ctx) {
	n := 0
	add := func(s, class string) {
		g := c.Group(fmt.Sprintf("esc%d", n/300), []string{"UrlEnc", "HtmlEsc"}, "escase", "check_escases")
		n++
		a := execTmpl(tmplAttr, s, `<input value="`, `">`)
		u := execTmpl(tmplURL, s, `<form action="`, `">`)
		t := execTmpl(tmplText, s, `<p>`, `</p>`)
		c.Count("esc/" + class)
		c.Add(g, &Case{Key: map[string]string{"op": "escapers", "class": class}, Input: map[string]any{"s": s},
			Obs:  map[string]any{"attr": a, "url_attr": u, "text": t},
			Term: fmt.Sprintf("{| es_s := %s; es_attr := %s; es_url := %s; es_text := %s |}", emit.Str(s), emit.Str(a), emit.Str(u), emit.Str(t))})
	}
	for b := 0; b < 256; b++ {
		add(string([]byte{byte(b)}), "byte")
	}
	// every lead byte with plausible continuations, and truncated sequences
	for _, lead := range []byte{0xc0, 0xc1, 0xc2, 0xdf, 0xe0, 0xe1, 0xec, 0xed, 0xee, 0xef, 0xf0, 0xf1, 0xf3, 0xf4, 0xf5, 0xff, 0x80, 0xbf} {
		for _, tail := range []string{"\x80", "\xbf", "\x9f", "\xa0", "\x90", "\x8f", "\"", "\x80\x80", "\xa0\x80", "\x9f\xbf", "\x90\x80\x80", "\x8f\xbf\xbf", "\x80\x80\"", "\x80<", "\xbf\xbf\xbf\xbf", ""} {
			add("x"+string([]byte{lead})+tail+"&", "utf8")
		}
	}
	nr := 40
	if c.Thorough() {
		nr = 600
	}
	for _, h := range hostileStrings(c, nr) {
		add(h.s, h.class)
	}
	for _, s := range []string{"http:x", "HTTP:x", "hTtP://x", "https:x", "HTTPS://x", "mailto:x", "MailTo:x", "ftp:x", "httpx:x", "htt:x", "http :x", "/:x", "a/b:x", "http/:x", ":",
		"a:b:c", "javascript&colon;alert(1)", "javascript&#58;alert(1)", "httpſ:x", "HTTPſ:x", "mailſto:x", "\xc5\xbf:x", "http\xc5:x", "httpK:x", "s:x", "ſ:x", "%", "%4", "%41", "%4g", "a%41b%zzc%",
		"#frag", "?q=1", "//host/path", "http://[::1]/", "x y", "!#$&*+,/:;=?@[]", "-._~", "(){}|\\^`", "é", "\u2028"} {
		add(s, "url_fixed")
	}
	nb := 60
	if c.Thorough() {
		nb = 2000
	}
	for i := 0; i < nb; i++ {
		b := make([]byte, 1+c.Rng.Intn(8))
		for k := range b {
			switch c.Rng.Intn(3) {
			case 0:
				b[k] = byte(c.Rng.Intn(256))
			case 1:
				b[k] = "\"'<>&+\x00:/%"[c.Rng.Intn(10)]
			default:
				b[k] = byte(0x80 + c.Rng.Intn(0x80))
			}
		}
		add(string(b), "random_bytes")
	}
}

// ---------- the forms ----------
func domTerm(es []domElem) string {
	items := make([]string, len(es))
	for i, e := range es {
		at := make([]string, len(e.Attrs))
		for k, a := range e.Attrs {
			at[k] = "(" + emit.Str(a[0]) + ", " + emit.Str(a[1]) + ")"
		}
		items[i] = "(" + emit.Str(e.Tag) + ", " + emit.List(at) + ", " + emit.Str(e.Text) + ")"
	}
	return emit.List(items)
}

func domViewOf(doc []byte) []domElem {
	var out []domElem
	for _, e := range domElems(doc) {
		if e.Tag == "html" || e.Tag == "head" || e.Tag == "body" {
			continue
		}
		out = append(out, e)
	}
	return out
}

type fixedTracker struct{ relay string }

func (t fixedTracker) TrackRequest(http.ResponseWriter, *http.Request, string) (string, error) {
	return t.relay, nil
}
func (t fixedTracker) StopTrackingRequest(http.ResponseWriter, *http.Request, string) error {
	return nil
}
func (t fixedTracker) GetTrackedRequests(*http.Request) []samlsp.TrackedRequest { return nil }
func (t fixedTracker) GetTrackedRequest(*http.Request, string) (*samlsp.TrackedRequest, error) {
	return nil, http.ErrNoCookie
}

const middlewareCSP = "default-src; script-src 'sha256-AjPdJSbZmeWHnEc5ykvJFay8FTWeTeRbs9dutfZ0HqE='; reflected-xss block; referrer no-referrer;"

func c14Forms(c *Ctx) {
	nr := 6
	if c.Thorough() {
		nr = 80
	}
	hs := hostileStrings(c, nr)
	nf := 0
	add := func(kind int64, urlS, msg, relay, toast string, html []byte, failed bool, extraBad string, classes [2]string) {
		g := c.Group(fmt.Sprintf("forms%d", nf/25), []string{"UrlEnc", "HtmlEsc"}, "fmcase", "check_fmcases")
		nf++
		var specOK *bool
		if failed || extraBad != "" {
			specOK = Bptr(false)
		}
		dv := domViewOf(html)
		c.Count(fmt.Sprintf("forms/kind/%d", kind))
		c.Count("forms/url_class/" + classes[0])
		c.Count("forms/relay_class/" + classes[1])
		obs := map[string]any{"html": string(html), "dom": dv}
		if extraBad != "" {
			obs["problem"] = extraBad
		}
		c.Add(g, &Case{
			Key:   map[string]string{"op": "form", "kind": fmt.Sprint(kind), "url": classes[0], "relay": classes[1]},
			Input: map[string]any{"form": []string{"AuthnRequest.Post", "LogoutRequest.Post", "LogoutResponse.Post", "IdP response form", "IdP login form", "middleware POST page"}[kind], "url": urlS, "relay_state": relay, "toast": toast},
			Obs:   obs,
			Term: fmt.Sprintf("{| fm_kind := %d; fm_data := {| fd_url := %s; fd_msg := %s; fd_relay := %s; fd_toast := %s |}; fm_html := %s; fm_dom := %s |}",
				kind, emit.Str(urlS), emit.Str(msg), emit.Str(relay), emit.Str(toast), emit.Str(string(html)), domTerm(dv)),
			ImplSpecOK: specOK,
		})
	}
	idpSrv := newQuietIdpServer()
	for i, hu := range hs {
		hr := hs[(i*7+3)%len(hs)]
		for kind := int64(0); kind <= 5; kind++ {
			if !c.Thorough() && hu.class == "random" && int(kind) != i%6 {
				continue
			}
			urlS, relay, toast, msg := hu.s, hr.s, "", ""
			var html []byte
			failed := false
			extraBad := ""
			o := defaultOpts()
			o.ssoPost, o.sloPost = urlS, urlS
			sp := buildSP(o)
			withEnv(&recReader{src: c.Rng}, func() {
				p, _ := guard(func() {
					switch kind {
					case 0:
						r, err := sp.MakeAuthenticationRequest(sp.GetSSOBindingLocation(saml.HTTPPostBinding), saml.HTTPPostBinding, saml.HTTPPostBinding)
						if err != nil {
							failed = true
							return
						}
						html = r.Post(relay)
						msg = base64.StdEncoding.EncodeToString(docBytes(r.Element()))
					case 1:
						r, err := sp.MakeLogoutRequest(sp.GetSLOBindingLocation(saml.HTTPPostBinding), "u")
						if err != nil {
							failed = true
							return
						}
						html = r.Post(relay)
						msg = base64.StdEncoding.EncodeToString(docBytes(r.Element()))
					case 2:
						r, err := sp.MakeLogoutResponse(sp.GetSLOBindingLocation(saml.HTTPPostBinding), "id-1")
						if err != nil {
							failed = true
							return
						}
						html = r.Post(relay)
						msg = base64.StdEncoding.EncodeToString(docBytes(r.Element()))
					case 3:
						el := etree.NewElement("samlp:Response")
						el.CreateAttr("ID", "id-r")
						el.SetText("x<&>y")
						req := &saml.IdpAuthnRequest{IDP: &saml.IdentityProvider{}, ResponseEl: el, RelayState: relay,
							ACSEndpoint:             &saml.IndexedEndpoint{Binding: saml.HTTPPostBinding, Location: urlS},
							ServiceProviderMetadata: &saml.EntityDescriptor{EntityID: "sp"}}
						w := httptest.NewRecorder()
						if err := req.WriteResponse(w); err != nil {
							failed = true
							return
						}
						html = w.Body.Bytes()
						doc := etree.NewDocument()
						doc.WriteSettings.CanonicalText = true
						doc.WriteSettings.CanonicalAttrVal = true
						doc.SetRoot(el.Copy())
						b, _ := doc.WriteToBytes()
						msg = base64.StdEncoding.EncodeToString(b)
					case 4:
						// the login URL is a url.URL: hostile values that survive URL.String()
						lu := url.URL{Scheme: "https", Host: "idp.example.com", Path: "/login", RawQuery: urlS}
						switch i % 4 {
						case 1:
							lu = url.URL{Scheme: "javascript", Opaque: urlS}
						case 2:
							lu = url.URL{Path: urlS}
						case 3:
							lu = url.URL{Scheme: "https", Host: "idp.example.com", Path: "/" + urlS, Fragment: urlS}
						}
						idp := idpSrv.IDP
						idp.LoginURL = lu
						urlS = lu.String()
						buf := []byte("<AuthnRequest>" + hr.class + "</AuthnRequest>")
						req := &saml.IdpAuthnRequest{IDP: &idp, RequestBuffer: buf, RelayState: relay}
						w := httptest.NewRecorder()
						switch i % 3 {
						case 0:
							r := httptest.NewRequest("GET", "https://idp.example.com/sso", nil)
							if sess := idpSrv.GetSession(w, r, req); sess != nil {
								failed = true
								return
							}
						case 1:
							r := httptest.NewRequest("POST", "https://idp.example.com/sso", strings.NewReader("user=nobody&password=x"))
							r.Header.Set("Content-Type", "application/x-www-form-urlencoded")
							r.ParseForm()
							toast = "Invalid username or password"
							if sess := idpSrv.GetSession(w, r, req); sess != nil {
								failed = true
								return
							}
						default:
							// hostile toast text through samlidp's own rendering code (template choice, data struct, Execute)
							toast = hs[(i*11+5)%len(hs)].s
							sendLoginForm(idpSrv, w, req, toast)
						}
						html = w.Body.Bytes()
						msg = base64.StdEncoding.EncodeToString(buf)
					default:
						m := &samlsp.Middleware{ServiceProvider: *sp, Binding: saml.HTTPPostBinding, ResponseBinding: saml.HTTPPostBinding,
							RequestTracker: fixedTracker{relay: relay}, OnError: samlsp.DefaultOnError}
						w := httptest.NewRecorder()
						r := httptest.NewRequest("GET", "https://sp.example.com/protected", nil)
						m.HandleStartAuthFlow(w, r)
						if w.Code != 200 {
							failed = true
							return
						}
						html = w.Body.Bytes()
						msg, _ = formValueOf(html, "SAMLRequest")
						if got := w.Header().Get("Content-Security-Policy"); got != middlewareCSP {
							extraBad = "unexpected Content-Security-Policy header: " + got
						}
						// the policy's script hash is the hash of the script actually sent
						for _, e := range domElems(html) {
							if e.Tag == "script" {
								sum := sha256.Sum256([]byte(e.Text))
								if !strings.Contains(middlewareCSP, "'sha256-"+base64.StdEncoding.EncodeToString(sum[:])+"'") {
									extraBad = "the emitted script does not match the hash in the Content-Security-Policy"
								}
							}
						}
					}
				})
				if p {
					failed = true
				}
			})
			add(kind, urlS, msg, relay, toast, html, failed, extraBad, [2]string{hu.class, hr.class})
		}
	}
}

// ---------- url.Parse vs Metadata.url_parse ----------
var locationLattice = []cls{
	{"http", "http://idp.example.com/sso"}, {"https", "https://idp.example.com/sso?x=1&y=2#f"}, {"HTTP", "HTTP://idp.example.com/sso"}, {"hTTps", "hTTps://idp.example.com/sso"},
	{"javascript", "javascript:alert(1)"}, {"JavaScript", "JavaScript:alert(document.domain)"}, {"javascript_slashes", "javascript://idp.example.com/%0aalert(1)"},
	{"data", "data:text/html,<script>alert(1)</script>"}, {"vbscript", "vbscript:msgbox(1)"}, {"mailto", "mailto:a@b"}, {"ftp", "ftp://idp.example.com/x"},
	{"noscheme", "idp.example.com/sso"}, {"netpath", "//idp.example.com/sso"}, {"abs", "/sso"}, {"rel", "sso"}, {"dotdot", "../x"}, {"empty", ""},
	{"lead_space", " http://idp.example.com/sso"}, {"lead_tab", "\thttp://idp.example.com/sso"}, {"lead_lf", "\nhttps://idp.example.com/sso"}, {"trail_lf", "https://idp.example.com/sso\n"},
	{"lead_space_js", " javascript:alert(1)"}, {"del", "http://idp.example.com/\x7f"},
	{"pct_path", "http://h/%zz"}, {"pct_end", "https://h/%"}, {"pct_ok", "https://h/%41%2f"}, {"pct_host", "http://h%zz/"}, {"pct_host_ascii", "http://%41.example.com/"}, {"pct_host_utf8", "http://%e4%b8%96/"},
	{"pct_query", "https://h/p?q=%zz"}, {"pct_frag", "https://h/p#%zz"}, {"pct_frag_ok", "https://h/p#%41"},
	{"ipv6", "http://[::1]:8080/p"}, {"ipv6_open", "http://[::1/p"}, {"ipv6_zone", "http://[fe80::1%25en0]/"}, {"ipv6_zone_bad", "http://[fe80::1%25e%2fn]/"}, {"ipv6_zone_sp", "http://[fe80::1%25e%20n]/"}, {"ipv6_port_bad", "http://[::1]x/"},
	{"port_bad", "https://h:abc/"}, {"port_ok", "https://h:443/"}, {"port_empty", "https://h:/"}, {"userinfo", "https://u:p@h/"}, {"userinfo_bad", "https://u^@h/"}, {"userinfo_pct", "https://u%zz@h/"}, {"userinfo_at", "https://a@b@h/"},
	{"host_space", "http://h /p"}, {"host_lt", "http://<h>/p"}, {"host_slash_q", "http://h?x/p"}, {"path_space", "https://h/a b"}, {"colon_seg_scheme", "a:b/c"}, {"colon_seg", "1a:b"}, {"colon_seg2", "a b:c"}, {"colon_later", "a/b:c"},
	{"missing_scheme", ":foo"}, {"http_only", "http:"}, {"http_opaque", "http:opaque"}, {"https_js", "https:javascript:alert(1)"}, {"scheme_plus", "ht+tp://h/"}, {"http_digit", "http1://h/"},
	{"long_s", "httpſ://h/p"}, {"star", "*"}, {"qmark_end", "https://h/p?"}, {"qmark_two", "https://h/p?a?"}, {"three_slash", "///x"}, {"scheme_three_slash", "http:///x"}, {"lsep", "https://h/\u2028"},
	{"hash_first", "#http://x"}, {"js_hash", "javascript:alert(1)#https://x"}, {"nonascii_host", "https://héllo/"}, {"backslash", "https:\\\\h\\p"}, {"http_at", "http://h/@:;,=+$&"},
}

func c14URLParse(c *Ctx) {
	g := c.Group("urlparse", []string{"UrlEnc", "Metadata"}, "upcase", "check_upcases")
	add := func(s, class string) {
		u, err := url.Parse(s)
		sc := ""
		if err == nil {
			sc = u.Scheme
		}
		c.Count(fmt.Sprintf("urlparse/ok/%v", err == nil))
		c.Add(g, &Case{Key: map[string]string{"op": "url_parse", "class": class}, Input: map[string]any{"s": s}, Obs: map[string]any{"ok": err == nil, "scheme": sc},
			Term: fmt.Sprintf("{| up_s := %s; up_ok := %s; up_scheme := %s |}", emit.Str(s), emit.Bool(err == nil), emit.Str(sc))})
	}
	for _, l := range locationLattice {
		add(l.s, l.class)
	}
	add("http://h/\x00", "nul")
	add("\x00http://h/", "nul")
	n := 300
	if c.Thorough() {
		n = 6000
	}
	parts := []string{"http", "https", "HTTP", "javascript", ":", ":", "//", "/", "/", "h", "idp.example.com", "[", "]", "::1", "%25", "%41", "%zz", "%", "@", "?", "#", " ", "\t", "a", "1", "+", "-", ".", "é", "<", "\"", "8080", ":80", "u:p@", "\x7f", "*", "&", "="}
	for i := 0; i < n; i++ {
		var sb strings.Builder
		for k := 0; k < 1+c.Rng.Intn(7); k++ {
			sb.WriteString(parts[c.Rng.Intn(len(parts))])
		}
		add(sb.String(), "random")
	}
	for _, l := range locationLattice {
		if len(l.s) > 2 {
			b := []byte(l.s)
			i := c.Rng.Intn(len(b))
			b[i] = ":/%[]@ #?\x01"[c.Rng.Intn(10)]
			add(string(b), "mutated")
		}
	}
}

var bindingLattice = []cls{
	{"post", saml.HTTPPostBinding}, {"redirect", saml.HTTPRedirectBinding}, {"artifact", saml.HTTPArtifactBinding}, {"soap", saml.SOAPBinding}, {"soap1", saml.SOAPBindingV1},
	{"shib", "urn:mace:shibboleth:1.0:profiles:AuthnRequest"}, {"empty", ""}, {"post_space", saml.HTTPPostBinding + " "}, {"post_lower", strings.ToLower(saml.HTTPPostBinding)}, {"paos", "urn:oasis:names:tc:SAML:2.0:bindings:PAOS"},
}

func xmlAttr(s string) string {
	var b bytes.Buffer
	xml.EscapeText(&b, []byte(s))
	return b.String()
}

func validXMLText(s string) bool {
	for _, r := range s {
		if r == 0xFFFD || (r < 0x20 && r != '\t' && r != '\n' && r != '\r') || r == 0xFFFE || r == 0xFFFF {
			return false
		}
	}
	return !strings.Contains(s, "\r")
}

// ---------- checkEndpointLocation through xml.Unmarshal of a single endpoint ----------
func c14Locations(c *Ctx) {
	g := c.Group("loc", []string{"UrlEnc", "Metadata"}, "loccase", "check_loccases")
	for _, b := range bindingLattice {
		for _, l := range locationLattice {
			if !validXMLText(l.s) {
				continue
			}
			doc := `<SingleSignOnService xmlns="urn:oasis:names:tc:SAML:2.0:metadata" Binding="` + xmlAttr(b.s) + `" Location="` + xmlAttr(l.s) + `"/>`
			var ep saml.Endpoint
			var err error
			p, _ := guard(func() { err = xml.Unmarshal([]byte(doc), &ep) })
			ok := !p && err == nil
			out := ""
			if ok {
				out = ep.Location
			}
			var specOK *bool
			if p {
				specOK = Bptr(false)
			}
			c.Count("loc/binding/" + b.class)
			c.Count(fmt.Sprintf("loc/accepted/%v", ok))
			c.Add(g, &Case{Key: map[string]string{"op": "endpoint_location", "binding": b.class, "location": l.class},
				Input: map[string]any{"binding": b.s, "location": l.s}, Obs: map[string]any{"accepted": ok, "location": out},
				Term:       fmt.Sprintf("{| lc_binding := %s; lc_loc := %s; lc_ok := %s; lc_out := %s |}", emit.Str(b.s), emit.Str(l.s), emit.Bool(ok), emit.Str(out)),
				ImplSpecOK: specOK})
		}
	}
}

// ---------- every endpoint-bearing element, Location and ResponseLocation ----------
type epSlot struct {
	role, elem string
	indexed    bool
}

var epSlots = []epSlot{
	{"IDPSSODescriptor", "SingleSignOnService", false}, {"IDPSSODescriptor", "ArtifactResolutionService", false}, {"IDPSSODescriptor", "NameIDMappingService", false},
	{"IDPSSODescriptor", "AssertionIDRequestService", false}, {"IDPSSODescriptor", "SingleLogoutService", false}, {"IDPSSODescriptor", "ManageNameIDService", false},
	{"SPSSODescriptor", "AssertionConsumerService", true}, {"SPSSODescriptor", "ArtifactResolutionService", true}, {"SPSSODescriptor", "SingleLogoutService", false}, {"SPSSODescriptor", "ManageNameIDService", false},
	{"AuthnAuthorityDescriptor", "AuthnQueryService", false}, {"AuthnAuthorityDescriptor", "AssertionIDRequestService", false},
	{"PDPDescriptor", "AuthzService", false}, {"PDPDescriptor", "AssertionIDRequestService", false},
	{"AttributeAuthorityDescriptor", "AttributeService", false}, {"AttributeAuthorityDescriptor", "AssertionIDRequestService", false},
}

// collectEndpoints finds every Endpoint / IndexedEndpoint value inside v.
func collectEndpoints(v reflect.Value, plain *[]saml.Endpoint, indexed *[]saml.IndexedEndpoint) {
	switch v.Kind() {
	case reflect.Ptr, reflect.Interface:
		if !v.IsNil() {
			collectEndpoints(v.Elem(), plain, indexed)
		}
	case reflect.Slice:
		for i := 0; i < v.Len(); i++ {
			collectEndpoints(v.Index(i), plain, indexed)
		}
	case reflect.Struct:
		switch x := v.Interface().(type) {
		case saml.Endpoint:
			*plain = append(*plain, x)
			return
		case saml.IndexedEndpoint:
			*indexed = append(*indexed, x)
			return
		case etree.Element:
			return
		}
		if v.Type().PkgPath() != "github.com/crewjam/saml" {
			return
		}
		for i := 0; i < v.NumField(); i++ {
			if v.Type().Field(i).IsExported() {
				collectEndpoints(v.Field(i), plain, indexed)
			}
		}
	}
}

func c14Elements(c *Ctx) {
	locs := []cls{}
	for _, l := range locationLattice {
		switch l.class {
		case "http", "https", "HTTP", "hTTps", "javascript", "JavaScript", "data", "vbscript", "mailto", "noscheme", "netpath", "abs", "empty", "lead_space", "lead_tab", "lead_lf",
			"pct_path", "colon_seg", "missing_scheme", "http_opaque", "https_js", "ipv6_open", "port_bad", "long_s", "pct_frag":
			locs = append(locs, l)
		}
	}
	bnds := []cls{bindingLattice[0], bindingLattice[1], bindingLattice[3], bindingLattice[5], bindingLattice[6], bindingLattice[7]}
	n := 0
	for si, slot := range epSlots {
		for bi, b := range bnds {
			for li, l := range locs {
				// response location: absent, or a different value from the lattice
				var resp *cls
				switch (si + bi + li) % 3 {
				case 1:
					r := locs[(li*5+si+1)%len(locs)]
					resp = &r
				case 2:
					r := locs[(li+bi+2)%len(locs)]
					resp = &r
				}
				if !c.Thorough() && (si+bi*2+li)%2 == 1 && l.class != "javascript" && l.class != "http" {
					continue
				}
				attrs := ` Binding="` + xmlAttr(b.s) + `" Location="` + xmlAttr(l.s) + `"`
				var respS *string
				if resp != nil {
					attrs += ` ResponseLocation="` + xmlAttr(resp.s) + `"`
					respS = &resp.s
				}
				if slot.indexed {
					attrs += ` index="1"`
				}
				doc := `<EntityDescriptor xmlns="urn:oasis:names:tc:SAML:2.0:metadata" entityID="https://e.example.com/md"><` + slot.role +
					` protocolSupportEnumeration="urn:oasis:names:tc:SAML:2.0:protocol"><` + slot.elem + attrs + `/></` + slot.role + `></EntityDescriptor>`
				var ed saml.EntityDescriptor
				var err error
				p1, _ := guard(func() { err = xml.Unmarshal([]byte(doc), &ed) })
				var ed2 *saml.EntityDescriptor
				var err2 error
				doc2 := doc
				if slot.role == "IDPSSODescriptor" && (si+bi+li)%2 == 0 {
					// the same entity inside an EntitiesDescriptor (nested one level on every fourth case)
					doc2 = `<EntitiesDescriptor xmlns="urn:oasis:names:tc:SAML:2.0:metadata" Name="fed"><EntityDescriptor entityID="https://other.example.com/md"><SPSSODescriptor protocolSupportEnumeration="urn:oasis:names:tc:SAML:2.0:protocol"></SPSSODescriptor></EntityDescriptor>` +
						doc + `</EntitiesDescriptor>`
					c.Count("elements/entities_descriptor_wrapper")
				}
				p2, _ := guard(func() { ed2, err2 = samlsp.ParseMetadata([]byte(doc2)) })
				ok := !p1 && err == nil
				ok2 := !p2 && err2 == nil
				locOut := ""
				var respOut *string
				why := ""
				if p1 || p2 {
					why = "panic"
				}
				if ok != ok2 {
					why = "xml.Unmarshal and samlsp.ParseMetadata disagree"
				}
				if ok {
					var pl []saml.Endpoint
					var ix []saml.IndexedEndpoint
					collectEndpoints(reflect.ValueOf(ed), &pl, &ix)
					switch {
					case !slot.indexed && len(pl) == 1 && len(ix) == 0:
						locOut = pl[0].Location
						if pl[0].ResponseLocation != "" {
							respOut = sptr(pl[0].ResponseLocation)
						}
					case slot.indexed && len(ix) == 1 && len(pl) == 0:
						locOut = ix[0].Location
						respOut = ix[0].ResponseLocation
					default:
						why = fmt.Sprintf("element did not land in exactly one endpoint field (plain %d, indexed %d)", len(pl), len(ix))
					}
					if ok2 && why == "" {
						var pl2 []saml.Endpoint
						var ix2 []saml.IndexedEndpoint
						collectEndpoints(reflect.ValueOf(*ed2), &pl2, &ix2)
						if !reflect.DeepEqual(pl, pl2) || !reflect.DeepEqual(ix, ix2) {
							why = "xml.Unmarshal and samlsp.ParseMetadata give different endpoints"
						}
					}
				}
				var specOK *bool
				if why != "" {
					specOK = Bptr(false)
				}
				g := c.Group(fmt.Sprintf("elements%d", n/400), []string{"UrlEnc", "Metadata"}, "epcase", "check_epcases")
				n++
				c.Count("elements/slot/" + slot.role + "/" + slot.elem)
				c.Count("elements/binding/" + b.class)
				c.Count(fmt.Sprintf("elements/accepted/%v", ok))
				c.Count(fmt.Sprintf("elements/response_location/%v", resp != nil))
				obs := map[string]any{"accepted": ok, "location": locOut, "response_location": respOut}
				if why != "" {
					obs["problem"] = why
				}
				rc := "absent"
				if resp != nil {
					rc = resp.class
				}
				c.Add(g, &Case{
					Key:   map[string]string{"op": "endpoint_element", "role": slot.role, "element": slot.elem, "binding": b.class, "location": l.class, "response_location": rc},
					Input: map[string]any{"role": slot.role, "element": slot.elem, "binding": b.s, "location": l.s, "response_location": respS},
					Obs:   obs,
					Term: fmt.Sprintf("{| ec_indexed := %s; ec_binding := %s; ec_loc := %s; ec_resp := %s; ec_ok := %s; ec_loc_out := %s; ec_resp_out := %s |}",
						emit.Bool(slot.indexed), emit.Str(b.s), emit.Str(l.s), emit.OptStr(respS), emit.Bool(ok), emit.Str(locOut), emit.OptStr(respOut)),
					ImplSpecOK: specOK,
				})
			}
		}
	}
}

// ---------- every struct carrying a Location attribute is one of the two checked types ----------
func c14Reflect(c *Ctx) {
	g := c.Group("reflect", []string{}, "bool", "check_bools")
	seen := map[reflect.Type]bool{}
	var withLoc []string
	var walk func(t reflect.Type)
	walk = func(t reflect.Type) {
		for t.Kind() == reflect.Ptr || t.Kind() == reflect.Slice {
			t = t.Elem()
		}
		if t.Kind() != reflect.Struct || seen[t] || t.PkgPath() != "github.com/crewjam/saml" {
			return
		}
		seen[t] = true
		for i := 0; i < t.NumField(); i++ {
			f := t.Field(i)
			tag := f.Tag.Get("xml")
			if strings.HasPrefix(tag, "Location,attr") || strings.HasPrefix(tag, "ResponseLocation,attr") || f.Name == "Location" || f.Name == "ResponseLocation" {
				withLoc = append(withLoc, t.Name())
			}
			walk(f.Type)
		}
	}
	walk(reflect.TypeOf(saml.EntityDescriptor{}))
	walk(reflect.TypeOf(saml.EntitiesDescriptor{}))
	okTypes := true
	names := map[string]bool{}
	for _, n := range withLoc {
		names[n] = true
		if n != "Endpoint" && n != "IndexedEndpoint" {
			okTypes = false
		}
	}
	_, u1 := reflect.PointerTo(reflect.TypeOf(saml.Endpoint{})).MethodByName("UnmarshalXML")
	_, u2 := reflect.PointerTo(reflect.TypeOf(saml.IndexedEndpoint{})).MethodByName("UnmarshalXML")
	good := okTypes && names["Endpoint"] && names["IndexedEndpoint"] && u1 && u2
	c.Count(fmt.Sprintf("reflect/types_visited/%d", len(seen)))
	c.Add(g, &Case{Key: map[string]string{"op": "location_bearing_types"}, Input: map[string]any{"root": "EntityDescriptor, EntitiesDescriptor"},
		Obs: map[string]any{"types_with_location": names, "unmarshalers": []bool{u1, u2}}, Term: emit.Bool(good)})
}

func newQuietIdpServer() *samlidp.Server {
	s, err := samlidp.New(samlidp.Options{URL: mustURL("https://idp.example.com"), Key: fix.RSAKey("rsa_a"), Certificate: fix.Cert("rsa_a"), Store: &samlidp.MemoryStore{}, Logger: log.New(io.Discard, "", 0)})
	if err != nil {
		panic(err)
	}
	return s
}
