package main

import (
	. "verifharness/internal/core"

	"crypto"
	"crypto/ecdsa"
	"crypto/ed25519"
	"crypto/rsa"
	"crypto/sha1"
	"crypto/sha256"
	"crypto/sha512"
	"crypto/x509"
	"encoding/base64"
	"encoding/xml"
	"fmt"
	"net/url"
	"sort"
	"strings"

	"github.com/beevik/etree"
	"github.com/crewjam/saml"
	dsig "github.com/russellhaering/goxmldsig"

	"verifharness/internal/emit"
	"verifharness/internal/fix"
)

func init() { Props["C13"] = runC13 }

type keyFix struct {
	name string
	key  crypto.Signer
	cert *x509.Certificate
}

func allKeys() []keyFix {
	var ks []keyFix
	for _, n := range []string{"rsa_1024", "rsa_a", "rsa_3072", "rsa_4096"} {
		ks = append(ks, keyFix{n, fix.RSAKey(n), fix.Cert(n)})
	}
	for _, n := range []string{"ec_256", "ec_384", "ec_521"} {
		ks = append(ks, keyFix{n, fix.ECKey(n), fix.Cert(n)})
	}
	// a crypto.Signer that is neither RSA nor ECDSA (certificate irrelevant: refused before use)
	seed := make([]byte, ed25519.SeedSize)
	ks = append(ks, keyFix{"ed25519", ed25519.NewKeyFromSeed(seed), fix.Cert("rsa_a")})
	return ks
}

var sigMethods = []string{
	dsig.RSASHA1SignatureMethod, dsig.RSASHA256SignatureMethod, dsig.RSASHA384SignatureMethod, dsig.RSASHA512SignatureMethod,
	dsig.ECDSASHA1SignatureMethod, dsig.ECDSASHA256SignatureMethod, dsig.ECDSASHA384SignatureMethod, dsig.ECDSASHA512SignatureMethod,
}

var bogusMethods = []string{
	"rsa-sha256", "http://www.w3.org/2001/04/xmldsig-more#rsa-sha256 ", "http://www.w3.org/2001/04/xmldsig-more#RSA-SHA256",
	"http://www.w3.org/2001/04/xmldsig-more#rsa-sha224", "http://www.w3.org/2000/09/xmldsig#dsa-sha1", "http://www.w3.org/2001/04/xmldsig-more#ecdsa-sha25",
}

func hashOfMethod(m string) crypto.Hash {
	switch {
	case strings.HasSuffix(m, "sha1"):
		return crypto.SHA1
	case strings.HasSuffix(m, "sha256"):
		return crypto.SHA256
	case strings.HasSuffix(m, "sha384"):
		return crypto.SHA384
	case strings.HasSuffix(m, "sha512"):
		return crypto.SHA512
	}
	return 0
}

func hashSum(h crypto.Hash, b []byte) []byte {
	switch h {
	case crypto.SHA1:
		s := sha1.Sum(b)
		return s[:]
	case crypto.SHA256:
		s := sha256.Sum256(b)
		return s[:]
	case crypto.SHA384:
		s := sha512.Sum384(b)
		return s[:]
	case crypto.SHA512:
		s := sha512.Sum512(b)
		return s[:]
	}
	return nil
}

// verifyRaw checks a signature with the primitives only (no goxmldsig, no crewjam/saml).
func verifyRaw(cert *x509.Certificate, method string, msg, sig []byte) bool {
	h := hashOfMethod(method)
	if h == 0 || cert == nil {
		return false
	}
	d := hashSum(h, msg)
	switch pk := cert.PublicKey.(type) {
	case *rsa.PublicKey:
		if !strings.Contains(method, "#rsa-") {
			return false
		}
		return rsa.VerifyPKCS1v15(pk, h, d, sig) == nil
	case *ecdsa.PublicKey:
		if !strings.Contains(method, "#ecdsa-") {
			return false
		}
		return ecdsa.VerifyASN1(pk, d, sig)
	}
	return false
}

type pubKD struct {
	Use   string
	Certs []string
}

// publishedCert reads the SP's metadata XML as published: every KeyDescriptor with its
// X509Certificate texts, AuthnRequestsSigned, and the FIRST certificate of the use="signing"
// descriptor parsed with crypto/x509 (nil when absent or unparsable).
func publishedCert(sp *saml.ServiceProvider) (cert *x509.Certificate, kds []pubKD, authnSigned *bool) {
	var md *saml.EntityDescriptor
	withEnv(&recReader{}, func() { md = sp.Metadata() })
	b, err := xml.Marshal(md)
	if err != nil {
		return nil, nil, nil
	}
	doc := etree.NewDocument()
	if doc.ReadFromBytes(b) != nil || doc.Root() == nil {
		return nil, nil, nil
	}
	spsso := child(doc.Root(), "SPSSODescriptor")
	if spsso == nil {
		return nil, nil, nil
	}
	if v := attrOpt(spsso, "AuthnRequestsSigned"); v != nil {
		x := *v == "true"
		authnSigned = &x
	}
	seenSigning := false
	for _, kd := range spsso.ChildElements() {
		if kd.Tag != "KeyDescriptor" {
			continue
		}
		k := pubKD{Use: kd.SelectAttrValue("use", "")}
		if xd := child(child(kd, "KeyInfo"), "X509Data"); xd != nil {
			for _, ce := range xd.ChildElements() {
				if ce.Tag == "X509Certificate" {
					k.Certs = append(k.Certs, ce.Text())
				}
			}
		}
		kds = append(kds, k)
		if k.Use == "signing" && !seenSigning {
			seenSigning = true
			if len(k.Certs) > 0 {
				if der, err := base64.StdEncoding.DecodeString(strings.Join(strings.Fields(k.Certs[0]), "")); err == nil {
					if pc, err := x509.ParseCertificate(der); err == nil {
						cert = pc
					}
				}
			}
		}
	}
	return
}

func kdsTerm(kds []pubKD) string {
	items := make([]string, len(kds))
	for i, k := range kds {
		items[i] = "(" + emit.Str(k.Use) + ", " + emit.StrList(k.Certs) + ")"
	}
	return emit.List(items)
}

func certB64s(cs []*x509.Certificate) []string {
	out := make([]string, len(cs))
	for i, c := range cs {
		out[i] = base64.StdEncoding.EncodeToString(c.Raw)
	}
	return out
}

// mdTerm renders the metadata case for one SP configuration.
func mdTerm(o spOpts, hasCert bool, cert *x509.Certificate, kds []pubKD, authnSigned *bool) (term string, obs map[string]any) {
	as := authnSigned != nil && *authnSigned
	firstOK := hasCert && cert != nil && cert.Equal(o.cert)
	certT := "None"
	isRSA := false
	if hasCert {
		certT = "(Some " + emit.Str(base64.StdEncoding.EncodeToString(o.cert.Raw)) + ")"
		_, isRSA = o.cert.PublicKey.(*rsa.PublicKey)
	}
	obs = map[string]any{"key_descriptors": kds, "AuthnRequestsSigned": authnSigned, "first_signing_certificate_is_sp_certificate": firstOK}
	term = fmt.Sprintf("{| md_cert := %s; md_inters := %s; md_rsa := %s; md_method := %s; md_kds := %s; md_authn_signed := %s; md_first_is_sp_cert := %s |}",
		certT, emit.StrList(certB64s(o.inters)), emit.Bool(isRSA), emit.Str(o.method), kdsTerm(kds), emit.Bool(as), emit.Bool(firstOK))
	return
}

// ---------- an independent Exclusive XML Canonicalization 1.0 (no comments, empty prefix list) ----------
func escText(s string) string {
	return strings.NewReplacer("&", "&amp;", "<", "&lt;", ">", "&gt;", "\r", "&#xD;").Replace(s)
}
func escAttr(s string) string {
	return strings.NewReplacer("&", "&amp;", "<", "&lt;", "\"", "&quot;", "\t", "&#x9;", "\n", "&#xA;", "\r", "&#xD;").Replace(s)
}

func copyMap(m map[string]string) map[string]string {
	n := make(map[string]string, len(m)+2)
	for k, v := range m {
		n[k] = v
	}
	return n
}

// scopeOf returns the namespace declarations in scope at el (ancestors first, then el's own).
func scopeOf(el *etree.Element) map[string]string {
	var chain []*etree.Element
	for e := el; e != nil; e = e.Parent() {
		chain = append([]*etree.Element{e}, chain...)
	}
	sc := map[string]string{}
	for _, e := range chain {
		for _, a := range e.Attr {
			if a.Space == "xmlns" {
				sc[a.Key] = a.Value
			} else if a.Space == "" && a.Key == "xmlns" {
				sc[""] = a.Value
			}
		}
	}
	return sc
}

func excC14N(el *etree.Element, skip *etree.Element) []byte {
	var sb strings.Builder
	parentScope := map[string]string{}
	if p := el.Parent(); p != nil && p.Tag != "" {
		parentScope = scopeOf(p)
	}
	c14nRec(&sb, el, parentScope, map[string]string{}, skip)
	return []byte(sb.String())
}

func c14nRec(sb *strings.Builder, el *etree.Element, inScope, rendered map[string]string, skip *etree.Element) {
	inScope = copyMap(inScope)
	type at struct{ ns, space, key, val string }
	var attrs []at
	for _, a := range el.Attr {
		if a.Space == "xmlns" {
			inScope[a.Key] = a.Value
		} else if a.Space == "" && a.Key == "xmlns" {
			inScope[""] = a.Value
		}
	}
	used := map[string]bool{el.Space: true}
	for _, a := range el.Attr {
		if a.Space == "xmlns" || (a.Space == "" && a.Key == "xmlns") {
			continue
		}
		ns := ""
		if a.Space != "" {
			used[a.Space] = true
			ns = inScope[a.Space]
			if a.Space == "xml" {
				ns = "http://www.w3.org/XML/1998/namespace"
			}
		}
		attrs = append(attrs, at{ns, a.Space, a.Key, a.Value})
	}
	rendered = copyMap(rendered)
	var decl []string
	for p := range used {
		if p == "xml" {
			continue
		}
		uri, ok := inScope[p]
		if !ok {
			if p != "" {
				continue
			}
			uri = ""
		}
		if prev, seen := rendered[p]; (seen && prev == uri) || (!seen && p == "" && uri == "") {
			continue
		}
		rendered[p] = uri
		decl = append(decl, p)
	}
	sort.Strings(decl)
	name := el.Tag
	if el.Space != "" {
		name = el.Space + ":" + el.Tag
	}
	sb.WriteString("<" + name)
	for _, p := range decl {
		if p == "" {
			sb.WriteString(` xmlns="` + escAttr(rendered[p]) + `"`)
		} else {
			sb.WriteString(" xmlns:" + p + `="` + escAttr(rendered[p]) + `"`)
		}
	}
	sort.SliceStable(attrs, func(i, j int) bool {
		if attrs[i].ns != attrs[j].ns {
			return attrs[i].ns < attrs[j].ns
		}
		return attrs[i].key < attrs[j].key
	})
	for _, a := range attrs {
		n := a.key
		if a.space != "" {
			n = a.space + ":" + a.key
		}
		sb.WriteString(" " + n + `="` + escAttr(a.val) + `"`)
	}
	sb.WriteString(">")
	for _, ch := range el.Child {
		switch t := ch.(type) {
		case *etree.Element:
			if t == skip {
				continue
			}
			c14nRec(sb, t, inScope, rendered, skip)
		case *etree.CharData:
			sb.WriteString(escText(t.Data))
		}
	}
	sb.WriteString("</" + name + ">")
}

const excC14NAlg = "http://www.w3.org/2001/10/xml-exc-c14n#"
const envelopedAlg = "http://www.w3.org/2000/09/xmldsig#enveloped-signature"

var digestAlgs = map[string]crypto.Hash{
	"http://www.w3.org/2000/09/xmldsig#sha1":        crypto.SHA1,
	"http://www.w3.org/2001/04/xmlenc#sha256":       crypto.SHA256,
	"http://www.w3.org/2001/04/xmldsig-more#sha384": crypto.SHA384,
	"http://www.w3.org/2001/04/xmlenc#sha512":       crypto.SHA512,
}

// verifyEnveloped checks the enveloped signature that is a direct child of root: reference,
// transforms, digest over the canonical element without the signature, and SignatureValue over
// the canonical SignedInfo, under cert.  Returns "" when everything verifies.
func verifyEnveloped(root *etree.Element, cert *x509.Certificate, wantMethod string) string {
	var sig *etree.Element
	n := 0
	for _, ch := range root.ChildElements() {
		if ch.Tag == "Signature" && scopeOf(ch)[ch.Space] == "http://www.w3.org/2000/09/xmldsig#" {
			sig = ch
			n++
		}
	}
	if n != 1 {
		return fmt.Sprintf("expected one Signature child, found %d", n)
	}
	si := child(sig, "SignedInfo")
	sv := child(sig, "SignatureValue")
	if si == nil || sv == nil {
		return "malformed Signature"
	}
	cm, sm, ref := child(si, "CanonicalizationMethod"), child(si, "SignatureMethod"), child(si, "Reference")
	if cm == nil || sm == nil || ref == nil {
		return "malformed SignedInfo"
	}
	method := sm.SelectAttrValue("Algorithm", "")
	if method != wantMethod {
		return "SignatureMethod " + method + " is not the configured method"
	}
	if id := root.SelectAttrValue("ID", ""); id == "" || ref.SelectAttrValue("URI", "") != "#"+id {
		return "Reference does not point at the emitted element"
	}
	var algs []string
	if tr := child(ref, "Transforms"); tr != nil {
		for _, t := range tr.ChildElements() {
			algs = append(algs, t.SelectAttrValue("Algorithm", ""))
		}
	}
	dm, dv := child(ref, "DigestMethod"), child(ref, "DigestValue")
	if dm == nil || dv == nil {
		return "no digest"
	}
	dh, okd := digestAlgs[dm.SelectAttrValue("Algorithm", "")]
	if cm.SelectAttrValue("Algorithm", "") != excC14NAlg || len(algs) != 2 || algs[0] != envelopedAlg || algs[1] != excC14NAlg || !okd {
		// a canonicalisation / transform / digest choice this verifier does not implement is not a
		// defect in itself: such a signature is checked with goxmldsig's validator instead, still
		// under the published certificate only
		return verifyWithLibrary(root, cert)
	}
	want, err := base64.StdEncoding.DecodeString(strings.TrimSpace(dv.Text()))
	if err != nil {
		return "bad DigestValue"
	}
	if string(hashSum(dh, excC14N(root, sig))) != string(want) {
		return "digest of the emitted element does not match DigestValue"
	}
	raw, err := base64.StdEncoding.DecodeString(strings.Join(strings.Fields(sv.Text()), ""))
	if err != nil {
		return "bad SignatureValue"
	}
	if !verifyRaw(cert, method, excC14N(si, nil), raw) {
		return "SignatureValue does not verify under the published certificate"
	}
	return ""
}

// verifyWithLibrary validates the enveloped signature with goxmldsig, trusting only cert.
func verifyWithLibrary(root *etree.Element, cert *x509.Certificate) (why string) {
	if cert == nil {
		return "no published signing certificate"
	}
	defer func() {
		if r := recover(); r != nil {
			why = fmt.Sprint("validator panic: ", r)
		}
	}()
	ctx := dsig.NewDefaultValidationContext(&dsig.MemoryX509CertificateStore{Roots: []*x509.Certificate{cert}})
	ctx.Clock = dsig.NewFakeClockAt(cert.NotBefore.Add(1e9))
	doc := etree.NewDocument()
	doc.SetRoot(root.Copy())
	if _, err := ctx.Validate(doc.Root()); err != nil {
		return "signature does not validate under the published certificate: " + err.Error()
	}
	return ""
}

func hasSigChild(root *etree.Element) bool {
	if root == nil {
		return false
	}
	for _, ch := range root.ChildElements() {
		if ch.Tag == "Signature" {
			return true
		}
	}
	return false
}

// cutOctets cuts "SAMLRequest=...&SigAlg=..." and the raw Signature value out of the URL text.
func cutOctets(urlText string) (octets string, sig []byte, ok bool) {
	q := urlText
	if i := strings.Index(q, "?"); i >= 0 {
		q = q[i+1:]
	} else {
		return "", nil, false
	}
	if i := strings.Index(q, "#"); i >= 0 {
		q = q[:i]
	}
	i := strings.Index(q, "SAMLRequest=")
	if i < 0 || (i > 0 && q[i-1] != '&') {
		return "", nil, false
	}
	t := q[i:]
	j := strings.Index(t, "&Signature=")
	if j < 0 {
		return "", nil, false
	}
	octets = t[:j]
	sv := t[j+len("&Signature="):]
	if k := strings.Index(sv, "&"); k >= 0 {
		sv = sv[:k]
	}
	us, err := url.QueryUnescape(sv)
	if err != nil {
		return octets, nil, false
	}
	sig, err = base64.StdEncoding.DecodeString(us)
	return octets, sig, err == nil
}

func runC13(c *Ctx) {
	c13Middleware(c)
	c13Serialisations(c)
	c13History(c)
	c13Sizes(c)
	keys := allKeys()
	methods := append(append([]string{}, sigMethods...), bogusMethods...)
	methods = append(methods, "")
	tr, fa := true, false
	relays := []string{"", "relayState", "a b&c=d#e+f%", "héllo—世界", "SAMLRequest=evil&SigAlg=none"}
	endpoints := []cls{{"noquery", ""}, {"q2", "?tenant=acme&flow=sp"}, {"q1", "?x=1"}, {"qesc", "?t=a%20b"}}
	gmd := c.Group("metadata", []string{"UrlEnc", "Outbound"}, "mdcase", "check_mdcases")
	nsg, nar := 0, 0
	combo := 0
	for _, kf := range keys {
		for _, m := range methods {
			fits := (strings.Contains(m, "#rsa-") && ktOf(kf.key) == 0 || strings.Contains(m, "#ecdsa-") && ktOf(kf.key) == 1) && hashOfMethod(m) != 0 && !strings.HasSuffix(m, " ")
			known := false
			for _, x := range sigMethods {
				known = known || x == m
			}
			fits = fits && known
			variants := 1
			if fits {
				variants = 3
				if c.Thorough() {
					variants = 8
				}
			}
			for v := 0; v < variants; v++ {
				combo++
				o := defaultOpts()
				o.key, o.cert, o.method = kf.key, kf.cert, m
				ep := endpoints[(v+combo)%len(endpoints)]
				if v == 0 {
					ep = endpoints[0]
				} else if v == 1 {
					ep = endpoints[1]
				}
				o.ssoRedirect += ep.s
				o.ssoPost += ep.s
				o.sloRedirect += ep.s
				o.sloPost += ep.s
				relay := relays[(v*2+combo)%len(relays)]
				nameID := []string{"user@example.com", "a&b<c>\"d'", "ü—名"}[(v+combo)%3]
				switch (v + combo) % 4 {
				case 1:
					o.forceAuthn = &tr
				case 2:
					o.forceAuthn = &fa
					o.authnCtx = &saml.RequestedAuthnContext{Comparison: "exact", AuthnContextClassRef: "urn:oasis:names:tc:SAML:2.0:ac:classes:PasswordProtectedTransport"}
				case 3:
					o.authnCtx = &saml.RequestedAuthnContext{Comparison: "minimum", AuthnContextClassRef: "urn:x:<&>"}
					o.nameIDFormat = saml.EmailAddressNameIDFormat
				}
				if v > 0 && (v+combo)%5 == 0 {
					o.nameIDFormat = saml.UnspecifiedNameIDFormat
				}
				// the certificate chain: 0, 1 or 2 intermediates published after the SP's own certificate
				nInter := (v + combo) % 3
				if fits {
					nInter = v % 3
				}
				o.inters = []*x509.Certificate{fix.Cert("rsa_b"), fix.Cert("rsa_c")}[:nInter]
				sp := buildSP(o)
				cert, kds, authnSigned := publishedCert(sp)

				// metadata advertises the signing certificate (first of the chain) and AuthnRequestsSigned
				{
					term, mobs := mdTerm(o, true, cert, kds, authnSigned)
					c.Count(fmt.Sprintf("metadata/intermediates/%d", nInter))
					c.Count(fmt.Sprintf("metadata/key_descriptors/%d", len(kds)))
					c.Add(gmd, &Case{
						Key:   map[string]string{"op": "metadata_advertises", "method": m, "key": kf.name, "intermediates": fmt.Sprint(nInter)},
						Input: map[string]any{"signature_method": m, "key": kf.name, "intermediates": nInter},
						Obs:   mobs,
						Term:  term,
					})
				}

				for kind := int64(0); kind <= 3; kind++ {
					for bnd := int64(0); bnd <= 1; bnd++ {
						if kind == 3 && bnd == 1 {
							continue
						}
						clsN, xmlSig, redirSig := int64(0), false, false
						var wire []byte
						urlText, enc := "", ""
						why := ""
						var err error
						var panicked bool
						withEnv(&recReader{src: c.Rng}, func() {
							panicked, _ = guard(func() {
								switch kind {
								case 0:
									if bnd == 0 {
										var r *saml.AuthnRequest
										r, err = sp.MakeAuthenticationRequest(sp.GetSSOBindingLocation(saml.HTTPRedirectBinding), saml.HTTPRedirectBinding, saml.HTTPPostBinding)
										if err != nil {
											return
										}
										var u *url.URL
										u, err = r.Redirect(relay, sp)
										if err != nil {
											return
										}
										urlText = u.String()
										enc = encodedMessage(urlText, "SAMLRequest", docBytes(r.Element()))
										wire, _ = inflate64(queryOf(urlText).Get("SAMLRequest"))
									} else {
										var h []byte
										h, err = sp.MakePostAuthenticationRequest(relay)
										if err != nil {
											return
										}
										v, _ := formValueOf(h, "SAMLRequest")
										wire, _ = base64.StdEncoding.DecodeString(v)
									}
								case 1:
									if bnd == 0 {
										var u *url.URL
										u, err = sp.MakeRedirectLogoutRequest(nameID, relay)
										if err != nil {
											return
										}
										urlText = u.String()
										wire, _ = inflate64(queryOf(urlText).Get("SAMLRequest"))
									} else {
										var h []byte
										h, err = sp.MakePostLogoutRequest(nameID, relay)
										if err != nil {
											return
										}
										v, _ := formValueOf(h, "SAMLRequest")
										wire, _ = base64.StdEncoding.DecodeString(v)
									}
								case 2:
									if bnd == 0 {
										var u *url.URL
										u, err = sp.MakeRedirectLogoutResponse("id-req", relay)
										if err != nil {
											return
										}
										urlText = u.String()
										wire, _ = inflate64(queryOf(urlText).Get("SAMLResponse"))
									} else {
										var h []byte
										h, err = sp.MakePostLogoutResponse("id-req", relay)
										if err != nil {
											return
										}
										v, _ := formValueOf(h, "SAMLResponse")
										wire, _ = base64.StdEncoding.DecodeString(v)
									}
								default:
									var r *saml.ArtifactResolve
									r, err = sp.MakeArtifactResolveRequest("artifact-" + nameID)
									if err != nil {
										return
									}
									wire = docBytes(r.SoapRequest())
								}
							})
						})
						var specOK *bool
						switch {
						case panicked:
							clsN = 2
						case err != nil:
							clsN = 1
						default:
							root := parseRoot(wire)
							if kind == 3 && root != nil {
								root = child(child(root, "Body"), "ArtifactResolve")
							}
							if root == nil {
								why = "emitted message is not recoverable from the wire form"
							} else {
								xmlSig = hasSigChild(root)
								if xmlSig {
									if w := verifyEnveloped(root, cert, m); w != "" {
										why = w
									}
								}
							}
							if kind == 0 && bnd == 0 {
								q := queryOf(urlText)
								redirSig = len(q["Signature"]) > 0 || len(q["SigAlg"]) > 0
								if redirSig {
									octets, sig, ok := cutOctets(urlText)
									switch {
									case !ok:
										why = "cannot cut the signed octets out of the URL"
									case q.Get("SigAlg") != m:
										why = "SigAlg is not the configured method"
									case !verifyRaw(cert, m, []byte(octets), sig):
										why = "redirect signature does not verify under the published certificate over the SAMLRequest[&RelayState]&SigAlg octets of the emitted URL"
									}
								}
							}
							if why != "" {
								specOK = Bptr(false)
							}
						}
						c.Count(fmt.Sprintf("sign/kind/%d/binding/%d", kind, bnd))
						c.Count(fmt.Sprintf("sign/outcome/%d/fits/%v", clsN, fits))
						c.Count("sign/key/" + kf.name)
						c.Count("sign/endpoint/" + ep.class)
						c.Count(fmt.Sprintf("sign/intermediates/%d", nInter))
						if xmlSig {
							c.Count("sign/xml_signature_verified")
						}
						if redirSig {
							c.Count("sign/redirect_signature_verified")
						}
						gs := c.Group(fmt.Sprintf("sign%d", nsg/400), []string{"UrlEnc", "Outbound"}, "sgcase", "check_sgcases")
						nsg++
						obs := map[string]any{"class": clsN, "xml_signature": xmlSig, "redirect_signature": redirSig}
						if why != "" {
							obs["verification"] = why
						}
						if err != nil {
							obs["err"] = err.Error()
						}
						if urlText != "" {
							obs["url"] = urlText
						}
						c.Add(gs, &Case{
							Key: map[string]string{"op": "sign", "kind": fmt.Sprint(kind), "binding": fmt.Sprint(bnd), "method": m, "key": kf.name, "endpoint": ep.class},
							Input: map[string]any{"kind": []string{"AuthnRequest", "LogoutRequest", "LogoutResponse", "ArtifactResolve"}[kind], "binding": []string{"redirect", "post"}[bnd],
								"signature_method": m, "key": kf.name, "endpoint_suffix": ep.s, "relay_state": relay, "name_id": nameID, "force_authn": o.forceAuthn, "authn_ctx": o.authnCtx, "intermediates": nInter},
							Obs: obs,
							Term: fmt.Sprintf("{| sg_kind := %d; sg_binding := %d; sg_method := %s; sg_kt := %d; sg_cls := %d; sg_xmlsig := %s; sg_redirsig := %s |}",
								kind, bnd, emit.Str(m), ktOf(kf.key), clsN, emit.Bool(xmlSig), emit.Bool(redirSig)),
							ImplSpecOK: specOK,
							Dedup:      fmt.Sprintf("%d|%d|%s|%s|%d", kind, bnd, m, kf.name, v),
						})
						// the redirect URL byte for byte, with the signed octets (model: authn_redirect)
						if kind == 0 && bnd == 0 {
							sigText := ""
							if urlText != "" {
								sigText = queryOf(urlText).Get("Signature")
							}
							ga := c.Group(fmt.Sprintf("redir%d", nar/60), []string{"UrlEnc", "Outbound"}, "arcase", "check_arcases")
							nar++
							c.Add(ga, &Case{
								Key:   map[string]string{"op": "authn_redirect_signed", "method": m, "key": kf.name, "endpoint": ep.class},
								Input: map[string]any{"endpoint": o.ssoRedirect, "relay_state": relay, "signature_method": m, "key": kf.name},
								Obs:   obs,
								Term: fmt.Sprintf("{| ar_dest := %s; ar_enc := %s; ar_relay := %s; ar_method := %s; ar_kt := %d; ar_cls := %d; ar_url := %s; ar_sig := %s |}",
									emit.Str(o.ssoRedirect), emit.Str(enc), emit.Str(relay), emit.Str(m), ktOf(kf.key), clsN, emit.Str(urlText), emit.Str(sigText)),
								ImplSpecOK: specOK,
							})
						}
					}
				}
			}
		}
	}
	// no certificate configured: nothing can be advertised
	{
		o := defaultOpts()
		o.method = dsig.RSASHA256SignatureMethod
		o.inters = []*x509.Certificate{fix.Cert("rsa_b")}
		sp := buildSP(o)
		sp.Certificate = nil
		cert, kds, authnSigned := publishedCert(sp)
		term, mobs := mdTerm(o, false, cert, kds, authnSigned)
		c.Add(gmd, &Case{
			Key:   map[string]string{"op": "metadata_advertises", "method": o.method, "key": "none"},
			Input: map[string]any{"signature_method": o.method, "certificate": nil},
			Obs:   mobs,
			Term:  term,
		})
	}
}
