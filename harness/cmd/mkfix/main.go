// mkfix generates the committed fixture keys and certificates (run once).
package main

import (
	"crypto/ecdsa"
	"crypto/elliptic"
	"crypto/rand"
	"crypto/rsa"
	"crypto/x509"
	"crypto/x509/pkix"
	"encoding/pem"
	"math/big"
	"os"
	"time"
)

func writePEM(path, typ string, der []byte) {
	f, _ := os.Create(path)
	defer f.Close()
	pem.Encode(f, &pem.Block{Type: typ, Bytes: der})
}

func cert(name string, pub, priv any) []byte {
	tmpl := &x509.Certificate{
		SerialNumber: big.NewInt(int64(len(name)) + 1000),
		Subject:      pkix.Name{CommonName: name},
		NotBefore:    time.Date(1970, 1, 1, 0, 0, 0, 0, time.UTC),
		NotAfter:     time.Date(9999, 12, 31, 0, 0, 0, 0, time.UTC),
		KeyUsage:     x509.KeyUsageDigitalSignature | x509.KeyUsageKeyEncipherment,
	}
	der, err := x509.CreateCertificate(rand.Reader, tmpl, tmpl, pub, priv)
	if err != nil {
		panic(err)
	}
	return der
}

func main() {
	dir := os.Args[1]
	for name, bits := range map[string]int{"rsa_a": 2048, "rsa_b": 2048, "rsa_c": 2048, "rsa_1024": 1024, "rsa_3072": 3072, "rsa_4096": 4096} {
		k, err := rsa.GenerateKey(rand.Reader, bits)
		if err != nil {
			panic(err)
		}
		writePEM(dir+"/"+name+".key", "RSA PRIVATE KEY", x509.MarshalPKCS1PrivateKey(k))
		writePEM(dir+"/"+name+".crt", "CERTIFICATE", cert(name, &k.PublicKey, k))
	}
	for name, curve := range map[string]elliptic.Curve{"ec_256": elliptic.P256(), "ec_384": elliptic.P384(), "ec_521": elliptic.P521()} {
		k, err := ecdsa.GenerateKey(curve, rand.Reader)
		if err != nil {
			panic(err)
		}
		der, _ := x509.MarshalECPrivateKey(k)
		writePEM(dir+"/"+name+".key", "EC PRIVATE KEY", der)
		writePEM(dir+"/"+name+".crt", "CERTIFICATE", cert(name, &k.PublicKey, k))
	}
}
