package main

// Abstract XML trees built in parallel with their concrete rendering, so that
// no XML parser is trusted to produce the abstract form the Coq model reads.

import (
	"crypto"
	"crypto/x509"
	"encoding/base64"
	"fmt"
	"strings"

	"github.com/beevik/etree"
	"github.com/crewjam/saml/xmlenc"
	dsig "github.com/russellhaering/goxmldsig"

	. "verifharness/internal/core"
	"verifharness/internal/emit"
	"verifharness/internal/fix"
)

const (
	nsA    = "urn:oasis:names:tc:SAML:2.0:assertion"
	nsP    = "urn:oasis:names:tc:SAML:2.0:protocol"
	nsSOAP = "http://schemas.xmlsoap.org/soap/envelope/"
	nsX    = "urn:x-foreign"
)

var prefixNS = map[string]string{"saml": nsA, "samlp": nsP, "soap": nsSOAP, "x": nsX, "": ""}

const allDecls = ` xmlns:saml="` + nsA + `" xmlns:samlp="` + nsP + `" xmlns:soap="` + nsSOAP + `" xmlns:x="` + nsX + `"`

type kind int

const (
	kEl kind = iota
	kTxt
	kCmt
	kSig
	kEnc
)

// KeyInfo kinds
const (
	kiNone = iota
	kiEmpty
	kiCert
	kiBad
)

type Node struct {
	Kind   kind
	Prefix string
	Tag    string
	Attrs  [][2]string
	Decl   [][2]string // namespace declarations written on this element: {prefix, uri} ("" = default namespace)
	Kids   []*Node
	Text   string // Txt: content; Cmt: comment body
	// Sig
	ShapeOK bool
	URI     string
	Signer  int
	KI      int
	KICert  int
	Over    *Node
	Raw     string // concrete XML of the Signature / EncryptedAssertion element
	// Enc
	Cid   int
	St    int
	Plain *Node
}

func E(prefix, tag string, attrs [][2]string, kids ...*Node) *Node {
	return &Node{Kind: kEl, Prefix: prefix, Tag: tag, Attrs: attrs, Kids: kids}
}
func T(s string) *Node { return &Node{Kind: kTxt, Text: s} }
func C(s string) *Node { return &Node{Kind: kCmt, Text: s} }
func A(kv ...string) [][2]string {
	var r [][2]string
	for i := 0; i+1 < len(kv); i += 2 {
		r = append(r, [2]string{kv[i], kv[i+1]})
	}
	return r
}

func (n *Node) Clone() *Node {
	if n == nil {
		return nil
	}
	c := *n
	c.Attrs = append([][2]string(nil), n.Attrs...)
	c.Decl = append([][2]string(nil), n.Decl...)
	c.Kids = make([]*Node, len(n.Kids))
	for i, k := range n.Kids {
		c.Kids[i] = k.Clone()
	}
	c.Over = n.Over.Clone()
	c.Plain = n.Plain.Clone()
	return &c
}

func (n *Node) Attr(name string) (string, bool) {
	v, ok := "", false
	for _, a := range n.Attrs {
		if a[0] == name {
			v, ok = a[1], true
		}
	}
	return v, ok
}
func (n *Node) SetAttr(name, val string) {
	for i, a := range n.Attrs {
		if a[0] == name {
			n.Attrs[i][1] = val
			return
		}
	}
	n.Attrs = append(n.Attrs, [2]string{name, val})
}
func (n *Node) DelAttr(name string) {
	var r [][2]string
	for _, a := range n.Attrs {
		if a[0] != name {
			r = append(r, a)
		}
	}
	n.Attrs = r
}

// Child returns the first element child with that prefix:tag.
func (n *Node) Child(prefix, tag string) *Node {
	for _, k := range n.Kids {
		if k.Kind == kEl && k.Prefix == prefix && k.Tag == tag {
			return k
		}
	}
	return nil
}
func (n *Node) Remove(c *Node) {
	var r []*Node
	for _, k := range n.Kids {
		if k != c {
			r = append(r, k)
		}
	}
	n.Kids = r
}
func (n *Node) InsertAt(i int, c *Node) {
	if i > len(n.Kids) {
		i = len(n.Kids)
	}
	n.Kids = append(n.Kids[:i], append([]*Node{c}, n.Kids[i:]...)...)
}

func escText(s string) string {
	r := strings.NewReplacer("&", "&amp;", "<", "&lt;", ">", "&gt;", "\r", "&#xD;")
	return r.Replace(s)
}
func escAttr(s string) string {
	r := strings.NewReplacer("&", "&amp;", "<", "&lt;", "\"", "&quot;", "\t", "&#x9;", "\n", "&#xA;", "\r", "&#xD;")
	return r.Replace(s)
}

func (n *Node) render(sb *strings.Builder, top bool) {
	switch n.Kind {
	case kTxt:
		sb.WriteString(escText(n.Text))
	case kCmt:
		sb.WriteString("<!--" + n.Text + "-->")
	case kSig, kEnc:
		sb.WriteString(n.Raw)
	case kEl:
		name := n.Tag
		if n.Prefix != "" {
			name = n.Prefix + ":" + n.Tag
		}
		sb.WriteString("<" + name)
		declared := map[string]bool{}
		for _, d := range n.Decl {
			declared[d[0]] = true
			if d[0] == "" {
				sb.WriteString(` xmlns="` + escAttr(d[1]) + `"`)
			} else {
				sb.WriteString(" xmlns:" + d[0] + `="` + escAttr(d[1]) + `"`)
			}
		}
		if top {
			for _, p := range []string{"saml", "samlp", "soap", "x"} {
				if !declared[p] {
					sb.WriteString(" xmlns:" + p + `="` + prefixNS[p] + `"`)
				}
			}
		}
		for _, a := range n.Attrs {
			sb.WriteString(" " + a[0] + `="` + escAttr(a[1]) + `"`)
		}
		sb.WriteString(">")
		for _, k := range n.Kids {
			k.render(sb, false)
		}
		sb.WriteString("</" + name + ">")
	}
}

// Render writes the element as a standalone document (root declares every prefix).
func (n *Node) Render() string {
	var sb strings.Builder
	n.render(&sb, true)
	return sb.String()
}

func nsTerm(prefix string) string {
	switch prefix {
	case "saml":
		return "NS_A"
	case "samlp":
		return "NS_P"
	case "soap":
		return "NS_SOAP"
	}
	return emit.Str(prefixNS[prefix])
}

// Coq renders the abstract tree as a Gallina term of type node. Element names are resolved
// against the namespace declarations in scope (the document root declares the standard prefixes).
func (n *Node) Coq() string { return n.coq(prefixNS) }

func nsLit(uri string) string {
	switch uri {
	case nsA:
		return "NS_A"
	case nsP:
		return "NS_P"
	case nsSOAP:
		return "NS_SOAP"
	}
	return emit.Str(uri)
}

func (n *Node) coq(scope map[string]string) string {
	switch n.Kind {
	case kTxt:
		return "(Txt " + emit.Str(n.Text) + ")"
	case kCmt:
		return "Cmt"
	case kSig:
		ki := "KINone"
		switch n.KI {
		case kiEmpty:
			ki = "KIEmpty"
		case kiCert:
			ki = fmt.Sprintf("(KICert %s)", emit.Z(int64(n.KICert)))
		case kiBad:
			ki = "KIBad"
		}
		// the signed content was rendered and signed as a standalone document
		return fmt.Sprintf("(SigN %s %s %s %s %s)", emit.Bool(n.ShapeOK), emit.Str(n.URI), emit.Z(int64(n.Signer)), ki, n.Over.coq(prefixNS))
	case kEnc:
		p := `(El "" "" [] [])`
		if n.Plain != nil {
			p = n.Plain.coq(prefixNS)
		}
		return fmt.Sprintf("(EncN %d %d %s)", n.Cid, n.St, p)
	}
	attrs := make([]string, len(n.Attrs))
	for i, a := range n.Attrs {
		attrs[i] = "(" + emit.Str(a[0]) + ", " + emit.Str(a[1]) + ")"
	}
	if len(n.Decl) > 0 {
		ns := map[string]string{}
		for k, v := range scope {
			ns[k] = v
		}
		for _, d := range n.Decl {
			ns[d[0]] = d[1]
		}
		scope = ns
	}
	kids := make([]string, len(n.Kids))
	for i, k := range n.Kids {
		kids[i] = k.coq(scope)
	}
	t := fmt.Sprintf("(El %s %s %s %s)", nsLit(scope[n.Prefix]), emit.Str(n.Tag), emit.List(attrs), emit.List(kids))
	if theCtx != nil && len(t) > 120 {
		return theCtx.Intern("node", t)
	}
	return t
}

// theCtx is the running harness context (subterm interning).
var theCtx *Ctx

// ---- keys and certificates: certificate number c certifies key number c ----

var certNames = map[int]string{0: "rsa_a", 1: "rsa_b", 2: "rsa_c", 3: "ec_256", 9: "rsa_1024"}

const (
	spKeyName    = "rsa_3072"
	otherKeyName = "rsa_4096"
)

func certB64(c int) string {
	if name, ok := certNames[c]; ok {
		return fix.CertB64(name)
	}
	return "AAAA" // decodes, but is not a certificate
}

var signCtxCache = map[string]*dsig.SigningContext{}

var signCount int

// signingContext returns a signing context for certificate/key number c. The signature and
// digest method rotate over everything the key type supports (the property quantifies over
// "whatever the IdP signed with"): RSA-SHA1/256/512, ECDSA-SHA1/256/384/512.
func signingContext(c int) *dsig.SigningContext {
	name := certNames[c]
	signCount++
	var method string
	var signer crypto.Signer
	if strings.HasPrefix(name, "ec_") {
		method = []string{dsig.ECDSASHA256SignatureMethod, dsig.ECDSASHA1SignatureMethod, dsig.ECDSASHA384SignatureMethod, dsig.ECDSASHA512SignatureMethod}[signCount%4]
		signer = fix.ECKey(name)
	} else {
		method = []string{dsig.RSASHA256SignatureMethod, dsig.RSASHA1SignatureMethod, dsig.RSASHA512SignatureMethod, dsig.RSASHA256SignatureMethod}[signCount%4]
		signer = fix.RSAKey(name)
	}
	// the prefix the Signature element is written with is the signer's choice as well
	prefix := []string{"ds", "ds", "dsig", ""}[(signCount/4)%4]
	key := fmt.Sprintf("%d/%s/%s", c, method, prefix)
	if sc, ok := signCtxCache[key]; ok {
		return sc
	}
	var cert *x509.Certificate = fix.Cert(name)
	sc, err := dsig.NewSigningContext(signer, [][]byte{cert.Raw})
	if err != nil {
		panic(err)
	}
	sc.Canonicalizer = dsig.MakeC14N10ExclusiveCanonicalizerWithPrefixList("")
	sc.Prefix = prefix
	if err := sc.SetSignatureMethod(method); err != nil {
		panic(err)
	}
	signCtxCache[key] = sc
	return sc
}

func elToString(el *etree.Element) string {
	doc := etree.NewDocument()
	doc.SetRoot(el.Copy())
	s, err := doc.WriteToString()
	if err != nil {
		panic(err)
	}
	return s
}

// Sign produces a genuine enveloped signature over e (as it is now, which must
// carry an ID attribute) with key `signer` and returns the Signature node; the
// caller inserts it among e's children.
func Sign(e *Node, signer int) *Node {
	doc := etree.NewDocument()
	if err := doc.ReadFromString(e.Render()); err != nil {
		panic(fmt.Sprintf("sign: cannot parse own rendering: %v\n%s", err, e.Render()))
	}
	signed, err := signingContext(signer).SignEnveloped(doc.Root())
	if err != nil {
		panic(err)
	}
	sigEl := signed.Child[len(signed.Child)-1].(*etree.Element)
	id, _ := e.Attr("ID")
	return &Node{Kind: kSig, ShapeOK: true, URI: "#" + id, Signer: signer, KI: kiCert, KICert: signer,
		Over: e.Clone(), Raw: elToString(sigEl)}
}

// SignInto signs e and inserts the signature after the Issuer child (or first).
func SignInto(e *Node, signer int) *Node {
	s := Sign(e, signer)
	pos := 0
	for i, k := range e.Kids {
		if k.Kind == kEl && k.Tag == "Issuer" {
			pos = i + 1
			break
		}
	}
	e.InsertAt(pos, s)
	return s
}

func sigDoc(s *Node) (*etree.Document, *etree.Element) {
	doc := etree.NewDocument()
	if err := doc.ReadFromString(s.Raw); err != nil {
		panic(err)
	}
	return doc, doc.Root()
}

// dsName gives a name in the Signature element's own prefix (ds:, dsig: or the default namespace).
func dsName(root *etree.Element, tag string) string {
	if root.Space == "" {
		return tag
	}
	return root.Space + ":" + tag
}

// SetKeyInfo rewrites the (unsigned) KeyInfo part of a signature.
// More certificates after the first (which is the one both crewjam/saml and goxmldsig read) may be
// given in extra: they are an unmodelled degree of freedom of the concrete document.
func (s *Node) SetKeyInfo(ki int, c int, extra ...int) {
	_, root := sigDoc(s)
	if old := root.FindElement("./KeyInfo"); old != nil {
		root.RemoveChild(old)
	}
	switch ki {
	case kiEmpty:
		k := root.CreateElement(dsName(root, "KeyInfo"))
		k.CreateElement(dsName(root, "KeyValue")).CreateElement(dsName(root, "RSAKeyValue")).CreateElement(dsName(root, "Modulus")).SetText("AQAB")
	case kiCert:
		xd := root.CreateElement(dsName(root, "KeyInfo")).CreateElement(dsName(root, "X509Data"))
		xd.CreateElement(dsName(root, "X509Certificate")).SetText(certB64(c))
		for _, x := range extra {
			xd.CreateElement(dsName(root, "X509Certificate")).SetText(certB64(x))
		}
	case kiBad:
		root.CreateElement(dsName(root, "KeyInfo")).CreateElement(dsName(root, "X509Data")).CreateElement(dsName(root, "X509Certificate")).SetText("!!not base64!!")
	}
	s.KI, s.KICert = ki, c
	s.Raw = elToString(root)
}

// BreakShape duplicates SignatureValue (validateShape then fails).
func (s *Node) BreakShape() {
	_, root := sigDoc(s)
	sv := root.FindElement("./SignatureValue")
	root.AddChild(sv.Copy())
	s.ShapeOK = false
	s.Raw = elToString(root)
}

// Forge changes the signed Reference URI: the SignatureValue no longer verifies under
// any key, which the model expresses as "signed by nobody" (-99).
func (s *Node) Forge(uri string) {
	_, root := sigDoc(s)
	ref := root.FindElement("./SignedInfo/Reference")
	ref.RemoveAttr("URI")
	ref.CreateAttr("URI", uri)
	s.URI, s.Signer = uri, -99
	s.Raw = elToString(root)
}

var cidCounter = 100

// Encrypt wraps plaintext bytes into a saml:EncryptedAssertion for the named recipient certificate.
func encryptRaw(plain []byte, recipient string) string {
	enc := xmlenc.OAEP()
	enc.BlockCipher = xmlenc.AES128CBC
	enc.DigestMethod = &xmlenc.SHA1
	el, err := enc.Encrypt(fix.Cert(recipient), plain, nil)
	if err != nil {
		panic(err)
	}
	el.CreateAttr("Type", "http://www.w3.org/2001/04/xmlenc#Element")
	w := etree.NewElement("saml:EncryptedAssertion")
	w.AddChild(el)
	s := elToString(w)
	return s
}

// Enc builds an EncryptedAssertion node. st: 0 = to the SP, plaintext = p; 1 = to another
// recipient; 2 = plaintext is not well-formed XML; 3 = plaintext without root element.
func Enc(p *Node, st int) *Node {
	cidCounter++
	n := &Node{Kind: kEnc, Cid: cidCounter, St: st}
	switch st {
	case 0:
		n.Plain = p.Clone()
		n.Raw = encryptRaw([]byte(p.Render()), spKeyName)
	case 1:
		n.Raw = encryptRaw([]byte(p.Render()), otherKeyName)
	case 2:
		if n.Cid%2 == 0 && strings.Contains(p.Render(), "</saml:NameID>") {
			// well-formed for etree, signature-neutral, but refused by the round-trip validator
			n.Raw = encryptRaw([]byte(strings.Replace(p.Render(), "</saml:NameID>", "<![CDATA[]]></saml:NameID>", 1)), spKeyName)
		} else {
			n.Raw = encryptRaw([]byte(p.Render()+"<trailing"), spKeyName)
		}
	case 3:
		n.Raw = encryptRaw([]byte("<!-- nothing here -->"), spKeyName)
	}
	return n
}

// Walk visits every node reachable through children (not through Over / Plain).
func (n *Node) Walk(f func(parent, x *Node)) {
	for _, k := range n.Kids {
		f(n, k)
		k.Walk(f)
	}
}

// EncRawCipher builds an EncryptedAssertion (to the SP) whose EncryptedData CipherValue is
// replaced by nbytes arbitrary bytes: decryption of the data must fail (st = 1).
func EncRawCipher(p *Node, nbytes int, fill byte) *Node {
	cidCounter++
	raw := encryptRaw([]byte(p.Render()), spKeyName)
	doc := etree.NewDocument()
	if err := doc.ReadFromString(raw); err != nil {
		panic(err)
	}
	cv := doc.Root().FindElement("./EncryptedData/CipherData/CipherValue")
	b := make([]byte, nbytes)
	for i := range b {
		b[i] = fill + byte(i)
	}
	cv.SetText(base64.StdEncoding.EncodeToString(b))
	return &Node{Kind: kEnc, Cid: cidCounter, St: 1, Raw: elToString(doc.Root())}
}

// SetKeyInfoOdd writes a KeyInfo whose X509Certificate element has unusual content
// (no character data at all, a comment, a child element, a processing instruction):
// abstractly "certificate data that does not parse".
func (s *Node) SetKeyInfoOdd(kind int) {
	_, root := sigDoc(s)
	if old := root.FindElement("./KeyInfo"); old != nil {
		root.RemoveChild(old)
	}
	x := root.CreateElement(dsName(root, "KeyInfo")).CreateElement(dsName(root, "X509Data")).CreateElement(dsName(root, "X509Certificate"))
	switch kind {
	case 1:
		x.CreateComment("no certificate here")
	case 2:
		x.CreateElement(dsName(root, "Oops"))
	case 3:
		x.CreateProcInst("pi", "x")
	case 4:
		x.CreateComment("c")
		x.CreateText("AAAA")
	}
	s.KI, s.KICert = kiBad, 0
	s.Raw = elToString(root)
}

// EncDouble builds an EncryptedAssertion that carries TWO EncryptedData children (a decoy first, the
// genuine ciphertext second, or the reverse): decryptElement requires exactly one, so it is refused.
func EncDouble(p *Node, decoyFirst bool) *Node {
	cidCounter++
	raw := encryptRaw([]byte(p.Render()), spKeyName)
	doc := etree.NewDocument()
	if err := doc.ReadFromString(raw); err != nil {
		panic(err)
	}
	ed := doc.Root().FindElement("./EncryptedData")
	decoy := ed.Copy()
	if cv := decoy.FindElement("./CipherData/CipherValue"); cv != nil {
		cv.SetText(base64.StdEncoding.EncodeToString(make([]byte, 48)))
	}
	if decoyFirst {
		doc.Root().InsertChildAt(0, decoy)
	} else {
		doc.Root().AddChild(decoy)
	}
	return &Node{Kind: kEnc, Cid: cidCounter, St: 1, Raw: elToString(doc.Root())}
}

// WrapKeyInfoCert re-lays the X509Certificate text of the KeyInfo with line breaks and indentation
// (white space inside base64 is not significant; the abstract signature is unchanged).
func (s *Node) WrapKeyInfoCert() {
	_, root := sigDoc(s)
	x := root.FindElement("./KeyInfo/X509Data/X509Certificate")
	if x == nil {
		return
	}
	t := strings.Join(strings.Fields(x.Text()), "")
	var sb strings.Builder
	for i := 0; i < len(t); i += 60 {
		j := i + 60
		if j > len(t) {
			j = len(t)
		}
		sb.WriteString("\n\t  " + t[i:j])
	}
	x.SetText(sb.String() + "\n")
	s.Raw = elToString(root)
}
