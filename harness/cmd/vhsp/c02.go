package main

// C02 — validity windows at the documented tolerances.

import (
	"fmt"
	"net/http"
	"net/url"
	"time"

	"github.com/crewjam/saml"

	. "verifharness/internal/core"
)

func init() { Props["C02"] = runC02 }

const ms = int64(time.Millisecond)

var baseNow = time.Date(2024, 5, 17, 10, 30, 0, 0, time.UTC).UnixNano()

// a response that satisfies every check for configuration cfg at time now
func validSpecs(cfg Cfg, now int64, id string) (RespSpec, AssertSpec) {
	t := fmtMS(now / ms * ms)
	aud := cfg.SpEntity
	if aud == "" {
		aud = cfg.MetadataURL
	}
	rs := RespSpec{ID: "r-" + id, IRT: sp("req-1"), Issue: sp(t), Dest: sp(cfg.AcsURL), Issuer: sp(cfg.IdpEntity), Status: sp(statusSuccess)}
	as := AssertSpec{ID: "a-" + id, Issue: t, Issuer: sp(cfg.IdpEntity), NameID: "user-" + id,
		Confs: []ConfSpec{{IRT: sp("req-1"), Recipient: sp(cfg.AcsURL), NOA: sp(fmtMS(now/ms*ms + 3600*1000*ms))}},
		NB:    sp(fmtMS(now/ms*ms - 3600*1000*ms)), NOA: sp(fmtMS(now/ms*ms + 3600*1000*ms)), Auds: []string{aud}, AttrVals: []string{"v-" + id}}
	return rs, as
}

// lattice value k in {0: just outside by 1 ms, 1: just inside by 1 ms, 2: far inside, 3: far outside, 4: exactly on the bound}
func lat(bound int64, outsideIsEarlier bool, k int, far int64) int64 {
	sgn := int64(1)
	if outsideIsEarlier {
		sgn = -1
	}
	switch k {
	case 0:
		return bound + sgn*ms
	case 1:
		return bound - sgn*ms
	case 2:
		return bound - sgn*far
	case 3:
		return bound + sgn*far
	}
	return bound
}

func runC02(c *Ctx) {
	theCtx = c
	// zone-less timestamps are UTC whatever the process's local zone is
	oldLocal := time.Local
	time.Local = time.FixedZone("harness-local", 5*3600+1800)
	defer func() { time.Local = oldLocal }()
	g := c.Group("c02", spImports, caseType, "check_c02")
	g.Shard = 100
	now0 := baseNow
	nowOffsets := []int64{0, 1, -1, 500_000}
	type tol struct{ delay, skew int64 }
	tols := []tol{{int64(90 * time.Second), int64(180 * time.Second)}, {0, 0}}
	for i := 0; i < 3; i++ {
		tols = append(tols, tol{int64(c.Rng.Intn(600_000)) * ms, int64(c.Rng.Intn(600_000)) * ms})
	}
	tols = append(tols, tol{-5 * 1000 * ms, -7 * 1000 * ms})
	n := 0
	lay := 0 // 0: Response signed, Destination present; 1: every Assertion signed, Response unsigned without Destination
	mk := func(cfg Cfg, now int64, v [5]int, nconf, badConfAt, nassert, badAssertAt int, class string) {
		n++
		id := fmt.Sprint(n)
		far := int64(10 * time.Hour)
		N := now / ms * ms // bounds are computed against the millisecond part; now keeps its nanoseconds
		rs, as := validSpecs(cfg, N, id)
		rs.Issue = sp(fmtMS(lat(N-cfg.MaxIssueDelay, true, v[0], far)))
		as.Issue = fmtMS(lat(N-cfg.MaxIssueDelay, true, v[1], far))
		as.NB = sp(fmtMS(lat(N+cfg.MaxClockSkew, false, v[2], far)))
		as.NOA = sp(fmtMS(lat(N-cfg.MaxClockSkew, true, v[3], far)))
		confNOA := sp(fmtMS(lat(N-cfg.MaxClockSkew, true, v[4], far)))
		good := sp(fmtMS(N + int64(time.Hour)))
		as.Confs = nil
		for i := 0; i < nconf; i++ {
			cs := ConfSpec{IRT: sp("req-1"), Recipient: sp(cfg.AcsURL), NOA: good}
			if i == badConfAt || nconf == 1 {
				cs.NOA = confNOA
			}
			as.Confs = append(as.Confs, cs)
		}
		var kids []*Node
		for j := 0; j < nassert; j++ {
			s := as
			s.ID = fmt.Sprintf("a-%s-%d", id, j)
			s.NameID = fmt.Sprintf("user-%s-%d", id, j)
			if nassert > 1 && j != badAssertAt {
				// the other assertion is comfortably valid
				_, ok := validSpecs(cfg, N, id)
				ok.ID, ok.NameID = s.ID, s.NameID
				s = ok
			}
			kids = append(kids, buildAssertion(s))
		}
		if lay == 1 {
			rs.Dest = nil
			for _, k := range kids {
				SignInto(k, 0)
			}
		}
		r := buildResponse(rs, kids...)
		if lay == 0 {
			SignInto(r, 0)
		}
		run := &Run{Cfg: cfg, IDs: []string{"req-1"}, Now: now, Cur: cfg.AcsURL, Doc: r}
		c.Count("class/" + class)
		c.Count(fmt.Sprintf("layout/%d", lay))
		addRun(c, g, run, map[string]string{"class": class, "lattice": fmt.Sprint(v), "now_offset_ns": fmt.Sprint(now - N),
			"delay": fmt.Sprint(cfg.MaxIssueDelay), "skew": fmt.Sprint(cfg.MaxClockSkew)}, false)
	}

	cfg := defaultCfg()
	// the lattice over the five document instants, the clock's sub-millisecond part cycling
	k := 0
	for a := 0; a < 4; a++ {
		for b := 0; b < 4; b++ {
			for d := 0; d < 4; d++ {
				for e := 0; e < 4; e++ {
					for f := 0; f < 4; f++ {
						offs := nowOffsets[k%4 : k%4+1]
						if c.Thorough() {
							offs = nowOffsets
						}
						k++
						for _, off := range offs {
							mk(cfg, now0+off, [5]int{a, b, d, e, f}, 1, 0, 1, 0, "lattice")
						}
					}
				}
			}
		}
	}
	// exactly on each bound, with each sub-millisecond clock offset (strict vs non-strict comparisons)
	for pos := 0; pos < 5; pos++ {
		for _, off := range nowOffsets {
			v := [5]int{2, 2, 2, 2, 2}
			v[pos] = 4
			mk(cfg, now0+off, v, 1, 0, 1, 0, "on-bound")
		}
	}
	// an assertion without any SubjectConfirmation: the Conditions window still applies
	for _, l := range []int{0, 1} {
		lay = l
		for pos := 1; pos < 4; pos++ {
			for _, kk := range []int{0, 1, 4} {
				v := [5]int{2, 2, 2, 2, 2}
				v[pos] = kk
				mk(cfg, now0, v, 0, 0, 1, 0, "no-confirmation")
			}
		}
	}
	lay = 0
	// the other signing layout (assertions signed, Response unsigned and without Destination)
	lay = 1
	for pos := 0; pos < 5; pos++ {
		for _, kk := range []int{0, 1, 4} {
			v := [5]int{2, 2, 2, 2, 2}
			v[pos] = kk
			mk(cfg, now0, v, 1, 0, 1, 0, "assertion-signed")
			mk(cfg, now0, v, 2, pos%2, 2, pos%2, "assertion-signed")
		}
	}
	lay = 0
	// tolerances: whatever values the settings hold; each single instant just inside / outside / on the bound
	for _, t := range tols {
		cfg := defaultCfg()
		cfg.MaxIssueDelay, cfg.MaxClockSkew = t.delay, t.skew
		for pos := 0; pos < 5; pos++ {
			for _, kk := range []int{0, 1, 4} {
				v := [5]int{2, 2, 2, 2, 2}
				v[pos] = kk
				mk(cfg, now0, v, 1, 0, 1, 0, "tolerances")
			}
		}
	}
	// the windows hold whatever the other settings are (IdP-initiated mode, application validators, entity ID)
	for i := 0; i < 5; i++ {
		cfg := defaultCfg()
		class := ""
		ids := 0
		switch i {
		case 0:
			cfg.AllowIdpInit, class = true, "idp-initiated"
		case 1:
			cfg.CustomReqID, class = Bptr(true), "custom-reqid-validator"
		case 2:
			cfg.CustomAud, class = Bptr(true), "custom-audience-validator"
		case 3:
			cfg.SpEntity, class = "urn:sp:entity", "entity-id-set"
		case 4:
			cfg.Trust, cfg.C, class = tPinned, 0, "pinned-certificate"
		}
		_ = ids
		for pos := 0; pos < 5; pos++ {
			for _, kk := range []int{0, 1} {
				v := [5]int{2, 2, 2, 2, 2}
				v[pos] = kk
				mk(cfg, now0, v, 1+pos%2, 0, 1, 0, class)
			}
		}
	}
	// several confirmations, the expired one at each position
	for nconf := 2; nconf <= 3; nconf++ {
		for bad := 0; bad < nconf; bad++ {
			for _, kk := range []int{0, 1} {
				mk(cfg, now0, [5]int{2, 2, 2, 2, kk}, nconf, bad, 1, 0, "multi-confirmation")
			}
		}
	}
	// two assertions, the out-of-window one first or second: the one returned must be inside
	for bad := 0; bad < 2; bad++ {
		for pos := 1; pos < 5; pos++ {
			v := [5]int{2, 2, 2, 2, 2}
			v[pos] = 0
			mk(cfg, now0, v, 1, 0, 2, bad, "multi-assertion")
		}
	}
	// artifact entry point: the ArtifactResponse's own IssueInstant, under each configuration
	for vi, set := range []func(c *Cfg){func(c *Cfg) {}, func(c *Cfg) { c.AllowIdpInit = true }, func(c *Cfg) { c.CustomReqID, c.CustomAud = Bptr(true), Bptr(true) }} {
		cfg := defaultCfg()
		set(&cfg)
		for _, kk := range []int{0, 1, 2, 3, 4} {
			for _, off := range nowOffsets {
				for _, signAR := range []bool{true, false} {
					n++
					now := now0 + off
					N := now / ms * ms
					rs, as := validSpecs(cfg, N, fmt.Sprintf("art%d", n))
					a := buildAssertion(as)
					if !signAR {
						SignInto(a, 0)
					}
					r := buildResponse(rs, a)
					ars := RespSpec{Tag: "ArtifactResponse", ID: fmt.Sprintf("ar-%d", n), IRT: sp("resolve-1"),
						Issue: sp(fmtMS(lat(N-cfg.MaxIssueDelay, true, kk, int64(10*time.Hour)))), Issuer: sp(cfg.IdpEntity), Status: sp(statusSuccess)}
					ar := buildResponse(ars, r)
					if signAR {
						SignInto(ar, 0)
					}
					c.Count("class/artifact")
					addRun(c, g, &Run{Cfg: cfg, IDs: []string{"req-1"}, Now: now, Cur: cfg.AcsURL, Entry: 1, Rid: "resolve-1", Doc: soapWrap(ar)},
						map[string]string{"class": "artifact", "variant": fmt.Sprint(vi), "ar_issue": fmt.Sprint(kk), "now_offset_ns": fmt.Sprint(off)}, false)
				}
			}
		}
	}
	// artifact entry point, the inner Response's and Assertion's instants under a verified ArtifactResponse signature
	for _, signAR := range []bool{true, false} {
		for pos := 0; pos < 5; pos++ {
			for _, kk := range []int{0, 1, 4} {
				n++
				N := now0 / ms * ms
				far := int64(10 * time.Hour)
				rs, as := validSpecs(cfg, N, fmt.Sprintf("arin%d", n))
				v := [5]int{2, 2, 2, 2, 2}
				v[pos] = kk
				rs.Issue = sp(fmtMS(lat(N-cfg.MaxIssueDelay, true, v[0], far)))
				as.Issue = fmtMS(lat(N-cfg.MaxIssueDelay, true, v[1], far))
				as.NB = sp(fmtMS(lat(N+cfg.MaxClockSkew, false, v[2], far)))
				as.NOA = sp(fmtMS(lat(N-cfg.MaxClockSkew, true, v[3], far)))
				as.Confs[0].NOA = sp(fmtMS(lat(N-cfg.MaxClockSkew, true, v[4], far)))
				a := buildAssertion(as)
				if !signAR {
					SignInto(a, 0)
				}
				ars := RespSpec{Tag: "ArtifactResponse", ID: fmt.Sprintf("ar-in-%d", n), IRT: sp("resolve-1"), Issue: sp(fmtMS(N)), Issuer: sp(cfg.IdpEntity), Status: sp(statusSuccess)}
				ar := buildResponse(ars, buildResponse(rs, a))
				if signAR {
					SignInto(ar, 0)
				}
				c.Count("class/artifact-inner")
				addRun(c, g, &Run{Cfg: cfg, IDs: []string{"req-1"}, Now: now0, Cur: cfg.AcsURL, Entry: 1, Rid: "resolve-1", Doc: soapWrap(ar)},
					map[string]string{"class": "artifact-inner", "lattice": fmt.Sprint(v), "ar_signed": fmt.Sprint(signAR)}, false)
			}
		}
	}
	// three and more confirmations whose expiries differ and come in every order: the one at the boundary is
	// judged on its own wherever it stands and whatever its neighbours' values are
	{
		cfg := defaultCfg()
		N := now0 / ms * ms
		far := int64(10 * time.Hour)
		perms := [][]int{{0, 1, 2}, {0, 2, 1}, {1, 0, 2}, {1, 2, 0}, {2, 0, 1}, {2, 1, 0}, {0, 2, 1, 3}, {3, 1, 0, 2}, {1, 3, 2, 0}, {2, 3, 1, 0, 4}}
		for pi, perm := range perms {
			for _, k := range []int{0, 1} {
				n++
				rs, as := validSpecs(cfg, now0, fmt.Sprintf("ord%d", n))
				as.Confs = nil
				for _, slot := range perm {
					noa := N + int64(slot)*int64(time.Hour) // slot 0 is the boundary one, the others expire 1 h, 2 h ... later
					if slot == 0 {
						noa = lat(N-cfg.MaxClockSkew, true, k, far)
					}
					as.Confs = append(as.Confs, ConfSpec{IRT: sp("req-1"), Recipient: sp(cfg.AcsURL), NOA: sp(fmtMS(noa))})
				}
				a := buildAssertion(as)
				r := buildResponse(rs, a)
				SignInto(r, 0)
				c.Count("class/confirmation-order")
				addRun(c, g, &Run{Cfg: cfg, IDs: []string{"req-1"}, Now: now0, Cur: cfg.AcsURL, Doc: r},
					map[string]string{"class": "confirmation-order", "order": fmt.Sprint(perm), "k": fmt.Sprint(k), "perm": fmt.Sprint(pi)}, false)
			}
		}
	}
	c02Lexical(c, g)
	spHistories(c, g)
	randomCombinations(c, g, 400, false)
	c02MovingClock(c)
}

// The library clock is read when the message is validated: through the HTTP entry point with an
// artifact, that is after the back-channel resolution. A stub resolver advances TimeNow by `step`
// while it "works"; every bound is placed inside the interval the clock jumps over, so that the
// decision at the instant of validation differs from the decision at the instant the browser's
// request arrived.
type movingRT struct {
	stubRT
	advance func()
}

func (m *movingRT) RoundTrip(req *http.Request) (*http.Response, error) {
	m.advance()
	return m.stubRT.RoundTrip(req)
}

func c02MovingClock(c *Ctx) {
	g := c.Group("c02clock", nil, "bool", "check_bools")
	const id = "id-7f3a9c0e1b"
	n := 0
	for _, tl := range [][2]int64{{int64(90 * time.Second), int64(180 * time.Second)}, {0, 0}, {int64(7 * time.Second), int64(3 * time.Second)}} {
		for _, step := range []int64{int64(60 * time.Second), 2 * ms} {
			for field := 0; field < 8; field++ {
				n++
				cfg := defaultCfg()
				cfg.MaxIssueDelay, cfg.MaxClockSkew = tl[0], tl[1]
				t0 := baseNow
				t1 := t0 + step
				mid := (t0+t1)/2/ms*ms + 0
				if step == 2*ms {
					mid = t0/ms*ms + ms
				}
				rs, as := validSpecs(cfg, t1, fmt.Sprintf("clk%d", n))
				rs.IRT, as.Confs[0].IRT = sp(id), sp(id)
				as.Confs = append(as.Confs, ConfSpec{IRT: sp(id), Recipient: sp(cfg.AcsURL), NOA: as.Confs[0].NOA})
				arIssue := sp(fmtMS(t1 / ms * ms))
				want := false
				name := ""
				switch field {
				case 0:
					name, want = "control", true
				case 1:
					name = "response-issue-instant"
					rs.Issue = sp(fmtMS(mid - cfg.MaxIssueDelay))
				case 2:
					name = "assertion-issue-instant"
					as.Issue = fmtMS(mid - cfg.MaxIssueDelay)
				case 3:
					name = "conditions-not-on-or-after"
					as.NOA = sp(fmtMS(mid - cfg.MaxClockSkew))
				case 4:
					name = "confirmation-not-on-or-after"
					as.Confs[0].NOA = sp(fmtMS(mid - cfg.MaxClockSkew))
				case 5:
					name = "second-confirmation-not-on-or-after"
					as.Confs[1].NOA = sp(fmtMS(mid - cfg.MaxClockSkew))
				case 6:
					name = "artifact-response-issue-instant"
					arIssue = sp(fmtMS(mid - cfg.MaxIssueDelay))
				case 7: // too early when the request arrived, inside the window when validated
					name, want = "conditions-not-before", true
					as.NB = sp(fmtMS(mid + cfg.MaxClockSkew))
				}
				r := buildResponse(rs, buildAssertion(as))
				m := &movingRT{}
				m.reply = func(resolveID string) string {
					ars := RespSpec{Tag: "ArtifactResponse", ID: fmt.Sprintf("arc-%d", n), IRT: sp(resolveID), Issue: arIssue, Issuer: sp(cfg.IdpEntity), Status: sp(statusSuccess)}
					ar := buildResponse(ars, r.Clone())
					SignInto(ar, 0)
					return soapWrap(ar).Render()
				}
				var accepted, direct bool
				panicked := ""
				withGlobals(cfg, t0, func() {
					m.advance = func() { saml.TimeNow = func() time.Time { return time.Unix(0, t1).UTC() } }
					spv := cfg.SP()
					spv.HTTPClient = &http.Client{Transport: m}
					spv.IDPMetadata.IDPSSODescriptors[0].ArtifactResolutionServices = []saml.Endpoint{{Binding: saml.SOAPBinding, Location: "https://idp.example.com/resolve"}}
					func() {
						defer func() {
							if p := recover(); p != nil {
								panicked = fmt.Sprint(p)
							}
						}()
						req, _ := http.NewRequest("POST", cfg.AcsURL, nil)
						req.Form = url.Values{"SAMLart": {"AAQAAMh48/1oXIM+sDo7Dh2qMp1HM4IF5DaRNmDj6RdUmllwn9jJHyEgIi8="}}
						req.PostForm = req.Form
						a, err := spv.ParseResponse(req, []string{id})
						accepted = err == nil && a != nil
						// the same bytes, presented to the direct entry point at the instant of validation
						u := mustURL(cfg.AcsURL)
						a2, err2 := spv.ParseXMLArtifactResponse([]byte(m.reply(m.seen)), []string{id}, m.seen, u)
						direct = err2 == nil && a2 != nil
					}()
				})
				ok := accepted == want && direct == want && panicked == ""
				c.Count("class/moving-clock")
				c.Count("moving_clock_field/" + name)
				c.Add(g, &Case{Key: map[string]string{"class": "moving-clock", "field": name, "step_ns": fmt.Sprint(step), "tolerances": fmt.Sprint(tl)},
					Input: map[string]any{"request_arrived": time.Unix(0, t0).UTC().String(), "validated_at": time.Unix(0, t1).UTC().String(), "bound_at": fmtMS(mid), "field": name,
						"max_issue_delay_ns": tl[0], "max_clock_skew_ns": tl[1]},
					Obs:  map[string]any{"accepted_via_ParseResponse": accepted, "accepted_via_ParseXMLArtifactResponse": direct, "expected": want, "panic": panicked},
					Term: fmt.Sprint(ok), ImplSpecOK: Bptr(ok), Dedup: fmt.Sprintf("%s/%d/%v", name, step, tl)})
			}
		}
	}
}

// lexical forms the parser admits: zones, fractional digits, rounding across a
// millisecond, zone-less, empty and absent attributes
func c02Lexical(c *Ctx, g *Group) {
	cfg := defaultCfg()
	now := baseNow
	bound := now - cfg.MaxIssueDelay // IssueInstant bound
	forms := func(t int64) []string {
		tt := time.Unix(0, t).UTC()
		east := time.FixedZone("", 3600+1800)
		west := time.FixedZone("", -5*3600)
		return []string{
			tt.Format("2006-01-02T15:04:05.000Z"),
			tt.Format("2006-01-02T15:04:05.999999999Z07:00"),
			tt.In(east).Format("2006-01-02T15:04:05.000Z07:00"),
			tt.In(west).Format("2006-01-02T15:04:05.000000Z07:00"),
			tt.Format("2006-01-02T15:04:05.000"),
			tt.Format("2006-01-02T15:04:05.000000000"),
		}
	}
	n := 0
	add := func(issue *string, class string) {
		n++
		rs, as := validSpecs(cfg, now, fmt.Sprintf("lex%d", n))
		if issue == nil {
			as.Issue = ""
			a := buildAssertion(as)
			a.DelAttr("IssueInstant")
			r := buildResponse(rs, a)
			SignInto(r, 0)
			c.Count("class/" + class)
			addRun(c, g, &Run{Cfg: cfg, IDs: []string{"req-1"}, Now: now, Cur: cfg.AcsURL, Doc: r}, map[string]string{"class": class}, false)
			return
		}
		as.Issue = *issue
		r := buildResponse(rs, buildAssertion(as))
		SignInto(r, 0)
		c.Count("class/" + class)
		addRun(c, g, &Run{Cfg: cfg, IDs: []string{"req-1"}, Now: now, Cur: cfg.AcsURL, Doc: r}, map[string]string{"class": class, "text": *issue}, false)
	}
	for _, d := range []int64{-ms, 0, ms, -400_000, -500_000, -600_000, 400_000, 499_999, 500_000} {
		for _, f := range forms(bound + d) {
			add(sp(f), "lexical")
		}
	}
	add(sp(""), "empty-attribute")
	add(nil, "absent-attribute")
	// every instant absent / empty / year one / zone-less around its bound: an absent or empty
	// attribute is the zero instant (year 1), which is "expired" for an upper bound
	field := func(which int, v *string, class string) {
		n++
		rs, as := validSpecs(cfg, now, fmt.Sprintf("fld%d", n))
		switch which {
		case 0:
			rs.Issue = v
		case 1:
			as.NB = v
		case 2:
			as.NOA = v
		case 3:
			as.Confs[0].NOA = v
		case 4:
			as.Confs = append(as.Confs, as.Confs[0])
			as.Confs[1].NOA = v
		}
		r := buildResponse(rs, buildAssertion(as))
		SignInto(r, 0)
		txt := "absent"
		if v != nil {
			txt = *v
		}
		c.Count("class/" + class)
		addRun(c, g, &Run{Cfg: cfg, IDs: []string{"req-1"}, Now: now, Cur: cfg.AcsURL, Doc: r}, map[string]string{"class": class, "field": fmt.Sprint(which), "text": txt}, false)
	}
	bounds := []int64{now - cfg.MaxIssueDelay, now + cfg.MaxClockSkew, now - cfg.MaxClockSkew, now - cfg.MaxClockSkew, now - cfg.MaxClockSkew}
	for which := 0; which < 5; which++ {
		field(which, nil, "field-absent")
		field(which, sp(""), "field-empty")
		field(which, sp("0001-01-01T00:00:00Z"), "field-year-one")
		field(which, sp("9999-12-31T23:59:59Z"), "field-year-9999")
		for _, d := range []int64{-ms, ms, -2 * 3600 * 1000 * ms, 2 * 3600 * 1000 * ms} {
			tt := time.Unix(0, bounds[which]+d).UTC()
			field(which, sp(tt.Format("2006-01-02T15:04:05.000")), "field-zoneless")
			field(which, sp(tt.In(time.FixedZone("", -7*3600)).Format("2006-01-02T15:04:05.000Z07:00")), "field-zoned")
		}
	}
	for _, bad := range []string{"2024-05-17", "2024-05-17T10:30:00+0100", "2024-05-17 10:30:00Z", "yesterday", "2024-13-01T00:00:00Z"} {
		add(sp(bad), "malformed")
	}
}
