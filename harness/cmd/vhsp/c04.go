package main

// C04 — only responses to outstanding requests (unless IdP-initiated).

import (
	"bytes"
	"crypto/rsa"
	"encoding/base64"
	"fmt"
	"io"
	"net/http"
	"net/http/httptest"
	"net/url"
	"regexp"
	"strings"
	"time"

	"github.com/crewjam/saml"
	"github.com/crewjam/saml/samlsp"
	"github.com/golang-jwt/jwt/v4"

	. "verifharness/internal/core"
)

func init() { Props["C04"] = runC04 }

func runC04(c *Ctx) {
	theCtx = c
	g := c.Group("c04", spImports, caseType, "check_c04")
	g.Shard = 100
	now := baseNow
	const id = "id-7f3a9c0e1b"
	const id2 = "id-55aa55aa55"
	sets := [][]string{{}, {id}, {id, id2}, {""}, {"", id}, {id[:len(id)-1]}, {id + "x"}, {id2}, {strings.ToUpper(id)}, {id + " "}, {" "}}
	for i := 0; i < 3; i++ {
		sets = append(sets, []string{fmt.Sprintf("id-%08x", c.Rng.Uint32()), id})
	}
	// InResponseTo values: nil = absent
	irts := []*string{sp(id), sp(id2), sp("id-0000000000"), sp(id[:len(id)-1]), sp(id + "x"), sp(""), nil, sp(strings.ToUpper(id)), sp(id + " "), sp(" " + id), sp("\n" + id + "\n"), sp(" ")}
	irtName := func(p *string) string {
		if p == nil {
			return "absent"
		}
		return "'" + *p + "'"
	}
	n := 0
	// signing layout / Destination presence the documents are built in:
	// 0 Response signed, Destination present; 1 Assertion signed, Destination absent;
	// 2 Assertion signed, Destination present; 3 both signed, Destination absent (then rejected: signed needs Destination)
	lay := 0
	noData := map[int]bool{} // confirmation positions rendered without SubjectConfirmationData
	mk := func(cfg Cfg, ids []string, rIRT *string, cIRTs []*string, entry int, arIRT *string, class string) {
		n++
		rs, as := validSpecs(cfg, now, fmt.Sprint(n))
		rs.IRT = rIRT
		if lay == 1 || lay == 3 {
			rs.Dest = nil
		}
		as.Confs = nil
		for i, ci := range cIRTs {
			as.Confs = append(as.Confs, ConfSpec{IRT: ci, Recipient: sp(cfg.AcsURL), NOA: sp(fmtMS(now + 3600*1000*ms)), NoData: noData[i]})
		}
		a := buildAssertion(as)
		if lay != 0 {
			SignInto(a, 0)
		}
		r := buildResponse(rs, a)
		key := map[string]string{"class": class, "ids": strings.Join(ids, ","), "nids": fmt.Sprint(len(ids)), "resp_irt": irtName(rIRT), "entry": fmt.Sprint(entry)}
		for i, ci := range cIRTs {
			key[fmt.Sprintf("conf%d_irt", i)] = irtName(ci)
		}
		c.Count("class/" + class)
		c.Count("nids/" + fmt.Sprint(len(ids)))
		c.Count("resp_irt/" + irtName(rIRT))
		run := &Run{Cfg: cfg, IDs: ids, Now: now, Cur: cfg.AcsURL, Entry: entry}
		key["layout"] = fmt.Sprint(lay)
		c.Count("layout/" + fmt.Sprint(lay))
		if entry == 0 {
			if lay == 0 || lay == 3 {
				SignInto(r, 0)
			}
			run.Doc = r
		} else {
			ars := RespSpec{Tag: "ArtifactResponse", ID: fmt.Sprintf("ar-%d", n), IRT: arIRT, Issue: rs.Issue, Issuer: sp(cfg.IdpEntity), Status: sp(statusSuccess)}
			ar := buildResponse(ars, r)
			SignInto(ar, 0)
			run.Doc, run.Rid = soapWrap(ar), "resolve-77"
			key["ar_irt"] = irtName(arIRT)
		}
		addRun(c, g, run, key, false)
	}
	cfg := defaultCfg()
	// outstanding sets x response-level InResponseTo x confirmation-level InResponseTo
	for si, ids := range sets {
		for ri, rirt := range irts {
			for ci, cirt := range irts {
				if !c.Thorough() && ri != 0 && ci != 0 && (si+ri+ci)%3 != 0 {
					continue
				}
				for _, l := range []int{0, 1} {
					if l == 1 && !c.Thorough() && ri != 0 && ci != 0 {
						continue
					}
					lay = l
					mk(cfg, ids, rirt, []*string{cirt}, 0, nil, "product")
				}
				lay = 0
			}
		}
	}
	// every signing layout x Destination presence, response-level and confirmation-level ids wrong in turn
	for _, l := range []int{0, 1, 2, 3} {
		lay = l
		for _, ids := range [][]string{{id}, {}, {""}} {
			for _, rirt := range []*string{sp(id), sp("id-0000000000"), sp(""), nil} {
				for _, cirt := range []*string{sp(id), sp("id-0000000000"), nil} {
					mk(cfg, ids, rirt, []*string{cirt}, 0, nil, "layouts")
				}
			}
		}
	}
	lay = 0
	// confirmations without SubjectConfirmationData answer no request: alone or beside a matching one
	for _, l := range []int{0, 1} {
		lay = l
		for _, nd := range []map[int]bool{{0: true}, {1: true}, {0: true, 1: true}} {
			noData = nd
			for _, ids := range [][]string{{id}, {""}} {
				mk(cfg, ids, sp(id), []*string{sp(id), sp(id)}, 0, nil, "confirmation-without-data")
				mk(cfg, ids, sp(id), []*string{sp(id)}, 0, nil, "confirmation-without-data")
			}
		}
		noData = map[int]bool{}
	}
	lay = 0
	// two confirmations, the odd one at each position
	for _, ids := range [][]string{{id}, {id, id2}, {""}} {
		for _, bad := range irts[1:] {
			mk(cfg, ids, sp(id), []*string{sp(id), bad}, 0, nil, "two-confirmations")
			mk(cfg, ids, sp(id), []*string{bad, sp(id)}, 0, nil, "two-confirmations")
		}
	}
	// the two documented escape hatches
	for _, allow := range []bool{false, true} {
		for _, cv := range []*bool{nil, Bptr(true), Bptr(false)} {
			cfg := defaultCfg()
			cfg.AllowIdpInit, cfg.CustomReqID = allow, cv
			for _, ids := range [][]string{{}, {id}, {""}} {
				for _, rirt := range []*string{sp(id), sp("id-0000000000"), sp(""), nil} {
					for _, cirt := range []*string{sp(id), sp("id-0000000000"), nil} {
						mk(cfg, ids, rirt, []*string{cirt}, 0, nil, "escape-hatches")
					}
				}
			}
		}
	}
	// artifact entry point: ArtifactResponse.InResponseTo against the resolve request id
	// (the binding to the resolve request holds whatever the escape hatches are set to)
	for vi, set := range []func(c *Cfg){func(c *Cfg) {}, func(c *Cfg) { c.AllowIdpInit = true }, func(c *Cfg) { c.CustomReqID = Bptr(true) }, func(c *Cfg) { c.CustomReqID = Bptr(false) }} {
		cfg := defaultCfg()
		set(&cfg)
		for _, arirt := range []*string{sp("resolve-77"), sp("resolve-78"), sp("resolve-7"), sp("resolve-777"), sp(""), nil, sp(id), sp("Resolve-77"), sp("RESOLVE-77"), sp("resolve-77 "), sp("re\u017folve-77")} {
			for _, ids := range [][]string{{id}, {}} {
				for ri, rirt := range []*string{sp(id), sp("id-0000000000"), nil} {
					if vi > 0 && ri == 1 && !c.Thorough() {
						continue
					}
					mk(cfg, ids, rirt, []*string{sp(id)}, 1, arirt, "artifact")
				}
			}
		}
	}
	// identifiers outside ASCII (the type is xs:ID / NCName: letters of any script are legal): equality is on
	// the whole string, byte for byte - not on the first byte of each character, not up to normalisation
	{
		const ou = "id-M\u00fcller-7f3a" // precomposed u-umlaut
		near := []*string{sp(ou), sp("id-M\u00f6ller-7f3a"), sp("id-Mu\u0308ller-7f3a"), sp("id-M\u00fbller-7f3a"), sp("id-Muller-7f3a"), sp("id-M\u00fcller-7f3\u0430"), sp("id-\u041c\u00fcller-7f3a")}
		for _, v := range near {
			mk(cfg, []string{ou}, v, []*string{sp(ou)}, 0, nil, "non-ascii-id")
			mk(cfg, []string{ou}, sp(ou), []*string{v}, 0, nil, "non-ascii-id")
			mk(cfg, []string{*v}, sp(ou), []*string{sp(ou)}, 0, nil, "non-ascii-id")
		}
		for _, v := range near {
			n++
			rs, as := validSpecs(cfg, now, fmt.Sprintf("uni%d", n))
			rs.IRT, as.Confs[0].IRT = sp(ou), sp(ou)
			r := buildResponse(rs, buildAssertion(as))
			ars := RespSpec{Tag: "ArtifactResponse", ID: fmt.Sprintf("ar-uni-%d", n), IRT: v, Issue: rs.Issue, Issuer: sp(cfg.IdpEntity), Status: sp(statusSuccess)}
			ar := buildResponse(ars, r)
			SignInto(ar, 0)
			c.Count("class/non-ascii-id")
			addRun(c, g, &Run{Cfg: cfg, IDs: []string{ou}, Now: now, Cur: cfg.AcsURL, Entry: 1, Rid: ou, Doc: soapWrap(ar)},
				map[string]string{"class": "non-ascii-id", "ar_irt": irtName(v), "entry": "1"}, false)
		}
	}
	spHistories(c, g)
	randomCombinations(c, g, 400, false)
	c04HTTP(c)
	c04Middleware(c)
}

// The HTTP artifact path: ParseResponse with SAMLart must bind the answer to the id of the
// ArtifactResolve request it has just sent. A stub RoundTripper plays the IdP's resolver.
type stubRT struct {
	reply func(resolveID string) string
	seen  string
}

var reID = regexp.MustCompile(`<samlp:ArtifactResolve[^>]* ID="([^"]*)"`)

func (s *stubRT) RoundTrip(req *http.Request) (*http.Response, error) {
	body, _ := io.ReadAll(req.Body)
	m := reID.FindSubmatch(body)
	if m != nil {
		s.seen = string(m[1])
	}
	return &http.Response{StatusCode: 200, Status: "200 OK", Body: io.NopCloser(bytes.NewReader([]byte(s.reply(s.seen)))), Header: http.Header{}, Request: req}, nil
}

func c04HTTP(c *Ctx) {
	g := c.Group("c04http", nil, "bool", "check_bools")
	cfg := defaultCfg()
	now := baseNow
	const id = "id-7f3a9c0e1b"
	n := 0
	for _, mode := range []string{"issued", "other", "empty", "absent", "prefix", "replayed-previous", "upper-case", "title-case", "padded"} {
		for _, ids := range [][]string{{id}, {}} {
			n++
			rs, as := validSpecs(cfg, now, fmt.Sprintf("http%d", n))
			rs.IRT = sp(id)
			as.Confs[0].IRT = sp(id)
			r := buildResponse(rs, buildAssertion(as))
			prev := ""
			stub := &stubRT{}
			stub.reply = func(resolveID string) string {
				ars := RespSpec{Tag: "ArtifactResponse", ID: fmt.Sprintf("arh-%d", n), Issue: rs.Issue, Issuer: sp(cfg.IdpEntity), Status: sp(statusSuccess)}
				switch mode {
				case "issued":
					ars.IRT = sp(resolveID)
				case "other":
					ars.IRT = sp("id-ffffffffffffffffffffffffffffffffffffffff")
				case "empty":
					ars.IRT = sp("")
				case "prefix":
					if len(resolveID) > 1 {
						ars.IRT = sp(resolveID[:len(resolveID)-1])
					}
				case "replayed-previous":
					ars.IRT = sp(prev)
				case "upper-case":
					ars.IRT = sp(strings.ToUpper(resolveID))
				case "title-case":
					ars.IRT = sp(strings.ToUpper(resolveID[:1]) + resolveID[1:])
				case "padded":
					ars.IRT = sp(resolveID + " ")
				}
				ar := buildResponse(ars, r.Clone())
				SignInto(ar, 0)
				return soapWrap(ar).Render()
			}
			var accepted1, accepted bool
			var panicked string
			withGlobals(cfg, now, func() {
				spv := cfg.SP()
				spv.HTTPClient = &http.Client{Transport: stub}
				spv.IDPMetadata.IDPSSODescriptors[0].ArtifactResolutionServices = []saml.Endpoint{{Binding: saml.SOAPBinding, Location: "https://idp.example.com/resolve"}}
				call := func() (ok bool) {
					defer func() {
						if p := recover(); p != nil {
							panicked = fmt.Sprint(p)
						}
					}()
					req, _ := http.NewRequest("POST", cfg.AcsURL, nil)
					req.Form = url.Values{"SAMLart": {"AAQAAMh48/1oXIM+sDo7Dh2qMp1HM4IF5DaRNmDj6RdUmllwn9jJHyEgIi8="}}
					req.PostForm = req.Form
					a, err := spv.ParseResponse(req, ids)
					return err == nil && a != nil
				}
				if mode == "replayed-previous" {
					m := mode
					mode = "issued"
					accepted1 = call()
					prev = stub.seen
					mode = m
				}
				accepted = call()
			})
			want := mode == "issued" && len(ids) == 1
			ok := accepted == want && panicked == "" && (mode != "replayed-previous" || accepted1 == (len(ids) == 1))
			c.Count("class/http-artifact")
			c.Count("http_mode/" + mode)
			c.Add(g, &Case{Key: map[string]string{"class": "http-artifact", "mode": mode, "nids": fmt.Sprint(len(ids))},
				Input: map[string]any{"artifact_response_in_response_to": mode, "outstanding": ids, "resolve_id_seen": stub.seen, "now": time.Unix(0, now).UTC().String()},
				Obs:   map[string]any{"accepted": accepted, "expected": want, "panic": panicked}, Term: fmt.Sprint(ok), ImplSpecOK: Bptr(ok),
				Dedup: fmt.Sprintf("%s/%d", mode, len(ids))})
		}
	}
}

// The middleware declares outstanding exactly the request ids of the authentic tracking
// cookies the browser presents (plus "" only in IdP-initiated mode).
func c04Middleware(c *Ctx) {
	g := c.Group("c04mw", nil, "bool", "check_bools")
	now := baseNow
	const id = "id-7f3a9c0e1b"
	n := 0
	for _, allow := range []bool{false, true} {
		for _, ncookies := range []int{0, 1, 2} {
			for ci, irt := range []*string{sp(id), sp("id-0000000000"), sp(""), nil, sp(id), sp("id-0000000000"), sp(""), nil} {
				own := ci >= 4 // the second pass keeps samlsp.New's own ServiceProvider
				decoy := (ci+ncookies)%2 == 1
				n++
				cfg := defaultCfg()
				cfg.AllowIdpInit = allow
				rs, as := validSpecs(cfg, now, fmt.Sprintf("mw%d", n))
				rs.IRT, as.Confs[0].IRT = irt, irt
				r := buildResponse(rs, buildAssertion(as))
				SignInto(r, 0)
				status, panicked := 0, ""
				withGlobals(cfg, now, func() {
					oldJ := jwt.TimeFunc
					jwt.TimeFunc = saml.TimeNow
					defer func() { jwt.TimeFunc = oldJ }()
					defer func() {
						if p := recover(); p != nil {
							panicked = fmt.Sprint(p)
						}
					}()
					spv := cfg.SP()
					m, err := samlsp.New(samlsp.Options{URL: mustURL("https://sp.example.com/"), Key: spv.Key.(*rsa.PrivateKey), Certificate: spv.Certificate,
						IDPMetadata: spv.IDPMetadata, AllowIDPInitiated: allow})
					if err != nil {
						panic(err)
					}
					// half of the cases keep the ServiceProvider that samlsp.New itself configured (its defaults are
					// part of what decides which ids are outstanding), the other half install the harness's own
					if !own {
						m.ServiceProvider = *spv
					}
					var cookies []*http.Cookie
					for k := 0; k < ncookies; k++ {
						rr := httptest.NewRecorder()
						req0, _ := http.NewRequest("GET", "https://sp.example.com/page", nil)
						rid := id
						if k == 1 {
							rid = "id-55aa55aa55"
						}
						if _, err := m.RequestTracker.TrackRequest(rr, req0, rid); err != nil {
							panic(err)
						}
						cookies = append(cookies, rr.Result().Cookies()...)
					}
					form := url.Values{"SAMLResponse": {base64.StdEncoding.EncodeToString([]byte(r.Render()))}}
					req, _ := http.NewRequest("POST", cfg.AcsURL, strings.NewReader(form.Encode()))
					req.Header.Set("Content-Type", "application/x-www-form-urlencoded")
					for _, ck := range cookies {
						req.AddCookie(ck)
					}
					if decoy {
						// a token of the SAME deployment that is not a tracking token (a session token), and a
						// tracking-looking cookie that is not a token at all, under tracking-cookie names: neither
						// declares a request outstanding
						rr := httptest.NewRecorder()
						req1, _ := http.NewRequest("GET", "https://sp.example.com/page", nil)
						m.CreateSessionFromAssertion(rr, req1, &saml.Assertion{Subject: &saml.Subject{NameID: &saml.NameID{Value: "someone"}}}, "/")
						for _, ck := range rr.Result().Cookies() {
							if ck.Name == "token" {
								req.AddCookie(&http.Cookie{Name: "saml_someone", Value: ck.Value})
								req.AddCookie(&http.Cookie{Name: "saml_", Value: ck.Value})
							}
						}
						req.AddCookie(&http.Cookie{Name: "saml_junk", Value: "not.a.token"})
					}
					rr := httptest.NewRecorder()
					m.ServeHTTP(rr, req)
					status = rr.Code
				})
				accepted := status == http.StatusFound
				// outstanding = ids of presented cookies (+ "" when IdP-initiated); IdP-initiated mode accepts any InResponseTo
				want := allow || (ncookies >= 1 && irt != nil && *irt == id)
				ok := accepted == want && panicked == ""
				irtS := "absent"
				if irt != nil {
					irtS = "'" + *irt + "'"
				}
				c.Count("class/middleware")
				c.Add(g, &Case{Key: map[string]string{"class": "middleware", "allow_idp_initiated": fmt.Sprint(allow), "tracking_cookies": fmt.Sprint(ncookies), "irt": irtS, "sp_from_new": fmt.Sprint(own), "decoy_cookies": fmt.Sprint(decoy)},
					Input: map[string]any{"allow_idp_initiated": allow, "tracking_cookies": ncookies, "in_response_to": irtS},
					Obs:   map[string]any{"status": status, "accepted": accepted, "expected": want, "panic": panicked}, Term: fmt.Sprint(ok), ImplSpecOK: Bptr(ok),
					Dedup: fmt.Sprintf("%v/%d/%s/%v", allow, ncookies, irtS, own)})
			}
		}
	}
}
