package main

// C09 — message-consuming APIs are total: a result or an error, never a panic or blow-up.

import (
	"bytes"
	"context"
	"crypto/rsa"
	"encoding/base64"
	"encoding/xml"
	"errors"
	"fmt"
	"io"
	"log"
	"net/http"
	"net/http/httptest"
	"net/url"
	"os"
	"runtime"
	"strings"
	"time"

	"github.com/crewjam/saml"
	"github.com/crewjam/saml/samlsp"
	"github.com/golang-jwt/jwt/v4"

	. "verifharness/internal/core"
	"verifharness/internal/emit"
	"verifharness/internal/fix"
)

func init() { Props["C09"] = runC09 }

// removable optional parts of a Response document, addressed by path functions
type optPart struct {
	name string
	rm   func(resp, a *Node)
}

func respParts() []optPart {
	sub := func(a *Node) *Node { return a.Child("saml", "Subject") }
	return []optPart{
		{"Response/Issuer", func(r, a *Node) { r.Remove(r.Child("saml", "Issuer")) }},
		{"Response/Status", func(r, a *Node) { r.Remove(r.Child("samlp", "Status")) }},
		{"Response/Status/StatusCode", func(r, a *Node) {
			if s := r.Child("samlp", "Status"); s != nil {
				s.Remove(s.Child("samlp", "StatusCode"))
			}
		}},
		{"Assertion/Issuer", func(r, a *Node) { a.Remove(a.Child("saml", "Issuer")) }},
		{"Assertion/Subject", func(r, a *Node) { a.Remove(sub(a)) }},
		{"Assertion/Subject/NameID", func(r, a *Node) {
			if s := sub(a); s != nil {
				s.Remove(s.Child("saml", "NameID"))
			}
		}},
		{"Assertion/Subject/SubjectConfirmation/SubjectConfirmationData", func(r, a *Node) {
			if s := sub(a); s != nil {
				if sc := s.Child("saml", "SubjectConfirmation"); sc != nil {
					sc.Remove(sc.Child("saml", "SubjectConfirmationData"))
				}
			}
		}},
		{"Assertion/Conditions", func(r, a *Node) { a.Remove(a.Child("saml", "Conditions")) }},
		{"Assertion/Conditions/AudienceRestriction", func(r, a *Node) {
			if cn := a.Child("saml", "Conditions"); cn != nil {
				cn.Remove(cn.Child("saml", "AudienceRestriction"))
			}
		}},
		{"Assertion/AuthnStatement", func(r, a *Node) { a.Remove(a.Child("saml", "AuthnStatement")) }},
		// thorough tier only
		{"Assertion/Subject/SubjectConfirmation", func(r, a *Node) {
			if s := sub(a); s != nil {
				s.Remove(s.Child("saml", "SubjectConfirmation"))
			}
		}},
		{"Assertion/AttributeStatement", func(r, a *Node) { a.Remove(a.Child("saml", "AttributeStatement")) }},
		{"Response/@Destination", func(r, a *Node) { r.DelAttr("Destination") }},
		{"Assertion/@IssueInstant", func(r, a *Node) { a.DelAttr("IssueInstant") }},
	}
}

func runC09(c *Ctx) {
	theCtx = c
	c09ResponseSubsets(c)
	randomCombinations(c, c.Groups["c09"], 300, true)
	c09Logout(c)
	c09Resolver(c)
	c09Middleware(c)
	c09IdP(c)
	c09Metadata(c)
	c09Flate(c)
	c09Mutations(c)
}

func c09ResponseSubsets(c *Ctx) {
	g := c.Group("c09", spImports, caseType, "check_c09")
	g.Shard = 64
	cfg := defaultCfg()
	now := baseNow
	parts := respParts()
	k := 10
	if c.Thorough() {
		k = 12
	}
	n := 0
	// the same enumeration under other settings: every guard must hold whichever branches the configuration selects
	variants := []struct {
		name   string
		set    func(c *Cfg)
		sample int
	}{
		{"default", func(c *Cfg) {}, 1},
		{"idp-initiated", func(c *Cfg) { c.AllowIdpInit = true }, 1},
		{"custom-validators", func(c *Cfg) { c.CustomReqID, c.CustomAud = Bptr(true), Bptr(true) }, 4},
		{"entity-id+pinned", func(c *Cfg) { c.SpEntity, c.Trust, c.C = "urn:example:sp", tPinned, 0 }, 4},
	}
	for vi, vr := range variants {
		cfg := defaultCfg()
		vr.set(&cfg)
		for mask := 0; mask < 1<<k; mask++ {
			if !c.Thorough() && vr.sample > 1 && (mask+vi)%vr.sample != 0 {
				continue
			}
			n++
			rs, as := validSpecs(cfg, now, fmt.Sprint(n))
			a := buildAssertion(as)
			r := buildResponse(rs, a)
			var removed []string
			for i := 0; i < k; i++ {
				if mask&(1<<i) != 0 {
					parts[i].rm(r, a)
					removed = append(removed, parts[i].name)
				}
			}
			// re-apply a valid IdP signature after the removal: Response-signed, Assertion-signed, encrypted in turn
			lay := mask % 3
			slot := a
			switch lay {
			case 0:
				SignInto(r, 0)
			case 1:
				if _, ok := a.Attr("ID"); ok {
					SignInto(a, 0)
				}
			case 2:
				if _, ok := a.Attr("ID"); ok {
					SignInto(a, 0)
				}
				e := Enc(a, 0)
				for i, kd := range r.Kids {
					if kd == slot {
						r.Kids[i] = e
					}
				}
			}
			c.Count(fmt.Sprintf("removed_count/%d", len(removed)))
			c.Count(fmt.Sprintf("layout/%d", lay))
			addRun(c, g, &Run{Cfg: cfg, IDs: []string{"req-1"}, Now: now, Cur: cfg.AcsURL, Doc: r},
				map[string]string{"class": "optional-subset", "config": vr.name, "removed": strings.Join(removed, ","), "layout": fmt.Sprint(lay)}, true)
		}
	}
	// the artifact path: subsets of the ArtifactResponse's own optional parts
	for mask := 0; mask < 1<<5; mask++ {
		n++
		rs, as := validSpecs(cfg, now, fmt.Sprint(n))
		a := buildAssertion(as)
		r := buildResponse(rs, a)
		ars := RespSpec{Tag: "ArtifactResponse", ID: fmt.Sprintf("ar-%d", n), IRT: sp("resolve-1"), Issue: rs.Issue, Issuer: sp(cfg.IdpEntity), Status: sp(statusSuccess)}
		ar := buildResponse(ars, r)
		var removed []string
		rm := func(bit int, name string, f func()) {
			if mask&(1<<bit) != 0 {
				f()
				removed = append(removed, name)
			}
		}
		rm(0, "ArtifactResponse/Issuer", func() { ar.Remove(ar.Child("saml", "Issuer")) })
		rm(1, "ArtifactResponse/Status", func() { ar.Remove(ar.Child("samlp", "Status")) })
		rm(2, "ArtifactResponse/Response", func() { ar.Remove(r) })
		rm(3, "Assertion/Subject", func() { a.Remove(a.Child("saml", "Subject")) })
		rm(4, "Assertion/Conditions", func() { a.Remove(a.Child("saml", "Conditions")) })
		SignInto(ar, 0)
		var doc *Node = soapWrap(ar)
		addRun(c, g, &Run{Cfg: cfg, IDs: []string{"req-1"}, Now: now, Cur: cfg.AcsURL, Entry: 1, Rid: "resolve-1", Doc: doc},
			map[string]string{"class": "artifact-subset", "removed": strings.Join(removed, ",")}, true)
	}
	// SOAP framing: wrong envelope, missing / duplicated Body and ArtifactResponse
	{
		mk := func() (*Node, *Node) {
			n++
			rs, as := validSpecs(cfg, now, fmt.Sprint(n))
			r := buildResponse(rs, buildAssertion(as))
			ars := RespSpec{Tag: "ArtifactResponse", ID: fmt.Sprintf("ar-%d", n), IRT: sp("resolve-1"), Issue: rs.Issue, Issuer: sp(cfg.IdpEntity), Status: sp(statusSuccess)}
			ar := buildResponse(ars, r)
			SignInto(ar, 0)
			return soapWrap(ar), ar
		}
		type fr struct {
			name string
			f    func(env, ar *Node) *Node
		}
		for _, f := range []fr{
			{"wrong-envelope-ns", func(env, ar *Node) *Node { env.Prefix = "x"; return env }},
			{"wrong-envelope-tag", func(env, ar *Node) *Node { env.Tag = "Envelop"; return env }},
			{"no-body", func(env, ar *Node) *Node { env.Kids = nil; return env }},
			{"two-bodies", func(env, ar *Node) *Node { env.Kids = append(env.Kids, env.Kids[0].Clone()); return env }},
			{"empty-body", func(env, ar *Node) *Node { env.Kids[0].Kids = nil; return env }},
			{"two-artifact-responses", func(env, ar *Node) *Node { env.Kids[0].Kids = append(env.Kids[0].Kids, ar.Clone()); return env }},
			{"soap-fault", func(env, ar *Node) *Node {
				env.Kids[0].Kids = []*Node{E("soap", "Fault", nil, E("", "faultcode", nil, T("soap:Server")))}
				return env
			}},
			{"bare-artifact-response", func(env, ar *Node) *Node { return ar }},
			{"bare-response-as-artifact", func(env, ar *Node) *Node { return ar.Child("samlp", "Response") }},
		} {
			env, ar := mk()
			addRun(c, g, &Run{Cfg: cfg, IDs: []string{"req-1"}, Now: now, Cur: cfg.AcsURL, Entry: 1, Rid: "resolve-1", Doc: f.f(env, ar)},
				map[string]string{"class": "soap-framing", "framing": f.name}, true)
		}
	}
	// decrypted plaintexts that are not what is expected
	for _, st := range []int{1, 2, 3} {
		n++
		rs, as := validSpecs(cfg, now, fmt.Sprint(n))
		a := buildAssertion(as)
		SignInto(a, 0)
		r := buildResponse(rs, Enc(a, st))
		addRun(c, g, &Run{Cfg: cfg, IDs: []string{"req-1"}, Now: now, Cur: cfg.AcsURL, Doc: r}, map[string]string{"class": "decrypted-plaintext", "st": fmt.Sprint(st)}, true)
	}
	// attacker-built EncryptedAssertions (anyone can encrypt to the SP's certificate) with cipher values of
	// every boundary length: reached before any signature is checked
	for _, nb := range []int{0, 1, 15, 16, 17, 31, 32, 33, 47, 48, 64} {
		for _, fill := range []byte{0, 0x10, 0xff} {
			n++
			rs, as := validSpecs(cfg, now, fmt.Sprint(n))
			a := buildAssertion(as)
			SignInto(a, 0)
			r := buildResponse(rs, EncRawCipher(a, nb, fill))
			addRun(c, g, &Run{Cfg: cfg, IDs: []string{"req-1"}, Now: now, Cur: cfg.AcsURL, Doc: r},
				map[string]string{"class": "cipher-value-length", "bytes": fmt.Sprint(nb), "fill": fmt.Sprint(fill)}, true)
		}
	}
	// unusual KeyInfo contents under every way of configuring trust
	for _, tr := range c01Trusts() {
		tcfg := defaultCfg()
		tr.set(&tcfg)
		for kind := 0; kind <= 7; kind++ {
			for _, onResp := range []bool{true, false} {
				n++
				rs, as := validSpecs(tcfg, now, fmt.Sprint(n))
				a := buildAssertion(as)
				var r *Node
				odd := func(sig *Node) {
					switch kind {
					case 5: // undecodable certificate text
						sig.SetKeyInfo(kiBad, 0)
					case 6:
						sig.SetKeyInfo(kiNone, 0)
					case 7:
						sig.SetKeyInfo(kiEmpty, 0)
					default:
						sig.SetKeyInfoOdd(kind)
					}
				}
				if onResp {
					r = buildResponse(rs, a)
					odd(SignInto(r, 0))
				} else {
					odd(SignInto(a, 0))
					r = buildResponse(rs, a)
				}
				addRun(c, g, &Run{Cfg: tcfg, IDs: []string{"req-1"}, Now: now, Cur: tcfg.AcsURL, Doc: r},
					map[string]string{"class": "odd-keyinfo", "trust": tr.name, "kind": fmt.Sprint(kind), "on_response": fmt.Sprint(onResp)}, true)
			}
		}
	}
	// counts: a Response that is valid in every respect and holds ZERO assertions (signed / unsigned, both entry
	// points), and one with many
	for _, signed := range []bool{true, false} {
		for _, entry := range []int{0, 1} {
			for _, count := range []int{0, 5} {
				n++
				rs, as := validSpecs(cfg, now, fmt.Sprint(n))
				var kids []*Node
				for k := 0; k < count; k++ {
					s := as
					s.ID = fmt.Sprintf("%s-%d", as.ID, k)
					a := buildAssertion(s)
					if !signed {
						SignInto(a, 0)
					}
					kids = append(kids, a)
				}
				r := buildResponse(rs, kids...)
				if signed {
					SignInto(r, 0)
				}
				run := &Run{Cfg: cfg, IDs: []string{"req-1"}, Now: now, Cur: cfg.AcsURL, Doc: r, Entry: entry}
				if entry == 1 {
					ars := RespSpec{Tag: "ArtifactResponse", ID: fmt.Sprintf("ar-cnt-%d", n), IRT: sp("resolve-1"), Issue: rs.Issue, Issuer: sp(cfg.IdpEntity), Status: sp(statusSuccess)}
					ar := buildResponse(ars, r)
					if !signed {
						SignInto(ar, 0)
					}
					run.Doc, run.Rid = soapWrap(ar), "resolve-1"
				}
				addRun(c, g, run, map[string]string{"class": "assertion-count", "assertions": fmt.Sprint(count), "response_signed": fmt.Sprint(signed), "entry": fmt.Sprint(entry)}, true)
			}
		}
	}
	{ // plaintext whose root is not an Assertion (signed by the IdP all the same)
		n++
		rs, as := validSpecs(cfg, now, fmt.Sprint(n))
		a := buildAssertion(as)
		a.Tag = "Advice"
		SignInto(a, 0)
		r := buildResponse(rs, Enc(a, 0))
		addRun(c, g, &Run{Cfg: cfg, IDs: []string{"req-1"}, Now: now, Cur: cfg.AcsURL, Doc: r}, map[string]string{"class": "decrypted-plaintext", "st": "other-root"}, true)
	}
	// roots that are not a Response
	for _, tag := range []string{"Assertion", "LogoutResponse", "ArtifactResponse"} {
		n++
		rs, as := validSpecs(cfg, now, fmt.Sprint(n))
		r := buildResponse(rs, buildAssertion(as))
		r.Tag = tag
		if tag == "Assertion" {
			r.Prefix = "saml"
		}
		SignInto(r, 0)
		addRun(c, g, &Run{Cfg: cfg, IDs: []string{"req-1"}, Now: now, Cur: cfg.AcsURL, Doc: r}, map[string]string{"class": "other-root", "root": tag}, true)
	}
}

func c09Logout(c *Ctx) {
	g := c.Group("c09lo", spImports, "locase", "check_c09_logout")
	cfg := defaultCfg()
	n := 0
	add := func(r *loRun, key map[string]string) {
		obs, lo, hi, errText := r.exec()
		docT := "DBad"
		switch r.docKind {
		case 0:
			docT = "(DRoot " + r.doc.Coq() + ")"
		case 2:
			docT = "DNoRoot"
		}
		key["encoding"] = r.enc
		term := fmt.Sprintf("{| lc_cfg := %s; lc_lo := %s; lc_hi := %s; lc_doc := %s; lc_obs := %d |}",
			c.Intern("spcfg", r.cfg.Coq()), emit.Z(lo), emit.Z(hi), docT, obs)
		cs := &Case{Key: key, Input: map[string]any{"encoding": r.enc, "document": string(r.raw)}, Obs: map[string]any{"result": obs, "err": errText}, Term: term, Dedup: fmt.Sprint(key)}
		if r.docKind == 0 {
			cs.Input = map[string]any{"encoding": r.enc, "document": r.doc.Render()}
		}
		if obs == 2 {
			cs.ImplSpecOK = Bptr(false)
			cs.Note = "panic: " + errText
		}
		c.Count("class/" + key["class"])
		c.Add(g, cs)
	}
	for mask := 0; mask < 1<<5; mask++ {
		for _, enc := range []string{"post", "redirect"} {
			n++
			issue := time.Now().UnixNano() / ms * ms
			rs := RespSpec{Tag: "LogoutResponse", ID: fmt.Sprintf("c09lo-%d", n), IRT: sp("x"), Issue: sp(fmtMS(issue)), Dest: sp(cfg.SloURL), Issuer: sp(cfg.IdpEntity), Status: sp(statusSuccess)}
			var removed []string
			if mask&1 != 0 {
				rs.Issuer = nil
				removed = append(removed, "Issuer")
			}
			if mask&2 != 0 {
				rs.Status = nil
				removed = append(removed, "Status")
			}
			if mask&4 != 0 {
				rs.NoStatusCode = true
				removed = append(removed, "StatusCode")
			}
			if mask&8 != 0 {
				rs.Dest = nil
				removed = append(removed, "@Destination")
			}
			if mask&16 != 0 {
				rs.Issue = nil
				removed = append(removed, "@IssueInstant")
			}
			r := buildResponse(rs)
			SignInto(r, 0)
			add(&loRun{cfg: cfg, doc: r, enc: enc}, map[string]string{"class": "logout-optional-subset", "removed": strings.Join(removed, ",")})
		}
	}
	for _, rw := range []struct {
		name, raw string
		kind      int
	}{{"empty", "", 1}, {"comment-only", "<!-- c -->", 2}, {"pi-only", "<?xml version=\"1.0\"?>", 2}, {"garbage", "\x00\x01", 1}, {"text", "hello", 1}} {
		for _, enc := range []string{"post", "redirect", "request-post", "request-redirect"} {
			add(&loRun{cfg: cfg, docKind: rw.kind, raw: []byte(rw.raw), enc: enc}, map[string]string{"class": "logout-rootless", "raw": rw.name})
		}
	}
}

type faultRT struct {
	mode   string
	body   string
	opened int // response bodies handed to the library
	closed int // ... and closed by it
}

// trackedBody counts Close calls: a body the library does not close keeps its connection (with a
// connection limit on the transport the next resolution then blocks for ever)
type trackedBody struct {
	io.ReadCloser
	f    *faultRT
	done bool
}

func (t *trackedBody) Close() error {
	if !t.done {
		t.done = true
		t.f.closed++
	}
	return t.ReadCloser.Close()
}

func (f *faultRT) RoundTrip(req *http.Request) (*http.Response, error) {
	resp, err := f.roundTrip(req)
	if resp != nil && resp.Body != nil {
		f.opened++
		resp.Body = &trackedBody{ReadCloser: resp.Body, f: f}
	}
	return resp, err
}

type errReader struct{}

func (errReader) Read([]byte) (int, error) { return 0, errors.New("connection reset") }
func (errReader) Close() error             { return nil }

func (f *faultRT) roundTrip(req *http.Request) (*http.Response, error) {
	switch f.mode {
	case "stall-until-request-context-ends":
		// a resolver that never answers: the call must end when the inbound request's context ends
		<-req.Context().Done()
		return nil, req.Context().Err()
	case "connection-error":
		return nil, errors.New("dial tcp: connection refused")
	case "status-500":
		return &http.Response{StatusCode: 500, Status: "500 Internal Server Error", Body: io.NopCloser(strings.NewReader("oops")), Header: http.Header{}, Request: req}, nil
	case "status-302":
		return &http.Response{StatusCode: 302, Status: "302 Found", Body: io.NopCloser(strings.NewReader("")), Header: http.Header{}, Request: req}, nil
	case "read-error":
		return &http.Response{StatusCode: 200, Status: "200 OK", Body: errReader{}, Header: http.Header{}, Request: req}, nil
	}
	return &http.Response{StatusCode: 200, Status: "200 OK", Body: io.NopCloser(strings.NewReader(f.body)), Header: http.Header{}, Request: req}, nil
}

// artifact resolution over HTTP: whatever the resolver does, (nil, *InvalidResponseError)
func c09Resolver(c *Ctx) {
	g := c.Group("c09res", nil, "bool", "check_bools")
	cfg := defaultCfg()
	now := baseNow
	rs, as := validSpecs(cfg, now, "res")
	good := soapWrap(buildResponse(RespSpec{Tag: "ArtifactResponse", ID: "ar-res", IRT: sp("nope"), Issue: rs.Issue, Issuer: sp(cfg.IdpEntity), Status: sp(statusSuccess)}, buildResponse(rs, buildAssertion(as)))).Render()
	modes := []faultRT{{mode: "stall-until-request-context-ends"}, {mode: "connection-error"}, {mode: "status-500"}, {mode: "status-302"}, {mode: "read-error"},
		{mode: "empty-body"}, {mode: "garbage", body: "\x00\xff garbage"}, {mode: "truncated", body: good[:len(good)/2]},
		{mode: "soap-fault", body: `<soap:Envelope xmlns:soap="` + nsSOAP + `"><soap:Body><soap:Fault><faultcode>x</faultcode></soap:Fault></soap:Body></soap:Envelope>`},
		{mode: "wrong-envelope", body: `<Envelope><Body/></Envelope>`}, {mode: "html", body: "<html><body>login</body></html>"},
		{mode: "unsolicited", body: good}, {mode: "comment-only", body: "<!-- -->"}}
	for _, m0 := range modes {
		for _, client := range []string{"explicit", "unset-default-client"} {
			m := m0
			client := client
			var a *saml.Assertion
			var err error
			panicked := ""
			withGlobals(cfg, now, func() {
				defer func() {
					if p := recover(); p != nil {
						panicked = fmt.Sprint(p)
					}
				}()
				spv := cfg.SP()
				if client == "explicit" {
					spv.HTTPClient = &http.Client{Transport: &m}
				} else {
					// HTTPClient left unset (documented: http.DefaultClient is used); no network: the default
					// transport is the faulty resolver for the duration of the call
					oldT := http.DefaultTransport
					http.DefaultTransport = &m
					defer func() { http.DefaultTransport = oldT }()
				}
				spv.IDPMetadata.IDPSSODescriptors[0].ArtifactResolutionServices = []saml.Endpoint{{Binding: saml.SOAPBinding, Location: "https://idp.example.com/resolve"}}
				req, _ := http.NewRequest("POST", cfg.AcsURL, nil)
				req.Form = url.Values{"SAMLart": {"AAQAAMh48/1oXIM+sDo7Dh2qMp1HM4IF5DaRNmDj6RdUmllwn9jJHyEgIi8="}}
				req.PostForm = req.Form
				// the inbound request is abandoned after 300 ms (client gone / server deadline)
				ctx, cancel := context.WithTimeout(context.Background(), 300*time.Millisecond)
				defer cancel()
				req = req.WithContext(ctx)
				done := make(chan struct{})
				go func() {
					defer close(done)
					defer func() {
						if p := recover(); p != nil {
							panicked = fmt.Sprint(p)
						}
					}()
					a, err = spv.ParseResponse(req, []string{"req-1"})
				}()
				select {
				case <-done:
				case <-time.After(5 * time.Second):
					panicked = "hang: ParseResponse did not return within 5 s of the inbound request's context ending"
				}
			})
			var ire *saml.InvalidResponseError
			ok := panicked == "" && a == nil && err != nil && errors.As(err, &ire) && err.Error() == "Authentication failed" && m.closed == m.opened
			c.Count("class/resolver-fault")
			c.Add(g, &Case{Key: map[string]string{"class": "resolver-fault", "mode": m.mode, "http_client": client}, Input: map[string]any{"resolver": m.mode, "http_client": client},
				Obs: map[string]any{"panic": panicked, "err": fmt.Sprint(err), "assertion_nil": a == nil, "bodies_handed_out": m.opened, "bodies_closed": m.closed}, Term: fmt.Sprint(ok), ImplSpecOK: Bptr(ok), Dedup: m.mode + "/" + client})
		}
	}
}

type stubSPP struct{ md *saml.EntityDescriptor }

func (s stubSPP) GetServiceProvider(r *http.Request, id string) (*saml.EntityDescriptor, error) {
	if s.md != nil && id == s.md.EntityID {
		return s.md, nil
	}
	return nil, os.ErrNotExist
}

type stubSession struct{}

func (stubSession) GetSession(w http.ResponseWriter, r *http.Request, req *saml.IdpAuthnRequest) *saml.Session {
	return &saml.Session{ID: "s1", NameID: "alice", UserName: "alice", CreateTime: saml.TimeNow(), ExpireTime: saml.TimeNow().Add(time.Hour), Index: "i1"}
}

// the IdP side: AuthnRequests with every subset of optional parts, both bindings, and SP
// metadata with missing pieces; ServeSSO / ServeIDPInitiated must answer, not panic
func c09IdP(c *Ctx) {
	g := c.Group("c09idp", nil, "bool", "check_bools")
	now := baseNow
	cfg := defaultCfg()
	spMeta := func(mask int) *saml.EntityDescriptor {
		spv := cfg.SP()
		spv.EntityID = "https://sp.example.com/saml/metadata"
		md := spv.Metadata()
		d := &md.SPSSODescriptors[0]
		if mask&1 != 0 { // encryption key descriptor without certificate
			for i := range d.KeyDescriptors {
				if d.KeyDescriptors[i].Use == "encryption" {
					d.KeyDescriptors[i].KeyInfo.X509Data.X509Certificates = nil
				}
			}
		}
		if mask&2 != 0 {
			d.KeyDescriptors = nil
		}
		if mask&4 != 0 {
			d.AssertionConsumerServices = nil
		}
		if mask&8 != 0 {
			md.SPSSODescriptors = nil
		}
		if mask&16 != 0 {
			for i := range d.KeyDescriptors {
				d.KeyDescriptors[i].KeyInfo.X509Data.X509Certificates = []saml.X509Certificate{{Data: "AAAA"}}
			}
		}
		return md
	}
	idpFor := func(md *saml.EntityDescriptor) *saml.IdentityProvider {
		return &saml.IdentityProvider{Key: fix.RSAKey("rsa_a"), Certificate: fix.Cert("rsa_a"), Logger: log.New(io.Discard, "", 0),
			MetadataURL: mustURL("https://idp.example.com/metadata"), SSOURL: mustURL("https://idp.example.com/sso"),
			ServiceProviderProvider: stubSPP{md}, SessionProvider: stubSession{}}
	}
	run := func(key map[string]string, input any, f func(w *httptest.ResponseRecorder)) {
		panicked, status := "", 0
		withGlobals(cfg, now, func() {
			defer func() {
				if p := recover(); p != nil {
					panicked = fmt.Sprint(p)
				}
			}()
			w := httptest.NewRecorder()
			f(w)
			status = w.Code
		})
		ok := panicked == ""
		c.Count("class/" + key["class"])
		c.Count(fmt.Sprintf("idp_status/%d", status))
		c.Add(g, &Case{Key: key, Input: input, Obs: map[string]any{"panic": panicked, "status": status}, Term: fmt.Sprint(ok), ImplSpecOK: Bptr(ok), Dedup: fmt.Sprint(key)})
	}
	// AuthnRequest optional parts
	for mask := 0; mask < 1<<6; mask++ {
		for _, method := range []string{"GET", "POST"} {
			var removed []string
			at := map[string]string{"ID": "id-1", "Version": "2.0", "IssueInstant": fmtMS(now), "Destination": "https://idp.example.com/sso",
				"AssertionConsumerServiceURL": cfg.AcsURL, "ProtocolBinding": saml.HTTPPostBinding}
			issuer, policy := true, true
			rm := func(bit int, name string, f func()) {
				if mask&(1<<bit) != 0 {
					f()
					removed = append(removed, name)
				}
			}
			rm(0, "Issuer", func() { issuer = false })
			rm(1, "NameIDPolicy", func() { policy = false })
			rm(2, "@Destination", func() { delete(at, "Destination") })
			rm(3, "@AssertionConsumerServiceURL", func() { delete(at, "AssertionConsumerServiceURL") })
			rm(4, "@IssueInstant", func() { delete(at, "IssueInstant") })
			rm(5, "@Version+@ID", func() { delete(at, "Version"); delete(at, "ID") })
			var sb strings.Builder
			sb.WriteString(`<samlp:AuthnRequest xmlns:saml="` + nsA + `" xmlns:samlp="` + nsP + `"`)
			for _, k := range []string{"ID", "Version", "IssueInstant", "Destination", "AssertionConsumerServiceURL", "ProtocolBinding"} {
				if v, ok := at[k]; ok {
					sb.WriteString(" " + k + `="` + v + `"`)
				}
			}
			sb.WriteString(">")
			if issuer {
				sb.WriteString(`<saml:Issuer>https://sp.example.com/saml/metadata</saml:Issuer>`)
			}
			if policy {
				sb.WriteString(`<samlp:NameIDPolicy AllowCreate="true"/>`)
			}
			sb.WriteString("</samlp:AuthnRequest>")
			body := sb.String()
			run(map[string]string{"class": "authn-request-subset", "removed": strings.Join(removed, ","), "method": method}, map[string]any{"request": body, "method": method},
				func(w *httptest.ResponseRecorder) {
					idp := idpFor(spMeta(0))
					var req *http.Request
					if method == "GET" {
						req, _ = http.NewRequest("GET", "https://idp.example.com/sso?SAMLRequest="+url.QueryEscape(base64.StdEncoding.EncodeToString(deflate([]byte(body)))), nil)
					} else {
						form := url.Values{"SAMLRequest": {base64.StdEncoding.EncodeToString([]byte(body))}}
						req, _ = http.NewRequest("POST", "https://idp.example.com/sso", strings.NewReader(form.Encode()))
						req.Header.Set("Content-Type", "application/x-www-form-urlencoded")
					}
					idp.ServeSSO(w, req)
				})
		}
	}
	// SP metadata with missing pieces, SP- and IdP-initiated
	validReq := `<samlp:AuthnRequest xmlns:saml="` + nsA + `" xmlns:samlp="` + nsP + `" ID="id-1" Version="2.0" IssueInstant="` + fmtMS(now) +
		`" Destination="https://idp.example.com/sso" AssertionConsumerServiceURL="` + cfg.AcsURL + `"><saml:Issuer>https://sp.example.com/saml/metadata</saml:Issuer></samlp:AuthnRequest>`
	for mask := 0; mask < 1<<5; mask++ {
		for _, initiated := range []bool{false, true} {
			run(map[string]string{"class": "sp-metadata-subset", "mask": fmt.Sprint(mask), "idp_initiated": fmt.Sprint(initiated)}, map[string]any{"metadata_mask": mask},
				func(w *httptest.ResponseRecorder) {
					idp := idpFor(spMeta(mask))
					if initiated {
						req, _ := http.NewRequest("GET", "https://idp.example.com/login/x", nil)
						idp.ServeIDPInitiated(w, req, "https://sp.example.com/saml/metadata", "relay")
					} else {
						form := url.Values{"SAMLRequest": {base64.StdEncoding.EncodeToString([]byte(validReq))}}
						req, _ := http.NewRequest("POST", "https://idp.example.com/sso", strings.NewReader(form.Encode()))
						req.Header.Set("Content-Type", "application/x-www-form-urlencoded")
						idp.ServeSSO(w, req)
					}
				})
		}
	}
	for _, raw := range []string{"", "<!-- -->", "<a", "not xml", "<samlp:AuthnRequest/>", `<AuthnRequest xmlns="` + nsP + `"/>`} {
		for _, method := range []string{"GET", "POST", "PUT"} {
			run(map[string]string{"class": "authn-request-raw", "raw": raw, "method": method}, map[string]any{"request": raw},
				func(w *httptest.ResponseRecorder) {
					idp := idpFor(spMeta(0))
					var req *http.Request
					if method == "GET" {
						req, _ = http.NewRequest("GET", "https://idp.example.com/sso?SAMLRequest="+url.QueryEscape(base64.StdEncoding.EncodeToString(deflate([]byte(raw)))), nil)
					} else {
						form := url.Values{"SAMLRequest": {base64.StdEncoding.EncodeToString([]byte(raw))}}
						req, _ = http.NewRequest(method, "https://idp.example.com/sso", strings.NewReader(form.Encode()))
						req.Header.Set("Content-Type", "application/x-www-form-urlencoded")
					}
					idp.ServeSSO(w, req)
				})
		}
	}
}

func c09Metadata(c *Ctx) {
	g := c.Group("c09md", nil, "bool", "check_bools")
	cfg := defaultCfg()
	spv := cfg.SP()
	md, _ := xml.Marshal(spv.Metadata())
	idpMD, _ := xml.Marshal((&saml.IdentityProvider{Key: fix.RSAKey("rsa_a"), Certificate: fix.Cert("rsa_a"),
		MetadataURL: mustURL("https://idp.example.com/metadata"), SSOURL: mustURL("https://idp.example.com/sso")}).Metadata())
	docs := []string{string(md), string(idpMD), "", "<!-- -->", "<EntityDescriptor/>", `<EntitiesDescriptor xmlns="urn:oasis:names:tc:SAML:2.0:metadata"/>`,
		`<EntityDescriptor xmlns="urn:oasis:names:tc:SAML:2.0:metadata" validUntil="never"/>`,
		`<EntityDescriptor xmlns="urn:oasis:names:tc:SAML:2.0:metadata" cacheDuration="PT"/>`,
		`<EntitiesDescriptor xmlns="urn:oasis:names:tc:SAML:2.0:metadata"><EntityDescriptor entityID="a"/><EntityDescriptor entityID="b"><IDPSSODescriptor/></EntityDescriptor></EntitiesDescriptor>`}
	// endpoint locations that url.Parse refuses or that carry odd schemes, on known and unknown bindings,
	// in Location and ResponseLocation, for plain and indexed endpoints
	for _, loc := range []string{"http://[::1", "http://host:port/x", "http://h/%zz", "%", ":", "http://a b/", "ht tp://x", "\x7f", "https://h:99999999/", "//h", "javascript:alert(1)", ""} {
		for _, binding := range []string{saml.HTTPPostBinding, saml.HTTPRedirectBinding, saml.SOAPBinding, "urn:unknown:binding", ""} {
			esc := strings.NewReplacer("&", "&amp;", "<", "&lt;", "\"", "&quot;", "\x7f", "&#x7f;").Replace(loc)
			docs = append(docs,
				`<EntityDescriptor xmlns="urn:oasis:names:tc:SAML:2.0:metadata" entityID="e"><IDPSSODescriptor protocolSupportEnumeration="urn:oasis:names:tc:SAML:2.0:protocol"><SingleSignOnService Binding="`+binding+`" Location="`+esc+`"/><SingleLogoutService Binding="`+binding+`" Location="https://ok.example/slo" ResponseLocation="`+esc+`"/></IDPSSODescriptor></EntityDescriptor>`,
				`<EntityDescriptor xmlns="urn:oasis:names:tc:SAML:2.0:metadata" entityID="e"><SPSSODescriptor protocolSupportEnumeration="urn:oasis:names:tc:SAML:2.0:protocol"><AssertionConsumerService index="1" Binding="`+binding+`" Location="`+esc+`"/><AssertionConsumerService index="2" Binding="`+binding+`" Location="https://ok.example/acs" ResponseLocation="`+esc+`"/></SPSSODescriptor></EntityDescriptor>`)
		}
	}
	// truncations and single-span deletions of the two generated documents
	for _, base := range []string{string(md), string(idpMD)} {
		for i := 0; i < 40; i++ {
			cut := c.Rng.Intn(len(base))
			docs = append(docs, base[:cut])
			j := cut + c.Rng.Intn(40)
			if j > len(base) {
				j = len(base)
			}
			docs = append(docs, base[:cut]+base[j:])
		}
	}
	for i, d := range docs {
		panicked := ""
		func() {
			defer func() {
				if p := recover(); p != nil {
					panicked = fmt.Sprint(p)
				}
			}()
			ed, err := samlsp.ParseMetadata([]byte(d))
			if err == nil && ed == nil {
				panicked = "nil metadata with nil error"
			}
			var e2 saml.EntityDescriptor
			_ = xml.Unmarshal([]byte(d), &e2)
		}()
		ok := panicked == ""
		c.Count("class/metadata")
		c.Add(g, &Case{Key: map[string]string{"class": "metadata", "i": fmt.Sprint(i)}, Input: map[string]any{"document": d}, Obs: map[string]any{"panic": panicked},
			Term: fmt.Sprint(ok), ImplSpecOK: Bptr(ok), Dedup: d})
	}
}

// bounded inflate: what ReadAll delivers never exceeds 10 MiB and larger streams are refused,
// without allocating much more than the limit
func c09Flate(c *Ctx) {
	g := c.Group("c09fl", []string{"Flate"}, "flcase", "check_flcases")
	cfg := defaultCfg()
	limit := 10 * 1024 * 1024
	sizes := []int{0, 1, 1000, 1 << 20, limit - 1, limit, limit + 1, 11 << 20, 64 << 20}
	if c.Thorough() {
		sizes = append(sizes, 5<<20, 9<<20, limit-4096, limit+4096, 1<<30)
	}
	for _, size := range sizes {
		for _, path := range []string{"logout-redirect", "idp-sso-redirect"} {
			payload := base64.StdEncoding.EncodeToString(deflate(bytes.Repeat([]byte{' '}, size)))
			var ms0, ms1 runtime.MemStats
			runtime.GC()
			runtime.ReadMemStats(&ms0)
			isErr, panicked, errText := false, "", ""
			func() {
				defer func() {
					if p := recover(); p != nil {
						panicked = fmt.Sprint(p)
					}
				}()
				if path == "logout-redirect" {
					err := cfg.SP().ValidateLogoutResponseRedirect(payload)
					isErr = err != nil
					if err != nil {
						var ire *saml.InvalidResponseError
						if errors.As(err, &ire) && ire.PrivateErr != nil {
							errText = ire.PrivateErr.Error()
						} else {
							errText = err.Error()
						}
					}
				} else {
					req, _ := http.NewRequest("GET", "https://idp.example.com/sso?SAMLRequest="+url.QueryEscape(payload), nil)
					r, err := saml.NewIdpAuthnRequest(&saml.IdentityProvider{}, req)
					isErr = err != nil
					if err != nil {
						errText = err.Error()
					} else {
						_ = r
					}
				}
			}()
			runtime.ReadMemStats(&ms1)
			alloc := int64(ms1.TotalAlloc - ms0.TotalAlloc)
			refused := strings.Contains(errText, "uncompress limit")
			delivered := int64(size)
			if refused {
				delivered = 0
			}
			cs := &Case{Key: map[string]string{"class": "flate", "path": path, "size": fmt.Sprint(size)}, Input: map[string]any{"inflated_size": size, "path": path},
				Obs:  map[string]any{"error": isErr, "refused_by_limit": refused, "err": errText, "bytes_allocated": alloc, "panic": panicked},
				Term: fmt.Sprintf("{| fl_size := %d; fl_err := %s; fl_delivered := %d |}", size, emit.Bool(refused), delivered)}
			// allocation bound: ReadAll's doubling buffer plus the copies made afterwards stay within a small multiple of the limit
			if panicked != "" || alloc > 12*int64(limit) {
				cs.ImplSpecOK = Bptr(false)
				cs.Note = fmt.Sprintf("panic=%q allocated=%d", panicked, alloc)
			}
			c.Count("class/flate")
			c.Add(g, cs)
		}
	}
}

// support: structure-blind mutations of a genuinely signed response; only "no panic, opaque error" is checked
func c09Mutations(c *Ctx) {
	g := c.Group("c09mut", nil, "bool", "check_bools")
	cfg := defaultCfg()
	now := baseNow
	rs, as := validSpecs(cfg, now, "mut")
	a := buildAssertion(as)
	SignInto(a, 0)
	r := buildResponse(rs, a)
	SignInto(r, 0)
	base := r.Render()
	encd := func() string {
		rs, as := validSpecs(cfg, now, "mut2")
		a := buildAssertion(as)
		SignInto(a, 0)
		return buildResponse(rs, Enc(a, 0)).Render()
	}()
	count := 300
	if c.Thorough() {
		count = 5000
	}
	tokens := []string{"<", ">", "</", "/>", "\"", "&", "&#x0;", "<!--", "-->", "<![CDATA[", "]]>", "<?", "xmlns:saml=\"x\"", "<ds:Signature xmlns:ds=\"http://www.w3.org/2000/09/xmldsig#\"/>", "<saml:Assertion/>", "<saml:EncryptedAssertion/>", "\x00", "\xff"}
	for i := 0; i < count; i++ {
		src := base
		if i%3 == 2 {
			src = encd
		}
		b := []byte(src)
		for k := 0; k < 1+c.Rng.Intn(3); k++ {
			p := c.Rng.Intn(len(b))
			switch c.Rng.Intn(5) {
			case 0:
				b = b[:p]
			case 1:
				q := p + c.Rng.Intn(60)
				if q > len(b) {
					q = len(b)
				}
				b = append(append([]byte{}, b[:p]...), b[q:]...)
			case 2:
				q := p + c.Rng.Intn(200)
				if q > len(b) {
					q = len(b)
				}
				b = append(append(append([]byte{}, b[:q]...), b[p:q]...), b[q:]...)
			case 3:
				t := tokens[c.Rng.Intn(len(tokens))]
				b = append(append(append([]byte{}, b[:p]...), t...), b[p:]...)
			case 4:
				b[p] ^= byte(1 << uint(c.Rng.Intn(8)))
			}
			if len(b) == 0 {
				break
			}
		}
		run := &Run{Cfg: cfg, IDs: []string{"req-1"}, Now: now, Cur: cfg.AcsURL, Bytes: b, DocKind: 1}
		o, formOK := run.Exec()
		ok := o.Kind != "panic" && o.ShapeOK && formOK
		c.Count("mutation_outcome/" + o.Kind)
		c.Add(g, &Case{Key: map[string]string{"class": "mutation"}, Input: map[string]any{"document_b64": base64.StdEncoding.EncodeToString(b)}, Obs: o,
			Term: fmt.Sprint(ok), ImplSpecOK: Bptr(ok), Dedup: string(b)})
	}
}

// The samlsp middleware consumes the assertion the SP returns (session creation): every IdP-signed
// response that the SP ACCEPTS while optional parts are missing (no NameID, no attribute or
// authentication statement, ...) must end in a redirect or an error page, never a panic.
func c09Middleware(c *Ctx) {
	g := c.Group("c09mw", nil, "bool", "check_bools")
	now := baseNow
	cfg := defaultCfg()
	n := 0
	for mask := 0; mask < 1<<6; mask++ {
		for _, relay := range []string{"", "unknown-index"} {
			n++
			rs, as := validSpecs(cfg, now, fmt.Sprintf("mwc%d", n))
			rs.IRT, as.Confs[0].IRT = sp("id-1"), sp("id-1")
			a := buildAssertion(as)
			var removed []string
			rm := func(bit int, name string, f func()) {
				if mask&(1<<bit) != 0 {
					f()
					removed = append(removed, name)
				}
			}
			subj := a.Child("saml", "Subject")
			rm(0, "NameID", func() { subj.Remove(subj.Child("saml", "NameID")) })
			rm(1, "AuthnStatement", func() { a.Remove(a.Child("saml", "AuthnStatement")) })
			rm(2, "AttributeStatement", func() { a.Remove(a.Child("saml", "AttributeStatement")) })
			rm(3, "AudienceRestriction", func() { cn := a.Child("saml", "Conditions"); cn.Remove(cn.Child("saml", "AudienceRestriction")) })
			rm(4, "SubjectConfirmation", func() { subj.Remove(subj.Child("saml", "SubjectConfirmation")) })
			rm(5, "empty AttributeStatement", func() {
				if st := a.Child("saml", "AttributeStatement"); st != nil {
					st.Kids = []*Node{E("saml", "Attribute", A("Name", "empty"))}
				}
			})
			r := buildResponse(rs, a)
			SignInto(r, 0)
			status, panicked := 0, ""
			withGlobals(cfg, now, func() {
				oldJ := jwt.TimeFunc
				jwt.TimeFunc = saml.TimeNow
				defer func() { jwt.TimeFunc = oldJ }()
				defer func() {
					if p := recover(); p != nil {
						panicked = fmt.Sprint(p)
					}
				}()
				spv := cfg.SP()
				m, err := samlsp.New(samlsp.Options{URL: mustURL("https://sp.example.com/"), Key: spv.Key.(*rsa.PrivateKey), Certificate: spv.Certificate, IDPMetadata: spv.IDPMetadata})
				if err != nil {
					panic(err)
				}
				m.ServiceProvider = *spv
				rr0 := httptest.NewRecorder()
				req0, _ := http.NewRequest("GET", "https://sp.example.com/page", nil)
				if _, err := m.RequestTracker.TrackRequest(rr0, req0, "id-1"); err != nil {
					panic(err)
				}
				form := url.Values{"SAMLResponse": {base64.StdEncoding.EncodeToString([]byte(r.Render()))}}
				if relay != "" {
					form.Set("RelayState", relay)
				}
				req, _ := http.NewRequest("POST", cfg.AcsURL, strings.NewReader(form.Encode()))
				req.Header.Set("Content-Type", "application/x-www-form-urlencoded")
				for _, ck := range rr0.Result().Cookies() {
					req.AddCookie(ck)
				}
				rr := httptest.NewRecorder()
				m.ServeHTTP(rr, req)
				status = rr.Code
			})
			ok := panicked == "" && status != 0
			c.Count("class/middleware-consumes")
			c.Count(fmt.Sprintf("mw_status/%d", status))
			c.Add(g, &Case{Key: map[string]string{"class": "middleware-consumes", "removed": strings.Join(removed, ","), "relay": relay},
				Input: map[string]any{"removed": removed, "relay_state": relay, "document": r.Render()}, Obs: map[string]any{"status": status, "panic": panicked},
				Term: fmt.Sprint(ok), ImplSpecOK: Bptr(ok), Dedup: fmt.Sprintf("%d/%s", mask, relay)})
		}
	}
}
