package main

// Random combinations: every dimension of the SP acceptance decision drawn at
// once (configuration toggles, trust mode, tolerances, outstanding ids, entry
// point, signing layout, encryption, Destination, number of assertions and
// confirmations, and zero to three perturbed fields from any family). The
// systematic generators walk each family's lattice under a few fixed
// combinations; this stream is what reaches the combinations nobody thought of.

import (
	"fmt"
	"time"

	. "verifharness/internal/core"
)

func pick[T any](c *Ctx, xs ...T) T { return xs[c.Rng.Intn(len(xs))] }

func randomRun(c *Ctx, n int) (*Run, map[string]string) {
	key := map[string]string{"class": "random-combination"}
	cfg := defaultCfg()
	if c.Rng.Intn(4) == 0 {
		cfg.AllowIdpInit = true
		key["allow_idp_initiated"] = "true"
	}
	switch c.Rng.Intn(5) {
	case 0:
		cfg.CustomReqID = Bptr(true)
	case 1:
		cfg.CustomReqID = Bptr(false)
	}
	switch c.Rng.Intn(6) {
	case 0:
		cfg.CustomAud = Bptr(true)
	case 1:
		cfg.CustomAud = Bptr(false)
	}
	if c.Rng.Intn(3) == 0 {
		cfg.SpEntity = "urn:example:sp"
	}
	signer := 0
	switch c.Rng.Intn(6) {
	case 0:
		cfg.Trust, cfg.C = tPinned, 0
	case 1:
		cfg.Trust, cfg.C, cfg.AlgOK = tFinger, 0, true
	case 2:
		cfg.Kds = []KD{{"signing", []int{1}}, {"encryption", []int{2}}, {"", []int{0}}}
	case 3:
		cfg.Kds = []KD{{"signing", []int{0, 1}}}
		signer = c.Rng.Intn(2)
	}
	key["trust"] = fmt.Sprint(cfg.Trust)
	if c.Rng.Intn(3) == 0 {
		cfg.MaxIssueDelay = int64(c.Rng.Intn(300_000)) * ms
		cfg.MaxClockSkew = int64(c.Rng.Intn(300_000)) * ms
	}
	const id, id2 = "id-7f3a9c0e1b", "id-55aa55aa55"
	ids := pick(c, []string{id}, []string{id, id2}, []string{id2, id}, []string{}, []string{""}, []string{"", id}, []string{id + "x"})
	now := baseNow + pick(c, int64(0), 1, -1, 500_000)
	N := now / ms * ms
	tag := fmt.Sprintf("rnd%d", n)
	rs, as0 := validSpecs(cfg, N, tag)
	rs.IRT, as0.Confs[0].IRT = sp(id), sp(id)

	nassert := pick(c, 1, 1, 1, 2)
	nconf := pick(c, 1, 1, 2, 3, 0)
	specs := make([]AssertSpec, nassert)
	for j := range specs {
		s := as0
		s.ID, s.NameID = fmt.Sprintf("a-%s-%d", tag, j), fmt.Sprintf("user-%s-%d", tag, j)
		s.Confs = nil
		for i := 0; i < nconf; i++ {
			s.Confs = append(s.Confs, ConfSpec{IRT: sp(id), Recipient: sp(cfg.AcsURL), NOA: sp(fmtMS(N + int64(time.Hour)))})
		}
		specs[j] = s
	}
	aud := cfg.SpEntity
	if aud == "" {
		aud = cfg.MetadataURL
	}
	// perturbations
	far := int64(10 * time.Hour)
	npert := pick(c, 0, 1, 1, 1, 2, 2, 3)
	for p := 0; p < npert; p++ {
		j := c.Rng.Intn(nassert)
		i := 0
		if nconf > 0 {
			i = c.Rng.Intn(nconf)
		}
		k := pick(c, 0, 0, 1, 1, 3, 4)
		v := c.Rng.Intn(len(variantNames))
		irt := pick(c, sp(id2), sp("id-0000000000"), sp(id[:len(id)-1]), sp(""), nil, sp(id+" "), sp(" "+id))
		f := c.Rng.Intn(15)
		if nconf == 0 && (f == 4 || f == 7 || f == 11 || f == 12 || f == 14) {
			f = pick(c, 2, 3) // no confirmation to perturb: move a Conditions instant instead
		}
		key[fmt.Sprintf("perturb%d", p)] = fmt.Sprint(f)
		switch f {
		case 0:
			rs.Issue = sp(fmtMS(lat(N-cfg.MaxIssueDelay, true, k, far)))
		case 1:
			specs[j].Issue = fmtMS(lat(N-cfg.MaxIssueDelay, true, k, far))
		case 2:
			specs[j].NB = sp(fmtMS(lat(N+cfg.MaxClockSkew, false, k, far)))
		case 3:
			specs[j].NOA = sp(fmtMS(lat(N-cfg.MaxClockSkew, true, k, far)))
		case 4:
			specs[j].Confs[i].NOA = sp(fmtMS(lat(N-cfg.MaxClockSkew, true, k, far)))
		case 5:
			rs.Issuer = variant(cfg.IdpEntity, v)
		case 6:
			specs[j].Issuer = variant(cfg.IdpEntity, v)
		case 7:
			specs[j].Confs[i].Recipient = variant(cfg.AcsURL, v)
		case 8:
			if a := variant(aud, v); a != nil {
				specs[j].Auds = pick(c, []string{*a}, []string{*a, aud}, []string{"urn:other", *a})
			} else {
				specs[j].Auds = nil
			}
		case 9:
			rs.Status = variant(statusSuccess, v)
		case 10:
			rs.IRT = irt
		case 11:
			specs[j].Confs[i].IRT = irt
		case 12:
			specs[j].Confs[i].NoData = true
		case 13:
			pick(c, func() { specs[j].NoSubject = true }, func() { specs[j].NoCond = true }, func() { specs[j].Issuer = nil })()
		case 14:
			pick(c, func() { specs[j].NB = nil }, func() { specs[j].NOA = nil }, func() { rs.Issue = nil }, func() { specs[j].Confs[i].NOA = sp("") })()
		}
	}
	// Destination
	cur := cfg.AcsURL
	switch c.Rng.Intn(6) {
	case 0:
		rs.Dest = nil
	case 1:
		cur = "https://sp.example.com/saml/acs?tenant=7"
		rs.Dest = pick(c, sp(cur), sp(cfg.AcsURL), sp("https://sp.example.com/elsewhere"))
	case 2:
		rs.Dest = variant(cfg.AcsURL, c.Rng.Intn(len(variantNames)))
	}
	// layout
	signResp, signAssert, enc := c.Rng.Intn(2) == 0, c.Rng.Intn(2) == 0, c.Rng.Intn(4) == 0
	entry := pick(c, 0, 0, 0, 1)
	signAR := entry == 1 && c.Rng.Intn(2) == 0
	if !signResp && !signAssert && !signAR && c.Rng.Intn(4) != 0 {
		signAssert = true
	}
	signSome := nassert > 1 && c.Rng.Intn(2) == 0 // only some of several assertions carry their own signature
	key["layout"] = fmt.Sprintf("resp=%v,assert=%v,enc=%v,entry=%d,ar=%v,some=%v", signResp, signAssert, enc, entry, signAR, signSome)
	var kids []*Node
	for j := range specs {
		a := buildAssertion(specs[j])
		if signAssert && (!signSome || c.Rng.Intn(2) == 0) {
			if _, ok := a.Attr("ID"); ok {
				SignInto(a, signer)
			}
		}
		if enc {
			kids = append(kids, Enc(a, 0))
		} else {
			kids = append(kids, a)
		}
	}
	r := buildResponse(rs, kids...)
	if signResp {
		SignInto(r, signer)
	}
	run := &Run{Cfg: cfg, IDs: ids, Now: now, Cur: cur, Entry: entry, Doc: r}
	if entry == 1 {
		arIRT := pick(c, sp("resolve-9"), sp("resolve-9"), sp("resolve-9"), sp("resolve-9"), sp("resolve-8"), nil, sp("Resolve-9"), sp("RESOLVE-9"))
		ars := RespSpec{Tag: "ArtifactResponse", ID: "ar-" + tag, IRT: arIRT, Issue: sp(fmtMS(N)), Issuer: sp(cfg.IdpEntity), Status: sp(statusSuccess)}
		switch c.Rng.Intn(8) {
		case 0:
			ars.Issue = sp(fmtMS(lat(N-cfg.MaxIssueDelay, true, pick(c, 0, 1, 4), far)))
		case 1:
			ars.Issuer = variant(cfg.IdpEntity, c.Rng.Intn(len(variantNames)))
		case 2:
			ars.Status = variant(statusSuccess, c.Rng.Intn(len(variantNames)))
		}
		ar := buildResponse(ars, r)
		if signAR {
			SignInto(ar, signer)
		}
		run.Doc, run.Rid = soapWrap(ar), "resolve-9"
	}
	return run, key
}

// randomCombinations adds count random cases to group g.
func randomCombinations(c *Ctx, g *Group, count int, panicIsFailure bool) {
	if c.Thorough() {
		count *= 8
	}
	for i := 0; i < count; i++ {
		run, key := randomRun(c, i)
		c.Count("class/random-combination")
		addRun(c, g, run, key, panicIsFailure)
	}
}
