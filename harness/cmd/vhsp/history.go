package main

// Histories: ONE ServiceProvider value used for a sequence of calls. Between calls the application
// edits the configuration in place, copies the value for another tenant, changes the package-level
// tolerances, keeps one list of outstanding ids. Each call is an ordinary case for the model under the
// configuration current at that call: whatever the value remembered from earlier calls must not show.
// (Every Run is also presented twice by Exec.)

import (
	"fmt"
	"sync"
	"time"

	"github.com/crewjam/saml"

	. "verifharness/internal/core"
)

type hist struct {
	c      *Ctx
	g      *Group
	name   string
	cfg    Cfg
	sp     *saml.ServiceProvider
	now    int64
	n      int
	ids    []string // what the caller believes its list holds
	arg    []string // the list it actually hands over, kept across calls when shared
	signer int
}

func newHist(c *Ctx, g *Group, name string, cfg Cfg) *hist {
	return &hist{c: c, g: g, name: name, cfg: cfg, sp: cfg.SP(), now: baseNow, ids: []string{"req-1"}}
}

// call presents one message; mut edits the otherwise valid specs (built for the CURRENT configuration).
func (h *hist) call(step string, mut func(rs *RespSpec, as *AssertSpec, run *Run)) Obs {
	h.n++
	N := h.now / ms * ms
	rs, as := validSpecs(h.cfg, N, fmt.Sprintf("%s%d", h.name, h.n))
	run := &Run{Cfg: h.cfg, IDs: append([]string{}, h.ids...), IDsArg: h.arg, Now: h.now, Cur: h.cfg.AcsURL, SPObj: h.sp}
	if mut != nil {
		mut(&rs, &as, run)
	}
	a := buildAssertion(as)
	r := buildResponse(rs, a)
	if h.n%2 == 0 {
		SignInto(r, h.signer)
	} else {
		SignInto(a, h.signer)
		r = buildResponse(rs, a)
	}
	run.Doc = r
	h.c.Count("class/history")
	h.c.Count("history/" + h.name)
	return addRun(h.c, h.g, run, map[string]string{"class": "history", "history": h.name, "step": fmt.Sprintf("%02d-%s", h.n, step)}, false)
}

// fork copies the ServiceProvider BY VALUE (the multi-tenant pattern) into a new history that shares nothing else.
func (h *hist) fork(name string) *hist {
	q := *h.sp
	return &hist{c: h.c, g: h.g, name: name, cfg: h.cfg, sp: &q, now: h.now, n: h.n, ids: append([]string{}, h.ids...), signer: h.signer}
}

func spHistories(c *Ctx, g *Group) {
	const otherAcs = "https://sp.example.com/tenant-b/saml/acs"
	const otherMeta = "https://sp.example.com/tenant-b/saml/metadata"
	const thirdAcs = "https://sp.example.com/tenant-c/saml/acs"

	// --- addressing: ACS URL, metadata URL / entity ID, edited in place and on copies ---
	{
		h := newHist(c, g, "addr", defaultCfg())
		oldAcs, oldMeta := h.cfg.AcsURL, h.cfg.MetadataURL
		h.call("first-valid", nil)
		h.call("second-valid", nil)
		h.cfg.AcsURL, h.sp.AcsURL = otherAcs, mustURL(otherAcs)
		h.call("acs-edited-addressed-to-new", nil)
		h.call("acs-edited-addressed-to-old", func(rs *RespSpec, as *AssertSpec, run *Run) {
			rs.Dest, as.Confs[0].Recipient = sp(oldAcs), sp(oldAcs)
		})
		h.call("acs-edited-recipient-old-only", func(rs *RespSpec, as *AssertSpec, run *Run) { as.Confs[0].Recipient = sp(oldAcs) })
		h.call("acs-edited-destination-old-only", func(rs *RespSpec, as *AssertSpec, run *Run) { rs.Dest = sp(oldAcs) })
		h.cfg.MetadataURL, h.sp.MetadataURL = otherMeta, mustURL(otherMeta)
		h.call("metadata-url-edited-audience-new", nil)
		h.call("metadata-url-edited-audience-old", func(rs *RespSpec, as *AssertSpec, run *Run) { as.Auds = []string{oldMeta} })
		q := h.fork("addr-copy")
		q.cfg.AcsURL, q.sp.AcsURL = thirdAcs, mustURL(thirdAcs)
		q.cfg.MetadataURL, q.sp.MetadataURL = oldMeta, mustURL(oldMeta)
		q.call("copy-own-urls", nil)
		q.call("copy-addressed-to-original", func(rs *RespSpec, as *AssertSpec, run *Run) {
			rs.Dest, as.Confs[0].Recipient, as.Auds = sp(otherAcs), sp(otherAcs), []string{otherMeta}
		})
		q.call("copy-audience-of-original", func(rs *RespSpec, as *AssertSpec, run *Run) { as.Auds = []string{otherMeta} })
		h.call("original-after-copy", nil)
		h.call("original-addressed-to-copy", func(rs *RespSpec, as *AssertSpec, run *Run) {
			rs.Dest, as.Confs[0].Recipient, as.Auds = sp(thirdAcs), sp(thirdAcs), []string{oldMeta}
		})
		h.cfg.SpEntity, h.sp.EntityID = "urn:example:sp-p", "urn:example:sp-p"
		h.call("entity-id-set-audience-entity", nil)
		h.call("entity-id-set-audience-metadata-url", func(rs *RespSpec, as *AssertSpec, run *Run) { as.Auds = []string{otherMeta} })
		h.cfg.SpEntity, h.sp.EntityID = "", ""
		h.call("entity-id-cleared-audience-metadata-url", nil)
		h.call("entity-id-cleared-audience-entity", func(rs *RespSpec, as *AssertSpec, run *Run) { as.Auds = []string{"urn:example:sp-p"} })
		// the IdP's entity ID edited in place
		h.cfg.IdpEntity, h.sp.IDPMetadata.EntityID = "https://idp2.example.com/metadata", "https://idp2.example.com/metadata"
		h.call("idp-entity-edited-new-issuer", nil)
		h.call("idp-entity-edited-old-issuer", func(rs *RespSpec, as *AssertSpec, run *Run) {
			rs.Issuer, as.Issuer = sp(defaultCfg().IdpEntity), sp(defaultCfg().IdpEntity)
		})
	}

	// --- tolerances: the package-level settings change between calls on one value ---
	for hi, seq := range [][][2]int64{
		{{int64(90 * time.Second), int64(180 * time.Second)}, {int64(time.Second), int64(time.Second)}, {int64(time.Hour), int64(2 * time.Hour)}, {0, 0}},
		{{0, 0}, {int64(time.Hour), int64(time.Hour)}, {int64(5 * time.Second), int64(7 * time.Second)}},
	} {
		h := newHist(c, g, fmt.Sprintf("tol%d", hi), defaultCfg())
		far := int64(10 * time.Hour)
		for _, tl := range seq {
			h.cfg.MaxIssueDelay, h.cfg.MaxClockSkew = tl[0], tl[1]
			N := h.now / ms * ms
			for k := 0; k < 2; k++ { // just outside, just inside
				k := k
				tag := fmt.Sprintf("delay=%d,skew=%d,k=%d", tl[0], tl[1], k)
				h.call("resp-issue-"+tag, func(rs *RespSpec, as *AssertSpec, run *Run) {
					rs.Issue = sp(fmtMS(lat(N-h.cfg.MaxIssueDelay, true, k, far)))
				})
				h.call("assert-issue-"+tag, func(rs *RespSpec, as *AssertSpec, run *Run) {
					as.Issue = fmtMS(lat(N-h.cfg.MaxIssueDelay, true, k, far))
				})
				h.call("not-before-"+tag, func(rs *RespSpec, as *AssertSpec, run *Run) {
					as.NB = sp(fmtMS(lat(N+h.cfg.MaxClockSkew, false, k, far)))
				})
				h.call("not-on-or-after-"+tag, func(rs *RespSpec, as *AssertSpec, run *Run) {
					as.NOA = sp(fmtMS(lat(N-h.cfg.MaxClockSkew, true, k, far)))
				})
				h.call("conf-not-on-or-after-"+tag, func(rs *RespSpec, as *AssertSpec, run *Run) {
					as.Confs[0].NOA = sp(fmtMS(lat(N-h.cfg.MaxClockSkew, true, k, far)))
				})
			}
			if hi == 0 {
				q := h.fork(fmt.Sprintf("tol%d-copy", hi))
				q.call("copy-valid", nil)
			}
		}
	}

	// --- outstanding requests: IdP-initiated mode toggled in place and on copies; one id list kept across calls ---
	for _, first := range []bool{true, false} {
		cfg := defaultCfg()
		cfg.AllowIdpInit = first
		h := newHist(c, g, fmt.Sprintf("reqid-%v", first), cfg)
		stale := func(rs *RespSpec, as *AssertSpec, run *Run) { rs.IRT = sp("req-0-not-outstanding") }
		absent := func(rs *RespSpec, as *AssertSpec, run *Run) { rs.IRT = nil }
		h.call("first-valid", nil)
		h.call("first-stale-response-id", stale)
		h.call("first-absent-response-id", absent)
		q := h.fork(h.name + "-copy")
		q.cfg.AllowIdpInit, q.sp.AllowIDPInitiated = !first, !first
		q.call("copy-toggled-valid", nil)
		q.call("copy-toggled-stale-response-id", stale)
		q.call("copy-toggled-absent-response-id", absent)
		h.call("original-stale-response-id", stale)
		h.cfg.AllowIdpInit, h.sp.AllowIDPInitiated = !first, !first
		h.call("toggled-in-place-stale-response-id", stale)
		h.call("toggled-in-place-absent-response-id", absent)
		h.call("toggled-in-place-absent-everywhere", func(rs *RespSpec, as *AssertSpec, run *Run) { rs.IRT, as.Confs[0].IRT = nil, nil })
	}
	{
		const a, b = "id-7f3a9c0e1b", "id-55aa55aa55"
		for li, list := range [][]string{{a, b, a}, {b, a, a, b}, {a, a}} {
			h := newHist(c, g, fmt.Sprintf("idlist%d", li), defaultCfg())
			h.ids = append([]string{}, list...)
			h.arg = append([]string{}, list...) // the one slice the caller reuses
			use := func(id *string) func(rs *RespSpec, as *AssertSpec, run *Run) {
				return func(rs *RespSpec, as *AssertSpec, run *Run) { rs.IRT, as.Confs[0].IRT = id, id }
			}
			h.call("listed-a", use(sp(a)))
			h.call("absent-after-first-call", use(nil))
			h.call("empty-after-first-call", use(sp("")))
			h.call("listed-b", use(sp(b)))
			h.call("absent-response-id-only", func(rs *RespSpec, as *AssertSpec, run *Run) { rs.IRT, as.Confs[0].IRT = nil, sp(a) })
			h.call("unlisted", use(sp("id-0000000000")))
		}
	}

	// --- encryption / signing keys of the SP itself replaced in place are C13's business; here: the IdP's
	// keys (C01 has the full rotation; this is the copy-for-another-IdP pattern) ---
	{
		cfg := defaultCfg()
		cfg.Kds = []KD{{"signing", []int{0}}}
		h := newHist(c, g, "idpkeys", cfg)
		h.call("first-valid", nil)
		q := h.fork("idpkeys-copy")
		q.cfg.Kds = []KD{{"signing", []int{1}}}
		q.cfg.IdpEntity = "https://idp-b.example.com/metadata"
		q.sp.IDPMetadata = q.cfg.SP().IDPMetadata // the copy is pointed at another IdP's metadata
		q.call("copy-other-idp-signed-by-first", nil)
		q.signer = 1
		q.call("copy-other-idp-signed-by-its-idp", nil)
		q.call("copy-other-idp-again", nil)
		h.call("original-still-first-idp", nil)
	}
}

// spConcurrent: one ServiceProvider value shared by goroutines that parse different messages at the same
// time (a web server does exactly this). Every genuine message must come back as ITS OWN assertion and the
// attacker's unsigned messages must be refused, whatever else is being parsed at that moment.
func spConcurrent(c *Ctx) {
	g := c.Group("spconc", nil, "bool", "check_bools")
	cfg := defaultCfg()
	now := baseNow
	const workers, rounds = 8, 250
	type msg struct {
		bytes []byte
		user  string
		good  bool
	}
	var msgs [workers][2]msg
	for w := 0; w < workers; w++ {
		rs, as := validSpecs(cfg, now, fmt.Sprintf("conc%d", w))
		as.NameID = fmt.Sprintf("user-%d", w)
		a := buildAssertion(as)
		SignInto(a, 0)
		msgs[w][0] = msg{[]byte(buildResponse(rs, a).Render()), as.NameID, true}
		rs2, as2 := validSpecs(cfg, now, fmt.Sprintf("evil%d", w))
		as2.NameID = "mallory-as-admin"
		msgs[w][1] = msg{[]byte(buildResponse(rs2, buildAssertion(as2)).Render()), as2.NameID, false}
	}
	var crossed, refused, admitted, panics int64
	var first string
	var mu sync.Mutex
	note := func(cnt *int64, s string) {
		mu.Lock()
		*cnt++
		if first == "" {
			first = s
		}
		mu.Unlock()
	}
	withGlobals(cfg, now, func() {
		spv := cfg.SP()
		cur := mustURL(cfg.AcsURL)
		var wg sync.WaitGroup
		for w := 0; w < workers; w++ {
			w := w
			wg.Add(1)
			go func() {
				defer wg.Done()
				for i := 0; i < rounds; i++ {
					m := msgs[w][i%2]
					func() {
						defer func() {
							if p := recover(); p != nil {
								note(&panics, fmt.Sprint("panic: ", p))
							}
						}()
						a, err := spv.ParseXMLResponse(m.bytes, []string{"req-1"}, cur)
						switch {
						case m.good && err != nil:
							note(&refused, "a genuine message was refused while others were being parsed")
						case m.good && (a.Subject == nil || a.Subject.NameID == nil || a.Subject.NameID.Value != m.user):
							got := "?"
							if a.Subject != nil && a.Subject.NameID != nil {
								got = a.Subject.NameID.Value
							}
							note(&crossed, fmt.Sprintf("the login of %s came back as %s", m.user, got))
						case !m.good && err == nil:
							note(&admitted, "an unsigned message was accepted while others were being parsed")
						}
					}()
				}
			}()
		}
		wg.Wait()
	})
	ok := crossed+refused+admitted+panics == 0
	c.Count("class/concurrent-parses")
	c.Add(g, &Case{Key: map[string]string{"class": "concurrent-parses", "workers": fmt.Sprint(workers)},
		Input: map[string]any{"workers": workers, "rounds_each": rounds, "messages": "per worker: its own IdP-signed assertion, and an unsigned one naming mallory-as-admin"},
		Obs:   map[string]any{"crossed": crossed, "genuine_refused": refused, "unsigned_admitted": admitted, "panics": panics, "first": first},
		Term:  fmt.Sprint(ok), ImplSpecOK: Bptr(ok), Dedup: "concurrent-parses"})
}
