package main

// C18 — logout responses are valid only if IdP-signed, fresh and addressed to this SP.

import (
	"bytes"
	"compress/flate"
	"encoding/base64"
	"fmt"
	"github.com/crewjam/saml"
	"net/http"
	"net/url"
	"runtime/debug"
	"strings"
	"time"

	. "verifharness/internal/core"
	"verifharness/internal/emit"
)

func init() { Props["C18"] = runC18 }

func deflate(b []byte) []byte {
	var buf bytes.Buffer
	w, _ := flate.NewWriter(&buf, flate.DefaultCompression)
	w.Write(b)
	w.Close()
	return buf.Bytes()
}

type loRun struct {
	cfg     Cfg
	doc     *Node
	docKind int                   // 0 root, 1 bad, 2 no root
	raw     []byte                // XML bytes when docKind != 0
	enc     string                // post | redirect | request-post | request-redirect
	payload string                // overrides the encoded parameter (bad base64, bad deflate, bomb)
	spObj   *saml.ServiceProvider // a long-lived value to call instead of a fresh one built from cfg
	again   string                // set by exec: how a second presentation of the same message differed
}

func (r *loRun) exec() (obs int, lo, hi int64, errText string) {
	obs, lo, hi, errText = r.exec1()
	// second presentation (same long-lived value, or another fresh one in the same process)
	if obs2, _, _, err2 := r.exec1(); obs2 != obs {
		r.again = fmt.Sprintf("first %d (%s), second %d (%s)", obs, errText, obs2, err2)
	}
	return
}

func (r *loRun) exec1() (obs int, lo, hi int64, errText string) {
	spv := r.cfg.SP()
	if r.spObj != nil {
		spv = r.spObj
	}
	xml := r.raw
	if r.docKind == 0 {
		xml = []byte(r.doc.Render())
	}
	param := r.payload
	if param == "" {
		if strings.HasSuffix(r.enc, "redirect") {
			param = base64.StdEncoding.EncodeToString(deflate(xml))
		} else {
			param = base64.StdEncoding.EncodeToString(xml)
		}
	}
	withGlobals(r.cfg, 0, func() {
		defer func() {
			if p := recover(); p != nil {
				obs, errText = 2, fmt.Sprint(p)
			}
		}()
		lo = time.Now().UnixNano()
		var err error
		switch r.enc {
		case "post":
			err = spv.ValidateLogoutResponseForm(param)
		case "redirect":
			err = spv.ValidateLogoutResponseRedirect(param)
		case "request-post":
			form := url.Values{"SAMLResponse": {param}}
			req, _ := http.NewRequest("POST", r.cfg.SloURL, strings.NewReader(form.Encode()))
			req.Header.Set("Content-Type", "application/x-www-form-urlencoded")
			err = spv.ValidateLogoutResponseRequest(req)
		case "request-redirect":
			req, _ := http.NewRequest("GET", r.cfg.SloURL+"?SAMLResponse="+url.QueryEscape(param), nil)
			err = spv.ValidateLogoutResponseRequest(req)
		}
		hi = time.Now().UnixNano()
		if err != nil {
			obs, errText = 1, err.Error()
		}
	})
	return
}

func runC18(c *Ctx) {
	theCtx = c
	g := c.Group("c18", spImports, "locase", "check_c18")
	g.Shard = 100
	n := 0
	encs := []string{"post", "redirect", "request-post", "request-redirect"}
	add := func(r *loRun, key map[string]string) {
		obs, lo, hi, errText := r.exec()
		key["encoding"] = r.enc
		docT := "DBad"
		switch r.docKind {
		case 0:
			docT = "(DRoot " + r.doc.Coq() + ")"
		case 2:
			docT = "DNoRoot"
		}
		term := fmt.Sprintf("{| lc_cfg := %s; lc_lo := %s; lc_hi := %s; lc_doc := %s; lc_obs := %d |}",
			c.Intern("spcfg", r.cfg.Coq()), emit.Z(lo), emit.Z(hi), docT, obs)
		xml := string(r.raw)
		if r.docKind == 0 {
			xml = r.doc.Render()
		}
		cs := &Case{Key: key, Input: map[string]any{"cfg": r.cfg, "encoding": r.enc, "document": xml, "payload_override": r.payload != ""},
			Obs: map[string]any{"result": []string{"valid", "error", "panic"}[obs], "err": errText}, Term: term, Dedup: fmt.Sprint(key)}
		if obs == 2 {
			cs.ImplSpecOK = Bptr(false)
			cs.Note = "panic: " + errText
		}
		if r.again != "" {
			cs.ImplSpecOK = Bptr(false)
			cs.Note = "the same message presented a second time was decided differently: " + r.again
		}
		c.Count("encoding/" + r.enc)
		c.Count("result/" + []string{"valid", "error", "panic"}[obs])
		for k, v := range key {
			if k == "class" || k == "attack" {
				c.Count(k + "/" + v)
			}
		}
		c.Add(g, cs)
	}
	mkSpec := func(cfg Cfg, delta time.Duration) RespSpec {
		n++
		issue := time.Now().Add(-time.Duration(cfg.MaxIssueDelay)+delta).UnixNano() / ms * ms
		return RespSpec{Tag: "LogoutResponse", ID: fmt.Sprintf("lo-%d", n), IRT: sp("logout-req-1"), Issue: sp(fmtMS(issue)),
			Dest: sp(cfg.SloURL), Issuer: sp(cfg.IdpEntity), Status: sp(statusSuccess)}
	}
	fresh := time.Minute
	cfg := defaultCfg()

	// field lattice on genuinely signed responses, both encodings
	fields := []string{"destination", "issuer", "status"}
	for fi, f := range fields {
		for k := range variantNames {
			for ei, enc := range encs {
				if !c.Thorough() && ei != (fi+k)%4 && k != 0 {
					continue
				}
				rs := mkSpec(cfg, fresh)
				switch f {
				case "destination":
					rs.Dest = variant(cfg.SloURL, k)
				case "issuer":
					rs.Issuer = variant(cfg.IdpEntity, k)
				case "status":
					rs.Status = variant(statusSuccess, k)
					if k == 1 {
						rs.Status = sp("urn:oasis:names:tc:SAML:2.0:status:Requester")
					}
				}
				r := buildResponse(rs)
				SignInto(r, 0)
				add(&loRun{cfg: cfg, doc: r, enc: enc}, map[string]string{"class": "field", "field": f, "value": variantNames[k]})
			}
		}
	}
	// Destination must be the SLO URL, not the ACS URL
	{
		rs := mkSpec(cfg, fresh)
		rs.Dest = sp(cfg.AcsURL)
		r := buildResponse(rs)
		SignInto(r, 0)
		add(&loRun{cfg: cfg, doc: r, enc: "post"}, map[string]string{"class": "field", "field": "destination", "value": "acs-url"})
	}
	// freshness around the limit (the call reads the wall clock: +-1.5 s and +-1 min)
	for _, delay := range []int64{int64(90 * time.Second), int64(5 * time.Second), 0} {
		cfg := defaultCfg()
		cfg.MaxIssueDelay = delay
		for _, d := range []time.Duration{-time.Minute, -1500 * time.Millisecond, 1500 * time.Millisecond, time.Minute, time.Hour} {
			for _, enc := range encs[:2] {
				rs := mkSpec(cfg, d)
				r := buildResponse(rs)
				SignInto(r, 0)
				add(&loRun{cfg: cfg, doc: r, enc: enc}, map[string]string{"class": "freshness", "delta": d.String(), "delay": fmt.Sprint(delay)})
			}
		}
	}
	// lexical forms of IssueInstant around the limit: zone-less (UTC whatever the process zone is), offsets
	for _, d := range []time.Duration{-time.Minute, -1500 * time.Millisecond, 1500 * time.Millisecond, time.Minute} {
		for fi, layout := range []string{"2006-01-02T15:04:05.000", "2006-01-02T15:04:05", "2006-01-02T15:04:05.000Z07:00", "2006-01-02T15:04:05.999999999Z07:00"} {
			for _, enc := range encs[:2] {
				rs := mkSpec(cfg, d)
				t0 := time.Now().Add(-time.Duration(cfg.MaxIssueDelay) + d)
				if fi >= 2 {
					t0 = t0.In(time.FixedZone("", []int{-8 * 3600, 9*3600 + 1800}[fi-2]))
				} else {
					t0 = t0.UTC()
				}
				rs.Issue = sp(t0.Format(layout))
				r := buildResponse(rs)
				SignInto(r, 0)
				add(&loRun{cfg: cfg, doc: r, enc: enc}, map[string]string{"class": "freshness-lexical", "delta": d.String(), "layout": layout})
			}
		}
	}
	{ // IssueInstant absent / empty / malformed
		for _, v := range []*string{nil, sp(""), sp("yesterday")} {
			rs := mkSpec(cfg, fresh)
			rs.Issue = v
			r := buildResponse(rs)
			SignInto(r, 0)
			add(&loRun{cfg: cfg, doc: r, enc: "post"}, map[string]string{"class": "freshness", "delta": "absent-or-malformed"})
		}
	}
	// transformations of genuinely signed responses
	type att struct {
		name string
		f    func(r *Node) *Node
	}
	atts := []att{
		{"none", func(r *Node) *Node { return r }},
		{"signature-removed", func(r *Node) *Node { r.Remove(firstSig(r)); return r }},
		{"signature-into-child", func(r *Node) *Node {
			s := firstSig(r)
			r.Remove(s)
			r.InsertAt(1, E("x", "Holder", nil, s))
			return r
		}},
		{"signature-duplicated", func(r *Node) *Node { r.InsertAt(1, firstSig(r).Clone()); return r }},
		{"wrapped-in-unsigned-response", func(r *Node) *Node {
			rs := mkSpec(cfg, fresh)
			return buildResponse(rs, E("samlp", "Extensions", nil, r))
		}},
		{"signature-copied-to-outer", func(r *Node) *Node {
			rs := mkSpec(cfg, fresh)
			id, _ := r.Attr("ID")
			rs.ID = id
			o := buildResponse(rs, E("samlp", "Extensions", nil, r))
			o.InsertAt(1, firstSig(r).Clone())
			return o
		}},
		{"resigned-by-untrusted-key", func(r *Node) *Node { r.Remove(firstSig(r)); SignInto(r, 9); return r }},
		{"resigned-untrusted-claims-idp-cert", func(r *Node) *Node {
			r.Remove(firstSig(r))
			s := SignInto(r, 9)
			s.SetKeyInfo(kiCert, 0)
			return r
		}},
		{"signed-by-encryption-use-key", func(r *Node) *Node { r.Remove(firstSig(r)); SignInto(r, 2); return r }},
		{"status-edited-after-signing", func(r *Node) *Node {
			r.Child("samlp", "Status").Child("samlp", "StatusCode").SetAttr("Value", statusSuccess+"x")
			return r
		}},
		{"destination-edited-after-signing", func(r *Node) *Node { r.SetAttr("Destination", cfg.SloURL); return r }},
		{"id-edited-after-signing", func(r *Node) *Node { r.SetAttr("ID", "other"); return r }},
		{"comment-added", func(r *Node) *Node { r.InsertAt(0, C("c")); return r }},
		{"keyinfo-removed", func(r *Node) *Node { firstSig(r).SetKeyInfo(kiNone, 0); return r }},
		{"keyinfo-keyvalue-only", func(r *Node) *Node { firstSig(r).SetKeyInfo(kiEmpty, 0); return r }},
		{"keyinfo-keyvalue-only-2", func(r *Node) *Node { firstSig(r).SetKeyInfo(kiEmpty, 0); return r }},
		{"keyinfo-keyvalue-only-3", func(r *Node) *Node { firstSig(r).SetKeyInfo(kiEmpty, 0); return r }},
		{"keyinfo-extra-certificates", func(r *Node) *Node { firstSig(r).SetKeyInfo(kiCert, 0, 9, 1); return r }},
		{"keyinfo-untrusted", func(r *Node) *Node { firstSig(r).SetKeyInfo(kiCert, 9); return r }},
		{"root-is-logout-request", func(r *Node) *Node { r.Tag = "LogoutRequest"; return r }},
		{"root-in-foreign-namespace", func(r *Node) *Node { r.Prefix = "x"; return r }},
	}
	for _, a := range atts {
		for ei, enc := range encs {
			if !c.Thorough() && ei > 1 && a.name != "none" && a.name != "signature-removed" {
				continue
			}
			rs := mkSpec(cfg, fresh)
			if a.name == "destination-edited-after-signing" {
				rs.Dest = sp("https://evil.example.net/slo")
			}
			r := buildResponse(rs)
			SignInto(r, 0)
			add(&loRun{cfg: cfg, doc: a.f(r), enc: enc}, map[string]string{"class": "attack", "attack": a.name})
		}
	}
	// trust configurations
	for _, tr := range c01Trusts() {
		cfg := defaultCfg()
		tr.set(&cfg)
		for _, signer := range []int{0, 1, 2, 9} {
			rs := mkSpec(cfg, fresh)
			r := buildResponse(rs)
			SignInto(r, signer)
			add(&loRun{cfg: cfg, doc: r, enc: "post"}, map[string]string{"class": "trust", "trust": tr.name, "signer": fmt.Sprint(signer)})
		}
	}
	// framings and documents that are not a response at all
	raws := []struct {
		name string
		raw  string
		kind int
	}{{"empty", "", 1}, {"comment-only", "<!-- c -->", 2}, {"garbage", "not xml", 1}, {"truncated", "<samlp:LogoutResponse", 1}, {"mismatched", "<a><b></a></b>", 1}}
	for _, rw := range raws {
		for _, enc := range encs {
			add(&loRun{cfg: cfg, docKind: rw.kind, raw: []byte(rw.raw), enc: enc}, map[string]string{"class": "raw", "raw": rw.name})
		}
	}
	for _, enc := range encs {
		add(&loRun{cfg: cfg, docKind: 1, enc: enc, payload: "!!!not-base64!!!"}, map[string]string{"class": "framing", "framing": "bad-base64"})
	}
	add(&loRun{cfg: cfg, docKind: 1, enc: "redirect", payload: base64.StdEncoding.EncodeToString([]byte("not deflate data"))}, map[string]string{"class": "framing", "framing": "bad-deflate"})
	{
		rs := mkSpec(cfg, fresh)
		r := buildResponse(rs)
		SignInto(r, 0)
		full := deflate([]byte(r.Render()))
		add(&loRun{cfg: cfg, docKind: 1, enc: "redirect", payload: base64.StdEncoding.EncodeToString(full[:len(full)/2])}, map[string]string{"class": "framing", "framing": "truncated-deflate"})
		bomb := deflate(bytes.Repeat([]byte{'A'}, 11*1024*1024))
		// no collection between the oversized message and the ones after it: whatever the library recycles
		// (sync.Pool is emptied by the collector) is then really handed to the next message
		gc := debug.SetGCPercent(-1)
		defer debug.SetGCPercent(gc)
		for i := 0; i < 4; i++ { // several: a budget that leaks from message to message fills up slowly
			add(&loRun{cfg: cfg, docKind: 1, enc: []string{"redirect", "request-redirect"}[i%2], payload: base64.StdEncoding.EncodeToString(bomb)},
				map[string]string{"class": "framing", "framing": "bomb-11MiB", "nth": fmt.Sprint(i)})
		}
		// a refused oversized message leaves no trace: the bound is per message
		for _, enc := range encs {
			rs := mkSpec(cfg, fresh)
			r := buildResponse(rs)
			SignInto(r, 0)
			add(&loRun{cfg: cfg, doc: r, enc: enc}, map[string]string{"class": "after-bomb", "attack": "none"})
		}
	}
	// large but legal messages: the inflate bound is on what ONE message inflates to; the same bytes must be
	// decided alike in both encodings (decided on the Go side: documents of this size are not Coq terms)
	{
		gb := c.Group("c18big", nil, "bool", "check_bools")
		for _, mib := range []float64{0.5, 2.5, 6} {
			rs := mkSpec(cfg, fresh)
			filler := strings.Repeat("0123456789abcdef", int(mib*1024*1024/16))
			r := buildResponse(rs, E("samlp", "Extensions", nil, E("x", "Blob", nil, T(filler))))
			SignInto(r, 0)
			verdict := map[string]int{}
			for _, enc := range encs[:2] {
				lr := &loRun{cfg: cfg, doc: r, enc: enc}
				obs, _, _, _ := lr.exec()
				verdict[enc] = obs
			}
			ok := verdict["post"] == 0 && verdict["redirect"] == 0
			c.Count("class/large-legal-message")
			c.Add(gb, &Case{Key: map[string]string{"class": "large-legal-message", "MiB": fmt.Sprint(mib)},
				Input: map[string]any{"inflated_size_MiB": mib, "message": "genuinely signed, fresh, addressed LogoutResponse with a large Extensions text"},
				Obs:   map[string]any{"post": []string{"valid", "error", "panic"}[verdict["post"]], "redirect": []string{"valid", "error", "panic"}[verdict["redirect"]]},
				Term:  fmt.Sprint(ok), ImplSpecOK: Bptr(ok), Dedup: fmt.Sprint(mib)})
		}
	}
	// one long-lived ServiceProvider value: the IdP's keys rotated in place, its metadata refreshed, the
	// logout URL and the IdP entity ID edited in place, the value copied for another IdP
	for ei, enc := range encs {
		if !c.Thorough() && ei > 1 {
			continue
		}
		cfg := defaultCfg()
		cfg.Kds = []KD{{"signing", []int{0}}}
		spObj := cfg.SP()
		step := func(signer int, what string, mut func(rs *RespSpec)) {
			rs := mkSpec(cfg, fresh)
			if mut != nil {
				mut(&rs)
			}
			r := buildResponse(rs)
			SignInto(r, signer)
			add(&loRun{cfg: cfg, doc: r, enc: enc, spObj: spObj}, map[string]string{"class": "long-lived-sp", "step": what, "signer": fmt.Sprint(signer)})
		}
		setKeys := func(certs ...int) {
			cfg.Kds = []KD{{"signing", certs}}
			kd := &spObj.IDPMetadata.IDPSSODescriptors[0].KeyDescriptors[0]
			kd.KeyInfo.X509Data.X509Certificates = nil
			for _, x := range certs {
				kd.KeyInfo.X509Data.X509Certificates = append(kd.KeyInfo.X509Data.X509Certificates, saml.X509Certificate{Data: certB64(x)})
			}
		}
		step(0, "initial-key", nil)
		step(1, "other-key", nil)
		setKeys(1)
		step(0, "withdrawn-key", nil)
		step(1, "new-key", nil)
		setKeys(0, 1)
		step(0, "both-keys", nil)
		freshMD := *spObj.IDPMetadata
		freshMD.IDPSSODescriptors = []saml.IDPSSODescriptor{{}}
		freshMD.IDPSSODescriptors[0].KeyDescriptors = []saml.KeyDescriptor{{Use: "signing"}}
		spObj.IDPMetadata = &freshMD
		setKeys(0)
		step(1, "after-refresh-withdrawn-key", nil)
		step(0, "after-refresh-key", nil)
		oldSlo := cfg.SloURL
		cfg.SloURL = "https://sp.example.com/tenant-b/saml/slo"
		spObj.SloURL = mustURL(cfg.SloURL)
		step(0, "slo-url-edited-new", nil)
		step(0, "slo-url-edited-old", func(rs *RespSpec) { rs.Dest = sp(oldSlo) })
		oldIdp := cfg.IdpEntity
		cfg.IdpEntity = "https://idp2.example.com/metadata"
		spObj.IDPMetadata.EntityID = cfg.IdpEntity
		step(0, "idp-entity-edited-new", nil)
		step(0, "idp-entity-edited-old", func(rs *RespSpec) { rs.Issuer = sp(oldIdp) })
		// copy by value, pointed at another IdP
		q := *spObj
		orig, origCfg := spObj, cfg
		cfg.Kds = []KD{{"signing", []int{1}}}
		cfg.IdpEntity = "https://idp-b.example.com/metadata"
		q.IDPMetadata = cfg.SP().IDPMetadata
		spObj = &q
		step(0, "copy-other-idp-signed-by-first", nil)
		step(1, "copy-other-idp-signed-by-its-idp", nil)
		spObj, cfg = orig, origCfg
		step(0, "original-after-copy", nil)
		step(1, "original-after-copy-other-key", nil)
	}
}
