package main

// C18 — logout responses are valid only if IdP-signed, fresh and addressed to this SP.

import (
	"bytes"
	"compress/flate"
	"encoding/base64"
	"fmt"
	"net/http"
	"net/url"
	"strings"
	"time"

	. "verifharness/internal/core"
	"verifharness/internal/emit"
)

func init() { Props["C18"] = runC18 }

func deflate(b []byte) []byte {
	var buf bytes.Buffer
	w, _ := flate.NewWriter(&buf, flate.DefaultCompression)
	w.Write(b)
	w.Close()
	return buf.Bytes()
}

type loRun struct {
	cfg     Cfg
	doc     *Node
	docKind int    // 0 root, 1 bad, 2 no root
	raw     []byte // XML bytes when docKind != 0
	enc     string // post | redirect | request-post | request-redirect
	payload string // overrides the encoded parameter (bad base64, bad deflate, bomb)
}

func (r *loRun) exec() (obs int, lo, hi int64, errText string) {
	spv := r.cfg.SP()
	xml := r.raw
	if r.docKind == 0 {
		xml = []byte(r.doc.Render())
	}
	param := r.payload
	if param == "" {
		if strings.HasSuffix(r.enc, "redirect") {
			param = base64.StdEncoding.EncodeToString(deflate(xml))
		} else {
			param = base64.StdEncoding.EncodeToString(xml)
		}
	}
	withGlobals(r.cfg, 0, func() {
		defer func() {
			if p := recover(); p != nil {
				obs, errText = 2, fmt.Sprint(p)
			}
		}()
		lo = time.Now().UnixNano()
		var err error
		switch r.enc {
		case "post":
			err = spv.ValidateLogoutResponseForm(param)
		case "redirect":
			err = spv.ValidateLogoutResponseRedirect(param)
		case "request-post":
			form := url.Values{"SAMLResponse": {param}}
			req, _ := http.NewRequest("POST", r.cfg.SloURL, strings.NewReader(form.Encode()))
			req.Header.Set("Content-Type", "application/x-www-form-urlencoded")
			err = spv.ValidateLogoutResponseRequest(req)
		case "request-redirect":
			req, _ := http.NewRequest("GET", r.cfg.SloURL+"?SAMLResponse="+url.QueryEscape(param), nil)
			err = spv.ValidateLogoutResponseRequest(req)
		}
		hi = time.Now().UnixNano()
		if err != nil {
			obs, errText = 1, err.Error()
		}
	})
	return
}

func runC18(c *Ctx) {
	theCtx = c
	g := c.Group("c18", spImports, "locase", "check_c18")
	g.Shard = 100
	n := 0
	encs := []string{"post", "redirect", "request-post", "request-redirect"}
	add := func(r *loRun, key map[string]string) {
		obs, lo, hi, errText := r.exec()
		key["encoding"] = r.enc
		docT := "DBad"
		switch r.docKind {
		case 0:
			docT = "(DRoot " + r.doc.Coq() + ")"
		case 2:
			docT = "DNoRoot"
		}
		term := fmt.Sprintf("{| lc_cfg := %s; lc_lo := %s; lc_hi := %s; lc_doc := %s; lc_obs := %d |}",
			c.Intern("spcfg", r.cfg.Coq()), emit.Z(lo), emit.Z(hi), docT, obs)
		xml := string(r.raw)
		if r.docKind == 0 {
			xml = r.doc.Render()
		}
		cs := &Case{Key: key, Input: map[string]any{"cfg": r.cfg, "encoding": r.enc, "document": xml, "payload_override": r.payload != ""},
			Obs: map[string]any{"result": []string{"valid", "error", "panic"}[obs], "err": errText}, Term: term, Dedup: fmt.Sprint(key)}
		if obs == 2 {
			cs.ImplSpecOK = Bptr(false)
			cs.Note = "panic: " + errText
		}
		c.Count("encoding/" + r.enc)
		c.Count("result/" + []string{"valid", "error", "panic"}[obs])
		for k, v := range key {
			if k == "class" || k == "attack" {
				c.Count(k + "/" + v)
			}
		}
		c.Add(g, cs)
	}
	mkSpec := func(cfg Cfg, delta time.Duration) RespSpec {
		n++
		issue := time.Now().Add(-time.Duration(cfg.MaxIssueDelay)+delta).UnixNano() / ms * ms
		return RespSpec{Tag: "LogoutResponse", ID: fmt.Sprintf("lo-%d", n), IRT: sp("logout-req-1"), Issue: sp(fmtMS(issue)),
			Dest: sp(cfg.SloURL), Issuer: sp(cfg.IdpEntity), Status: sp(statusSuccess)}
	}
	fresh := time.Minute
	cfg := defaultCfg()

	// field lattice on genuinely signed responses, both encodings
	fields := []string{"destination", "issuer", "status"}
	for fi, f := range fields {
		for k := range variantNames {
			for ei, enc := range encs {
				if !c.Thorough() && ei != (fi+k)%4 && k != 0 {
					continue
				}
				rs := mkSpec(cfg, fresh)
				switch f {
				case "destination":
					rs.Dest = variant(cfg.SloURL, k)
				case "issuer":
					rs.Issuer = variant(cfg.IdpEntity, k)
				case "status":
					rs.Status = variant(statusSuccess, k)
					if k == 1 {
						rs.Status = sp("urn:oasis:names:tc:SAML:2.0:status:Requester")
					}
				}
				r := buildResponse(rs)
				SignInto(r, 0)
				add(&loRun{cfg: cfg, doc: r, enc: enc}, map[string]string{"class": "field", "field": f, "value": variantNames[k]})
			}
		}
	}
	// Destination must be the SLO URL, not the ACS URL
	{
		rs := mkSpec(cfg, fresh)
		rs.Dest = sp(cfg.AcsURL)
		r := buildResponse(rs)
		SignInto(r, 0)
		add(&loRun{cfg: cfg, doc: r, enc: "post"}, map[string]string{"class": "field", "field": "destination", "value": "acs-url"})
	}
	// freshness around the limit (the call reads the wall clock: +-1.5 s and +-1 min)
	for _, delay := range []int64{int64(90 * time.Second), int64(5 * time.Second), 0} {
		cfg := defaultCfg()
		cfg.MaxIssueDelay = delay
		for _, d := range []time.Duration{-time.Minute, -1500 * time.Millisecond, 1500 * time.Millisecond, time.Minute, time.Hour} {
			for _, enc := range encs[:2] {
				rs := mkSpec(cfg, d)
				r := buildResponse(rs)
				SignInto(r, 0)
				add(&loRun{cfg: cfg, doc: r, enc: enc}, map[string]string{"class": "freshness", "delta": d.String(), "delay": fmt.Sprint(delay)})
			}
		}
	}
	// lexical forms of IssueInstant around the limit: zone-less (UTC whatever the process zone is), offsets
	for _, d := range []time.Duration{-time.Minute, -1500 * time.Millisecond, 1500 * time.Millisecond, time.Minute} {
		for fi, layout := range []string{"2006-01-02T15:04:05.000", "2006-01-02T15:04:05", "2006-01-02T15:04:05.000Z07:00", "2006-01-02T15:04:05.999999999Z07:00"} {
			for _, enc := range encs[:2] {
				rs := mkSpec(cfg, d)
				t0 := time.Now().Add(-time.Duration(cfg.MaxIssueDelay) + d)
				if fi >= 2 {
					t0 = t0.In(time.FixedZone("", []int{-8 * 3600, 9*3600 + 1800}[fi-2]))
				} else {
					t0 = t0.UTC()
				}
				rs.Issue = sp(t0.Format(layout))
				r := buildResponse(rs)
				SignInto(r, 0)
				add(&loRun{cfg: cfg, doc: r, enc: enc}, map[string]string{"class": "freshness-lexical", "delta": d.String(), "layout": layout})
			}
		}
	}
	{ // IssueInstant absent / empty / malformed
		for _, v := range []*string{nil, sp(""), sp("yesterday")} {
			rs := mkSpec(cfg, fresh)
			rs.Issue = v
			r := buildResponse(rs)
			SignInto(r, 0)
			add(&loRun{cfg: cfg, doc: r, enc: "post"}, map[string]string{"class": "freshness", "delta": "absent-or-malformed"})
		}
	}
	// transformations of genuinely signed responses
	type att struct {
		name string
		f    func(r *Node) *Node
	}
	atts := []att{
		{"none", func(r *Node) *Node { return r }},
		{"signature-removed", func(r *Node) *Node { r.Remove(firstSig(r)); return r }},
		{"signature-into-child", func(r *Node) *Node {
			s := firstSig(r)
			r.Remove(s)
			r.InsertAt(1, E("x", "Holder", nil, s))
			return r
		}},
		{"signature-duplicated", func(r *Node) *Node { r.InsertAt(1, firstSig(r).Clone()); return r }},
		{"wrapped-in-unsigned-response", func(r *Node) *Node {
			rs := mkSpec(cfg, fresh)
			return buildResponse(rs, E("samlp", "Extensions", nil, r))
		}},
		{"signature-copied-to-outer", func(r *Node) *Node {
			rs := mkSpec(cfg, fresh)
			id, _ := r.Attr("ID")
			rs.ID = id
			o := buildResponse(rs, E("samlp", "Extensions", nil, r))
			o.InsertAt(1, firstSig(r).Clone())
			return o
		}},
		{"resigned-by-untrusted-key", func(r *Node) *Node { r.Remove(firstSig(r)); SignInto(r, 9); return r }},
		{"resigned-untrusted-claims-idp-cert", func(r *Node) *Node {
			r.Remove(firstSig(r))
			s := SignInto(r, 9)
			s.SetKeyInfo(kiCert, 0)
			return r
		}},
		{"signed-by-encryption-use-key", func(r *Node) *Node { r.Remove(firstSig(r)); SignInto(r, 2); return r }},
		{"status-edited-after-signing", func(r *Node) *Node {
			r.Child("samlp", "Status").Child("samlp", "StatusCode").SetAttr("Value", statusSuccess+"x")
			return r
		}},
		{"destination-edited-after-signing", func(r *Node) *Node { r.SetAttr("Destination", cfg.SloURL); return r }},
		{"id-edited-after-signing", func(r *Node) *Node { r.SetAttr("ID", "other"); return r }},
		{"comment-added", func(r *Node) *Node { r.InsertAt(0, C("c")); return r }},
		{"keyinfo-removed", func(r *Node) *Node { firstSig(r).SetKeyInfo(kiNone, 0); return r }},
		{"keyinfo-keyvalue-only", func(r *Node) *Node { firstSig(r).SetKeyInfo(kiEmpty, 0); return r }},
		{"keyinfo-keyvalue-only-2", func(r *Node) *Node { firstSig(r).SetKeyInfo(kiEmpty, 0); return r }},
		{"keyinfo-keyvalue-only-3", func(r *Node) *Node { firstSig(r).SetKeyInfo(kiEmpty, 0); return r }},
		{"keyinfo-extra-certificates", func(r *Node) *Node { firstSig(r).SetKeyInfo(kiCert, 0, 9, 1); return r }},
		{"keyinfo-untrusted", func(r *Node) *Node { firstSig(r).SetKeyInfo(kiCert, 9); return r }},
		{"root-is-logout-request", func(r *Node) *Node { r.Tag = "LogoutRequest"; return r }},
		{"root-in-foreign-namespace", func(r *Node) *Node { r.Prefix = "x"; return r }},
	}
	for _, a := range atts {
		for ei, enc := range encs {
			if !c.Thorough() && ei > 1 && a.name != "none" && a.name != "signature-removed" {
				continue
			}
			rs := mkSpec(cfg, fresh)
			if a.name == "destination-edited-after-signing" {
				rs.Dest = sp("https://evil.example.net/slo")
			}
			r := buildResponse(rs)
			SignInto(r, 0)
			add(&loRun{cfg: cfg, doc: a.f(r), enc: enc}, map[string]string{"class": "attack", "attack": a.name})
		}
	}
	// trust configurations
	for _, tr := range c01Trusts() {
		cfg := defaultCfg()
		tr.set(&cfg)
		for _, signer := range []int{0, 1, 2, 9} {
			rs := mkSpec(cfg, fresh)
			r := buildResponse(rs)
			SignInto(r, signer)
			add(&loRun{cfg: cfg, doc: r, enc: "post"}, map[string]string{"class": "trust", "trust": tr.name, "signer": fmt.Sprint(signer)})
		}
	}
	// framings and documents that are not a response at all
	raws := []struct {
		name string
		raw  string
		kind int
	}{{"empty", "", 1}, {"comment-only", "<!-- c -->", 2}, {"garbage", "not xml", 1}, {"truncated", "<samlp:LogoutResponse", 1}, {"mismatched", "<a><b></a></b>", 1}}
	for _, rw := range raws {
		for _, enc := range encs {
			add(&loRun{cfg: cfg, docKind: rw.kind, raw: []byte(rw.raw), enc: enc}, map[string]string{"class": "raw", "raw": rw.name})
		}
	}
	for _, enc := range encs {
		add(&loRun{cfg: cfg, docKind: 1, enc: enc, payload: "!!!not-base64!!!"}, map[string]string{"class": "framing", "framing": "bad-base64"})
	}
	add(&loRun{cfg: cfg, docKind: 1, enc: "redirect", payload: base64.StdEncoding.EncodeToString([]byte("not deflate data"))}, map[string]string{"class": "framing", "framing": "bad-deflate"})
	{
		rs := mkSpec(cfg, fresh)
		r := buildResponse(rs)
		SignInto(r, 0)
		full := deflate([]byte(r.Render()))
		add(&loRun{cfg: cfg, docKind: 1, enc: "redirect", payload: base64.StdEncoding.EncodeToString(full[:len(full)/2])}, map[string]string{"class": "framing", "framing": "truncated-deflate"})
		bomb := deflate(bytes.Repeat([]byte{'A'}, 11*1024*1024))
		add(&loRun{cfg: cfg, docKind: 1, enc: "redirect", payload: base64.StdEncoding.EncodeToString(bomb)}, map[string]string{"class": "framing", "framing": "bomb-11MiB"})
	}
}
