// vhsp — correspondence harness for the service provider's response acceptance (C01-C04, C09, C18).
package main

import . "verifharness/internal/core"

func main() { Main() }
