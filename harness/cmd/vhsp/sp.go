package main

// Building ServiceProvider configurations and SAML documents (abstract and
// concrete in parallel), running the real entry points, observing.

import (
	"crypto/sha256"
	"crypto/sha512"
	"encoding/base64"
	"errors"
	"fmt"
	"net/http"
	"net/url"
	"strings"
	"time"

	"github.com/crewjam/saml"

	. "verifharness/internal/core"
	"verifharness/internal/emit"
	"verifharness/internal/fix"
)

type KD struct {
	Use   string
	Certs []int
}

const (
	tMeta = iota
	tPinned
	tFinger
	tBad
)

type Cfg struct {
	IdpEntity, AcsURL, SloURL, SpEntity, MetadataURL string
	Trust                                            int
	Kds                                              []KD
	C                                                int
	AlgOK                                            bool
	AllowIdpInit                                     bool
	CustomReqID, CustomAud                           *bool
	MaxIssueDelay, MaxClockSkew                      int64 // nanoseconds
	// OtherRoleCerts: signing certificates published by roles of the IdP's entity other than
	// IDPSSODescriptor (RoleDescriptor, SPSSODescriptor, AttributeAuthorityDescriptor, ...). They are
	// not trust anchors for SSO responses, so they are NOT part of the abstract configuration.
	OtherRoleCerts []int `json:",omitempty"`
	// CertLayout: how certificate text is laid out in the configuration (as metadata files and PEM
	// bodies have it): 0 plain base64, 1 wrapped at 64 columns with newline + indentation, 2 CRLF and tabs,
	// 3 leading/trailing blank lines. White space is not part of the certificate.
	CertLayout int `json:",omitempty"`
	// FingerSHA512: the configured fingerprint and algorithm are the SHA-512 ones (same abstract configuration)
	FingerSHA512 bool `json:",omitempty"`
}

func layoutCert(b64 string, layout int) string {
	wrap := func(sep string) string {
		var sb strings.Builder
		for i := 0; i < len(b64); i += 64 {
			j := i + 64
			if j > len(b64) {
				j = len(b64)
			}
			sb.WriteString(sep + b64[i:j])
		}
		return sb.String()
	}
	switch layout {
	case 1:
		return wrap("\n        ") + "\n      "
	case 2:
		return wrap("\r\n\t")
	case 3:
		return "\n\n  " + b64 + "  \n\n"
	}
	return b64
}

func defaultCfg() Cfg {
	return Cfg{IdpEntity: "https://idp.example.com/metadata", AcsURL: "https://sp.example.com/saml/acs",
		SloURL: "https://sp.example.com/saml/slo", SpEntity: "", MetadataURL: "https://sp.example.com/saml/metadata",
		Trust: tMeta, Kds: []KD{{Use: "signing", Certs: []int{0}}},
		MaxIssueDelay: int64(90 * time.Second), MaxClockSkew: int64(180 * time.Second)}
}

func optBool(b *bool) string {
	if b == nil {
		return "None"
	}
	return "(Some " + emit.Bool(*b) + ")"
}

func (c Cfg) Coq() string {
	var tr string
	switch c.Trust {
	case tMeta:
		kds := make([]string, len(c.Kds))
		for i, k := range c.Kds {
			cs := make([]string, len(k.Certs))
			for j, x := range k.Certs {
				cs[j] = emit.Z(int64(x))
			}
			kds[i] = fmt.Sprintf("{| kd_use := %s; kd_certs := %s |}", emit.Str(k.Use), emit.List(cs))
		}
		tr = "(TMeta " + emit.List(kds) + ")"
	case tPinned:
		tr = "(TPinned " + emit.Z(int64(c.C)) + ")"
	case tFinger:
		tr = fmt.Sprintf("(TFinger %s %s)", emit.Bool(c.AlgOK), emit.Z(int64(c.C)))
	default:
		tr = "TBad"
	}
	return fmt.Sprintf("{| idp_entity := %s; acs_url := %s; slo_url := %s; sp_entity := %s; metadata_url := %s; trust := %s; allow_idp_init := %s; custom_reqid := %s; custom_aud := %s; max_issue_delay := %s; max_clock_skew := %s |}",
		emit.Str(c.IdpEntity), emit.Str(c.AcsURL), emit.Str(c.SloURL), emit.Str(c.SpEntity), emit.Str(c.MetadataURL), tr,
		emit.Bool(c.AllowIdpInit), optBool(c.CustomReqID), optBool(c.CustomAud), emit.Z(c.MaxIssueDelay), emit.Z(c.MaxClockSkew))
}

func mustURL(s string) url.URL {
	u, err := url.Parse(s)
	if err != nil {
		panic(err)
	}
	if u.String() != s {
		panic("url does not round-trip: " + s)
	}
	return *u
}

func fingerprintOf(c int) string {
	sum := sha256.Sum256(fix.Cert(certNames[c]).Raw)
	parts := make([]string, len(sum))
	for i, b := range sum {
		parts[i] = fmt.Sprintf("%02X", b)
	}
	return strings.Join(parts, ":")
}

func (c Cfg) SP() *saml.ServiceProvider {
	sp := &saml.ServiceProvider{
		Key: fix.RSAKey(spKeyName), Certificate: fix.Cert(spKeyName),
		EntityID: c.SpEntity, MetadataURL: mustURL(c.MetadataURL), AcsURL: mustURL(c.AcsURL), SloURL: mustURL(c.SloURL),
		AllowIDPInitiated: c.AllowIdpInit,
		IDPMetadata:       &saml.EntityDescriptor{EntityID: c.IdpEntity},
	}
	desc := saml.IDPSSODescriptor{}
	kds := c.Kds
	if c.Trust != tMeta {
		kds = []KD{{Use: "signing", Certs: []int{1}}} // present but must be ignored by the other modes
	}
	for _, k := range kds {
		kd := saml.KeyDescriptor{Use: k.Use}
		for _, x := range k.Certs {
			kd.KeyInfo.X509Data.X509Certificates = append(kd.KeyInfo.X509Data.X509Certificates, saml.X509Certificate{Data: layoutCert(certB64(x), c.CertLayout)})
		}
		desc.KeyDescriptors = append(desc.KeyDescriptors, kd)
	}
	sp.IDPMetadata.IDPSSODescriptors = []saml.IDPSSODescriptor{desc}
	for i, x := range c.OtherRoleCerts {
		rd := saml.RoleDescriptor{ProtocolSupportEnumeration: "urn:oasis:names:tc:SAML:2.0:protocol",
			KeyDescriptors: []saml.KeyDescriptor{{Use: "signing", KeyInfo: saml.KeyInfo{X509Data: saml.X509Data{X509Certificates: []saml.X509Certificate{{Data: certB64(x)}}}}}}}
		switch i % 3 {
		case 0:
			sp.IDPMetadata.RoleDescriptors = append(sp.IDPMetadata.RoleDescriptors, rd)
		case 1:
			sp.IDPMetadata.SPSSODescriptors = append(sp.IDPMetadata.SPSSODescriptors, saml.SPSSODescriptor{SSODescriptor: saml.SSODescriptor{RoleDescriptor: rd}})
		case 2:
			sp.IDPMetadata.AttributeAuthorityDescriptors = append(sp.IDPMetadata.AttributeAuthorityDescriptors, saml.AttributeAuthorityDescriptor{RoleDescriptor: rd})
		}
	}
	switch c.Trust {
	case tPinned:
		s := layoutCert(certB64(c.C), c.CertLayout)
		sp.IDPCertificate = &s
	case tFinger:
		fp := fingerprintOf(c.C)
		alg := "http://www.w3.org/2001/04/xmlenc#sha256"
		if c.FingerSHA512 {
			sum := sha512.Sum512(fix.Cert(certNames[c.C]).Raw)
			parts := make([]string, len(sum))
			for i, b := range sum {
				parts[i] = fmt.Sprintf("%02X", b)
			}
			fp, alg = strings.Join(parts, ":"), "http://www.w3.org/2001/04/xmlenc#sha512"
		}
		if !c.AlgOK {
			alg = "http://www.w3.org/2000/09/xmldsig#sha1"
		}
		sp.IDPCertificateFingerprint, sp.IDPCertificateFingerprintAlgorithm = &fp, &alg
	case tBad:
		fp := fingerprintOf(0)
		s := certB64(0)
		sp.IDPCertificateFingerprint, sp.IDPCertificate = &fp, &s
	}
	if c.CustomReqID != nil {
		v := *c.CustomReqID
		sp.ValidateRequestID = func(saml.Response, []string) error {
			if v {
				return nil
			}
			return errors.New("custom request id validator says no")
		}
	}
	if c.CustomAud != nil {
		v := *c.CustomAud
		sp.ValidateAudienceRestriction = func(*saml.Assertion) error {
			if v {
				return nil
			}
			return errors.New("custom audience validator says no")
		}
	}
	return sp
}

// ---- documents ----

type ConfSpec struct {
	NoData    bool
	IRT       *string
	Recipient *string
	NOA       *string
}

type AssertSpec struct {
	ID, Issue         string
	Issuer            *string
	NameID            string
	NoSubject, NoCond bool
	Confs             []ConfSpec
	NB, NOA           *string
	Auds              []string
	AttrVals          []string
}

func sp(s string) *string { return &s }

var confMethodN int

func buildAssertion(s AssertSpec) *Node {
	a := E("saml", "Assertion", A("Version", "2.0", "ID", s.ID, "IssueInstant", s.Issue))
	if s.Issuer != nil {
		a.Kids = append(a.Kids, E("saml", "Issuer", nil, T(*s.Issuer)))
	}
	if !s.NoSubject {
		subj := E("saml", "Subject", nil, E("saml", "NameID", A("Format", "urn:oasis:names:tc:SAML:2.0:nameid-format:transient"), T(s.NameID)))
		for _, c := range s.Confs {
			// The confirmation Method is not part of any decision (the library reads every confirmation
			// alike): it rotates over the methods of the specification, and absent, in all generated
			// documents, so that every check on a confirmation is also exercised on non-bearer ones.
			confMethodN++
			var sc *Node
			switch confMethodN % 7 {
			case 2:
				sc = E("saml", "SubjectConfirmation", A("Method", "urn:oasis:names:tc:SAML:2.0:cm:holder-of-key"))
			case 4:
				sc = E("saml", "SubjectConfirmation", A("Method", "urn:oasis:names:tc:SAML:2.0:cm:sender-vouches"))
			case 6:
				sc = E("saml", "SubjectConfirmation", nil)
			default:
				sc = E("saml", "SubjectConfirmation", A("Method", "urn:oasis:names:tc:SAML:2.0:cm:bearer"))
			}
			if !c.NoData {
				d := E("saml", "SubjectConfirmationData", nil)
				if c.IRT != nil {
					d.SetAttr("InResponseTo", *c.IRT)
				}
				if c.NOA != nil {
					d.SetAttr("NotOnOrAfter", *c.NOA)
				}
				if c.Recipient != nil {
					d.SetAttr("Recipient", *c.Recipient)
				}
				sc.Kids = append(sc.Kids, d)
			}
			subj.Kids = append(subj.Kids, sc)
		}
		a.Kids = append(a.Kids, subj)
	}
	if !s.NoCond {
		cnd := E("saml", "Conditions", nil)
		if s.NB != nil {
			cnd.SetAttr("NotBefore", *s.NB)
		}
		if s.NOA != nil {
			cnd.SetAttr("NotOnOrAfter", *s.NOA)
		}
		for _, au := range s.Auds {
			cnd.Kids = append(cnd.Kids, E("saml", "AudienceRestriction", nil, E("saml", "Audience", nil, T(au))))
		}
		a.Kids = append(a.Kids, cnd)
	}
	a.Kids = append(a.Kids, E("saml", "AuthnStatement", A("AuthnInstant", s.Issue, "SessionIndex", "idx-"+s.ID),
		E("saml", "AuthnContext", nil, E("saml", "AuthnContextClassRef", nil, T("urn:oasis:names:tc:SAML:2.0:ac:classes:PasswordProtectedTransport")))))
	if len(s.AttrVals) > 0 {
		st := E("saml", "AttributeStatement", nil)
		for i, v := range s.AttrVals {
			st.Kids = append(st.Kids, E("saml", "Attribute", A("Name", fmt.Sprintf("attr%d", i), "NameFormat", "urn:oasis:names:tc:SAML:2.0:attrname-format:basic"),
				E("saml", "AttributeValue", nil, T(v))))
		}
		a.Kids = append(a.Kids, st)
	}
	return a
}

type RespSpec struct {
	Tag                      string // Response | ArtifactResponse | LogoutResponse
	ID                       string
	IRT, Issue, Dest, Issuer *string
	Status                   *string
	NoStatusCode             bool
}

const statusSuccess = "urn:oasis:names:tc:SAML:2.0:status:Success"

func buildResponse(s RespSpec, kids ...*Node) *Node {
	tag := s.Tag
	if tag == "" {
		tag = "Response"
	}
	r := E("samlp", tag, A("Version", "2.0", "ID", s.ID))
	if s.IRT != nil {
		r.SetAttr("InResponseTo", *s.IRT)
	}
	if s.Issue != nil {
		r.SetAttr("IssueInstant", *s.Issue)
	}
	if s.Dest != nil {
		r.SetAttr("Destination", *s.Dest)
	}
	if s.Issuer != nil {
		r.Kids = append(r.Kids, E("saml", "Issuer", nil, T(*s.Issuer)))
	}
	if s.Status != nil {
		st := E("samlp", "Status", nil)
		if !s.NoStatusCode {
			st.Kids = append(st.Kids, E("samlp", "StatusCode", A("Value", *s.Status)))
		}
		r.Kids = append(r.Kids, st)
	}
	r.Kids = append(r.Kids, kids...)
	return r
}

func soapWrap(ar *Node) *Node {
	return E("soap", "Envelope", nil, E("soap", "Body", nil, ar))
}

// fmtMS renders an instant given in nanoseconds since the Unix epoch (a whole
// number of milliseconds) in the form the library itself writes.
func fmtMS(ns int64) string {
	return time.Unix(0, ns).UTC().Format("2006-01-02T15:04:05.000Z")
}

// ---- running the implementation ----

type Obs struct {
	Kind     string   `json:"kind"` // accept | reject | panic
	Code     int      `json:"code,omitempty"`
	ID       string   `json:"id,omitempty"`
	NameID   string   `json:"nameid,omitempty"`
	AttrVals []string `json:"attrvals,omitempty"`
	Err      string   `json:"err,omitempty"`
	ShapeOK  bool     `json:"shape_ok"` // C09: error is *InvalidResponseError with the static message, assertion nil iff error
}

func (o Obs) Coq() string {
	switch o.Kind {
	case "accept":
		return fmt.Sprintf("(OAccept %s %s %s)", emit.Str(o.ID), emit.Str(o.NameID), emit.StrList(o.AttrVals))
	case "reject":
		return fmt.Sprintf("(OReject %d)", o.Code)
	}
	return "OPanic"
}

func observe(a *saml.Assertion, err error) Obs {
	if err != nil {
		o := Obs{Kind: "reject", Code: 1, ShapeOK: a == nil}
		var ire *saml.InvalidResponseError
		if errors.As(err, &ire) {
			if ire.Error() != "Authentication failed" {
				o.ShapeOK = false
			}
			if ire.PrivateErr != nil {
				o.Err = ire.PrivateErr.Error()
				var bs saml.ErrBadStatus
				if errors.As(ire.PrivateErr, &bs) {
					o.Code = 2
				}
			}
		} else {
			o.ShapeOK = false
			o.Err = "not an InvalidResponseError: " + err.Error()
		}
		return o
	}
	if a == nil {
		return Obs{Kind: "reject", Code: 1, Err: "nil assertion with nil error", ShapeOK: false}
	}
	o := Obs{Kind: "accept", ID: a.ID, ShapeOK: true, AttrVals: []string{}}
	if a.Subject != nil && a.Subject.NameID != nil {
		o.NameID = a.Subject.NameID.Value
	}
	for _, st := range a.AttributeStatements {
		for _, at := range st.Attributes {
			for _, v := range at.Values {
				o.AttrVals = append(o.AttrVals, v.Value)
			}
		}
	}
	return o
}

type Run struct {
	Cfg Cfg
	IDs []string
	// IDsArg, when set, is the slice actually handed to the library (a caller that keeps ONE list across
	// calls); IDs is what that caller believes it holds. Default: a private copy of IDs per call.
	IDsArg []string
	Now    int64 // ns
	Cur    string
	Entry  int // 0 ParseXMLResponse (+ ParseResponse), 1 ParseXMLArtifactResponse
	Rid    string
	// document: Bytes are what is presented; Doc (root) its abstract form; DocKind 0 root, 1 bad, 2 no root
	Doc     *Node
	DocKind int
	Bytes   []byte
	// SPObj, when set, is the ServiceProvider value to call (instead of a fresh one built from Cfg): for
	// sequences of calls on one long-lived object whose configuration is edited in place between calls
	SPObj *saml.ServiceProvider
	again string // set by Exec: how the second presentation of the same bytes differed ("" = it did not)
}

func withGlobals(c Cfg, now int64, f func()) {
	oldNow, oldDelay, oldSkew, oldLocal := saml.TimeNow, saml.MaxIssueDelay, saml.MaxClockSkew, time.Local
	defer func() {
		saml.TimeNow, saml.MaxIssueDelay, saml.MaxClockSkew, time.Local = oldNow, oldDelay, oldSkew, oldLocal
	}()
	time.Local = time.FixedZone("harness-local", 5*3600+1800) // nothing may depend on the process's zone
	saml.TimeNow = func() time.Time { return time.Unix(0, now).UTC() }
	saml.MaxIssueDelay, saml.MaxClockSkew = time.Duration(c.MaxIssueDelay), time.Duration(c.MaxClockSkew)
	f()
}

func (r *Run) bytes() []byte {
	if r.Bytes != nil {
		return r.Bytes
	}
	return []byte(r.Doc.Render())
}

// Exec runs the entry point; second result reports whether ParseResponse (POST form) agreed with ParseXMLResponse.
func (r *Run) Exec() (o Obs, formAgrees bool) {
	formAgrees = true
	again := ""
	defer func() { r.again = again }()
	spv := r.Cfg.SP()
	if r.SPObj != nil {
		spv = r.SPObj
	}
	cur := mustURL(r.Cur)
	b := r.bytes()
	idsArg := func() []string {
		if r.IDsArg != nil {
			return r.IDsArg
		}
		return append([]string{}, r.IDs...)
	}
	withGlobals(r.Cfg, r.Now, func() {
		func() {
			defer func() {
				if p := recover(); p != nil {
					o = Obs{Kind: "panic", Err: fmt.Sprint(p)}
				}
			}()
			if r.Entry == 0 {
				o = observe(spv.ParseXMLResponse(b, idsArg(), cur))
			} else {
				o = observe(spv.ParseXMLArtifactResponse(b, idsArg(), r.Rid, cur))
			}
		}()
		// second presentation of the same bytes (to the same long-lived value, or to another fresh one in
		// the same process): nothing may have been remembered from the first
		func() {
			var o3 Obs
			defer func() {
				if p := recover(); p != nil {
					o3 = Obs{Kind: "panic", Err: fmt.Sprint(p)}
				}
				if o3.Kind != o.Kind || o3.ID != o.ID || o3.Code != o.Code || o3.NameID != o.NameID {
					again = fmt.Sprintf("first %s/%d/%s, second %s/%d/%s %s", o.Kind, o.Code, o.ID, o3.Kind, o3.Code, o3.ID, o3.Err)
				}
			}()
			spv3 := r.Cfg.SP()
			if r.SPObj != nil {
				spv3 = r.SPObj
			}
			if r.Entry == 0 {
				o3 = observe(spv3.ParseXMLResponse(append([]byte{}, b...), idsArg(), cur))
			} else {
				o3 = observe(spv3.ParseXMLArtifactResponse(append([]byte{}, b...), idsArg(), r.Rid, cur))
			}
		}()
		if r.Entry == 0 {
			func() {
				var o2 Obs
				defer func() {
					if p := recover(); p != nil {
						o2 = Obs{Kind: "panic"}
					}
					if o2.Kind != o.Kind || o2.ID != o.ID || o2.Code != o.Code {
						formAgrees = false
					}
				}()
				req, _ := http.NewRequest("POST", r.Cur, nil)
				req.PostForm = url.Values{"SAMLResponse": {base64.StdEncoding.EncodeToString(b)}}
				req.Form = req.PostForm
				spv2 := r.Cfg.SP()
				if r.SPObj != nil {
					spv2 = r.SPObj
				}
				o2 = observe(spv2.ParseResponse(req, idsArg()))
			}()
		}
	})
	return
}

func (r *Run) CoqDoc() string {
	switch r.DocKind {
	case 1:
		return "DBad"
	case 2:
		return "DNoRoot"
	}
	return "(DRoot " + r.Doc.Coq() + ")"
}

func (r *Run) Term(o Obs) string {
	cfg := r.Cfg.Coq()
	if theCtx != nil {
		cfg = theCtx.Intern("spcfg", cfg)
	}
	return fmt.Sprintf("{| pc_cfg := %s; pc_ids := %s; pc_now := %s; pc_cur := %s; pc_entry := %d; pc_rid := %s; pc_doc := %s; pc_obs := %s |}",
		cfg, emit.StrList(r.IDs), emit.Z(r.Now), emit.Str(r.Cur), r.Entry, emit.Str(r.Rid), r.CoqDoc(), o.Coq())
}

// addRun executes r and records the case in group g.
func addRun(c *Ctx, g *Group, r *Run, key map[string]string, panicIsFailure bool) Obs {
	o, formOK := r.Exec()
	cs := &Case{Key: key, Input: map[string]any{"cfg": r.Cfg, "ids": r.IDs, "now_ns": fmt.Sprint(r.Now), "now": fmtMS(r.Now), "current_url": r.Cur,
		"entry": r.Entry, "artifact_request_id": r.Rid, "document": string(r.bytes())}, Obs: o, Term: r.Term(o)}
	if !formOK {
		cs.ImplSpecOK = Bptr(false)
		cs.Note = "ParseResponse (POST form) and ParseXMLResponse disagree on the same bytes"
	}
	if o.Kind == "panic" && panicIsFailure {
		cs.ImplSpecOK = Bptr(false)
		cs.Note = "panic: " + o.Err
	}
	if r.again != "" {
		cs.ImplSpecOK = Bptr(false)
		cs.Note = "the same bytes presented a second time were decided differently: " + r.again
	}
	if o.Kind != "panic" && !o.ShapeOK {
		cs.ImplSpecOK = Bptr(false)
		cs.Note = "error shape: " + o.Err
	}
	c.Count("outcome/" + o.Kind)
	c.Add(g, cs)
	return o
}

const caseType = "spcase"

var spImports = []string{"TimeModel", "SPModel"}
