package main

// C03 — only assertions addressed to this SP by the configured IdP.

import (
	"fmt"
	"strings"

	. "verifharness/internal/core"
)

func init() { Props["C03"] = runC03 }

var variantNames = []string{"correct", "wrong", "case", "slash", "query", "prefix", "ext", "empty", "absent", "pad-trailing", "pad-leading", "pad-newlines"}

// near-miss variants of a correct value; nil = absent
func variant(v string, k int) *string {
	switch k {
	case 0:
		return sp(v)
	case 1:
		return sp("https://evil.example.net/other")
	case 2:
		if strings.HasPrefix(v, "https://") {
			return sp("HTTPS://" + v[8:])
		}
		return sp(strings.ToUpper(v))
	case 3:
		return sp(v + "/")
	case 4:
		return sp(v + "?x=1")
	case 5:
		return sp(v[:len(v)-1])
	case 6:
		return sp(v + "x")
	case 7:
		return sp("")
	case 9:
		return sp(v + " ")
	case 10:
		return sp(" " + v)
	case 11:
		return sp("\n\t" + v + "\n")
	}
	return nil
}

type c03doc struct {
	rs          RespSpec
	as          AssertSpec
	recips      []*string // one per confirmation
	auds        []string
	signResp    bool
	signAssert  bool
	cur         string
	noStatus    bool
	noStatusCod bool
}

type fieldMut struct {
	name  string
	apply func(d *c03doc, cfg Cfg, k int)
}

func c03Fields() []fieldMut {
	return []fieldMut{
		{"resp_issuer", func(d *c03doc, cfg Cfg, k int) { d.rs.Issuer = variant(cfg.IdpEntity, k) }},
		{"assert_issuer", func(d *c03doc, cfg Cfg, k int) { d.as.Issuer = variant(cfg.IdpEntity, k) }},
		{"recipient", func(d *c03doc, cfg Cfg, k int) { d.recips[len(d.recips)-1] = variant(cfg.AcsURL, k) }},
		{"audience", func(d *c03doc, cfg Cfg, k int) {
			aud := cfg.SpEntity
			if aud == "" {
				aud = cfg.MetadataURL
			}
			if v := variant(aud, k); v != nil {
				d.auds = []string{*v}
			} else {
				d.auds = nil
			}
		}},
		{"destination", func(d *c03doc, cfg Cfg, k int) { d.rs.Dest = variant(cfg.AcsURL, k) }},
		{"status", func(d *c03doc, cfg Cfg, k int) {
			switch k {
			case 1:
				d.rs.Status = sp("urn:oasis:names:tc:SAML:2.0:status:Requester")
			case 3:
				d.rs.Status = sp("urn:oasis:names:tc:SAML:2.0:status:Responder")
			case 4:
				d.noStatusCod = true
			case 8:
				d.noStatus = true
			default:
				d.rs.Status = variant(statusSuccess, k)
			}
		}},
	}
}

func runC03(c *Ctx) {
	theCtx = c
	g := c.Group("c03", spImports, caseType, "check_c03")
	g.Shard = 100
	n := 0
	now := baseNow
	build := func(cfg Cfg, d *c03doc) *Node {
		d.as.Confs = nil
		for _, r := range d.recips {
			d.as.Confs = append(d.as.Confs, ConfSpec{IRT: sp("req-1"), Recipient: r, NOA: sp(fmtMS(now + 3600*1000*ms))})
		}
		d.as.Auds = d.auds
		a := buildAssertion(d.as)
		if d.signAssert {
			SignInto(a, 0)
		}
		rs := d.rs
		if d.noStatus {
			rs.Status = nil
		}
		rs.NoStatusCode = d.noStatusCod
		r := buildResponse(rs, a)
		if d.signResp {
			SignInto(r, 0)
		}
		return r
	}
	fresh := func(cfg Cfg, signResp bool) *c03doc {
		n++
		rs, as := validSpecs(cfg, now, fmt.Sprint(n))
		aud := cfg.SpEntity
		if aud == "" {
			aud = cfg.MetadataURL
		}
		return &c03doc{rs: rs, as: as, recips: []*string{sp(cfg.AcsURL)}, auds: []string{aud}, signResp: signResp, signAssert: !signResp, cur: cfg.AcsURL}
	}
	emit := func(cfg Cfg, d *c03doc, key map[string]string) {
		doc := build(cfg, d)
		key["signed"] = fmt.Sprint(d.signResp)
		for k, v := range key {
			if k == "f1" || k == "f2" || k == "class" {
				c.Count(k + "/" + v)
			}
		}
		addRun(c, g, &Run{Cfg: cfg, IDs: []string{"req-1"}, Now: now, Cur: d.cur, Doc: doc}, key, false)
	}
	fields := c03Fields()
	cfg := defaultCfg()

	// single fields x variants x signed/unsigned response
	for _, f := range fields {
		for k := range variantNames {
			for _, signed := range []bool{true, false} {
				d := fresh(cfg, signed)
				f.apply(d, cfg, k)
				emit(cfg, d, map[string]string{"class": "single", "f1": f.name, "v1": variantNames[k]})
			}
		}
	}
	// unsigned Response without Destination (assertion signed): each field again
	for _, f := range fields {
		if f.name == "destination" {
			continue
		}
		for k := range variantNames {
			d := fresh(cfg, false)
			d.rs.Dest = nil
			f.apply(d, cfg, k)
			emit(cfg, d, map[string]string{"class": "single-no-destination", "f1": f.name, "v1": variantNames[k]})
		}
	}
	// pairs of fields
	for i := 0; i < len(fields); i++ {
		for j := i + 1; j < len(fields); j++ {
			for k1 := range variantNames {
				for k2 := range variantNames {
					if !c.Thorough() && k1 != 0 && k2 != 0 && (k1+k2+i+j)%3 != 0 {
						continue // quick: every pair with one side correct, a third of the rest
					}
					d := fresh(cfg, (k1+k2)%2 == 0)
					fields[i].apply(d, cfg, k1)
					fields[j].apply(d, cfg, k2)
					emit(cfg, d, map[string]string{"class": "pair", "f1": fields[i].name, "v1": variantNames[k1], "f2": fields[j].name, "v2": variantNames[k2]})
				}
			}
		}
	}
	// random triples
	triples := 150
	if c.Thorough() {
		triples = 3000
	}
	for t := 0; t < triples; t++ {
		d := fresh(cfg, c.Rng.Intn(2) == 0)
		key := map[string]string{"class": "triple"}
		perm := c.Rng.Perm(len(fields))[:3]
		for _, fi := range perm {
			k := c.Rng.Intn(len(variantNames))
			if c.Rng.Intn(3) == 0 {
				k = 0
			}
			fields[fi].apply(d, cfg, k)
			key[fields[fi].name] = variantNames[k]
		}
		emit(cfg, d, key)
	}
	// several confirmations: the wrong recipient at each position
	for nconf := 2; nconf <= 3; nconf++ {
		for bad := 0; bad < nconf; bad++ {
			for _, k := range []int{1, 5, 6, 7, 8} {
				d := fresh(cfg, true)
				d.recips = nil
				for i := 0; i < nconf; i++ {
					if i == bad {
						d.recips = append(d.recips, variant(cfg.AcsURL, k))
					} else {
						d.recips = append(d.recips, sp(cfg.AcsURL))
					}
				}
				emit(cfg, d, map[string]string{"class": "multi-confirmation", "bad_at": fmt.Sprint(bad), "v1": variantNames[k]})
			}
		}
	}
	// audiences: 0..3 restrictions, entity ID set / unset (fallback to the metadata URL), custom validator
	for _, ent := range []string{"", "urn:example:sp"} {
		for _, ca := range []*bool{nil, Bptr(true), Bptr(false)} {
			cfg := defaultCfg()
			cfg.SpEntity, cfg.CustomAud = ent, ca
			good := ent
			if good == "" {
				good = cfg.MetadataURL
			}
			other := cfg.MetadataURL
			if ent == "" {
				other = "urn:example:sp"
			}
			lists := [][]string{{}, {good}, {other}, {"https://evil.example.net/"}, {other, good}, {good, other}, {other, other, good},
				{other, "x", "y"}, {good[:len(good)-1]}, {good + "x"}, {""}, {strings.ToUpper(good)}, {good + "/"}}
			for li, l := range lists {
				d := fresh(cfg, li%2 == 0)
				d.auds = l
				cav := "none"
				if ca != nil {
					cav = fmt.Sprint(*ca)
				}
				emit(cfg, d, map[string]string{"class": "audiences", "entity_set": fmt.Sprint(ent != ""), "custom_aud": cav, "auds": strings.Join(l, "|")})
			}
		}
	}
	// Destination against the URL the response was received at
	for _, signed := range []bool{true, false} {
		for _, cur := range []string{cfg.AcsURL, "https://sp.example.com/saml/acs?tenant=1", "https://sp.example.com/other"} {
			for _, dest := range []*string{sp(cfg.AcsURL), sp(cur), sp("https://sp.example.com/other2"), sp(cur[:len(cur)-1]), sp(cur + "x"), sp(""), nil} {
				d := fresh(cfg, signed)
				d.cur, d.rs.Dest = cur, dest
				ds := "absent"
				if dest != nil {
					ds = *dest
				}
				emit(cfg, d, map[string]string{"class": "destination", "cur": cur, "dest": ds})
			}
		}
	}
	// the same conditions whatever the other settings are
	for i := 0; i < 4; i++ {
		cfg := defaultCfg()
		class := ""
		switch i {
		case 0:
			cfg.AllowIdpInit, class = true, "idp-initiated"
		case 1:
			cfg.CustomReqID, class = Bptr(true), "custom-reqid-validator"
		case 2:
			cfg.Trust, cfg.C, class = tPinned, 0, "pinned-certificate"
		case 3:
			cfg.Trust, cfg.C, cfg.AlgOK, class = tFinger, 0, true, "fingerprint"
		}
		for _, f := range fields {
			for _, k := range []int{0, 1, 5, 6, 7, 8} {
				d := fresh(cfg, k%2 == 0)
				f.apply(d, cfg, k)
				emit(cfg, d, map[string]string{"class": class, "f1": f.name, "v1": variantNames[k]})
			}
		}
	}
	// order of the checks: a non-Success status is reported as such exactly when what is checked
	// before it (Destination, request id, freshness, issuer) passes - whatever is wrong further on
	// (an invalid Response signature, an invalid assertion)
	for _, bad := range []string{"", "destination", "request-id", "stale", "issuer", "response-signature-invalid", "response-signed-by-attacker", "assertion-invalid", "no-assertion"} {
		for _, st := range []string{"urn:oasis:names:tc:SAML:2.0:status:Requester", "urn:oasis:names:tc:SAML:2.0:status:AuthnFailed", ""} {
			for _, signed := range []bool{true, false} {
				d := fresh(cfg, signed)
				d.rs.Status = sp(st)
				ids := []string{"req-1"}
				post := func(r *Node) {}
				switch bad {
				case "destination":
					d.rs.Dest = sp("https://evil.example.net/acs")
				case "request-id":
					ids = []string{"req-2"}
				case "stale":
					d.rs.Issue = sp(fmtMS(now - 2*3600*1000*ms))
				case "issuer":
					d.rs.Issuer = sp("https://evil.example.net/idp")
				case "response-signature-invalid":
					post = func(r *Node) { r.SetAttr("Consent", "edited-after-signing") }
				case "response-signed-by-attacker":
					post = func(r *Node) {
						if s := firstSig(r); s != nil {
							r.Remove(s)
						}
						SignInto(r, 9)
					}
				case "assertion-invalid":
					d.as.Issuer = sp("https://evil.example.net/idp")
				}
				doc := build(cfg, d)
				if bad == "no-assertion" {
					doc.Remove(doc.Child("saml", "Assertion"))
				}
				post(doc)
				c.Count("class/check-order")
				addRun(c, g, &Run{Cfg: cfg, IDs: ids, Now: now, Cur: d.cur, Doc: doc},
					map[string]string{"class": "check-order", "also_wrong": bad, "status": st, "signed": fmt.Sprint(signed)}, false)
			}
		}
	}
	c03Artifact(c, g)
	// artifact entry point, the INNER Response's and Assertion's fields: with a verified ArtifactResponse
	// signature nothing below it needs a signature of its own, yet every addressing check still applies
	for _, signAR := range []bool{true, false} {
		for _, f := range fields {
			for k := range variantNames {
				d := fresh(cfg, false)
				d.signAssert = !signAR
				f.apply(d, cfg, k)
				r := build(cfg, d)
				n++
				ars := RespSpec{Tag: "ArtifactResponse", ID: fmt.Sprintf("ar-in-%d", n), IRT: sp("resolve-1"), Issue: d.rs.Issue, Issuer: sp(cfg.IdpEntity), Status: sp(statusSuccess)}
				ar := buildResponse(ars, r)
				if signAR {
					SignInto(ar, 0)
				}
				c.Count("class/artifact-inner")
				addRun(c, g, &Run{Cfg: cfg, IDs: []string{"req-1"}, Now: now, Cur: d.cur, Entry: 1, Rid: "resolve-1", Doc: soapWrap(ar)},
					map[string]string{"class": "artifact-inner", "f1": f.name, "v1": variantNames[k], "ar_signed": fmt.Sprint(signAR)}, false)
			}
		}
	}
	// artifact entry point x every signing layout x Destination of the inner Response: on the back channel a
	// signature on the inner Response does not make Destination mandatory, but one that is present must match
	for _, signAR := range []bool{true, false} {
		for _, signResp := range []bool{true, false} {
			for _, signAssert := range []bool{true, false} {
				for di, dest := range []*string{sp(cfg.AcsURL), nil, sp("https://evil.example.net/acs"), sp("")} {
					n++
					rs, as := validSpecs(cfg, now, fmt.Sprintf("artlay%d", n))
					rs.Dest = dest
					a := buildAssertion(as)
					if signAssert {
						SignInto(a, 0)
					}
					r := buildResponse(rs, a)
					if signResp {
						SignInto(r, 0)
					}
					ars := RespSpec{Tag: "ArtifactResponse", ID: fmt.Sprintf("ar-lay-%d", n), IRT: sp("resolve-1"), Issue: rs.Issue, Issuer: sp(cfg.IdpEntity), Status: sp(statusSuccess)}
					ar := buildResponse(ars, r)
					if signAR {
						SignInto(ar, 0)
					}
					c.Count("class/artifact-layout-destination")
					addRun(c, g, &Run{Cfg: cfg, IDs: []string{"req-1"}, Now: now, Cur: cfg.AcsURL, Entry: 1, Rid: "resolve-1", Doc: soapWrap(ar)},
						map[string]string{"class": "artifact-layout-destination", "ar_signed": fmt.Sprint(signAR), "resp_signed": fmt.Sprint(signResp), "assert_signed": fmt.Sprint(signAssert), "dest": fmt.Sprint(di)}, false)
				}
			}
		}
	}
	// confirmations without SubjectConfirmationData (no Recipient to compare): alone, before and after a complete one
	for _, shape := range [][]bool{{true}, {true, false}, {false, true}, {true, true}, {false, true, false}} {
		for _, idpInit := range []bool{false, true} {
			for _, signResp := range []bool{true, false} {
				n++
				cfg2 := cfg
				cfg2.AllowIdpInit = idpInit
				rs, as := validSpecs(cfg2, now, fmt.Sprintf("nodata%d", n))
				conf := as.Confs[0]
				as.Confs = nil
				for _, nd := range shape {
					c2 := conf
					c2.NoData = nd
					as.Confs = append(as.Confs, c2)
				}
				a := buildAssertion(as)
				if !signResp {
					SignInto(a, 0)
					rs.Dest = nil
				}
				r := buildResponse(rs, a)
				if signResp {
					SignInto(r, 0)
				}
				c.Count("class/confirmation-without-data")
				addRun(c, g, &Run{Cfg: cfg2, IDs: []string{"req-1"}, Now: now, Cur: cfg2.AcsURL, Doc: r},
					map[string]string{"class": "confirmation-without-data", "shape": fmt.Sprint(shape), "allow_idp_initiated": fmt.Sprint(idpInit), "resp_signed": fmt.Sprint(signResp)}, false)
			}
		}
	}
	spHistories(c, g)
	randomCombinations(c, g, 400, false)
}

// artifact entry point: the ArtifactResponse carries its own Issuer and Status
func c03Artifact(c *Ctx, g *Group) {
	now := baseNow
	n := 0
	for vi, set := range []func(c *Cfg){func(c *Cfg) {}, func(c *Cfg) { c.AllowIdpInit = true }, func(c *Cfg) { c.CustomReqID, c.CustomAud = Bptr(true), Bptr(true) }} {
		cfg := defaultCfg()
		set(&cfg)
		for _, f := range []string{"issuer", "status"} {
			for k := range variantNames {
				for _, signAR := range []bool{true, false} {
					n++
					rs, as := validSpecs(cfg, now, fmt.Sprintf("art%d", n))
					a := buildAssertion(as)
					if !signAR {
						SignInto(a, 0)
					}
					r := buildResponse(rs, a)
					ars := RespSpec{Tag: "ArtifactResponse", ID: fmt.Sprintf("ar-%d", n), IRT: sp("resolve-1"), Issue: rs.Issue, Issuer: sp(cfg.IdpEntity), Status: sp(statusSuccess)}
					if f == "issuer" {
						ars.Issuer = variant(cfg.IdpEntity, k)
					} else {
						ars.Status = variant(statusSuccess, k)
						if k == 1 {
							ars.Status = sp("urn:oasis:names:tc:SAML:2.0:status:Requester")
						}
					}
					ar := buildResponse(ars, r)
					if signAR {
						SignInto(ar, 0)
					}
					key := map[string]string{"class": "artifact", "variant": fmt.Sprint(vi), "f1": "artifact_" + f, "v1": variantNames[k], "signed": fmt.Sprint(signAR)}
					c.Count("class/artifact")
					addRun(c, g, &Run{Cfg: cfg, IDs: []string{"req-1"}, Now: now, Cur: cfg.AcsURL, Entry: 1, Rid: "resolve-1", Doc: soapWrap(ar)}, key, false)
				}
			}
		}
	}
}
