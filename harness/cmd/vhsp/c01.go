package main

// C01 — an assertion is returned only if a trusted IdP key signed its content.
// Genuinely signed messages in every signing layout, then an attack grammar
// applied to the abstract tree and its concrete rendering together.

import (
	"fmt"
	"strings"
	"time"

	"github.com/crewjam/saml"

	. "verifharness/internal/core"
)

func init() { Props["C01"] = runC01 }

type layout struct {
	signResp, signAssert, enc bool
	entry                     int // 0 Response document, 1 SOAP ArtifactResponse
	signAR                    bool
}

func (l layout) String() string {
	return fmt.Sprintf("resp=%v,assert=%v,enc=%v,entry=%d,ar=%v", l.signResp, l.signAssert, l.enc, l.entry, l.signAR)
}

type c01x struct {
	cfg    Cfg
	now    int64
	lay    layout
	id     string
	signer int
	root   *Node // document root (Response or SOAP Envelope)
	ar     *Node // ArtifactResponse or nil
	resp   *Node // the Response
	a      *Node // the genuine assertion as the IdP produced it (plaintext form, signed if the layout says so)
	slot   *Node // the node standing for it inside resp (a itself, or its EncryptedAssertion)
}

func (x *c01x) spec(tag string) AssertSpec {
	_, as := validSpecs(x.cfg, x.now, x.id+tag)
	return as
}

// evil builds an attacker-made assertion that satisfies every non-signature check.
func (x *c01x) evil(tag string) *Node {
	s := x.spec("-evil" + tag)
	s.NameID = "attacker" + tag
	s.AttrVals = []string{"admin"}
	return buildAssertion(s)
}

// cand turns a plaintext assertion into what is placed in the Response under this layout.
func (x *c01x) cand(a *Node) *Node {
	if x.lay.enc {
		return Enc(a, 0)
	}
	return a
}

func (x *c01x) replaceSlot(n *Node) {
	for i, k := range x.resp.Kids {
		if k == x.slot {
			x.resp.Kids[i] = n
		}
	}
	x.slot = n
}

func (x *c01x) slotIndex() int {
	for i, k := range x.resp.Kids {
		if k == x.slot {
			return i
		}
	}
	return len(x.resp.Kids)
}

func firstSig(n *Node) *Node {
	for _, k := range n.Kids {
		if k.Kind == kSig {
			return k
		}
	}
	return nil
}

func buildLayout(cfg Cfg, now int64, lay layout, id string, signer int) *c01x {
	x := &c01x{cfg: cfg, now: now, lay: lay, id: id, signer: signer}
	rs, as := validSpecs(cfg, now, id)
	x.a = buildAssertion(as)
	if lay.signAssert {
		SignInto(x.a, signer)
	}
	x.slot = x.cand(x.a)
	if !lay.enc {
		x.slot = x.a
	}
	x.resp = buildResponse(rs, x.slot)
	if lay.signResp {
		SignInto(x.resp, signer)
	}
	x.root = x.resp
	if lay.entry == 1 {
		ars := RespSpec{Tag: "ArtifactResponse", ID: "ar-" + id, IRT: sp("resolve-1"), Issue: rs.Issue, Issuer: sp(cfg.IdpEntity), Status: sp(statusSuccess)}
		x.ar = buildResponse(ars, x.resp)
		if lay.signAR {
			SignInto(x.ar, signer)
		}
		x.root = soapWrap(x.ar)
	}
	return x
}

type attack struct {
	name string
	f    func(x *c01x)
}

func c01Attacks() []attack {
	out := []attack{
		{"none", func(x *c01x) {}},
		{"strip-assertion-signature", func(x *c01x) {
			b := x.a.Clone()
			if s := firstSig(b); s != nil {
				b.Remove(s)
			}
			x.replaceSlot(x.cand(b))
		}},
		{"strip-response-signature", func(x *c01x) {
			if s := firstSig(x.resp); s != nil {
				x.resp.Remove(s)
			}
		}},
		{"strip-all-signatures", func(x *c01x) {
			b := x.a.Clone()
			if s := firstSig(b); s != nil {
				b.Remove(s)
			}
			x.replaceSlot(x.cand(b))
			if s := firstSig(x.resp); s != nil {
				x.resp.Remove(s)
			}
			if x.ar != nil {
				if s := firstSig(x.ar); s != nil {
					x.ar.Remove(s)
				}
			}
		}},
		{"edit-nameid-after-signing", func(x *c01x) {
			b := x.a.Clone()
			b.Child("saml", "Subject").Child("saml", "NameID").Kids = []*Node{T("attacker")}
			x.replaceSlot(x.cand(b))
		}},
		{"edit-attribute-after-signing", func(x *c01x) {
			b := x.a.Clone()
			st := b.Child("saml", "AttributeStatement")
			st.Kids = append(st.Kids, E("saml", "Attribute", A("Name", "role"), E("saml", "AttributeValue", nil, T("admin"))))
			x.replaceSlot(x.cand(b))
		}},
		{"append-to-signed-text", func(x *c01x) {
			b := x.a.Clone()
			nid := b.Child("saml", "Subject").Child("saml", "NameID")
			nid.Kids = append(nid.Kids, T(".attacker"))
			x.replaceSlot(x.cand(b))
		}},
		{"comment-in-signed-text", func(x *c01x) {
			b := x.a.Clone()
			nid := b.Child("saml", "Subject").Child("saml", "NameID")
			t := nid.Kids[0].Text
			nid.Kids = []*Node{T(t[:2]), C(" injected "), T(t[2:])}
			x.replaceSlot(x.cand(b))
		}},
		{"comment-between-elements", func(x *c01x) {
			b := x.a.Clone()
			b.InsertAt(1, C("x"))
			x.replaceSlot(x.cand(b))
			x.resp.InsertAt(0, C("y"))
		}},
		{"change-assertion-id", func(x *c01x) {
			b := x.a.Clone()
			b.SetAttr("ID", "a-other")
			x.replaceSlot(x.cand(b))
		}},
		{"remove-assertion-id", func(x *c01x) {
			b := x.a.Clone()
			b.DelAttr("ID")
			x.replaceSlot(x.cand(b))
		}},
		{"change-response-id", func(x *c01x) { x.resp.SetAttr("ID", "r-other") }},
		{"evil-assertion-first", func(x *c01x) { x.resp.InsertAt(x.slotIndex(), x.cand(x.evil(""))) }},
		{"evil-assertion-last", func(x *c01x) { x.resp.Kids = append(x.resp.Kids, x.cand(x.evil(""))) }},
		{"evil-plaintext-beside-encrypted", func(x *c01x) { x.resp.InsertAt(x.slotIndex(), x.evil("")) }},
		{"evil-only", func(x *c01x) { x.replaceSlot(x.cand(x.evil(""))) }},
		{"xsw-copy-signature-into-evil", func(x *c01x) {
			// evil assertion carrying a verbatim copy of the genuine assertion's signature; genuine one kept after it
			ev := x.evil("")
			if s := firstSig(x.a); s != nil {
				ev.InsertAt(1, s.Clone())
			}
			x.resp.InsertAt(x.slotIndex(), x.cand(ev))
		}},
		{"xsw-copy-signature-same-id", func(x *c01x) {
			ev := x.evil("")
			if id, ok := x.a.Attr("ID"); ok {
				ev.SetAttr("ID", id)
			}
			if s := firstSig(x.a); s != nil {
				ev.InsertAt(1, s.Clone())
			}
			x.replaceSlot(x.cand(ev))
		}},
		{"xsw-genuine-inside-evil", func(x *c01x) {
			// the genuine signed assertion wrapped inside the evil one, which also carries the copied signature
			ev := x.evil("")
			if id, ok := x.a.Attr("ID"); ok {
				ev.SetAttr("ID", id)
			}
			if s := firstSig(x.a); s != nil {
				ev.InsertAt(1, s.Clone())
			}
			ev.Kids = append(ev.Kids, E("x", "Wrapper", nil, x.a.Clone()))
			x.replaceSlot(x.cand(ev))
		}},
		{"xsw-evil-inside-genuine-wrapper", func(x *c01x) {
			// evil assertion first, genuine one moved into an Advice-like child of it
			ev := x.evil("")
			ev.Kids = append(ev.Kids, E("saml", "Advice", nil, x.a.Clone()))
			x.replaceSlot(x.cand(ev))
		}},
		{"xsw-wrap-response", func(x *c01x) {
			// new outer Response: evil assertion as its child, the genuine (signed) Response hidden in an extension
			rs, _ := validSpecs(x.cfg, x.now, x.id+"-outer")
			outer := buildResponse(rs, x.cand(x.evil("")), E("samlp", "Extensions", nil, x.resp))
			if x.ar != nil {
				for i, k := range x.ar.Kids {
					if k == x.resp {
						x.ar.Kids[i] = outer
					}
				}
			} else {
				x.root = outer
			}
			x.resp = outer
		}},
		{"xsw-response-signature-into-outer", func(x *c01x) {
			// outer Response with the same ID carrying the copied Response signature; genuine Response nested
			rs, _ := validSpecs(x.cfg, x.now, x.id)
			outer := buildResponse(rs, x.cand(x.evil("")))
			if s := firstSig(x.resp); s != nil {
				outer.InsertAt(1, s.Clone())
			}
			outer.Kids = append(outer.Kids, E("x", "Object", nil, x.resp))
			if x.ar != nil {
				for i, k := range x.ar.Kids {
					if k == x.resp {
						x.ar.Kids[i] = outer
					}
				}
			} else {
				x.root = outer
			}
			x.resp = outer
		}},
		{"duplicate-signature", func(x *c01x) {
			b := x.a.Clone()
			if s := firstSig(b); s != nil {
				b.InsertAt(1, s.Clone())
			}
			x.replaceSlot(x.cand(b))
			if s := firstSig(x.resp); s != nil {
				x.resp.InsertAt(1, s.Clone())
			}
		}},
		{"signature-moved-deeper", func(x *c01x) {
			b := x.a.Clone()
			if s := firstSig(b); s != nil {
				b.Remove(s)
				b.InsertAt(1, E("x", "Holder", nil, s))
			}
			x.replaceSlot(x.cand(b))
			if s := firstSig(x.resp); s != nil {
				x.resp.Remove(s)
				x.resp.InsertAt(1, E("x", "Holder", nil, s))
			}
		}},
		{"broken-shape-signature-before", func(x *c01x) {
			// a malformed Signature placed earlier in document order (inside a child) aborts validation
			b := x.a.Clone()
			if s := firstSig(b); s != nil {
				bad := s.Clone()
				bad.BreakShape()
				b.InsertAt(0, E("x", "Holder", nil, bad))
			}
			x.replaceSlot(x.cand(b))
		}},
		{"foreign-ns-signature-sibling", func(x *c01x) {
			x.resp.InsertAt(0, E("x", "Signature", nil, E("x", "KeyInfo", nil)))
		}},
		{"foreign-ns-evil-assertion", func(x *c01x) {
			ev := x.evil("")
			ev.Prefix = "x"
			x.resp.InsertAt(x.slotIndex(), ev)
		}},
		{"foreign-ns-children-in-evil", func(x *c01x) {
			// evil assertion whose identity-bearing children are in a foreign namespace, genuine one follows
			ev := x.evil("")
			for _, k := range ev.Kids {
				if k.Kind == kEl && (k.Tag == "Conditions" || k.Tag == "Subject") {
					k.Prefix = "x"
				}
			}
			x.resp.InsertAt(x.slotIndex(), x.cand(ev))
		}},
		{"evil-assertion-own-prefix", func(x *c01x) {
			// the evil assertion written with a prefix of its own bound to the SAML namespace: a real candidate
			ev := x.evil("")
			reprefix(ev, "saml", "a")
			ev.Decl = [][2]string{{"a", nsA}}
			x.resp.InsertAt(x.slotIndex(), x.cand(ev))
		}},
		{"evil-assertion-default-namespace", func(x *c01x) {
			ev := x.evil("")
			reprefix(ev, "saml", "")
			ev.Decl = [][2]string{{"", nsA}}
			x.resp.InsertAt(x.slotIndex(), x.cand(ev))
		}},
		{"saml-prefix-rebound-around-genuine", func(x *c01x) {
			// a wrapper re-binds the saml prefix: the genuine assertion inside it is no longer a SAML assertion
			if x.lay.enc {
				return
			}
			w := E("x", "Wrapper", nil, x.a.Clone())
			w.Decl = [][2]string{{"saml", "urn:evil"}}
			x.replaceSlot(w)
		}},
		{"saml-prefix-rebound-on-evil-response", func(x *c01x) {
			// outer Response re-binds saml to a foreign namespace and carries a look-alike assertion;
			// the genuine, signed Response sits inside and re-declares nothing
			rs, _ := validSpecs(x.cfg, x.now, x.id+"-outer")
			ev := x.evil("")
			outer := buildResponse(rs, ev, E("samlp", "Extensions", nil, x.resp))
			outer.Decl = [][2]string{{"saml", "urn:evil"}}
			if x.ar != nil {
				for i, k := range x.ar.Kids {
					if k == x.resp {
						x.ar.Kids[i] = outer
					}
				}
			} else {
				x.root = outer
			}
			x.resp = outer
		}},
		{"signature-prefix-rebound", func(x *c01x) {
			// an ancestor re-binds the ds prefix; the Signature element declares ds itself, so nothing changes
			x.resp.Decl = append(x.resp.Decl, [2]string{"ds", "urn:evil"})
		}},
		{"keyinfo-removed", func(x *c01x) { x.eachSig(func(s *Node) { s.SetKeyInfo(kiNone, 0) }) }},
		{"keyinfo-certificate-text-wrapped", func(x *c01x) { x.outerSig(func(s *Node) { s.WrapKeyInfoCert() }) }},
		{"keyinfo-keyvalue-only", func(x *c01x) { x.eachSig(func(s *Node) { s.SetKeyInfo(kiEmpty, 0) }) }},
		{"keyinfo-untrusted-cert", func(x *c01x) { x.eachSig(func(s *Node) { s.SetKeyInfo(kiCert, 9) }) }},
		{"keyinfo-other-idp-cert", func(x *c01x) { x.eachSig(func(s *Node) { s.SetKeyInfo(kiCert, 1-x.signerOr0()) }) }},
		{"keyinfo-garbage", func(x *c01x) { x.eachSig(func(s *Node) { s.SetKeyInfo(kiBad, 0) }) }},
		{"reference-uri-emptied", func(x *c01x) { x.eachSig(func(s *Node) { s.Forge("") }) }},
		{"reference-uri-hash-only", func(x *c01x) { x.eachSig(func(s *Node) { s.Forge("#") }) }},
		{"attacker-signed-evil", func(x *c01x) {
			ev := x.evil("")
			SignInto(ev, 9)
			x.replaceSlot(x.cand(ev))
			if s := firstSig(x.resp); s != nil {
				x.resp.Remove(s)
			}
			if x.ar != nil {
				if s := firstSig(x.ar); s != nil {
					x.ar.Remove(s)
				}
			}
		}},
		{"attacker-signed-evil-claims-idp-cert", func(x *c01x) {
			ev := x.evil("")
			s := SignInto(ev, 9)
			s.SetKeyInfo(kiCert, 0)
			x.replaceSlot(x.cand(ev))
			x.stripOuter()
		}},
		{"attacker-signed-evil-no-keyinfo", func(x *c01x) {
			ev := x.evil("")
			s := SignInto(ev, 9)
			s.SetKeyInfo(kiNone, 0)
			x.replaceSlot(x.cand(ev))
			x.stripOuter()
		}},
		{"attacker-signed-evil-keyinfo-attacker-then-idp-cert", func(x *c01x) {
			ev := x.evil("")
			s := SignInto(ev, 9)
			s.SetKeyInfo(kiCert, 9, 0, 1)
			x.replaceSlot(x.cand(ev))
			x.stripOuter()
		}},
		{"attacker-signed-evil-keyinfo-idp-then-attacker-cert", func(x *c01x) {
			ev := x.evil("")
			s := SignInto(ev, 9)
			s.SetKeyInfo(kiCert, 0, 9)
			x.replaceSlot(x.cand(ev))
			x.stripOuter()
		}},
		{"keyinfo-extra-certificates", func(x *c01x) {
			// only the outermost signature: an inner Signature's bytes are covered by the outer digest,
			// and the abstract tree does not record certificates after the first
			f := func(s *Node) { s.SetKeyInfo(kiCert, s.KICert, 9, 2) }
			switch {
			case x.ar != nil && firstSig(x.ar) != nil:
				f(firstSig(x.ar))
			case firstSig(x.resp) != nil:
				f(firstSig(x.resp))
			case firstSig(x.a) != nil:
				b := x.a.Clone()
				f(firstSig(b))
				x.replaceSlot(x.cand(b))
			}
		}},
		{"evil-response-in-soap-header", func(x *c01x) {
			if x.ar == nil {
				return
			}
			rs, _ := validSpecs(x.cfg, x.now, x.id+"-hdr")
			x.root.InsertAt(0, E("soap", "Header", nil, buildResponse(rs, x.evil("-hdr"))))
		}},
		{"evil-response-before-artifact-response", func(x *c01x) {
			if x.ar == nil {
				return
			}
			rs, _ := validSpecs(x.cfg, x.now, x.id+"-pre")
			body := x.root.Child("soap", "Body")
			body.InsertAt(0, buildResponse(rs, x.evil("-pre")))
		}},
		{"evil-response-sibling-inside-artifact-response", func(x *c01x) {
			if x.ar == nil {
				return
			}
			rs, _ := validSpecs(x.cfg, x.now, x.id+"-sib")
			x.ar.InsertAt(0, E("x", "Extensions", nil, buildResponse(rs, x.evil("-sib"))))
		}},
		{"attacker-signed-response", func(x *c01x) {
			x.stripOuter()
			x.replaceSlot(x.cand(x.evil("")))
			SignInto(x.resp, 9)
		}},
		{"encrypted-to-other-recipient", func(x *c01x) { x.replaceSlot(Enc(x.a, 1)) }},
		{"encrypted-garbage-plaintext", func(x *c01x) { x.replaceSlot(Enc(x.a, 2)) }},
		{"encrypted-rootless-plaintext", func(x *c01x) { x.replaceSlot(Enc(x.a, 3)) }},
		{"attacker-encrypts-evil", func(x *c01x) { x.replaceSlot(Enc(x.evil(""), 0)) }},
		{"two-encrypted-data-genuine-first", func(x *c01x) { x.replaceSlot(EncDouble(x.a, false)) }},
		{"two-encrypted-data-decoy-first", func(x *c01x) { x.replaceSlot(EncDouble(x.a, true)) }},
		{"attacker-reencrypts-genuine", func(x *c01x) { x.replaceSlot(Enc(x.a, 0)) }},
		{"attacker-encrypts-evil-beside-genuine", func(x *c01x) { x.resp.InsertAt(x.slotIndex(), Enc(x.evil(""), 0)) }},
	}
	// a genuine, IdP-signed assertion that is no longer acceptable (an old login of the attacker's own:
	// expired, for another recipient / audience, answering another request), with the attacker's unsigned
	// assertion before or after it: a valid signature on one assertion says nothing about its siblings
	type staleMut struct {
		name string
		f    func(s *AssertSpec, x *c01x)
	}
	for _, sm := range []staleMut{
		{"expired", func(s *AssertSpec, x *c01x) {
			old := sp(fmtMS(x.now/ms*ms - int64(24*time.Hour)))
			s.NOA = old
			for i := range s.Confs {
				s.Confs[i].NOA = old
			}
		}},
		{"other-recipient", func(s *AssertSpec, x *c01x) { s.Confs[0].Recipient = sp("https://other-sp.example.org/saml/acs") }},
		{"other-audience", func(s *AssertSpec, x *c01x) { s.Auds = []string{"https://other-sp.example.org/saml/metadata"} }},
		{"other-request", func(s *AssertSpec, x *c01x) { s.Confs[0].IRT = sp("req-0-old") }},
	} {
		for _, evilFirst := range []bool{false, true} {
			sm, evilFirst := sm, evilFirst
			name := "stale-genuine-" + sm.name + "-then-evil"
			if evilFirst {
				name = "evil-then-stale-genuine-" + sm.name
			}
			out = append(out, attack{name, func(x *c01x) {
				s := x.spec("-stale")
				sm.f(&s, x)
				b := buildAssertion(s)
				if x.lay.signAssert {
					SignInto(b, x.signer)
				}
				x.a = b
				x.replaceSlot(x.cand(b))
				if evilFirst {
					x.resp.InsertAt(x.slotIndex(), x.cand(x.evil("")))
				} else {
					x.resp.Kids = append(x.resp.Kids, x.cand(x.evil("")))
				}
				// the enclosing signatures (if the layout has any) are the attacker's problem: they no longer
				// cover this content, and the model says so
			}})
		}
	}
	// a genuine but no longer acceptable assertion next to a genuine acceptable one (both IdP-signed where the
	// layout signs assertions): what is returned is the acceptable one ALONE - none of the other's attributes,
	// statements or audiences
	for _, staleFirst := range []bool{true, false} {
		staleFirst := staleFirst
		name := "fresh-genuine-then-stale-genuine"
		if staleFirst {
			name = "stale-genuine-then-fresh-genuine"
		}
		out = append(out, attack{name, func(x *c01x) {
			s := x.spec("-stale")
			s.Issue = fmtMS(x.now/ms*ms - int64(48*time.Hour))
			s.NameID, s.AttrVals = "yesterdays-user", []string{"role=administrator", "stale-value"}
			b := buildAssertion(s)
			if x.lay.signAssert {
				SignInto(b, x.signer)
			}
			if staleFirst {
				x.resp.InsertAt(x.slotIndex(), x.cand(b))
			} else {
				x.resp.Kids = append(x.resp.Kids, x.cand(b))
			}
		}})
	}
	return out
}

// outerSig applies f to the outermost genuine signature only (inner Signature bytes are covered by the outer digest)
func (x *c01x) outerSig(f func(s *Node)) {
	switch {
	case x.ar != nil && firstSig(x.ar) != nil:
		f(firstSig(x.ar))
	case firstSig(x.resp) != nil:
		f(firstSig(x.resp))
	case firstSig(x.a) != nil:
		b := x.a.Clone()
		f(firstSig(b))
		x.replaceSlot(x.cand(b))
	}
}

func (x *c01x) signerOr0() int {
	if x.signer == 1 {
		return 1
	}
	return 0
}

func (x *c01x) stripOuter() {
	if s := firstSig(x.resp); s != nil {
		x.resp.Remove(s)
	}
	if x.ar != nil {
		if s := firstSig(x.ar); s != nil {
			x.ar.Remove(s)
		}
	}
}

// eachSig applies f to every genuine signature of the message (assertion, response, artifact response)
func (x *c01x) eachSig(f func(s *Node)) {
	if firstSig(x.a) != nil {
		b := x.a.Clone()
		f(firstSig(b))
		x.replaceSlot(x.cand(b))
	}
	if s := firstSig(x.resp); s != nil {
		f(s)
	}
	if x.ar != nil {
		if s := firstSig(x.ar); s != nil {
			f(s)
		}
	}
}

func c01Trusts() []struct {
	name string
	set  func(c *Cfg)
} {
	return []struct {
		name string
		set  func(c *Cfg)
	}{
		{"meta-1-signing", func(c *Cfg) { c.Trust, c.Kds = tMeta, []KD{{"signing", []int{0}}} }},
		{"meta-2-signing", func(c *Cfg) { c.Trust, c.Kds = tMeta, []KD{{"signing", []int{0}}, {"signing", []int{1}}} }},
		{"meta-signing+encryption", func(c *Cfg) { c.Trust, c.Kds = tMeta, []KD{{"signing", []int{0}}, {"encryption", []int{2}}} }},
		{"meta-use-omitted", func(c *Cfg) { c.Trust, c.Kds = tMeta, []KD{{"", []int{0}}, {"encryption", []int{2}}} }},
		{"meta-signing-chain-in-one-descriptor", func(c *Cfg) { c.Trust, c.Kds = tMeta, []KD{{"signing", []int{0, 1}}} }},
		{"meta-signing-three-in-one-descriptor", func(c *Cfg) { c.Trust, c.Kds = tMeta, []KD{{"signing", []int{2, 1, 0}}} }},
		{"meta-encryption-chain-after-signing", func(c *Cfg) { c.Trust, c.Kds = tMeta, []KD{{"signing", []int{0}}, {"encryption", []int{2, 1}}} }},
		{"meta-encryption-chain-before-signing", func(c *Cfg) { c.Trust, c.Kds = tMeta, []KD{{"encryption", []int{2, 1, 3}}, {"signing", []int{0}}} }},
		{"meta-use-omitted-chain", func(c *Cfg) { c.Trust, c.Kds = tMeta, []KD{{"", []int{2, 1}}, {"encryption", []int{0}}} }},
		{"meta-encryption-only", func(c *Cfg) { c.Trust, c.Kds = tMeta, []KD{{"encryption", []int{2}}} }},
		{"meta-other-use", func(c *Cfg) { c.Trust, c.Kds = tMeta, []KD{{"other", []int{0}}, {"signing", []int{1}}} }},
		{"meta-garbage-cert", func(c *Cfg) { c.Trust, c.Kds = tMeta, []KD{{"signing", []int{0}}, {"signing", []int{-1}}} }},
		{"meta-empty-descriptor", func(c *Cfg) { c.Trust, c.Kds = tMeta, []KD{{"signing", nil}, {"signing", []int{0}}} }},
		{"meta-ecdsa-signing", func(c *Cfg) { c.Trust, c.Kds = tMeta, []KD{{"signing", []int{3}}} }},
		{"meta-rsa+ecdsa-signing", func(c *Cfg) { c.Trust, c.Kds = tMeta, []KD{{"signing", []int{0}}, {"signing", []int{3}}} }},
		{"pinned-ecdsa", func(c *Cfg) { c.Trust, c.C = tPinned, 3 }},
		{"meta-wrapped-certificate-text", func(c *Cfg) { c.Trust, c.Kds, c.CertLayout = tMeta, []KD{{"signing", []int{0}}, {"", []int{1}}}, 1 }},
		{"meta-crlf-tab-certificate-text", func(c *Cfg) { c.Trust, c.Kds, c.CertLayout = tMeta, []KD{{"signing", []int{0}}}, 2 }},
		{"pinned-wrapped-certificate-text", func(c *Cfg) { c.Trust, c.C, c.CertLayout = tPinned, 0, 1 }},
		{"pinned-padded-certificate-text", func(c *Cfg) { c.Trust, c.C, c.CertLayout = tPinned, 0, 3 }},
		{"meta-other-roles-publish-keys", func(c *Cfg) { c.Trust, c.Kds, c.OtherRoleCerts = tMeta, []KD{{"signing", []int{0}}}, []int{1, 2, 9} }},
		{"meta-only-other-roles-publish-keys", func(c *Cfg) { c.Trust, c.Kds, c.OtherRoleCerts = tMeta, []KD{{"encryption", []int{2}}}, []int{1, 0, 9} }},
		{"pinned", func(c *Cfg) { c.Trust, c.C = tPinned, 0 }},
		{"pinned-other", func(c *Cfg) { c.Trust, c.C = tPinned, 1 }},
		{"pinned-garbage", func(c *Cfg) { c.Trust, c.C = tPinned, -1 }},
		{"fingerprint", func(c *Cfg) { c.Trust, c.C, c.AlgOK = tFinger, 0, true }},
		{"fingerprint-other", func(c *Cfg) { c.Trust, c.C, c.AlgOK = tFinger, 1, true }},
		{"fingerprint-sha512", func(c *Cfg) { c.Trust, c.C, c.AlgOK, c.FingerSHA512 = tFinger, 0, true, true }},
		{"fingerprint-sha512-other", func(c *Cfg) { c.Trust, c.C, c.AlgOK, c.FingerSHA512 = tFinger, 1, true, true }},
		{"fingerprint-unknown-alg", func(c *Cfg) { c.Trust, c.C, c.AlgOK = tFinger, 0, false }},
		{"misconfigured", func(c *Cfg) { c.Trust = tBad }},
	}
}

func runC01(c *Ctx) {
	theCtx = c
	g := c.Group("c01", spImports, caseType, "check_c01")
	g.Shard = 60
	now := baseNow
	n := 0
	layouts := []layout{}
	for _, enc := range []bool{false, true} {
		for _, sr := range []bool{true, false} {
			for _, sa := range []bool{true, false} {
				layouts = append(layouts, layout{signResp: sr, signAssert: sa, enc: enc})
			}
		}
	}
	artLayouts := []layout{
		{entry: 1, signAR: true}, {entry: 1, signAR: false, signResp: true}, {entry: 1, signAssert: true},
		{entry: 1, signAR: true, signAssert: true, enc: true}, {entry: 1},
	}
	attacks := c01Attacks()
	run := func(cfg Cfg, lay layout, at attack, signer int, trustName string) {
		n++
		x := buildLayout(cfg, now, lay, fmt.Sprint(n), signer)
		at.f(x)
		key := map[string]string{"layout": lay.String(), "attack": at.name, "trust": trustName, "signer": fmt.Sprint(signer)}
		c.Count("attack/" + at.name)
		c.Count("trust/" + trustName)
		c.Count("layout/" + lay.String())
		r := &Run{Cfg: cfg, IDs: []string{"req-1"}, Now: now, Cur: cfg.AcsURL, Entry: lay.entry, Rid: "resolve-1", Doc: x.root}
		addRun(c, g, r, key, false)
	}
	// every attack on every layout under the plain metadata configuration
	cfg := defaultCfg()
	for _, lay := range layouts {
		for _, at := range attacks {
			run(cfg, lay, at, 0, "meta-1-signing")
		}
	}
	for _, lay := range artLayouts {
		for i, at := range attacks {
			if !c.Thorough() && i%3 != n%3 && at.name != "none" && !strings.HasPrefix(at.name, "evil-response-") {
				continue
			}
			run(cfg, lay, at, 0, "meta-1-signing")
		}
	}
	// trust configurations x who signed x key-related attacks
	keyAttacks := []string{"none", "keyinfo-certificate-text-wrapped", "attacker-signed-evil-keyinfo-attacker-then-idp-cert", "attacker-signed-evil-keyinfo-idp-then-attacker-cert", "keyinfo-extra-certificates", "keyinfo-removed", "keyinfo-keyvalue-only", "keyinfo-untrusted-cert", "keyinfo-other-idp-cert", "keyinfo-garbage", "attacker-signed-evil-claims-idp-cert", "foreign-ns-signature-sibling"}
	for _, tr := range c01Trusts() {
		cfg := defaultCfg()
		tr.set(&cfg)
		for _, signer := range []int{0, 1, 2, 3, 9} {
			for _, an := range keyAttacks {
				for li, lay := range []layout{{signResp: true}, {signAssert: true}, {signAssert: true, enc: true}} {
					if !c.Thorough() && (li+signer+len(an))%3 != 0 && an != "none" {
						continue
					}
					for _, at := range attacks {
						if at.name == an {
							run(cfg, lay, at, signer, tr.name)
						}
					}
				}
			}
		}
	}
	randomCombinations(c, g, 200, false)
	c01LongLived(c, g)
	spHistories(c, g)
	spConcurrent(c)
	// documents the parser or the round-trip validator must refuse outright
	gb := c.Group("c01raw", spImports, caseType, "check_c01")
	{ // a genuinely signed response made unacceptable to the round-trip validator only (empty CDATA section)
		x := buildLayout(cfg, now, layout{signResp: true}, "cdata", 0)
		raw := strings.Replace(x.root.Render(), "</saml:NameID>", "<![CDATA[]]></saml:NameID>", 1)
		c.Count("attack/raw-bytes")
		addRun(c, gb, &Run{Cfg: cfg, IDs: []string{"req-1"}, Now: now, Cur: cfg.AcsURL, DocKind: 1, Bytes: []byte(raw)}, map[string]string{"attack": "raw-bytes", "raw": "empty-cdata-in-signed-response"}, false)
		for st := 2; st <= 2; st++ {
			for k := 0; k < 2; k++ {
				y := buildLayout(cfg, now, layout{signAssert: true, enc: true}, fmt.Sprintf("cdata%d", k), 0)
				y.replaceSlot(Enc(y.a, 2))
				c.Count("attack/encrypted-garbage-plaintext")
				addRun(c, gb, &Run{Cfg: cfg, IDs: []string{"req-1"}, Now: now, Cur: cfg.AcsURL, Doc: y.root}, map[string]string{"attack": "encrypted-roundtrip-unsafe-plaintext"}, false)
			}
		}
	}
	for i, raw := range []string{"", "<!-- only a comment -->", "<samlp:Response", "not xml at all", "<a><b></a></b>",
		`<samlp:Response xmlns:samlp="` + nsP + `"><x:y xmlns:x="urn:x"/></samlp:Response><trailing/>`} {
		kind := 1
		if i == 1 {
			kind = 2
		}
		if i == 0 {
			kind = 1
		}
		r := &Run{Cfg: cfg, IDs: []string{"req-1"}, Now: now, Cur: cfg.AcsURL, Entry: i % 2, Rid: "resolve-1", DocKind: kind, Bytes: []byte(raw)}
		if len(raw) == 0 {
			r.Bytes = []byte{}
		}
		c.Count("attack/raw-bytes")
		addRun(c, gb, r, map[string]string{"attack": "raw-bytes", "raw": raw}, false)
	}
}

// reprefix rewrites the prefix of every element of the subtree (abstractly nothing changes as long as
// the new prefix is bound to the same namespace).
func reprefix(n *Node, from, to string) {
	if n.Kind == kEl && n.Prefix == from {
		n.Prefix = to
	}
	for _, k := range n.Kids {
		reprefix(k, from, to)
	}
}

// One long-lived ServiceProvider whose trust configuration is edited in place between calls (IdP key
// rotation, metadata refresh): every call must decide by the configuration as it is at that call.
func c01LongLived(c *Ctx, g *Group) {
	now := baseNow
	n := 0
	for _, lay := range []layout{{signResp: true}, {signAssert: true}, {signAssert: true, enc: true}} {
		cfg := defaultCfg()
		cfg.Kds = []KD{{"signing", []int{0}}}
		spObj := cfg.SP()
		step := func(signer int, what string) {
			n++
			x := buildLayout(cfg, now, lay, fmt.Sprintf("ll%d", n), signer)
			c.Count("attack/long-lived-" + what)
			addRun(c, g, &Run{Cfg: cfg, IDs: []string{"req-1"}, Now: now, Cur: cfg.AcsURL, Doc: x.root, SPObj: spObj},
				map[string]string{"attack": "long-lived-sp", "step": what, "layout": lay.String(), "signer": fmt.Sprint(signer)}, false)
		}
		setKeys := func(certs ...int) {
			cfg.Kds = []KD{{"signing", certs}}
			kd := &spObj.IDPMetadata.IDPSSODescriptors[0].KeyDescriptors[0]
			kd.KeyInfo.X509Data.X509Certificates = nil
			for _, x := range certs {
				kd.KeyInfo.X509Data.X509Certificates = append(kd.KeyInfo.X509Data.X509Certificates, saml.X509Certificate{Data: certB64(x)})
			}
		}
		step(0, "initial-key-accepted")
		step(1, "other-key-rejected")
		setKeys(1) // rotation: key 0 withdrawn, key 1 published, same metadata object
		step(0, "withdrawn-key")
		step(1, "new-key")
		setKeys(0, 1)
		step(0, "both-keys")
		step(1, "both-keys")
		// a refreshed metadata object
		fresh := *spObj.IDPMetadata
		fresh.IDPSSODescriptors = []saml.IDPSSODescriptor{{}}
		fresh.IDPSSODescriptors[0].KeyDescriptors = []saml.KeyDescriptor{{Use: "signing"}}
		spObj.IDPMetadata = &fresh
		setKeys(0)
		step(1, "after-refresh-withdrawn-key")
		step(0, "after-refresh-key")
		// switching to a pinned certificate on the same object
		pinned := certB64(1)
		spObj.IDPCertificate = &pinned
		cfg.Trust, cfg.C = tPinned, 1
		step(0, "pinned-other")
		step(1, "pinned")
	}
}
