// vhbare — a harness binary that links NOTHING but the library under test (no reference
// implementations, no extra hash packages): what the library needs must be linked by the library.
package main

import (
	"bytes"
	"fmt"

	"github.com/crewjam/saml/xmlenc"

	. "verifharness/internal/core"
	"verifharness/internal/fix"
)

func main() { Main() }

func init() { Props["C10B"] = runC10B }

func runC10B(c *Ctx) {
	g := c.Group("bare", nil, "bool", "check_bools")
	cert := fix.Cert("rsa_a")
	key := fix.RSAKey("rsa_a")
	type dm struct {
		name string
		d    xmlenc.DigestMethod
	}
	digests := []dm{{"default", nil}, {"sha1", &xmlenc.SHA1}, {"sha256", &xmlenc.SHA256}, {"sha512", &xmlenc.SHA512}, {"ripemd160", &xmlenc.RIPEMD160}}
	ctors := []struct {
		name string
		mk   func() xmlenc.RSA
	}{{"OAEP", xmlenc.OAEP}, {"OAEP_SHA256", xmlenc.OAEP_SHA256}, {"OAEP_SHA512", xmlenc.OAEP_SHA512}, {"PKCS1v15", xmlenc.PKCS1v15}}
	blocks := []struct {
		name string
		bc   xmlenc.BlockCipher
	}{{"aes128-cbc", xmlenc.AES128CBC}, {"aes256-cbc", xmlenc.AES256CBC}, {"tripledes-cbc", xmlenc.TripleDES}}
	for _, ct := range ctors {
		for _, d := range digests {
			if ct.name == "PKCS1v15" && d.d != nil {
				continue
			}
			for bi, b := range blocks {
				plain := []byte(fmt.Sprintf("<x>%s/%s/%s</x>", ct.name, d.name, b.name))
				ok, detail := false, ""
				func() {
					defer func() {
						if p := recover(); p != nil {
							detail = fmt.Sprint("panic: ", p)
						}
					}()
					e := ct.mk()
					e.BlockCipher = b.bc
					if d.d != nil {
						// a caller may pick any registered digest on any of the OAEP constructors
						e.DigestMethod = d.d
					}
					el, err := e.Encrypt(cert, plain, nil)
					if err != nil {
						detail = "encrypt: " + err.Error()
						return
					}
					out, err := xmlenc.Decrypt(key, el)
					if err != nil {
						detail = "decrypt: " + err.Error()
						return
					}
					ok = bytes.Equal(out, plain)
					if !ok {
						detail = "round trip altered the plaintext"
					}
				}()
				c.Count("bare/" + ct.name + "/" + d.name)
				c.Add(g, &Case{Key: map[string]string{"op": "bare-roundtrip", "constructor": ct.name, "digest": d.name, "block": b.name},
					Input: map[string]any{"constructor": ct.name, "digest": d.name, "block": b.name}, Obs: map[string]any{"ok": ok, "detail": detail},
					Term: fmt.Sprint(ok), ImplSpecOK: Bptr(ok), Dedup: fmt.Sprintf("%s/%s/%d", ct.name, d.name, bi)})
			}
		}
	}
}
