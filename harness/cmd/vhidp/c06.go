package main

import (
	. "verifharness/internal/core"

	"bytes"
	"crypto/rsa"
	"crypto/x509"
	"encoding/base64"
	"errors"
	"fmt"
	"html"
	"html/template"
	"io"
	"math/rand"
	"net/http"
	"reflect"
	"regexp"
	"strings"
	"time"

	"github.com/crewjam/saml"
	"github.com/crewjam/saml/xmlenc"

	"verifharness/internal/emit"
	"verifharness/internal/fix"
)

func init() { Props["C06"] = runC06 }

// ---------- random sources ----------

// streamReader hands out a fixed byte stream and records every Read.
type streamReader struct {
	stream []byte
	off    int
	draws  [][]byte
}

func newStream(r *rand.Rand, n int) *streamReader {
	b := make([]byte, n)
	r.Read(b)
	return &streamReader{stream: b}
}
func (s *streamReader) Read(p []byte) (int, error) {
	if s.off+len(p) > len(s.stream) {
		return 0, io.ErrUnexpectedEOF
	}
	copy(p, s.stream[s.off:s.off+len(p)])
	s.draws = append(s.draws, append([]byte{}, p...))
	s.off += len(p)
	return len(p), nil
}

type mRands struct {
	Saml, Enc []byte
	WrapN     int
}

func (r mRands) term() string {
	return fmt.Sprintf("{| rnd_saml := %s; rnd_enc := %s; rnd_wrapn := %d%%nat |}", emit.Str(string(r.Saml)), emit.Str(string(r.Enc)), r.WrapN)
}

// ---------- certificates in metadata ----------

// certClass is the harness's own reading of a certificate string from which
// all white space has already been removed (base64, DER, RSA key?) — the
// external function [cp] of the model.
func certClass(stripped string) string {
	der, err := base64.StdEncoding.DecodeString(stripped)
	if err != nil {
		return "CertBad"
	}
	c, err := x509.ParseCertificate(der)
	if err != nil {
		return "CertBad"
	}
	pk, ok := c.PublicKey.(*rsa.PublicKey)
	if !ok {
		return "CertNotRsa"
	}
	for id := int64(1); id <= 3; id++ {
		if pk.Equal(&keyOf(id).PublicKey) {
			return fmt.Sprintf("CertRsaKey %d", id)
		}
	}
	return "CertRsaKey 9"
}

// certTable: one entry per distinct white-space-free certificate text in the metadata
func certTable(md *mMeta) string {
	seen := map[string]bool{}
	var items []string
	for _, d := range md.Descs {
		for _, k := range d.KDs {
			for _, c := range k.Certs {
				key := stripWS(c)
				if !seen[key] {
					seen[key] = true
					items = append(items, fmt.Sprintf("(%s, %s)", emit.Str(key), certClass(key)))
				}
			}
		}
	}
	return emit.List(items)
}

// ---------- generators ----------

var c06Words = []string{"alice", "bob", "Alice Smith", "smith", "a@example.com", "bob@example.org", "x", "Zoë", "O'Neil", "a&b", "<tag>", "\"quoted\"", "staff", "admin", "users",
	"member@example.edu", "日本語", "a b  c", "100%", "#1", "p=q;r", "😀",
	// characters that only survive with the canonical write settings on every serialisation hop
	"Alice\rSmith", "x\r\ny", "\r", "tab\there", "line\nfeed", " lead", "trail ", "a\r\rb", "<!-- c -->", "&#xD;"}

func word(r *rand.Rand) string {
	if r.Intn(4) == 0 {
		return fmt.Sprintf("%s-%04x", pick(r, c06Words), r.Intn(65536))
	}
	return pick(r, c06Words)
}
func maybe(r *rand.Rand, p int, f func() string) string {
	if r.Intn(p) == 0 {
		return ""
	}
	return f()
}

func genSession(r *rand.Rand) mSession {
	w := func() string { return word(r) }
	s := mSession{
		Create: time.Date(2015, 12, 1, 1, 0, 0, 0, time.UTC).Add(time.Duration(r.Intn(3600000)) * time.Millisecond),
		Index: maybe(r, 4, func() string {
			return pick(r, []string{fmt.Sprintf("idx-%x", r.Uint32()), fmt.Sprintf("idx-%x", r.Uint32()), "i\rx", "i\tx", "i\nx", " i "})
		}),
		NameID: maybe(r, 8, w), SubjectID: maybe(r, 2, w),
		UserName: maybe(r, 3, w), Email: maybe(r, 3, w), CommonName: maybe(r, 3, w), Surname: maybe(r, 3, w),
		GivenName: maybe(r, 3, w), ScopedAff: maybe(r, 2, w), EPPN: maybe(r, 2, w),
	}
	if r.Intn(3) == 0 {
		s.NameIDFormat = pick(r, []string{"urn:oasis:names:tc:SAML:1.1:nameid-format:emailAddress", "urn:oasis:names:tc:SAML:2.0:nameid-format:persistent", "urn:x"})
	}
	for i, n := 0, pick(r, []int{0, 0, 1, 2, 3}); i < n; i++ {
		s.Groups = append(s.Groups, w())
	}
	for i, n := 0, pick(r, []int{0, 0, 1, 2}); i < n; i++ {
		a := mAttribute{Friendly: maybe(r, 2, w), Name: "urn:custom:" + w(), Format: maybe(r, 2, func() string { return "urn:oasis:names:tc:SAML:2.0:attrname-format:basic" })}
		for j, m := 0, pick(r, []int{0, 1, 1, 2}); j < m; j++ {
			// the alternative content forms of an AttributeValue: text only, NameID child only, both, neither
			v := mAttrValue{Type: pick(r, []string{"xs:string", "xs:anyURI", "", "saml:NameIDType"})}
			shape := r.Intn(6)
			if shape != 1 && shape != 3 {
				v.Value = w()
			}
			if shape == 1 || shape == 2 {
				v.NameID = &mNameID{Format: pick(r, []string{"", "urn:oasis:names:tc:SAML:2.0:nameid-format:persistent"}), NameQualifier: maybe(r, 2, w),
					SPNameQualifier: maybe(r, 2, w), Value: maybe(r, 6, w)}
			}
			a.Values = append(a.Values, v)
		}
		s.Custom = append(s.Custom, a)
	}
	return s
}

// genSessionDistinct: every optional field set at once, to pairwise different values, with each pair of
// fallback-related fields (principal name / mail, ...) in one of: both, only the first, only the second, neither
func genSessionDistinct(r *rand.Rand) mSession {
	u := func(tag string) string { return fmt.Sprintf("%s-%06x", tag, r.Intn(1<<24)) }
	s := mSession{Create: time.Date(2015, 12, 1, 1, 0, 0, 0, time.UTC).Add(time.Duration(r.Intn(3600000)) * time.Millisecond),
		Index: u("index"), NameID: u("nameid"), NameIDFormat: "urn:oasis:names:tc:SAML:1.1:nameid-format:unspecified", SubjectID: u("subject"),
		UserName: u("user"), Email: u("mail") + "@example.com", CommonName: u("cn"), Surname: u("sn"), GivenName: u("given"),
		ScopedAff: u("aff") + "@example.com", EPPN: u("eppn") + "@example.com", Groups: []string{u("group1"), u("group2")},
		Custom: []mAttribute{{Friendly: u("cfriendly"), Name: u("cname"), Format: "urn:oasis:names:tc:SAML:2.0:attrname-format:basic",
			Values: []mAttrValue{{Type: "xs:string", Value: u("cvalue")}}}}}
	switch r.Intn(4) {
	case 1:
		s.Email = ""
	case 2:
		s.EPPN = ""
	case 3:
		s.Email, s.EPPN = "", ""
	}
	switch r.Intn(4) {
	case 1:
		s.UserName = ""
	case 2:
		s.CommonName, s.GivenName = "", ""
	case 3:
		s.Surname, s.SubjectID = "", ""
	}
	return s
}

func (s mSession) toSAML() *saml.Session {
	out := &saml.Session{ID: "sess", CreateTime: s.Create, Index: s.Index, NameID: s.NameID, NameIDFormat: s.NameIDFormat, SubjectID: s.SubjectID,
		Groups: s.Groups, UserName: s.UserName, UserEmail: s.Email, UserCommonName: s.CommonName, UserSurname: s.Surname, UserGivenName: s.GivenName,
		UserScopedAffiliation: s.ScopedAff, EduPersonPrincipalName: s.EPPN}
	if s.EmptyNotNil { // empty but non-nil slices: must behave exactly like nil ones
		if len(out.Groups) == 0 {
			out.Groups = []string{}
		}
		out.CustomAttributes = []saml.Attribute{}
	}
	for _, a := range s.Custom {
		at := saml.Attribute{FriendlyName: a.Friendly, Name: a.Name, NameFormat: a.Format}
		for _, v := range a.Values {
			if s.EmptyNotNil && at.Values == nil {
				at.Values = []saml.AttributeValue{}
			}
			av := saml.AttributeValue{Type: v.Type, Value: v.Value}
			if v.NameID != nil {
				av.NameID = &saml.NameID{Format: v.NameID.Format, NameQualifier: v.NameID.NameQualifier, SPNameQualifier: v.NameID.SPNameQualifier, Value: v.NameID.Value}
			}
			at.Values = append(at.Values, av)
		}
		out.CustomAttributes = append(out.CustomAttributes, at)
	}
	return out
}

var reqAttrNames = []string{"email", "e-mail", "emailAddress", "Email_Address", "name", "fullName", "cn", "common-name", "givenName", "first_name", "surname", "LastName",
	"familyname", "uid", "user", "userid", "User.ID", "mail", "urn:oid:0.9.2342.19200300.100.1.3", "displayName", "", "e.mail", "given name", "sur-name", "cn2", "éemail"}
var reqAttrFormats = []string{"urn:oasis:names:tc:SAML:2.0:attrname-format:basic", "urn:oasis:names:tc:SAML:2.0:attrname-format:unspecified",
	"urn:oasis:names:tc:SAML:2.0:attrname-format:uri", "", "urn:oasis:names:tc:SAML:2.0:attrname-format:BASIC"}

func genAttrSvcs(r *rand.Rand) []mAttrSvc {
	var out []mAttrSvc
	for i, n := 0, pick(r, []int{0, 0, 1, 1, 2, 3}); i < n; i++ {
		s := mAttrSvc{}
		switch r.Intn(4) {
		case 0:
			s.Default = bptr(true)
		case 1:
			s.Default = bptr(false)
		}
		for j, m := 0, r.Intn(5); j < m; j++ {
			ra := mReqAttr{Friendly: maybe(r, 2, func() string { return word(r) }), Name: pick(r, reqAttrNames), Format: pick(r, reqAttrFormats)}
			// "the values requested": AttributeValue children in the SP's metadata, which the IdP must not echo
			for k, nv := 0, pick(r, []int{0, 0, 1, 2}); k < nv; k++ {
				ra.Values = append(ra.Values, fmt.Sprintf("META-ONLY-value-%s-%d", pick(r, []string{"admin", "root", "ceo@sp.example.com"}), k))
			}
			s.Requested = append(s.Requested, ra)
		}
		out = append(out, s)
	}
	return out
}

// genMeta06: several endpoints (at least one POST most of the time), attribute services, optional key descriptors
func genMeta06(r *rand.Rand, entity string, kds func(*rand.Rand) []mKeyDesc) *mMeta {
	md := &mMeta{Entity: entity}
	for di, nd := 0, pick(r, []int{1, 1, 1, 2}); di < nd; di++ {
		d := mSPSSO{Svcs: genAttrSvcs(r), KDs: kds(r)}
		for ei, ne := 0, 1+r.Intn(4); ei < ne; ei++ {
			e := genEndpoint(r)
			e.Binding = pick(r, []string{bPost, bPost, bPost, bPost, bPost, bRedirect, bArtifact})
			e.Location = fmt.Sprintf("https://sp.example.com/acs/%d/%d", di, r.Intn(3))
			if r.Intn(4) == 0 { // registered strings that are not fixed points of url.Parse(...).String()
				e.Location = fmt.Sprintf(pick(r, c06OddLocations), di, r.Intn(3))
			}
			e.Index = ei + r.Intn(2)
			d.ACS = append(d.ACS, e)
		}
		md.Descs = append(md.Descs, d)
	}
	return md
}

// Locations that url.Parse(...).String() would rewrite (upper-case scheme, empty fragment, characters that
// get percent-encoded, non-ASCII); the IdP must hand out the registered string byte for byte
var c06OddLocations = []string{"HTTPS://sp.example.com/acs/%d/%d", "https://sp.example.com/acs/%d/%d#", "https://sp.example.com/a|b/%d/%d", "https://sp.example.com/acs/%d/\u00e9%d",
	"https://sp.example.com/a b/%d/%d", "https://sp.example.com/a^b/%d/%d", "Https://SP.example.com/acs/%d/%d#", "https://sp.example.com/acs/%d/%d?q=a|b#"}

var tmplAction = template.Must(template.New("a").Parse(`<form method="post" action="{{.}}">`))

// templateForm: how html/template writes a URL into the action attribute (read back the way the harness reads forms)
func templateForm(u string) string {
	var b strings.Builder
	if err := tmplAction.Execute(&b, u); err != nil {
		return u
	}
	if m := actionRe.FindStringSubmatch(b.String()); m != nil {
		return html.UnescapeString(m[1])
	}
	return u
}

// registeredAction maps the action read from the form back to the registered Location it is the
// template rendering of (html/template percent-encodes some characters; C14 is about that layer).
func registeredAction(md *mMeta, action string) string {
	for _, d := range md.Descs {
		for _, e := range d.ACS {
			if e.Location != action && templateForm(e.Location) == action {
				return e.Location
			}
		}
	}
	return action
}

func simpleKDs(r *rand.Rand) []mKeyDesc {
	switch r.Intn(6) {
	case 0, 1:
		return nil
	case 2:
		return []mKeyDesc{{Use: "signing", Certs: []string{fix.CertB64("rsa_b")}}}
	case 3:
		return []mKeyDesc{{Use: "signing", Certs: []string{fix.CertB64("rsa_b")}}, {Use: "encryption", Certs: []string{fix.CertB64("rsa_b")}}}
	case 4:
		return []mKeyDesc{{Use: "", Certs: []string{fix.CertB64("rsa_c")}}}
	}
	return []mKeyDesc{{Use: "encryption", Certs: []string{fix.CertB64("rsa_c")}}}
}

var c06Methods = []string{"", "", "http://www.w3.org/2000/09/xmldsig#rsa-sha1", "http://www.w3.org/2001/04/xmldsig-more#rsa-sha256", "http://www.w3.org/2001/04/xmldsig-more#rsa-sha256",
	"http://www.w3.org/2001/04/xmldsig-more#rsa-sha384", "http://www.w3.org/2001/04/xmldsig-more#rsa-sha512"}
var c06BadMethods = []string{"http://www.w3.org/2001/04/xmldsig-more#ecdsa-sha256", "rsa-sha256", "http://www.w3.org/2001/04/xmldsig-more#rsa-sha224"}

func genCfg06(r *rand.Rand) mCfg {
	cfg := mCfg{SSOURL: "https://idp.example.com/saml/sso", Entity: "https://idp.example.com/saml/metadata", Delay: 90 * time.Second, Skew: 180 * time.Second, Key: 1}
	switch r.Intn(5) {
	case 0:
		cfg.Delay, cfg.Skew = 30*time.Second, 10*time.Second
	case 1:
		cfg.Delay, cfg.Skew = time.Duration(1+r.Intn(900))*time.Second, time.Duration(r.Intn(900))*time.Second
	case 2:
		cfg.Delay, cfg.Skew = 5*time.Minute, 0
	}
	cfg.Method = pick(r, c06Methods)
	if r.Intn(25) == 0 {
		cfg.Method = pick(r, c06BadMethods)
	}
	switch r.Intn(8) {
	case 0:
		cfg.Signer, cfg.SignerKind = iptr(pick(r, []int64{2, 3})), "rsa"
	case 1, 2:
		cfg.Signer, cfg.SignerKind = iptr(pick(r, []int64{2, 3})), "opaque-rsa"
	case 3:
		cfg.Signer, cfg.SignerKind = iptr(ecSignerID), "ecdsa"
		if r.Intn(4) != 0 { // mostly a method the key can use; otherwise (RSA method / default) the model says error
			cfg.Method = pick(r, []string{"http://www.w3.org/2001/04/xmldsig-more#ecdsa-sha1", "http://www.w3.org/2001/04/xmldsig-more#ecdsa-sha256",
				"http://www.w3.org/2001/04/xmldsig-more#ecdsa-sha384", "http://www.w3.org/2001/04/xmldsig-more#ecdsa-sha512"})
		}
	}
	if r.Intn(5) == 0 {
		cfg.Entity = "https://idp2.example.net/md?x=1"
	}
	return cfg
}

// ---------- one response ----------

type c06Input struct {
	cfg           mCfg
	md            *mMeta
	regKey        string
	wire          *mWire // nil: IdP-initiated
	issue         time.Time
	sess          mSession
	now, tnow     time.Time
	addr, relay   string
	intermediates bool
	viaServe      bool // use ServeSSO instead of the step-by-step API
	method        string
	// configuration options of the IdentityProvider that must not change what is emitted
	zone           *time.Location // non-nil: TimeNow, the session's times and time.Local are in this zone; the request's IssueInstant carries its offset
	customMaker    bool           // idp.AssertionMaker set (delegates to DefaultAssertionMaker)
	customTemplate bool           // idp.ResponseFormTemplate set
	viaHandler     bool           // enter through idp.Handler() instead of calling ServeSSO directly
	// history: the step runs on a long-lived IdentityProvider / registry instead of fresh ones
	world          *idpWorld
	failWrite      int      // > 0: the ResponseWriter accepts this many body bytes, then fails (delivery fails)
	shortWrite     bool     // with failWrite: a short write instead of an error
	failTemplate   bool     // the configured ResponseFormTemplate fails part-way
	foreignMarkers []string // markers of OTHER requests of the same history: must occur nowhere in what this step writes
}

var c06FailingTemplate = template.Must(template.New("failing-form").Funcs(template.FuncMap{"boom": func() (string, error) {
	return "", errors.New("template data source failed")
}}).Parse(`<html><form method="post" action="{{.URL}}"><input type="hidden" name="SAMLResponse" value="{{.SAMLResponse}}" />{{boom}}</form></html>`))

type countingMaker struct{ calls int }

func (m *countingMaker) MakeAssertion(req *saml.IdpAuthnRequest, session *saml.Session) error {
	m.calls++
	return saml.DefaultAssertionMaker{}.MakeAssertion(req, session)
}

var c06CustomTemplate = template.Must(template.New("custom-form").Parse(`<!doctype html><body data-custom-template="yes" onload="document.forms[0].submit()">` +
	`<form method="post" action="{{.URL}}"><input type="hidden" name="SAMLResponse" value="{{.SAMLResponse}}" />` +
	`<input type="hidden" name="RelayState" value="{{.RelayState}}" /><noscript><button>Continue</button></noscript></form></body>`))

type c06Result struct {
	kind           string // "form" "err" "panic"
	detail         string
	form           formObs
	rnd            mRands
	encRaw         [][]byte
	samlRaw        [][]byte
	html           string
	optionProblems []string
}

func runResponse(c *Ctx, in c06Input) (res c06Result) { return runResponseWith(c, in, nil) }

// runResponseWith: encSource != nil replaces the recording xmlenc random source.
var c06Zones = []*time.Location{time.FixedZone("", 5*3600+1800), time.FixedZone("EST", -5*3600), time.FixedZone("", 2*3600), time.FixedZone("NPT", 5*3600+2700), time.FixedZone("", -8*3600)}

func runResponseWith(c *Ctx, in c06Input, encSource io.Reader) (res c06Result) {
	if in.zone != nil { // the same instants, carried as time.Time values with a non-UTC Location
		oldLocal := time.Local
		time.Local = in.zone
		defer func() { time.Local = oldLocal }()
		in.now, in.tnow, in.sess.Create = in.now.In(in.zone), in.tnow.In(in.zone), in.sess.Create.In(in.zone)
	}
	var idp *saml.IdentityProvider
	if in.world != nil { // the long-lived value, re-configured in place
		idp = in.world.idp
		in.world.setSP(in.regKey, in.md)
		configureIDP(idp, in.cfg, in.sess.toSAML())
	} else {
		reg := &stubRegistry{entries: []mRegEntry{{ID: in.regKey, Kind: "found", MD: in.md}}}
		idp = newIDP(in.cfg, reg, in.sess.toSAML())
	}
	idp.Intermediates, idp.AssertionMaker, idp.ResponseFormTemplate = nil, nil, nil
	if in.intermediates {
		idp.Intermediates = []*x509.Certificate{fix.Cert("rsa_3072")}
	}
	var maker *countingMaker
	if in.customMaker {
		maker = &countingMaker{}
		idp.AssertionMaker = maker
	}
	if in.customTemplate {
		idp.ResponseFormTemplate = c06CustomTemplate
	}
	if in.failTemplate {
		idp.ResponseFormTemplate = c06FailingTemplate
	}
	wrapW := func(w http.ResponseWriter) http.ResponseWriter {
		if in.failWrite > 0 {
			return &failingWriter{ResponseWriter: w, limit: in.failWrite, short: in.shortWrite}
		}
		return w
	}
	defer func() {
		if res.kind == "form" {
			if in.customTemplate != strings.Contains(res.html, "data-custom-template") {
				res.optionProblems = append(res.optionProblems, "ResponseFormTemplate setting not honoured")
			}
			if maker != nil && (in.wire == nil || in.viaServe) && maker.calls != 1 {
				res.optionProblems = append(res.optionProblems, fmt.Sprintf("configured AssertionMaker called %d times", maker.calls))
			}
		}
	}()
	sr, er := newStream(c.Rng, 48), newStream(c.Rng, 96)
	oldS, oldE := saml.RandReader, xmlenc.RandReader
	saml.RandReader, xmlenc.RandReader = sr, er
	if encSource != nil {
		xmlenc.RandReader = encSource
	}
	defer func() {
		saml.RandReader, xmlenc.RandReader = oldS, oldE
		res.rnd = mRands{Saml: sr.stream, Enc: er.stream}
		res.encRaw, res.samlRaw = er.draws, sr.draws
		if n := len(er.draws); n >= 4 {
			for _, d := range er.draws[2 : n-2] {
				res.rnd.WrapN += len(d)
			}
		}
		if p := recover(); p != nil {
			res.kind, res.detail = "panic", fmt.Sprint(p)
		}
	}()
	var body string
	withGlobals(in.cfg, in.now, func() {
		var hr *http.Request
		if in.wire == nil {
			hr = httptestGet(in.cfg.SSOURL)
			hr.RemoteAddr = in.addr
			rec := observeHTTP(func(w http.ResponseWriter) { idp.ServeIDPInitiated(wrapW(w), hr, in.regKey, in.relay) })
			if rec.Kind == "panic" {
				panic(rec.Body)
			}
			res.kind, res.detail, body = "err", fmt.Sprintf("status %d", rec.Code), rec.Body
			if rec.Kind == "form" {
				res.kind = "form"
			}
			return
		}
		hr = httpRequest(in.method, in.cfg.SSOURL, encodeFor(in.method, []byte(in.wire.xml())), in.relay)
		hr.RemoteAddr = in.addr
		if in.viaServe {
			rec := observeHTTP(func(w http.ResponseWriter) {
				if in.viaHandler {
					idp.Handler().ServeHTTP(wrapW(w), hr)
				} else {
					idp.ServeSSO(wrapW(w), hr)
				}
			})
			if rec.Kind == "panic" {
				panic(rec.Body)
			}
			res.kind, res.detail, body = "err", fmt.Sprintf("status %d", rec.Code), rec.Body
			if rec.Kind == "form" {
				res.kind = "form"
			}
			return
		}
		req, err := saml.NewIdpAuthnRequest(idp, hr)
		if err == nil {
			err = req.Validate()
		}
		if err != nil {
			res.kind, res.detail = "err", "validate: "+err.Error()
			return
		}
		saml.TimeNow = func() time.Time { return in.tnow }
		if err := (saml.DefaultAssertionMaker{}).MakeAssertion(req, in.sess.toSAML()); err != nil {
			res.kind, res.detail = "err", "MakeAssertion: "+err.Error()
			return
		}
		rec := observeHTTP(func(w http.ResponseWriter) {
			if err := req.WriteResponse(wrapW(w)); err != nil {
				http.Error(w, err.Error(), 500)
			}
		})
		if rec.Kind == "panic" {
			panic(rec.Body)
		}
		res.kind, res.detail, body = "err", fmt.Sprintf("WriteResponse: %.200s", strings.TrimSpace(rec.Body)), rec.Body
		if rec.Kind == "form" {
			res.kind, res.detail = "form", ""
		}
	})
	if res.kind == "form" {
		res.html = body
		res.form = parseForm(body)
	}
	return res
}

// pageProblems: a written page holds exactly one form with one SAMLResponse, and nothing of another
// request of the same history (its markers, in clear or inside any base64 value of the page)
func pageProblems(page string, foreign []string) []string {
	var out []string
	if n := strings.Count(page, "<form"); n != 1 {
		out = append(out, fmt.Sprintf("%d forms in the written page", n))
	}
	if n := strings.Count(page, `name="SAMLResponse"`); n != 1 {
		out = append(out, fmt.Sprintf("%d SAMLResponse fields in the written page", n))
	}
	if len(foreign) > 0 {
		hay := [][]byte{[]byte(page)}
		for _, m := range pageValueRe.FindAllStringSubmatch(page, -1) {
			if x, err := base64.StdEncoding.DecodeString(html.UnescapeString(m[1])); err == nil {
				hay = append(hay, x)
			}
		}
		for _, h := range hay {
			if f := scanMarkers(h, foreign); len(f) > 0 {
				out = append(out, fmt.Sprintf("data of another request of this history in the written page: %v", f[:1]))
				break
			}
		}
	}
	return out
}

var pageValueRe = regexp.MustCompile(`value="([^"]{40,})"`)

func rqTerm(w *mWire, issue time.Time) string {
	if w == nil {
		return "None"
	}
	return fmt.Sprintf("(Some {| rq_id := %s; rq_version := %s; rq_issue := %s; rq_destination := %s; rq_issuer := %s; rq_acs_url := %s; rq_acs_index := %s |})",
		emit.Str(w.ID), emit.Str(w.Version), emitTime(issue), emit.Str(w.Destination), emit.OptStr(w.Issuer), emit.Str(w.ACSURL), emit.Str(w.ACSIndex))
}

// extraChecks are the parts of the property evaluated on the Go side: the
// certificates embedded in both signatures, structural problems found while
// reading the emitted document.
func extraChecks(in c06Input, res c06Result) []string {
	if res.kind != "form" {
		return nil
	}
	if res.form.Err != nil {
		return []string{"emitted form cannot be read back: " + res.form.Err.Error()}
	}
	r := res.form.Resp
	var out []string
	out = append(out, res.optionProblems...)
	out = append(out, pageProblems(res.html, in.foreignMarkers)...)
	if bytes.Contains(res.form.XML, []byte("META-ONLY")) || (r.Enc != nil && bytes.Contains(r.Enc.PlainXML, []byte("META-ONLY"))) {
		out = append(out, "data that exists only in the SP's metadata (RequestedAttribute values, service names) is echoed in the response")
	}
	out = append(out, r.Problems...)
	out = append(out, r.Sig.Problems...)
	signerID := in.cfg.Key
	if in.cfg.Signer != nil {
		signerID = *in.cfg.Signer
	}
	want := certB64List(certOfAny(signerID))
	if in.intermediates {
		want = append(want, certB64List(fix.Cert("rsa_3072"))...)
	}
	inner := r.PlainSig
	if r.Enc != nil {
		out = append(out, r.Enc.Problems...)
		inner = r.Enc.PlainSig
	}
	out = append(out, inner.Problems...)
	if !reflect.DeepEqual(r.Sig.CertsB64, want) {
		out = append(out, "response signature KeyInfo does not carry the IdP certificate chain")
	}
	if !reflect.DeepEqual(inner.CertsB64, want) {
		out = append(out, "assertion signature KeyInfo does not carry the IdP certificate chain")
	}
	return out
}

func c06Emit(c *Ctx, g *Group, in c06Input, key map[string]string) {
	res := runResponse(c, in)
	obs := "O6Err"
	var specOK *bool
	obsJSON := map[string]any{"kind": res.kind, "detail": res.detail}
	switch res.kind {
	case "panic":
		obs = "O6Panic"
	case "form":
		if res.form.Err != nil {
			obs = "O6Panic"
			specOK = Bptr(false)
			obsJSON["unreadable"] = res.form.Err.Error()
		} else {
			obs = fmt.Sprintf("(O6Form %s %s %s)", emit.Str(registeredAction(in.md, res.form.Action)), res.form.Resp.term(), emit.Str(res.form.Relay))
			obsJSON["form_action"], obsJSON["relay_state"], obsJSON["response_xml"] = res.form.Action, res.form.Relay, string(res.form.XML)
			if res.form.Resp.Enc != nil {
				obsJSON["decrypted_assertion_xml"] = string(res.form.Resp.Enc.PlainXML)
			}
		}
		if p := extraChecks(in, res); len(p) > 0 {
			specOK = Bptr(false)
			obsJSON["problems"] = p
		}
	}
	key["outcome"] = res.kind
	for k, v := range key {
		c.Count(k + "/" + v)
	}
	kind := "sp-initiated"
	var reqXML string
	if in.wire == nil {
		kind = "idp-initiated"
	} else {
		reqXML = in.wire.xml()
	}
	c.Add(g, &Case{
		Key: key,
		Input: map[string]any{"flow": kind, "cfg": in.cfg, "metadata": in.md, "registry_key": in.regKey, "request_xml": reqXML, "session": in.sess,
			"now": in.now.Format(time.RFC3339Nano), "time_now_at_assertion": in.tnow.Format(time.RFC3339Nano), "remote_addr": in.addr, "relay_state": in.relay,
			"intermediates": in.intermediates, "via_serve_sso": in.viaServe, "custom_assertion_maker": in.customMaker, "custom_form_template": in.customTemplate, "via_handler": in.viaHandler},
		Obs: obsJSON,
		Term: fmt.Sprintf("{| c6_cfg := %s; c6_md := %s; c6_certs := %s; c6_rq := %s; c6_sess := %s; c6_now := %s; c6_tnow := %s; c6_addr := %s; c6_relay := %s; c6_rnd := %s; c6_obs := %s |}",
			in.cfg.term(), in.md.term(), certTable(in.md), rqTerm(in.wire, in.issue), in.sess.term(), emitTime(in.now), emitTime(in.tnow), emit.Str(in.addr), emit.Str(in.relay),
			res.rnd.term(), obs),
		ImplSpecOK: specOK,
		Trivial:    res.kind != "form",
	})
}

func genInput06(r *rand.Rand, kds func(*rand.Rand) []mKeyDesc) (c06Input, map[string]string) {
	key := map[string]string{}
	sess := genSession(r)
	if r.Intn(4) == 0 {
		sess = genSessionDistinct(r)
	}
	sess.EmptyNotNil = r.Intn(3) == 0
	in := c06Input{cfg: genCfg06(r), sess: sess, now: pick(r, c05Nows), addr: pick(r, []string{"192.0.2.1:1234", "[2001:db8::1]:443", ""}),
		relay: pick(r, []string{"", "relay-1", "a&b=c", "https://sp.example.com/app?x=1"}), method: pick(r, []string{"GET", "POST"})}
	entity := pick(r, []string{"https://sp.example.com/saml/metadata", "https://sp.example.com/saml/metadata", "urn:sp:example", "https://sp.example.com/entity?a=b"})
	in.md = genMeta06(r, entity, kds)
	in.regKey = entity
	key["regkey"] = "same"
	if r.Intn(5) == 0 { // the registry files the metadata under a different identifier than its entityID
		in.regKey = "https://sp.example.com/registered-as"
		key["regkey"] = "differs-from-entityID"
	}
	in.intermediates = r.Intn(4) == 0
	in.customMaker, in.customTemplate, in.viaHandler = r.Intn(5) == 0, r.Intn(5) == 0, r.Intn(3) == 0
	key["options"] = fmt.Sprintf("maker=%v,template=%v,handler=%v", in.customMaker, in.customTemplate, in.viaHandler)
	in.tnow = in.now
	key["flow"] = "sp-initiated"
	key["zone"] = "utc"
	if r.Intn(5) == 0 {
		key["flow"] = "idp-initiated"
		if r.Intn(3) == 0 {
			in.zone = pick(r, c06Zones)
			key["zone"] = "idp-initiated-zone"
		}
		return in, key
	}
	// request
	w := &mWire{ID: fmt.Sprintf("id-%016x", r.Uint64()), Version: "2.0", Destination: in.cfg.SSOURL, Issuer: sptr(in.regKey)}
	ms := time.Millisecond
	offs := []struct {
		class string
		d     time.Duration
	}{{"issue=now", 0}, {"issue=now", 0}, {"now-1s", -time.Second}, {"skew-edge-1ms", -in.cfg.Skew - ms}, {"skew-edge+1ms", -in.cfg.Skew + ms}, {"skew-edge", -in.cfg.Skew},
		{"limit", -in.cfg.Delay}, {"limit+1ms", -in.cfg.Delay + ms}, {"future+60s", time.Minute}, {"future+170s", 170 * time.Second}, {"now-60s", -time.Minute}, {"future+1h", time.Hour}}
	o := pick(r, offs)
	if o.d < -in.cfg.Delay {
		o.d, o.class = -in.cfg.Delay, "limit"
	}
	key["issue"] = o.class
	in.issue = in.now.Add(o.d)
	w.Issue = sptr(in.issue.UTC().Format("2006-01-02T15:04:05.000Z"))
	if r.Intn(3) == 0 {
		in.zone = pick(r, c06Zones)
		w.Issue = sptr(in.issue.In(in.zone).Format("2006-01-02T15:04:05.000-07:00"))
		key["zone"] = in.zone.String() + in.issue.In(in.zone).Format("-07:00")
	} else if r.Intn(4) == 0 { // only the request carries an offset
		w.Issue = sptr(in.issue.In(pick(r, c06Zones)).Format("2006-01-02T15:04:05.000-07:00"))
		key["zone"] = "request-only"
	}
	// routing: by index (with a different URL in the request on purpose), by URL, by default
	d := in.md.Descs[r.Intn(len(in.md.Descs))]
	e := d.ACS[r.Intn(len(d.ACS))]
	switch r.Intn(6) {
	case 0:
		w.ACSIndex = fmt.Sprint(e.Index)
		key["route"] = "index"
	case 1:
		w.ACSIndex = fmt.Sprint(e.Index)
		w.ACSURL = pick(r, []string{"https://attacker.example.net/collect", in.md.Descs[0].ACS[0].Location, e.Location + "x"})
		key["route"] = "index+other-url"
	case 2, 3:
		w.ACSURL = e.Location
		key["route"] = "url"
	case 4:
		w.ACSURL = e.Location
		w.ACSIndex = pick(r, []string{"77", "x", "01"})
		key["route"] = "url+unmatched-index"
	default:
		key["route"] = "default"
	}
	in.wire = w
	if r.Intn(3) == 0 {
		in.viaServe = true
	} else if r.Intn(2) == 0 {
		in.tnow = in.now.Add(pick(r, []time.Duration{time.Second, 1500 * ms, time.Minute}))
	}
	return in, key
}

func runC06(c *Ctx) {
	// the case terms are large (whole responses); several groups so that the shards evaluate in parallel
	var gs []*Group
	for i := 0; i < 8; i++ {
		gs = append(gs, c.Group(fmt.Sprintf("resp%d", i), []string{"IdPModel"}, "c06case", "check_c06"))
	}
	var gst []*Group
	for i := 0; i < 4; i++ {
		gst = append(gst, c.Group(fmt.Sprintf("steps%d", i), []string{"IdPModel"}, "c08scase", "check_c06s"))
	}
	// histories on one long-lived IdentityProvider / registry
	gh := []*Group{c.Group("hist0", []string{"IdPModel"}, "c06case", "check_c06"), c.Group("hist1", []string{"IdPModel"}, "c06case", "check_c06")}
	hn := 0
	rounds := 2
	if c.Thorough() {
		rounds = 20
	}
	runHistories(c, func(in c06Input, _ []mKeyDesc, _ []string, key map[string]string) {
		c06Emit(c, gh[hn%2], in, key)
		hn++
	}, rounds)
	n := 700
	if c.Thorough() {
		n = 12000
	}
	for i := 0; i < n; i++ {
		in, key := genInput06(c.Rng, simpleKDs)
		if in.wire != nil && i%2 == 0 { // the same request through the step API: every routing, every binding
			stepCase(c, gst[(i/2)%len(gst)], in, nil, map[string]string{"class": "step-api", "route": key["route"]}, map[string]any{"cfg": in.cfg})
		}
		key["method"] = in.cfg.Method
		if in.cfg.Signer != nil {
			key["signer"] = "crypto.Signer:" + in.cfg.SignerKind
		} else {
			key["signer"] = "Key"
		}
		key["kds"] = fmt.Sprint(len(in.md.Descs[0].KDs))
		c06Emit(c, gs[i%len(gs)], in, key)
	}
}
