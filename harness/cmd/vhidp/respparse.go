package main

// Independent reading of what the IdP emitted: HTML form -> base64 -> XML ->
// projection onto the model's response record, with the two enveloped
// signatures verified by hand (goxmldsig is used only as a canonicaliser) and
// the EncryptedAssertion opened by hand with crypto/rsa + crypto/aes.

import (
	"bytes"
	"crypto"
	"crypto/aes"
	"crypto/cipher"
	"crypto/ecdsa"
	"crypto/rsa"
	"crypto/sha1"
	"crypto/sha256"
	"crypto/sha512"
	"crypto/x509"
	"encoding/base64"
	"encoding/hex"
	"errors"
	"fmt"
	"hash"
	"html"
	"regexp"
	"strings"
	"time"

	"github.com/beevik/etree"
	dsig "github.com/russellhaering/goxmldsig"
	"github.com/russellhaering/goxmldsig/etreeutils"

	"verifharness/internal/emit"
	"verifharness/internal/fix"
)

type mAttrValue struct {
	Type, Value string
	NameID      *mNameID // the optional NameID child of the AttributeValue
}
type mAttribute struct {
	Friendly, Name, Format string
	Values                 []mAttrValue
}
type mSession struct {
	Create                                                           time.Time
	Index, NameID, NameIDFormat, SubjectID                           string
	Groups                                                           []string
	UserName, Email, CommonName, Surname, GivenName, ScopedAff, EPPN string
	Custom                                                           []mAttribute
	EmptyNotNil                                                      bool // hand empty slices to the library as non-nil empty slices (same session for the model)
}

func (v mAttrValue) term() string {
	nid := "None"
	if v.NameID != nil {
		nid = fmt.Sprintf("(Some (Build_nameid %s %s %s %s))", emit.Str(v.NameID.Format), emit.Str(v.NameID.NameQualifier),
			emit.Str(v.NameID.SPNameQualifier), emit.Str(v.NameID.Value))
	}
	return fmt.Sprintf("(Build_attrvalue %s %s %s)", emit.Str(v.Type), emit.Str(v.Value), nid)
}
func (a mAttribute) term() string {
	var vs []string
	for _, v := range a.Values {
		vs = append(vs, v.term())
	}
	return fmt.Sprintf("(Build_attribute %s %s %s %s)",
		emit.Str(a.Friendly), emit.Str(a.Name), emit.Str(a.Format), emit.List(vs))
}
func attrsTerm(as []mAttribute) string {
	var items []string
	for _, a := range as {
		items = append(items, a.term())
	}
	return emit.List(items)
}
func (s mSession) term() string {
	return fmt.Sprintf("{| ss_create := %s; ss_index := %s; ss_nameid := %s; ss_nameid_format := %s; ss_subject_id := %s; ss_groups := %s; "+
		"ss_user_name := %s; ss_email := %s; ss_common_name := %s; ss_surname := %s; ss_given_name := %s; ss_scoped_aff := %s; ss_eppn := %s; ss_custom := %s |}",
		emitTime(s.Create), emit.Str(s.Index), emit.Str(s.NameID), emit.Str(s.NameIDFormat), emit.Str(s.SubjectID), emit.StrList(s.Groups),
		emit.Str(s.UserName), emit.Str(s.Email), emit.Str(s.CommonName), emit.Str(s.Surname), emit.Str(s.GivenName), emit.Str(s.ScopedAff), emit.Str(s.EPPN),
		attrsTerm(s.Custom))
}

type mNameID struct{ Format, NameQualifier, SPNameQualifier, Value string }
type mAssertion struct {
	ID                                                       string
	IssueInstant                                             time.Time
	Issuer, IssuerFormat                                     string
	NameID                                                   mNameID
	ConfMethod, ConfAddress, ConfInResponseTo, ConfRecipient string
	ConfNOA, NotBefore, NOA, AuthnInstant                    time.Time
	Audiences                                                []string
	SessionIndex, Locality, ClassRef                         string
	Attributes                                               []mAttribute
}

func (a mAssertion) term() string {
	// constructor application (field order of Record assertion / nameid): much faster to elaborate than {| |}
	return fmt.Sprintf("(Build_assertion %s %s %s %s (Build_nameid %s %s %s %s) %s %s %s %s %s %s %s %s %s %s %s %s %s)",
		emit.Str(a.ID), emitTime(a.IssueInstant), emit.Str(a.Issuer), emit.Str(a.IssuerFormat),
		emit.Str(a.NameID.Format), emit.Str(a.NameID.NameQualifier), emit.Str(a.NameID.SPNameQualifier), emit.Str(a.NameID.Value),
		emit.Str(a.ConfMethod), emit.Str(a.ConfAddress), emit.Str(a.ConfInResponseTo), emitTime(a.ConfNOA), emit.Str(a.ConfRecipient),
		emitTime(a.NotBefore), emitTime(a.NOA), emit.StrList(a.Audiences), emitTime(a.AuthnInstant), emit.Str(a.SessionIndex), emit.Str(a.Locality),
		emit.Str(a.ClassRef), attrsTerm(a.Attributes))
}

type mSig struct {
	Signer      int64 // key pair under whose certificate digest + signature value verified; 0 none
	Method, Ref string
	Problems    []string
	CertsB64    []string
}

func (s mSig) term(over string) string {
	return fmt.Sprintf("{| sg_signer := %s; sg_method := %s; sg_ref := %s; sg_over := %s |}", emit.Z(s.Signer), emit.Str(s.Method), emit.Str(s.Ref), over)
}

type mEnc struct {
	Recipient               int64
	Key, KeyID, DataID, IV  []byte
	Plain                   mAssertion
	PlainSig                mSig
	PlainXML                []byte
	OtherKeysFail           bool
	Problems                []string
	KeyAlg, DataAlg, Digest string
}

type mResponse struct {
	ID, InResponseTo, Destination, Issuer, IssuerFormat, Status string
	IssueInstant                                                time.Time
	Sig                                                         mSig
	Plain                                                       *mAssertion
	PlainSig                                                    mSig
	Enc                                                         *mEnc
	Problems                                                    []string
}

func (r mResponse) bodyTerm() string {
	var ael string
	if r.Enc != nil {
		ael = fmt.Sprintf("(let a := %s in AEnc {| en_recipient := %s; en_key := %s; en_key_id := %s; en_data_id := %s; en_iv := %s; en_plain := (a, %s) |})",
			r.Enc.Plain.term(), emit.Z(r.Enc.Recipient), emit.Str(string(r.Enc.Key)), emit.Str(string(r.Enc.KeyID)), emit.Str(string(r.Enc.DataID)), emit.Str(string(r.Enc.IV)),
			r.Enc.PlainSig.term("a"))
	} else if r.Plain != nil {
		ael = fmt.Sprintf("(let a := %s in APlain a %s)", r.Plain.term(), r.PlainSig.term("a"))
	}
	return fmt.Sprintf("{| rs_id := %s; rs_in_response_to := %s; rs_issue_instant := %s; rs_destination := %s; rs_issuer := %s; rs_issuer_format := %s; rs_status := %s; rs_assertion := %s |}",
		emit.Str(r.ID), emit.Str(r.InResponseTo), emitTime(r.IssueInstant), emit.Str(r.Destination), emit.Str(r.Issuer), emit.Str(r.IssuerFormat), emit.Str(r.Status), ael)
}
func (r mResponse) term() string {
	return fmt.Sprintf("(let b := %s in {| rs_body := b; rs_sig := %s |})", r.bodyTerm(), r.Sig.term("b"))
}

// ---------- XML helpers ----------

func attrOf(el *etree.Element, name string) string {
	if el == nil {
		return ""
	}
	for _, a := range el.Attr {
		if a.Space == "" && a.Key == name {
			return a.Value
		}
	}
	return ""
}
func attrNS(el *etree.Element, space, name string) string {
	if el == nil {
		return ""
	}
	for _, a := range el.Attr {
		if a.Space == space && a.Key == name {
			return a.Value
		}
	}
	return ""
}
func textOf(el *etree.Element) string {
	if el == nil {
		return ""
	}
	return el.Text()
}
func timeAttr(el *etree.Element, name string, problems *[]string) time.Time {
	v := attrOf(el, name)
	if v == "" {
		return time.Time{}
	}
	t, err := time.Parse(time.RFC3339Nano, v)
	if err != nil {
		*problems = append(*problems, "unparsable instant "+name+"="+v)
		return time.Time{}
	}
	return t.UTC()
}
func child(el *etree.Element, tag string) *etree.Element {
	if el == nil {
		return nil
	}
	return el.SelectElement(tag)
}

func parseAssertionEl(el *etree.Element, problems *[]string) mAssertion {
	a := mAssertion{ID: attrOf(el, "ID"), IssueInstant: timeAttr(el, "IssueInstant", problems)}
	if attrOf(el, "Version") != "2.0" {
		*problems = append(*problems, "assertion Version is not 2.0")
	}
	iss := child(el, "Issuer")
	a.Issuer, a.IssuerFormat = textOf(iss), attrOf(iss, "Format")
	subj := child(el, "Subject")
	nid := child(subj, "NameID")
	a.NameID = mNameID{attrOf(nid, "Format"), attrOf(nid, "NameQualifier"), attrOf(nid, "SPNameQualifier"), textOf(nid)}
	if subj != nil && len(subj.SelectElements("SubjectConfirmation")) != 1 {
		*problems = append(*problems, "expected exactly one SubjectConfirmation")
	}
	sc := child(subj, "SubjectConfirmation")
	a.ConfMethod = attrOf(sc, "Method")
	scd := child(sc, "SubjectConfirmationData")
	a.ConfAddress, a.ConfInResponseTo, a.ConfRecipient = attrOf(scd, "Address"), attrOf(scd, "InResponseTo"), attrOf(scd, "Recipient")
	a.ConfNOA = timeAttr(scd, "NotOnOrAfter", problems)
	cond := child(el, "Conditions")
	a.NotBefore, a.NOA = timeAttr(cond, "NotBefore", problems), timeAttr(cond, "NotOnOrAfter", problems)
	if cond != nil {
		for _, ar := range cond.SelectElements("AudienceRestriction") {
			for _, au := range ar.SelectElements("Audience") {
				a.Audiences = append(a.Audiences, au.Text())
			}
		}
	}
	if len(el.SelectElements("AuthnStatement")) != 1 || len(el.SelectElements("AttributeStatement")) != 1 {
		*problems = append(*problems, "expected one AuthnStatement and one AttributeStatement")
	}
	as := child(el, "AuthnStatement")
	a.AuthnInstant, a.SessionIndex = timeAttr(as, "AuthnInstant", problems), attrOf(as, "SessionIndex")
	a.Locality = attrOf(child(as, "SubjectLocality"), "Address")
	a.ClassRef = textOf(child(child(as, "AuthnContext"), "AuthnContextClassRef"))
	if ats := child(el, "AttributeStatement"); ats != nil {
		for _, at := range ats.SelectElements("Attribute") {
			ma := mAttribute{Friendly: attrOf(at, "FriendlyName"), Name: attrOf(at, "Name"), Format: attrOf(at, "NameFormat")}
			for _, v := range at.SelectElements("AttributeValue") {
				mv := mAttrValue{Type: attrNS(v, "xsi", "type"), Value: v.Text()}
				if n := child(v, "NameID"); n != nil {
					mv.NameID = &mNameID{attrOf(n, "Format"), attrOf(n, "NameQualifier"), attrOf(n, "SPNameQualifier"), textOf(n)}
					if len(v.SelectElements("NameID")) != 1 || strings.TrimSpace(v.Tail()) != "" {
						*problems = append(*problems, "AttributeValue with more than one NameID child")
					}
				}
				ma.Values = append(ma.Values, mv)
			}
			a.Attributes = append(a.Attributes, ma)
		}
	}
	return a
}

var hashByMethod = map[string]crypto.Hash{
	dsig.RSASHA1SignatureMethod: crypto.SHA1, dsig.RSASHA256SignatureMethod: crypto.SHA256,
	dsig.RSASHA384SignatureMethod: crypto.SHA384, dsig.RSASHA512SignatureMethod: crypto.SHA512,
	dsig.ECDSASHA1SignatureMethod: crypto.SHA1, dsig.ECDSASHA256SignatureMethod: crypto.SHA256,
	dsig.ECDSASHA384SignatureMethod: crypto.SHA384, dsig.ECDSASHA512SignatureMethod: crypto.SHA512,
}
var hashByDigest = map[string]func() hash.Hash{
	"http://www.w3.org/2000/09/xmldsig#sha1": sha1.New, "http://www.w3.org/2001/04/xmlenc#sha256": sha256.New,
	"http://www.w3.org/2001/04/xmldsig-more#sha384": sha512.New384, "http://www.w3.org/2001/04/xmlenc#sha512": sha512.New,
}

const excC14N = "http://www.w3.org/2001/10/xml-exc-c14n#"

// verifyEnveloped checks the enveloped signature that is a direct child of el
// (el must be attached to its document so that the namespace context is known).
func verifyEnveloped(el *etree.Element) mSig {
	var s mSig
	bad := func(f string, a ...any) { s.Problems = append(s.Problems, fmt.Sprintf(f, a...)) }
	sigs := el.SelectElements("Signature")
	if len(sigs) != 1 {
		bad("%d Signature children", len(sigs))
		if len(sigs) == 0 {
			return s
		}
	}
	sigEl := sigs[0]
	si := child(sigEl, "SignedInfo")
	s.Method = attrOf(child(si, "SignatureMethod"), "Algorithm")
	if c := attrOf(child(si, "CanonicalizationMethod"), "Algorithm"); c != excC14N {
		bad("CanonicalizationMethod %q", c)
	}
	refs := si.SelectElements("Reference")
	if len(refs) != 1 {
		bad("%d References", len(refs))
		return s
	}
	ref := refs[0]
	s.Ref = attrOf(ref, "URI")
	var tr []string
	if t := child(ref, "Transforms"); t != nil {
		for _, x := range t.SelectElements("Transform") {
			tr = append(tr, attrOf(x, "Algorithm"))
			if inc := child(x, "InclusiveNamespaces"); inc != nil && attrOf(inc, "PrefixList") != "" {
				bad("non-empty InclusiveNamespaces PrefixList %q", attrOf(inc, "PrefixList"))
			}
		}
	}
	if len(tr) != 2 || tr[0] != "http://www.w3.org/2000/09/xmldsig#enveloped-signature" || tr[1] != excC14N {
		bad("transforms %v", tr)
	}
	for _, x := range child(child(sigEl, "KeyInfo"), "X509Data").SelectElements("X509Certificate") {
		s.CertsB64 = append(s.CertsB64, x.Text())
	}
	canon := dsig.MakeC14N10ExclusiveCanonicalizerWithPrefixList("")
	// digest over the element without its Signature child
	ctx, err := etreeutils.NSBuildParentContext(el)
	if err != nil {
		bad("ns context: %v", err)
		return s
	}
	detached, err := etreeutils.NSDetatch(ctx, el)
	if err != nil {
		bad("detach: %v", err)
		return s
	}
	for _, c := range detached.SelectElements("Signature") {
		detached.RemoveChild(c)
	}
	data, err := canon.Canonicalize(detached)
	if err != nil {
		bad("canonicalize: %v", err)
		return s
	}
	newHash, ok := hashByDigest[attrOf(child(ref, "DigestMethod"), "Algorithm")]
	if !ok {
		bad("digest method %q", attrOf(child(ref, "DigestMethod"), "Algorithm"))
		return s
	}
	h := newHash()
	h.Write(data)
	want, _ := base64.StdEncoding.DecodeString(textOf(child(ref, "DigestValue")))
	digestOK := bytes.Equal(h.Sum(nil), want)
	if !digestOK {
		bad("digest mismatch")
	}
	// signature value over the canonical SignedInfo
	sctx, err := etreeutils.NSBuildParentContext(si)
	if err != nil {
		bad("ns context: %v", err)
		return s
	}
	dsi, err := etreeutils.NSDetatch(sctx, si)
	if err != nil {
		bad("detach: %v", err)
		return s
	}
	sidata, err := canon.Canonicalize(dsi)
	if err != nil {
		bad("canonicalize: %v", err)
		return s
	}
	hh, ok := hashByMethod[s.Method]
	if !ok {
		bad("signature method %q", s.Method)
		return s
	}
	if hashByDigestHash(attrOf(child(ref, "DigestMethod"), "Algorithm")) != hh {
		bad("digest method does not match signature method")
	}
	hs := hh.New()
	hs.Write(sidata)
	sum := hs.Sum(nil)
	sv, err := base64.StdEncoding.DecodeString(strings.TrimSpace(textOf(child(sigEl, "SignatureValue"))))
	if err != nil {
		bad("signature value base64")
		return s
	}
	if digestOK {
		if strings.Contains(s.Method, "#ecdsa-") {
			// goxmldsig hands the crypto.Signer's output through unchanged: ASN.1 DER for an ECDSA key
			if ecdsa.VerifyASN1(&fix.ECKey("ec_256").PublicKey, sum, sv) {
				s.Signer = ecSignerID
			}
		} else {
			for id := int64(1); id <= 3; id++ {
				if rsa.VerifyPKCS1v15(&keyOf(id).PublicKey, hh, sum, sv) == nil {
					s.Signer = id
				}
			}
		}
		if s.Signer == 0 {
			bad("signature value verifies under none of the fixture keys")
		}
	}
	return s
}

func hashByDigestHash(uri string) crypto.Hash {
	switch uri {
	case "http://www.w3.org/2000/09/xmldsig#sha1":
		return crypto.SHA1
	case "http://www.w3.org/2001/04/xmlenc#sha256":
		return crypto.SHA256
	case "http://www.w3.org/2001/04/xmldsig-more#sha384":
		return crypto.SHA384
	case "http://www.w3.org/2001/04/xmlenc#sha512":
		return crypto.SHA512
	}
	return 0
}

func unhexID(s string) []byte {
	b, err := hex.DecodeString(strings.TrimPrefix(s, "_"))
	if err != nil {
		return []byte("?" + s)
	}
	return b
}

// openEncrypted opens an EncryptedAssertion by hand.
func openEncrypted(encAssertion *etree.Element) (*mEnc, error) {
	e := &mEnc{}
	ed := child(encAssertion, "EncryptedData")
	if ed == nil {
		return nil, errors.New("no EncryptedData")
	}
	if t := attrOf(ed, "Type"); t != "http://www.w3.org/2001/04/xmlenc#Element" {
		e.Problems = append(e.Problems, "EncryptedData Type "+t)
	}
	e.DataID = unhexID(attrOf(ed, "Id"))
	e.DataAlg = attrOf(child(ed, "EncryptionMethod"), "Algorithm")
	ek := child(child(ed, "KeyInfo"), "EncryptedKey")
	if ek == nil {
		return nil, errors.New("no EncryptedKey")
	}
	e.KeyID = unhexID(attrOf(ek, "Id"))
	em := child(ek, "EncryptionMethod")
	e.KeyAlg = attrOf(em, "Algorithm")
	e.Digest = attrOf(child(em, "DigestMethod"), "Algorithm")
	if e.DataAlg != "http://www.w3.org/2001/04/xmlenc#aes128-cbc" || e.KeyAlg != "http://www.w3.org/2001/04/xmlenc#rsa-oaep-mgf1p" || e.Digest != "http://www.w3.org/2000/09/xmldsig#sha1" {
		e.Problems = append(e.Problems, fmt.Sprintf("algorithms %s / %s / %s", e.DataAlg, e.KeyAlg, e.Digest))
	}
	wrapped, err := base64.StdEncoding.DecodeString(strings.TrimSpace(textOf(child(child(ek, "CipherData"), "CipherValue"))))
	if err != nil {
		return nil, err
	}
	ct, err := base64.StdEncoding.DecodeString(strings.TrimSpace(textOf(child(child(ed, "CipherData"), "CipherValue"))))
	if err != nil {
		return nil, err
	}
	e.OtherKeysFail = true
	for id := int64(1); id <= 3; id++ {
		k, err := rsa.DecryptOAEP(sha1.New(), nil, keyOf(id), wrapped, nil)
		if err == nil {
			if e.Recipient != 0 {
				e.OtherKeysFail = false
			}
			e.Recipient, e.Key = id, k
		}
	}
	if e.Recipient == 0 {
		return nil, errors.New("no fixture key unwraps the content key")
	}
	if len(e.Key) != 16 || len(ct) < 32 || len(ct)%16 != 0 {
		return nil, fmt.Errorf("key length %d, ciphertext length %d", len(e.Key), len(ct))
	}
	blk, _ := aes.NewCipher(e.Key)
	e.IV = ct[:16]
	pt := make([]byte, len(ct)-16)
	cipher.NewCBCDecrypter(blk, e.IV).CryptBlocks(pt, ct[16:])
	pad := int(pt[len(pt)-1])
	if pad < 1 || pad > 16 || pad > len(pt) {
		return nil, fmt.Errorf("padding byte %d", pad)
	}
	e.PlainXML = pt[:len(pt)-pad]
	doc := etree.NewDocument()
	if err := doc.ReadFromBytes(e.PlainXML); err != nil || doc.Root() == nil {
		return nil, fmt.Errorf("plaintext is not XML: %v", err)
	}
	if doc.Root().Tag != "Assertion" {
		return nil, errors.New("plaintext root is " + doc.Root().Tag)
	}
	e.Plain = parseAssertionEl(doc.Root(), &e.Problems)
	e.PlainSig = verifyEnveloped(doc.Root())
	return e, nil
}

// parseResponseXML projects the emitted Response document.
func parseResponseXML(x []byte) (*mResponse, error) {
	doc := etree.NewDocument()
	if err := doc.ReadFromBytes(x); err != nil {
		return nil, err
	}
	root := doc.Root()
	if root == nil || root.Tag != "Response" {
		return nil, errors.New("root is not Response")
	}
	r := &mResponse{ID: attrOf(root, "ID"), InResponseTo: attrOf(root, "InResponseTo"), Destination: attrOf(root, "Destination")}
	r.IssueInstant = timeAttr(root, "IssueInstant", &r.Problems)
	if attrOf(root, "Version") != "2.0" {
		r.Problems = append(r.Problems, "response Version is not 2.0")
	}
	iss := child(root, "Issuer")
	r.Issuer, r.IssuerFormat = textOf(iss), attrOf(iss, "Format")
	r.Status = attrOf(child(child(root, "Status"), "StatusCode"), "Value")
	r.Sig = verifyEnveloped(root)
	plain, enc := root.SelectElements("Assertion"), root.SelectElements("EncryptedAssertion")
	switch {
	case len(plain) == 1 && len(enc) == 0:
		a := parseAssertionEl(plain[0], &r.Problems)
		r.Plain = &a
		r.PlainSig = verifyEnveloped(plain[0])
	case len(plain) == 0 && len(enc) == 1:
		e, err := openEncrypted(enc[0])
		if err != nil {
			return nil, fmt.Errorf("EncryptedAssertion: %v", err)
		}
		r.Enc = e
	default:
		return nil, fmt.Errorf("%d Assertion and %d EncryptedAssertion elements", len(plain), len(enc))
	}
	return r, nil
}

var inputRe = regexp.MustCompile(`<input type="hidden" name="(SAMLResponse|RelayState)" value="([^"]*)"`)

type formObs struct {
	Action, Relay string
	XML           []byte
	Resp          *mResponse
	Err           error
}

// parseForm reads the HTML page written by WriteResponse.
func parseForm(body string) formObs {
	var f formObs
	m := actionRe.FindStringSubmatch(body)
	if m == nil {
		f.Err = errors.New("no form")
		return f
	}
	f.Action = html.UnescapeString(m[1])
	var b64 string
	for _, mm := range inputRe.FindAllStringSubmatch(body, -1) {
		if mm[1] == "SAMLResponse" {
			b64 = html.UnescapeString(mm[2])
		} else {
			f.Relay = html.UnescapeString(mm[2])
		}
	}
	x, err := base64.StdEncoding.DecodeString(b64)
	if err != nil {
		f.Err = err
		return f
	}
	f.XML = x
	f.Resp, f.Err = parseResponseXML(x)
	return f
}

func certB64List(cs ...*x509.Certificate) []string {
	var out []string
	for _, c := range cs {
		out = append(out, base64.StdEncoding.EncodeToString(c.Raw))
	}
	return out
}
