package main

import . "verifharness/internal/core"

func c07Pipeline(c *Ctx) {}
