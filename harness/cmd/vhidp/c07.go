package main

// C07 pipeline: the real SP builds an AuthnRequest, the real IdP (registered
// from the SP's published metadata, serialised and re-parsed) validates it and
// answers for a session made of hostile strings, the real SP (configured from
// the IdP's published metadata, serialised and re-parsed) parses the response.

import (
	. "verifharness/internal/core"

	"crypto"
	"crypto/x509"
	"encoding/base64"
	"encoding/xml"
	"fmt"
	"html"
	"math/rand"
	"net/http"
	"net/http/httptest"
	"net/url"
	"regexp"
	"strings"
	"time"
	"unicode/utf8"

	"github.com/crewjam/saml"
	dsig "github.com/russellhaering/goxmldsig"

	"verifharness/internal/fix"
)

type c07Setup struct {
	entityIDSet   bool
	spKey         string // rsa_b rsa_c ec_256
	cert          bool   // sp.Certificate set (=> metadata advertises an encryption key)
	binding       string // redirect | post
	signed        bool
	idpMethod     string
	idpSigner     bool
	idpSignerKind string // "rsa" | "opaque-rsa" | "ecdsa" (with idpSigner)
	idsShape      string // where the answered request id stands among the outstanding ones
	initiated     bool
	idpKey        int64         // idp.Key's key pair (0 = key 1)
	idpEntity     string        // the IdP's entity ID / metadata URL ("" = the usual one)
	idpInterm     int           // number of certificates in idp.Intermediates (fixture certificates as stand-ins)
	delay         time.Duration // configured MaxIssueDelay (0 = the default, 90 s)
	spLate        time.Duration // the SP's clock when it reads the response, after the IdP's clock (IssueInstant)
	spInterm      bool          // sp.Intermediates set
	xmlEntry      bool          // SP entry point ParseXMLResponse instead of ParseResponse
	certWS        string        // how certificate texts are laid out in both metadata documents ("" = single line)
}

func (s c07Setup) key() map[string]string {
	return map[string]string{"entity_id_set": fmt.Sprint(s.entityIDSet), "sp_key": s.spKey, "encryption": fmt.Sprint(s.cert), "request_binding": s.binding,
		"signed_request": fmt.Sprint(s.signed), "idp_method": s.idpMethod, "idp_signer": fmt.Sprint(s.idpSigner) + ":" + s.idpSignerKind, "outstanding_ids": s.idsShape, "idp_initiated": fmt.Sprint(s.initiated), "cert_text_layout": s.certWS, "sp_intermediates": fmt.Sprint(s.spInterm), "sp_entry": map[bool]string{false: "ParseResponse", true: "ParseXMLResponse"}[s.xmlEntry],
		"idp_intermediates": fmt.Sprint(s.idpInterm), "max_issue_delay": s.effDelay().String(), "sp_clock_after_issue_instant": s.spLate.String()}
}

func (s c07Setup) effDelay() time.Duration {
	if s.delay != 0 {
		return s.delay
	}
	return 90 * time.Second
}

// stand-ins for the IdP's intermediate certificates
var c07Intermediates = []string{"rsa_3072", "rsa_4096"}

func xmlReparse(ed *saml.EntityDescriptor) (*saml.EntityDescriptor, error) {
	buf, err := xml.MarshalIndent(ed, "", "  ")
	if err != nil {
		return nil, err
	}
	out := &saml.EntityDescriptor{}
	if err := xml.Unmarshal(buf, out); err != nil {
		return nil, err
	}
	return out, nil
}

type reparsedRegistry struct{ md *saml.EntityDescriptor }

func (r reparsedRegistry) GetServiceProvider(_ *http.Request, id string) (*saml.EntityDescriptor, error) {
	if r.md != nil && r.md.EntityID == id {
		return r.md, nil
	}
	return nil, errNotExist
}

var samlReqRe = regexp.MustCompile(`name="SAMLRequest" value="([^"]*)"`)

type c07Result struct {
	stage     string // where it stopped: "" = SP returned
	detail    string
	accepted  bool
	nameID    string
	attrs     []mAttribute
	relayBack string
	spMD      *saml.EntityDescriptor
	reqACSURL string
	reqIndex  string
	idpStatus int
	encrypted bool
}

var c07Layouts = []string{"wrap64-lf", "wrap64-indented", "wrap76-crlf", "wrap76-crlf-indent", "wrap64-tab", "lead-trail-space", "interior-space", "interior-tab", "formfeed"}

// layoutCerts rewrites the certificate text of a key descriptor the way metadata files carry it.
func layoutCerts(kd *saml.KeyDescriptor, layout string) {
	for i := range kd.KeyInfo.X509Data.X509Certificates {
		d := kd.KeyInfo.X509Data.X509Certificates[i].Data
		if v, ok := wsVariants(stripWS(d))[layout]; ok {
			kd.KeyInfo.X509Data.X509Certificates[i].Data = v
		}
	}
}

func spSigner(name string) crypto.Signer {
	if strings.HasPrefix(name, "ec") {
		return fix.ECKey(name)
	}
	return fix.RSAKey(name)
}

// pipeWorld: values that stay alive across pipeline runs of one history
type pipeWorld struct {
	idp *saml.IdentityProvider // long-lived IdP, re-configured in place
	sp  *saml.ServiceProvider  // long-lived SP; its IDPMetadata is replaced when the IdP's metadata is refreshed
}

func runPipeline(setup c07Setup, sess mSession, now time.Time, relay string) (res c07Result) {
	return runPipelineOn(nil, setup, sess, now, relay)
}

func runPipelineOn(pw *pipeWorld, setup c07Setup, sess mSession, now time.Time, relay string) (res c07Result) {
	defer func() {
		if p := recover(); p != nil {
			res.stage, res.detail = "panic", fmt.Sprint(p)
		}
	}()
	cfg := mCfg{SSOURL: "https://idp.example.com/saml/sso", Entity: "https://idp.example.com/saml/metadata", Delay: 90 * time.Second, Skew: 180 * time.Second, Key: 1, Method: setup.idpMethod}
	cfg.Delay = setup.effDelay()
	if setup.idpKey != 0 {
		cfg.Key = setup.idpKey
	}
	if setup.idpEntity != "" {
		cfg.Entity, cfg.SSOURL = setup.idpEntity, strings.TrimSuffix(setup.idpEntity, "/metadata")+"/sso"
	}
	if setup.idpSigner {
		cfg.Signer, cfg.SignerKind = iptr(2), setup.idpSignerKind
		if setup.idpSignerKind == "ecdsa" {
			cfg.Signer = iptr(ecSignerID)
			cfg.Method = "http://www.w3.org/2001/04/xmldsig-more#ecdsa-sha256"
		}
	}
	withGlobals(cfg, now, func() {
		var idp *saml.IdentityProvider
		if pw != nil && pw.idp != nil {
			idp = pw.idp
			configureIDP(idp, cfg, sess.toSAML())
		} else {
			idp = newIDP(cfg, nil, sess.toSAML())
		}
		idp.Intermediates = nil
		for _, n := range c07Intermediates[:setup.idpInterm] {
			idp.Intermediates = append(idp.Intermediates, fix.Cert(n))
		}
		idpMD, err := xmlReparse(idp.Metadata())
		if err != nil {
			res.stage, res.detail = "idp-metadata", err.Error()
			return
		}
		if setup.certWS != "" { // the IdP metadata file the SP consumes is pretty-printed too
			for i := range idpMD.IDPSSODescriptors {
				for j := range idpMD.IDPSSODescriptors[i].KeyDescriptors {
					layoutCerts(&idpMD.IDPSSODescriptors[i].KeyDescriptors[j], setup.certWS)
				}
			}
		}
		sp := &saml.ServiceProvider{}
		if pw != nil && pw.sp != nil {
			sp = pw.sp // the long-lived value: fields assigned in place, IDPMetadata refreshed
		}
		sp.Key = spSigner(setup.spKey)
		sp.MetadataURL = mustURL("https://sp.example.com/saml2/metadata")
		sp.AcsURL = mustURL("https://sp.example.com/saml2/acs")
		sp.IDPMetadata = idpMD
		sp.AllowIDPInitiated = setup.initiated
		sp.EntityID, sp.Certificate, sp.Intermediates, sp.SignatureMethod = "", nil, nil, ""
		if setup.entityIDSet {
			sp.EntityID = "spn:example-sp"
		}
		if setup.cert {
			sp.Certificate = fix.Cert(setup.spKey)
			if setup.spInterm {
				sp.Intermediates = []*x509.Certificate{fix.Cert("rsa_3072")}
			}
		}
		if setup.signed {
			if strings.HasPrefix(setup.spKey, "ec") {
				sp.SignatureMethod = dsig.ECDSASHA256SignatureMethod
			} else {
				sp.SignatureMethod = dsig.RSASHA256SignatureMethod
			}
		}
		spMD, err := xmlReparse(sp.Metadata())
		if err != nil {
			res.stage, res.detail = "sp-metadata", err.Error()
			return
		}
		if setup.certWS != "" { // the SP metadata as registered at the IdP: wrapped / indented certificate text
			for i := range spMD.SPSSODescriptors {
				for j := range spMD.SPSSODescriptors[i].KeyDescriptors {
					layoutCerts(&spMD.SPSSODescriptors[i].KeyDescriptors[j], setup.certWS)
				}
			}
		}
		res.spMD = spMD
		idp.ServiceProviderProvider = reparsedRegistry{spMD}
		rec := httptest.NewRecorder()
		var ids []string
		if setup.initiated {
			idp.ServeIDPInitiated(rec, httptestGet(cfg.SSOURL), spMD.EntityID, relay)
		} else {
			bind := saml.HTTPRedirectBinding
			if setup.binding == "post" {
				bind = saml.HTTPPostBinding
			}
			req, err := sp.MakeAuthenticationRequest(sp.GetSSOBindingLocation(bind), bind, saml.HTTPPostBinding)
			if err != nil {
				res.stage, res.detail = "sp-make-request", err.Error()
				return
			}
			// the SP may have several requests outstanding (two tabs, a retry); the answered one
			// can stand anywhere in the list handed to ParseResponse
			switch setup.idsShape {
			case "first-of-3":
				ids = []string{req.ID, "id-other-1", "id-other-2"}
			case "middle-of-3":
				ids = []string{"id-other-1", req.ID, "id-other-2"}
			case "last-of-3":
				ids = []string{"id-other-1", "id-other-2", req.ID}
			case "first-of-2":
				ids = []string{req.ID, "id-other-1"}
			case "last-of-2":
				ids = []string{"id-other-1", req.ID}
			case "twice":
				ids = []string{req.ID, "id-other-1", req.ID}
			case "first-then-prefix":
				ids = []string{req.ID, req.ID[:len(req.ID)-1], req.ID + "0"}
			default:
				ids = []string{req.ID}
			}
			res.reqACSURL, res.reqIndex = req.AssertionConsumerServiceURL, req.AssertionConsumerServiceIndex
			var hr *http.Request
			if setup.binding == "post" {
				form := string(req.Post(relay))
				m := samlReqRe.FindStringSubmatch(form)
				if m == nil {
					res.stage, res.detail = "sp-post-form", "no SAMLRequest input"
					return
				}
				hr = httpRequest("POST", cfg.SSOURL, html.UnescapeString(m[1]), relay)
			} else {
				u, err := req.Redirect(relay, sp)
				if err != nil {
					res.stage, res.detail = "sp-redirect", err.Error()
					return
				}
				hr = httptest.NewRequest("GET", u.String(), nil)
			}
			idp.ServeSSO(rec, hr)
		}
		res.idpStatus = rec.Code
		if rec.Code != 200 {
			res.stage, res.detail = "idp", fmt.Sprintf("status %d", rec.Code)
			return
		}
		body := rec.Body.String()
		am := actionRe.FindStringSubmatch(body)
		if am == nil {
			res.stage, res.detail = "idp-form", "no form"
			return
		}
		vals := url.Values{}
		for _, mm := range inputRe.FindAllStringSubmatch(body, -1) {
			vals.Set(mm[1], html.UnescapeString(mm[2]))
		}
		res.relayBack = vals.Get("RelayState")
		if x, err := base64.StdEncoding.DecodeString(vals.Get("SAMLResponse")); err == nil {
			res.encrypted = strings.Contains(string(x), "EncryptedAssertion") && !strings.Contains(string(x), "<saml:Assertion")
		}
		pr := httptest.NewRequest("POST", html.UnescapeString(am[1]), strings.NewReader(vals.Encode()))
		pr.Header.Set("Content-Type", "application/x-www-form-urlencoded")
		if err := pr.ParseForm(); err != nil {
			res.stage, res.detail = "sp-form", err.Error()
			return
		}
		saml.TimeNow = func() time.Time { return now.Add(setup.spLate) } // the SP's clock (restored by withGlobals)
		var a *saml.Assertion
		if setup.xmlEntry {
			raw, derr := base64.StdEncoding.DecodeString(pr.PostForm.Get("SAMLResponse"))
			if derr != nil {
				res.stage, res.detail = "sp-form", derr.Error()
				return
			}
			a, err = sp.ParseXMLResponse(raw, ids, *pr.URL)
		} else {
			a, err = sp.ParseResponse(pr, ids)
		}
		if err != nil {
			res.detail = err.Error()
			if ire, ok := err.(*saml.InvalidResponseError); ok && ire.PrivateErr != nil {
				res.detail = ire.PrivateErr.Error()
			}
			return
		}
		res.accepted = true
		if a.Subject != nil && a.Subject.NameID != nil {
			res.nameID = a.Subject.NameID.Value
		}
		for _, st := range a.AttributeStatements {
			for _, at := range st.Attributes {
				ma := mAttribute{Friendly: at.FriendlyName, Name: at.Name, Format: at.NameFormat}
				for _, v := range at.Values {
					mv := mAttrValue{Type: v.Type, Value: v.Value}
					if v.NameID != nil {
						mv.NameID = &mNameID{v.NameID.Format, v.NameID.NameQualifier, v.NameID.SPNameQualifier, v.NameID.Value}
					}
					ma.Values = append(ma.Values, mv)
				}
				res.attrs = append(res.attrs, ma)
			}
		}
	})
	return res
}

var errNotExist = osErrNotExist()

// hostile session strings
func hostileString(r *rand.Rand, class string) string {
	switch class {
	case "plain":
		return pick(r, c06Words)
	case "valid":
		return genHostile(r, true)
	case "cr":
		return pick(r, []string{"a\rb", "\r", "x\r\ny", "\r\n", "end\r", "\rstart", "a\r\rb"})
	case "ws":
		return pick(r, []string{" lead", "trail ", "  ", "\t", "\n", "a\tb", "a\nb", " ", "\n\n x \n"})
	case "markup":
		return pick(r, []string{"<a>", "</saml:NameID>", "a&b", "&amp;", "&#xD;", "\"q\"", "'s'", "<!-- c -->", "<![CDATA[x]]>", "]]>", "a]]>b", "]]", ">", "<?xml?>", "&lt;script&gt;"})
	case "nonbmp":
		return pick(r, []string{"\U0001F600", "a\U0010FFFFb", "\U00010000", "�", "퟿"})
	case "empty":
		return ""
	default: // bytes that are not XML characters
		return genHostile(r, false)
	}
}

var c07Classes = []string{"plain", "valid", "valid", "cr", "ws", "markup", "nonbmp", "empty", "non-xml"}

func hostileSession(r *rand.Rand) (mSession, string) {
	cls := pick(r, c07Classes)
	h := func() string {
		if r.Intn(3) == 0 {
			return hostileString(r, cls)
		}
		if r.Intn(3) == 0 {
			return ""
		}
		return pick(r, c06Words)
	}
	s := mSession{Create: time.Date(2015, 12, 1, 1, 0, 0, 0, time.UTC), Index: h(), NameID: hostileString(r, cls), SubjectID: h(),
		UserName: h(), Email: h(), CommonName: h(), Surname: h(), GivenName: h(), ScopedAff: h(), EPPN: h()}
	if r.Intn(4) == 0 {
		s.NameIDFormat = pick(r, []string{"urn:oasis:names:tc:SAML:1.1:nameid-format:emailAddress", hostileString(r, cls)})
	}
	for i, n := 0, r.Intn(3); i < n; i++ {
		s.Groups = append(s.Groups, h())
	}
	for i, n := 0, r.Intn(3); i < n; i++ {
		a := mAttribute{Friendly: h(), Name: h(), Format: pick(r, []string{"", "urn:oasis:names:tc:SAML:2.0:attrname-format:basic", h()})}
		for j, m := 0, r.Intn(3); j < m; j++ {
			// every content form of an AttributeValue: text only, NameID child only, both, neither
			v := mAttrValue{Type: pick(r, []string{"xs:string", "", "xs:anyURI", h()})}
			shape := r.Intn(6)
			if shape != 1 && shape != 3 {
				v.Value = hostileString(r, cls)
			}
			if shape == 1 || shape == 2 {
				v.NameID = &mNameID{Format: pick(r, []string{"", "urn:oasis:names:tc:SAML:2.0:nameid-format:persistent"}), NameQualifier: h(), SPNameQualifier: h(), Value: hostileString(r, cls)}
			}
			a.Values = append(a.Values, v)
		}
		s.Custom = append(s.Custom, a)
	}
	s.EmptyNotNil = r.Intn(3) == 0 // nil and empty non-nil slices are the same session
	return s, cls
}

func genSetup(r *rand.Rand) c07Setup {
	s := c07Setup{entityIDSet: r.Intn(2) == 0, spKey: pick(r, []string{"rsa_b", "rsa_c", "ec_256"}), cert: r.Intn(2) == 0,
		binding: pick(r, []string{"redirect", "post"}), idpMethod: pick(r, c06Methods), idpSigner: r.Intn(3) == 0, initiated: r.Intn(6) == 0}
	if r.Intn(3) == 0 {
		s.certWS = pick(r, c07Layouts)
	}
	s.spInterm, s.xmlEntry = r.Intn(5) == 0, r.Intn(3) == 0
	if r.Intn(4) == 0 {
		s.idpInterm = 1 + r.Intn(2)
	}
	if r.Intn(5) == 0 { // the SP reads the response some time later, up to exactly MaxIssueDelay
		s.delay = pick(r, []time.Duration{0, 0, time.Second, 5 * time.Minute})
		s.spLate = s.effDelay() - pick(r, []time.Duration{0, 0, time.Millisecond, time.Second, s.effDelay() / 2})
	}
	s.idsShape = pick(r, []string{"single", "single", "first-of-3", "middle-of-3", "last-of-3", "first-of-2", "last-of-2", "twice", "first-then-prefix"})
	if s.idpSigner {
		s.idpSignerKind = pick(r, []string{"rsa", "opaque-rsa", "opaque-rsa", "ecdsa"})
	}
	// an ECDSA SP with a certificate publishes it for signing only (fix F18) and is answered unencrypted
	s.signed = s.cert && r.Intn(2) == 0
	return s
}

func spMetaToModel(ed *saml.EntityDescriptor) *mMeta {
	m := &mMeta{Entity: ed.EntityID}
	for _, d := range ed.SPSSODescriptors {
		md := mSPSSO{}
		for _, e := range d.AssertionConsumerServices {
			md.ACS = append(md.ACS, mEndpoint{Binding: e.Binding, Location: e.Location, Index: e.Index, Default: e.IsDefault})
		}
		for _, k := range d.KeyDescriptors {
			kd := mKeyDesc{Use: k.Use}
			for _, c := range k.KeyInfo.X509Data.X509Certificates {
				kd.Certs = append(kd.Certs, c.Data)
			}
			md.KDs = append(md.KDs, kd)
		}
		m.Descs = append(m.Descs, md)
	}
	return m
}

// c07Histories: one IdentityProvider value whose credentials are rotated in place (the SP is configured from
// its CURRENT metadata each time), and one ServiceProvider value kept alive across a refresh of the IdP's
// metadata and copied (struct copy) for another IdP; every step must be accepted with the session's identity.
func c07Histories(c *Ctx, g *Group) {
	now := c05Nows[0]
	rounds := 3
	if c.Thorough() {
		rounds = 30
	}
	step := func(pw *pipeWorld, setup c07Setup, hist, what string) {
		sess, cls := hostileSession(c.Rng)
		if cdataEndInAttribute(sess) {
			sess, cls = mSession{Create: now, NameID: "alice", UserName: "alice", Groups: []string{"staff"}}, "plain"
		}
		res := runPipelineOn(pw, setup, sess, now, "relay")
		key := setup.key()
		key["string_class"], key["class"], key["history"], key["step"] = cls, "history", hist, what
		c.Count("history/" + hist)
		var specOK *bool
		if res.stage == "panic" {
			specOK = Bptr(false)
		}
		c.Add(g, &Case{
			Key:   key,
			Input: map[string]any{"history": hist, "step": what, "setup": key, "session": sess},
			Obs:   map[string]any{"accepted": res.accepted, "stopped_at": res.stage, "detail": res.detail, "name_id": res.nameID, "attributes": res.attrs},
			Term: fmt.Sprintf("{| c7_sess := %s; c7_accepted := %s; c7_nameid := %s; c7_attrs := %s |}",
				sess.term(), emitBool(res.accepted), emitStr(res.nameID), attrsTerm(res.attrs)),
			ImplSpecOK: specOK,
		})
	}
	for k := 0; k < rounds; k++ {
		base := c07Setup{spKey: "rsa_b", cert: k%2 == 0, binding: pick(c.Rng, []string{"redirect", "post"}), idsShape: "single"}
		// (1) the IdP's signing credentials rotated in place after a first signed response
		pw := &pipeWorld{idp: newIDP(seqBaseCfg(), nil, c05Session)}
		s := base
		step(pw, s, "idp-credentials-rotated", "first response (Key 1, default method)")
		s.idpMethod = rsaSHA256
		step(pw, s, "idp-credentials-rotated", "SignatureMethod changed in place")
		s.idpKey = 3
		step(pw, s, "idp-credentials-rotated", "Key and Certificate replaced in place (key 3)")
		s.idpSigner, s.idpSignerKind = true, "opaque-rsa"
		step(pw, s, "idp-credentials-rotated", "Signer (key 2) set in place")
		s.idpSignerKind = "ecdsa"
		step(pw, s, "idp-credentials-rotated", "ECDSA Signer set in place")
		s.idpInterm = 2
		step(pw, s, "idp-credentials-rotated", "two Intermediates set in place")
		s.idpSigner, s.idpSignerKind, s.idpKey, s.idpMethod = false, "", 1, ""
		step(pw, s, "idp-credentials-rotated", "back to Key 1, Intermediates kept")
		s.idpInterm = 0
		step(pw, s, "idp-credentials-rotated", "Intermediates removed")
		// (2) one ServiceProvider value alive across a refresh of the IdP's metadata, and a struct copy for another IdP
		pw = &pipeWorld{sp: &saml.ServiceProvider{}}
		s = base
		step(pw, s, "sp-kept-alive", "first response from the IdP (key 1)")
		s.idpKey = 3
		step(pw, s, "sp-kept-alive", "IdP rotated to key 3, sp.IDPMetadata refreshed")
		copySP := *pw.sp
		pw2 := &pipeWorld{sp: &copySP}
		s2 := base
		s2.idpEntity, s2.idpKey = "https://idp2.example.net/saml/metadata", 2
		step(pw2, s2, "sp-kept-alive", "struct copy of the SP configured for another IdP (key 2)")
		step(pw, s, "sp-kept-alive", "the original SP again")
		s.idpSigner, s.idpSignerKind = true, "ecdsa"
		step(pw, s, "sp-kept-alive", "IdP rotated to an ECDSA signer, metadata refreshed")
		s.idpSigner, s.idpSignerKind, s.idpKey = false, "", 1
		step(pw, s, "sp-kept-alive", "IdP back to key 1, metadata refreshed")
	}
}

func c07Pipeline(c *Ctx) {
	defer c07Histories(c, c.Group("hist", []string{"IdPModel"}, "c07case", "check_c07"))
	var gs []*Group
	for i := 0; i < 4; i++ {
		gs = append(gs, c.Group(fmt.Sprintf("pipe%d", i), []string{"IdPModel"}, "c07case", "check_c07"))
	}
	gr := c.Group("reg", []string{"IdPModel"}, "c07rcase", "check_c07r")
	glate := c.Group("late", nil, "bool", "check_bools")
	now := c05Nows[0]
	n := 260
	if c.Thorough() {
		n = 5000
	}
	seenSetup := map[string]bool{}
	for i := 0; i < n; i++ {
		setup := genSetup(c.Rng)
		sess, cls := hostileSession(c.Rng)
		if i < 16 { // every residue of the assertion length modulo the cipher block, encrypted
			setup = c07Setup{entityIDSet: i%2 == 0, spKey: "rsa_b", cert: true, binding: "post", idpMethod: ""}
			sess = mSession{Create: now, NameID: strings.Repeat("n", i), UserName: "u", Groups: []string{"g"}}
			cls = "length-sweep"
		}
		switch {
		case i >= 16 && i < 24: // ECDSA SP keys with a certificate (fix F18): answered unencrypted
			setup.spKey, setup.cert, setup.signed = "ec_256", true, i%2 == 0
		case i >= 30 && i < 30+len(c07Layouts): // every certificate text layout, encrypted
			setup = c07Setup{entityIDSet: i%2 == 0, spKey: pick(c.Rng, []string{"rsa_b", "rsa_c"}), cert: true, binding: "redirect", signed: i%3 == 0, certWS: c07Layouts[i-30]}
		case i >= 40 && i < 54: // several outstanding request ids, plaintext and encrypted
			shapes := []string{"first-of-3", "middle-of-3", "last-of-3", "first-of-2", "last-of-2", "twice", "first-then-prefix"}
			setup = c07Setup{entityIDSet: i%2 == 0, spKey: "rsa_b", cert: i >= 47, binding: "post", idsShape: shapes[(i-40)%7], xmlEntry: i%3 == 0}
		case i >= 54 && i < 58: // empty, non-nil Groups / CustomAttributes / Values: no value-less attribute may appear
			setup = c07Setup{entityIDSet: i%2 == 0, spKey: "rsa_b", cert: i >= 56, binding: "post", idsShape: "single"}
			sess = mSession{Create: now, NameID: "alice", UserName: "alice", Email: "a@example.com", EmptyNotNil: true}
			if i%2 == 1 {
				sess.Custom = []mAttribute{{Friendly: "f", Name: "urn:custom:no-values", Format: "urn:x"}}
			}
			cls = "empty-not-nil"
		case i >= 58 && i < 66: // AttributeValue content forms
			setup = c07Setup{entityIDSet: i%2 == 0, spKey: "rsa_c", cert: i >= 62, binding: "redirect", idsShape: "single"}
			nid := &mNameID{Format: "urn:oasis:names:tc:SAML:2.0:nameid-format:persistent", NameQualifier: "https://idp.example.com/", SPNameQualifier: "spn", Value: "opaque-1"}
			vals := [][]mAttrValue{{{Type: "xs:string", Value: "text"}}, {{Type: "", NameID: nid}}, {{Type: "xs:string", Value: "primary:", NameID: nid}}, {{Type: "xs:string"}}}[i%4]
			sess = mSession{Create: now, NameID: "alice", Custom: []mAttribute{{Friendly: "tid", Name: "urn:oid:1.3.6.1.4.1.5923.1.1.1.10", Format: "urn:oasis:names:tc:SAML:2.0:attrname-format:uri", Values: vals}}}
			cls = "attribute-value-forms"
		case i >= 66 && i < 78: // idp.Intermediates with 1, 2 certificates x Key / opaque Signer / ECDSA Signer x plaintext / encrypted
			j := i - 66
			setup = c07Setup{entityIDSet: i%2 == 0, spKey: "rsa_b", cert: j%2 == 1, binding: "post", idsShape: "single", idpInterm: 1 + (j/2)%2}
			switch j / 4 {
			case 1:
				setup.idpSigner, setup.idpSignerKind = true, "opaque-rsa"
			case 2:
				setup.idpSigner, setup.idpSignerKind = true, "ecdsa"
			}
		case i >= 78 && i < 90: // the SP reads the response exactly MaxIssueDelay after its IssueInstant, 1 ms earlier, 1 ms later
			j := i - 78
			setup = c07Setup{entityIDSet: i%2 == 0, spKey: "rsa_c", cert: j >= 6, binding: "redirect", idsShape: "single"}
			setup.delay = []time.Duration{0, 5 * time.Minute}[(j/3)%2]
			setup.spLate = setup.effDelay() + []time.Duration{-time.Millisecond, 0, time.Millisecond}[j%3]
		case i >= 24 && i < 30: // "]]>" in each string that travels as an XML attribute (known finding K4)
			sess = mSession{Create: now, NameID: "alice", UserName: "u"}
			at := mAttribute{Friendly: "f", Name: "n", Format: "urn:x", Values: []mAttrValue{{Type: "xs:string", Value: "v]]>"}}}
			switch i {
			case 24:
				sess.Index = "i]]>"
			case 25:
				sess.NameIDFormat = "urn:]]>"
			case 26:
				at.Friendly = "]]>"
			case 27:
				at.Name = "a]]>b"
			case 28:
				at.Format = "]]>x"
			case 29:
				at.Values[0].Type = "xs:]]>"
			}
			if i >= 26 {
				sess.Custom = []mAttribute{at}
			}
		}
		relay := pick(c.Rng, []string{"", "relay", "a&b=c d"})
		res := runPipeline(setup, sess, now, relay)
		key := setup.key()
		if cdataEndInAttribute(sess) {
			cls = "cdata-end-in-attribute"
		}
		key["string_class"] = cls
		for k, v := range key {
			c.Count(k + "/" + v)
		}
		out := "refused"
		if res.accepted {
			out = "accepted"
		} else if res.stage != "" {
			out = "stopped-at-" + res.stage
		}
		c.Count("pipeline/" + out)
		var specOK *bool
		if res.stage == "panic" {
			specOK = Bptr(false)
		}
		if res.accepted && res.relayBack != relay {
			specOK = Bptr(false)
		}
		wantEnc := setup.cert && !strings.HasPrefix(setup.spKey, "ec")
		if res.accepted && res.encrypted != wantEnc { // encrypted exactly when the SP publishes an RSA certificate
			specOK = Bptr(false)
		}
		c.Count(fmt.Sprintf("encrypted/%v", res.encrypted))
		if setup.spLate > setup.effDelay() { // older than MaxIssueDelay: the SP must refuse (harness verdict)
			ok := !res.accepted && res.stage == ""
			c.Count(fmt.Sprintf("late-response-refused/%v", ok))
			c.Add(glate, &Case{Key: key, Input: map[string]any{"setup": key, "session": sess}, Obs: map[string]any{"accepted": res.accepted, "stopped_at": res.stage, "detail": res.detail},
				Term: emitBool(ok), Dedup: fmt.Sprint(c.N)})
			continue
		}
		c.Add(gs[i%len(gs)], &Case{
			Key:   key,
			Input: map[string]any{"setup": key, "session": sess, "relay_state": relay},
			Obs: map[string]any{"accepted": res.accepted, "stopped_at": res.stage, "detail": res.detail, "name_id": res.nameID, "attributes": res.attrs,
				"relay_state_back": res.relayBack, "encrypted": res.encrypted},
			Term: fmt.Sprintf("{| c7_sess := %s; c7_accepted := %s; c7_nameid := %s; c7_attrs := %s |}",
				sess.term(), emitBool(res.accepted), emitStr(res.nameID), attrsTerm(res.attrs)),
			ImplSpecOK: specOK,
		})
		// registration: once per SP configuration
		sk := fmt.Sprintf("%v|%s|%v|%v", setup.entityIDSet, setup.spKey, setup.cert, setup.signed)
		if res.spMD != nil && !setup.initiated && !seenSetup[sk] {
			seenSetup[sk] = true
			md := spMetaToModel(res.spMD)
			keyTerm := "None" // expected: encryption exactly for an RSA certificate
			if setup.cert && !strings.HasPrefix(setup.spKey, "ec") {
				keyTerm = map[string]string{"rsa_b": "(Some 2)", "rsa_c": "(Some 3)"}[setup.spKey]
			}
			c.Count("registration/" + sk)
			c.Add(gr, &Case{
				Key:   map[string]string{"class": "sp-metadata-registers", "setup": sk},
				Input: map[string]any{"sp_metadata_reparsed": md, "request_acs_url": res.reqACSURL, "request_acs_index": res.reqIndex},
				Obs:   map[string]any{},
				Term: fmt.Sprintf("{| c7r_md := %s; c7r_certs := %s; c7r_rq := {| rq_id := \"id\"; rq_version := \"2.0\"; rq_issue := 0; rq_destination := \"\"; rq_issuer := (Some %s); rq_acs_url := %s; rq_acs_index := %s |}; c7r_acs := %s; c7r_key := %s |}",
					md.term(), certTable(md), emitStr(md.Entity), emitStr(res.reqACSURL), emitStr(res.reqIndex), emitStr("https://sp.example.com/saml2/acs"), keyTerm),
			})
		}
	}
}

// validXMLChars: valid UTF-8 and every rune in the XML 1.0 Char production.
func validXMLChars(s string) bool {
	for i := 0; i < len(s); {
		r, w := utf8.DecodeRuneInString(s[i:])
		if r == utf8.RuneError && w == 1 {
			return false
		}
		if !(r == 0x9 || r == 0xA || r == 0xD || (r >= 0x20 && r <= 0xD7FF) || (r >= 0xE000 && r <= 0xFFFD) || (r >= 0x10000 && r <= 0x10FFFF)) {
			return false
		}
		i += w
	}
	return true
}

// cdataEndInAttribute: the session consists of XML characters and one of its
// strings that travel as XML attribute values contains "]]>" (known finding K4).
func cdataEndInAttribute(s mSession) bool {
	all := []string{s.Index, s.NameID, s.NameIDFormat, s.SubjectID, s.UserName, s.Email, s.CommonName, s.Surname, s.GivenName, s.ScopedAff, s.EPPN}
	all = append(all, s.Groups...)
	attrPos := []string{s.Index, s.NameIDFormat}
	for _, a := range s.Custom {
		all = append(all, a.Friendly, a.Name, a.Format)
		attrPos = append(attrPos, a.Friendly, a.Name, a.Format)
		for _, v := range a.Values {
			all = append(all, v.Type, v.Value)
			attrPos = append(attrPos, v.Type)
			if v.NameID != nil {
				all = append(all, v.NameID.Format, v.NameID.NameQualifier, v.NameID.SPNameQualifier, v.NameID.Value)
				attrPos = append(attrPos, v.NameID.Format, v.NameID.NameQualifier, v.NameID.SPNameQualifier)
			}
		}
	}
	for _, x := range all {
		if !validXMLChars(x) {
			return false
		}
	}
	for _, x := range attrPos {
		if strings.Contains(x, "]]>") {
			return true
		}
	}
	return false
}

var _ = x509.ParseCertificate
