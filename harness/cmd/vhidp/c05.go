package main

import (
	. "verifharness/internal/core"

	"fmt"
	"math/rand"
	"net/http"
	"strconv"
	"strings"
	"time"

	"github.com/crewjam/saml"
)

func init() { Props["C05"] = runC05 }

const (
	bPost     = saml.HTTPPostBinding
	bRedirect = saml.HTTPRedirectBinding
	bArtifact = saml.HTTPArtifactBinding
	bSOAP     = saml.SOAPBinding
)

const bPAOS = "urn:oasis:names:tc:SAML:2.0:bindings:PAOS"

var c05Bindings = []string{bPost, bPost, bRedirect, bRedirect, bArtifact, bSOAP, bPAOS, "urn:example:unknown", "", strings.ToLower(bPost), bPost + " "}
var c05Locs = []string{
	"https://sp.example.com/saml/acs", "https://sp.example.com/saml/acs2", "https://sp.example.com/saml/acs/",
	"https://SP.example.com/saml/acs", "https://sp.example.com/saml/acs?x=1&y=2", "https://other.example.org/acs",
	"http://sp.example.com/saml/acs",
}
var c05Indices = []int{0, 1, 2, 1, 0, -1, 10, 99, 3}
var c05ReqIndices = []string{"", "", "", "0", "1", "2", "01", "+1", "-1", "x", "99", " 1", "1 ", "3", "10", "-0", "1.0", "0x1"}

const c05Entity = "https://sp.example.com/saml/metadata"
const c05Entity2 = "https://sp2.example.com/metadata"

func genEndpoint(r *rand.Rand) mEndpoint {
	e := mEndpoint{Binding: pick(r, c05Bindings), Location: pick(r, c05Locs), Index: pick(r, c05Indices)}
	// registered metadata as it looks AFTER parsing: metadata.go blanks the Location of endpoints with a
	// binding it does not know (PAOS, legacy profiles); a Location attribute can also be literally empty
	if e.Binding == bPAOS || e.Binding == "urn:example:unknown" || r.Intn(12) == 0 {
		e.Location = ""
	}
	switch r.Intn(5) {
	case 0:
		e.Default = bptr(true)
	case 1:
		e.Default = bptr(false)
	}
	// the optional ResponseLocation attribute, with values DIFFERENT from Location: another registered
	// location, a URL that is registered nowhere, a sibling path; the IdP must never route by it
	switch r.Intn(6) {
	case 0:
		e.RL = sptr(pick(r, c05Locs))
	case 1:
		e.RL = sptr("https://attacker.example.net/collect")
	case 2:
		e.RL = sptr(e.Location + "-ack")
	}
	return e
}

func genMeta(r *rand.Rand, entity string) *mMeta {
	m := &mMeta{Entity: entity}
	nd := pick(r, []int{0, 1, 1, 1, 2, 2, 3})
	for i := 0; i < nd; i++ {
		d := mSPSSO{}
		ne := pick(r, []int{0, 1, 1, 2, 2, 3, 4})
		for j := 0; j < ne; j++ {
			d.ACS = append(d.ACS, genEndpoint(r))
		}
		m.Descs = append(m.Descs, d)
	}
	// half of the registered metadata reaches the registry through the XML parser
	m.ViaXML = r.Intn(2) == 0 && m.xmlParsable()
	return m
}

func genRegistry(r *rand.Rand) []mRegEntry {
	var reg []mRegEntry
	switch r.Intn(14) {
	case 0: // empty registry
		return reg
	case 1:
		reg = append(reg, mRegEntry{ID: c05Entity, Kind: "notexist"})
	case 2:
		reg = append(reg, mRegEntry{ID: c05Entity, Kind: pick(r, []string{"error", "wrapped-notexist"})})
	default:
		reg = append(reg, mRegEntry{ID: c05Entity, Kind: "found", MD: genMeta(r, c05Entity)})
	}
	if r.Intn(2) == 0 {
		reg = append(reg, mRegEntry{ID: c05Entity2, Kind: "found", MD: genMeta(r, c05Entity2)})
	}
	if r.Intn(3) == 0 {
		reg = append(reg, mRegEntry{ID: "urn:gone", Kind: "notexist"}, mRegEntry{ID: "urn:broken", Kind: "error"})
	}
	if r.Intn(8) == 0 { // an entry registered under the empty string
		reg = append(reg, mRegEntry{ID: "", Kind: "found", MD: genMeta(r, "")})
	}
	return reg
}

// destVariants: spellings that a URL-aware comparison would call "the same location"
func destVariants(u string) []string {
	rest := strings.TrimPrefix(u, "https://")
	out := []string{"http://" + rest, "//" + rest, "https://mallory@" + rest, "https://user:pw@" + rest, u + "#frag", "HTTPS://" + rest,
		strings.Replace(u, "idp.example.com", "idp.example.com:443", 1), strings.Replace(u, "idp.example.com", "IDP.example.com", 1),
		strings.Replace(u, "/sso", "/./sso", 1), strings.Replace(u, "/sso", "/%73so", 1)}
	if strings.Contains(u, "?") {
		out = append(out, u+"&target=other", u[:strings.Index(u, "?")])
	} else {
		out = append(out, u+"?target=other", u+"?")
	}
	return out
}

func nearMisses(s string) []string {
	out := []string{s + "x", s + "/", strings.ToUpper(s), " " + s, s + " "}
	if len(s) > 1 {
		out = append(out, s[:len(s)-1], s[1:])
	}
	return out
}

var c05Formats = []string{"2006-01-02T15:04:05.000Z", "2006-01-02T15:04:05.999Z07:00", "2006-01-02T15:04:05.000000000Z", "2006-01-02T15:04:05.000-07:00",
	"2006-01-02T15:04:05.000", "2006-01-02T15:04:05.000", "2006-01-02T15:04:05"} // the last ones: no zone designator (UTC)

func fmtInstant(r *rand.Rand, t time.Time) string {
	f := pick(r, c05Formats)
	switch f {
	case "2006-01-02T15:04:05.000-07:00":
		return t.In(time.FixedZone("x", pick(r, []int{3600, -5 * 3600, 19800}))).Format(f)
	}
	return t.UTC().Format(f)
}

// genIssue picks an IssueInstant relative to the freshness limit now-delay.
func genIssue(r *rand.Rand, cfg mCfg, now time.Time) (*string, string) {
	ms := time.Millisecond
	limit := now.Add(-cfg.Delay) // oldest accepted instant
	type opt struct {
		class string
		t     time.Time
	}
	opts := []opt{
		{"now", now}, {"now", now}, {"limit", limit}, {"limit-1ms", limit.Add(-ms)}, {"limit+1ms", limit.Add(ms)},
		{"limit-1s", limit.Add(-time.Second)}, {"limit+1s", limit.Add(time.Second)},
		{"limit-1min", limit.Add(-time.Minute)}, {"limit+1min", limit.Add(time.Minute)},
		{"skew-limit", now.Add(-cfg.Skew)}, {"skew-limit-1ms", now.Add(-cfg.Skew - ms)}, {"skew-limit+1ms", now.Add(-cfg.Skew + ms)},
		{"2xlimit", now.Add(-2 * cfg.Delay)}, {"2xlimit+1ms", now.Add(-2*cfg.Delay + ms)},
		{"10xlimit", now.Add(-10 * cfg.Delay)}, {"10xlimit+1ms", now.Add(-10*cfg.Delay + ms)}, {"10xlimit-1ms", now.Add(-10*cfg.Delay - ms)},
		{"5xlimit", now.Add(-5 * cfg.Delay)}, {"half-limit", now.Add(-cfg.Delay / 2)},
		{"future+1min", now.Add(time.Minute)}, {"future+1y", now.AddDate(1, 0, 0)}, {"past-1y", now.AddDate(-1, 0, 0)},
		{"past-1h", now.Add(-time.Hour)}, {"past-1day", now.AddDate(0, 0, -1)},
	}
	switch r.Intn(30) {
	case 0:
		return nil, "absent"
	case 1:
		return sptr(""), "empty"
	case 2:
		return sptr(pick(r, []string{"yesterday", "2015-13-01T00:00:00Z", "2015-12-01", "2015-12-01T01:57:09", "1449000000", "2015-12-01T01:57:09.1234567891Z", "0001-01-01T00:00:00Z", "9999-12-31T23:59:59.999Z"})), "odd-text"
	}
	o := pick(r, opts)
	return sptr(fmtInstant(r, o.t)), o.class
}

func genCfg05(r *rand.Rand) mCfg {
	cfg := mCfg{SSOURL: "https://idp.example.com/saml/sso", Entity: "https://idp.example.com/saml/metadata",
		Delay: 90 * time.Second, Skew: 180 * time.Second, Key: 1}
	switch r.Intn(8) {
	case 0:
		cfg.Delay, cfg.Skew = 30*time.Second, 180*time.Second
	case 1:
		cfg.Delay, cfg.Skew = 10*time.Minute, time.Minute
	case 2:
		cfg.Delay, cfg.Skew = 0, 0
	case 3:
		cfg.Delay, cfg.Skew = time.Millisecond, time.Hour
	case 4:
		cfg.Delay, cfg.Skew = time.Duration(1+r.Intn(600))*time.Second, time.Duration(r.Intn(600))*time.Second
	case 5:
		cfg.Delay, cfg.Skew = 90*time.Second, 90*time.Second
	}
	if r.Intn(6) == 0 {
		cfg.SSOURL = "https://idp.example.com/sso?tenant=a"
	}
	return cfg
}

// knownLocations lists the locations registered for the issuer (for near-miss ACS URLs)
func knownLocations(reg []mRegEntry) []string {
	var out []string
	for _, e := range reg {
		if e.MD != nil {
			for _, d := range e.MD.Descs {
				for _, a := range d.ACS {
					out = append(out, a.Location)
				}
			}
		}
	}
	return out
}

func knownIndices(reg []mRegEntry) []int {
	var out []int
	for _, e := range reg {
		if e.MD != nil {
			for _, d := range e.MD.Descs {
				for _, a := range d.ACS {
					out = append(out, a.Index)
				}
			}
		}
	}
	return out
}

func genWire(r *rand.Rand, cfg mCfg, reg []mRegEntry, now time.Time) (mWire, map[string]string) {
	key := map[string]string{}
	w := mWire{ID: fmt.Sprintf("id-%08x", r.Uint32()), Version: "2.0", Destination: cfg.SSOURL, Issuer: sptr(c05Entity)}
	w.explicitEmptyAttr = r.Intn(6) == 0
	key["version"], key["dest"], key["issuer"] = "2.0", "correct", "registered"
	// a fresh instant by default (any of the accepted classes)
	fresh := []time.Duration{0, 0, -cfg.Delay, -cfg.Delay + time.Millisecond, -cfg.Delay + time.Second, -cfg.Delay / 2, time.Minute, 365 * 24 * time.Hour, -cfg.Delay + time.Minute}
	w.Issue = sptr(fmtInstant(r, now.Add(pick(r, fresh))))
	key["issue"] = "fresh"
	if r.Intn(5) == 0 {
		w.Destination = ""
		key["dest"] = "absent"
	}
	if r.Intn(6) == 0 && len(reg) > 1 && reg[1].ID == c05Entity2 {
		w.Issuer = sptr(c05Entity2)
		key["issuer"] = "second"
	}
	// faults: usually none or one, so that accept and each single reason to refuse are both frequent
	faults := []func(){
		func() {
			w.Version = pick(r, []string{"", "1.1", "2", "2.00", "2.0 ", " 2.0", "2.1", "1.0", "20"})
			key["version"] = "other"
		},
		func() {
			w.Destination = pick(r, append(append(nearMisses(cfg.SSOURL), destVariants(cfg.SSOURL)...), "https://evil.example.net/sso", cfg.Entity))
			key["dest"] = "forged"
		},
		func() { w.Issue, key["issue"] = genIssue(r, cfg, now) },
		func() { w.Issue, key["issue"] = genIssue(r, cfg, now) },
		func() { w.Issue, key["issue"] = genIssue(r, cfg, now) },
		func() { w.Issuer = nil; key["issuer"] = "absent" },
		func() { w.Issuer = sptr(""); key["issuer"] = "empty" },
		func() {
			w.Issuer = sptr(pick(r, append(nearMisses(c05Entity), "https://unknown.example.net/md", "urn:gone", "urn:broken")))
			key["issuer"] = "near-miss"
		},
	}
	nf := pick(r, []int{0, 0, 0, 0, 0, 0, 1, 1, 1, 1, 2, 3})
	for i := 0; i < nf; i++ {
		pick(r, faults)()
	}
	// ACS URL
	locs := knownLocations(reg)
	key["acsurl"] = "absent"
	switch r.Intn(7) {
	case 0, 1:
		if len(locs) > 0 {
			w.ACSURL = pick(r, locs)
			key["acsurl"] = "registered"
		}
	case 2:
		base := "https://sp.example.com/saml/acs"
		if len(locs) > 0 {
			base = pick(r, locs)
		}
		w.ACSURL = pick(r, append(nearMisses(base), "https://attacker.example.net/collect"))
		key["acsurl"] = "forged"
	case 3:
		w.ACSURL = pick(r, c05Locs)
		key["acsurl"] = "pool"
	}
	// ACS index
	key["acsindex"] = "absent"
	if idx := knownIndices(reg); len(idx) > 0 && len(locs) > 0 && r.Intn(8) == 0 {
		// both selectors, each naming a registered endpoint (usually different ones): the index must win
		w.ACSIndex = strconv.Itoa(pick(r, idx))
		w.ACSURL = pick(r, locs)
		key["acsindex"], key["acsurl"] = "registered", "registered-with-index"
		return w, key
	}
	switch r.Intn(5) {
	case 0, 1:
		w.ACSIndex = pick(r, c05ReqIndices)
		if w.ACSIndex != "" {
			key["acsindex"] = "given"
		}
	case 2:
		if idx := knownIndices(reg); len(idx) > 0 {
			w.ACSIndex = strconv.Itoa(pick(r, idx))
			key["acsindex"] = "registered"
		}
	}
	return w, key
}

type c05Framing struct {
	method string // GET POST PUT
	broken string // "" or kind of damage
}

func genFraming(r *rand.Rand) c05Framing {
	f := c05Framing{method: pick(r, []string{"GET", "POST"})}
	if r.Intn(14) == 0 {
		f.broken = pick(r, []string{"base64", "deflate", "not-xml", "wrong-root", "method", "empty", "truncated-xml", "get-not-deflated"})
	}
	return f
}

func (f c05Framing) build(cfg mCfg, w mWire) (*http.Request, bool) {
	x := []byte(w.xml())
	method := f.method
	val := ""
	switch f.broken {
	case "":
		val = encodeFor(method, x)
	case "base64":
		val = "!!" + encodeFor(method, x)
	case "deflate":
		method = "GET"
		val = encodeFor("POST", append([]byte{0xff, 0xff, 0xff}, x...))
	case "get-not-deflated":
		method = "GET"
		val = encodeFor("POST", x)
	case "not-xml":
		val = encodeFor(method, []byte("hello, world"))
	case "wrong-root":
		val = encodeFor(method, []byte(strings.ReplaceAll(string(x), "AuthnRequest", "LogoutRequest")))
	case "truncated-xml":
		val = encodeFor(method, x[:len(x)/2])
	case "empty":
		val = ""
	case "method":
		method = "PUT"
		val = encodeFor("GET", x)
	}
	return httpRequest(method, cfg.SSOURL, val, "relay-c05"), f.broken == ""
}

// posOf locates the selected endpoint in the registered metadata: the descriptor by its ID, the
// endpoint as the first one of that descriptor with the same content (binding, location, index,
// isDefault) — endpoints of equal content are indistinguishable to every selection predicate, so the
// first of them is the one a first-match search returns. An endpoint that is not (a copy of) a
// registered one has no position.
func posOf(md *mMeta, d *saml.SPSSODescriptor, e *saml.IndexedEndpoint) (int, int, bool) {
	if md == nil || d == nil || e == nil || !strings.HasPrefix(d.ID, "desc") {
		return 0, 0, false
	}
	di, err := strconv.Atoi(strings.TrimPrefix(d.ID, "desc"))
	exp := md.expectedACS()
	if err != nil || di < 0 || di >= len(exp) {
		return 0, 0, false
	}
	same := func(a, b *bool) bool { return (a == nil) == (b == nil) && (a == nil || *a == *b) }
	for ei, x := range exp[di] {
		if x.Binding == e.Binding && x.Location == e.Location && x.Index == e.Index && same(x.Default, e.IsDefault) {
			return di, ei, true
		}
	}
	return 0, 0, false
}

// validateObs runs NewIdpAuthnRequest + Validate on the real code.
func validateObs(idp *saml.IdentityProvider, sr *stubRegistry, r *http.Request) (term string, info map[string]any, req *saml.IdpAuthnRequest) {
	info = map[string]any{}
	defer func() {
		if p := recover(); p != nil {
			term, info["panic"] = "VPanic", fmt.Sprint(p)
			req = nil
		}
	}()
	rq, err := saml.NewIdpAuthnRequest(idp, r)
	if err != nil {
		info["new_error"] = err.Error()
		return "VErr", info, nil
	}
	if err := rq.Validate(); err != nil {
		info["validate_error"] = err.Error()
		return "VErr", info, nil
	}
	di, ei, ok := posOf(sr.metaOf(rq.ServiceProviderMetadata), rq.SPSSODescriptor, rq.ACSEndpoint)
	if !ok {
		// accepted, but the endpoint is not one of the registered ones (no tag)
		info["acs_endpoint"] = fmt.Sprintf("%+v", rq.ACSEndpoint)
		return "(VOk (-1) (-1))", info, rq
	}
	info["selected"] = fmt.Sprintf("descriptor %d endpoint %d location %s", di, ei, rq.ACSEndpoint.Location)
	return fmt.Sprintf("(VOk %d %d)", di, ei), info, rq
}

var c05Session = &saml.Session{ID: "s1", NameID: "alice", UserName: "alice", Index: "idx1", CreateTime: time.Date(2015, 12, 1, 1, 0, 0, 0, time.UTC)}

// process time zones: a designator-less IssueInstant is UTC whatever time.Local is
var c05Zones = []*time.Location{time.UTC, time.UTC, time.FixedZone("EST", -5*3600), time.FixedZone("PST", -8*3600), time.FixedZone("", -11*3600),
	time.FixedZone("IST", 5*3600+1800), time.FixedZone("", 2*3600), time.FixedZone("", 13*3600)}

func c05One(c *Ctx, g *Group, cfg mCfg, reg []mRegEntry, now time.Time, w mWire, fr c05Framing, key map[string]string) {
	zone := pick(c.Rng, c05Zones)
	oldLocal := time.Local
	time.Local = zone
	defer func() { time.Local = oldLocal }()
	key["process_zone"] = now.In(zone).Format("-07:00")
	sr := &stubRegistry{entries: reg}
	idp := newIDP(cfg, sr, c05Session)
	var vterm string
	var vinfo map[string]any
	var hobs httpObs
	decodable := true
	withGlobals(cfg, now, func() {
		r1, ok := fr.build(cfg, w)
		decodable = ok
		vterm, vinfo, _ = validateObs(idp, sr, r1)
		r2, _ := fr.build(cfg, w)
		hobs = observeHTTP(func(rw http.ResponseWriter) { idp.ServeSSO(rw, r2) })
	})
	framed := "Undecodable"
	if decodable {
		framed = "(Decoded " + w.term() + ")"
	}
	key["binding"] = fr.method
	key["framing"] = fr.broken
	cls := "err"
	if strings.HasPrefix(vterm, "(VOk") {
		cls = "ok"
	} else if vterm == "VPanic" {
		cls = "panic"
	}
	for k, v := range key {
		c.Count(k + "/" + v)
	}
	c.Count("validate/" + cls)
	c.Count("http/" + hobs.Kind)
	c.Count(fmt.Sprintf("cfg/delay=%s,skew=%s", cfg.Delay, cfg.Skew))
	c.Add(g, &Case{
		Key: key,
		Input: map[string]any{"cfg": cfg, "now": now.Format(time.RFC3339Nano), "registry": reg, "request_xml": w.xml(),
			"http_method": fr.method, "framing_damage": fr.broken},
		Obs: map[string]any{"validate": vterm, "detail": vinfo, "serve_sso_status": hobs.Code, "serve_sso_kind": hobs.Kind, "form_action": hobs.Action},
		Term: fmt.Sprintf("{| c5_cfg := %s; c5_reg := %s; c5_now := %s; c5_req := %s; c5_obs := %s; c5_http := %s |}",
			cfg.term(), regTerm(reg), emitTime(now), framed, vterm, hobs.term()),
		Trivial: !decodable,
	})
}

var c05Nows = []time.Time{
	time.Date(2015, 12, 1, 1, 57, 9, 123000000, time.UTC),
	time.Date(2024, 2, 29, 23, 59, 59, 999000000, time.UTC),
	time.Date(2030, 1, 1, 0, 0, 0, 0, time.UTC),
}

func runC05(c *Ctx) {
	g := c.Group("val", []string{"IdPModel"}, "c05case", "check_c05")
	gi := c.Group("init", []string{"IdPModel"}, "c05icase", "check_c05i")
	r := c.Rng
	defer seqC05(c, c.Group("hist", []string{"IdPModel"}, "c05case", "check_c05"))

	// --- systematic block: one valid base request, every dimension varied alone, against crafted metadata ---
	t, f := bptr(true), bptr(false)
	crafted := []*mMeta{
		// single endpoint (the shape the repository's tests use)
		{Entity: c05Entity, Descs: []mSPSSO{{ACS: []mEndpoint{{bPost, c05Locs[0], 1, nil, nil}}}}},
		// index and location disagree; default flag on a non-browser binding; several descriptors
		{Entity: c05Entity, Descs: []mSPSSO{
			{ACS: []mEndpoint{{bArtifact, c05Locs[1], 0, t, nil}, {bRedirect, c05Locs[0], 1, nil, nil}, {bPost, c05Locs[2], 2, f, nil}}},
			{ACS: []mEndpoint{{bPost, c05Locs[0], 1, t, nil}, {bPost, c05Locs[5], 3, nil, nil}}}}},
		// only non-browser bindings
		{Entity: c05Entity, Descs: []mSPSSO{{ACS: []mEndpoint{{bArtifact, c05Locs[0], 0, t, nil}, {bSOAP, c05Locs[1], 1, nil, nil}}}}},
		// first descriptor empty, default later, duplicate locations with different bindings
		{Entity: c05Entity, Descs: []mSPSSO{{}, {ACS: []mEndpoint{{bRedirect, c05Locs[0], 0, nil, nil}, {bPost, c05Locs[0], 1, nil, nil}, {bPost, c05Locs[1], 1, t, nil}}}}},
		// no descriptors at all
		{Entity: c05Entity},
		// blank-Location endpoints (parser-blanked PAOS, literally empty) before, between and after the good ones
		{Entity: c05Entity, Descs: []mSPSSO{{ACS: []mEndpoint{{bPAOS, "", 0, nil, nil}, {bPost, c05Locs[0], 1, nil, nil}, {bRedirect, c05Locs[1], 2, nil, nil}}}}},
		{Entity: c05Entity, Descs: []mSPSSO{{ACS: []mEndpoint{{bPost, c05Locs[0], 1, nil, nil}, {bPAOS, "", 2, t, nil}, {bPost, "", 3, nil, nil}, {bPost, c05Locs[1], 4, nil, nil}}}}},
		{Entity: c05Entity, Descs: []mSPSSO{{ACS: []mEndpoint{{bArtifact, c05Locs[1], 0, nil, nil}}}, {ACS: []mEndpoint{{bPost, c05Locs[0], 1, nil, nil}, {bPAOS, "", 5, nil, nil}, {bPAOS, "", 5, nil, nil}}}}},
		{Entity: c05Entity, Descs: []mSPSSO{{ACS: []mEndpoint{{bPAOS, "", 7, nil, nil}}}, {ACS: []mEndpoint{{"urn:example:unknown", "", 8, f, nil}}}}},
		{Entity: c05Entity, Descs: []mSPSSO{{ACS: []mEndpoint{{bRedirect, "", 1, t, nil}, {bPost, c05Locs[0], 1, nil, nil}}}}},
		// isDefault=false everywhere, redirect first
		{Entity: c05Entity, Descs: []mSPSSO{{ACS: []mEndpoint{{bRedirect, c05Locs[1], 5, f, nil}, {bPost, c05Locs[0], -1, f, nil}}}}},
	}
	// every crafted shape also as a parsed XML document whose endpoints carry a ResponseLocation that is
	// another registered location or an unregistered URL
	for _, md := range append([]*mMeta{}, crafted...) {
		cp := &mMeta{Entity: md.Entity, ViaXML: true}
		for _, d := range md.Descs {
			nd := mSPSSO{}
			for i, e := range d.ACS {
				e.RL = sptr([]string{c05Locs[1], "https://attacker.example.net/collect", e.Location + "-ack", c05Locs[0]}[i%4])
				nd.ACS = append(nd.ACS, e)
			}
			cp.Descs = append(cp.Descs, nd)
		}
		if cp.xmlParsable() {
			crafted = append(crafted, cp)
		}
	}
	for _, md := range crafted {
		for _, now := range c05Nows[:1] {
			cfg := genCfg05(rand.New(rand.NewSource(1)))
			cfg.Delay, cfg.Skew = 90*time.Second, 180*time.Second
			reg := []mRegEntry{{ID: c05Entity, Kind: "found", MD: md}, {ID: "urn:gone", Kind: "notexist"}, {ID: "urn:broken", Kind: "error"}}
			base := mWire{ID: "id-base", Version: "2.0", Issue: sptr(now.Format("2006-01-02T15:04:05.000Z")), Destination: cfg.SSOURL, Issuer: sptr(c05Entity)}
			vary := []func(w *mWire){func(w *mWire) {}}
			for _, idx := range c05ReqIndices {
				idx := idx
				vary = append(vary, func(w *mWire) { w.ACSIndex = idx })
				vary = append(vary, func(w *mWire) { w.ACSIndex = idx; w.ACSURL = "https://attacker.example.net/collect" })
				vary = append(vary, func(w *mWire) { w.ACSIndex = idx; w.ACSURL = c05Locs[0] })
			}
			for _, u := range append(append([]string{}, c05Locs...), append(nearMisses(c05Locs[0]), "https://attacker.example.net/collect")...) {
				u := u
				vary = append(vary, func(w *mWire) { w.ACSURL = u })
			}
			for _, d := range []time.Duration{0, -89 * time.Second, -90 * time.Second, -90*time.Second - time.Millisecond, -90*time.Second + time.Millisecond, -91 * time.Second,
				-2 * time.Minute, -179 * time.Second, -180 * time.Second, -181 * time.Second, -15 * time.Minute, -15*time.Minute + time.Millisecond, -900 * time.Second, time.Minute, -365 * 24 * time.Hour} {
				d := d
				vary = append(vary, func(w *mWire) { w.Issue = sptr(now.Add(d).Format("2006-01-02T15:04:05.000Z")) })
			}
			for _, d := range []time.Duration{0, -89 * time.Second, -90 * time.Second, -91 * time.Second, -30 * time.Minute, -time.Hour, -5 * time.Hour, -8*time.Hour + time.Minute,
				-11 * time.Hour, -13 * time.Hour, 2 * time.Hour, 5*time.Hour + 30*time.Minute} { // designator-less text, hours old / ahead
				d := d
				vary = append(vary, func(w *mWire) { w.Issue = sptr(now.Add(d).UTC().Format("2006-01-02T15:04:05.000")) },
					func(w *mWire) { w.Issue = sptr(now.Add(d).UTC().Format("2006-01-02T15:04:05.000")) })
			}
			vary = append(vary, func(w *mWire) { w.Issue = nil }, func(w *mWire) { w.Issuer = nil }, func(w *mWire) { w.Issuer = sptr("") },
				func(w *mWire) { w.Issuer = sptr("urn:gone") }, func(w *mWire) { w.Issuer = sptr("urn:broken") },
				func(w *mWire) { w.Destination = "" }, func(w *mWire) { w.Destination = cfg.SSOURL + "/" }, func(w *mWire) { w.Destination = cfg.Entity },
				func(w *mWire) { w.Version = "" }, func(w *mWire) { w.Version = "1.1" }, func(w *mWire) { w.Version = "2.00" })
			for _, d := range destVariants(cfg.SSOURL) {
				d := d
				vary = append(vary, func(w *mWire) { w.Destination = d })
			}
			for _, e := range md.Descs {
				for _, a := range e.ACS { // index of one registered endpoint with the URL of every other registered endpoint
					for _, l := range c05Locs[:3] {
						a, l := a, l
						vary = append(vary, func(w *mWire) { w.ACSIndex = strconv.Itoa(a.Index); w.ACSURL = l })
					}
				}
			}
			for _, n := range nearMisses(c05Entity) {
				n := n
				vary = append(vary, func(w *mWire) { w.Issuer = sptr(n) })
			}
			vary = append(vary, func(w *mWire) { w.explicitEmptyAttr = true }, // AssertionConsumerServiceURL="" written explicitly
				func(w *mWire) { w.explicitEmptyAttr = true; w.ACSIndex = "77" }, func(w *mWire) { w.ACSIndex = "77" }, func(w *mWire) { w.ACSIndex = "5" },
				func(w *mWire) { w.ACSIndex = "77"; w.ACSURL = c05Locs[1] })
			for vi, v := range vary {
				w := base
				v(&w)
				fr := c05Framing{method: []string{"GET", "POST"}[vi%2]}
				c05One(c, g, cfg, reg, now, w, fr, map[string]string{"class": "systematic"})
			}
		}
	}

	// --- random block ---
	n := 1400
	if c.Thorough() {
		n = 38000
	}
	for i := 0; i < n; i++ {
		cfg := genCfg05(r)
		reg := genRegistry(r)
		now := pick(r, c05Nows)
		w, key := genWire(r, cfg, reg, now)
		key["class"] = "random"
		c05One(c, g, cfg, reg, now, w, genFraming(r), key)
	}

	// --- IdP-initiated launches ---
	ni := 250
	if c.Thorough() {
		ni = 4000
	}
	for i := 0; i < ni; i++ {
		cfg := genCfg05(r)
		var reg []mRegEntry
		if i < len(crafted) {
			reg = []mRegEntry{{ID: c05Entity, Kind: "found", MD: crafted[i]}}
		} else {
			reg = genRegistry(r)
		}
		spid := pick(r, []string{c05Entity, c05Entity, c05Entity, c05Entity, c05Entity, c05Entity, c05Entity, c05Entity2, "urn:gone", "urn:broken", "https://unknown.example.net/md", c05Entity + "/", ""})
		c05Initiated(c, gi, cfg, reg, pick(r, c05Nows), spid)
	}
}

func c05Initiated(c *Ctx, g *Group, cfg mCfg, reg []mRegEntry, now time.Time, spid string) {
	sr := &stubRegistry{entries: reg}
	idp := newIDP(cfg, sr, c05Session)
	var hobs httpObs
	withGlobals(cfg, now, func() {
		r := httptestGet(cfg.SSOURL)
		hobs = observeHTTP(func(rw http.ResponseWriter) { idp.ServeIDPInitiated(rw, r, spid, "relay-init") })
	})
	pos := "None"
	var recip string
	if hobs.Kind == "form" {
		// which registered endpoint was used: Destination of the response names a location; positions are
		// recovered from the tag only through Validate, so here the location is compared by the model
		recip = hobs.Action
	}
	c.Count("init/http/" + hobs.Kind)
	c.Add(g, &Case{
		Key:   map[string]string{"class": "idp-initiated", "http": hobs.Kind},
		Input: map[string]any{"cfg": cfg, "registry": reg, "service_provider_id": spid},
		Obs:   map[string]any{"status": hobs.Code, "kind": hobs.Kind, "form_action": recip},
		Term: fmt.Sprintf("{| c5i_cfg := %s; c5i_reg := %s; c5i_spid := %s; c5i_http := %s; c5i_pos := %s |}",
			cfg.term(), regTerm(reg), emitStr(spid), hobs.term(), pos),
		Trivial: hobs.Kind == "404",
	})
}
